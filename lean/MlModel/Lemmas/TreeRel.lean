import MlModel.Lemmas.TreeMany
/-!
# Structural equality up to a relation on leaves (`SEqL`), slot positions, and "setting the leaf at an
existing leaf path keeps the shape" (used for `apply`).
-/
namespace MlModel.Tree

/-- Like `SEq`, but two cells may also be related by `L` instead of being compared structurally
(`L` is used at the leaves: "the new leaf is the image of the old leaf"). -/
inductive SEqL (L : Ref → Ref → Prop) (h1 h2 : Heap) : Ref → Ref → Prop
  | leaf {a b : Ref} : L a b → SEqL L h1 h2 a b
  | node {a b : Ref} {n1 n2 : Node} : h1[a]? = some n1 → h2[b]? = some n2 → n1.skel = n2.skel →
      (∀ (i : Nat) (c1 c2 : Ref), n1.refs[i]? = some c1 → n2.refs[i]? = some c2 → SEqL L h1 h2 c1 c2) →
      SEqL L h1 h2 a b

theorem SEqL.mono {L L' : Ref → Ref → Prop} (hLL : ∀ a b, L a b → L' a b) {h1 h2 : Heap} {a b : Ref}
    (s : SEqL L h1 h2 a b) : SEqL L' h1 h2 a b := by
  induction s with
  | leaf hl => exact .leaf (hLL _ _ hl)
  | node e1 e2 hsk _ ih => exact .node e1 e2 hsk ih

/-- The left-hand heap may be replaced by one that agrees on a region containing the left tree. -/
theorem SEqL.left_agree {L : Ref → Ref → Prop} {A : Ref → Prop} {hA h'' h : Heap} (hR : Region A hA)
    (hag : ∀ r, A r → h''[r]? = hA[r]?) {a b : Ref} (s : SEqL L hA h a b) (ha : A a) : SEqL L h'' h a b := by
  induction s with
  | leaf hl => exact .leaf hl
  | @node a b n1 n2 e1 e2 hsk _ ih =>
    refine .node (by rw [hag a ha]; exact e1) e2 hsk ?_
    intro i c1 c2 g1 g2
    exact ih i c1 c2 g1 g2 (hR.closed a n1 ha e1 c1 (List.mem_of_getElem? g1))

/-- A finite tree is `SEqL`-equal to itself when every leaf cell is `L`-related to itself. -/
theorem SEqL.refl_of_WF {L : Ref → Ref → Prop} {A : Ref → Prop} {h h'' : Heap} (hR : Region A h)
    (hag : ∀ r, A r → h''[r]? = h[r]?) (hL : ∀ r n, h[r]? = some n → n.children = [] → L r r)
    {d : Ref} (w : WF h d) (hd : A d) : SEqL L h'' h d d := by
  induction w with
  | @mk r n hn hch ih =>
    by_cases hc : n.children = []
    · exact .leaf (hL r n hn hc)
    · refine .node (by rw [hag r hd]; exact hn) hn rfl ?_
      intro i c1 c2 g1 g2
      rw [g1] at g2; cases g2
      have hm := List.mem_of_getElem? g1
      exact ih c1 hm (hR.closed r n hd hn c1 hm)

/-! ## slot positions -/

def dictPos : List (DKey × Ref) → DKey → Option Nat
  | [], _ => none
  | (k', _) :: es, k => if k'.norm = k.norm then some 0 else (dictPos es k).map (· + 1)

theorem dictPos_norm (es : List (DKey × Ref)) (k : DKey) : dictPos es k.norm = dictPos es k := by
  induction es with
  | nil => rfl
  | cons e es ih => obtain ⟨k', v'⟩ := e; simp [dictPos, ih]

/-- The position in `n.refs` that key `k` addresses (depends only on the skeleton of `n`). -/
def Node.slotPos : Node → PKey → Option Nat
  | .dict es, k => dictPos es k.toDKey
  | .list rs, k | .tuple rs, k => k.asInt.bind (resolveIdx rs.length)
  | _, _ => none

theorem dictPos_get (es : List (DKey × Ref)) (k : DKey) :
    dictGet es k = (dictPos es k).bind fun j => (es.map (·.2))[j]? := by
  induction es with
  | nil => simp [dictGet, dictPos]
  | cons e es ih =>
    obtain ⟨k0, v0⟩ := e
    by_cases hk : k0.norm = k.norm
    · simp [dictGet, dictPos, hk]
    · simp only [dictGet, dictPos, hk, if_false, ih]
      cases dictPos es k <;> simp

theorem dictPos_keys {es es' : List (DKey × Ref)} (hk : es.map (·.1) = es'.map (·.1)) (k : DKey) :
    dictPos es k = dictPos es' k := by
  induction es generalizing es' with
  | nil => cases es' with
    | nil => rfl
    | cons _ _ => simp at hk
  | cons e es ih =>
    cases es' with
    | nil => simp at hk
    | cons e' es' =>
      obtain ⟨k0, v0⟩ := e
      obtain ⟨k1, v1⟩ := e'
      simp only [List.map_cons, List.cons.injEq] at hk
      obtain ⟨rfl, hk'⟩ := hk
      simp [dictPos, ih hk']

theorem dictPos_lt {es : List (DKey × Ref)} {k : DKey} {j : Nat} (h : dictPos es k = some j) : j < es.length := by
  induction es generalizing j with
  | nil => simp [dictPos] at h
  | cons e es ih =>
    obtain ⟨k0, v0⟩ := e
    by_cases hk : k0.norm = k.norm
    · simp [dictPos, hk] at h; subst h; simp
    · simp only [dictPos, hk, if_false, Option.map_eq_some_iff] at h
      obtain ⟨j', hj', rfl⟩ := h
      have := ih hj'; simp; omega

theorem dictSet_at_pos {es : List (DKey × Ref)} {k : DKey} {j : Nat} (h : dictPos es k = some j) (c : Ref) :
    (dictSet es k c).map (·.2) = (es.map (·.2)).set j c ∧ (dictSet es k c).map (·.1) = es.map (·.1) := by
  induction es generalizing j with
  | nil => simp [dictPos] at h
  | cons e es ih =>
    obtain ⟨k0, v0⟩ := e
    by_cases hk : k0.norm = k.norm
    · simp [dictPos, hk] at h; subst h; simp [dictSet, hk]
    · simp only [dictPos, hk, if_false, Option.map_eq_some_iff] at h
      obtain ⟨j', hj', rfl⟩ := h
      obtain ⟨h1, h2⟩ := ih hj'
      simp [dictSet, hk, h1, h2]

theorem Node.slotGet_pos (n : Node) (k : PKey) :
    n.slotGet k = match (n.slotPos k).bind (n.refs[·]?) with
      | some c => .ok c
      | none => match n with
        | .list _ | .tuple _ => if k.asInt.isNone then .error .type else .error .index
        | .nd _ _ _ | .buf _ => .error .other
        | _ => .error .key := by
  cases n with
  | dict es =>
    simp only [Node.slotGet, Node.slotPos, Node.refs, dictPos_get]
    cases (dictPos es k.toDKey).bind fun j => (es.map (·.2))[j]? <;> rfl
  | list rs =>
    simp only [Node.slotGet, seqGet, Node.slotPos, Node.refs]
    cases hi : k.asInt with
    | none => simp
    | some i => simp only [Option.bind_some]; cases (resolveIdx rs.length i).bind (rs[·]?) <;> simp
  | tuple rs =>
    simp only [Node.slotGet, seqGet, Node.slotPos, Node.refs]
    cases hi : k.asInt with
    | none => simp
    | some i => simp only [Option.bind_some]; cases (resolveIdx rs.length i).bind (rs[·]?) <;> simp
  | leaf v => simp [Node.slotGet, Node.slotPos]
  | null => simp [Node.slotGet, Node.slotPos]
  | nd _ _ _ => simp [Node.slotGet, Node.slotPos]
  | buf _ => simp [Node.slotGet, Node.slotPos]

theorem Node.slotGet_ok_iff {n : Node} {k : PKey} {c : Ref} :
    n.slotGet k = .ok c ↔ ∃ j, n.slotPos k = some j ∧ n.refs[j]? = some c := by
  rw [Node.slotGet_pos]
  cases hp : n.slotPos k with
  | none =>
    simp only [Option.bind_none]
    constructor
    · intro h; cases n <;> simp at h <;> split at h <;> cases h
    · rintro ⟨j, hj, _⟩; cases hj
  | some j =>
    simp only [Option.bind_some]
    cases hr : n.refs[j]? with
    | none =>
      constructor
      · intro h; cases n <;> simp at h <;> split at h <;> cases h
      · rintro ⟨j', hj', hc'⟩; cases hj'; rw [hr] at hc'; cases hc'
    | some c' =>
      simp only [Except.ok.injEq]
      constructor
      · rintro rfl; exact ⟨j, rfl, hr⟩
      · rintro ⟨j', hj', hc'⟩; cases hj'; rw [hr] at hc'; cases hc'; rfl

theorem Node.skel_length {n1 n2 : Node} (h : n1.skel = n2.skel) : n1.refs.length = n2.refs.length := by
  cases n1 <;> cases n2 <;> simp [Node.skel] at h <;> simp [Node.refs]
  · have := congrArg List.length h; simpa using this
  · exact h
  · exact h

theorem Node.slotPos_skel {n1 n2 : Node} (h : n1.skel = n2.skel) (k : PKey) : n1.slotPos k = n2.slotPos k := by
  have hl := Node.skel_length h
  cases n1 <;> cases n2 <;> simp [Node.skel] at h <;> simp only [Node.slotPos, Node.refs] at hl ⊢
  · rename_i es es'
    apply dictPos_keys
    have := congrArg (List.map (·.1)) h
    simpa [List.map_map, Function.comp_def] using this
  · rw [hl]
  · rw [hl]

/-- Putting `c` at an existing position `j`: the skeleton stays, `refs` is updated at `j`. -/
theorem Node.slotPut_at_pos {n n' : Node} {k : PKey} {j : Nat} {c : Ref} (hp : n.slotPos k = some j)
    (hj : j < n.refs.length) (hput : n.slotPut k c = some n') :
    n'.skel = n.skel ∧ n'.refs = n.refs.set j c := by
  cases n with
  | dict es =>
    simp only [Node.slotPos] at hp
    simp [Node.slotPut] at hput; subst hput
    rw [← PKey.stored_norm, dictPos_norm] at hp
    obtain ⟨h1, h2⟩ := dictSet_at_pos hp c
    refine ⟨?_, h1⟩
    simp only [Node.skel, Node.dict.injEq]
    have e : ∀ l : List (DKey × Ref), l.map (fun e => (e.1, 0)) = (l.map (·.1)).map (fun k => (k, 0)) := by
      intro l; simp
    rw [e, e, h2]
  | list rs =>
    simp only [Node.slotPos, Node.refs] at hp hj
    cases hi : k.asInt with
    | none => simp [hi] at hp
    | some i =>
      simp only [hi, Option.bind_some] at hp
      have hne : i ≠ (rs.length : Int) := by
        intro e; rw [e, resolveIdx_len_none] at hp; cases hp
      simp [Node.slotPut, seqPut, hi, hne, hp] at hput
      subst hput
      simp [Node.skel, Node.refs]
  | tuple rs =>
    simp only [Node.slotPos, Node.refs] at hp hj
    cases hi : k.asInt with
    | none => simp [hi] at hp
    | some i =>
      simp only [hi, Option.bind_some] at hp
      have hne : i ≠ (rs.length : Int) := by
        intro e; rw [e, resolveIdx_len_none] at hp; cases hp
      simp [Node.slotPut, seqPut, hi, hne, hp] at hput
      subst hput
      simp [Node.skel, Node.refs]
  | leaf v => simp [Node.slotPos] at hp
  | null => simp [Node.slotPos] at hp
  | nd _ _ _ => simp [Node.slotPos] at hp
  | buf _ => simp [Node.slotPos] at hp

end MlModel.Tree

namespace MlModel.Tree

/-- **Setting the leaf at an existing leaf path keeps the shape**: if the current tree `tA` (in `hA`) is
`SEqL L`-equal to the original tree `b` (in `h`), and `p` is a leaf path of the original ending in the
leaf `x`, then after `copy_and_set(p, v)` the new tree is again equal to the original up to `L`, where
now additionally `v` stands for `x`.  (Strengthened for the induction as `setPath_frame`.) -/
theorem setPath_rel (strict : Bool) {h : Heap} (hg : GoodDicts h) {L : Ref → Ref → Prop}
    (hL : ∀ a b, L a b → ∃ n, h[b]? = some n ∧ n.children = []) {b : Ref} {p : Path} {x : Ref}
    (w : LeafWalk h b p x) : ∀ (hA : Heap) (tA v : Ref) (h' : Heap) (t' : Ref) (A : Ref → Prop),
    SEqL L hA h tA b → Region A hA → A tA → setPath strict false hA tA p v = (h', .ok t') →
    ∀ h'' : Heap, (∀ r, A r → h''[r]? = hA[r]?) → (∀ r, hA.size ≤ r → r < h'.size → h''[r]? = h'[r]?) →
    SEqL (fun a' b' => L a' b' ∨ (a' = v ∧ b' = x)) h'' h t' b := by
  induction w with
  | @leaf r n hn hc =>
    intro hA tA v h' t' A _ _ _ hs h'' _ _
    simp [setPath] at hs; obtain ⟨_, rfl⟩ := hs
    exact .leaf (Or.inr ⟨rfl, rfl⟩)
  | @step r n2 k c2 q x e2 hmem w' ih =>
    intro hA tA v h' t' A s hR hAt hs h'' hagA hagF
    cases s with
    | leaf hl =>
      obtain ⟨n, hn, hc⟩ := hL _ _ hl
      rw [e2] at hn; cases hn
      rw [hc] at hmem; cases hmem
    | @node _ _ n1 n2' e1 e2' hsk hch =>
      rw [e2] at e2'; cases e2'
      obtain ⟨hsl2, hkp⟩ := children_slotGet hg e2 hmem
      obtain ⟨j, hpos2, hj2⟩ := Node.slotGet_ok_iff.mp hsl2
      have hpos1 : n1.slotPos k = some j := by rw [Node.slotPos_skel hsk]; exact hpos2
      have hjlt2 : j < n2.refs.length := by
        rcases Nat.lt_or_ge j n2.refs.length with h1 | h1
        · exact h1
        · rw [List.getElem?_eq_none h1] at hj2; cases hj2
      have hjlt1 : j < n1.refs.length := by rw [Node.skel_length hsk]; exact hjlt2
      obtain ⟨c1, hj1⟩ : ∃ c1, n1.refs[j]? = some c1 := ⟨n1.refs[j], List.getElem?_eq_getElem hjlt1⟩
      have hsl1 : n1.slotGet k = .ok c1 := Node.slotGet_ok_iff.mpr ⟨j, hpos1, hj1⟩
      have hk1 := PKey.isPlain_ne_self hkp
      have hk2 := PKey.isPlain_ne_skip hkp
      have hnull : n1 ≠ .null := by intro e; subst e; simp [Node.slotGet] at hsl1
      obtain ⟨hm, child, hc, c, n', hext, hlt, hslot, hrec, hput, hcell, htq, hmc, hch', hsame⟩ :=
        setPath_step hk1 hk2 e1 hnull (Node.slotGet_not_nd hsl1) hs
      have hchild : child = c1 := by
        rcases hslot with h1 | ⟨h1, _, _⟩
        · rw [hsl1] at h1; cases h1; rfl
        · exact absurd hsl1 (h1 c1)
      subst hchild
      have hAc : A child := hR.closed tA n1 hAt e1 child (List.mem_of_getElem? hj1)
      have hagm : ∀ r, A r → hm[r]? = hA[r]? := fun r hr => hext.2 r (hR.lt r hr)
      have hRm : Region A hm :=
        ⟨fun r hr => Nat.lt_of_lt_of_le (hR.lt r hr) hext.1,
         fun r n' hr hn' => by rw [hagm r hr] at hn'; exact hR.closed r n' hr hn'⟩
      have hagA' : ∀ r, A r → h''[r]? = hm[r]? := fun r hr => by rw [hagA r hr, hagm r hr]
      have hagF' : ∀ r, hm.size ≤ r → r < hc.size → h''[r]? = hc[r]? := by
        intro r hr1 hr2
        rw [hagF r (by omega) (by omega), hsame r hr2 (by omega)]
      have hsub : SEqL L hm h child c2 := (hch j child c2 hj1 hj2).left_agree hR hagm hAc
      have hrecS := ih hm child v hc c A hsub hRm hAc hrec h'' hagA' hagF'
      have ht' : t' < h'.size := lt_size_of_get hcell
      have hcell'' : h''[t']? = some n' := by
        have : hA.size ≤ t' := by rcases htq with e | e <;> rw [e] <;> omega
        rw [hagF t' this ht']; exact hcell
      obtain ⟨hsk', hrefs'⟩ := Node.slotPut_at_pos hpos1 hjlt1 hput
      refine .node hcell'' e2 (hsk'.trans hsk) ?_
      intro i a1 a2 g1 g2
      rw [hrefs'] at g1
      by_cases hij : i = j
      · subst hij
        rw [List.getElem?_set_self hjlt1] at g1
        rw [hj2] at g2
        cases g1; cases g2
        exact hrecS
      · rw [List.getElem?_set_ne (Ne.symm hij)] at g1
        have hAa : A a1 := hR.closed tA n1 hAt e1 a1 (List.mem_of_getElem? g1)
        exact ((hch i a1 a2 g1 g2).left_agree hR hagA hAa).mono (fun _ _ hl => Or.inl hl)

end MlModel.Tree
