import MlModel.Model.TreeKey
import MlModel.Lemmas.TreeFlavour
/-!
# Reserved keys vs plain strings of the same spelling (work package SC18)

* the shipped `_is_key` accepts exactly the reserved objects (`isKey_self_iff`, `isKey_skip_iff`): never a plain
  string, whatever it spells;
* `getCoreK isKey = getCore`, `defaultTreeK isKey = defaultTree`, `setPathK isKey = setPath`: the model with the
  explicit `_is_key` calls IS the model of `Model/Tree.lean`, so every C18 theorem is a theorem about it;
* the by-value predicate of the seeded change C18-m3 accepts the plain strings too, and the implementation it gives
  drops sets through a mapping key 'SKIP' and short-circuits reads / sets through a mapping key 'SELF'.
-/
namespace MlModel.Tree

/-! ## the predicate -/

theorem isKey_self_iff (k : PKey) : isKey k .self = true ↔ k = .self := by
  cases k <;> simp [isKey, PKey.pyType, KType.sub, PKey.pyEq, PKey.toDKey]

theorem isKey_skip_iff (k : PKey) : isKey k .skip = true ↔ k = .skip := by
  cases k <;> simp [isKey, PKey.pyType, KType.sub, PKey.pyEq, PKey.toDKey]

theorem isKey_plain_self {k : PKey} (hk : k.isPlain) : isKey k .self = false := by
  cases k <;> simp_all [isKey, PKey.pyType, KType.sub, PKey.isPlain]

theorem isKey_plain_skip {k : PKey} (hk : k.isPlain) : isKey k .skip = false := by
  cases k <;> simp_all [isKey, PKey.pyType, KType.sub, PKey.isPlain]

/-- Both predicates accept the reserved objects themselves at the head tests of `_set_by_path`, so the
`case (Reserved() as reserved, *_)` arm of line 485 is never reached. -/
theorem isKey_reserved_handled (k : PKey) (hk : k.pyType = .reserved) :
    (isKey k .self = true ∨ isKey k .skip = true) ∧ (isKeyByValue k .self = true ∨ isKeyByValue k .skip = true) := by
  cases k <;> simp_all [isKey, isKeyByValue, PKey.pyType, KType.sub, PKey.pyEq, PKey.toDKey]

/-- The by-value predicate agrees with the shipped one on every key that is not a plain string … -/
theorem isKeyByValue_eq_isKey {k : PKey} (hk : ∀ s, k ≠ .str s) (o : PKey) (ho : o = .self ∨ o = .skip) :
    isKeyByValue k o = isKey k o := by
  rcases ho with rfl | rfl <;> cases k <;>
    simp_all [isKey, isKeyByValue, PKey.pyType, KType.sub, PKey.pyEq, PKey.toDKey]

/-- … and on a plain string it looks at the spelling only. -/
theorem isKeyByValue_str (s : String) :
    isKeyByValue (.str s) .self = decide (s = "SELF") ∧ isKeyByValue (.str s) .skip = decide (s = "SKIP") := by
  simp [isKeyByValue, PKey.pyType, KType.sub, PKey.pyEq, PKey.toDKey]

/-! ## the explicit-`_is_key` model with the shipped predicate is the model of `Model/Tree.lean` -/

theorem getCoreK_isKey (h : Heap) : ∀ (p : Path) (r : Ref), getCoreK isKey h r p = getCore h r p
  | [], r => by simp [getCoreK, getCore]
  | k :: ks, r => by
    have ih := getCoreK_isKey h ks
    cases k <;> simp [getCoreK, getCore, isKey, PKey.pyType, KType.sub, PKey.pyEq, PKey.toDKey, ih] <;>
      (cases index h r _ <;> rfl)

theorem getK_isKey (h : Heap) (r : Ref) (p : Path) : getK isKey h r p = get h r p := by
  simp [getK, get, getCoreK_isKey]

theorem defaultTreeK_isKey (h : Heap) : ∀ (p : Path) (v : Ref), defaultTreeK isKey h p v = defaultTree h p v
  | [], v => by simp [defaultTreeK, defaultTree]
  | k :: rest, v => by
    have ih := defaultTreeK_isKey h rest v
    cases k <;> simp [defaultTreeK, defaultTree, isKey, PKey.pyType, KType.sub, PKey.pyEq, PKey.toDKey, ih] <;> rfl

theorem setPathK_isKey (strict inPlace : Bool) :
    ∀ (p : Path) (h : Heap) (tree v : Ref), setPathK isKey strict inPlace h tree p v = setPath strict inPlace h tree p v
  | [], h, tree, v => by simp [setPathK, setPath]
  | k :: rest, h, tree, v => by
    have ih : (fun h' c => setPathK isKey strict inPlace h' c rest v) = fun h' c => setPath strict inPlace h' c rest v := by
      funext h' c; exact setPathK_isKey strict inPlace rest h' c v
    have hd := defaultTreeK_isKey h (k :: rest) v
    cases k <;>
      simp only [setPathK, setPath, isKey, PKey.pyType, KType.sub, PKey.pyEq, PKey.toDKey, ih, hd] <;> simp <;> rfl

theorem itemsK_isKey (h : Heap) (root : Ref) : itemsK isKey h root = items h root := by
  simp only [itemsK, items, getK_isKey]
  cases keysOf h root <;> rfl

/-! ## paths through a plain key -/

theorem PlainSelf.through {pre : Path} (hpre : ∀ k ∈ pre, k.isPlain = true) {k : PKey} (hk : k.isPlain = true)
    {post : Path} (hpost : PlainSelf post) : PlainSelf (pre ++ k :: post) := by
  induction pre with
  | nil => cases k <;> simp_all [PlainSelf, PKey.isPlain]
  | cons a pre ih =>
    have ha : a.isPlain = true := hpre a (by simp)
    have := ih (fun k hk => hpre k (by simp [hk]))
    cases a <;> simp_all [PlainSelf, PKey.isPlain]

theorem PlainSelf.all_plain_of_no_self : ∀ {p : Path}, PlainSelf p → (∀ k ∈ p, k ≠ .self) → ∀ k ∈ p, k.isPlain = true
  | [], _, _ => by simp
  | a :: p, hp, hns => by
    have ha : a ≠ .self := hns a (by simp)
    have hp' : a.isPlain = true ∧ PlainSelf p := by cases a <;> simp_all [PlainSelf]
    intro k hk
    rcases List.mem_cons.mp hk with rfl | hk
    · exact hp'.1
    · exact PlainSelf.all_plain_of_no_self hp'.2 (fun k hk => hns k (by simp [hk])) k hk

/-- The keys of a leaf walk are stored keys: plain, never a reserved key. -/
theorem LeafWalk.all_plain {h : Heap} (hg : GoodDicts h) {r : Ref} {q : Path} {x : Ref} (w : LeafWalk h r q x) :
    ∀ k ∈ q, k.isPlain = true := by
  induction w with
  | leaf _ _ => simp
  | @step r n k c q x hn hm _ ih =>
    intro k' hk'
    rcases List.mem_cons.mp hk' with rfl | hk'
    · exact (children_slotGet hg hn hm).2
    · exact ih k' hk'

/-! ## the by-value predicate (seeded change C18-m3): what the implementation it gives does, for EVERY heap -/

/-- a set through a mapping key spelled 'SKIP' is silently dropped … -/
theorem setPathK_byValue_skip (strict inPlace : Bool) (h : Heap) (t : Ref) (rest : Path) (v : Ref) :
    setPathK isKeyByValue strict inPlace h t (.str "SKIP" :: rest) v = (h, .ok t) := by
  simp [setPathK, isKeyByValue, PKey.pyType, KType.sub, PKey.pyEq, PKey.toDKey]

/-- … a set through a mapping key spelled 'SELF' replaces the whole (sub)tree by the value … -/
theorem setPathK_byValue_self (strict inPlace : Bool) (h : Heap) (t : Ref) (rest : Path) (v : Ref) :
    setPathK isKeyByValue strict inPlace h t (.str "SELF" :: rest) v = (h, .ok v) := by
  simp [setPathK, isKeyByValue, PKey.pyType, KType.sub, PKey.pyEq, PKey.toDKey]

/-- … a read through a mapping key spelled 'SELF' returns the enclosing (sub)tree … -/
theorem getK_byValue_self (h : Heap) (t : Ref) (rest : Path) :
    getK isKeyByValue h t (.str "SELF" :: rest) = .ok t := by
  simp [getK, getCoreK, isKeyByValue, PKey.pyType, KType.sub, PKey.pyEq, PKey.toDKey, Except.map]

/-- … while a read through 'SKIP' is the ordinary read (`__get` has no SKIP case). -/
theorem getK_byValue_skip_one {h : Heap} {t : Ref} {es : List (DKey × Ref)} {c : Ref} (ht : h[t]? = some (.dict es))
    (hd : dictGet es (.str "SKIP") = some c) : getK isKeyByValue h t [.str "SKIP"] = .ok c := by
  simp [getK, getCoreK, isKeyByValue, PKey.pyType, KType.sub, PKey.pyEq, PKey.toDKey, Except.map, index, ht,
    Node.slotGet, hd]

end MlModel.Tree
