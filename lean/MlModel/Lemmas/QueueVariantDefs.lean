import MlModel.Lemmas.QueueLiveDefs
/-!
# A termination measure for the IteratorQueue LTS — definitions

`Phi c` = shared part `potG` + the sum of the thread parts `potT`.  Intuition: `potT` bounds the
number of steps the thread can still take before the next *funding event* concerning it;
funding events carry weights in `potG` / in the remaining source items:
* `wA` per source item not yet fetched (funds fetching and putting it, `wB` of which moves into the queue),
* `wB` per queued element (funds its dequeue, the delivery, the dequeuer's `notify`/`notify_all` steps
  and the other consumers that find the queue empty afterwards),
* `wD` / `wE` per *notified* (not yet re-acquired) consumer / producer (funds its next attempt),
* `wX` once, while `exhausted` is false (funds the `notify_all` of `_set_exhausted`).
The consumer part depends on the shared state only through `xEmpty s` = queue empty and enqueueing not done
(the situation in which an attempt of `get_batch` fails).
-/
namespace MlModel.Queue

def wE : Nat := 8
def wD : Nat := 32
def wR : Nat := 40
def wFlip : Nat := 20

def wB (N : Nat) : Nat := 300 + 60 * N
def wA (N : Nat) : Nat := wB N + 100
def wX (N : Nat) : Nat := wD * N + 20

def xEmpty (s : Shared) : Bool := s.q.isEmpty && !s.enqueueDone

def srcLen (t : Thread) : Nat :=
  match t.pc with
  | .start => (match t.prog with | .producer src _ => src.length | _ => 0)
  | .done => 0
  | _ => if isProd t then t.src.length else 0

/-- `_stop_enqueue` from `tAcq` on: both `notify_all`s included -/
def tA (N : Nat) : Nat := 12 + wE * N + wD * N

def basePot (N : Nat) (x : Bool) (t : Thread) : Nat :=
  match t.pc with
  | .done => 0
  | .start =>
    (match t.prog with
     | .producer _ _ => tA N + 4
     | .getLoop => 9
     | .batchLoop _ _ => 20 + 2 * wE
     | .stopper _ => 9 + wD * N + wE * N)
  -- get_nowait, caller `get`
  | .nAcq .get => 7 | .nGet .get => 6 | .nNaErr .get => 5 + wD * N | .nRelErr .get => 4
  | .nEmp .get => 17 + wE + wD * N | .nNaOk .get => 16 + wE + wD * N | .nRelOk .get => 15 + wE
  -- get_nowait, caller `get_batch`
  | .nAcq .batch => if x then 17 + 2 * wE else 8 + wE
  | .nGet .batch => if x then 16 + 2 * wE else 7 + wE
  | .nNaErr .batch => 6 + wE + wD * N
  | .nRelErr .batch => if t.x == .empty then 15 + 2 * wE else 5 + wE
  | .nEmp .batch => 20 + 2 * wE + wR + wD * N | .nNaOk .batch => 19 + 2 * wE + wR + wD * N
  | .nRelOk .batch => 18 + 2 * wE + wR
  -- get
  | .gAcq => 8 | .gR0 => 14 + wE | .gR1 => 13 + wE | .gR2 => 12 + wE | .gR3 => 11 | .gR4 => 10 | .gRet => 9
  | .gWait => 3 | .gWake => 2 | .gRaise => 1
  -- get_batch
  | .bAcq => 19 + 2 * wE
  | .bR0 => 14 + 2 * wE | .bR1 => 13 + 2 * wE | .bR2 => 12 + 2 * wE | .bR3 => 11 + wE | .bR4 => 10 + wE
  | .bEmp => 9 + wE | .bWait => 6 | .bWake => 5 | .bRaise => 1
  | .bExit => 4 + wE | .bE1 => 3 + wE | .bE2 => 2 + wE | .bE3 => 1
  -- enqueue_from_iterator / put
  | .sAcq => tA N + 3 | .sRel => tA N + 2 | .eNext => tA N + 1
  | .pAcq => tA N + 11 + wD + wB N | .pPut => tA N + 10 + wD + wB N
  | .pWait => tA N + 9 + wD + wB N | .pWake => tA N + 8 + wD + wB N
  | .pStAcq => tA N + 9 + wD | .pStRel => tA N + 8 + wD | .pR0 => tA N + 7 + wD | .pR1 => tA N + 6 + wD
  | .pR2 => tA N + 5 + wD | .pR3 => tA N + 4 | .pR4 => tA N + 3 | .pRet => tA N + 2
  | .pRaiseT => tA N + 3 | .pExit => tA N + 2
  -- _stop_enqueue
  | .tAcq => tA N | .tR0 => 11 + wE * N + wD * N | .tR1 => 10 + wE * N + wD * N | .tR2 => 9 + wE * N + wD * N
  | .tR3 => 8 + wE * N | .tR4 => 7 + wE * N | .tS0 => 6 + wE * N | .tS1 => 5 + wE * N | .tS2 => 4 + wE * N
  | .tS3 => 3 | .tS4 => 2 | .tRel => 1
  -- maybe_stop
  | .mAcq => 8 + wD * N + wE * N | .mRel => 7 + wD * N + wE * N | .mE0 => 6 + wD * N + wE * N
  | .mE1 => 5 + wD * N + wE * N | .mE2 => 4 + wD * N | .mD0 => 3 + wD * N | .mD1 => 2 + wD * N | .mD2 => 1

/-- thread part of the measure -/
def potT (N : Nat) (x : Bool) (t : Thread) : Nat :=
  basePot N x t + wA N * srcLen t +
    (if t.pc = .done then 0 else if t.result.isEmpty then 0 else wR)

/-- shared part of the measure -/
def potG (N : Nat) (s : Shared) : Nat :=
  wB N * s.q.length + wD * s.deqNotified.length + wE * s.enqNotified.length +
    (if s.exhausted then 0 else wX N)

def Phi (c : Cfg) : Nat :=
  potG c.ths.length c.sh + (c.ths.map (potT c.ths.length (xEmpty c.sh))).sum

end MlModel.Queue
