import MlModel.Model.Agg.RollingSimple
import MlModel.Model.Agg.RollingSamplers
import MlModel.Lemmas.AggLawfulU
import Mathlib.Tactic.Ring
import Mathlib.Tactic.Linarith
import Mathlib.Algebra.Order.Field.Rat
/-!
# Lawfulness of the sum-like and order-carrying accumulators of the rolling family
-/
namespace MlModel.Agg

variable {X S R : Type}

/-- when states are compared with `=` only the unit and homomorphism laws are left to prove -/
theorem Lawful.of_eq (m : Mergeable X S R) (h0 : m.empty = m.ofBatch [])
    (hh : ∀ xs ys, m.merge (m.ofBatch xs) (m.ofBatch ys) = m.ofBatch (xs ++ ys)) : Lawful m Eq where
  refl _ := rfl
  symm h := h.symm
  trans h1 h2 := h1.trans h2
  merge_congr h1 h2 := by rw [h1, h2]
  result_congr h := by rw [h]
  empty_eq := h0
  hom := hh

theorem LawfulU.of_eq (m : Mergeable X S R)
    (hh : ∀ xs ys, m.merge (m.ofBatch xs) (m.ofBatch ys) = m.ofBatch (xs ++ ys))
    (hl : ∀ xs, m.merge m.empty (m.ofBatch xs) = m.ofBatch xs)
    (hr : ∀ xs, m.merge (m.ofBatch xs) m.empty = m.ofBatch xs)
    (he : m.merge m.empty m.empty = m.empty) : LawfulU m Eq where
  refl _ := rfl
  symm h := h.symm
  trans h1 h2 := h1.trans h2
  merge_congr h1 h2 := by rw [h1, h2]
  result_congr h := by rw [h]
  hom := hh
  unit_left := hl
  unit_right := hr
  unit_empty := he

namespace Rolling

/-! ## sums -/

@[simp] theorem rsum_nil : rsum [] = 0 := rfl
@[simp] theorem rsum_cons (x : Rat) (xs : List Rat) : rsum (x :: xs) = x + rsum xs := rfl

theorem rsum_append (xs ys : List Rat) : rsum (xs ++ ys) = rsum xs + rsum ys := by
  induction xs with
  | nil => simp
  | cons x xs ih => simp [ih, add_assoc]

theorem rsum_perm {xs ys : List Rat} (h : xs.Perm ys) : rsum xs = rsum ys := by
  induction h with
  | nil => rfl
  | cons x _ ih => simp [ih]
  | swap x y l => simp only [rsum_cons]; ring
  | trans _ _ ih1 ih2 => exact ih1.trans ih2

theorem rsum_map_perm {α : Type} {xs ys : List α} (f : α → Rat) (h : xs.Perm ys) :
    rsum (xs.map f) = rsum (ys.map f) := rsum_perm (h.map f)

/-! ## MeanState -/

theorem meanState_lawful : Lawful meanState Eq :=
  Lawful.of_eq _ rfl (by
    intro xs ys
    simp [meanState, MeanState.merge, MeanState.ofList, rsum_append])

theorem meanState_perm : PermInv meanState Eq := by
  intro xs ys h
  simp [meanState, MeanState.ofList, rsum_perm h, h.length_eq]

/-! ## R2Tjur, RRegression, SymmetricPredictionDifference -/

theorem r2Tjur_lawful : Lawful r2Tjur Eq :=
  Lawful.of_eq _ rfl (by
    intro xs ys
    simp [r2Tjur, Tjur.merge, Tjur.ofList, rsum_append])

theorem r2Tjur_perm : PermInv r2Tjur Eq := by
  intro xs ys h
  simp [r2Tjur, Tjur.ofList, rsum_map_perm _ h]

theorem r2TjurRelative_lawful : Lawful r2TjurRelative Eq :=
  Lawful.of_eq _ rfl (by
    intro xs ys
    simp [r2TjurRelative, r2Tjur, Tjur.merge, Tjur.ofList, rsum_append])

theorem r2TjurRelative_perm : PermInv r2TjurRelative Eq := by
  intro xs ys h
  simp [r2TjurRelative, r2Tjur, Tjur.ofList, rsum_map_perm _ h]

theorem rRegression_lawful (c : Bool) : Lawful (rRegression c) Eq :=
  Lawful.of_eq _ rfl (by
    intro xs ys
    simp [rRegression, RReg.merge, RReg.ofList, rsum_append])

theorem rRegression_perm (c : Bool) : PermInv (rRegression c) Eq := by
  intro xs ys h
  simp [rRegression, RReg.ofList, rsum_map_perm _ h, h.length_eq]

theorem symPredDiff_lawful : Lawful symPredDiff Eq :=
  Lawful.of_eq _ rfl (by
    intro xs ys
    simp [symPredDiff, SPD.merge, SPD.ofList, rsum_append])

theorem symPredDiff_perm : PermInv symPredDiff Eq := by
  intro xs ys h
  simp [symPredDiff, SPD.ofList, rsum_map_perm _ h, h.length_eq]

/-! ## Histogram -/

theorem zipWith_add_map_range (n : Nat) (f g : Nat → Rat) :
    List.zipWith (· + ·) ((List.range n).map f) ((List.range n).map g)
      = (List.range n).map fun i => f i + g i := by
  rw [List.zipWith_map_left, List.zipWith_map_right, List.zipWith_self]

theorem histogram_lawful (edges : List Rat) : Lawful (histogram edges) Eq :=
  Lawful.of_eq _ rfl (by
    intro xs ys
    simp only [histogram, histOf]
    rw [zipWith_add_map_range]
    apply List.map_congr_left
    intro i _
    simp [List.filter_append, rsum_append])

theorem histogram_perm (edges : List Rat) : PermInv (histogram edges) Eq := by
  intro xs ys h
  simp only [histogram, histOf]
  apply List.map_congr_left
  intro i _
  exact rsum_perm ((h.filter _).map _)

/-! ## Counter: states are compared by multiplicities -/

/-- same multiplicity for every key -/
def CounterEqv (s t : CounterS) : Prop := ∀ k, s.get k = t.get k

theorem CounterS.get_nil (k : Int) : CounterS.get [] k = 0 := rfl

theorem CounterS.get_cons (p : Int × Nat) (c : CounterS) (k : Int) :
    CounterS.get (p :: c) k = (if p.1 = k then p.2 else 0) + CounterS.get c k := by
  simp [CounterS.get]

theorem CounterS.get_inc (c : CounterS) (k : Int) (n : Nat) (k' : Int) :
    (c.inc k n).get k' = c.get k' + (if k = k' then n else 0) := by
  induction c with
  | nil => simp [CounterS.inc, CounterS.get]
  | cons p r ih =>
    obtain ⟨a, m⟩ := p
    simp only [CounterS.inc]
    by_cases h : a = k
    · subst h
      simp only [if_true, CounterS.get_cons]
      split <;> omega
    · simp only [h, if_false, CounterS.get_cons, ih]
      omega

theorem CounterS.get_merge (s o : CounterS) (k : Int) : (s.merge o).get k = s.get k + o.get k := by
  induction o generalizing s with
  | nil => simp [CounterS.merge, CounterS.get_nil]
  | cons p r ih =>
    have : CounterS.merge s (p :: r) = CounterS.merge (s.inc p.1 p.2) r := rfl
    rw [this, ih, CounterS.get_inc, CounterS.get_cons]
    omega

theorem CounterS.get_foldl_inc (xs : List Int) (c : CounterS) (k : Int) :
    (xs.foldl (fun c x => c.inc x 1) c).get k = c.get k + xs.count k := by
  induction xs generalizing c with
  | nil => simp
  | cons x xs ih =>
    simp only [List.foldl_cons, ih, CounterS.get_inc, List.count_cons]
    by_cases h : x = k <;> simp [h] <;> omega

/-- `Counter(xs)[k]` is the number of occurrences of `k` -/
theorem CounterS.get_ofList (xs : List Int) (k : Int) : (CounterS.ofList xs).get k = xs.count k := by
  simp [CounterS.ofList, CounterS.get_foldl_inc, CounterS.get_nil]

theorem counter_lawful : Lawful counter CounterEqv where
  refl _ _ := rfl
  symm h k := (h k).symm
  trans h1 h2 k := (h1 k).trans (h2 k)
  merge_congr h1 h2 k := by
    simp only [counter, CounterS.get_merge, h1 k, h2 k]
  result_congr h := funext h
  empty_eq _ := rfl
  hom xs ys k := by
    simp [counter, CounterS.get_merge, CounterS.get_ofList, List.count_append]

theorem counter_perm : PermInv counter CounterEqv := by
  intro xs ys h k
  simp [counter, CounterS.get_ofList, h.count_eq]

/-! ## MinMaxAndCount -/

theorem foldl_min_left (a b : Rat) (l : List Rat) :
    l.foldl min (min a b) = min a (l.foldl min b) := by
  induction l generalizing b with
  | nil => rfl
  | cons x l ih => simp only [List.foldl_cons]; rw [min_assoc, ih]

theorem foldl_max_left (a b : Rat) (l : List Rat) :
    l.foldl max (max a b) = max a (l.foldl max b) := by
  induction l generalizing b with
  | nil => rfl
  | cons x l ih => simp only [List.foldl_cons]; rw [max_assoc, ih]

/-- closed form of the state after `fresh.add(xs)` -/
theorem mmc_ofList_cons (x : Rat) (xs : List Rat) :
    MMC.ofList (x :: xs) = ⟨xs.length + 1, some (xs.foldl Min.min x), Max.max 0 (xs.foldl Max.max x)⟩ := by
  simp [MMC.ofList, MMC.add, MMC.fresh, lmin, lmax, ominL]

theorem mmc_ofList_nil : MMC.ofList [] = MMC.fresh := rfl

theorem minMaxAndCount_lawful : Lawful minMaxAndCount Eq :=
  Lawful.of_eq _ rfl (by
    intro xs ys
    simp only [minMaxAndCount]
    cases ys with
    | nil =>
      cases xs with
      | nil => simp [mmc_ofList_nil, MMC.merge, MMC.fresh, ominO]
      | cons x xs =>
        simp only [mmc_ofList_nil, mmc_ofList_cons, MMC.merge, MMC.fresh, ominO, List.append_nil,
          Nat.add_zero, MMC.mk.injEq, true_and]
        exact max_eq_left (le_max_left _ _)
    | cons y ys =>
      cases xs with
      | nil =>
        simp only [mmc_ofList_nil, mmc_ofList_cons, MMC.merge, MMC.fresh, ominO, List.nil_append,
          Nat.zero_add, MMC.mk.injEq, true_and]
        exact max_eq_right (le_max_left _ _)
      | cons x xs =>
        rw [List.cons_append, mmc_ofList_cons, mmc_ofList_cons, mmc_ofList_cons]
        simp only [MMC.merge, ominO, List.length_append, List.length_cons, MMC.mk.injEq]
        refine ⟨by omega, ?_, ?_⟩
        · rw [List.foldl_append, List.foldl_cons, foldl_min_left]
        · rw [List.foldl_append, List.foldl_cons, foldl_max_left, max_max_max_comm, max_self])

theorem foldl_min_perm {xs ys : List Rat} (h : xs.Perm ys) (a : Rat) :
    xs.foldl min a = ys.foldl min a := by
  induction h generalizing a with
  | nil => rfl
  | cons x _ ih => simp [ih]
  | swap x y l => simp only [List.foldl_cons]; rw [min_right_comm]
  | trans _ _ ih1 ih2 => exact (ih1 a).trans (ih2 a)

theorem foldl_max_perm {xs ys : List Rat} (h : xs.Perm ys) (a : Rat) :
    xs.foldl max a = ys.foldl max a := by
  induction h generalizing a with
  | nil => rfl
  | cons x _ ih => simp [ih]
  | swap x y l => simp only [List.foldl_cons]; rw [max_right_comm]
  | trans _ _ ih1 ih2 => exact (ih1 a).trans (ih2 a)

/-- folding `min` from a start value that occurs in the list: the start value does not matter -/
theorem foldl_min_absorb (l : List Rat) (a c : Rat) (hc : c ∈ l) :
    l.foldl min a = l.foldl min (min a c) := by
  induction l generalizing a with
  | nil => simp at hc
  | cons z l ih =>
    simp only [List.foldl_cons]
    rcases List.mem_cons.mp hc with rfl | hc
    · rw [min_right_comm, min_assoc, min_self]
    · rw [ih (min a z) hc, min_right_comm]

theorem minMaxAndCount_perm : PermInv minMaxAndCount Eq := by
  intro xs ys h
  simp only [minMaxAndCount]
  cases xs with
  | nil => rw [List.nil_perm.mp h]
  | cons x xs =>
    cases ys with
    | nil => exact absurd h.symm (by simp)
    | cons y ys =>
      rw [mmc_ofList_cons, mmc_ofList_cons]
      have hl := h.length_eq
      simp only [List.length_cons, Nat.add_right_cancel_iff] at hl
      have hmin : xs.foldl min x = ys.foldl min y := by
        have h1 : xs.foldl min x = (x :: xs).foldl min x := by simp
        have h2 : ys.foldl min y = (y :: ys).foldl min y := by simp
        have h3 : (x :: xs).foldl min x = (y :: ys).foldl min x := foldl_min_perm h x
        have hx : x ∈ y :: ys := h.subset (by simp)
        have hy : y ∈ y :: ys := by simp
        have h4 : (y :: ys).foldl min x = (y :: ys).foldl min y := by
          rw [foldl_min_absorb _ x y hy, foldl_min_absorb _ y x hx, min_comm]
        rw [h1, h3, h4, ← h2]
      have hmax : max 0 (xs.foldl max x) = max 0 (ys.foldl max y) := by
        have h1 : max 0 (xs.foldl max x) = (x :: xs).foldl max 0 := by
          rw [List.foldl_cons, foldl_max_left]
        have h2 : max 0 (ys.foldl max y) = (y :: ys).foldl max 0 := by
          rw [List.foldl_cons, foldl_max_left]
        rw [h1, h2, foldl_max_perm h]
      rw [hl, hmin, hmax]

/-! ## columns of rows -/

theorem colsOf_append {α : Type} [Inhabited α] (k : Nat) (xs ys : List (List α)) :
    colsOf k (xs ++ ys) = List.zipWith (· ++ ·) (colsOf k xs) (colsOf k ys) := by
  simp only [colsOf, List.map_append]
  rw [List.zipWith_map_left, List.zipWith_map_right, List.zipWith_self]

theorem colsOf_length {α : Type} [Inhabited α] (k : Nat) (xs : List (List α)) :
    (colsOf k xs).length = k := by simp [colsOf]

theorem zipWith_nil_append {α : Type} (cs : List (List α)) :
    List.zipWith (· ++ ·) (cs.map fun _ => ([] : List α)) cs = cs := by
  induction cs with
  | nil => rfl
  | cons c cs ih => simp [ih]

/-! ## UnboundedSampler / ValueAccumulator (order-carrying, `LawfulU`) -/

theorem unboundedSampler_lawfulU (α : Type) [Inhabited α] (k : Nat) :
    LawfulU (unboundedSampler α k) Eq := by
  refine LawfulU.of_eq _ ?_ ?_ ?_ ?_
  · intro xs ys
    simp only [unboundedSampler, US.mergeT, US.merge, US.ofCols, List.map_append, colsOf_append,
      colsOf_length, List.isEmpty_iff]
    by_cases hk : k = 0
    · subst hk; simp [colsOf]
    · have h1 : ∀ zs : List (List α), colsOf k zs ≠ [] := by
        intro zs h; have := colsOf_length k zs; rw [h] at this; exact hk this.symm
      simp [h1, colsOf_length]
  · intro xs
    simp only [unboundedSampler, US.mergeT, US.merge, US.ofCols, US.fresh, List.isEmpty_iff]
    generalize colsOf k (xs.map (·.val)) = cs
    cases cs with
    | nil => simp
    | cons c cs => simp [zipWith_nil_append]
  · intro xs
    simp [unboundedSampler, US.mergeT, US.merge, US.fresh]
  · simp [unboundedSampler, US.mergeT, US.merge, US.fresh]

theorem valueAccumulator_lawfulU (α : Type) [Inhabited α] (k : Nat) :
    LawfulU (valueAccumulator α k) Eq := by
  refine LawfulU.of_eq _ ?_ ?_ ?_ ?_
  · intro xs ys
    simp only [valueAccumulator, VA.mergeT, VA.merge, List.map_append, colsOf_append,
      colsOf_length, List.isEmpty_iff]
    by_cases hk : k = 0
    · subst hk; simp [colsOf]
    · have h1 : ∀ zs : List (List α), colsOf k zs ≠ [] := by
        intro zs h; have := colsOf_length k zs; rw [h] at this; exact hk this.symm
      simp [h1, colsOf_length]
  · intro xs
    simp only [valueAccumulator, VA.mergeT, VA.merge, List.isEmpty_iff]
    generalize colsOf k (xs.map (·.val)) = cs
    cases cs with
    | nil => simp
    | cons c cs => simp
  · intro xs
    simp [valueAccumulator, VA.mergeT, VA.merge]
  · simp [valueAccumulator, VA.mergeT, VA.merge]

/-! ## TupleMeanState (`LawfulU`) -/

theorem meanState_hom (a b : List Rat) :
    (MeanState.ofList a).merge (MeanState.ofList b) = MeanState.ofList (a ++ b) := by
  simp [MeanState.merge, MeanState.ofList, rsum_append]

theorem zipWith_meanState_merge (as bs : List (List Rat)) :
    List.zipWith MeanState.merge (as.map MeanState.ofList) (bs.map MeanState.ofList)
      = (List.zipWith (· ++ ·) as bs).map MeanState.ofList := by
  induction as generalizing bs with
  | nil => simp
  | cons a as ih =>
    cases bs with
    | nil => simp
    | cons b bs => simp [ih, MeanState.merge, MeanState.ofList, rsum_append]

theorem zipWith_meanState_fresh (cs : List (List Rat)) :
    List.zipWith MeanState.merge ((cs.map MeanState.ofList).map fun _ => MeanState.fresh)
      (cs.map MeanState.ofList) = cs.map MeanState.ofList := by
  induction cs with
  | nil => rfl
  | cons c cs ih => simp [ih, MeanState.merge, MeanState.fresh, MeanState.ofList]

theorem tupleMeanState_lawfulU (k : Nat) : LawfulU (tupleMeanState k) Eq := by
  refine LawfulU.of_eq _ ?_ ?_ ?_ ?_
  · intro xs ys
    simp only [tupleMeanState, TMS.mergeT, TMS.merge, TMS.ofCols, List.map_append, colsOf_append,
      List.isEmpty_iff, List.map_eq_nil_iff, List.length_map, colsOf_length]
    by_cases hk : k = 0
    · subst hk; simp [colsOf]
    · have h1 : ∀ zs : List (List Rat), colsOf k zs ≠ [] := by
        intro zs h; have := colsOf_length k zs; rw [h] at this; exact hk this.symm
      simp [h1, colsOf_length, meanState_hom]
  · intro xs
    simp only [tupleMeanState, TMS.mergeT, TMS.merge, TMS.ofCols, List.isEmpty_iff,
      List.map_eq_nil_iff]
    generalize colsOf k (xs.map (·.val)) = cs
    cases cs with
    | nil => simp
    | cons c cs =>
      have := zipWith_meanState_fresh (c :: cs)
      simpa using this
  · intro xs
    simp [tupleMeanState, TMS.mergeT, TMS.merge]
  · simp [tupleMeanState, TMS.mergeT, TMS.merge]

theorem colsOf_perm {k : Nat} {xs ys : List (List Rat)} (h : xs.Perm ys) :
    List.Forall₂ List.Perm (colsOf k xs) (colsOf k ys) := by
  simp only [colsOf]
  induction List.range k with
  | nil => exact .nil
  | cons j js ih => exact .cons (h.map _) ih

theorem tupleMeanState_perm (k : Nat) : PermInv (tupleMeanState k) Eq := by
  intro xs ys h
  have hv : (xs.map (·.val)).Perm (ys.map (·.val)) := h.map _
  simp only [tupleMeanState, TMS.ofCols, colsOf, List.map_map]
  apply List.map_congr_left
  intro j _
  have hp := hv.map (fun r => r.getD j default)
  rw [List.map_map, List.map_map] at hp
  show MeanState.ofList _ = MeanState.ofList _
  unfold MeanState.ofList
  rw [rsum_perm hp, hp.length_eq]

end Rolling
end MlModel.Agg
