import MlModel.Lemmas.TreeApi
/-!
# Sequences of copying sets (`setMany`: multi-key `copy_and_set`, `copy_and_update`, the sets of `apply`)
-/
namespace MlModel.Tree

theorem setMany_closed (strict : Bool) : ∀ (kvs : List (Path × Ref)) (h : Heap) (t : Ref),
    Closed h → t < h.size → (∀ kv ∈ kvs, kv.2 < h.size) →
    Closed (setMany strict false h t kvs).1 ∧ h.size ≤ (setMany strict false h t kvs).1.size ∧
      ∀ t', (setMany strict false h t kvs).2 = .ok t' → t' < (setMany strict false h t kvs).1.size := by
  intro kvs
  induction kvs with
  | nil => intro h t hc ht _; simp [setMany]; exact ⟨hc, ht⟩
  | cons kv kvs ih =>
    intro h t hc ht hv
    obtain ⟨p, v⟩ := kv
    simp only [setMany]
    obtain ⟨h1c, h1s, h1l⟩ := setPath_closed strict false p h t v hc ht (hv (p, v) (by simp))
    split
    · rename_i h1 d he
      rw [he] at h1c h1s h1l
      simp only at h1c h1s h1l
      obtain ⟨h2c, h2s, h2l⟩ := ih h1 d h1c (h1l d rfl)
        (fun kv hkv => Nat.lt_of_lt_of_le (hv kv (by simp [hkv])) h1s)
      exact ⟨h2c, Nat.le_trans h1s h2s, h2l⟩
    · rename_i h1 e he
      rw [he] at h1c h1s
      exact ⟨h1c, h1s, by intro t' ht'; cases ht'⟩

/-- Frame for a whole sequence of copying sets: a path that leaves every set path reads as before. -/
theorem setMany_frame (strict : Bool) : ∀ (kvs : List (Path × Ref)) (h : Heap) (t : Ref) (h' : Heap) (t' : Ref)
    (q : Path), Closed h → t < h.size → (∀ kv ∈ kvs, kv.2 < h.size) → (∀ kv ∈ kvs, Diverge kv.1 q) →
    setMany strict false h t kvs = (h', .ok t') → ∀ x, get h' t' q = .ok x ↔ get h t q = .ok x := by
  intro kvs
  induction kvs with
  | nil =>
    intro h t h' t' q _ _ _ _ hs x
    simp [setMany] at hs; obtain ⟨rfl, rfl⟩ := hs; exact Iff.rfl
  | cons kv kvs ih =>
    intro h t h' t' q hc ht hv hd hs x
    obtain ⟨p, v⟩ := kv
    simp only [setMany] at hs
    split at hs
    · rename_i h1 d he
      obtain ⟨h1c, h1s, h1l⟩ := setPath_closed strict false p h t v hc ht (hv (p, v) (by simp))
      rw [he] at h1c h1s h1l
      simp only at h1c h1s h1l
      have hext : Extends h h1 := by have := setPath_extends strict h t p v; rw [he] at this; exact this
      have step := setPath_frame strict (hd (p, v) (by simp)) h t v h1 d (· < h.size) h1 he hc.region ht
        (fun r hr => hext.2 r hr) (fun _ _ _ => rfl) x
      rw [← step]
      exact ih h1 d h' t' q h1c (h1l d rfl) (fun kv hkv => Nat.lt_of_lt_of_le (hv kv (by simp [hkv])) h1s)
        (fun kv hkv => hd kv (by simp [hkv])) hs x
    · cases hs

/-- Along the sequence of sets, no path has to index **into** an ndarray when it is read back right after
its own step (`NoNd` on the tree that step returned).  Trivially true of array-free data; for paths that do
index into arrays the law is by value (`C18_nd_*`). -/
def NoNdSeq (strict : Bool) : Heap → Ref → List (Path × Ref) → Prop
  | _, _, [] => True
  | h, t, (p, v) :: kvs =>
    ∀ h1 d, setPath strict false h t p v = (h1, .ok d) → NoNd h1 d p ∧ NoNdSeq strict h1 d kvs

/-- When the path can be read (by reference) in the tree **before** the set, reading it back in the tree
the set returned never indexes into an ndarray: the input-side sufficient condition for `NoNd`. -/
theorem setPath_noNd_of_get (strict : Bool) : ∀ (p : Path) (h : Heap) (t v : Ref) (h' : Heap) (t' : Ref)
    (A : Ref → Prop), PlainSelf p → Region A h → A t → (∃ x, get h t p = .ok x) →
    setPath strict false h t p v = (h', .ok t') →
    ∀ h'' : Heap, (∀ r, h.size ≤ r → r < h'.size → h''[r]? = h'[r]?) → NoNd h'' t' p := by
  intro p
  induction p with
  | nil => intro h t v h' t' A _ _ _ _ _ h'' _; simp [NoNd]
  | cons k rest ih =>
    intro h t v h' t' A hp hA hAt hg hs h'' hag
    by_cases hself : k = .self
    · subst hself; simp [NoNd]
    have hk : k.isPlain = true ∧ PlainSelf rest := by
      cases k <;> simp_all [PlainSelf]
    have hk1 := PKey.isPlain_ne_self hk.1
    have hk2 := PKey.isPlain_ne_skip hk.1
    obtain ⟨x, hg⟩ := hg
    have htlt := hA.lt t hAt
    obtain ⟨n, hn⟩ : ∃ n, h[t]? = some n := ⟨h[t], by simp [htlt]⟩
    rw [get_cons _ (Or.inl hk.1), index_of_get hn] at hg
    cases hsl : n.slotGet k with
    | error e => rw [hsl] at hg; cases hg
    | ok child =>
      rw [hsl] at hg
      simp only at hg
      have hnull : n ≠ .null := by intro e; subst e; simp [Node.slotGet] at hsl
      obtain ⟨hm, child', hc, c, n', hext, hlt, hslot, hrec, hput, hcell, htq, hmc, hch', hsame⟩ :=
        setPath_step hk1 hk2 hn hnull (Node.slotGet_not_nd hsl) hs
      have hchild : child' = child := by
        rcases hslot with h1 | ⟨h1, _, _⟩
        · rw [hsl] at h1; cases h1; rfl
        · exact absurd hsl (h1 child)
      subst hchild
      have ht' : t' < h'.size := lt_size_of_get hcell
      have hcell'' : h''[t']? = some n' := by
        have : h.size ≤ t' := by rcases htq with e | e <;> rw [e] <;> omega
        rw [hag t' this ht']; exact hcell
      have hAc : A child' := hA.closed t n hAt hn child' (Node.slotGet_mem hsl)
      have hAm : Region A hm :=
        ⟨fun r hr => Nat.lt_of_lt_of_le (hA.lt r hr) hext.1,
         fun r n' hr hn' => by
           rw [hext.2 r (hA.lt r hr)] at hn'
           exact hA.closed r n' hr hn'⟩
      have hgm : get hm child' rest = .ok x := by
        rw [get_agree hA (fun r hr => hext.2 r (hA.lt r hr)) rest hAc]; exact hg
      have hrest : NoNd h'' c rest := by
        apply ih hm child' v hc c A hk.2 hAm hAc ⟨x, hgm⟩ hrec h''
        intro r hr1 hr2
        rw [hag r (by omega) (by omega), hsame r hr2 (by omega)]
      have hget' : n'.slotGet k = .ok c := Node.slotGet_slotPut_same hput
      rw [NoNd_cons hk1]
      refine ⟨?_, ?_⟩
      · intro b o s e
        rw [hcell''] at e; cases e
        simp [Node.slotGet] at hget'
      · intro c2 hc2
        rw [index_of_get hcell'', hget'] at hc2
        cases hc2; exact hrest

/-- **Sufficient condition for `NoNdSeq`**: every path of the sequence can be read (by reference) in the
tree before the sequence, and the paths pairwise leave each other. -/
theorem NoNdSeq_of_gets (strict : Bool) : ∀ (kvs : List (Path × Ref)) (h : Heap) (t : Ref),
    Closed h → t < h.size → (∀ kv ∈ kvs, kv.2 < h.size) → (∀ kv ∈ kvs, PlainSelf kv.1) →
    kvs.Pairwise (fun a b => Diverge a.1 b.1) → (∀ kv ∈ kvs, ∃ x, get h t kv.1 = .ok x) →
    NoNdSeq strict h t kvs := by
  intro kvs
  induction kvs with
  | nil => intro h t _ _ _ _ _ _; simp [NoNdSeq]
  | cons kv0 kvs ih =>
    intro h t hc ht hv hp hpw hg
    obtain ⟨p, v⟩ := kv0
    simp only [NoNdSeq]
    intro h1 d he
    rw [List.pairwise_cons] at hpw
    obtain ⟨h1c, h1s, h1l⟩ := setPath_closed strict false p h t v hc ht (hv (p, v) (by simp))
    rw [he] at h1c h1s h1l
    simp only at h1c h1s h1l
    have hext : Extends h h1 := by have := setPath_extends strict h t p v; rw [he] at this; exact this
    refine ⟨setPath_noNd_of_get strict p h t v h1 d (· < h.size) (hp (p, v) (by simp)) hc.region ht
      (hg (p, v) (by simp)) he h1 (fun _ _ _ => rfl), ?_⟩
    apply ih h1 d h1c (h1l d rfl)
      (fun kv hkv => Nat.lt_of_lt_of_le (hv kv (by simp [hkv])) h1s)
      (fun kv hkv => hp kv (by simp [hkv])) hpw.2
    intro kv hkv
    obtain ⟨x, hx⟩ := hg kv (by simp [hkv])
    refine ⟨x, ?_⟩
    exact (setPath_frame strict (hpw.1 kv hkv) h t v h1 d (· < h.size) h1 he hc.region ht
      (fun r hr => hext.2 r hr) (fun _ _ _ => rfl) x).mpr hx

/-- Get-after-set for a whole sequence: when the set paths pairwise leave each other (later vs earlier),
every path reads the value it was set to. -/
theorem setMany_get (strict : Bool) : ∀ (kvs : List (Path × Ref)) (h : Heap) (t : Ref) (h' : Heap) (t' : Ref),
    Closed h → t < h.size → (∀ kv ∈ kvs, kv.2 < h.size) → (∀ kv ∈ kvs, PlainSelf kv.1) →
    kvs.Pairwise (fun a b => Diverge b.1 a.1) → NoNdSeq strict h t kvs →
    setMany strict false h t kvs = (h', .ok t') → ∀ kv ∈ kvs, get h' t' kv.1 = .ok kv.2 := by
  intro kvs
  induction kvs with
  | nil => intro h t h' t' _ _ _ _ _ _ _ kv hkv; cases hkv
  | cons kv0 kvs ih =>
    intro h t h' t' hc ht hv hp hpw hnd hs kv hkv
    obtain ⟨p, v⟩ := kv0
    simp only [setMany] at hs
    split at hs
    · rename_i h1 d he
      obtain ⟨h1c, h1s, h1l⟩ := setPath_closed strict false p h t v hc ht (hv (p, v) (by simp))
      rw [he] at h1c h1s h1l
      simp only at h1c h1s h1l
      rw [List.pairwise_cons] at hpw
      have hv1 : ∀ kv ∈ kvs, kv.2 < h1.size :=
        fun kv hkv => Nat.lt_of_lt_of_le (hv kv (by simp [hkv])) h1s
      rcases List.mem_cons.mp hkv with e | e
      · subst e
        have hgs := setPath_get_set strict p h t v h1 d (hp (p, v) (by simp)) he h1 (fun _ _ _ => rfl)
          (hnd h1 d he).1
        exact (setMany_frame strict kvs h1 d h' t' p h1c (h1l d rfl) hv1 (fun kv hkv => hpw.1 kv hkv) hs v).mpr hgs
      · exact ih h1 d h' t' h1c (h1l d rfl) hv1 (fun kv hkv => hp kv (by simp [hkv])) hpw.2 (hnd h1 d he).2 hs kv e
    · cases hs

end MlModel.Tree
