import MlModel.Lemmas.TreeApi
/-!
# Sequences of copying sets (`setMany`: multi-key `copy_and_set`, `copy_and_update`, the sets of `apply`)
-/
namespace MlModel.Tree

theorem setMany_closed (strict : Bool) : ∀ (kvs : List (Path × Ref)) (h : Heap) (t : Ref),
    Closed h → t < h.size → (∀ kv ∈ kvs, kv.2 < h.size) →
    Closed (setMany strict false h t kvs).1 ∧ h.size ≤ (setMany strict false h t kvs).1.size ∧
      ∀ t', (setMany strict false h t kvs).2 = .ok t' → t' < (setMany strict false h t kvs).1.size := by
  intro kvs
  induction kvs with
  | nil => intro h t hc ht _; simp [setMany]; exact ⟨hc, ht⟩
  | cons kv kvs ih =>
    intro h t hc ht hv
    obtain ⟨p, v⟩ := kv
    simp only [setMany]
    obtain ⟨h1c, h1s, h1l⟩ := setPath_closed strict false p h t v hc ht (hv (p, v) (by simp))
    split
    · rename_i h1 d he
      rw [he] at h1c h1s h1l
      simp only at h1c h1s h1l
      obtain ⟨h2c, h2s, h2l⟩ := ih h1 d h1c (h1l d rfl)
        (fun kv hkv => Nat.lt_of_lt_of_le (hv kv (by simp [hkv])) h1s)
      exact ⟨h2c, Nat.le_trans h1s h2s, h2l⟩
    · rename_i h1 e he
      rw [he] at h1c h1s
      exact ⟨h1c, h1s, by intro t' ht'; cases ht'⟩

/-- Frame for a whole sequence of copying sets: a path that leaves every set path reads as before. -/
theorem setMany_frame (strict : Bool) : ∀ (kvs : List (Path × Ref)) (h : Heap) (t : Ref) (h' : Heap) (t' : Ref)
    (q : Path), Closed h → t < h.size → (∀ kv ∈ kvs, kv.2 < h.size) → (∀ kv ∈ kvs, Diverge kv.1 q) →
    setMany strict false h t kvs = (h', .ok t') → ∀ x, get h' t' q = .ok x ↔ get h t q = .ok x := by
  intro kvs
  induction kvs with
  | nil =>
    intro h t h' t' q _ _ _ _ hs x
    simp [setMany] at hs; obtain ⟨rfl, rfl⟩ := hs; exact Iff.rfl
  | cons kv kvs ih =>
    intro h t h' t' q hc ht hv hd hs x
    obtain ⟨p, v⟩ := kv
    simp only [setMany] at hs
    split at hs
    · rename_i h1 d he
      obtain ⟨h1c, h1s, h1l⟩ := setPath_closed strict false p h t v hc ht (hv (p, v) (by simp))
      rw [he] at h1c h1s h1l
      simp only at h1c h1s h1l
      have hext : Extends h h1 := by have := setPath_extends strict h t p v; rw [he] at this; exact this
      have step := setPath_frame strict (hd (p, v) (by simp)) h t v h1 d (· < h.size) h1 he hc.region ht
        (fun r hr => hext.2 r hr) (fun _ _ _ => rfl) x
      rw [← step]
      exact ih h1 d h' t' q h1c (h1l d rfl) (fun kv hkv => Nat.lt_of_lt_of_le (hv kv (by simp [hkv])) h1s)
        (fun kv hkv => hd kv (by simp [hkv])) hs x
    · cases hs

/-- Get-after-set for a whole sequence: when the set paths pairwise leave each other (later vs earlier),
every path reads the value it was set to. -/
theorem setMany_get (strict : Bool) : ∀ (kvs : List (Path × Ref)) (h : Heap) (t : Ref) (h' : Heap) (t' : Ref),
    Closed h → t < h.size → (∀ kv ∈ kvs, kv.2 < h.size) → (∀ kv ∈ kvs, PlainSelf kv.1) →
    kvs.Pairwise (fun a b => Diverge b.1 a.1) →
    setMany strict false h t kvs = (h', .ok t') → ∀ kv ∈ kvs, get h' t' kv.1 = .ok kv.2 := by
  intro kvs
  induction kvs with
  | nil => intro h t h' t' _ _ _ _ _ _ kv hkv; cases hkv
  | cons kv0 kvs ih =>
    intro h t h' t' hc ht hv hp hpw hs kv hkv
    obtain ⟨p, v⟩ := kv0
    simp only [setMany] at hs
    split at hs
    · rename_i h1 d he
      obtain ⟨h1c, h1s, h1l⟩ := setPath_closed strict false p h t v hc ht (hv (p, v) (by simp))
      rw [he] at h1c h1s h1l
      simp only at h1c h1s h1l
      rw [List.pairwise_cons] at hpw
      have hv1 : ∀ kv ∈ kvs, kv.2 < h1.size :=
        fun kv hkv => Nat.lt_of_lt_of_le (hv kv (by simp [hkv])) h1s
      rcases List.mem_cons.mp hkv with e | e
      · subst e
        have hgs := setPath_get_set strict p h t v h1 d (hp (p, v) (by simp)) he h1 (fun _ _ _ => rfl)
        exact (setMany_frame strict kvs h1 d h' t' p h1c (h1l d rfl) hv1 (fun kv hkv => hpw.1 kv hkv) hs v).mpr hgs
      · exact ih h1 d h' t' h1c (h1l d rfl) hv1 (fun kv hkv => hp kv (by simp [hkv])) hpw.2 hs kv e
    · cases hs

end MlModel.Tree
