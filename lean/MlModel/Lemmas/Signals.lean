import MlModel.Model.Signals
import Mathlib.Tactic.Linarith
import Mathlib.Algebra.Order.Ring.Rat
/-! helper for the top-k accuracy theorem: every score is below, above or equal to a pivot -/
namespace MlModel.C07

theorem countP_partition (xs : List Rat) (s : Rat) :
    xs.countP (· < s) + xs.countP (s < ·) + xs.countP (· == s) = xs.length := by
  induction xs with
  | nil => rfl
  | cons x xs ih =>
    simp only [List.countP_cons, List.length_cons]
    rcases lt_trichotomy x s with h | h | h
    · have h2 : ¬ s < x := not_lt.mpr (le_of_lt h)
      have h3 : (x == s) = false := by simpa using ne_of_lt h
      simp [h, h2, h3]; omega
    · subst h; simp; omega
    · have h2 : ¬ x < s := not_lt.mpr (le_of_lt h)
      have h3 : (x == s) = false := by simpa using (ne_of_lt h).symm
      simp [h, h2, h3]; omega

end MlModel.C07
