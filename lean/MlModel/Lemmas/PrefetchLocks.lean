import MlModel.Lemmas.PrefetchInit
/-!
# The server-level locks with arbitrary concurrent requests

`_shutdown_lock` (a condition), `_tx_stats_lock`, `_states_lock`: who owns them, who waits on the shutdown
condition, and that a shutdown request is never missed by the server thread (`LkInv`).  With `IInv` (the generator
lock) this gives `dead_shape`: in a reachable configuration WITHOUT enabled step every thread that has not ended is
the idle server thread, is blocked INSIDE an `IteratorQueue` operation (`get_batch`, `maybe_stop`,
`enqueue_from_iterator`), waits in the join for a prefetch thread that is blocked there, or waits for the
generator / states lock held by such a thread — the server-level protocol itself never blocks anybody.
-/
namespace MlModel.Prefetch
set_option linter.unusedSimpArgs false

/-- program points at which a thread holds `_shutdown_lock` -/
def holdsShut : Pc → Bool
  | .mnWait | .mnTxA | .mnTxR | .mnRel | .iiN1 | .iiN2 | .sdNotify | .sdRel => true
  | _ => false

/-- program points at which a thread holds `_tx_stats_lock` -/
def holdsTx : Pc → Bool
  | .mnTxR | .nbTxR => true
  | _ => false

/-- the effect of one step of thread `tid` on a lock: `o`/`o'` its owner before/after, `b`/`b'` whether the
thread's program point is inside the locked region before/after -/
structure LEff (o o' : Option Queue.Tid) (b b' : Bool) (tid : Queue.Tid) : Prop where
  enter : b = false → b' = true → o = none ∧ o' = some tid
  stay : b = true → b' = true → o' = o
  leave : b = true → b' = false → o = some tid ∧ o' = none
  out : b = false → b' = false → o' = o

/-- what one step does to the shutdown condition's wait lists and to the shutdown flag -/
inductive WEff (c c' : Cfg) (tid : Queue.Tid) (t t' : Thread) : Prop where
  | same (hw : c'.sh.shutWait = c.sh.shutWait) (hn : c'.sh.shutNotified = c.sh.shutNotified)
      (hf : c'.sh.shutdownRequested = c.sh.shutdownRequested ∨
        (t.pc = .sdAcq ∧ t'.pc = .sdNotify ∧ c'.sh.shutdownRequested = true))
      (h1 : t.pc ≠ .mnWake ∧ t.pc ≠ .mnWait ∧ t.pc ≠ .sdNotify) (h2 : t'.pc ≠ .mnWake)
      (h3 : t'.pc = .sdNotify → t.pc = .sdAcq)
  | park (hw : c'.sh.shutWait = c.sh.shutWait ++ [tid]) (hn : c'.sh.shutNotified = c.sh.shutNotified)
      (hf : c'.sh.shutdownRequested = c.sh.shutdownRequested) (h1 : t.pc = .mnWait) (h2 : t'.pc = .mnWake)
  | wake (hw : c'.sh.shutWait = c.sh.shutWait) (hn : c'.sh.shutNotified = c.sh.shutNotified.erase tid)
      (hf : c'.sh.shutdownRequested = c.sh.shutdownRequested) (h1 : t.pc = .mnWake) (h2 : t'.pc ≠ .mnWake)
      (h3 : t'.pc ≠ .sdNotify)
  | notifyAll (hw : c'.sh.shutWait = []) (hn : c'.sh.shutNotified = c.sh.shutNotified ++ c.sh.shutWait)
      (hf : c'.sh.shutdownRequested = c.sh.shutdownRequested) (h1 : t.pc ≠ .mnWake ∧ t.pc ≠ .mnWait)
      (h2 : t'.pc ≠ .mnWake) (h3 : t'.pc ≠ .sdNotify)

set_option hygiene false in
macro "leff_split" : tactic => `(tactic|
  ((repeat' split at h) <;> (try (simp at *; done)) <;>
    simp only [Option.some.injEq, Prod.mk.injEq] at h <;> obtain ⟨-, rfl⟩ := h))

set_option hygiene false in
macro "leff_close" : tactic => `(tactic|
  (refine ⟨_, getElem?_setTh ht _ _, ⟨?_, ?_, ?_, ?_⟩, ⟨?_, ?_, ?_, ?_⟩, ?_, ?_, ?_⟩ <;>
    first
    | (simp [holdsShut, holdsTx, setTh, *]; done)
    | (simp_all [holdsShut, holdsTx, setTh]; done)
    | (apply WEff.same <;> (simp [setTh, *]; done))
    | (apply WEff.park <;> (simp [setTh, *]; done))
    | (apply WEff.wake <;> (simp [setTh, *]; done))
    | (apply WEff.notifyAll <;> (simp [setTh, *]; done))))

set_option maxHeartbeats 1000000 in
/-- the effect of a step on `_shutdown_lock`, `_tx_stats_lock`, the wait lists; the thread list only changes at `tid`
(and by the thread a spawn appends) -/
theorem step_leff {c c' : Cfg} {tid : Queue.Tid} {lbl : String} {t : Thread}
    (ht : c.ths[tid]? = some t) (h : step c tid = some (lbl, c')) :
    ∃ t', c'.ths[tid]? = some t' ∧
      LEff c.sh.shutOwner c'.sh.shutOwner (holdsShut t.pc) (holdsShut t'.pc) tid ∧
      LEff c.sh.txOwner c'.sh.txOwner (holdsTx t.pc) (holdsTx t'.pc) tid ∧
      WEff c c' tid t t' ∧ (t'.pc = .mnWait → c'.sh.shutdownRequested = false) ∧
      (t'.pc = .nbTxA ∨ t'.pc = .nbTxR → t'.reply.isSome = true ∨ (t.pc = .nbTxA ∧ t'.reply = t.reply)) := by
  unfold step at h
  simp only [ht] at h
  cases hpc : t.pc <;> simp only [hpc] at h
  case done => simp at h
  case iiSpawn =>
    cases hg : gen? t.prog with
    | none => simp [hg] at h
    | some g =>
      have hlt : tid < c.ths.length := by
        rcases List.getElem?_eq_some_iff.mp ht with ⟨h, _⟩; exact h
      simp only [hg, Option.some.injEq, Prod.mk.injEq] at h
      obtain ⟨-, rfl⟩ := h
      refine ⟨{ t with pc := .lkRel }, by simp [List.getElem?_append_left, hlt, List.getElem?_set_self hlt],
        ⟨?_, ?_, ?_, ?_⟩, ⟨?_, ?_, ?_, ?_⟩, ?_, ?_, ?_⟩ <;>
      first
      | (simp [holdsShut, holdsTx, hpc]; done)
      | (apply WEff.same <;> (simp [hpc]; done))
  case prod =>
    cases hq : c.sh.qs[t.g]? with
    | none => simp [hq] at h
    | some q =>
      simp only [hq] at h
      cases hst : Queue.stepThread q t.qt tid false with
      | none => simp [hst] at h
      | some res =>
        obtain ⟨lbl0, q', qt'⟩ := res
        simp only [hst] at h
        leff_split <;> leff_close
  case nbGet =>
    cases hq : c.sh.qs[t.g]? with
    | none => simp [hq] at h
    | some q =>
      simp only [hq] at h
      cases hst : Queue.stepThread q t.qt tid false with
      | none => simp [hst] at h
      | some res =>
        obtain ⟨lbl0, q', qt'⟩ := res
        simp only [hst] at h
        leff_split <;> leff_close
  case lkStop =>
    cases hq : c.sh.qs[t.g]? with
    | none => simp [hq] at h
    | some q =>
      simp only [hq] at h
      cases hst : Queue.stepThread q t.qt tid false with
      | none => simp [hst] at h
      | some res =>
        obtain ⟨lbl0, q', qt'⟩ := res
        simp only [hst, afterStop, install, failInit] at h
        cases hprog : t.prog <;> simp only [hprog] at h <;> leff_split <;> leff_close
  case lkJoin =>
    cases he : c.sh.enqThread with
    | none => simp [he] at h
    | some p =>
      simp only [he] at h
      cases hp : c.ths[p]? with
      | none => simp [hp] at h
      | some tp =>
        simp only [hp, afterStop, install, failInit] at h
        cases hprog : t.prog <;> simp only [hprog] at h <;> leff_split <;> leff_close
  case lkAcq =>
    simp only [beginStop, install, failInit] at h
    cases hprog : t.prog <;> simp only [hprog] at h <;> leff_split <;> leff_close
  case lkRel =>
    cases hprog : t.prog <;> simp only [hprog] at h <;> leff_split <;> leff_close
  case start =>
    simp only [callNext, beginNext] at h
    cases hprog : t.prog <;> simp only [hprog] at h <;> leff_split <;> leff_close
  all_goals
    try simp only [callNext, beginNext, receive] at h
    leff_split <;> leff_close

end MlModel.Prefetch
