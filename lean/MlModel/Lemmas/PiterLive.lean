import MlModel.Lemmas.PiterInv
import MlModel.Lemmas.PiterLock
import MlModel.Lemmas.QueueLiveTweak
/-!
# The queue's no-lost-wake-up invariant holds in the parallel-iteration LTS

`QL c`: the embedded queue configuration `qcfg c` satisfies `Queue.Live` (base invariants, `WF_enq`
counting, J1 ∧ J2 ∧ K1 ∧ K2 of `Lemmas/QueueLiveDefs.lean`).  It is **transferred** from the queue LTS,
not re-proved: every step of `Piter.step` is, on `qcfg`,
* a step of the queue LTS (`Queue.live_step`), possibly followed by
* a change of fields `Live` does not read (`Queue.live_fields`, `live_lost`), or
* one of the three outcomes of `next(iterator)` (`Queue.live_enext_*`: the queue LTS simulates it on an
  adjusted source), or
* the only consumer turning into a stopper between two `get_batch` calls (`Queue.live_to_stopper`).
-/
namespace MlModel.Queue

/-- a queue step of thread `tid`, then a change of fields `Live` does not read -/
theorem live_deleg {qc : Cfg} {tid : Tid} {alt : Bool} {lbl : String} {s' : Shared} {a q' b : Thread}
    (hv : Live qc) (hto : qc.sh.timeout = false) (ha : qc.ths[tid]? = some a)
    (hst : stepThread qc.sh a tid alt = some (lbl, s', q')) (hf : SameFields q' b) :
    Live { sh := s', ths := qc.ths.set tid b } := by
  have htid : tid < qc.ths.length := (List.getElem?_eq_some_iff.mp ha).1
  have hs : step qc tid alt = some (lbl, { sh := s', ths := qc.ths.set tid q' }) := by
    simp only [step, ha, hst]
  have hv2 := live_step hto hv hs
  have := live_fields (tid := tid) (a := q') (b := b) hv2 (by simp [htid]) hf
  simpa [List.set_set] using this

theorem sameFields_refl (a : Thread) : SameFields a a := ⟨rfl, rfl, rfl, rfl, rfl, rfl⟩

end MlModel.Queue

namespace MlModel.Piter
open MlModel.Queue

variable {F : Nat → Option (List Nat)}

theorem qcfg_eq {c c' : Cfg} {tid : Tid} {t' : PThread} (h : c'.ths = c.ths.set tid t') :
    qcfg c' = { sh := c'.sh, ths := (qcfg c).ths.set tid t'.q } := by
  simp [qcfg, h, List.map_set]

structure QL (c : Cfg) : Prop where
  live : Queue.Live (qcfg c)
  ig : c.sh.ignoreError = false

/-- every thread of the embedded queue configuration other than thread 0 is a producer -/
theorem others_prod {c : Cfg} (hs : Static c) (j : Nat) (u : Queue.Thread) (hj : j ≠ 0)
    (hu : (qcfg c).ths[j]? = some u) : u.prog.kind = .producer := by
  simp only [qcfg, List.getElem?_map, Option.map_eq_some_iff] at hu
  obtain ⟨t, ht, rfl⟩ := hu
  exact hs.kindP t (List.mem_of_getElem? ht) ((hs.role j t ht).mpr hj)

theorem ql_afterPull {c : Cfg} {tid : Tid} {t : PThread} (hv : Queue.Live (qcfg c))
    (hto : c.sh.timeout = false) (hig : c.sh.ignoreError = false)
    (ht : c.ths[tid]? = some t) (hpc : t.q.pc = .eNext) (r : PullRes) :
    Queue.Live { sh := (afterPull F tid c.sh t r).1, ths := (qcfg c).ths.set tid (afterPull F tid c.sh t r).2.q } ∧
    (afterPull F tid c.sh t r).1.ignoreError = false := by
  have hq := qcfg_get ht
  have hfail : ∀ t1 : PThread, t1.q = t.q →
      Queue.Live { sh := (failPull c.sh t1).1, ths := (qcfg c).ths.set tid (failPull c.sh t1).2.q } ∧
      (failPull c.sh t1).1.ignoreError = false := by
    intro t1 h1
    refine ⟨?_, hig⟩
    unfold failPull
    rw [h1]
    exact live_enext_fail (c := qcfg c) hv hto hig hq hpc ⟨rfl, rfl, rfl, rfl, rfl, rfl⟩
  unfold afterPull
  split
  · refine ⟨?_, hig⟩
    exact live_enext_stop (c := qcfg c) hv hto hq hpc ⟨rfl, rfl, rfl, by simp [retsT], rfl, rfl⟩
  · exact hfail t rfl
  · rename_i v
    split
    · exact hfail _ rfl
    · refine ⟨?_, hig⟩
      exact live_fields (c := qcfg c) hv hq ⟨rfl, rfl, rfl, rfl, rfl, rfl⟩
    · refine ⟨?_, hig⟩
      exact live_enext_val (c := qcfg c) hv hto hq hpc ⟨rfl, rfl, rfl, rfl, rfl, rfl⟩

theorem ql_postProd {s' : Shared} {ths : List Queue.Thread} {tid : Tid} {q' : Queue.Thread}
    (hv : Queue.Live { sh := s', ths := ths.set tid q' }) (hto : s'.timeout = false)
    (htid : tid < ths.length) (t : PThread) :
    Queue.Live { sh := s', ths := ths.set tid (postProd tid t q').q } := by
  have hself : ({ sh := s', ths := ths.set tid q' } : Queue.Cfg).ths[tid]? = some q' := by
    show (ths.set tid q')[tid]? = some q'
    simp [htid]
  unfold postProd enterNext
  by_cases h : q'.pc = .eNext
  · cases hp : t.pend with
    | nil =>
      simp only [h, beq_self_eq_true, if_true]
      exact hv
    | cons y ys =>
      simp only [h, beq_self_eq_true, if_true]
      have := live_enext_val (b := { q' with pc := .pAcq, v := (tid, y) }) hv hto hself h
        ⟨rfl, rfl, rfl, rfl, rfl, rfl⟩
      simpa [List.set_set] using this
  · have : (q'.pc == Pc.eNext) = false := by simpa using h
    simp only [this]
    exact hv

theorem ql_beginIter {c : Cfg} {t : PThread} (hs : Static c) (hv : Queue.Live (qcfg c))
    (ht : c.ths[0]? = some t) (hk : t.q.prog.kind = .batch) (hpc : t.q.pc = .start) (hres : t.q.result = []) :
    Queue.Live { sh := c.sh, ths := (qcfg c).ths.set 0 (beginIter c t).q } := by
  have hq := qcfg_get ht
  unfold beginIter
  split
  · exact live_to_stopper (c := qcfg c) hv hq (others_prod hs) (Or.inl hpc) hk rfl rfl hres
  · cases hprog : t.q.prog with
    | batchLoop m bl =>
      have hst : stepThread c.sh t.q 0 false = some ("start", c.sh, { t.q with pc := .bAcq }) := by
        simp [stepThread, hpc, hprog]
      exact live_deleg (qc := qcfg c) hv hs.timeout hq hst (sameFields_refl _)
    | producer _ _ => rw [hprog] at hk; cases hk
    | getLoop => rw [hprog] at hk; cases hk
    | stopper _ => rw [hprog] at hk; cases hk

theorem ql_step {c c' : Cfg} {tid : Tid} {alt : Bool} {lbl : String} {t : PThread}
    (hb : Base c) (hq : QL c) (ht : c.ths[tid]? = some t) (hk : StepKind F c tid alt t lbl c') : QL c' := by
  have hs := hb.static
  have hv := hq.live
  have hig := hq.ig
  have hto := hs.timeout
  have hmem : t ∈ c.ths := List.mem_of_getElem? ht
  have htok : TOK t.q := hb.data.tok t.q (List.mem_of_getElem? (qcfg_get ht))
  have hqt := qcfg_get ht
  have htid : tid < (qcfg c).ths.length := (List.getElem?_eq_some_iff.mp hqt).1
  have hzero : t.isProd = false → tid = 0 := by
    intro hp
    rcases Nat.eq_zero_or_pos tid with h | h
    · exact h
    · have := (hs.role tid t ht).mpr (by omega); rw [hp] at this; cases this
  cases hk with
  | pstart hp hpc =>
    refine ⟨?_, hig⟩
    rw [qcfg_eq (c := c) (tid := tid) (t' := { t with q := { t.q with pc := .sAcq } }) rfl]
    have hkp := hs.kindP t hmem hp
    cases hprog : t.q.prog with
    | producer src r =>
      have hst : stepThread c.sh t.q tid false = some ("start", c.sh, { t.q with pc := .sAcq, src := src }) := by
        simp [stepThread, hpc, hprog]
      exact live_deleg (qc := qcfg c) hv hto hqt hst ⟨rfl, rfl, rfl, rfl, rfl, rfl⟩
    | batchLoop _ _ => rw [hprog] at hkp; cases hkp
    | getLoop => rw [hprog] at hkp; cases hkp
    | stopper _ => rw [hprog] at hkp; cases hkp
  | iacq =>
    refine ⟨?_, hig⟩
    rw [qcfg_eq (c := c) (tid := tid) (t' := { t with ipc := .next }) rfl]
    exact live_fields (c := qcfg c) hv hqt (sameFields_refl _)
  | inextL =>
    refine ⟨?_, hig⟩
    rw [qcfg_eq (c := c) (tid := tid) (t' := { t with hand := (pull c.inputs t.sid).1, ipc := .rel }) rfl]
    exact live_fields (c := qcfg c) hv hqt (sameFields_refl _)
  | inextU hp hpc =>
    obtain ⟨h1, h2⟩ := ql_afterPull (F := F) hv hto hig ht hpc (pull c.inputs t.sid).1
    refine ⟨?_, h2⟩
    rw [qcfg_eq (c := c) (tid := tid) (t' := (afterPull F tid c.sh t (pull c.inputs t.sid).1).2) rfl]
    exact h1
  | irel hp hpc =>
    obtain ⟨h1, h2⟩ := ql_afterPull (F := F) hv hto hig ht hpc t.hand
    refine ⟨?_, h2⟩
    rw [qcfg_eq (c := c) (tid := tid) (t' := (afterPull F tid c.sh t t.hand).2) rfl]
    exact h1
  | @pq lbl s' q' hp hd hs0 hne hst =>
    obtain ⟨k1, -, k3⟩ := stepThread_const lbl s' q' hst
    refine ⟨?_, by show s'.ignoreError = false; rw [k3]; exact hig⟩
    rw [qcfg_eq (c := c) (tid := tid) (t' := postProd tid t q') rfl]
    have h1 := live_deleg (qc := qcfg c) hv hto hqt hst (sameFields_refl _)
    exact ql_postProd h1 (by rw [k1]; exact hto) htid t
  | cboot0 hp hc =>
    obtain ⟨hkb, hpc0, hr0⟩ := (hs.kindC t hmem hp).1 (Or.inl hc)
    have h0 := hzero hp; subst h0
    refine ⟨?_, hig⟩
    rw [qcfg_eq (c := c) (tid := 0) (t' := beginIter c t) rfl]
    exact ql_beginIter hs hv ht hkb hpc0 hr0
  | cboot hp hc =>
    refine ⟨?_, hig⟩
    rw [qcfg_eq (c := c) (tid := tid) (t' := { t with cpc := .submit }) rfl]
    exact live_fields (c := qcfg c) hv hqt (sameFields_refl _)
  | csubmit hp hc =>
    obtain ⟨hkb, hpc0, hr0⟩ := (hs.kindC t hmem hp).1 (Or.inr hc)
    have h0 := hzero hp; subst h0
    refine ⟨?_, hig⟩
    rw [qcfg_eq (c := c) (tid := 0) (t' := if c.nsub + 1 ≥ c.nProd then beginIter c t else t) rfl]
    split
    · exact ql_beginIter hs hv ht hkb hpc0 hr0
    · exact live_fields (c := qcfg c) hv hqt (sameFields_refl _)
  | @citer lbl s' q' hp hc hst =>
    obtain ⟨k1, -, k3⟩ := stepThread_const lbl s' q' hst
    have h0 := hzero hp; subst h0
    have hkb : t.q.prog.kind = .batch := (hs.kindC t hmem hp).2.1 hc
    obtain ⟨htok', hprog', -⟩ := stepThread_data lbl s' q' hst htok
    have hne : t.q.pc ≠ .eNext := by
      intro e; have := htok.kind .producer (by rw [e]; rfl); rw [hkb] at this; cases this
    obtain ⟨-, -, -, -, -, hA, hB, -, -⟩ := stepThread_arm lbl s' q' hst hne
    have h1 := live_deleg (qc := qcfg c) hv hto hqt hst (sameFields_refl _)
    have hself : ({ sh := s', ths := (qcfg c).ths.set 0 q' } : Queue.Cfg).ths[0]? = some q' := by
      show ((qcfg c).ths.set 0 q')[0]? = some q'
      simp [htid]
    have hoth : ∀ (j : Nat) (u : Queue.Thread), j ≠ 0 →
        ({ sh := s', ths := (qcfg c).ths.set 0 q' } : Queue.Cfg).ths[j]? = some u → u.prog.kind = .producer := by
      intro j u hj hu
      have hu' : ((qcfg c).ths.set 0 q')[j]? = some u := hu
      rw [List.getElem?_set_ne (Ne.symm hj)] at hu'
      exact others_prod hs j u hj hu'
    have hkb' : q'.prog.kind = .batch := by rw [hprog']; exact hkb
    have hige : (afterIter c t.q.pc s' { t with q := q' }).1.ignoreError = false := by
      have : (afterIter c t.q.pc s' { t with q := q' }).1.ignoreError = s'.ignoreError := by
        unfold afterIter; (repeat' split) <;> rfl
      rw [this, k3]; exact hig
    refine ⟨?_, hige⟩
    rw [qcfg_eq (c := c) (tid := 0) (t' := (afterIter c t.q.pc s' { t with q := q' }).2) rfl]
    show Queue.Live { sh := (afterIter c t.q.pc s' { t with q := q' }).1,
                      ths := (qcfg c).ths.set 0 (afterIter c t.q.pc s' { t with q := q' }).2.q }
    unfold afterIter
    split
    · rename_i hbr
      have hbr' : t.q.pc = .bRaise := by simpa using hbr
      obtain ⟨hd, -, hr, -, -⟩ := hA hbr'
      split
      · have := live_to_stopper (b := { q' with pc := .mAcq, prog := .stopper none }) h1 hself hoth
          (Or.inr (Or.inl hd)) hkb' rfl rfl hr
        simpa [List.set_set] using this
      · exact h1
    · split
      · rename_i hbe
        have hbe' : t.q.pc = .bE3 := by simpa using hbe
        obtain ⟨hpc', -, hr, -⟩ := hB hbe'
        split
        · exact h1
        · rename_i k hk
          split
          · have := live_to_stopper
              (b := { q' with pc := .mAcq, prog := .stopper none, received := q'.received.take k }) h1 hself hoth
              (Or.inr (Or.inr hpc')) hkb' rfl rfl hr
            have := live_lost (s'.lost ++ q'.received.drop k) this
            simpa [List.set_set] using this
          · exact h1
      · exact h1
  | @cstop lbl s' q' hp hc hst =>
    obtain ⟨k1, -, k3⟩ := stepThread_const lbl s' q' hst
    refine ⟨?_, by show s'.ignoreError = false; rw [k3]; exact hig⟩
    rw [qcfg_eq (c := c) (tid := tid) (t' := postStop t q') rfl]
    have h1 := live_deleg (qc := qcfg c) hv hto hqt hst (sameFields_refl _)
    have : (postStop t q').q = q' := by unfold postStop; split <;> rfl
    rw [this]; exact h1
  | cshutdown hp hc =>
    refine ⟨?_, hig⟩
    rw [qcfg_eq (c := c) (tid := tid) (t' := { t with cpc := .fin }) rfl]
    exact live_fields (c := qcfg c) hv hqt (sameFields_refl _)

theorem qcfg_init (cap bm mw : Nat) (ns : Option Nat) (soe : Bool) (inputs : List (List Item))
    (prods : List ProdSpec) :
    qcfg (init cap bm mw ns soe inputs prods) =
      Queue.init cap prods.length false false (.batchLoop bm false :: prods.map fun p => .producer [] p.ret) := by
  simp [qcfg, init, Queue.init, mkConsumer, mkProducer, Function.comp_def]

theorem ql_init (cap bm mw : Nat) (ns : Option Nat) (soe : Bool) (inputs : List (List Item))
    (prods : List ProdSpec) : QL (init cap bm mw ns soe inputs prods) := by
  refine ⟨?_, rfl⟩
  rw [qcfg_init]
  apply live_init
  unfold WF_enq
  simp only [List.countP_cons, Prog.kind]
  rw [List.countP_map]
  simp [Function.comp_def]

theorem ql_reachable {c0 c : Cfg} (hb0 : Base c0) (h0 : QL c0) (h : Reachable F c0 c) : QL c := by
  induction h with
  | init => exact h0
  | step hr hs ih =>
    obtain ⟨t, ht, hk⟩ := step_inv hs
    exact ql_step (base_reachable hb0 hr) ih ht hk

end MlModel.Piter
