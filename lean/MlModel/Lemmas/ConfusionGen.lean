import MlModel.Lemmas.ConfusionSharding
/-!
# The aggregate-function API over ANY family of equally shaped count arrays

`Lemmas/ConfusionApi` / `ConfusionSharding` fix the shape of the four count arrays to "scalar"
(`micro`/`binary`) or "one entry per class" (`macro`).  The top-k accumulator stacks one such
array per `k` (`(K,)` for micro, `(K, W)` for macro), so the same argument is needed for other
shapes.  Here it is made once, for an arbitrary predicate `G` on arrays that satisfies
`ArrLaws G` (closed under pointwise `+`, on which numpy's broadcasting `+` / `+=` succeed and
are that pointwise sum, commutative, associative):

* `update_state` / `merge_states` are the commutative monoid `oadd` on such states;
* `EncodesG`: a configuration whose batches reduce to a homomorphic `D : List X → CMArr`;
* every composition into shards and batches, and every merge tree, ends in `D` of the whole data.
-/
namespace MlModel.Agg.Confusion

/-- what the API needs of a family of count arrays -/
structure ArrLaws (G : Arr Int → Prop) : Prop where
  addP : ∀ {a b}, G a → G b → G (a.addP b)
  zipWithB : ∀ {a b}, G a → G b → Arr.zipWithB (· + ·) a b = .ok (a.addP b)
  iaddB : ∀ {a b}, G a → G b → a.iaddB b = .ok (a.addP b)
  comm : ∀ {a b}, G a → G b → a.addP b = b.addP a
  assoc : ∀ {a b c}, G a → G b → G c → (a.addP b).addP c = a.addP (b.addP c)

/-- the shapes of `Lemmas/ConfusionApi` are an instance -/
theorem goodArr_laws (axis : Option Nat) (W : Nat) : ArrLaws (GoodArr axis W) where
  addP := GoodArr.addP
  zipWithB := GoodArr.zipWithB
  iaddB := GoodArr.iaddB
  comm := GoodArr.addP_comm
  assoc := GoodArr.addP_assoc

/-- all four arrays belong to the family -/
structure GCM (G : Arr Int → Prop) (a : CMArr) : Prop where
  tp : G a.tp
  tn : G a.tn
  fp : G a.fp
  fn : G a.fn

def OG (G : Arr Int → Prop) : Option CMArr → Prop
  | none => True
  | some a => GCM G a

section gen
variable {G : Arr Int → Prop} (L : ArrLaws G)
include L

section cm
variable {a b c : CMArr}

theorem GCM.addP (ha : GCM G a) (hb : GCM G b) : GCM G (a.addP b) :=
  ⟨L.addP ha.tp hb.tp, L.addP ha.tn hb.tn, L.addP ha.fp hb.fp, L.addP ha.fn hb.fn⟩

theorem GCM.add (ha : GCM G a) (hb : GCM G b) : a.add b = .ok (a.addP b) := by
  simp [CMArr.add, L.zipWithB ha.tp hb.tp, L.zipWithB ha.tn hb.tn, L.zipWithB ha.fp hb.fp,
    L.zipWithB ha.fn hb.fn, CMArr.addP, bind, Except.bind, pure, Except.pure]

theorem GCM.iadd (ha : GCM G a) (hb : GCM G b) : a.iadd b = .ok (a.addP b) := by
  simp [CMArr.iadd, L.iaddB ha.tp hb.tp, L.iaddB ha.tn hb.tn, L.iaddB ha.fp hb.fp,
    L.iaddB ha.fn hb.fn, CMArr.addP, bind, Except.bind, pure, Except.pure]

theorem GCM.addP_comm (ha : GCM G a) (hb : GCM G b) : a.addP b = b.addP a := by
  simp only [CMArr.addP, L.comm ha.tp hb.tp, L.comm ha.tn hb.tn, L.comm ha.fp hb.fp,
    L.comm ha.fn hb.fn]

theorem GCM.addP_assoc (ha : GCM G a) (hb : GCM G b) (hc : GCM G c) :
    (a.addP b).addP c = a.addP (b.addP c) := by
  simp only [CMArr.addP, L.assoc ha.tp hb.tp hc.tp, L.assoc ha.tn hb.tn hc.tn,
    L.assoc ha.fp hb.fp hc.fp, L.assoc ha.fn hb.fn hc.fn]

end cm

section oadd
variable {a b c : Option CMArr}

theorem og_oadd (ha : OG G a) (hb : OG G b) : OG G (oadd a b) := by
  cases a <;> cases b <;> simp_all [OG, oadd]
  exact GCM.addP L ha hb

theorem og_comm (ha : OG G a) (hb : OG G b) : oadd a b = oadd b a := by
  cases a <;> cases b <;> simp_all [OG, oadd]
  exact GCM.addP_comm L ha hb

theorem og_assoc (ha : OG G a) (hb : OG G b) (hc : OG G c) :
    oadd (oadd a b) c = oadd a (oadd b c) := by
  cases a <;> cases b <;> cases c <;> simp_all [OG, oadd]
  exact GCM.addP_assoc L ha hb hc

theorem foldl_oadd_og {l : List (Option CMArr)} (hl : ∀ x ∈ l, OG G x) (hacc : OG G a) :
    OG G (l.foldl oadd a) := by
  induction l generalizing a with
  | nil => simpa
  | cons x l ih =>
    exact ih (fun y hy => hl y (by simp [hy])) (og_oadd L hacc (hl x (by simp)))

theorem foldl_oadd_startG {l : List (Option CMArr)} (hl : ∀ x ∈ l, OG G x) (hacc : OG G a) :
    l.foldl oadd a = oadd a (l.foldl oadd none) := by
  induction l generalizing a with
  | nil => simp
  | cons x l ih =>
    have hx := hl x (by simp)
    have hl' : ∀ y ∈ l, OG G y := fun y hy => hl y (by simp [hy])
    simp only [List.foldl_cons, oadd_none_left]
    rw [ih hl' (og_oadd L hacc hx), ih hl' hx,
      og_assoc L hacc hx (foldl_oadd_og L hl' (by trivial))]

theorem foldl_oadd_appendG {l₁ l₂ : List (Option CMArr)} (h₁ : ∀ x ∈ l₁, OG G x)
    (h₂ : ∀ x ∈ l₂, OG G x) :
    (l₁ ++ l₂).foldl oadd none = oadd (l₁.foldl oadd none) (l₂.foldl oadd none) := by
  rw [List.foldl_append, foldl_oadd_startG L h₂ (foldl_oadd_og L h₁ (by trivial))]

theorem foldl_oadd_flattenG {ls : List (List (Option CMArr))} (h : ∀ l ∈ ls, ∀ x ∈ l, OG G x) :
    (ls.map (·.foldl oadd none)).foldl oadd none = ls.flatten.foldl oadd none := by
  induction ls with
  | nil => rfl
  | cons l ls ih =>
    have hl := h l (by simp)
    have hls : ∀ l' ∈ ls, ∀ x ∈ l', OG G x := fun l' hl' => h l' (by simp [hl'])
    have hflat : ∀ x ∈ ls.flatten, OG G x := by
      intro x hx; obtain ⟨l', hl', hx'⟩ := List.mem_flatten.mp hx; exact hls l' hl' x hx'
    have hmap : ∀ x ∈ ls.map (·.foldl oadd none), OG G x := by
      intro x hx; obtain ⟨l', hl', rfl⟩ := List.mem_map.mp hx
      exact foldl_oadd_og L (hls l' hl') (by trivial)
    simp only [List.map_cons, List.foldl_cons, oadd_none_left, List.flatten_cons]
    rw [foldl_oadd_startG L hmap (foldl_oadd_og L hl (by trivial)), ih hls,
      foldl_oadd_appendG L hl hflat]

theorem foldl_oadd_permG {l₁ l₂ : List (Option CMArr)} (p : l₁.Perm l₂) (h : ∀ x ∈ l₁, OG G x)
    (hacc : OG G a) : l₁.foldl oadd a = l₂.foldl oadd a := by
  induction p generalizing a with
  | nil => rfl
  | cons x _ ih =>
    exact ih (fun y hy => h y (by simp [hy])) (og_oadd L hacc (h x (by simp)))
  | swap x y l =>
    have hx := h x (by simp); have hy := h y (by simp)
    simp only [List.foldl_cons]
    rw [og_assoc L hacc hy hx, og_comm L hy hx, ← og_assoc L hacc hx hy]
  | trans p₁ _ ih₁ ih₂ =>
    rw [ih₁ h hacc]
    exact ih₂ (fun y hy => h y (p₁.symm.subset hy)) hacc

end oadd

/-! ## `update_state`, `merge_states` -/

theorem mergeStates_eqG (c : Cfg)
    (hguard : ((c.average == .weighted || c.average == .macro) && c.vocab.isNone) = false)
    (sts : List (Option CMArr)) (h : ∀ s ∈ sts, OG G s) :
    mergeStates c sts = .ok (sts.foldl oadd none) := by
  have key : ∀ (gs : List CMArr) (s : CMArr), GCM G s → (∀ g ∈ gs, GCM G g) →
      gs.foldlM CMArr.iadd s = .ok (gs.foldl CMArr.addP s) := by
    intro gs
    induction gs with
    | nil => intro s _ _; rfl
    | cons g gs ih =>
      intro s hs hg
      have hg0 := hg g (by simp)
      simp only [List.foldlM_cons, GCM.iadd L hs hg0, bind, Except.bind, List.foldl_cons]
      exact ih _ (GCM.addP L hs hg0) (fun g' hg' => hg g' (by simp [hg']))
  have fold_some : ∀ (gs : List CMArr) (s : CMArr),
      (gs.map some).foldl oadd (some s) = some (gs.foldl CMArr.addP s) := by
    intro gs; induction gs with
    | nil => intro s; rfl
    | cons g gs ih => intro s; simp [oadd, ih]
  have fm : ∀ (sts : List (Option CMArr)) (acc : Option CMArr),
      sts.foldl oadd acc = ((sts.filterMap id).map some).foldl oadd acc := by
    intro sts; induction sts with
    | nil => intro acc; rfl
    | cons s sts ih =>
      intro acc
      cases s with
      | none => simpa using ih acc
      | some s => simpa using ih (oadd acc (some s))
  have hgood : ∀ g ∈ sts.filterMap id, GCM G g := by
    intro g hg
    obtain ⟨s, hs, hsg⟩ := List.mem_filterMap.mp hg
    have := h s hs
    simp only [id] at hsg; subst hsg; exact this
  unfold mergeStates
  simp only [hguard, Bool.false_eq_true, ↓reduceIte, pure, Except.pure]
  rw [fm sts none]
  cases hfm : sts.filterMap id with
  | nil => rfl
  | cons s rest =>
    rw [hfm] at hgood
    simp only [List.map_cons, List.foldl_cons, oadd_none_left, fold_some,
      key rest s (hgood s (by simp)) (fun g hg => hgood g (by simp [hg])), Functor.map, Except.map]

theorem updateState_eqG (c : Cfg) (st : Option CMArr) (b : Batch)
    (cm : CMArr) (hb : batchCM c b = .ok cm) (hcm : GCM G cm) (hst : OG G st) :
    updateState c st b = .ok (oadd st (some cm)) := by
  unfold updateState
  simp only [hb, bind, Except.bind, pure, Except.pure]
  cases st with
  | none => rfl
  | some s =>
    have hs : GCM G s := hst
    simp only [GCM.add L hcm hs, GCM.addP_comm L hcm hs, oadd]

theorem feedApi_eqG (c : Cfg) (bs : List Batch) (cmOf : Batch → CMArr)
    (hb : ∀ b ∈ bs, batchCM c b = .ok (cmOf b) ∧ GCM G (cmOf b)) :
    feedApi c bs = .ok ((bs.map fun b => some (cmOf b)).foldl oadd none) := by
  have gen : ∀ (st : Option CMArr), OG G st →
      bs.foldlM (updateState c) st = .ok ((bs.map fun b => some (cmOf b)).foldl oadd st) := by
    induction bs with
    | nil => intro st _; rfl
    | cons b bs ih =>
      intro st hst
      have h := hb b (by simp)
      simp only [List.foldlM_cons, updateState_eqG L c st _ _ h.1 h.2 hst, bind, Except.bind,
        List.map_cons, List.foldl_cons]
      exact ih (fun b' hb' => hb b' (by simp [hb'])) _ (og_oadd L hst h.2)
  exact gen none (by trivial)

end gen

/-! ## configurations whose batches reduce to a homomorphic count function -/

/-- `batch_eq`: on admissible batches the accumulator computes `D`; `hom`: `D` of a concatenation
is the pointwise sum — `D` sees the examples one by one, whatever their batch-mates are -/
structure EncodesG (c : Cfg) (G : Arr Int → Prop) {X : Type} (okB : List X → Prop)
    (toBatch : List X → Batch) (D : List X → CMArr) : Prop where
  laws : ArrLaws G
  /-- `merge_states` does not demand a vocabulary -/
  guard : ((c.average == .weighted || c.average == .macro) && c.vocab.isNone) = false
  good : ∀ xs, GCM G (D xs)
  hom : ∀ xs ys, D (xs ++ ys) = (D xs).addP (D ys)
  batch_eq : ∀ xs, okB xs → batchCM c (toBatch xs) = .ok (D xs)

/-- the fixed-shape encodings of `Lemmas/ConfusionEncode` are instances -/
theorem Encodes.toG {X : Type} {c : Cfg} {axis : Option Nat} {W : Nat} {okB : List X → Prop}
    {toBatch : List X → Batch} {enc : X → DenseEx} (h : Encodes c axis W okB toBatch enc) :
    EncodesG c (GoodArr axis W) okB toBatch h.D where
  laws := goodArr_laws axis W
  guard := h.guard
  good := fun xs => let g := h.D_good xs; ⟨g.tp, g.tn, g.fp, g.fn⟩
  hom := h.D_append
  batch_eq := h.batch_eq

section
variable {X : Type} {c : Cfg} {G : Arr Int → Prop} {okB : List X → Prop}
  {toBatch : List X → Batch} {D : List X → CMArr}

theorem EncodesG.sum_batches (h : EncodesG c G okB toBatch D) (bss : List (List X)) :
    (bss.map fun xs => some (D xs)).foldl oadd none
      = if bss = [] then none else some (D bss.flatten) := by
  have gen : ∀ (bss : List (List X)) (pre : List X),
      (bss.map fun xs => some (D xs)).foldl oadd (some (D pre)) = some (D (pre ++ bss.flatten)) := by
    intro bss
    induction bss with
    | nil => intro pre; simp
    | cons b bss ih =>
      intro pre
      simp only [List.map_cons, List.foldl_cons, oadd, ← h.hom, ih, List.flatten_cons,
        List.append_assoc]
  cases bss with
  | nil => rfl
  | cons b bss => simpa [oadd] using gen bss b

theorem EncodesG.feed (h : EncodesG c G okB toBatch D) (sh : List (List X)) (hok : ∀ b ∈ sh, okB b) :
    feedApi c (sh.map toBatch) = .ok ((sh.map fun xs => some (D xs)).foldl oadd none) := by
  let cmOf : Batch → CMArr := fun b => match batchCM c b with
    | .ok cm => cm
    | .error _ => default
  have hb : ∀ b ∈ sh.map toBatch, batchCM c b = .ok (cmOf b) ∧ GCM G (cmOf b) := by
    intro b hb
    obtain ⟨xs, hxs, rfl⟩ := List.mem_map.mp hb
    have e := h.batch_eq xs (hok xs hxs)
    have : cmOf (toBatch xs) = D xs := by simp only [cmOf, e]
    rw [this]; exact ⟨e, h.good xs⟩
  rw [feedApi_eqG h.laws c _ cmOf hb, List.map_map]
  congr 2
  apply List.map_congr_left
  intro xs hxs
  have e := h.batch_eq xs (hok xs hxs)
  simp only [Function.comp, cmOf, e]

theorem EncodesG.feed_good (h : EncodesG c G okB toBatch D) (sh : List (List X)) :
    OG G ((sh.map fun xs => some (D xs)).foldl oadd none) :=
  foldl_oadd_og h.laws (fun x hx => by
    obtain ⟨xs, _, rfl⟩ := List.mem_map.mp hx; exact h.good xs) (by trivial)

/-- one accumulator, any batching (empty batches included): the counts of all its examples -/
theorem EncodesG.feed_closed (h : EncodesG c G okB toBatch D) (sh : List (List X))
    (hok : ∀ b ∈ sh, okB b) :
    feedApi c (sh.map toBatch) = .ok (if sh = [] then none else some (D sh.flatten)) := by
  rw [h.feed sh hok, h.sum_batches]

/-- **sharding**: shard accumulators merged by `merge_states` hold the counts of all examples -/
theorem EncodesG.sharded (h : EncodesG c G okB toBatch D) (shards : List (List (List X)))
    (hok : ∀ sh ∈ shards, ∀ b ∈ sh, okB b) :
    runSharded c (shards.map (·.map toBatch))
      = .ok (if shards.flatten = [] then none else some (D shards.flatten.flatten)) := by
  unfold runSharded
  rw [List.mapM_map, mapM_ok (feedApi c ∘ fun x => List.map toBatch x)
    (fun sh => (sh.map fun xs => some (D xs)).foldl oadd none) shards
    (fun sh hsh => h.feed sh (hok sh hsh))]
  simp only [bind, Except.bind]
  rw [mergeStates_eqG h.laws c h.guard _ (by
    intro s hs; obtain ⟨sh, _, rfl⟩ := List.mem_map.mp hs; exact h.feed_good sh)]
  have := foldl_oadd_flattenG h.laws
    (ls := shards.map fun sh => sh.map fun xs => some (D xs)) (by
      intro l hl x hx
      obtain ⟨sh, _, rfl⟩ := List.mem_map.mp hl
      obtain ⟨xs, _, rfl⟩ := List.mem_map.mp hx
      exact h.good xs)
  rw [List.map_map] at this
  simp only [Function.comp_def] at this
  rw [this, ← List.map_flatten, h.sum_batches]

theorem EncodesG.one_batch (h : EncodesG c G okB toBatch D) (xs : List X) (hok : okB xs) :
    feedApi c [toBatch xs] = .ok (some (D xs)) := by
  have := h.feed [xs] (by simpa using hok)
  simpa [oadd] using this

end

/-! ## arbitrary merge trees -/

section tree
variable {G : Arr Int → Prop} (L : ArrLaws G) (c : Cfg)
  (hguard : ((c.average == .weighted || c.average == .macro) && c.vocab.isNone) = false)
  (states : List (Option CMArr)) (hg : ∀ s ∈ states, OG G s)
include L hguard hg

theorem leafSum_og (is : List Nat) : OG G (leafSum states is) := by
  apply foldl_oadd_og L _ (by trivial)
  intro x hx
  obtain ⟨i, _, rfl⟩ := List.mem_map.mp hx
  by_cases hi : i < states.length
  · simp only [List.getD_eq_getElem?_getD, List.getElem?_eq_getElem hi, Option.getD_some]
    exact hg _ (List.getElem_mem hi)
  · simp [List.getD_eq_getElem?_getD, List.getElem?_eq_none (Nat.le_of_not_lt hi), OG]

mutual
theorem evalTree_eqG : ∀ (t : MTree), (∀ i ∈ t.leaves, i < states.length) →
    evalTree c states t = .ok (leafSum states t.leaves)
  | .leaf i, h => by
    have hi : i < states.length := h i (by simp [MTree.leaves])
    simp [evalTree, MTree.leaves, leafSum, List.getElem?_eq_getElem hi, List.getD_eq_getElem?_getD]
  | .node ts, h => by
    have hts : ∀ t ∈ ts, ∀ i ∈ t.leaves, i < states.length := by
      intro t ht i hi
      apply h i
      simp only [MTree.leaves, leavesList_eq, List.mem_flatten, List.mem_map]
      exact ⟨t.leaves, ⟨t, ht, rfl⟩, hi⟩
    simp only [evalTree, evalTrees_eqG ts hts, bind, Except.bind]
    rw [mergeStates_eqG L c hguard _ (by
      intro s hs; obtain ⟨t, _, rfl⟩ := List.mem_map.mp hs; exact leafSum_og L c hguard states hg _)]
    have := foldl_oadd_flattenG L
      (ls := ts.map fun t => t.leaves.map fun i => states.getD i none) (by
        intro l hl x hx
        obtain ⟨t, _, rfl⟩ := List.mem_map.mp hl
        obtain ⟨i, _, rfl⟩ := List.mem_map.mp hx
        have := leafSum_og L c hguard states hg [i]
        simpa [leafSum] using this)
    rw [List.map_map] at this
    simp only [Function.comp_def] at this
    simp only [leafSum] at *
    rw [this, MTree.leaves, leavesList_eq, List.map_flatten, List.map_map]
    rfl
theorem evalTrees_eqG : ∀ (ts : List MTree), (∀ t ∈ ts, ∀ i ∈ t.leaves, i < states.length) →
    evalTrees c states ts = .ok (ts.map fun t => leafSum states t.leaves)
  | [], _ => rfl
  | t :: ts, h => by
    simp only [evalTrees, evalTree_eqG t (h t (by simp)),
      evalTrees_eqG ts (fun t' ht' => h t' (by simp [ht'])), bind, Except.bind, pure, Except.pure,
      List.map_cons]
end

/-- two merge plans over the same shards (any order, any bracketing) agree -/
theorem evalTree_permG (t₁ t₂ : MTree) (h₁ : ∀ i ∈ t₁.leaves, i < states.length)
    (hp : t₁.leaves.Perm t₂.leaves) : evalTree c states t₁ = evalTree c states t₂ := by
  have h₂ : ∀ i ∈ t₂.leaves, i < states.length := fun i hi => h₁ i (hp.symm.subset hi)
  rw [evalTree_eqG L c hguard states hg t₁ h₁, evalTree_eqG L c hguard states hg t₂ h₂]
  congr 1
  apply foldl_oadd_permG L (hp.map _) _ (by trivial)
  intro x hx
  obtain ⟨i, _, rfl⟩ := List.mem_map.mp hx
  have := leafSum_og L c hguard states hg [i]
  simpa [leafSum] using this

end tree
end MlModel.Agg.Confusion
