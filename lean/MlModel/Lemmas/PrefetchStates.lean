import MlModel.Lemmas.PrefetchLocks
/-!
# `_states_lock`: taken by a server thread around its shutdown callback (`_shutdown_server`)
-/
namespace MlModel.Prefetch
set_option linter.unusedSimpArgs false

/-- program points of `run_until_shutdown` / `_shutdown_server` proper -/
def mnPc : Pc → Bool
  | .mnAcq | .mnWait | .mnWake | .mnTxA | .mnTxR | .mnRel | .mnStA | .mnStR => true
  | _ => false

/-- a server thread between `with self._states_lock:` and its release -/
def holdsSt (t : Thread) : Bool :=
  (t.prog == .main && (t.pc == .lkAcq || t.pc == .lkStop || t.pc == .lkJoin || t.pc == .lkRel)) || t.pc == .mnStR

set_option hygiene false in
macro "seff_close" : tactic => `(tactic|
  (refine ⟨_, getElem?_setTh ht _ _, ?_, ⟨?_, ?_, ?_, ?_⟩⟩ <;>
    first
    | (simp [holdsSt, mnPc, setTh, *]; done)
    | (simp_all [holdsSt, mnPc, setTh]; done)))

set_option maxHeartbeats 1000000 in
theorem step_seff {c c' : Cfg} {tid : Queue.Tid} {lbl : String} {t : Thread}
    (ht : c.ths[tid]? = some t) (hpm : mnPc t.pc = true → t.prog = .main) (h : step c tid = some (lbl, c')) :
    ∃ t', c'.ths[tid]? = some t' ∧ (mnPc t'.pc = true → t'.prog = .main) ∧
      LEff c.sh.stOwner c'.sh.stOwner (holdsSt t) (holdsSt t') tid := by
  unfold step at h
  simp only [ht] at h
  cases hpc : t.pc <;> simp only [hpc] at h hpm
  case done => simp at h
  case iiSpawn =>
    cases hg : gen? t.prog with
    | none => simp [hg] at h
    | some g =>
      have hlt : tid < c.ths.length := by
        rcases List.getElem?_eq_some_iff.mp ht with ⟨h, _⟩; exact h
      simp only [hg, Option.some.injEq, Prod.mk.injEq] at h
      obtain ⟨-, rfl⟩ := h
      refine ⟨{ t with pc := .lkRel }, by simp [List.getElem?_append_left, hlt, List.getElem?_set_self hlt],
        by simp [mnPc], ⟨?_, ?_, ?_, ?_⟩⟩ <;>
      (cases hp : t.prog <;> simp_all [holdsSt, gen?])
  case prod =>
    cases hq : c.sh.qs[t.g]? with
    | none => simp [hq] at h
    | some q =>
      simp only [hq] at h
      cases hst : Queue.stepThread q t.qt tid false with
      | none => simp [hst] at h
      | some res =>
        obtain ⟨lbl0, q', qt'⟩ := res
        simp only [hst] at h
        leff_split <;> seff_close
  case nbGet =>
    cases hq : c.sh.qs[t.g]? with
    | none => simp [hq] at h
    | some q =>
      simp only [hq] at h
      cases hst : Queue.stepThread q t.qt tid false with
      | none => simp [hst] at h
      | some res =>
        obtain ⟨lbl0, q', qt'⟩ := res
        simp only [hst] at h
        leff_split <;> seff_close
  case lkStop =>
    cases hq : c.sh.qs[t.g]? with
    | none => simp [hq] at h
    | some q =>
      simp only [hq] at h
      cases hst : Queue.stepThread q t.qt tid false with
      | none => simp [hst] at h
      | some res =>
        obtain ⟨lbl0, q', qt'⟩ := res
        simp only [hst, afterStop, install, failInit] at h
        cases hprog : t.prog <;> simp only [hprog] at h <;> leff_split <;> seff_close
  case lkJoin =>
    cases he : c.sh.enqThread with
    | none => simp [he] at h
    | some p =>
      simp only [he] at h
      cases hp : c.ths[p]? with
      | none => simp [hp] at h
      | some tp =>
        simp only [hp, afterStop, install, failInit] at h
        cases hprog : t.prog <;> simp only [hprog] at h <;> leff_split <;> seff_close
  case lkAcq =>
    simp only [beginStop, install, failInit] at h
    cases hprog : t.prog <;> simp only [hprog] at h <;> leff_split <;> seff_close
  case lkRel =>
    cases hprog : t.prog <;> simp only [hprog] at h <;> leff_split <;> seff_close
  case start =>
    simp only [callNext, beginNext] at h
    cases hprog : t.prog <;> simp only [hprog] at h <;> leff_split <;> seff_close
  all_goals
    try simp only [callNext, beginNext, receive] at h
    leff_split <;> seff_close

end MlModel.Prefetch
