import MlModel.Model.Remote
import MlModel.Lemmas.LazyPickle
/-! Basic facts about the remote-evaluation model: pickling round trips, what `run` leaves alone,
the handler and the decoder on the request `get_result` sends. -/
namespace MlModel.Remote
open MlModel MlModel.Lazy
set_option linter.unusedSimpArgs false

/-! ### Pickling is a faithful structural copy -/

theorem Exc.loads_dumps (x : Exc) : x.dumps.loads = x := by
  cases x; simp [Exc.dumps, WExc.loads, Val.loadsL_dumpsL]

theorem Fin.loads_dumps (f : Fin) : f.dumps.loads = f := by
  cases f <;> simp [Fin.dumps, WFin.loads, Val.loadsL_dumpsL, Exc.loads_dumps]

theorem Prog.loads_dumps (p : Prog) : p.dumps.loads = p := by
  cases p <;> simp [Prog.dumps, WProg.loads, Expr.loads_dumps, Exc.loads_dumps, Fin.loads_dumps,
    Val.loadsL_dumpsL]

theorem PVal.loads_dumps (v : PVal) : v.dumps.loads = v := by
  cases v <;> simp [PVal.dumps, WPVal.loads, Val.loads_dumps, Exc.loads_dumps, Val.loadsL_dumpsL]

/-! ### `run` never touches the shutdown flag, the background list or the batch bound -/

/-- the components of the process state that local evaluation leaves alone -/
structure Keeps (srv srv' : Srv) : Prop where
  shutdown : srv'.shutdown = srv.shutdown
  bg : srv'.bg = srv.bg
  maxBatch : srv'.maxBatch = srv.maxBatch

theorem Keeps.refl (srv : Srv) : Keeps srv srv := ⟨rfl, rfl, rfl⟩

theorem keeps_allocObj (o : SObj) (srv : Srv) : Keeps srv (allocObj o srv).2 := ⟨rfl, rfl, rfl⟩

theorem keeps_lz (srv : Srv) (lz : St) : Keeps srv { srv with lz := lz } := ⟨rfl, rfl, rfl⟩

theorem keeps_objs (srv : Srv) (os : Store) : Keeps srv { srv with objs := os } := ⟨rfl, rfl, rfl⟩

theorem keeps_plainFallback (id : Nat) (k : ErrKind) (srv : Srv) : Keeps srv (plainFallback id k srv).2 := by
  unfold plainFallback
  split <;> exact keeps_lz _ _

theorem keeps_iterPlain (id : Nat) (srv : Srv) : Keeps srv (iterPlain id srv).2 := by
  unfold iterPlain
  split
  · exact keeps_lz _ _
  · exact ⟨rfl, rfl, rfl⟩
  · exact ⟨rfl, rfl, rfl⟩
  · exact keeps_lz _ _

theorem keeps_run (p : Prog) (srv : Srv) : Keeps srv (run p srv).2 := by
  cases p with
  | expr e => exact keeps_lz _ _
  | excValue x => exact Keeps.refl _
  | raise x => exact Keeps.refl _
  | mkGen items fin => exact keeps_allocObj _ _
  | mkQueue buf fin => exact keeps_allocObj _ _
  | iterOf id =>
    simp only [run, runIterOf]
    split
    · exact keeps_allocObj _ _
    · exact Keeps.refl _
    · exact keeps_iterPlain _ _
  | next id =>
    simp only [run, runNext]
    split
    · exact keeps_objs _ _
    · exact Keeps.refl _
    · exact keeps_plainFallback _ _ _
  | qget id =>
    simp only [run, runQGet]
    split
    · exact keeps_objs _ _
    · exact Keeps.refl _
    · exact keeps_plainFallback _ _ _
  | qbatch id =>
    simp only [run, runQBatch]
    split
    · exact keeps_objs _ _
    · exact Keeps.refl _
    · exact keeps_plainFallback _ _ _

theorem run_shutdown (p : Prog) (srv : Srv) : (run p srv).2.shutdown = srv.shutdown := (keeps_run p srv).shutdown

/-! ### Errors of tracing: raised on the client; local evaluation reports the same -/

theorem run_traceError {p : Prog} {x : Exc} (h : p.traceError = some x) (srv : Srv) :
    run p srv = (.error x, srv) := by
  cases p with
  | expr e =>
    simp only [Prog.traceError] at h
    split at h
    · rename_i hb
      injection h with h
      subst h
      simp [run, runExpr, maybeMake, hb, liftLazy, M.throw]
    · cases h
  | _ => simp [Prog.traceError] at h

theorem getResult_traceError {p : Prog} {x : Exc} (h : p.traceError = some x) (env : Env) (srv : Srv) :
    getResult p env srv = (.error x, srv) := by
  simp [getResult, h]

theorem getResult_traced {p : Prog} (h : p.traceError = none) (env : Env) (srv : Srv) :
    getResult p env srv =
      if !env.alive0 then (.error connectExc, srv) else
      match env.fate with
      | .ok => (decode env (handle (getRequest p) srv).1, (handle (getRequest p) srv).2)
      | .deadline => (.error (onError env deadlineStatus), srv)
      | .deadlineAfter => (.error (onError env deadlineStatus), (handle (getRequest p) srv).2)
      | .appError => (.error (onError env appStatus), srv)
      | .lost => (.error disconnectedExc, srv) := by
  simp only [getResult, h]
  rfl

/-! ### The handler on the request `get_result` sends, and the decoder -/

/-- the reply to `get_result`'s request: the pickled outcome of local evaluation, exceptions captured
as values, replaced by the shutdown `TimeoutError` once shutdown is requested -/
theorem handle_getRequest (p : Prog) (srv : Srv) :
    handle (getRequest p) srv =
      (match (run p srv).1 with
       | .ok v => Reply.payload v.dumps true
       | .error x => Reply.payload (.exc (if srv.shutdown then shutdownExc else x).dumps) true,
       (run p srv).2) := by
  simp only [handle, getRequest, Prog.loads_dumps, Bool.false_eq_true, if_false, Bool.not_true, run_shutdown]
  cases (run p srv).1 <;> rfl

theorem decode_payload (env : Env) (v : PVal) :
    decode env (.payload v.dumps true) =
      match v with
      | .exc x => .error x
      | v => .ok (wrap v) := by
  simp only [decode, PVal.loads_dumps]
  cases v with
  | exc x => rfl
  | list xs => rfl
  | plain v => cases v <;> rfl

theorem decode_exc (env : Env) (x : Exc) :
    decode env (.payload (.exc x.dumps) true) = .error x := by
  have := decode_payload env (.exc x)
  simpa [PVal.dumps] using this

end MlModel.Remote
