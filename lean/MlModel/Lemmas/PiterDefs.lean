import MlModel.Lemmas.PiterBase
import MlModel.Lemmas.PiterStep
/-!
# Vocabulary of the parallel-iteration invariants and small list lemmas
-/
namespace MlModel.Piter
open MlModel.Queue

/-! ### lists -/

theorem flatten_set_perm {α : Type} [DecidableEq α] {l : List (List α)} {i : Nat} {a b : List α}
    (h : l[i]? = some a) : ((l.set i b).flatten ++ a).Perm (l.flatten ++ b) := by
  induction l generalizing i with
  | nil => simp at h
  | cons x xs ih =>
    cases i with
    | zero =>
      simp only [List.getElem?_cons_zero, Option.some.injEq] at h
      subst h
      simp only [List.set_cons_zero, List.flatten_cons]
      rw [List.perm_iff_count]; intro e; simp only [List.count_append]; omega
    | succ j =>
      simp only [List.getElem?_cons_succ] at h
      have := ih h
      simp only [List.set_cons_succ, List.flatten_cons] at this ⊢
      rw [List.perm_iff_count] at this ⊢
      intro e; have := this e; simp only [List.count_append] at this ⊢; omega

theorem sum_set {l : List Nat} {i a b : Nat} (h : l[i]? = some a) : (l.set i b).sum + a = l.sum + b := by
  induction l generalizing i with
  | nil => simp at h
  | cons x xs ih =>
    cases i with
    | zero =>
      simp only [List.getElem?_cons_zero, Option.some.injEq] at h
      subst h
      simp only [List.set_cons_zero, List.sum_cons]; omega
    | succ j =>
      simp only [List.getElem?_cons_succ] at h
      have := ih h
      simp only [List.set_cons_succ, List.sum_cons]; omega

theorem map_set_same {α β : Type} {l : List α} {i : Nat} {a b : α} (f : α → β) (h : l[i]? = some a)
    (hf : f b = f a) : (l.set i b).map f = l.map f := by
  induction l generalizing i with
  | nil => simp
  | cons x xs ih =>
    cases i with
    | zero =>
      simp only [List.getElem?_cons_zero, Option.some.injEq] at h
      subst h; simp [hf]
    | succ j =>
      simp only [List.getElem?_cons_succ] at h
      simp [ih h]

/-- a sum of 0/1 indicators that reaches the sum of a pointwise larger family forces equality pointwise -/
theorem ind_all {α : Type} (l : List α) (f g : α → Nat) (hle : ∀ x ∈ l, f x ≤ g x)
    (hs : (l.map f).sum = (l.map g).sum) : ∀ x ∈ l, f x = g x := by
  induction l with
  | nil => simp
  | cons a as ih =>
    have h1 : (as.map f).sum ≤ (as.map g).sum := by
      clear ih hs
      induction as with
      | nil => simp
      | cons b bs ih2 =>
        simp only [List.map_cons, List.sum_cons]
        have := hle b (by simp)
        have := ih2 (by intro x hx; exact hle x (by simp at hx ⊢; rcases hx with rfl | hx <;> simp_all))
        omega
    have h2 := hle a (by simp)
    simp only [List.map_cons, List.sum_cons] at hs
    intro x hx
    rcases List.mem_cons.mp hx with rfl | hx
    · omega
    · exact ih (by intro y hy; exact hle y (by simp [hy])) (by omega) x hx

/-! ### vocabulary -/

def qcfg (c : Cfg) : Queue.Cfg := { sh := c.sh, ths := c.ths.map (·.q) }

/-- the row function on the values that were pulled (all of them succeeded) -/
def FMv (F : Nat → Option (List Nat)) (l : List Nat) : List Nat := l.flatMap fun v => (F v).getD []

theorem FMv_append (F : Nat → Option (List Nat)) (a b : List Nat) : FMv F (a ++ b) = FMv F a ++ FMv F b := by
  simp [FMv]

/-- the value a producer holds between `next` and the successful `put_nowait` -/
def holdV (t : PThread) : List Nat := if pendPc t.q.pc then [t.q.v.2] else []

def indProd (t : PThread) : Nat := if t.isProd then 1 else 0
def indStart (t : PThread) : Nat := if t.isProd && pastStart t.q.pc then 1 else 0
def indStop (t : PThread) : Nat := if t.isProd && pastStop t.q.pc then 1 else 0
def retL (t : PThread) : List Nat := if t.isProd && pastStop t.q.pc then [retOf t] else []

/-- the item a producer holds under the input lock, between `next` and `release` -/
def handItems (t : PThread) : List Item :=
  if t.isProd && t.q.pc == .eNext && t.ipc == .rel then
    (match t.hand with | .item i => [i] | .stop => [])
  else []

def itemsOf (t : PThread) : List Item := t.pulled.map Item.val ++ handItems t

def inputAt (c : Cfg) (sid : Nat) : List Item := (c.inputs[sid]?).getD []

/-- no failure so far and no early stop: the run is (still) the clean exhaustion case -/
def NF (c : Cfg) : Prop := c.sh.exc = none ∧ ∀ t0, c.ths[0]? = some t0 → t0.early = false

def AllStopped (c : Cfg) : Prop := ∀ t ∈ c.ths, t.isProd = true → pastStop t.q.pc = true

/-- what is fixed once and for all by `init` -/
structure Static (c : Cfg) : Prop where
  timeout : c.sh.timeout = false
  role : ∀ tid t, c.ths[tid]? = some t → (t.isProd = true ↔ tid ≠ 0)
  kindP : ∀ t ∈ c.ths, t.isProd = true → t.q.prog.kind = .producer
  kindC : ∀ t ∈ c.ths, t.isProd = false →
    ((t.cpc = .boot ∨ t.cpc = .submit) → t.q.prog.kind = .batch ∧ t.q.pc = .start ∧ t.q.result = []) ∧
    (t.cpc = .iter → t.q.prog.kind = .batch) ∧
    (t.cpc = .stopping → t.q.prog = .stopper none)
  seqP : ∀ t ∈ c.ths, t.isProd = true → seqOf t.q = []
  endC : ∀ t ∈ c.ths, t.isProd = false → (t.cpc = .shutdown ∨ t.cpc = .fin) → t.q.pc = .done ∧ t.q.result = []
  consE : ∀ t ∈ c.ths, t.isProd = false → t.emitted = [] ∧ t.pulled = []

end MlModel.Piter
