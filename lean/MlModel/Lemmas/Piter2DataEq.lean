import MlModel.Lemmas.Piter2Data
/-!
# Two-queue LTS: nothing is dropped on the producer side of the second level unless the output queue failed or stopped

`Piter2Data.lean` shows `emitted ++ inflight ++ pend <+ (pulled.flatMap F)` for every second-level task.  While the
output queue has neither failed nor been stopped this is an EQUALITY: a producer gives up the value in its hand only
when `enqueue_done` holds (`Queue.stepThread_drop`), and without failure / stop request `enqueue_done` cannot hold while
a producer is still inside `put` (it has not run `_stop_enqueue`: the producer counting of `Queue.Live`).
-/
namespace MlModel.Piter2
open MlModel.Queue

variable {F : Nat → Option (List Nat)}

/-- the queue has neither failed nor been stopped -/
def Clean (s : Shared) : Prop := s.exc = none ∧ s.stopRequested = false

theorem clean_of_sticky {s s' : Shared} (h : Sticky s s') (hc : Clean s') : Clean s := by
  obtain ⟨h1, h2, -⟩ := h
  constructor
  · cases he : s.exc with
    | none => rfl
    | some e => have := h1 (by simp [he]); rw [hc.1] at this; cases this
  · cases hs : s.stopRequested with
    | false => rfl
    | true => have := h2 hs; rw [hc.2] at this; cases this

/-- without failure and stop request `enqueue_done` does not hold while some producer has not run `_stop_enqueue` -/
theorem not_done_by_count {qc : Queue.Cfg} {tid : Tid} {q : Queue.Thread} (hv : Queue.Live qc)
    (hq : qc.ths[tid]? = some q) (hip : isProd q = true) (hpt : pastT q = false)
    (hd : qc.sh.enqueueDone = true) (hc : Clean qc.sh) : False := by
  obtain ⟨e1, e2, e3⟩ := hv.base.cnt hc.2
  rw [enqueueDone_iff] at hd
  rcases hd with hd | hd | ⟨-, hd2, hd3⟩
  · rw [hc.1] at hd; cases hd
  · rw [hc.2] at hd; cases hd
  · have := countP_lt_of pastT isProd pastT_isProd (List.mem_of_getElem? hq) hip hpt
    omega

/-- second level, producer side, exact form -/
def L2Eq (F : Nat → Option (List Nat)) (c : Cfg) : Prop :=
  ∀ t ∈ c.ths, t.role = .l2 →
    (t.b.pc = .eNext → t.pend = []) ∧
    (Clean c.s2 → t.emitted ++ inflight t ++ t.pend = t.pulled.flatMap (Fp F))

theorem afterPull_eq {fwd : Bool} {tid : Tid} {s2 : Shared} {t : Th} (hpc : t.b.pc = .eNext) (hpend : t.pend = [])
    (r : Hand) (heq : Clean s2 → t.emitted ++ inflight t ++ t.pend = t.pulled.flatMap (Fp F)) :
    ((afterPull F fwd tid s2 t r).2.b.pc = .eNext → (afterPull F fwd tid s2 t r).2.pend = []) ∧
    (Clean (afterPull F fwd tid s2 t r).1 →
      (afterPull F fwd tid s2 t r).2.emitted ++ inflight (afterPull F fwd tid s2 t r).2 ++
        (afterPull F fwd tid s2 t r).2.pend = (afterPull F fwd tid s2 t r).2.pulled.flatMap (Fp F)) := by
  have hin : inflight t = [] := by simp [inflight, putPc, hpc]
  rw [hin, hpend, List.append_nil, List.append_nil] at heq
  cases r with
  | stop rets =>
    refine ⟨by simp [afterPull], fun hc => ?_⟩
    simpa [afterPull, inflight, putPc, hpend] using heq hc
  | err e =>
    refine ⟨by simp [afterPull, failPull], fun hc => ?_⟩
    simp [afterPull, failPull, Clean] at hc
  | item v =>
    simp only [afterPull]
    split
    · refine ⟨by simp [failPull], fun hc => ?_⟩
      simp [failPull, Clean] at hc
    · rename_i hF
      refine ⟨fun _ => hpend, fun hc => ?_⟩
      simp only [inflight, putPc, hpc, hpend, List.flatMap_append, List.flatMap_cons, List.flatMap_nil, Fp, hF,
        Option.getD_some, List.append_nil]
      simpa using heq hc
    · rename_i y ys hF
      refine ⟨by simp, fun hc => ?_⟩
      simp only [inflight, putPc, List.flatMap_append, List.flatMap_cons, List.flatMap_nil, Fp, hF, Option.getD_some,
        List.append_nil, if_true]
      rw [← heq hc]
      simp

theorem pastT_put {q : Queue.Thread} (h : putPc q.pc = true) : pastT q = false := by
  unfold pastT
  cases hpc : q.pc <;> simp_all [putPc]

set_option maxHeartbeats 400000 in
theorem l2eq_step {c c' : Cfg} {tid : Tid} {alt : Bool} {lbl : String} (hg : Good c)
    (h : step F c tid alt = some (lbl, c')) (hv : L2Eq F c) : L2Eq F c' := by
  have hi := hg.inv
  obtain ⟨t, t', ht, hths, hrole⟩ := step_set h
  have hst2 := (step_sticky h).2
  have hti := hi.ti t (List.mem_of_getElem? ht)
  -- all threads but the stepping one
  have hrest : (t.role = .l2 → (t'.b.pc = .eNext → t'.pend = []) ∧
      (Clean c'.s2 → t'.emitted ++ inflight t' ++ t'.pend = t'.pulled.flatMap (Fp F))) → L2Eq F c' := by
    intro hnew u hu hr
    rw [hths] at hu
    rcases List.mem_or_eq_of_mem_set hu with hu | rfl
    · exact ⟨(hv u hu hr).1, fun hc => (hv u hu hr).2 (clean_of_sticky hst2 hc)⟩
    · exact hnew (by rw [← hrole]; exact hr)
  by_cases hr : t.role = .l2
  · obtain ⟨hP, hE⟩ := hv t (List.mem_of_getElem? ht) hr
    unfold step at h
    simp only [ht, hr] at h
    have hkb : t.b.prog.kind = .producer := by unfold TI at hti; simp only [hr] at hti; exact hti.1
    have htok : TOK t.b := tok_of_v2 hr (hg.live2.base.tok _ (List.mem_of_getElem? (q2_get ht)))
    -- the stepping thread, case by case (`t'` is determined by `c'.ths = c.ths.set tid t'`)
    have hlt : tid < c.ths.length := (List.getElem?_eq_some_iff.mp ht).1
    have hset : ∀ t'' : Th, c'.ths = c.ths.set tid t'' → t' = t'' := by
      intro t'' e
      have := congrArg (fun l => l[tid]?) (hths.symm.trans e)
      simpa [hlt] using this
    have hsame : ∀ t'' : Th, c'.ths = c.ths.set tid t'' → c'.s2 = c.s2 → t''.b = t.b →
        t''.emitted = t.emitted → t''.pend = t.pend → t''.pulled = t.pulled → L2Eq F c' := by
      intro t'' e1 e3 e4 e5 e6 e7
      have := hset t'' e1
      subst this
      refine hrest (fun _ => ⟨by rw [e4, e6]; exact hP, fun hc => ?_⟩)
      simp only [inflight, e4, e5, e6, e7]
      exact hE (by rw [← e3]; exact hc)
    unfold stepL2 at h
    split at h
    · -- start
      rename_i hpc
      (repeat' split at h) <;> simp only [Option.some.injEq, Prod.mk.injEq, reduceCtorEq] at h
      obtain ⟨-, rfl⟩ := h
      have := hset { t with b := { t.b with pc := .sAcq } } rfl
      subst this
      refine hrest (fun _ => ⟨by simp, fun hc => ?_⟩)
      have := hE hc
      simpa [inflight, putPc, hpc] using this
    · rename_i hpc
      split at h
      · (repeat' split at h) <;> simp only [Option.some.injEq, Prod.mk.injEq, reduceCtorEq] at h <;>
          obtain ⟨-, rfl⟩ := h <;> exact hsame _ rfl rfl rfl rfl rfl rfl
      · (repeat' split at h) <;> simp only [Option.some.injEq, Prod.mk.injEq, reduceCtorEq] at h <;>
          obtain ⟨-, rfl⟩ := h <;> exact hsame _ rfl rfl rfl rfl rfl rfl
      · (repeat' split at h) <;> simp only [Option.some.injEq, Prod.mk.injEq, reduceCtorEq] at h
        obtain ⟨-, rfl⟩ := h
        have := hset (afterPull F c.fwd tid c.s2 t t.hand).2 rfl
        subst this
        exact hrest (fun _ => afterPull_eq hpc (hP hpc) t.hand hE)
      · simp at h
    · (repeat' split at h) <;> simp only [Option.some.injEq, Prod.mk.injEq, reduceCtorEq] at h <;>
        obtain ⟨-, rfl⟩ := h <;> exact hsame _ rfl rfl rfl rfl rfl rfl
    · rename_i h1 h2 h3
      split at h
      · simp at h
      rename_i l s2' b' hst
      simp only [Option.some.injEq, Prod.mk.injEq] at h
      obtain ⟨-, rfl⟩ := h
      have := hset (postProd tid t s2' b') rfl
      subst this
      have hprod := prodPc_of_tok htok hkb (fun e => h1 e) (fun e => h3 e)
      obtain ⟨hp, hrest'⟩ := stepThread_put l s2' b' hst
      obtain ⟨hvv, hput, hps⟩ := hrest' (fun e => h2 e) hprod
      obtain ⟨f1, f2, f3⟩ := postProd_fields tid t s2' b'
      refine hrest (fun _ => ⟨?_, fun hc => ?_⟩)
      · rcases f3 with ⟨-, -, -, g2⟩ | ⟨-, y, ys, -, g1, -⟩ | ⟨e, g1, -⟩
        · exact fun _ => g2
        · intro e; rw [g1] at e; cases e
        · intro e'; rw [g1] at e'; exact absurd e' e
      · have hc0 : Clean c.s2 := clean_of_sticky (sticky_of_stepThread hst) hc
        have heq := hE hc0
        rw [f1]
        by_cases hA : t.b.pc = .pPut ∧ b'.pc = .pStAcq
        · have hEm : (postProd tid t s2' b').emitted = t.emitted ++ [t.b.v.2] := by rw [f2]; simp [hA]
          have hin : inflight t = [t.b.v.2] := by simp [inflight, putPc, hA.1]
          have hne' : b'.pc ≠ .eNext := by rw [hA.2]; simp
          rcases f3 with ⟨e, -⟩ | ⟨e, -⟩ | ⟨-, g1, g2⟩
          · exact absurd e hne'
          · exact absurd e hne'
          · rw [hEm, g2]
            have : inflight (postProd tid t s2' b') = [] := by simp [inflight, g1, putPc, hA.2]
            rw [this, ← heq, hin]
            simp
        · have hfl : (t.b.pc == Pc.pPut && b'.pc == Pc.pStAcq) = false := by
            cases h1' : (t.b.pc == Pc.pPut && b'.pc == Pc.pStAcq) with
            | false => rfl
            | true => simp only [Bool.and_eq_true, beq_iff_eq] at h1'; exact absurd h1' hA
          have hEm : (postProd tid t s2' b').emitted = t.emitted := by rw [f2, hfl]; simp
          -- the value in hand is not given up: enqueueing on the output queue is not done
          have hkeep : (if putPc b'.pc then [b'.v.2] else []) = inflight t := by
            by_cases hpp : putPc b'.pc = true
            · simp [inflight, hpp, hput hpp, hvv]
            · by_cases hpt : putPc t.b.pc = true
              · exfalso
                have hnps : b'.pc ≠ .pStAcq := fun e => hA ⟨hps e, e⟩
                rcases stepThread_drop l s2' b' hst hpt (by simpa using hpp) hnps with hd | hd
                · have hns : ¬ (t.x = .idle ∧ stopSeen t = true) := by
                    rintro ⟨hx, hm⟩
                    rcases (l2_seen hr hti hx hm).1 with hreg | hdn
                    · cases hp' : t.b.pc <;> simp [hp', tRegion, putPc] at hreg hpt
                    · exact h3 hdn
                  have hq2 := q2_get ht
                  rw [v2_l2 hr hns] at hq2
                  exact not_done_by_count hg.live2 hq2 (by simp [isProd, hkb]) (pastT_put hpt) hd hc0
                · rw [hi.to2] at hd; cases hd
              · simp [inflight, hpp, hpt]
          rw [hEm]
          rcases f3 with ⟨e, hpend, g1, g2⟩ | ⟨e, y, ys, hpend, g1, g2⟩ | ⟨e, g1, g2⟩
          · have hin0 : inflight t = [] := by rw [← hkeep]; simp [putPc, e]
            have : inflight (postProd tid t s2' b') = [] := by simp [inflight, g1, putPc, e]
            rw [this, g2, ← heq, hin0, hpend]
          · have hin0 : inflight t = [] := by rw [← hkeep]; simp [putPc, e]
            have : inflight (postProd tid t s2' b') = [y] := by simp [inflight, g1, putPc]
            rw [this, g2, ← heq, hin0, hpend]
            simp
          · have : inflight (postProd tid t s2' b') = inflight t := by
              rw [← hkeep]; simp only [inflight, g1]
            rw [this, g2, heq]
  · exact hrest (fun e => absurd e hr)

theorem l2eq_reachable {c0 c : Cfg} (h : Reachable F c0 c) (hg0 : Good c0) (h0 : L2Eq F c0) : L2Eq F c := by
  induction h with
  | init => exact h0
  | step hr hs ih => exact l2eq_step (good_reachable hg0 hr) hs ih

/-! ### the same for the first level -/

/-- first level, producer side, exact form: while the input queue has neither failed nor been stopped, what a task has
put ++ the value in its hand = what it pulled from its input -/
def L1Eq (c : Cfg) : Prop :=
  ∀ t ∈ c.ths, t.role = .l1 → Clean c.s1 → t.emitted ++ inflight1 t = t.pulled

set_option maxHeartbeats 400000 in
theorem l1eq_step {c c' : Cfg} {tid : Tid} {alt : Bool} {lbl : String} (hg : Good c)
    (h : step F c tid alt = some (lbl, c')) (hv : L1Eq c) : L1Eq c' := by
  have hi := hg.inv
  obtain ⟨t, t', ht, hths, hrole⟩ := step_set h
  have hst1 := (step_sticky h).1
  have hti := hi.ti t (List.mem_of_getElem? ht)
  have hrest : (t.role = .l1 → Clean c'.s1 → t'.emitted ++ inflight1 t' = t'.pulled) → L1Eq c' := by
    intro hnew u hu hr hc
    rw [hths] at hu
    rcases List.mem_or_eq_of_mem_set hu with hu | rfl
    · exact hv u hu hr (clean_of_sticky hst1 hc)
    · exact hnew (by rw [← hrole]; exact hr) hc
  by_cases hr : t.role = .l1
  · have hE := hv t (List.mem_of_getElem? ht) hr
    have hlt : tid < c.ths.length := (List.getElem?_eq_some_iff.mp ht).1
    have hset : ∀ t'' : Th, c'.ths = c.ths.set tid t'' → t' = t'' := by
      intro t'' e
      have := congrArg (fun l => l[tid]?) (hths.symm.trans e)
      simpa [hlt] using this
    have hq1 := q1_get ht
    rw [v1_l1 hr] at hq1
    have htok : TOK t.a := hg.live1.base.tok t.a (List.mem_of_getElem? hq1)
    have hkp : t.a.prog.kind = .producer := by unfold TI at hti; simp only [hr] at hti; exact hti
    unfold step at h
    simp only [ht, hr] at h
    unfold stepL1 at h
    split at h
    · -- start
      rename_i hpc
      (repeat' split at h) <;> simp only [Option.some.injEq, Prod.mk.injEq, reduceCtorEq] at h
      rename_i l s1' a' hst
      obtain ⟨-, rfl⟩ := h
      have := hset { t with a := a' } rfl
      subst this
      obtain ⟨-, hrest'⟩ := stepThread_put l s1' a' hst
      have hp1 := (stepThread_pc l s1' a' hst).1
      refine hrest (fun _ hc => ?_)
      have hc0 := clean_of_sticky (sticky_of_stepThread hst) hc
      have := hE hc0
      -- after `start` the thread is at `sAcq`: nothing in hand
      cases hprog : t.a.prog with
      | producer items ret =>
        have hst' : stepThread c.s1 t.a tid alt = some ("start", c.s1, { t.a with pc := .sAcq, src := items }) := by
          cases alt with
          | false => simp [stepThread, hpc, hprog]
          | true => simp [stepThread, hpc] at hst
        rw [hst'] at hst
        simp only [Option.some.injEq, Prod.mk.injEq] at hst
        obtain ⟨-, -, rfl⟩ := hst
        simpa [inflight1, putPc, hpc] using this
      | getLoop => rw [hprog] at hkp; cases hkp
      | batchLoop _ _ => rw [hprog] at hkp; cases hkp
      | stopper _ => rw [hprog] at hkp; cases hkp
    · -- eNext
      rename_i hpc
      split at h
      · simp at h
      rename_i halt
      have halt' : alt = false := by simpa using halt
      subst halt'
      have hin : inflight1 t = [] := by simp [inflight1, putPc, hpc]
      split at h
      · simp only [Option.some.injEq, Prod.mk.injEq] at h
        obtain ⟨-, rfl⟩ := h
        have := hset _ rfl
        subst this
        refine hrest (fun _ hc => ?_)
        have := hE hc
        simpa [inflight1, putPc, hpc] using this
      · rename_i i rest hsrc0
        split at h
        · simp at h
        rename_i l s1' a' hst
        simp only [Option.some.injEq, Prod.mk.injEq] at h
        obtain ⟨-, rfl⟩ := h
        have := hset _ rfl
        subst this
        cases i with
        | val v =>
          have hst' : stepThread c.s1 t.a tid false =
              some ("next", c.s1, { t.a with pc := .pAcq, v := (tid, v), src := rest }) := by
            simp [stepThread, hpc, hsrc0]
          rw [hst'] at hst
          simp only [Option.some.injEq, Prod.mk.injEq] at hst
          obtain ⟨-, rfl, rfl⟩ := hst
          refine hrest (fun _ hc => ?_)
          have := hE hc
          rw [hin, List.append_nil] at this
          simp [inflight1, putPc, this]
        | fail =>
          have hst' : stepThread c.s1 t.a tid false =
              some ("next", { c.s1 with exc := some .value },
                { t.a with pc := .tAcq, src := rest, rets := [], reraise := some .value }) := by
            simp [stepThread, hpc, hsrc0, hi.ig1]
          rw [hst'] at hst
          simp only [Option.some.injEq, Prod.mk.injEq] at hst
          obtain ⟨-, rfl, rfl⟩ := hst
          refine hrest (fun _ hc => ?_)
          simp [Clean] at hc
    · rename_i h1 h2
      split at h
      · simp at h
      rename_i l s1' a' hst
      simp only [Option.some.injEq, Prod.mk.injEq] at h
      obtain ⟨-, rfl⟩ := h
      have := hset _ rfl
      subst this
      have hdone : t.a.pc ≠ .done := by intro e; simp [stepThread, e] at hst
      obtain ⟨-, hrest'⟩ := stepThread_put l s1' a' hst
      obtain ⟨hvv, hput, hps⟩ := hrest' (fun e => h2 e) (prodPc_of_tok htok hkp (fun e => h1 e) hdone)
      refine hrest (fun _ hc => ?_)
      have hc0 := clean_of_sticky (sticky_of_stepThread hst) hc
      have heq := hE hc0
      by_cases hA : t.a.pc = .pPut ∧ a'.pc = .pStAcq
      · have hin : inflight1 t = [t.a.v.2] := by simp [inflight1, putPc, hA.1]
        rw [hin] at heq
        simpa [inflight1, putPc, hA] using heq
      · have hfl : (t.a.pc == Pc.pPut && a'.pc == Pc.pStAcq) = false := by
          cases h1' : (t.a.pc == Pc.pPut && a'.pc == Pc.pStAcq) with
          | false => rfl
          | true => simp only [Bool.and_eq_true, beq_iff_eq] at h1'; exact absurd h1' hA
        have hkeep : (if putPc a'.pc then [a'.v.2] else []) = inflight1 t := by
          by_cases hpp : putPc a'.pc = true
          · simp [inflight1, hpp, hput hpp, hvv]
          · by_cases hpt : putPc t.a.pc = true
            · exfalso
              have hnps : a'.pc ≠ .pStAcq := fun e => hA ⟨hps e, e⟩
              rcases stepThread_drop l s1' a' hst hpt (by simpa using hpp) hnps with hd | hd
              · exact not_done_by_count hg.live1 hq1 (by simp [isProd, hkp]) (pastT_put hpt) hd hc0
              · rw [hi.to1] at hd; cases hd
            · simp [inflight1, hpp, hpt]
        simp only [hfl, Bool.false_eq_true, if_false, inflight1]
        rw [hkeep]; exact heq
  · exact hrest (fun e => absurd e hr)

theorem l1eq_reachable {c0 c : Cfg} (h : Reachable F c0 c) (hg0 : Good c0) (h0 : L1Eq c0) : L1Eq c := by
  induction h with
  | init => exact h0
  | step hr hs ih => exact l1eq_step (good_reachable hg0 hr) hs ih

end MlModel.Piter2
