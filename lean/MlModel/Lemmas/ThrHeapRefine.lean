import MlModel.Lemmas.ThrHeap
/-!
# The heap model of `ThresholdedRetrieval` refines the value model, for every history
-/
namespace MlModel.Agg.Retrieval.Thr.H
open MlModel.Agg.Heap MlModel.Agg.Retrieval.Thr

variable {α : Type} [DecidableEq α]

/-- accumulator `o` in heap `h` stands for the counts `c` -/
structure ObjOK (ts : List Rat) (h : Heap Cell) (o : Obj) (c : Counts) : Prop where
  abs_eq : abs h o = c
  thr : h.read o.thr = .rat ts
  d12 : o.tpTrues ≠ o.tpPreds
  d13 : o.tpTrues ≠ o.pPreds
  d23 : o.tpPreds ≠ o.pPreds

theorem ObjOK.transfer {ts : List Rat} {h h' : Heap Cell} {o : Obj} {c : Counts} (ok : ObjOK ts h o c)
    (hr : ∀ r ∈ [o.tpTrues, o.tpPreds, o.pPreds, o.thr], h'.read r = h.read r) : ObjOK ts h' o c := by
  refine ⟨?_, ?_, ok.d12, ok.d13, ok.d23⟩
  · rw [← ok.abs_eq]
    simp only [abs]
    rw [hr o.tpTrues (by simp), hr o.tpPreds (by simp), hr o.pPreds (by simp)]
  · rw [hr o.thr (by simp)]; exact ok.thr

/-- the refinement relation between a heap population and a list of `Counts` -/
def Refines (ts : List Rat) (ms : List (Kind × Option Rat)) (σ : SysR (cls α ts ms))
    (accs : List Counts) : Prop :=
  σ.objs.length = accs.length ∧
  ∀ (i : Nat) (o : (cls α ts ms).Obj), σ.objs[i]? = some o → ∃ c, accs[i]? = some c ∧ ObjOK ts σ.heap o c

theorem make_reads (ts : List Rat) (h : Heap Cell) :
    (make ts h).1.read h.size = .rat ts ∧
    (make ts h).1.read (h.size + 1) = .nat (List.replicate ts.length 0) ∧
    (make ts h).1.read (h.size + 2) = .nat (List.replicate ts.length 0) ∧
    (make ts h).1.read (h.size + 3) = .nat (List.replicate ts.length 0) := by
  simp only [make]
  refine ⟨?_, ?_, ?_, ?_⟩
  · rw [read_alloc_old _ _ (by simp only [size_alloc]; omega),
      read_alloc_old _ _ (by simp only [size_alloc]; omega),
      read_alloc_old _ _ (by simp only [size_alloc]; omega), read_alloc_new]
  · rw [read_alloc_old _ _ (by simp only [size_alloc]; omega),
      read_alloc_old _ _ (by simp only [size_alloc]; omega)]
    have := read_alloc_new (h.alloc (.rat ts)).1 (.nat (List.replicate ts.length 0))
    rwa [size_alloc] at this
  · rw [read_alloc_old _ _ (by simp only [size_alloc]; omega)]
    have := read_alloc_new ((h.alloc (.rat ts)).1.alloc (.nat (List.replicate ts.length 0))).1
      (.nat (List.replicate ts.length 0))
    rwa [size_alloc, size_alloc] at this
  · have := read_alloc_new (((h.alloc (.rat ts)).1.alloc (.nat (List.replicate ts.length 0))).1.alloc
      (.nat (List.replicate ts.length 0))).1 (.nat (List.replicate ts.length 0))
    rwa [size_alloc, size_alloc, size_alloc] at this

theorem make_ok (ts : List Rat) (h : Heap Cell) :
    ObjOK ts (make ts h).1 (make ts h).2 (Counts.zero ts.length) := by
  obtain ⟨_, f2, f3, f4, f5, _⟩ := make_facts ts h
  obtain ⟨g0, g1, g2, g3⟩ := make_reads ts h
  refine ⟨?_, by rw [f2]; exact g0, by omega, by omega, by omega⟩
  simp only [abs, f3, f4, f5, g1, g2, g3, Counts.zero, Cell.nats]
  rfl

theorem set_of_getElem? {β : Type} {l : List β} {i : Nat} {a : β} (h : l[i]? = some a) : l.set i a = l := by
  obtain ⟨hlt, he⟩ := List.getElem?_eq_some_iff.mp h
  rw [← he]; exact List.set_getElem_self hlt

/-- the in-place merge on a receiver that stands for `c`, with operand arrays that read `d` -/
theorem cmMerge_ok {ts : List Rat} {h : Heap Cell} {s : Obj} {c : Counts} (ok : ObjOK ts h s c)
    (b1 b2 : Ref) (n : Nat) (b3 : Ref) (d : Counts)
    (hv1 : s.tpTrues < h.size) (hv2 : s.tpPreds < h.size) (hv3 : s.pPreds < h.size)
    (hs : s.tpTrues ≠ s.thr ∧ s.tpPreds ≠ s.thr ∧ s.pPreds ≠ s.thr)
    (hb : ∀ b ∈ [b1, b2, b3], b ≠ s.tpTrues ∧ b ≠ s.tpPreds ∧ b ≠ s.pPreds)
    (hd : (⟨(h.read b1).nats, (h.read b2).nats, n, (h.read b3).nats⟩ : Counts) = d) :
    ObjOK ts (cmMerge h s b1 b2 n b3).1 (cmMerge h s b1 b2 n b3).2 (Counts.merge c d) := by
  have hm := cmMerge_refines h s b1 b2 n b3 hv1 hv2 hv3 ok.d12 ok.d13 ok.d23 hb
  rw [hd, ok.abs_eq] at hm
  refine ⟨hm, ?_, ok.d12, ok.d13, ok.d23⟩
  show (cmMerge h s b1 b2 n b3).1.read s.thr = _
  rw [cmMerge_read_other _ _ _ _ _ _ _ (Ne.symm hs.1) (Ne.symm hs.2.1) (Ne.symm hs.2.2)]
  exact ok.thr

/-- `add` of an accepted batch -/
theorem addFull_objok {ts : List Rat} {h : Heap Cell} {s : Obj} {c : Counts} (ok : ObjOK ts h s c)
    (hv : s.tpTrues < h.size ∧ s.tpPreds < h.size ∧ s.pPreds < h.size ∧ s.thr < h.size)
    (hs : s.tpTrues ≠ s.thr ∧ s.tpPreds ≠ s.thr ∧ s.pPreds ≠ s.thr)
    (rows : List (Row α)) (b : Counts) (hb : batchCounts ts rows = .ok b) :
    ObjOK ts (addFull h s rows).1 (addFull h s rows).2.1 (Counts.merge c b) := by
  have hb' : batchCounts (h.read s.thr).rats rows = .ok b := by rw [ok.thr]; exact hb
  obtain ⟨h3, hsz, ext, r1, r2, r3, hf⟩ := addFull_ok h s rows b hb'
  obtain ⟨v1, v2, v3, v4⟩ := hv
  have ok3 : ObjOK ts h3 s c := ok.transfer (fun r hr => ext.2 r (by
    simp only [List.mem_cons, List.not_mem_nil, or_false] at hr
    rcases hr with rfl | rfl | rfl | rfl <;> assumption) (by simp))
  rw [hf]
  exact cmMerge_ok ok3 h.size (h.size + 1) b.pTrues (h.size + 2) b (by omega) (by omega) (by omega) hs
    (by intro x hx; simp only [List.mem_cons, List.not_mem_nil, or_false] at hx; omega)
    (by rw [r1, r2, r3]; rfl)

/-- `add` of a batch the matcher rejects changes nothing -/
theorem addFull_objerr {ts : List Rat} {h : Heap Cell} {s : Obj} {c : Counts} (ok : ObjOK ts h s c)
    (rows : List (Row α)) (e : ErrKind) (hb : batchCounts ts rows = .error e) :
    (addFull h s rows).1 = h ∧ (addFull h s rows).2.1 = s := by
  have hb' : batchCounts (h.read s.thr).rats rows = .error e := by rw [ok.thr]; exact hb
  rw [addFull_err h s rows e hb']; exact ⟨rfl, rfl⟩

/-- `merge` with a separated operand that stands for `d` -/
theorem merge_objok {ts : List Rat} {h : Heap Cell} {s o : Obj} {c d : Counts} (ok : ObjOK ts h s c)
    (okd : ObjOK ts h o d)
    (hv : s.tpTrues < h.size ∧ s.tpPreds < h.size ∧ s.pPreds < h.size ∧ s.thr < h.size)
    (hs : s.tpTrues ≠ s.thr ∧ s.tpPreds ≠ s.thr ∧ s.pPreds ≠ s.thr)
    (hsep : ∀ r ∈ [s.tpTrues, s.tpPreds, s.pPreds], r ∉ [o.tpTrues, o.tpPreds, o.pPreds]) :
    ObjOK ts (merge h s o).1 (merge h s o).2 (Counts.merge c d) := by
  refine cmMerge_ok ok o.tpTrues o.tpPreds o.pTrues o.pPreds d hv.1 hv.2.1 hv.2.2.1 hs ?_ okd.abs_eq
  intro x hx
  have n1 := hsep s.tpTrues (by simp)
  have n2 := hsep s.tpPreds (by simp)
  have n3 := hsep s.pPreds (by simp)
  exact ⟨fun e => n1 (e ▸ hx), fun e => n2 (e ▸ hx), fun e => n3 (e ▸ hx)⟩

theorem valid_obj {ts : List Rat} {ms : List (Kind × Option Rat)} {σ : SysR (cls α ts ms)}
    (hs : Sep σ.base) {i : Nat} {o : (cls α ts ms).Obj} (hi : σ.objs[i]? = some o) :
    o.tpTrues < σ.heap.size ∧ o.tpPreds < σ.heap.size ∧ o.pPreds < σ.heap.size ∧ o.thr < σ.heap.size :=
  (valid_iff σ.heap o).mp (hs.valid i o hi)

/-- a non-receiver keeps standing for the same counts (from the generic frame theorem) -/
theorem ObjOK.frame {ts : List Rat} {ms : List (Kind × Option Rat)} {σ : SysR (cls α ts ms)}
    (inv : InvR σ) (op : OpR (List (Row α)) Cell) {j : Nat} {oj : (cls α ts ms).Obj} {c : Counts}
    (hj : σ.objs[j]? = some oj) (hrecv : op.receiver ≠ some j) (ok : ObjOK ts σ.heap oj c) :
    (σ.step op).objs[j]? = some oj ∧ ObjOK ts (σ.step op).heap oj c := by
  obtain ⟨h1, h2⟩ := frameR_step (laws α ts ms) inv op j oj hj hrecv
  refine ⟨h1, ok.transfer (fun r hr => h2 r ?_)⟩
  show r ∈ (⟨[oj.tpTrues, oj.tpPreds, oj.pPreds], [oj.thr]⟩ : Footprint).refs
  simpa [Footprint.refs] using hr

/-- replacing the receiver `i` of a base operation: everything else is framed -/
theorem refines_set {ts : List Rat} {ms : List (Kind × Option Rat)} {σ : SysR (cls α ts ms)}
    {accs : List Counts} (inv : InvR σ) (hR : Refines ts ms σ accs) (op : Op (List (Row α)))
    {i : Nat} (hop : op.receiver = some i) {s s' : (cls α ts ms).Obj} {c' : Counts} {h' : Heap Cell}
    (hst : (σ.step (.base op)).base = ⟨h', σ.objs.set i s'⟩)
    (hi : σ.objs[i]? = some s) (ok' : ObjOK ts h' s' c') :
    Refines ts ms (σ.step (.base op)) (accs.set i c') := by
  have hheap : (σ.step (.base op)).heap = h' := congrArg Sys.heap hst
  have hobjs : (σ.step (.base op)).objs = σ.objs.set i s' := congrArg Sys.objs hst
  have hlt := lt_of_getElem?_some hi
  refine ⟨by rw [hobjs, List.length_set, List.length_set]; exact hR.1, ?_⟩
  intro j o hj
  by_cases hji : j = i
  · subst hji
    rw [hobjs, List.getElem?_set_self hlt] at hj
    cases hj
    exact ⟨c', by rw [List.getElem?_set_self (by rw [← hR.1]; exact hlt)], by rw [hheap]; exact ok'⟩
  · rw [hobjs, List.getElem?_set_ne (Ne.symm hji)] at hj
    obtain ⟨c, hc, ok⟩ := hR.2 j o hj
    obtain ⟨_, ok2⟩ := ok.frame inv (.base op) hj (by simp only [OpR.receiver, hop]; intro e; cases e; exact hji rfl)
    exact ⟨c, by rw [List.getElem?_set_ne (Ne.symm hji)]; exact hc, ok2⟩

theorem refines_id {ts : List Rat} {ms : List (Kind × Option Rat)} {σ : SysR (cls α ts ms)}
    {accs : List Counts} (hR : Refines ts ms σ accs) {σ' : SysR (cls α ts ms)}
    (hh : σ'.heap = σ.heap) (ho : σ'.objs = σ.objs) : Refines ts ms σ' accs := by
  unfold Refines
  rw [hh, ho]
  exact hR

/-- **one step of the heap population is one step of the value population** -/
theorem refines_step {ts : List Rat} {ms : List (Kind × Option Rat)} {σ : SysR (cls α ts ms)}
    {accs : List Counts} (inv : InvR σ) (hR : Refines ts ms σ accs) (op : OpR (List (Row α)) Cell) :
    Refines ts ms (σ.step op) (pureStepR ts accs op) := by
  have none_of : ∀ i, σ.objs[i]? = none → accs[i]? = none := fun i h => by
    rw [List.getElem?_eq_none_iff] at h ⊢; rw [← hR.1]; exact h
  cases op with
  | result i =>
    refine ⟨by simpa [SysR.step] using (by cases σ.objs[i]? <;> exact hR.1), ?_⟩
    intro j o hj
    have hj' : σ.objs[j]? = some o := by
      simp only [SysR.step] at hj
      cases hi : σ.objs[i]? with
      | none => rw [hi] at hj; exact hj
      | some oi => rw [hi] at hj; exact hj
    obtain ⟨c, hc, ok⟩ := hR.2 j o hj'
    exact ⟨c, hc, (ok.frame inv (.result i) hj' (by simp [OpR.receiver])).2⟩
  | poke k n c =>
    refine ⟨by simpa [SysR.step] using (by cases σ.pokeRef k n <;> exact hR.1), ?_⟩
    intro j o hj
    have hj' : σ.objs[j]? = some o := by
      simp only [SysR.step] at hj
      cases hi : σ.pokeRef k n with
      | none => rw [hi] at hj; exact hj
      | some oi => rw [hi] at hj; exact hj
    obtain ⟨c', hc, ok⟩ := hR.2 j o hj'
    exact ⟨c', hc, (ok.frame inv (.poke k n c) hj' (by simp [OpR.receiver])).2⟩
  | base op =>
    cases op with
    | make =>
      obtain ⟨f1, f2, f3, f4, f5, f6⟩ := make_facts ts σ.heap
      obtain ⟨g0, g1, g2, g3⟩ := make_reads ts σ.heap
      have hheap : (σ.step (.base .make)).heap = (make ts σ.heap).1 := rfl
      have hobjs : (σ.step (.base .make)).objs = σ.objs ++ [((cls α ts ms).make σ.heap).2] := rfl
      refine ⟨by rw [hobjs]; simp [pureStepR, pureStep, hR.1], ?_⟩
      intro j o hj
      rw [hobjs] at hj
      rcases getElem?_append_singleton hj with hj' | ⟨hjl, rfl⟩
      · obtain ⟨c, hc, ok⟩ := hR.2 j o hj'
        refine ⟨c, ?_, ?_⟩
        · simp only [pureStepR, pureStep]
          rw [List.getElem?_append_left (by rw [← hR.1]; exact lt_of_getElem?_some hj')]; exact hc
        · rw [hheap]
          obtain ⟨v1, v2, v3, v4⟩ := valid_obj inv.sep hj'
          refine ok.transfer (fun r hr => f6.2 r ?_ (by simp))
          simp only [List.mem_cons, List.not_mem_nil, or_false] at hr
          rcases hr with rfl | rfl | rfl | rfl <;> assumption
      · refine ⟨Counts.zero ts.length, ?_, ?_⟩
        · simp only [pureStepR, pureStep]
          rw [hjl, hR.1, List.getElem?_append_right (Nat.le_refl _)]; simp
        · rw [hheap]
          exact make_ok ts σ.heap
    | add i rows =>
      cases hi : σ.objs[i]? with
      | none =>
        have : σ.step (.base (.add i rows)) = σ := by simp only [SysR.step, SysR.base, Sys.step, hi]
        rw [this]
        simp only [pureStepR, pureStep, none_of i hi]
        exact hR
      | some s =>
        obtain ⟨c, hc, ok⟩ := hR.2 i s hi
        have hst : (σ.step (.base (.add i rows))).base =
            ⟨((cls α ts ms).add σ.heap s rows).1, σ.objs.set i ((cls α ts ms).add σ.heap s rows).2⟩ :=
          base_step_add σ.base i rows s hi
        have hv := valid_obj inv.sep hi
        have hs := (selfSep_iff s).mp (inv.sep.self i s hi)
        cases hb : batchCounts ts rows with
        | error e =>
          obtain ⟨e1, e2⟩ := addFull_objerr ok rows e hb
          have ok' : ObjOK ts ((cls α ts ms).add σ.heap s rows).1 ((cls α ts ms).add σ.heap s rows).2 c := by
            show ObjOK ts (addFull σ.heap s rows).1 (addFull σ.heap s rows).2.1 c
            rw [e1, e2]; exact ok
          have := refines_set inv hR (.add i rows) rfl hst hi ok'
          simp only [pureStepR, pureStep, hc, hb]
          rwa [set_of_getElem? hc] at this
        | ok b =>
          have ok' : ObjOK ts ((cls α ts ms).add σ.heap s rows).1 ((cls α ts ms).add σ.heap s rows).2
              (Counts.merge c b) := addFull_objok ok hv hs rows b hb
          have := refines_set inv hR (.add i rows) rfl hst hi ok'
          simpa only [pureStepR, pureStep, hc, hb] using this
    | merge i j =>
      by_cases hij : i = j
      · have : σ.step (.base (.merge i j)) = σ := by simp only [SysR.step, SysR.base, Sys.step, hij, if_true]
        rw [this]
        simp only [pureStepR, pureStep, hij, if_true]
        exact hR
      · cases hi : σ.objs[i]? with
        | none =>
          have : σ.step (.base (.merge i j)) = σ := by
            simp only [SysR.step, SysR.base, Sys.step, hij, if_false, hi]
          rw [this]
          simp only [pureStepR, pureStep, hij, if_false, none_of i hi]
          exact hR
        | some s =>
          obtain ⟨c, hc, ok⟩ := hR.2 i s hi
          cases hj : σ.objs[j]? with
          | none =>
            have : σ.step (.base (.merge i j)) = σ := by
              simp only [SysR.step, SysR.base, Sys.step, hij, if_false, hi, hj]
            rw [this]
            simp only [pureStepR, pureStep, hij, if_false, none_of j hj, hc]
            exact hR
          | some o =>
            obtain ⟨d, hd, okd⟩ := hR.2 j o hj
            have hv := valid_obj inv.sep hi
            have hs := (selfSep_iff s).mp (inv.sep.self i s hi)
            have hsep := inv.sep.sep i j s o hij hi hj
            have hst : (σ.step (.base (.merge i j))).base =
                ⟨((cls α ts ms).merge σ.heap s o).1, σ.objs.set i ((cls α ts ms).merge σ.heap s o).2⟩ := by
              rw [stepR_base]
              simp only [SysR.base, Sys.step, hij, if_false, hi, hj]
            have ok' : ObjOK ts ((cls α ts ms).merge σ.heap s o).1 ((cls α ts ms).merge σ.heap s o).2
                (Counts.merge c d) := by
              refine merge_objok ok okd hv hs (fun r hr hm => hsep r hr ?_)
              show r ∈ (⟨[_, _, _], [_]⟩ : Footprint).refs
              simp only [Footprint.refs, List.mem_append]; exact Or.inl hm
            have := refines_set inv hR (.merge i j) rfl hst hi ok'
            simpa only [pureStepR, pureStep, hij, if_false, hc, hd] using this

theorem refines_init (ts : List Rat) (ms : List (Kind × Option Rat)) :
    Refines (α := α) ts ms (SysR.init (cls α ts ms)) [] :=
  ⟨rfl, fun i o h => by simp [SysR.init] at h⟩

/-- **refinement for every history** of make / add / merge / result / poke -/
theorem refines_run (ts : List Rat) (ms : List (Kind × Option Rat)) (ops : List (OpR (List (Row α)) Cell)) :
    Refines ts ms ((SysR.init (cls α ts ms)).run ops) (ops.foldl (pureStepR ts) []) := by
  have : ∀ (σ : SysR (cls α ts ms)) (accs : List Counts), InvR σ → Refines ts ms σ accs →
      Refines ts ms (σ.run ops) (ops.foldl (pureStepR ts) accs) := by
    induction ops with
    | nil => intro σ accs _ h; exact h
    | cons op ops ih =>
      intro σ accs inv h
      exact ih _ _ (inv.step (laws α ts ms) op) (refines_step inv h op)
  exact this _ _ (InvR.init _) (refines_init ts ms)

/-- what `allocs` stores -/
theorem allocs_reads {C : Type} [Inhabited C] (h : Heap C) (cs : List C) :
    (h.allocs cs).2.map (h.allocs cs).1.read = cs := by
  induction cs generalizing h with
  | nil => rfl
  | cons c cs ih =>
    show ((h.alloc c).2 :: ((h.alloc c).1.allocs cs).2).map ((h.alloc c).1.allocs cs).1.read = c :: cs
    rw [List.map_cons, ih]
    congr 1
    obtain ⟨_, _, _, a4⟩ := MlModel.Agg.Rolling.H.allocs_spec (h.alloc c).1 cs
    rw [a4.2 _ (by rw [alloc_ref, size_alloc]; omega) (by simp), alloc_ref, read_alloc_new]

end MlModel.Agg.Retrieval.Thr.H
