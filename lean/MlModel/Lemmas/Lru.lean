import MlModel.Model.Lru
/-! Lemmas about the association-list operations of `Model/Lru.lean`. -/
namespace MlModel.Lru
set_option linter.unusedSectionVars false
set_option linter.unusedSimpArgs false
variable {κ ν : Type} [DecidableEq κ]

def keysOf (d : List (κ × ν)) : List κ := d.map (·.1)

@[simp] theorem keysOf_nil : keysOf ([] : List (κ × ν)) = [] := rfl
@[simp] theorem keysOf_cons (p : κ × ν) (d : List (κ × ν)) : keysOf (p :: d) = p.1 :: keysOf d := rfl
@[simp] theorem keysOf_append (a b : List (κ × ν)) : keysOf (a ++ b) = keysOf a ++ keysOf b := by
  simp [keysOf]
@[simp] theorem keysOf_length (d : List (κ × ν)) : (keysOf d).length = d.length := by simp [keysOf]

theorem has_iff (d : List (κ × ν)) (k : κ) : has d k = true ↔ k ∈ keysOf d := by
  induction d with
  | nil => simp [has]
  | cons p d ih =>
    simp only [has, List.any_cons, Bool.or_eq_true, beq_iff_eq, keysOf_cons, List.mem_cons] at *
    constructor
    · rintro (h | h)
      · exact Or.inl h.symm
      · exact Or.inr (ih.mp h)
    · rintro (h | h)
      · exact Or.inl h.symm
      · exact Or.inr (ih.mpr h)

theorem has_false_iff (d : List (κ × ν)) (k : κ) : has d k = false ↔ k ∉ keysOf d := by
  rw [← has_iff]; simp

theorem find?_none_iff (d : List (κ × ν)) (k : κ) : find? d k = none ↔ k ∉ keysOf d := by
  induction d with
  | nil => simp [find?]
  | cons p d ih =>
    simp only [find?] at ih
    by_cases h : p.1 = k
    · simp [find?, List.find?_cons, h]
    · have h' : ¬ k = p.1 := fun e => h e.symm
      simp [find?, List.find?_cons, h, h', ih]

theorem find?_cons_eq (p : κ × ν) (d : List (κ × ν)) (k : κ) :
    find? (p :: d) k = if p.1 = k then some p.2 else find? d k := by
  by_cases h : p.1 = k <;> simp [find?, List.find?_cons, h]

theorem find?_some_mem {d : List (κ × ν)} {k : κ} {v : ν} (h : find? d k = some v) : (k, v) ∈ d := by
  induction d with
  | nil => simp [find?] at h
  | cons p d ih =>
    rw [find?_cons_eq] at h
    by_cases hp : p.1 = k
    · simp only [hp, if_true, Option.some.injEq] at h
      obtain ⟨a, b⟩ := p
      simp only at hp h; subst hp; subst h; simp
    · simp only [hp, if_false] at h
      exact List.mem_cons_of_mem _ (ih h)

theorem find?_isSome_iff (d : List (κ × ν)) (k : κ) : (find? d k).isSome = true ↔ k ∈ keysOf d := by
  have := find?_none_iff d k
  cases h : find? d k <;> simp_all

theorem keysOf_remove (d : List (κ × ν)) (k : κ) :
    keysOf (remove d k) = (keysOf d).filter (fun x => !(x == k)) := by
  induction d with
  | nil => simp [remove]
  | cons p d ih =>
    simp only [remove, List.filter_cons, keysOf_cons] at *
    by_cases h : p.1 = k <;> simp [h, ih]

theorem remove_of_not_mem {d : List (κ × ν)} {k : κ} (h : k ∉ keysOf d) : remove d k = d := by
  induction d with
  | nil => simp [remove]
  | cons p d ih =>
    simp only [keysOf_cons, List.mem_cons, not_or] at h
    simp only [remove, List.filter_cons] at *
    have : ¬ p.1 = k := fun e => h.1 e.symm
    simp [this, ih h.2]

theorem remove_length_le (d : List (κ × ν)) (k : κ) : (remove d k).length ≤ d.length := by
  simp [remove]; exact List.length_filter_le _ _

/-- With distinct keys, removing a present key removes exactly one entry. -/
theorem remove_length_of_mem {d : List (κ × ν)} {k : κ} (hn : (keysOf d).Nodup) (h : k ∈ keysOf d) :
    (remove d k).length + 1 = d.length := by
  induction d with
  | nil => simp at h
  | cons p d ih =>
    simp only [keysOf_cons, List.nodup_cons, List.mem_cons] at hn h
    simp only [remove, List.filter_cons] at *
    by_cases hp : p.1 = k
    · have hk : k ∉ keysOf d := hp ▸ hn.1
      have := remove_of_not_mem hk
      simp only [remove] at this
      simp [hp, this]
    · have hk : k ∈ keysOf d := by
        rcases h with h | h
        · exact absurd h.symm hp
        · exact h
      simp [hp]; exact ih hn.2 hk

theorem nodup_remove {d : List (κ × ν)} (k : κ) (hn : (keysOf d).Nodup) : (keysOf (remove d k)).Nodup := by
  rw [keysOf_remove]; exact hn.filter _

theorem not_mem_remove (d : List (κ × ν)) (k : κ) : k ∉ keysOf (remove d k) := by
  rw [keysOf_remove]; simp

theorem find?_append_new {d : List (κ × ν)} {k : κ} (v : ν) (h : k ∉ keysOf d) :
    find? (d ++ [(k, v)]) k = some v := by
  induction d with
  | nil => simp [find?]
  | cons p d ih =>
    simp only [keysOf_cons, List.mem_cons, not_or] at h
    have : ¬ p.1 = k := fun e => h.1 e.symm
    rw [List.cons_append, find?_cons_eq]
    simp only [this, if_false]
    exact ih h.2

theorem remove_append_new {d : List (κ × ν)} {k : κ} (v : ν) (h : k ∉ keysOf d) :
    remove (d ++ [(k, v)]) k = d := by
  have := remove_of_not_mem h
  simp only [remove, List.filter_append] at *
  simp [this]

theorem moveToEnd_append_new {d : List (κ × ν)} {k : κ} (v : ν) (h : k ∉ keysOf d) :
    moveToEnd (d ++ [(k, v)]) k = d ++ [(k, v)] := by
  simp [moveToEnd, find?_append_new v h, remove_append_new v h]

theorem assign_new {d : List (κ × ν)} {k : κ} (v : ν) (h : k ∉ keysOf d) :
    assign d k v = d ++ [(k, v)] := by
  simp [assign, (has_false_iff d k).mpr h]

theorem keysOf_assign_present {d : List (κ × ν)} {k : κ} (v : ν) (h : k ∈ keysOf d) :
    keysOf (assign d k v) = keysOf d := by
  simp only [assign, (has_iff d k).mpr h, if_true, keysOf, List.map_map]
  apply List.map_congr_left
  intro p _
  by_cases hp : p.1 = k <;> simp [hp]

theorem assign_length_present {d : List (κ × ν)} {k : κ} (v : ν) (h : k ∈ keysOf d) :
    (assign d k v).length = d.length := by
  simp [assign, (has_iff d k).mpr h]

/-- Removing the key of the head entry of a list with distinct keys is dropping the head. -/
theorem remove_head {p : κ × ν} {d : List (κ × ν)} (hn : (keysOf (p :: d)).Nodup) :
    remove (p :: d) p.1 = d := by
  simp only [keysOf_cons, List.nodup_cons] at hn
  have := remove_of_not_mem hn.1
  simp only [remove, List.filter_cons] at *
  simp [this]

end MlModel.Lru
