import MlModel.Lemmas.Resume
import MlModel.Model.ResumeChain
/-!
# Lemmas for C10: chains of runners of any length

1. A row-wise runner iterator over a refined source is a refined source again
   (`Lemmas/Resume.lean: pipeRec_refines`); here the invariant additionally remembers that a runner
   that has seen its source's `StopIteration` sits on a source that *reported* exhaustion
   (`Exh`), which is what makes the aggregates of the stages far upstream final once the last
   stage is exhausted (a filter downstream may drop the last elements, so "nothing left to
   deliver" alone does not say that the upstream stages have run to their end).
2. Induction over the chain (`chain_refines`, `chain_fresh`, `aggsDown_final`).
3. The walk of `_ChainedRunnerIterator.from_state` (`walk_depthsOf`) and the simulation of a
   chained iterator's history by the history of its last iterator (`ChainRun.run_sim`).
-/
namespace MlModel.Resume

section exh
variable {α β T X S Res : Type} {R : Recoverable α} {Inv : R.It → Prop} {rem : R.It → List α}

theorem Refines.next_inv (h : Refines R Inv rem) (it : R.It) (hi : Inv it) : Inv (R.next it).2 := by
  cases hr : rem it with
  | nil => exact (h.next_nil it hi hr).2.1
  | cons a as => exact (h.next_cons it a as hi hr).2.1

/-- A runner that is `done` only ever got there by seeing `none` from its source. -/
theorem PipeIt.nextAux_exh (h : Refines R Inv rem) (P : PipeDef α β T X S Res) (Exh : R.It → Prop)
    (hx : ∀ it, Inv it → (R.next it).1 = none → Exh (R.next it).2) :
    ∀ (fuel : Nat) (p : PipeIt R β T S), Inv p.src → (p.done = true → Exh p.src) →
      ((PipeIt.nextAux R P fuel p).2.done = true → Exh (PipeIt.nextAux R P fuel p).2.src) := by
  intro fuel
  induction fuel with
  | zero =>
    intro p _ hd
    cases hpend : p.pending with
    | nil => simpa [PipeIt.nextAux, hpend] using hd
    | cons b rest => simpa [PipeIt.nextAux, hpend] using hd
  | succ fuel ih =>
    intro p hi hd
    cases hpend : p.pending with
    | cons b rest => simpa [PipeIt.nextAux, hpend] using hd
    | nil =>
      cases hdd : p.done with
      | true => simpa [PipeIt.nextAux, hpend, hdd] using hd
      | false =>
        rw [PipeIt.nextAux]
        simp only [hpend, hdd]
        have hi' := h.next_inv p.src hi
        cases hn : (R.next p.src).1 with
        | none =>
          have e : R.next p.src = (none, (R.next p.src).2) := by rw [← hn]
          rw [e]
          exact ih _ hi' (fun _ => hx p.src hi hn)
        | some a =>
          have e : R.next p.src = (some a, (R.next p.src).2) := by rw [← hn]
          rw [e]
          exact ih _ hi' (fun hc => by simp at hc)

theorem PipeIt.restore_done (P : PipeDef α β T X S Res) {st : R.St × S} {p : PipeIt R β T S}
    (hr : PipeIt.restore R P st = .ok p) : p.done = false := by
  unfold PipeIt.restore at hr
  cases hq : R.restore st.1 with
  | error e => simp [hq, bind, Except.bind] at hr
  | ok src =>
    simp only [hq, bind, Except.bind, pure, Except.pure] at hr
    injection hr with hr
    subst hr
    rfl

/-- `SrcInv` + "done only on a source that reported exhaustion" -/
def PipeIt.SrcInvX (Inv : R.It → Prop) (rem : R.It → List α) (Exh : R.It → Prop) (f : α → List β)
    (m : Agg.Mergeable X S Res) (batchOf : β → List X) (all : List β) (p : PipeIt R β Unit S) : Prop :=
  PipeIt.SrcInv Inv rem f m batchOf all p ∧ (p.done = true → Exh p.src)

theorem pipeRec_refines_exh (h : Refines R Inv rem) (Exh : R.It → Prop)
    (hx : ∀ it, Inv it → (R.next it).1 = none → Exh (R.next it).2)
    (f : α → List β) (hf : ∀ a, (f a).length ≤ 1)
    (m : Agg.Mergeable X S Res) (batchOf : β → List X) (all : List β) :
    Refines (pipeRec R (rowPipe f m batchOf)) (PipeIt.SrcInvX Inv rem Exh f m batchOf all)
      (fun p => (rem p.src).flatMap f) where
  next_nil := by
    intro p hp hr
    obtain ⟨a, b, c⟩ := (pipeRec_refines h f hf m batchOf all).next_nil p hp.1 hr
    exact ⟨a, ⟨b, PipeIt.nextAux_exh h _ Exh hx _ p hp.1.1.1 hp.2⟩, c⟩
  next_cons := by
    intro p x xs hp hr
    obtain ⟨a, b, c⟩ := (pipeRec_refines h f hf m batchOf all).next_cons p x xs hp.1 hr
    exact ⟨a, ⟨b, PipeIt.nextAux_exh h _ Exh hx _ p hp.1.1.1 hp.2⟩, c⟩
  restore_state := by
    intro p hp
    obtain ⟨p', e, b, c⟩ := (pipeRec_refines h f hf m batchOf all).restore_state p hp.1
    refine ⟨p', e, ⟨b, fun hd => ?_⟩, c⟩
    have := PipeIt.restore_done (rowPipe f m batchOf) e
    rw [this] at hd
    cases hd
  size_ok := fun p hp => (pipeRec_refines h f hf m batchOf all).size_ok p hp.1

/-- a runner iterator that answers `none` is `done`, on a source that reported exhaustion -/
theorem pipeRec_none_exh (h : Refines R Inv rem) (Exh : R.It → Prop)
    (hx : ∀ it, Inv it → (R.next it).1 = none → Exh (R.next it).2)
    (f : α → List β) (m : Agg.Mergeable X S Res) (batchOf : β → List X) (all : List β)
    (p : PipeIt R β Unit S) (hp : PipeIt.SrcInvX Inv rem Exh f m batchOf all p)
    (hn : ((pipeRec R (rowPipe f m batchOf)).next p).1 = none) :
    ((pipeRec R (rowPipe f m batchOf)).next p).2.done = true ∧
      Exh ((pipeRec R (rowPipe f m batchOf)).next p).2.src := by
  have hs := PipeIt.next_spec h (rowPipe f m batchOf) (rowViewOf f) (rowPipe_conserves f m batchOf) p hp.1.1
  have hn' : (PipeIt.next R (rowPipe f m batchOf) p).1 = none := hn
  rw [hn'] at hs
  have hd : (PipeIt.next R (rowPipe f m batchOf) p).2.done = true := hs.2.2.2.2
  exact ⟨hd, PipeIt.nextAux_exh h _ Exh hx _ p hp.1.1.1 hp.2 hd⟩

/-- a `take k` with `k` larger than what is left observes the exhaustion -/
theorem Refines.takeN_exh (h : Refines R Inv rem) (Exh : R.It → Prop)
    (hx : ∀ it, Inv it → (R.next it).1 = none → Exh (R.next it).2) :
    ∀ (k : Nat) (it : R.It), Inv it → (rem it).length < k → Exh (Resume.takeN R k it).2 := by
  intro k
  induction k with
  | zero => intro it _ hk; omega
  | succ k ih =>
    intro it hi hk
    cases hr : rem it with
    | nil =>
      obtain ⟨h1, _, _⟩ := h.next_nil it hi hr
      have e : R.next it = (none, (R.next it).2) := by rw [← h1]
      unfold Resume.takeN
      rw [e]
      exact hx it hi h1
    | cons a as =>
      obtain ⟨h1, h2, h3⟩ := h.next_cons it a as hi hr
      have e : R.next it = (some a, (R.next it).2) := by rw [← h1]
      unfold Resume.takeN
      rw [e]
      apply ih _ h2
      rw [h3]
      rw [hr] at hk
      simp only [List.length_cons] at hk
      omega

/-- any history followed by a draining `take k` (`k` > number of elements, so that the
`StopIteration` is observed): the state reached -/
theorem Refines.history_drained_exh (h : Refines R Inv rem) (Exh : R.It → Prop)
    (hx : ∀ it, Inv it → (R.next it).1 = none → Exh (R.next it).2)
    (it : R.It) (hi : Inv it) (ops : List Op) (k : Nat) (hk : (rem it).length < k) :
    ∃ r, SrcRun.run R (SrcRun.init R it) (ops ++ [.take k]) = .ok r ∧ r.delivered = rem it ∧
      Inv r.it ∧ Exh r.it := by
  obtain ⟨r, h1, g⟩ := (SrcRun.Good.init h it hi).run h ops
  obtain ⟨t1, t2, t3⟩ := h.takeN k r.it g.inv
  have hc := g.cur
  have hl : (rem r.it).length < k := by
    have := congrArg List.length hc
    simp only [List.length_append] at this
    omega
  refine ⟨{ r with it := (Resume.takeN R k r.it).2,
                   tentative := r.tentative ++ (Resume.takeN R k r.it).1,
                   log := r.log ++ [(Resume.takeN R k r.it).1] }, ?_, ?_, t2,
          h.takeN_exh Exh hx k r.it g.inv hl⟩
  · simp only [SrcRun.run, List.foldlM_append, List.foldlM_cons, List.foldlM_nil] at h1 ⊢
    rw [h1]; rfl
  · show r.committed ++ (r.tentative ++ (Resume.takeN R k r.it).1) = rem it
    rw [t1, List.take_of_length_le (Nat.le_of_lt hl), ← List.append_assoc]
    exact hc

end exh

/-! ## Induction over the chain -/

section chain
variable {β X S Res : Type} {R : Recoverable β}

/-- the outputs of the uninterrupted run of a chain (stages downstream first) on the elements `xs` -/
def chainOut : List (Stage β X S Res) → List β → List β
  | [], xs => xs
  | s :: ss, xs => (chainOut ss xs).flatMap s.f

/-- what the last iterator of a chain will still deliver -/
def chainRem (rem : R.It → List β) : (rs : List (Stage β X S Res)) → (chainRec R rs).It → List β
  | [], it => rem it
  | s :: ss, p => (chainRem rem ss (show PipeIt (chainRec R ss) β Unit S from p).src).flatMap s.f

/-- every runner of the chain has seen its source's `StopIteration` -/
def chainExh : (rs : List (Stage β X S Res)) → (chainRec R rs).It → Prop
  | [], _ => True
  | _ :: ss, p => (show PipeIt (chainRec R ss) β Unit S from p).done = true ∧
      chainExh ss (show PipeIt (chainRec R ss) β Unit S from p).src

/-- invariant of the nested iterators of a chain over a source with elements `E`: at every stage
nothing is pending, the aggregation state is the aggregate of exactly the outputs the stage has
delivered so far, and a `done` runner sits on an exhausted upstream chain -/
def chainInv (Inv : R.It → Prop) (rem : R.It → List β) (E : List β) :
    (rs : List (Stage β X S Res)) → (chainRec R rs).It → Prop
  | [], it => Inv it
  | s :: ss, p =>
    PipeIt.SrcInvX (R := chainRec R ss) (chainInv Inv rem E ss) (chainRem rem ss) (chainExh ss)
      s.f s.m s.batchOf (chainOut (s :: ss) E) p

/-- the final aggregation state of every stage (downstream first): the aggregate fed all the
outputs of that stage in the uninterrupted run -/
def finalAggs : List (Stage β X S Res) → List β → List S
  | [], _ => []
  | s :: ss, E => aggOf s.pipe (chainOut (s :: ss) E) s.m.empty :: finalAggs ss E

variable {Inv : R.It → Prop} {rem : R.It → List β}

/-- **The last iterator of a chain of row-wise runners of any length refines "a cursor into the
chain's output list"**, and answering `none` means every runner of the chain is exhausted. -/
theorem chain_refines (h : Refines R Inv rem) (E : List β) :
    ∀ rs : List (Stage β X S Res), (∀ s ∈ rs, ∀ a, (s.f a).length ≤ 1) →
      Refines (chainRec R rs) (chainInv Inv rem E rs) (chainRem rem rs) ∧
      (∀ it, chainInv Inv rem E rs it → ((chainRec R rs).next it).1 = none →
        chainExh rs ((chainRec R rs).next it).2) := by
  intro rs
  induction rs with
  | nil => intro _; exact ⟨h, fun _ _ _ => trivial⟩
  | cons s ss ih =>
    intro hf
    obtain ⟨h', hx'⟩ := ih (fun t ht => hf t (List.mem_cons_of_mem _ ht))
    have hfs := hf s (List.mem_cons_self ..)
    exact ⟨pipeRec_refines_exh h' (chainExh ss) hx' s.f hfs s.m s.batchOf (chainOut (s :: ss) E),
      fun p hp hn => pipeRec_none_exh h' (chainExh ss) hx' s.f s.m s.batchOf (chainOut (s :: ss) E) p hp hn⟩

/-- `ChainedRunner.iterate` establishes the invariant -/
theorem chain_fresh (it : R.It) (hi : Inv it) : ∀ rs : List (Stage β X S Res),
    chainInv Inv rem (rem it) rs (chainFresh R rs it) ∧
      chainRem rem rs (chainFresh R rs it) = chainOut rs (rem it) := by
  intro rs
  induction rs with
  | nil => exact ⟨hi, rfl⟩
  | cons s ss ih =>
    obtain ⟨i1, i2⟩ := ih
    refine ⟨⟨⟨⟨i1, fun hd => ?_⟩, rfl, [], ?_, ?_⟩, fun hd => ?_⟩, ?_⟩
    · simp [chainFresh, PipeIt.fresh] at hd
    · show [] ++ (chainRem rem ss (chainFresh R ss it)).flatMap s.f = chainOut (s :: ss) (rem it)
      rw [i2]; rfl
    · simp [chainFresh, PipeIt.fresh, aggOf]
    · simp [chainFresh, PipeIt.fresh] at hd
    · show (chainRem rem ss (chainFresh R ss it)).flatMap s.f = chainOut (s :: ss) (rem it)
      rw [i2]; rfl

/-- once every runner is exhausted, every stage's aggregation state is final -/
theorem aggsDown_final (E : List β) : ∀ (rs : List (Stage β X S Res)) (it : (chainRec R rs).It),
    chainInv Inv rem E rs it → chainExh rs it → aggsDown R rs it = finalAggs rs E := by
  intro rs
  induction rs with
  | nil => intro _ _ _; rfl
  | cons s ss ih =>
    intro p hp hx
    obtain ⟨⟨⟨hsrc, hrem⟩, _, D, hD, hagg⟩, _⟩ := hp
    obtain ⟨hd, hxs⟩ := hx
    have hnil := hrem hd
    rw [hnil, List.flatMap_nil, List.append_nil] at hD
    show (show PipeIt (chainRec R ss) β Unit S from p).agg ::
      aggsDown R ss (show PipeIt (chainRec R ss) β Unit S from p).src = _
    rw [ih _ hsrc hxs, hagg, hD]
    rfl

/-- every stage's aggregate of exactly the prefix of its uninterrupted output stream that it has
delivered so far (= the whole stream minus what it will still deliver), downstream first -/
def consumedAggs (rem : R.It → List β) : (rs : List (Stage β X S Res)) → (chainRec R rs).It →
    List β → List S
  | [], _, _ => []
  | s :: ss, p, E =>
    aggOf s.pipe ((chainOut (s :: ss) E).take
        ((chainOut (s :: ss) E).length - (chainRem rem (s :: ss) p).length)) s.m.empty ::
      consumedAggs rem ss (show PipeIt (chainRec R ss) β Unit S from p).src E

/-- at every moment: each stage's aggregation state covers exactly what that stage has delivered -/
theorem aggsDown_consumed (E : List β) : ∀ (rs : List (Stage β X S Res)) (it : (chainRec R rs).It),
    chainInv Inv rem E rs it → aggsDown R rs it = consumedAggs rem rs it E := by
  intro rs
  induction rs with
  | nil => intro _ _; rfl
  | cons s ss ih =>
    intro p hp
    obtain ⟨⟨⟨hsrc, _⟩, _, D, hD, hagg⟩, _⟩ := hp
    show (show PipeIt (chainRec R ss) β Unit S from p).agg ::
      aggsDown R ss (show PipeIt (chainRec R ss) β Unit S from p).src = _
    rw [ih _ hsrc, hagg]
    have hD' : D ++ chainRem rem (s :: ss) p = chainOut (s :: ss) E := hD
    have : (chainOut (s :: ss) E).take ((chainOut (s :: ss) E).length - (chainRem rem (s :: ss) p).length) = D := by
      rw [← hD']
      simp
    show _ = aggOf s.pipe _ s.m.empty :: _
    rw [this]
    rfl

theorem finalAggs_length (E : List β) : ∀ rs : List (Stage β X S Res),
    (finalAggs rs E).length = rs.length := by
  intro rs
  induction rs with
  | nil => rfl
  | cons s ss ih => simp [finalAggs, ih]

end chain

/-! ## The walk of `from_state` and the chained iterator -/

theorem depthsOf_length : ∀ n, (depthsOf n).length = n := by
  intro n; induction n with
  | zero => rfl
  | succ n ih => simp [depthsOf, ih]

theorem mem_depthsOf : ∀ n d, d ∈ depthsOf n ↔ d < n := by
  intro n
  induction n with
  | zero => intro d; simp [depthsOf]
  | succ n ih => intro d; simp only [depthsOf, List.mem_cons, ih]; omega

theorem depthsOf_nodup : ∀ n, (depthsOf n).Nodup := by
  intro n
  induction n with
  | zero => simp [depthsOf]
  | succ n ih =>
    simp only [depthsOf, List.nodup_cons]
    exact ⟨fun hm => by have := (mem_depthsOf n n).mp hm; omega, ih⟩

theorem depthsOf_getElem? : ∀ n i, i < n → (depthsOf n)[i]? = some (n - 1 - i) := by
  intro n
  induction n with
  | zero => intro i hi; omega
  | succ n ih =>
    intro i hi
    cases i with
    | zero => simp [depthsOf]
    | succ i =>
      simp only [depthsOf, List.getElem?_cons_succ]
      rw [ih i (by omega)]
      congr 1
      omega

/-- the loop of `from_state`, started on a correctly tracked suffix of the restored chain,
extends it by one stage per round -/
theorem walk_depthsOf (n : Nat) : ∀ (k d : Nat), d + k < n →
    ChainIt.walk n k (depthsOf (d + 1)) = .ok (depthsOf (d + 1 + k)) := by
  intro k
  induction k with
  | zero => intro d _; rfl
  | succ k ih =>
    intro d hd
    have h1 : d + 1 < n := by omega
    show ChainIt.walk n (k + 1) (d :: depthsOf d) = _
    simp only [ChainIt.walk, h1, if_true]
    have := ih (d + 1) (by omega)
    have e : d + 1 + (k + 1) = d + 1 + 1 + k := by omega
    rw [e]
    exact this

/-- **`from_state` walks the restored chain correctly**: for a chain of `n ≥ 1` stages the
restored `_iterators` is `[n-1, …, 1, 0]` (hops from the restored last iterator). -/
theorem walk_all (n : Nat) (hn : 0 < n) : ChainIt.walk n (n - 1) [0] = .ok (depthsOf n) := by
  have := walk_depthsOf n (n - 1) 0 (by omega)
  have e : 0 + 1 + (n - 1) = n := by omega
  rw [e] at this
  exact this

section chainrun
variable {β X S Res : Type} {R : Recoverable β} {rs : List (Stage β X S Res)}

/-- forgetting `_iterators`: the history of the last iterator alone -/
def ChainRun.toSrc (r : ChainRun R rs) : SrcRun (chainRec R rs) :=
  ⟨r.c.top, r.saved, r.committed, r.tentative, r.log⟩

theorem ChainRun.init_toSrc (it : R.It) :
    (ChainRun.init R rs it).toSrc = SrcRun.init (chainRec R rs) (chainFresh R rs it) := rfl

theorem chainTakeN_eq : ∀ (k : Nat) (c : ChainIt R rs),
    chainTakeN R rs k c =
      ((takeN (chainRec R rs) k c.top).1, { c with top := (takeN (chainRec R rs) k c.top).2 }) := by
  intro k
  induction k with
  | zero => intro c; rfl
  | succ k ih =>
    intro c
    unfold chainTakeN Resume.takeN
    simp only [ChainIt.next]
    cases hn : (chainRec R rs).next c.top with
    | mk o it' =>
      cases o with
      | none => rfl
      | some b => simp only [ih]

theorem ChainRun.step_sim (hn : 0 < rs.length) (r : ChainRun R rs)
    (ht : r.c.tracked = depthsOf rs.length) (op : Op) (q : SrcRun (chainRec R rs))
    (hq : SrcRun.step (chainRec R rs) r.toSrc op = .ok q) :
    ∃ r', ChainRun.step R rs r op = .ok r' ∧ r'.toSrc = q ∧ r'.c.tracked = depthsOf rs.length := by
  cases op with
  | take k =>
    simp only [SrcRun.step] at hq
    injection hq with hq
    subst hq
    refine ⟨_, rfl, ?_, ?_⟩
    · simp only [ChainRun.toSrc, chainTakeN_eq]
    · simp only [chainTakeN_eq]; exact ht
  | ckpt =>
    simp only [SrcRun.step] at hq
    injection hq with hq
    subst hq
    exact ⟨_, rfl, rfl, ht⟩
  | restore =>
    simp only [SrcRun.step] at hq
    cases hr : (chainRec R rs).restore r.toSrc.saved with
    | error e => simp [hr, bind, Except.bind] at hq
    | ok it' =>
      simp only [hr, bind, Except.bind] at hq
      injection hq with hq
      subst hq
      have hr' : (chainRec R rs).restore r.saved = .ok it' := hr
      have hw : ChainIt.walk rs.length (r.c.tracked.length - 1) [0] = .ok (depthsOf rs.length) := by
        rw [ht, depthsOf_length]; exact walk_all _ hn
      refine ⟨{ r with c := ⟨it', depthsOf rs.length⟩, tentative := [] }, ?_, rfl, rfl⟩
      simp only [ChainRun.step, ChainIt.fromState, hr', hw, bind, Except.bind, pure, Except.pure]

theorem ChainRun.run_sim (hn : 0 < rs.length) (ops : List Op) : ∀ (r : ChainRun R rs),
    r.c.tracked = depthsOf rs.length → ∀ q, SrcRun.run (chainRec R rs) r.toSrc ops = .ok q →
    ∃ r', ChainRun.run R rs r ops = .ok r' ∧ r'.toSrc = q ∧ r'.c.tracked = depthsOf rs.length := by
  induction ops with
  | nil =>
    intro r ht q hq
    simp only [SrcRun.run, List.foldlM_nil, pure, Except.pure] at hq
    injection hq with hq
    exact ⟨r, rfl, hq, ht⟩
  | cons op ops ih =>
    intro r ht q hq
    simp only [SrcRun.run, List.foldlM_cons] at hq
    cases h1 : SrcRun.step (chainRec R rs) r.toSrc op with
    | error e => simp [h1, bind, Except.bind] at hq
    | ok q1 =>
      simp only [h1, bind, Except.bind] at hq
      obtain ⟨r1, s1, e1, t1⟩ := ChainRun.step_sim hn r ht op q1 h1
      obtain ⟨r2, s2, e2, t2⟩ := ih r1 t1 q (by rw [e1]; exact hq)
      refine ⟨r2, ?_, e2, t2⟩
      simp only [ChainRun.run, List.foldlM_cons, s1, bind, Except.bind]
      exact s2

end chainrun

/-! ## What `agg_state` / `agg_result` of the chained iterator lists -/

section aggstate
variable {β X S Res : Type} {R : Recoverable β}

theorem aggsDown_length : ∀ (rs : List (Stage β X S Res)) (it : (chainRec R rs).It),
    (aggsDown R rs it).length = rs.length := by
  intro rs
  induction rs with
  | nil => intro _; rfl
  | cons s ss ih =>
    intro p
    show ((show PipeIt (chainRec R ss) β Unit S from p).agg ::
      aggsDown R ss (show PipeIt (chainRec R ss) β Unit S from p).src).length = _
    simp [ih]

/-- a restore hands every stage the aggregation state captured for it -/
theorem chain_restore_aggs : ∀ (rs : List (Stage β X S Res)) (it it' : (chainRec R rs).It),
    (chainRec R rs).restore ((chainRec R rs).state it) = .ok it' →
      aggsDown R rs it' = aggsDown R rs it := by
  intro rs
  induction rs with
  | nil => intro _ _ _; rfl
  | cons s ss ih =>
    intro p p' hr
    have hr' : PipeIt.restore (chainRec R ss) s.pipe
        (PipeIt.state (chainRec R ss) (show PipeIt (chainRec R ss) β Unit S from p)) = .ok p' := hr
    unfold PipeIt.restore at hr'
    cases hq : (chainRec R ss).restore (PipeIt.state (chainRec R ss) (show PipeIt (chainRec R ss) β Unit S from p)).1 with
    | error e => simp [hq, bind, Except.bind] at hr'
    | ok src' =>
      simp only [hq, bind, Except.bind, pure, Except.pure] at hr'
      injection hr' with hr'
      subst hr'
      have := ih (show PipeIt (chainRec R ss) β Unit S from p).src src' hq
      show (show PipeIt (chainRec R ss) β Unit S from p).agg :: aggsDown R ss src' = _
      rw [this]
      rfl

/-- reading two equally long lists at the positions `[n-1, …, 0]` = reading their zip backwards -/
theorem filterMap_depthsOf {A B C : Type} (g : A → B → Option C) (xs : List A) (ys : List B)
    (hl : xs.length = ys.length) : ∀ n, n ≤ xs.length →
    (depthsOf n).filterMap (fun d => (xs[d]?).bind fun s => (ys[d]?).bind fun a => g s a) =
      ((xs.zip ys).take n).reverse.filterMap (fun p => g p.1 p.2) := by
  intro n
  induction n with
  | zero => intro _; rfl
  | succ n ih =>
    intro hn
    have hx : n < xs.length := by omega
    have hy : n < ys.length := by omega
    have hz : n < (xs.zip ys).length := by simp [List.length_zip]; omega
    have ez : (xs.zip ys)[n]? = some (xs[n], ys[n]) := by
      rw [List.getElem?_eq_getElem hz]; simp
    rw [List.take_add_one, ez]
    simp only [depthsOf, Option.toList_some, List.reverse_append, List.reverse_cons, List.reverse_nil,
      List.nil_append, List.singleton_append, List.filterMap_cons]
    rw [ih (by omega), List.getElem?_eq_getElem hx, List.getElem?_eq_getElem hy]
    rfl

/-- with a correctly tracked chain, `agg_state` lists every stage that has an aggregate exactly
once, upstream first, with that stage's aggregation state -/
theorem aggState_tracked (rs : List (Stage β X S Res)) (c : ChainIt R rs)
    (ht : c.tracked = depthsOf rs.length) :
    ChainIt.aggState R rs c =
      (rs.zip (aggsDown R rs c.top)).reverse.filterMap
        (fun p => if p.1.hasAgg then some (p.1.name, p.2) else none) := by
  unfold ChainIt.aggState
  rw [ht]
  have := filterMap_depthsOf (fun (s : Stage β X S Res) (a : S) => if s.hasAgg then some (s.name, a) else none)
    rs (aggsDown R rs c.top) (aggsDown_length rs c.top).symm rs.length (Nat.le_refl _)
  rw [this, List.take_of_length_le (by simp [List.length_zip, aggsDown_length])]

end aggstate

end MlModel.Resume
