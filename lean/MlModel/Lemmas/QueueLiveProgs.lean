import MlModel.Lemmas.QueueLiveDead
/-!
# Liveness of the IteratorQueue LTS — the programs of a reachable configuration are the initial ones
-/
namespace MlModel.Queue

theorem progs_step {c c' : Cfg} {tid alt lbl} (hd : DataInv c) (h : step c tid alt = some (lbl, c')) :
    c'.ths.map Thread.prog = c.ths.map Thread.prog := by
  obtain ⟨t, s', t', ht, hst, rfl⟩ := step_inv h
  obtain ⟨_, hp, _⟩ := stepThread_data lbl s' t' hst (hd.tok t (List.mem_of_getElem? ht))
  show (c.ths.set tid t').map Thread.prog = c.ths.map Thread.prog
  rw [List.map_set, hp]
  apply List.ext_getElem?
  intro i
  by_cases hi : i = tid
  · subst hi
    obtain ⟨hlt, hget⟩ := List.getElem?_eq_some_iff.mp ht
    simp [hlt, hget]
  · rw [List.getElem?_set_ne (Ne.symm hi)]

theorem progs_reachable {cap maxEnq : Nat} {to ig : Bool} {progs : List Prog} {c : Cfg}
    (h : Reachable (init cap maxEnq to ig progs) c) : c.ths.map Thread.prog = progs := by
  induction h with
  | init => simp [init, Function.comp_def]
  | step hr hs ih =>
    rw [progs_step (dataInv_reachable (dataInv_init cap maxEnq to ig progs) hr) hs, ih]

def Prog.isProd (p : Prog) : Bool := p.kind == .producer
def Prog.isCons (p : Prog) : Bool := p.kind == .get || p.kind == .batch
def Prog.isStopper (p : Prog) : Bool := p.kind == .stopper

theorem anyT_progs {c : Cfg} {progs : List Prog} (hp : c.ths.map Thread.prog = progs)
    (P : Thread → Bool) (Q : Prog → Bool) (hPQ : ∀ t, P t = Q t.prog) :
    anyT c P ↔ ∃ p ∈ progs, Q p = true := by
  unfold anyT
  subst hp
  constructor
  · rintro ⟨t, ht, h⟩
    exact ⟨t.prog, List.mem_map_of_mem ht, by rw [← hPQ]; exact h⟩
  · rintro ⟨p, hp, h⟩
    obtain ⟨t, ht, rfl⟩ := List.mem_map.mp hp
    exact ⟨t, ht, by rw [hPQ]; exact h⟩

theorem countP_progs {c : Cfg} {progs : List Prog} (hp : c.ths.map Thread.prog = progs) :
    c.ths.countP isProd = progs.countP Prog.isProd := by
  subst hp
  rw [List.countP_map]
  rfl

end MlModel.Queue
