import MlModel.Lemmas.OwnerComposite
/-! The controller of `orchestrate.as_completed` in the product LTS (`Model/OwnerEnv.lean`, round 11): what a planned step
can be.  Whatever the local state, the futures, the verdicts and the prophecy: a step stays inside the body of `as_completed`
of the same pool, or starts the finaliser `finally: worker_pool.release_all()`; every piece it starts is an operation of the
repaired code acting for that pool. -/
namespace MlModel.OwnerEnv
open MlModel.Owner

/-- What a planned step of `as_completed` for pool `p` looks like. -/
def PlanOK (p : Pid) (R : List Wid → Prop) (act : AAct) : Prop :=
  ((∃ a', act.ctl = .ac a' ∧ a'.p = p) ∨ (∃ o, act.ctl = .fin p o ∧ act.piece = some (.finalize p))) ∧
  (∀ op, act.piece = some op → op.pool = p ∧ op.repaired = true) ∧
  (∀ q ws, act.piece = some (.releaseAll q ws) → R ws)

theorem leave_ok {R : List Wid → Prop} (a : AC) (o : Outc) : PlanOK a.p R (a.leave o) := by
  refine ⟨Or.inr ⟨o, rfl, rfl⟩, ?_, ?_⟩
  · intro op h; simp only [AC.leave, Option.some.injEq] at h; subst h; exact ⟨rfl, rfl⟩
  · intro q ws h; simp [AC.leave] at h

theorem top_ok {R : List Wid → Prop} (a : AC) : PlanOK a.p R a.top := by
  unfold AC.top
  split
  · refine ⟨Or.inl ⟨_, rfl, rfl⟩, ?_, ?_⟩
    · intro op h; simp only [Option.some.injEq] at h; subst h; exact ⟨rfl, rfl⟩
    · intro q ws h; simp at h
  · exact leave_ok a .ok

theorem release_ok {R : List Wid → Prop} (a : AC) : PlanOK a.p R a.release := by
  unfold AC.release
  split
  · refine ⟨Or.inl ⟨_, rfl, rfl⟩, ?_, ?_⟩
    · intro op h; simp only [Option.some.injEq] at h; subst h; exact ⟨rfl, rfl⟩
    · intro q ws h; simp at h
  · exact top_ok a

theorem check_ok {R : List Wid → Prop} (st : Nat → CSt) (a : AC) (todo still : List ARun) :
    PlanOK a.p R (a.check st todo still) := by
  cases todo with
  | nil => exact release_ok { a with running := still }
  | cons r todo =>
    refine ⟨Or.inl ⟨_, rfl, rfl⟩, ?_, ?_⟩
    · intro op h; simp [AC.check] at h
    · intro q ws h; simp [AC.check] at h

theorem submitHead_ok {R : List Wid → Prop} (st : Nat → CSt) (a : AC) : PlanOK a.p R (a.submitHead st) := by
  unfold AC.submitHead
  split
  · refine ⟨Or.inl ⟨_, rfl, rfl⟩, ?_, ?_⟩
    · intro op h; simp only [Option.some.injEq] at h; subst h; exact ⟨rfl, rfl⟩
    · intro q ws h; simp at h
  · exact check_ok st a _ _

@[simp] theorem draw_p (a : AC) : a.draw.p = a.p := by
  unfold AC.draw
  split
  · split <;> rfl
  · rfl

/-- What is known of the worker list of a mid-run `release_all(unused_workers)` (orchestrate.py:553) the controller starts: the
controller is at the end of `acquired_workers`, whose value was `acquired`; the list is a legal choice of `unused_workers`; in the
repaired code it is not empty. -/
def RelSpec (a : AC) (last : Option Res) (ws : List Wid) : Prop :=
  a.pc = .acq ∧ ∃ acquired, last = some (.workers acquired) ∧
    legalUnused (a.free acquired) (a.cand acquired) (a.nres acquired) ws = true ∧ (a.fixed = true → ws ≠ [])

/-- **Every planned step of `as_completed` stays in its body or starts the finaliser**; its pieces are operations of the repaired
code for its own pool; a `release_all(ws)` piece satisfies `RelSpec`. -/
theorem acPlan_ok {a : AC} {head : Option Op} {last : Option Res} {st : Nat → CSt} {alive raced live : Bool} {lastCall : Nat}
    {act : AAct} (h : acPlan a head last st alive raced live lastCall = some act) : PlanOK a.p (RelSpec a last) act := by
  have piece : ∀ (op : Op) (a' : AC) (rs : Bool), a'.p = a.p → op.pool = a.p → op.repaired = true →
      (∀ q ws, op ≠ .releaseAll q ws) →
      PlanOK a.p (RelSpec a last) { piece := some op, ctl := .ac a', reset := rs } := by
    intro op a' rs h1 h2 h3 h4
    refine ⟨Or.inl ⟨a', rfl, h1⟩, ?_, ?_⟩
    · intro op' h'; simp only [Option.some.injEq] at h'; subst h'; exact ⟨h2, h3⟩
    · intro q ws h'; simp only [Option.some.injEq] at h'; exact absurd h' (h4 q ws)
  unfold acPlan at h
  cases hpc : a.pc <;> simp only [hpc] at h
  case alive1 =>
    split at h
    · simp only [Option.some.injEq] at h; subst h; exact leave_ok a _
    · simp only [Option.some.injEq] at h; subst h; exact piece _ _ _ rfl rfl rfl (by intro q ws h; cases h)
    · exact absurd h (by simp)
  case alive2 =>
    split at h
    · split at h
      · split at h
        · split at h
          · simp only [Option.some.injEq] at h; subst h; exact submitHead_ok st { a with ws := _ }
          · exact absurd h (by simp)
        · exact absurd h (by simp)
      · simp only [Option.some.injEq] at h; subst h; exact check_ok st a _ _
    · exact absurd h (by simp)
  case next =>
    split at h
    · simp only [Option.some.injEq] at h; subst h; exact check_ok st a _ _
    · split at h
      · simp only [Option.some.injEq] at h; subst h
        rw [← draw_p a]
        exact submitHead_ok st a.draw
      · simp only [Option.some.injEq] at h; subst h
        exact piece _ _ _ (by simp) rfl rfl (by intro q ws h; cases h)
    · exact absurd h (by simp)
  case sub w k =>
    split at h
    · simp only [Option.some.injEq] at h; subst h
      exact submitHead_ok st { a with running := _, pc := .next }
    · split at h
      · simp only [Option.some.injEq] at h; subst h; exact piece _ _ _ rfl rfl rfl (by intro q ws h; cases h)
      · simp only [Option.some.injEq] at h; subst h; exact leave_ok a _
    · simp only [Option.some.injEq] at h; subst h; exact piece _ _ _ rfl rfl rfl (by intro q ws h; cases h)
    · exact absurd h (by simp)
  case polled r s todo still =>
    split at h
    · simp only [Option.some.injEq] at h; subst h; exact piece _ _ _ rfl rfl rfl (by intro q ws h; cases h)
    · skip
      split at h
      · simp only [Option.some.injEq] at h; subst h
        exact leave_ok { a with preferred := _, yielded := _, running := _ } _
      · simp only [Option.some.injEq] at h; subst h
        exact check_ok st { a with preferred := _, yielded := _ } _ _
    · simp only [Option.some.injEq] at h; subst h; exact leave_ok a _
    · skip
      split at h
      · simp only [Option.some.injEq] at h; subst h; exact check_ok st { a with preferred := _ } _ _
      · simp only [Option.some.injEq] at h; subst h; exact leave_ok { a with preferred := _ } _
  case isAl r todo still =>
    split at h
    · simp only [Option.some.injEq] at h; subst h; exact leave_ok a _
    · split at h
      · simp only [Option.some.injEq] at h; subst h; exact check_ok st a _ _
      · simp only [Option.some.injEq] at h; subst h; exact check_ok st { a with tasks := _ } _ _
  case acq =>
    split at h
    · unfold AC.relPlan at h
      split at h
      · split at h
        · rename_i acquired _ q ws hq
          simp only [Option.some.injEq] at h; subst h
          refine ⟨Or.inl ⟨_, rfl, rfl⟩, ?_, ?_⟩
          · intro op' h'; simp only [Option.some.injEq] at h'; subst h'; exact ⟨rfl, rfl⟩
          · intro q' ws' h'
            simp only [Option.some.injEq, Op.releaseAll.injEq] at h'
            obtain ⟨_, h2⟩ := h'; subst h2
            exact ⟨hpc, acquired, rfl, hq.2.1, hq.2.2⟩
        · split at h
          · simp only [Option.some.injEq] at h; subst h; exact top_ok a
          · exact absurd h (by simp)
      · split at h
        · simp only [Option.some.injEq] at h; subst h; exact top_ok a
        · exact absurd h (by simp)
    · exact absurd h (by simp)
  case rel =>
    simp only [Option.some.injEq] at h; subst h; exact top_ok a

@[simp] theorem acEnv_ctl (t : Tid) (act : AAct) (e : Env) : (acEnv t act e).ctl t = act.ctl := by simp [acEnv]
@[simp] theorem acEnv_outs (t : Tid) (act : AAct) (e : Env) : (acEnv t act e).outs = e.outs := rfl

theorem acEnv_ctl_other (s t : Tid) (act : AAct) (e : Env) (h : t ≠ s) : (acEnv s act e).ctl t = e.ctl t := by
  simp [acEnv, setCtl, upd_other _ _ h]

end MlModel.OwnerEnv
