import MlModel.Lemmas.PrefetchOne
import MlModel.Lemmas.QueueLiveView
/-!
# The prefetch protocol with one client: nothing stays blocked

System as in `Lemmas/PrefetchOne.lean` (server thread, one `client g b`, the prefetch thread it starts).
`LInv` adds to `RInv` what deadlock-freedom needs:

* the discipline of the server-level locks (`_generator_lock`, `_shutdown_lock`, `_tx_stats_lock`): the
  owner is a function of the program points of the server thread and of the client;
* the queue-level no-lost-wake-up invariant `Queue.Live` (J1 J2 K1 K2 + `Base`, `Lemmas/QueueLive*.lean`)
  of the generator queue, **transferred through the embedding**: the queue configuration seen by the
  invariant (`view`) has an inert slot for the server thread, the client's current `get_batch` call (or an
  idle / finished consumer between and after the calls) in slot 1, and the prefetch thread's
  `enqueue_from_iterator` in slot 2 from its `_start_enqueue` step on.  Every step of the embedding LTS is a
  `Queue.step` of the view, or one of the view changes of `Lemmas/QueueLiveView.lean`.

`one_dead`: a reachable configuration without enabled step has the client and the prefetch thread at
their final program points and the server thread parked in `run_until_shutdown`.
-/
namespace MlModel.Prefetch
open MlModel.Queue (Elem Item Raise Spsc asItems inertT QuietC Live)

/-- program points of the server thread at which it owns `_shutdown_lock` -/
def mShut : Pc → Bool
  | .mnWait | .mnTxA | .mnTxR => true
  | _ => false

/-- program points of the client at which it owns `_shutdown_lock` -/
def cShut : Pc → Bool
  | .iiN1 | .iiN2 => true
  | _ => false

/-- program points of the client at which it owns `_generator_lock` -/
def cGen : Pc → Bool
  | .iiSpawn | .lkRel => true
  | _ => false

/-- a consumer about to call `get_batch` -/
def freshC (b : Nat) : Queue.Thread := { prog := .batchLoop (effBatch b) true, pc := .bAcq }
/-- a consumer that will not call again -/
def doneC (b : Nat) : Queue.Thread := { prog := .batchLoop (effBatch b) true, pc := .done }

/-- the client's slot in the queue-level view: its `get_batch` call while it is inside one; otherwise a
consumer that is about to call again, or — once an end marker is on its way / has arrived — a finished one -/
def viewC (b : Nat) (tc : Thread) : Queue.Thread :=
  match tc.pc with
  | .nbGet => tc.qt
  | .nbTxA | .nbTxR =>
    match tc.reply with
    | some r => if r.marker.isSome then doneC b else freshC b
    | none => freshC b
  | .done => doneC b
  | _ => freshC b

/-- the prefetch thread's slot: present from its `_start_enqueue` step on -/
def viewP : Option Thread → List Queue.Thread
  | none => []
  | some tp => if tp.qt.pc = .sAcq then [] else [tp.qt]

def view (b : Nat) (q0 : Queue.Shared) (tc : Thread) (otp : Option Thread) : Queue.Cfg :=
  { sh := q0, ths := inertT :: viewC b tc :: viewP otp }

structure LInv (g : Gen) (b : Nat) (s : Shared) (tm tc : Thread) (otp : Option Thread) : Prop where
  gen : s.genOwner = if cGen tc.pc then some 1 else none
  shut : s.shutOwner = if mShut tm.pc then some 0 else if cShut tc.pc then some 1 else none
  shutX : mShut tm.pc = true → cShut tc.pc = false
  tx : s.txOwner = if tm.pc = .mnTxR then some 0 else if tc.pc = .nbTxR then some 1 else none
  txX : tm.pc = .mnTxR → tc.pc ≠ .nbTxR
  live : ∀ q0, s.qs = [q0] → Live (view b q0 tc otp) ∧ q0.timeout = false
  pq : ∀ tp, otp = some tp → (tp.qt.pc = .sAcq → tp.qt = initP g) ∧ (tp.pc = .start → tp.qt.pc = .sAcq) ∧
    (tp.pc = .done → tp.qt.pc = .done) ∧ (tp.pc = .prod → tp.qt.pc ≠ .done)
  cq : tc.pc = .nbGet → tc.qt.pc ≠ .done

theorem quiet_freshC (b : Nat) : QuietC (freshC b) := ⟨rfl, Or.inl rfl⟩
theorem quiet_doneC (b : Nat) : QuietC (doneC b) := ⟨rfl, Or.inr rfl⟩

theorem linv_init (p : Nat) (g : Gen) (b : Nat) :
    LInv g b (init p [.client g b]).sh { prog := .main } { prog := .client g b } none := by
  refine ⟨rfl, rfl, fun _ => rfl, rfl, fun h => (by cases h), ?_, fun tp h => (by cases h), fun h => (by cases h)⟩
  intro q0 h; simp [init] at h

/-- a step of the server's own thread -/
theorem linv_main_step {g : Gen} {b : Nat} {tm tc : Thread} {otp : Option Thread} {s : Shared}
    {lbl : String} {c' : Cfg} (hm : MainOK tm) (hns : s.shutdownRequested = false)
    (hL : LInv g b s tm tc otp)
    (h : step { sh := s, ths := tm :: tc :: Option.toList otp } 0 = some (lbl, c')) :
    ∃ tm' s', c' = { sh := s', ths := tm' :: tc :: Option.toList otp } ∧ LInv g b s' tm' tc otp := by
  obtain ⟨hprog, hpc⟩ := hm
  obtain ⟨l1, l2, l3, l4, l5, l6, l7, l8⟩ := hL
  unfold step at h
  simp only [List.getElem?_cons_zero] at h
  rcases hpc with hpc | hpc | hpc | hpc | hpc | hpc <;> simp only [hpc, hprog, hns] at h <;>
    (repeat' split at h) <;>
    (try simp only [Option.some.injEq, Prod.mk.injEq, reduceCtorEq] at h) <;>
    (try (obtain ⟨-, rfl⟩ := h)) <;>
    (try (exact h.elim)) <;>
    refine ⟨_, _, rfl, ⟨?_, ?_, ?_, ?_, ?_, l6, l7, l8⟩⟩ <;>
    cases hc : cShut tc.pc <;> simp_all [mShut]

theorem view_none (b : Nat) (q0 : Queue.Shared) (tc : Thread) :
    view b q0 tc none = { sh := q0, ths := [inertT, viewC b tc] } := rfl

/-- the client before its generator is installed and the prefetch thread started -/
theorem linv_client_step_pre {g : Gen} {b : Nat} {tm tc : Thread} {s : Shared} {lbl : String} {c' : Cfg}
    (hprog : tc.prog = .client g b) (hns : s.shutdownRequested = false) (hup : s.serverUp = true)
    (hcore : Core g b s tc none) (hL : LInv g b s tm tc none)
    (h : step { sh := s, ths := [tm, tc] } 1 = some (lbl, c')) :
    ∃ tc' s' otp, c' = { sh := s', ths := tm :: tc' :: Option.toList otp } ∧ LInv g b s' tm tc' otp := by
  obtain ⟨hqt, hrep, hy, hrs, hret, hph⟩ := hcore
  obtain ⟨l1, l2, l3, l4, l5, l6, l7, l8⟩ := hL
  unfold step at h
  simp only [List.getElem?_cons_succ, List.getElem?_cons_zero] at h
  rcases hph with ⟨hpc | hpc, hqs, hgen⟩ | ⟨hpc, hg, hgen, q0, hqs, hsp⟩
  · -- start
    simp only [hpc, hprog, hup, hns, Bool.not_true, Bool.false_eq_true, ↓reduceIte, Option.some.injEq,
      Prod.mk.injEq] at h
    obtain ⟨-, rfl⟩ := h
    refine ⟨_, _, none, rfl, ⟨?_, ?_, ?_, ?_, ?_, ?_, l7, ?_⟩⟩
    · simpa [cGen, hpc] using l1
    · simpa [cShut, hpc] using l2
    · intro _; rfl
    · simpa [hpc] using l4
    · intro _ hh; cases hh
    · intro q0 hq0; rw [hqs] at hq0; cases hq0
    · intro hh; cases hh
  · -- acquire gen: nothing to stop, the new queue is installed
    simp only [hpc, hprog, hns] at h
    split at h
    · simp at h
    · simp only [beginStop, hgen, install, hqs, Bool.false_eq_true, ↓reduceIte, beq_self_eq_true,
        Option.some.injEq, Prod.mk.injEq] at h
      obtain ⟨-, rfl⟩ := h
      refine ⟨_, _, none, rfl, ⟨?_, ?_, ?_, ?_, ?_, ?_, l7, ?_⟩⟩
      · simp [cGen]
      · simpa [cShut, hpc] using l2
      · intro _; rfl
      · simpa [hpc] using l4
      · intro _ hh; cases hh
      · intro q0 hq0
        simp only [List.nil_append, List.cons.injEq, and_true] at hq0
        subst hq0
        refine ⟨?_, rfl⟩
        rw [view_none]
        apply Queue.live_fresh
        intro t ht
        simp only [List.mem_cons, List.not_mem_nil, or_false] at ht
        rcases ht with rfl | rfl
        · exact Or.inl rfl
        · exact Or.inr ⟨quiet_freshC b, rfl⟩
      · intro hh; cases hh
  · -- thread_start
    simp only [hpc, hprog, gen?, Option.some.injEq, Prod.mk.injEq] at h
    obtain ⟨-, rfl⟩ := h
    refine ⟨_, _, some _, rfl, ⟨?_, ?_, ?_, ?_, ?_, ?_, ?_, ?_⟩⟩
    · simp [cGen]; simpa [cGen, hpc] using l1
    · simpa [cShut, hpc] using l2
    · intro _; rfl
    · simpa [hpc] using l4
    · intro _ hh; cases hh
    · intro q1 hq1
      have := l6 q1 hq1
      simpa [view, viewC, viewP, hpc] using this
    · intro tp htp
      simp only [Option.some.injEq] at htp
      subst htp
      exact ⟨fun _ => rfl, fun _ => rfl, fun hh => (by cases hh), fun hh => (by cases hh)⟩
    · intro hh; cases hh

/-! ### helper facts -/

theorem mkReply_marker {s : Shared} {k : Nat} {q : Queue.Shared} {e : List Elem}
    (h : (mkReply s k q e).1.marker.isSome = true) : q.exhausted = true := by
  unfold mkReply at h
  split at h
  · assumption
  · simp at h

end MlModel.Prefetch

namespace MlModel.Queue

/-- the prefetch thread has executed `_start_enqueue` exactly when it has left `sAcq` -/
theorem ProdOK.start_iff {src ret ptid q P} (h : ProdOK src ret ptid q P) : q.start = 0 ↔ P.pc = .sAcq := by
  have hp := h.pc
  unfold ProdPc at hp
  cases hpc : P.pc <;> simp only [hpc] at hp <;> (try exact hp.elim) <;> simp_all [Ctr1]

theorem ProdOK.not_mAcq {src ret ptid q P} (h : ProdOK src ret ptid q P) : P.pc ≠ .mAcq := by
  intro hpc
  have hp := h.pc
  unfold ProdPc at hp
  simp [hpc] at hp

theorem ProdOK.tok {src ret ptid q P} (h : ProdOK src ret ptid q P) (hr : P.result = []) : TOK P := by
  refine ⟨?_, fun _ => hr⟩
  intro k hk
  have hp := h.pc
  unfold ProdPc at hp
  rw [h.prog]
  cases hpc : P.pc <;> simp only [hpc] at hp hk <;> (try exact hp.elim) <;> simp_all [pcKind, Prog.kind]

/-- a queue-level step of slot 1 of a view -/
theorem step_slot1 {q q' : Shared} {d C C' : Thread} {rest : List Thread} {lbl : String}
    (h : stepThread q C 1 false = some (lbl, q', C')) :
    step { sh := q, ths := d :: C :: rest } 1 false = some (lbl, { sh := q', ths := d :: C' :: rest }) := by
  simp [step, h]

/-- a queue-level step of slot 2 of a view -/
theorem step_slot2 {q q' : Shared} {d C P P' : Thread} {lbl : String}
    (h : stepThread q P 2 false = some (lbl, q', P')) :
    step { sh := q, ths := [d, C, P] } 2 false = some (lbl, { sh := q', ths := [d, C, P'] }) := by
  simp [step, h]

end MlModel.Queue

namespace MlModel.Prefetch
open MlModel.Queue (Elem Item Raise Spsc asItems inertT QuietC Live)

theorem tok_initP (g : Gen) : Queue.TOK (initP g) :=
  ⟨by intro k hk; simp [initP, Queue.pcKind] at hk; subst hk; rfl, fun _ => rfl⟩

/-- a step of the prefetch thread: a queue-level step of slot 2 of the view (its first step, `_start_enqueue`,
is its entry into the view) -/
theorem linv_prod_step {g : Gen} {b : Nat} {tm tc tp : Thread} {s : Shared}
    {lbl : String} {c' : Cfg} (hcore : Core g b s tc (some tp)) (hL : LInv g b s tm tc (some tp))
    (h : step { sh := s, ths := [tm, tc, tp] } 2 = some (lbl, c')) :
    ∃ tp' s', c' = { sh := s', ths := [tm, tc, tp'] } ∧ LInv g b s' tm tc (some tp') := by
  obtain ⟨tp', s', rfl, -, -, hcore'⟩ := rinv_prod_step hcore h
  refine ⟨tp', s', rfl, ?_⟩
  obtain ⟨hprog, hg, hpc, hgen, henq, q0, hqs, hsp, hcl⟩ := hcore
  obtain ⟨-, -, -, -, -, q0', hqs', hsp', -⟩ := hcore'
  obtain ⟨l1, l2, l3, l4, l5, l6, l7, l8⟩ := hL
  obtain ⟨p1, p2, p3, p4⟩ := l7 tp rfl
  unfold step at h
  simp only [List.getElem?_cons_succ, List.getElem?_cons_zero] at h
  rcases hpc with hpc | hpc | hpc
  · simp only [hpc, hprog, Option.some.injEq, Prod.mk.injEq, setTh, Cfg.mk.injEq, List.set_cons_succ,
      List.set_cons_zero, List.cons.injEq, true_and, and_true] at h
    obtain ⟨-, rfl, rfl⟩ := h
    refine ⟨l1, l2, l3, l4, l5, l6, ?_, l8⟩
    intro tp1 htp1
    simp only [Option.some.injEq] at htp1
    subst htp1
    refine ⟨p1, fun hh => (by cases hh), fun hh => (by cases hh), fun _ => ?_⟩
    show tp.qt.pc ≠ .done
    rw [p2 hpc]; simp
  · simp only [hpc, hg, hqs, List.getElem?_cons_zero] at h
    split at h
    · simp at h
    · rename_i lbl0 q' qt' hst
      have hq' : q0' = q' ∧ tp'.qt = qt' ∧ s'.genOwner = s.genOwner ∧ s'.shutOwner = s.shutOwner ∧
          s'.txOwner = s.txOwner ∧ (tp'.pc = .done → qt'.pc = .done) ∧ (tp'.pc = .prod → qt'.pc ≠ .done) ∧
          tp'.pc ≠ .start := by
        split at h <;>
          simp only [Option.some.injEq, Prod.mk.injEq, setTh, Cfg.mk.injEq, List.set_cons_succ,
            List.set_cons_zero, List.cons.injEq, true_and, and_true] at h <;>
          obtain ⟨-, rfl, rfl⟩ := h <;>
          simp only [List.cons.injEq, and_true] at hqs' <;>
          subst hqs' <;> simp_all
      obtain ⟨rfl, hqt', e1, e2, e3, d1, d2, d3⟩ := hq'
      rw [hqt'] at hsp'
      -- the new program point is past `sAcq`
      have hne' : qt'.pc ≠ .sAcq := by
        intro hh
        have h0' := hsp'.prod.start_iff.mpr hh
        obtain ⟨-, f2, -⟩ := Queue.stepThread_f lbl0 q0' qt' hst
        by_cases hs : tp.qt.pc = .sAcq
        · rw [if_pos hs] at f2; omega
        · rw [if_neg hs, if_neg hsp.prod.not_mAcq] at f2
          have := mt hsp.prod.start_iff.mp hs
          omega
      refine ⟨by rw [e1]; exact l1, by rw [e2]; exact l2, l3, by rw [e3]; exact l4, l5, ?_, ?_, l8⟩
      · intro q1 hq1
        rw [hqs'] at hq1
        simp only [List.cons.injEq, and_true] at hq1
        subst hq1
        obtain ⟨hv, hto⟩ := l6 q0 hqs
        have hto' : q0'.timeout = false := by
          rw [(Queue.stepThread_const lbl0 q0' qt' hst).1]; exact hto
        refine ⟨?_, hto'⟩
        have hview' : view b q0' tc (some tp') = { sh := q0', ths := [inertT, viewC b tc, qt'] } := by
          simp [view, viewP, hqt', hne']
        rw [hview']
        by_cases hs : tp.qt.pc = .sAcq
        · have hview : view b q0 tc (some tp) = { sh := q0, ths := [inertT, viewC b tc] } := by
            simp [view, viewP, hs]
          rw [hview] at hv
          have hpo := hsp.prod.pc
          unfold Queue.ProdPc at hpo
          simp only [hs] at hpo
          obtain ⟨o1, o2, o3, o4, -⟩ := hpo
          have := Queue.live_spawn (P := tp.qt) hv hs (by rw [hsp.prod.prog]; rfl)
            (by rw [p1 hs]; exact tok_initP g) (by rw [p1 hs]; rfl)
            ⟨o3, o1, o2, o4, hsp.prod.nostop⟩ hst
          exact this
        · have hview : view b q0 tc (some tp) = { sh := q0, ths := [inertT, viewC b tc, tp.qt] } := by
            simp [view, viewP, hs]
          rw [hview] at hv
          exact Queue.live_step hto hv (Queue.step_slot2 hst)
      · intro tp1 htp1
        simp only [Option.some.injEq] at htp1
        subst htp1
        rw [hqt']
        exact ⟨fun hh => absurd hh hne', fun hh => absurd hh d3, d1, d2⟩
  · simp [hpc] at h

theorem viewC_other {b : Nat} {tc : Thread} (h1 : tc.pc ≠ .nbGet) (h2 : tc.pc ≠ .nbTxA) (h3 : tc.pc ≠ .nbTxR)
    (h4 : tc.pc ≠ .done) : viewC b tc = freshC b := by
  unfold viewC
  split <;> simp_all

/-- the client once the prefetch thread exists -/
theorem linv_client_step_run {g : Gen} {b : Nat} {tm tc tp : Thread} {s : Shared} {lbl : String} {c' : Cfg}
    (hprog : tc.prog = .client g b) (hup : s.serverUp = true)
    (hcore : Core g b s tc (some tp)) (hL : LInv g b s tm tc (some tp))
    (h : step { sh := s, ths := [tm, tc, tp] } 1 = some (lbl, c')) :
    ∃ tc' s', c' = { sh := s', ths := [tm, tc', tp] } ∧ LInv g b s' tm tc' (some tp) := by
  obtain ⟨hpp, hpg, hppc, hgen, henq, q0, hqs, hsp, hcl⟩ := hcore
  obtain ⟨l1, l2, l3, l4, l5, l6, l7, l8⟩ := hL
  unfold step at h
  simp only [List.getElem?_cons_succ, List.getElem?_cons_zero] at h
  unfold ClientC at hcl
  cases hpc : tc.pc <;> simp only [hpc] at hcl h <;> (try exact hcl.elim)
  case done => simp at h
  case lkRel =>
    obtain ⟨hret, hqt, hrep, hmk⟩ := hcl
    split at h
    · simp at h
    · simp only [hprog, hret, Option.some.injEq, Prod.mk.injEq] at h
      obtain ⟨-, rfl⟩ := h
      refine ⟨_, _, rfl, ⟨by simp [cGen], by simpa [cShut, hpc] using l2, fun _ => rfl, by simpa [hpc] using l4,
        fun _ hh => (by cases hh), ?_, l7, fun hh => (by cases hh)⟩⟩
      intro q1 hq1
      have := l6 q1 hq1
      simpa [view, viewC, hpc] using this
  case iiN0 =>
    split at h
    · simp at h
    · rename_i hfree
      simp only [Option.some.injEq, Prod.mk.injEq] at h
      obtain ⟨-, rfl⟩ := h
      have hm : mShut tm.pc = false := by
        cases hm : mShut tm.pc with
        | false => rfl
        | true => rw [l2, hm] at hfree; simp at hfree
      refine ⟨_, _, rfl, ⟨by simpa [cGen, hpc] using l1, by simp [hm, cShut], fun hh => (by rw [hm] at hh; cases hh),
        by simpa [hpc] using l4, fun _ hh => (by cases hh), ?_, l7, fun hh => (by cases hh)⟩⟩
      intro q1 hq1
      have := l6 q1 hq1
      simpa [view, viewC, hpc] using this
  case iiN1 =>
    split at h
    · simp at h
    · simp only [Option.some.injEq, Prod.mk.injEq] at h
      obtain ⟨-, rfl⟩ := h
      have hm : mShut tm.pc = false := by
        cases hm : mShut tm.pc with
        | false => rfl
        | true => have := l3 hm; simp [hpc, cShut] at this
      refine ⟨_, _, rfl, ⟨by simpa [cGen, hpc] using l1, by simpa [hm, cShut, hpc] using l2,
        fun hh => (by rw [hm] at hh; cases hh),
        by simpa [hpc] using l4, fun _ hh => (by cases hh), ?_, l7, fun hh => (by cases hh)⟩⟩
      intro q1 hq1
      have := l6 q1 hq1
      simpa [view, viewC, hpc] using this
  case iiN2 =>
    split at h
    · simp at h
    · simp only [hprog, callNext, hup, beginNext, hgen, Bool.not_true, Bool.false_eq_true, ↓reduceIte,
        Option.some.injEq, Prod.mk.injEq] at h
      obtain ⟨-, rfl⟩ := h
      have hm : mShut tm.pc = false := by
        cases hm : mShut tm.pc with
        | false => rfl
        | true => have := l3 hm; simp [hpc, cShut] at this
      refine ⟨_, _, rfl, ⟨by simpa [cGen, hpc] using l1, by simp [hm, cShut], fun _ => rfl,
        by simpa [hpc] using l4, fun _ hh => (by cases hh), ?_, l7, fun _ => (by simp)⟩⟩
      intro q1 hq1
      have := l6 q1 hq1
      simpa [view, viewC, hpc, freshC] using this
  case nbTxA =>
    split at h
    · simp at h
    · rename_i hfree
      simp only [Option.some.injEq, Prod.mk.injEq] at h
      obtain ⟨-, rfl⟩ := h
      have hm : tm.pc ≠ .mnTxR := by
        intro hm; rw [l4, if_pos hm] at hfree; simp at hfree
      refine ⟨_, _, rfl, ⟨by simpa [cGen, hpc] using l1, by simpa [cShut, hpc] using l2, fun _ => rfl,
        by simp [hm], fun hh => absurd hh hm, ?_, l7, fun hh => (by cases hh)⟩⟩
      intro q1 hq1
      have := l6 q1 hq1
      simpa [view, viewC, hpc] using this
  case nbTxR =>
    obtain ⟨hqt, hmk, r, hrep, hmr⟩ := hcl
    have hm : tm.pc ≠ .mnTxR := fun hm => l5 hm hpc
    split at h
    · simp at h
    · simp only [hrep] at h
      cases hmark : r.marker with
      | none =>
        simp only [receive, hprog, hmark, callNext, hup, beginNext, hgen, Bool.not_true, Bool.false_eq_true,
          ↓reduceIte, Option.some.injEq, Prod.mk.injEq] at h
        obtain ⟨-, rfl⟩ := h
        refine ⟨_, _, rfl, ⟨by simpa [cGen, hpc] using l1, by simpa [cShut, hpc] using l2, fun _ => rfl,
          by simp [hm], fun hh => absurd hh hm, ?_, l7, fun _ => (by simp)⟩⟩
        intro q1 hq1
        have := l6 q1 hq1
        simpa [view, viewC, hpc, hrep, hmark, freshC] using this
      | some m =>
        simp only [receive, hprog, hmark, Option.some.injEq, Prod.mk.injEq] at h
        obtain ⟨-, rfl⟩ := h
        refine ⟨_, _, rfl, ⟨by simpa [cGen, hpc] using l1, by simpa [cShut, hpc] using l2, fun _ => rfl,
          by simp [hm], fun hh => absurd hh hm, ?_, l7, fun hh => (by cases hh)⟩⟩
        intro q1 hq1
        have := l6 q1 hq1
        simpa [view, viewC, hpc, hrep, hmark] using this
  case nbGet =>
    obtain ⟨hg0, hqprog, hrep, hmk⟩ := hcl
    simp only [hg0, hqs, List.getElem?_cons_zero] at h
    split at h
    · simp at h
    · rename_i lbl0 q' qt' hst
      obtain ⟨hv, hto⟩ := l6 q0 hqs
      have hto' : q'.timeout = false := by
        rw [(Queue.stepThread_const lbl0 q' qt' hst).1]; exact hto
      have hview : view b q0 tc (some tp) = { sh := q0, ths := inertT :: tc.qt :: viewP (some tp) } := by
        simp [view, viewC, hpc]
      rw [hview] at hv
      have hv' := Queue.live_step hto hv (Queue.step_slot1 hst)
      obtain ⟨-, hqprog'⟩ := hsp.cons_step hqprog hst
      split at h
      · rename_i hfin
        have hfin' : qt'.pc = .bAcq ∨ qt'.pc = .done := by simpa using hfin
        simp only [Option.some.injEq, Prod.mk.injEq] at h
        obtain ⟨-, rfl⟩ := h
        refine ⟨_, _, rfl, ⟨by simpa [cGen, hpc] using l1, by simpa [cShut, hpc] using l2, fun _ => rfl,
          by simpa [hpc] using l4, fun _ hh => (by cases hh), ?_, l7, fun hh => (by cases hh)⟩⟩
        intro q1 hq1
        simp only [List.set_cons_zero, List.cons.injEq, and_true] at hq1
        subst hq1
        refine ⟨?_, hto'⟩
        have hq : QuietC qt' := ⟨by rw [hqprog']; rfl, hfin'⟩
        by_cases hmark : (mkReply { s with qs := [q'] } 0 q' qt'.received).1.marker.isSome = true
        · have := Queue.live_set_quiet (i := 1) (t' := doneC b) hv' rfl hq (quiet_doneC b)
            (fun _ => mkReply_marker hmark)
          simpa [view, viewC, hmark] using this
        · have := Queue.live_set_quiet (i := 1) (t' := freshC b) hv' rfl hq (quiet_freshC b)
            (fun hh => by cases hh)
          simpa [view, viewC, hmark] using this
      · rename_i hfin
        simp only [Option.some.injEq, Prod.mk.injEq] at h
        obtain ⟨-, rfl⟩ := h
        refine ⟨_, _, rfl, ⟨by simpa [cGen, hpc] using l1, by simpa [cShut, hpc] using l2, fun _ => rfl,
          by simpa [hpc] using l4, fun _ hh => (by cases hh), ?_, l7, fun _ => ?_⟩⟩
        · intro q1 hq1
          simp only [List.set_cons_zero, List.cons.injEq, and_true] at hq1
          subst hq1
          refine ⟨?_, hto'⟩
          simpa [view, viewC, hpc] using hv'
        · show qt'.pc ≠ .done
          intro hh; rw [hh] at hfin; simp at hfin

/-- `RInv` together with `LInv`, on the same decomposition of the thread list -/
def RLInv (g : Gen) (b : Nat) (c : Cfg) : Prop :=
  ∃ tm tc otp, c.ths = tm :: tc :: Option.toList otp ∧ MainOK tm ∧ tc.prog = .client g b ∧
    c.sh.shutdownRequested = false ∧ c.sh.serverUp = true ∧ Core g b c.sh tc otp ∧ LInv g b c.sh tm tc otp

theorem rlinv_init (p : Nat) (g : Gen) (b : Nat) : RLInv g b (init p [.client g b]) := by
  refine ⟨{ prog := .main }, { prog := .client g b }, none, rfl, ⟨rfl, Or.inl rfl⟩, rfl, rfl, rfl, ?_, linv_init p g b⟩
  exact ⟨rfl, rfl, rfl, rfl, rfl, Or.inl ⟨Or.inl rfl, rfl, rfl⟩⟩

theorem toList_inj {α} {a b : Option α} (h : Option.toList a = Option.toList b) : a = b := by
  cases a <;> cases b <;> simp_all

theorem rlinv_step {g : Gen} {b : Nat} {c c' : Cfg} {tid : Queue.Tid} {lbl : String}
    (hI : RLInv g b c) (h : step c tid = some (lbl, c')) : RLInv g b c' := by
  obtain ⟨tm, tc, otp, hths, hm, hprog, hns, hup, hcore, hL⟩ := hI
  obtain ⟨s, ths⟩ := c
  simp only at hths hns hup hcore hL
  subst hths
  match tid, otp with
  | 0, otp =>
    obtain ⟨tm', s', rfl, hm', h1, h2, h3, h4, h5⟩ := rinv_main_step hm hns h
    obtain ⟨tm'', s'', heq, hL'⟩ := linv_main_step hm hns hL h
    simp only [Cfg.mk.injEq, List.cons.injEq] at heq
    obtain ⟨rfl, rfl, -⟩ := heq
    refine ⟨tm', tc, otp, rfl, hm', hprog, h1, by rw [h2]; exact hup, ?_, hL'⟩
    cases otp with
    | none =>
      obtain ⟨a1, a2, a3, a4, a5, a6⟩ := hcore
      refine ⟨a1, a2, a3, a4, a5, ?_⟩
      simp only [h3, h4]
      exact a6
    | some tp =>
      obtain ⟨a1, a2, a3, a4, a5, q0, a6, a7, a8⟩ := hcore
      exact ⟨a1, a2, a3, by rw [h4]; exact a4, by rw [h5]; exact a5, q0, by rw [h3]; exact a6, a7, a8⟩
  | 1, none =>
    obtain ⟨tc', s', otp', rfl, h1, h2, h3, h4⟩ := rinv_client_step_pre hprog hns hup hcore h
    obtain ⟨tc'', s'', otp'', heq, hL'⟩ := linv_client_step_pre hprog hns hup hcore hL h
    simp only [Cfg.mk.injEq, List.cons.injEq, true_and] at heq
    obtain ⟨rfl, rfl, heq⟩ := heq
    have := toList_inj heq
    subst this
    exact ⟨tm, tc', otp', rfl, hm, h1, h2, h3, h4, hL'⟩
  | 1, some tp =>
    obtain ⟨tc', s', rfl, h1, h2, h3, h4⟩ := rinv_client_step_run hprog hns hup hcore h
    obtain ⟨tc'', s'', heq, hL'⟩ := linv_client_step_run hprog hup hcore hL h
    simp only [Cfg.mk.injEq, List.cons.injEq, true_and, and_true] at heq
    obtain ⟨rfl, rfl⟩ := heq
    exact ⟨tm, tc', some tp, rfl, hm, h1, h2, h3, h4, hL'⟩
  | 2, some tp =>
    obtain ⟨tp', s', rfl, h1, h2, h3⟩ := rinv_prod_step hcore h
    obtain ⟨tp'', s'', heq, hL'⟩ := linv_prod_step hcore hL h
    simp only [Cfg.mk.injEq, List.cons.injEq, true_and, and_true] at heq
    obtain ⟨rfl, rfl⟩ := heq
    exact ⟨tm, tc, some tp', rfl, hm, hprog, by rw [h1]; exact hns, by rw [h2]; exact hup, h3, hL'⟩
  | 2, none => rw [step_none_of_getElem? (by rfl)] at h; exact absurd h (by simp)
  | n + 3, none => rw [step_none_of_getElem? (by rfl)] at h; exact absurd h (by simp)
  | n + 3, some tp => rw [step_none_of_getElem? (by rfl)] at h; exact absurd h (by simp)

theorem rlinv_reachable {p : Nat} {g : Gen} {b : Nat} {c : Cfg}
    (h : Reachable (init p [.client g b]) c) : RLInv g b c := by
  induction h with
  | init => exact rlinv_init p g b
  | step _ hs ih => exact rlinv_step ih hs

/-! ### A configuration without enabled step is final -/

/-- the server's own thread is enabled unless it is parked in `run_until_shutdown`, or waits for a lock -/
theorem main_enabled {g : Gen} {b : Nat} {tm tc : Thread} {otp : Option Thread} {s : Shared} {rest : List Thread}
    (hm : MainOK tm) (hL : LInv g b s tm tc otp) (h1 : tm.pc ≠ .mnWake)
    (h2 : tm.pc = .mnAcq → s.shutOwner = none) (h3 : tm.pc = .mnTxA → s.txOwner = none) :
    step { sh := s, ths := tm :: rest } 0 ≠ none := by
  obtain ⟨hprog, hpc⟩ := hm
  have l2 := hL.shut
  have l4 := hL.tx
  unfold step
  simp only [List.getElem?_cons_zero]
  rcases hpc with hpc | hpc | hpc | hpc | hpc | hpc
  · simp [hpc, hprog]
  · simp [hpc, h2 hpc]
  · simp [hpc, mShut] at l2 ⊢; simp [l2]
  · exact absurd hpc h1
  · simp [hpc, h3 hpc]
  · simp [hpc] at l4 ⊢; simp [l4]

theorem step_nbGet_none {c : Cfg} {tid : Queue.Tid} {t : Thread} {q : Queue.Shared}
    (ht : c.ths[tid]? = some t) (hpc : t.pc = .nbGet) (hq : c.sh.qs[t.g]? = some q)
    (h : step c tid = none) : Queue.stepThread q t.qt tid false = none := by
  unfold step at h
  simp only [ht, hpc, hq] at h
  cases hst : Queue.stepThread q t.qt tid false with
  | none => rfl
  | some r =>
    obtain ⟨a, b, d⟩ := r
    simp only [hst] at h
    split at h <;> simp at h

theorem step_prod_none {c : Cfg} {tid : Queue.Tid} {t : Thread} {q : Queue.Shared}
    (ht : c.ths[tid]? = some t) (hpc : t.pc = .prod) (hq : c.sh.qs[t.g]? = some q)
    (h : step c tid = none) : Queue.stepThread q t.qt tid false = none := by
  unfold step at h
  simp only [ht, hpc, hq] at h
  cases hst : Queue.stepThread q t.qt tid false with
  | none => rfl
  | some r =>
    obtain ⟨a, b, d⟩ := r
    simp only [hst] at h
    split at h <;> simp at h

theorem stepThread_done_none {q : Queue.Shared} {t : Queue.Thread} {tid : Queue.Tid} (h : t.pc = .done) :
    Queue.stepThread q t tid false = none := by
  unfold Queue.stepThread; simp [h]

/-- if neither the server thread nor the client can step, the client is inside `get_batch` or has ended -/
theorem client_dead {g : Gen} {b : Nat} {tm tc : Thread} {otp : Option Thread} {s : Shared}
    (hm : MainOK tm) (hprog : tc.prog = .client g b) (hns : s.shutdownRequested = false)
    (hup : s.serverUp = true) (hcore : Core g b s tc otp) (hL : LInv g b s tm tc otp)
    (hd0 : step { sh := s, ths := tm :: tc :: Option.toList otp } 0 = none)
    (hd1 : step { sh := s, ths := tm :: tc :: Option.toList otp } 1 = none) :
    ∃ tp, otp = some tp ∧ (tc.pc = .nbGet ∨ tc.pc = .done) := by
  have l1 := hL.gen
  have l2 := hL.shut
  have l4 := hL.tx
  unfold step at hd1
  simp only [List.getElem?_cons_succ, List.getElem?_cons_zero] at hd1
  cases otp with
  | none =>
    exfalso
    obtain ⟨hqt, hrep, hy, hrs, hret, hph⟩ := hcore
    rcases hph with ⟨hpc | hpc, hqs, hgen⟩ | ⟨hpc, hg, hgen, q0, hqs, hsp⟩
    · simp [hpc, hprog, hup, hns] at hd1
    · simp only [hpc, cGen] at l1
      simp only [hpc, hprog, hns, l1] at hd1
      simp at hd1
      split at hd1 <;> simp at hd1
    · simp [hpc, hprog, gen?] at hd1
  | some tp =>
    refine ⟨tp, rfl, ?_⟩
    obtain ⟨hpp, hpg, hppc, hgen, henq, q0, hqs, hsp, hcl⟩ := hcore
    unfold ClientC at hcl
    cases hpc : tc.pc <;> simp only [hpc] at hcl hd1 <;> (try exact hcl.elim)
    case done => exact Or.inr rfl
    case nbGet => exact Or.inl rfl
    case lkRel =>
      exfalso
      simp only [hpc, cGen] at l1
      simp [l1, hprog, hcl.1] at hd1
    case iiN0 =>
      exfalso
      cases hms : mShut tm.pc with
      | false =>
        simp only [hms, hpc, cShut] at l2
        simp [l2] at hd1
      | true =>
        have h4 : s.txOwner = (if tm.pc = .mnTxR then some 0 else none) := by simpa [hpc] using l4
        refine main_enabled hm hL ?_ ?_ ?_ hd0
        · intro hh; rw [hh] at hms; cases hms
        · intro hh; rw [hh] at hms; cases hms
        · intro hh; rw [h4, hh]; simp
    case iiN1 =>
      exfalso
      have hms : mShut tm.pc = false := by
        cases hms : mShut tm.pc with
        | false => rfl
        | true => have := hL.shutX hms; simp [hpc, cShut] at this
      simp only [hms, hpc, cShut] at l2
      simp [l2] at hd1
    case iiN2 =>
      exfalso
      have hms : mShut tm.pc = false := by
        cases hms : mShut tm.pc with
        | false => rfl
        | true => have := hL.shutX hms; simp [hpc, cShut] at this
      simp only [hms, hpc, cShut] at l2
      simp [l2, hprog] at hd1
    case nbTxA =>
      exfalso
      by_cases hmt : tm.pc = .mnTxR
      · refine main_enabled hm hL ?_ ?_ ?_ hd0
        · rw [hmt]; simp
        · rw [hmt]; simp
        · rw [hmt]; simp
      · simp only [hmt, hpc] at l4
        simp [l4] at hd1
    case nbTxR =>
      exfalso
      obtain ⟨-, -, r, hrep, -⟩ := hcl
      have hmt : tm.pc ≠ .mnTxR := fun hh => hL.txX hh hpc
      simp only [hmt, hpc] at l4
      simp [l4, hrep] at hd1

/-- **Nothing stays blocked** (one client): in a configuration of the invariant in which no thread can take
a step, the client's loop has ended, the prefetch thread has ended, and the server's own thread is parked
in `run_until_shutdown` (not notified) — it waits for a shutdown request, which nobody makes here. -/
theorem one_dead {g : Gen} {b : Nat} {c : Cfg} (hI : RLInv g b c) (hdead : ∀ tid, step c tid = none) :
    ∃ tm tc tp, c.ths = [tm, tc, tp] ∧ tm.pc = .mnWake ∧ c.sh.shutNotified.contains 0 = false ∧
      tc.pc = .done ∧ tp.pc = .done := by
  obtain ⟨tm, tc, otp, hths, hm, hprog, hns, hup, hcore, hL⟩ := hI
  obtain ⟨s, ths⟩ := c
  simp only at hths hns hup hcore hL
  subst hths
  have hd0 := hdead 0
  have hd1 := hdead 1
  have hd2 := hdead 2
  obtain ⟨tp, rfl, hcpc⟩ := client_dead hm hprog hns hup hcore hL hd0 hd1
  obtain ⟨hpp, hpg, hppc, hgen, henq, q0, hqs, hsp, hcl⟩ := hcore
  obtain ⟨p1, p2, p3, p4⟩ := hL.pq tp rfl
  obtain ⟨hv, hto⟩ := hL.live q0 hqs
  -- the prefetch thread has been scheduled at least once
  have hppc' : tp.pc = .prod ∨ tp.pc = .done := by
    rcases hppc with h | h | h
    · exfalso
      unfold step at hd2
      simp [h, hpp] at hd2
    · exact Or.inl h
    · exact Or.inr h
  -- neither embedded queue thread can step
  have hC1 : Queue.stepThread q0 (viewC b tc) 1 false = none := by
    rcases hcpc with h | h
    · have hg0 : tc.g = 0 := by unfold ClientC at hcl; simp only [h] at hcl; exact hcl.1
      have : viewC b tc = tc.qt := by simp [viewC, h]
      rw [this]
      exact step_nbGet_none (c := { sh := s, ths := [tm, tc, tp] }) (tid := 1) rfl h (by simp [hg0, hqs]) hd1
    · have : viewC b tc = doneC b := by simp [viewC, h]
      rw [this]; exact stepThread_done_none rfl
  have hP2 : Queue.stepThread q0 tp.qt 2 false = none := by
    rcases hppc' with h | h
    · exact step_prod_none (c := { sh := s, ths := [tm, tc, tp] }) (tid := 2) rfl h (by simp [hpg, hqs]) hd2
    · exact stepThread_done_none (p3 h)
  have hCkind : (viewC b tc).prog.kind = .batch := by
    rcases hcpc with h | h
    · have : viewC b tc = tc.qt := by simp [viewC, h]
      unfold ClientC at hcl; simp only [h] at hcl
      rw [this, hcl.2.1]; rfl
    · have : viewC b tc = doneC b := by simp [viewC, h]
      rw [this]; rfl
  have hCne : viewC b tc ≠ inertT := by
    intro hh; rw [hh] at hCkind; simp [inertT, Queue.Prog.kind] at hCkind
  by_cases hs : tp.qt.pc = .sAcq
  · -- the prefetch thread only waits for the state lock, whose owner could step
    exfalso
    have hview : view b q0 tc (some tp) = { sh := q0, ths := [inertT, viewC b tc] } := by
      simp [view, viewP, hs]
    rw [hview] at hv
    have hfree := (Queue.stuck_all_parked_inert hv.base.lock (by
      intro tid t ht
      match tid with
      | 0 => simp at ht; exact Or.inl ht.symm
      | 1 => simp at ht; subst ht; right; rw [hC1]; rfl
      | n + 2 => simp at ht)).1 .st
    unfold Queue.stepThread at hP2
    simp [hs, Queue.acquire, hfree] at hP2
  · have hview : view b q0 tc (some tp) = { sh := q0, ths := [inertT, viewC b tc, tp.qt] } := by
      simp [view, viewP, hs]
    rw [hview] at hv
    have hPprod : Queue.isProd tp.qt = true := by simp [Queue.isProd, hsp.prod.prog, Queue.Prog.kind]
    have hall := Queue.dead_all_done hv hto
      (fun _ => by
        show 0 < List.countP Queue.isProd [inertT, viewC b tc, tp.qt]
        simp only [List.countP_cons, hPprod, if_true]; omega)
      (Or.inr ⟨viewC b tc, by simp, by simp [Queue.isCons, hCkind]⟩)
      (by
        intro tid t ht
        match tid with
        | 0 => simp at ht; exact Or.inl ht.symm
        | 1 => simp at ht; subst ht; right; rw [hC1]; rfl
        | 2 => simp at ht; subst ht; right; rw [hP2]; rfl
        | n + 3 => simp at ht)
    have hCd : (viewC b tc).pc = .done := by
      rcases hall 1 (viewC b tc) rfl with h | h
      · exact absurd h hCne
      · exact h
    have hPd : tp.qt.pc = .done := by
      rcases hall 2 tp.qt rfl with h | h
      · rw [h] at hPprod; simp [inertT, Queue.isProd, Queue.Prog.kind] at hPprod
      · exact h
    have hcd : tc.pc = .done := by
      rcases hcpc with h | h
      · have : viewC b tc = tc.qt := by simp [viewC, h]
        rw [this] at hCd
        exact absurd hCd (hL.cq h)
      · exact h
    have hpd : tp.pc = .done := by
      rcases hppc' with h | h
      · exact absurd hPd (p4 h)
      · exact h
    -- the server's own thread
    have l2 := hL.shut
    have l4 := hL.tx
    have hmw : tm.pc = .mnWake := by
      by_cases hmw : tm.pc = .mnWake
      · exact hmw
      · exfalso
        refine main_enabled hm hL hmw ?_ ?_ hd0
        · intro hh; rw [l2]; simp [hh, mShut, hcd, cShut]
        · intro hh; rw [l4]; simp [hh, hcd]
    refine ⟨tm, tc, tp, rfl, hmw, ?_, hcd, hpd⟩
    have hso : s.shutOwner = none := by rw [l2]; simp [hmw, mShut, hcd, cShut]
    unfold step at hd0
    simp only [List.getElem?_cons_zero, hmw, hso] at hd0
    simpa using hd0

/-- `enabled c = []` means that no thread can take a step -/
theorem enabled_nil {c : Cfg} (h : enabled c = []) (tid : Queue.Tid) : step c tid = none := by
  rcases Nat.lt_or_ge tid c.ths.length with hlt | hge
  · cases hs : step c tid with
    | none => rfl
    | some r =>
      exfalso
      have : tid ∈ enabled c := by
        unfold enabled
        rw [List.mem_filter]
        exact ⟨List.mem_range.mpr hlt, by rw [hs]; rfl⟩
      rw [h] at this; cases this
  · exact step_none_of_getElem? (List.getElem?_eq_none hge)

end MlModel.Prefetch
