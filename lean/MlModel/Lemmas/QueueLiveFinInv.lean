import MlModel.Lemmas.QueueLiveFinal
/-!
# Liveness of the IteratorQueue LTS — invariants of fault-free runs over all reachable configurations
-/
namespace MlModel.Queue

theorem flatten_map_set {α β} [DecidableEq β] (f : α → List β) {l : List α} {i : Nat} {a b : α} (h : l[i]? = some a) :
    (((l.set i b).map f).flatten ++ f a).Perm ((l.map f).flatten ++ f b) := by
  induction l generalizing i with
  | nil => simp at h
  | cons x xs ih =>
    cases i with
    | zero =>
      simp only [List.getElem?_cons_zero, Option.some.injEq] at h
      subst h
      simp only [List.set_cons_zero, List.map_cons, List.flatten_cons]
      rw [List.perm_iff_count]; intro e; simp only [List.count_append]; omega
    | succ j =>
      simp only [List.getElem?_cons_succ] at h
      have := ih h
      simp only [List.set_cons_succ, List.map_cons, List.flatten_cons] at this ⊢
      rw [List.perm_iff_count] at this ⊢
      intro e; have := this e; simp only [List.count_append] at this ⊢; omega

/-- without exception and stop request, `enqueue_done` means that every producer has stopped -/
theorem all_pastT_of_done {c : Cfg} (hb : Base c) (hs : c.sh.stopRequested = false)
    (he : c.sh.exc = none) (hd : c.sh.enqueueDone = true) :
    ∀ t ∈ c.ths, isProd t = true → pastT t = true := by
  obtain ⟨e1, e2, e3⟩ := hb.cnt hs
  have hle1 : c.ths.countP pastT ≤ c.ths.countP pastS :=
    List.countP_mono_left (fun y _ h => pastT_pastS y h)
  have hle2 : c.ths.countP pastS ≤ c.ths.countP isProd :=
    List.countP_mono_left (fun y _ h => pastS_isProd y h)
  rw [enqueueDone_iff] at hd
  simp only [he, hs, Option.isSome_none, Bool.false_eq_true, false_or] at hd
  obtain ⟨h1, h2, h3⟩ := hd
  intro t ht hp
  cases hpt : pastT t with
  | true => rfl
  | false =>
    have := countP_lt_of pastT isProd pastT_isProd ht hp hpt
    omega

theorem armedX_armed (t : Thread) (h : armedX t = true) : armed t = true := by
  unfold armedX at h; unfold armed
  cases hp : t.pc <;> simp_all

theorem pend_isProd (t : Thread) (htok : TOK t) (hp : pendPc t.pc = true) :
    isProd t = true ∧ pastT t = false := by
  have hk := htok.kind
  cases hpc : t.pc <;> simp_all [pendPc, pcKind, isProd, pastT]

structure Fin (c : Cfg) : Prop where
  exc : c.sh.exc = none
  sr : c.sh.stopRequested = false
  ct : ∀ t ∈ c.ths, CT t
  ax : ∀ t ∈ c.ths, (armedX t = true → t.x = c.sh.final) ∧
    (t.pc = .done → isCons t = true → t.outcome = some c.sh.final)
  ret : c.sh.returned.Perm (c.ths.map retOf).flatten
  qe : c.sh.exhausted = true → c.sh.q = []
  lost : c.sh.lost = []
  prod : ∀ (tid : Tid) (t : Thread) (src : List Item) (r : Nat), c.ths[tid]? = some t →
    t.prog = .producer src r → producedBy tid c.sh.produced ++ todoV t = vals src

theorem fin_init (cap maxEnq : Nat) (to ig : Bool) (progs : List Prog)
    (hnf : ∀ p ∈ progs, p.noFail = true) (hns : ∀ p ∈ progs, p.isStopper = false) :
    Fin (init cap maxEnq to ig progs) := by
  have hth : ∀ t ∈ (init cap maxEnq to ig progs).ths, ∃ p ∈ progs, t = { prog := p } := by
    intro t ht
    simp only [init, List.mem_map] at ht
    obtain ⟨p, hp, rfl⟩ := ht; exact ⟨p, hp, rfl⟩
  refine ⟨rfl, rfl, ?_, ?_, ?_, ?_, rfl, ?_⟩
  · intro t ht; obtain ⟨p, hp, rfl⟩ := hth t ht
    have h1 := hnf p hp; have h2 := hns p hp
    refine ⟨by simp [noFail], h1, ?_, by simp, by simp [stopped, stoppedOf], by simp [stopped, stoppedOf], by simp,
      rfl, by simp⟩
    intro hk; simp [Prog.isStopper, hk] at h2
  · intro t ht; obtain ⟨p, hp, rfl⟩ := hth t ht
    simp [armedX]
  · have : ((init cap maxEnq to ig progs).ths.map retOf).flatten = [] := by
      simp only [List.flatten_eq_nil_iff, List.mem_map]
      rintro l ⟨t, ht, rfl⟩
      obtain ⟨p, _, rfl⟩ := hth t ht
      simp [retOf, pastT]
    rw [this]; simp [init]
  · intro h; simp [init] at h
  · intro tid t src r ht hp
    simp only [init, List.getElem?_map, Option.map_eq_some_iff] at ht
    obtain ⟨p, _, rfl⟩ := ht
    simp only at hp
    subst hp
    simp [init, producedBy, todoV]

theorem fin_step {c c' : Cfg} {tid alt lbl} (hb : Base c) (hpi : ProdInv c) (hto : c.sh.timeout = false)
    (hf : Fin c) (h : step c tid alt = some (lbl, c')) : Fin c' := by
  obtain ⟨t, s', t', ht, hst, rfl⟩ := step_inv h
  have htid : tid < c.ths.length := (List.getElem?_eq_some_iff.mp ht).1
  have htm : t ∈ c.ths := List.mem_of_getElem? ht
  have htok := hb.tok t htm
  have htl := hb.tl t htm
  have hx := hb.xok t htm
  have hk := htok.kind
  have hx3 : (match t.pc with | .nRelErr _ => true | _ => false) = true → t.x.isErr = true →
      c.sh.exc.isSome = true := by
    intro h1 h2
    have h3 : (match t.pc with | .nRelErr _ | .gRaise | .bRaise => true | _ => false) = true := by
      cases hp : t.pc <;> simp_all
    rcases hx.2.2.1 h3 h2 with h | h
    · exact h
    · rw [hto] at h; cases h
  have hallT := all_pastT_of_done hb hf.sr hf.exc
  -- a producer that has not stopped cannot step while `enqueue_done` holds
  have hnotdone : isProd t = true → pastT t = false → c.sh.enqueueDone = false := by
    intro h1 h2
    cases hd : c.sh.enqueueDone with
    | false => rfl
    | true => rw [hallT hd t htm h1] at h2; cases h2
  obtain ⟨e1, e2, hct'⟩ := stepThread_clean lbl s' t' hst htok htl hf.exc hf.sr hto hx3 (hf.ct t htm)
  obtain ⟨r1, r2, r3, r4, r5, r6⟩ := stepThread_sh lbl s' t' hst htok htl hf.exc hto (hf.ct t htm)
    (hf.ax t htm).1 hf.lost hf.qe
  obtain ⟨f1, f2, f3, f4, f5, f6, f7⟩ := stepThread_f lbl s' t' hst
  obtain ⟨_, hprog, _, _, hpr, _, _⟩ := stepThread_data lbl s' t' hst htok
  have hprodT : ∀ pc, t.pc = pc → pcKind pc = some .producer → isProd t = true := by
    intro pc h1 h2
    have := hk .producer (by rw [h1]; exact h2)
    simp [isProd, this]
  refine ⟨e1, e2, ?_, ?_, ?_, ?_, r5, ?_⟩
  · intro u hu
    rcases List.mem_or_eq_of_mem_set hu with hu | rfl
    · exact hf.ct u hu
    · exact hct'
  · -- final exception of armed consumers
    intro u hu
    rcases List.mem_or_eq_of_mem_set hu with hu | rfl
    · by_cases hT : t.pc = .tAcq
      · -- no consumer is armed while a producer is about to stop
        have hnoarm : armed u = false := by
          cases ha : armed u with
          | false => rfl
          | true =>
            exfalso
            rcases (hb.xok u hu).2.2.2.2.1 ha with h1 | h1
            · have hd := hb.i3 h1
              have := hnotdone (hprodT _ hT rfl) (by simp [pastT, hT])
              rw [hd] at this; cases this
            · rw [hto] at h1; cases h1
        constructor
        · intro ha; rw [armedX_armed u ha] at hnoarm; cases hnoarm
        · intro hd hc
          have : armed u = true := by unfold armed; rw [hd]; exact hc
          rw [this] at hnoarm; cases hnoarm
      · have hfin : s'.final = c.sh.final := by
          rw [final_eq, final_eq, e1, hf.exc, r1]; simp [hT]
        show (armedX u = true → u.x = s'.final) ∧ (u.pc = .done → isCons u = true → u.outcome = some s'.final)
        rw [hfin]; exact hf.ax u hu
    · exact ⟨r3, r4⟩
  · -- returned
    show s'.returned.Perm ((c.ths.set tid t').map retOf).flatten
    have hp := flatten_map_set retOf (b := t') ht
    have h0 := hf.ret
    rw [r1]
    by_cases hT : t.pc = .tAcq
    · have h1 : retOf t = [] := by simp [retOf, pastT, hT]
      simp only [hT, if_true] at r2 ⊢
      rw [h1, r2, List.append_nil] at hp
      exact (List.Perm.append_right _ h0).trans hp.symm
    · simp only [hT, if_false, List.append_nil] at r2 ⊢
      rw [r2] at hp
      exact h0.trans ((List.perm_append_right_iff _).mp hp).symm
  · -- exhausted ⇒ queue empty
    rcases r6 with h1 | h1
    · exact h1
    · intro he
      exfalso
      change s'.exhausted = true at he
      have hd : c.sh.enqueueDone = true := by
        rcases f6 he with h2 | h2 | h2
        · exact hb.i3 h2
        · exact h2
        · rw [h1] at h2; cases h2
      have := hnotdone (hprodT _ h1 rfl) (by simp [pastT, h1])
      rw [hd] at this; cases this
  · -- nothing dropped by producers
    obtain ⟨_, hnew, _⟩ := stepThread_prod lbl s' t' hst htok (hpi.tag tid t ht)
    have hnd : pendPc t.pc = true → c.sh.enqueueDone = false := by
      intro hp
      obtain ⟨h1, h2⟩ := pend_isProd t htok hp
      exact hnotdone h1 h2
    have heq := stepThread_prodeq lbl s' t' hst htok hto hnd
    intro u tu src r hu hpu
    show producedBy u s'.produced ++ todoV tu = vals src
    rw [hpr, producedBy_append]
    by_cases hut : u = tid
    · subst hut
      simp only [List.getElem?_set_self htid, Option.some.injEq] at hu
      subst hu
      rw [producedBy_all hnew, List.append_assoc, heq]
      rw [hprog] at hpu
      exact hf.prod u t src r ht hpu
    · rw [List.getElem?_set_ne (Ne.symm hut)] at hu
      rw [producedBy_none hnew hut, List.append_nil]
      exact hf.prod u tu src r hu hpu

theorem fin_reachable {cap maxEnq : Nat} {ig : Bool} {progs : List Prog} {c : Cfg}
    (hwf : WF_enq maxEnq progs) (hnf : ∀ p ∈ progs, p.noFail = true)
    (hns : ∀ p ∈ progs, p.isStopper = false)
    (h : Reachable (init cap maxEnq false ig progs) c) : Fin c := by
  induction h with
  | init => exact fin_init cap maxEnq false ig progs hnf hns
  | step hr hs ih =>
    exact fin_step (base_reachable (base_init cap maxEnq false ig progs hwf) hr)
      (prodInv_reachable (dataInv_init cap maxEnq false ig progs) (prodInv_init cap maxEnq false ig progs) hr)
      (timeout_reachable hr) ih hs

end MlModel.Queue
