import MlModel.Lemmas.PipeSource
import MlModel.Lemmas.PipeBatch
/-!
# `assign(..., batch_size = b)` on an ALIGNED stream (package FX12)

`Assign.iterate` zips the outputs of `TreeFn._iterate` — which end in the `rebatched_args(…, batch_size)`
*generator* — with the un-re-batched inputs (`processed_with_inputs`).  That pairing is right exactly when
the re-batcher hands every batch on as it came: every call result has exactly `b` rows (the last one
`1..b`).  Then the buffer of the generator is empty between two calls (`step_init_full`), the `j`-th
output is produced while exactly `j` inputs are in the `_TeeIterator` FIFO (the `used` annotations of
`Impl.rebatchGen`), a short last batch is flushed when the source is exhausted (`used = endUsed`) and
finds its own input as the one record left in the FIFO — and the operator is the per-record reference
`Ref.opEvents` (each record gets the columns computed from its own rows).  Everything else is finding
F-C08-assign-rebatch = F-C19-assign (`Witness/C08.lean`, `Witness/C19.lean`).
-/
set_option linter.unusedSimpArgs false
set_option linter.unusedVariables false

namespace MlModel.Rebatch
variable {α : Type}

theorem zipWith_replicate_nil (n : Nat) (b : Batch α) (h : b.length = n) :
    List.zipWith (fun chunks c => chunks ++ [c]) (List.replicate n ([] : List (Col α))) b = b.map fun c => [c] := by
  induction b generalizing n with
  | nil => simp
  | cons c cs ih =>
    cases n with
    | zero => simp at h
    | succ n => simp [List.replicate_succ, ih n (by simpa using h)]

theorem push_init_concatT {nc : Nat} (b : Batch α) (h : b.length = nc) :
    (push (St.init nc) b).buf.map concatT = b := by
  simp only [push, St.init, zipWith_replicate_nil nc b h, List.map_map]
  conv => rhs; rw [← List.map_id b]
  apply List.map_congr_left
  intro c _
  simp [concatT]

theorem sliceAt_zero_of_le (t : Nat) (b : Batch α) (h : ∀ c ∈ b, c.rows.length ≤ t) : sliceAt t b 0 = b := by
  simp only [sliceAt, Nat.zero_mul, List.drop_zero]
  conv => rhs; rw [← List.map_id b]
  apply List.map_congr_left
  intro c hc
  simp [List.take_of_length_le (h c hc)]

/-- a batch of exactly `t` rows goes straight through an empty buffer and leaves it empty -/
theorem step_init_full {t nc : Nat} (ht : 0 < t) (hnc : 0 < nc) {b : Batch α} (hb : Rect nc t b) :
    step t nc none (St.init nc) b = .ok (St.init nc, [b]) := by
  rw [step_eq (Shape.init nc) hb hnc]
  have hsh : Shape nc t (push (St.init nc) b) := by simpa using push_shape (Shape.init nc) hb
  rw [flush_go hsh hnc ht ht none false (Or.inl (Nat.le_refl t))]
  have hK : nsl t t - 1 = 0 := by rw [nsl_of_lt ht (Nat.le_refl t)]
  have hsl : sliceAt t ((push (St.init nc) b).buf.map concatT) 0 = b := by
    rw [push_init_concatT b hb.1]
    exact sliceAt_zero_of_le t b fun c hc => by rw [(hb.2 c hc).2]; exact Nat.le_refl t
  simp [hK, hsl]

/-- a batch of fewer than `t` rows stays in the buffer -/
theorem step_init_short {t nc r : Nat} (hnc : 0 < nc) (hr : r < t) {b : Batch α} (hb : Rect nc r b) :
    step t nc none (St.init nc) b = .ok (push (St.init nc) b, []) := by
  rw [step_eq (Shape.init nc) hb hnc]
  have hsh : Shape nc r (push (St.init nc) b) := by simpa using push_shape (Shape.init nc) hb
  exact flush_noop hsh hnc none false (Or.inr ⟨hr, rfl⟩)

/-- ... and is flushed, as it came, when the source is exhausted -/
theorem finish_push_short {t nc r : Nat} (ht : 0 < t) (hnc : 0 < nc) (hr0 : 0 < r) (hr : r < t)
    {b : Batch α} (hb : Rect nc r b) :
    finish t none (push (St.init nc) b) = .ok [b] := by
  have hsh : Shape nc r (push (St.init nc) b) := by simpa using push_shape (Shape.init nc) hb
  unfold finish
  rw [flush_go hsh hnc ht hr0 none true (Or.inr rfl)]
  have hK : nsl t r - 1 = 0 := by rw [nsl_of_lt hr0 (by omega)]
  have hne : ¬ r = (0 + 1) * t := by omega
  have hsl : sliceAt t ((push (St.init nc) b).buf.map concatT) 0 = b := by
    rw [push_init_concatT b hb.1]
    exact sliceAt_zero_of_le t b fun c hc => by rw [(hb.2 c hc).2]; omega
  simp [hK, hne, hsl, bind, Except.bind, pure, Except.pure]

theorem finish_init {t nc : Nat} (hnc : 0 < nc) : finish t (none : Option α) (St.init nc) = .ok [] := by
  unfold finish
  rw [flush_noop (Shape.init nc) hnc none true (Or.inl rfl)]
  rfl

end MlModel.Rebatch

namespace MlModel.Pipe
open MlModel.Iter

/-! ## vocabulary of `C08_assign_batched_aligned_partial` -/

/-- **aligned**: every call result is a batch of `nc` columns (`list` / `tuple`) of exactly `t` rows; the
LAST one of a stream that ends normally may have fewer (`1..t`); the error the stream breaks off with
(if any) ends the run (with skipping on: it is not a skippable one — a failing call that is skipped in
front of the `rebatched_args` generator is finding F5). -/
def AlignedCalls (ignore : Bool) (t nc : Nat) : List (Ev (List Val)) → Prop
  | [] => True
  | .error e :: _ => terminal ignore e = true
  | [.ok cols] => ∃ r, 0 < r ∧ r ≤ t ∧ Rebatch.Rect nc r (Ref.asBatch cols)
  | .ok cols :: y :: ys => Rebatch.Rect nc t (Ref.asBatch cols) ∧ AlignedCalls ignore t nc (y :: ys)

theorem fullColsB_sound {nc r : Nat} {cols : List Val} (h : Ref.fullColsB nc r cols = true) :
    Rebatch.Rect nc r (Ref.asBatch cols) := by
  simp only [Ref.fullColsB, Bool.and_eq_true, beq_iff_eq, List.all_eq_true] at h
  refine ⟨by simpa [Ref.asBatch] using h.1, ?_⟩
  intro c hc
  simp only [Ref.asBatch, List.mem_map] at hc
  obtain ⟨v, hv, rfl⟩ := hc
  have := h.2 v hv
  cases v <;> simp_all [Ref.asCol]

/-- the Boolean form in the model (`Ref.alignedCallsB`, evaluated by the driver and the examples) is sound -/
theorem alignedCallsB_sound (ignore : Bool) (t nc : Nat) (l : List (Ev (List Val)))
    (h : Ref.alignedCallsB ignore t nc l = true) : AlignedCalls ignore t nc l := by
  induction l with
  | nil => trivial
  | cons ev rest ih =>
    cases ev with
    | error e => simpa [Ref.alignedCallsB, AlignedCalls] using h
    | ok cols =>
      cases rest with
      | nil =>
        simp only [Ref.alignedCallsB, Bool.and_eq_true, decide_eq_true_eq] at h
        exact ⟨_, h.1.1, h.1.2, fullColsB_sound h.2⟩
      | cons y ys =>
        simp only [Ref.alignedCallsB, Bool.and_eq_true] at h
        exact ⟨fullColsB_sound h.1, ih h.2⟩

/-! ## the `rebatched_args` generator on an empty buffer -/

theorem ofCol_asBatch {nc r : Nat} {cols : List Val} (h : Rebatch.Rect nc r (Ref.asBatch cols)) :
    (Ref.asBatch cols).map Impl.ofCol = cols := by
  simp only [Ref.asBatch, List.map_map]
  conv => rhs; rw [← List.map_id cols]
  apply List.map_congr_left
  intro c hc
  have := (h.2 (Ref.asCol c) (by simp [Ref.asBatch]; exact ⟨c, hc, rfl⟩)).1
  cases c <;> simp_all [Ref.asCol, Impl.ofCol]

theorem toCols_of_rect {nc r : Nat} {cols : List Val} (h : Rebatch.Rect nc r (Ref.asBatch cols)) :
    (if cols.length != nc then (.error .value : Except ErrKind (Rebatch.Batch Val)) else cols.mapM Impl.toCol)
      = .ok (Ref.asBatch cols) := by
  have := toBatch_of_rect h
  simpa [toBatch] using this

theorem rebatchGen_init_nil {t nc : Nat} (hnc : 0 < nc) (E : Nat) :
    Impl.rebatchGen t nc (Rebatch.St.init nc) [] E = ⟨[], E⟩ := by
  simp [Impl.rebatchGen, Rebatch.finish_init hnc]

theorem rebatchGen_error (t nc : Nat) (st : Rebatch.St Val) (e : Err) (u : Nat)
    (rest : List (Impl.AEv (List Val))) (E : Nat) :
    Impl.rebatchGen t nc st (⟨.error e, u⟩ :: rest) E = ⟨[⟨.error e, u⟩], u⟩ := by
  simp [Impl.rebatchGen]

/-- a batch of exactly `t` rows is handed on at once, with the `used` it came with, and the buffer is
empty again -/
theorem rebatchGen_init_full {t nc : Nat} (ht : 0 < t) (hnc : 0 < nc) {cols : List Val}
    (h : Rebatch.Rect nc t (Ref.asBatch cols)) (u : Nat) (rest : List (Impl.AEv (List Val))) (E : Nat) :
    Impl.rebatchGen t nc (Rebatch.St.init nc) (⟨.ok cols, u⟩ :: rest) E
      = ⟨⟨.ok cols, u⟩ :: (Impl.rebatchGen t nc (Rebatch.St.init nc) rest E).evs,
         (Impl.rebatchGen t nc (Rebatch.St.init nc) rest E).endUsed⟩ := by
  have hnc' : ¬ nc = 0 := by omega
  simp only [Impl.rebatchGen, hnc', if_false, toCols_of_rect h, bind, Except.bind,
    Rebatch.step_init_full ht hnc h, List.map_cons, List.map_nil, ofCol_asBatch h,
    List.cons_append, List.nil_append]

/-- a shorter LAST batch is held back and handed on when the source is exhausted (`used = endUsed`) -/
theorem rebatchGen_init_short_last {t nc r : Nat} (ht : 0 < t) (hnc : 0 < nc) (hr0 : 0 < r) (hr : r < t)
    {cols : List Val} (h : Rebatch.Rect nc r (Ref.asBatch cols)) (u E : Nat) :
    Impl.rebatchGen t nc (Rebatch.St.init nc) [⟨.ok cols, u⟩] E = ⟨[⟨.ok cols, E⟩], E⟩ := by
  have hnc' : ¬ nc = 0 := by omega
  simp only [Impl.rebatchGen, hnc', if_false, toCols_of_rect h, bind, Except.bind,
    Rebatch.step_init_short hnc hr h, Rebatch.finish_push_short ht hnc hr0 hr h, List.map_cons, List.map_nil,
    ofCol_asBatch h, List.nil_append]

/-! ## `processed_with_inputs` over the re-batcher on an aligned stream -/

theorem callOuts_eq_nil {op : Op} {s : Nat} {l : List (Ev Val)} (h : Ref.callOuts op s l = []) : l = [] := by
  cases l with
  | nil => rfl
  | cons ev rest =>
    cases ev with
    | error e => simp [Ref.callOuts] at h
    | ok r =>
      simp only [Ref.callOuts] at h
      split at h <;> simp at h

/-- nothing but skippable failing reads is left: the operator's inner iterator has no more events -/
theorem innerEvsT_nil_of_skipNT (ignore : Bool) (op : Op) (s k : Nat) (rest : List (Ev Val))
    (h : Ref.skipNT ignore rest = []) : innerEvsT ignore op s k (cutTerminal ignore rest) = [] := by
  induction rest generalizing k with
  | nil => simp [cutTerminal, innerEvsT]
  | cons ev rest ih =>
    cases ev with
    | ok a => simp [Ref.skipNT] at h
    | error e =>
      by_cases ht : terminal ignore e = true
      · simp [Ref.skipNT, ht] at h
      · simp only [Ref.skipNT, ht, Bool.false_eq_true, if_false] at h
        simp [cutTerminal, ht, innerEvsT, skip_of_not_terminal ht, ih (k + 1) h]

theorem countOk_le_append (a b : List (Ev Val)) : Impl.countOk a ≤ Impl.countOk (a ++ b) := by
  rw [countOk_append]; omega

/-- **the core**: `processed_with_inputs` over `rebatched_args(…, batch_size = t)` over the un-batched
layers, on an aligned stream, then the resumable map `g` — is the per-record reference.  Invariant of
the induction: the buffer of the re-batcher is empty (`St.init`) and the FIFO of the tee is empty
(`popped = countOk pre`) in front of every record. -/
theorem aligned_core (ignore : Bool) (op : Op) (t : Nat) (ht : 0 < t) (hnc : 0 < op.outKeys.length)
    (g : List Val × Val → Ev Val)
    (hg : ∀ r v, Ref.semWrite op r v = (g (normOuts op v, r)).map some)
    (s : Nat) (pre suf : List (Ev Val)) (E : Nat)
    (hE : (pre ++ cutTerminal ignore suf).length < E)
    (hal : AlignedCalls ignore t op.outKeys.length (Ref.callOuts op s (Ref.skipNT ignore suf))) :
    (Impl.aCut ignore (Impl.aMap g
        (Impl.pwi ignore (pre ++ cutTerminal ignore suf) (Impl.countOk pre)
          (Impl.rebatchGen t op.outKeys.length (Rebatch.St.init op.outKeys.length)
            (innerEvsT ignore op s pre.length (cutTerminal ignore suf)) E).evs))).map (·.ev)
      = Ref.opEvents ignore op s (Ref.skipNT ignore suf) := by
  induction suf generalizing pre s with
  | nil =>
    simp [cutTerminal, innerEvsT, rebatchGen_init_nil hnc, Impl.pwi, Impl.aMap, Impl.aCut, Ref.skipNT, Ref.opEvents]
  | cons ev rest ih =>
    cases ev with
    | error e =>
      by_cases hterm : terminal ignore e = true
      · simp [cutTerminal, hterm, innerEvsT, not_skip_of_terminal hterm, rebatchGen_error, Impl.pwi,
          Impl.aMap, Impl.aCut, Ref.skipNT, Ref.opEvents]
      · have hpre : pre ++ Except.error e :: cutTerminal ignore rest
            = (pre ++ [Except.error e]) ++ cutTerminal ignore rest := by simp
        have hc : Impl.countOk (pre ++ [Except.error e]) = Impl.countOk pre := by
          simp [countOk_append, Impl.countOk]
        have hl' : (pre ++ [Except.error e]).length = pre.length + 1 := by simp
        have hE' : ((pre ++ [Except.error e]) ++ cutTerminal ignore rest).length < E := by
          simpa [cutTerminal, hterm] using hE
        have hal' : AlignedCalls ignore t op.outKeys.length (Ref.callOuts op s (Ref.skipNT ignore rest)) := by
          simpa [Ref.skipNT, hterm] using hal
        have ih' := ih s (pre ++ [Except.error e]) hE' hal'
        rw [hc, hl'] at ih'
        simp only [cutTerminal, hterm, Bool.false_eq_true, if_false, innerEvsT, skip_of_not_terminal hterm,
          if_true, Ref.skipNT, hpre]
        exact ih'
    | ok r =>
      have hpre : pre ++ Except.ok r :: cutTerminal ignore rest
          = (pre ++ [Except.ok r]) ++ cutTerminal ignore rest := by simp
      have hc : Impl.countOk (pre ++ [Except.ok r]) = Impl.countOk pre + 1 := by
        simp [countOk_append, Impl.countOk]
      have hl' : (pre ++ [Except.ok r]).length = pre.length + 1 := by simp
      have hE' : ((pre ++ [Except.ok r]) ++ cutTerminal ignore rest).length < E := by
        simpa [cutTerminal] using hE
      have htake : (pre ++ Except.ok r :: cutTerminal ignore rest).take (pre.length + 1) = pre ++ [Except.ok r] :=
        take_append_succ pre _ _
      rcases hs : Ref.semCall op s r with ⟨res, s'⟩
      cases res with
      | error e =>
        have h1 : inner1 op s r = (.error e, s') := by simp [inner1, hs]
        have hterm : terminal ignore e = true := by
          simpa [Ref.skipNT, Ref.callOuts, hs, AlignedCalls] using hal
        simp [cutTerminal, innerEvsT, h1, rebatchGen_error, Impl.pwi, not_skip_of_terminal hterm,
          Impl.aMap, Impl.aCut, Ref.skipNT, Ref.opEvents, hs, hterm]
      | ok v =>
        have h1 : inner1 op s r = (.ok (normOuts op v), s') := by simp [inner1, hs]
        have hw := hg r v
        have hco : Ref.callOuts op s (Ref.skipNT ignore (Except.ok r :: rest))
            = .ok (normOuts op v) :: Ref.callOuts op s' (Ref.skipNT ignore rest) := by
          simp [Ref.skipNT, Ref.callOuts, hs]
        rw [hco] at hal
        cases hrest : Ref.callOuts op s' (Ref.skipNT ignore rest) with
        | nil =>
          -- the last call of the stream
          have hsk : Ref.skipNT ignore rest = [] := callOuts_eq_nil hrest
          have hin : innerEvsT ignore op s' (pre.length + 1) (cutTerminal ignore rest) = [] :=
            innerEvsT_nil_of_skipNT ignore op s' _ rest hsk
          rw [hrest] at hal
          obtain ⟨rr, hr0, hrt, hrect⟩ := hal
          have hgetD : (oks (pre ++ Except.ok r :: cutTerminal ignore rest))[Impl.countOk pre]?.getD Val.none = r :=
            oks_getElem_mid pre _ r
          by_cases hfull : rr = t
          · subst hfull
            cases hgr : g (normOuts op v, r) with
            | error e =>
              by_cases hte : terminal ignore e = true
              · simp [cutTerminal, innerEvsT, h1, hin, rebatchGen_init_full ht hnc hrect, rebatchGen_init_nil hnc,
                  Impl.pwi, htake, hc, hgetD, Impl.aMap, Impl.aCut, hgr, hte, Ref.skipNT, hsk, Ref.opEvents, hs, hw,
                  Except.map]
              · simp [cutTerminal, innerEvsT, h1, hin, rebatchGen_init_full ht hnc hrect, rebatchGen_init_nil hnc,
                  Impl.pwi, htake, hc, hgetD, Impl.aMap, Impl.aCut, hgr, hte, Ref.skipNT, hsk, Ref.opEvents, hs, hw,
                  Except.map]
            | ok x =>
              simp [cutTerminal, innerEvsT, h1, hin, rebatchGen_init_full ht hnc hrect, rebatchGen_init_nil hnc,
                Impl.pwi, htake, hc, hgetD, Impl.aMap, Impl.aCut, hgr, Ref.skipNT, hsk, Ref.opEvents, hs, hw,
                Except.map]
          · have hlt : rr < t := by omega
            have htakeE : (pre ++ Except.ok r :: cutTerminal ignore rest).take E
                = pre ++ Except.ok r :: cutTerminal ignore rest :=
              List.take_of_length_le (by simp only [cutTerminal] at hE; omega)
            have hcE : Impl.countOk pre < Impl.countOk (pre ++ Except.ok r :: cutTerminal ignore rest) := by
              rw [hpre, countOk_append, hc]; omega
            cases hgr : g (normOuts op v, r) with
            | error e =>
              by_cases hte : terminal ignore e = true
              · simp [cutTerminal, innerEvsT, h1, hin, rebatchGen_init_short_last ht hnc hr0 hlt hrect,
                  Impl.pwi, htakeE, hcE, hgetD, Impl.aMap, Impl.aCut, hgr, hte, Ref.skipNT, hsk, Ref.opEvents, hs, hw,
                  Except.map]
              · simp [cutTerminal, innerEvsT, h1, hin, rebatchGen_init_short_last ht hnc hr0 hlt hrect,
                  Impl.pwi, htakeE, hcE, hgetD, Impl.aMap, Impl.aCut, hgr, hte, Ref.skipNT, hsk, Ref.opEvents, hs, hw,
                  Except.map]
            | ok x =>
              simp [cutTerminal, innerEvsT, h1, hin, rebatchGen_init_short_last ht hnc hr0 hlt hrect,
                Impl.pwi, htakeE, hcE, hgetD, Impl.aMap, Impl.aCut, hgr, Ref.skipNT, hsk, Ref.opEvents, hs, hw,
                Except.map]
        | cons y ys =>
          rw [hrest] at hal
          obtain ⟨hrect, hal'⟩ := hal
          rw [← hrest] at hal'
          have ih' := ih s' (pre ++ [Except.ok r]) hE' hal'
          rw [hc, hl'] at ih'
          have hgetD : (oks (pre ++ Except.ok r :: cutTerminal ignore rest))[Impl.countOk pre]?.getD Val.none = r :=
            oks_getElem_mid pre _ r
          cases hgr : g (normOuts op v, r) with
          | error e =>
            by_cases hte : terminal ignore e = true
            · simp [cutTerminal, innerEvsT, h1, rebatchGen_init_full ht hnc hrect,
                Impl.pwi, htake, hc, hgetD, Impl.aMap, Impl.aCut, hgr, hte, Ref.skipNT, Ref.opEvents, hs, hw,
                Except.map]
            · simp only [cutTerminal, innerEvsT, h1, rebatchGen_init_full ht hnc hrect,
                Impl.pwi, htake, hc, Nat.lt_add_one, if_true, hgetD, List.getD_eq_getElem?_getD, Impl.aMap, Impl.aCut, hgr, hte,
                Ref.skipNT, Ref.opEvents, hs, hw, Except.map, Bool.false_eq_true, if_false, List.map_cons]
              rw [← hpre] at ih'
              simp [ih']
          | ok x =>
            simp only [cutTerminal, innerEvsT, h1, rebatchGen_init_full ht hnc hrect,
              Impl.pwi, htake, hc, Nat.lt_add_one, if_true, hgetD, List.getD_eq_getElem?_getD, Impl.aMap, Impl.aCut, hgr,
              Ref.skipNT, Ref.opEvents, hs, hw, Except.map, List.map_cons]
            rw [← hpre] at ih'
            simp [ih']

/-! ## operator level -/

/-- what `C08_assign_batched_aligned_partial` assumes of an `assign` with `batch_size` on the stream `src` -/
structure AssignAlignedOK (ignore : Bool) (op : Op) (src : List (Ev Val)) : Prop where
  kind : op.kind = .assign
  /-- no `fn_batch_size`: the function is called once per incoming record -/
  fnBatch : op.fnBatch = 0
  batch : 0 < op.batch
  /-- `Assign.__post_init__`: an `assign` has output keys -/
  nout : 0 < op.outKeys.length
  selfAlone : SelfAlone op
  /-- every call result is a batch of exactly `batch_size` rows, the last one `1..batch_size`; no failing
  call is skipped -/
  aligned : AlignedCalls ignore op.batch op.outKeys.length (Ref.callOuts op op.s0 (Ref.skipNT ignore src))

theorem iterate_batchOnly (skip : Bool) (op : Op) (hfb : op.fnBatch = 0) (hb : op.batch ≠ 0)
    (k e : Nat) (src : List (Ev Val)) :
    Impl.iterate false op ⟨Impl.annotSkip skip k src, e⟩
      = Impl.rebatchGen op.batch op.outKeys.length (Rebatch.St.init op.outKeys.length)
          (innerEvsT skip op op.s0 k src) e := by
  unfold Impl.iterate Impl.maybeRebatch
  simp only [hfb, hb, if_true, if_false, Bool.false_eq_true, layers_unbatchedT skip op op.s0 k src]

theorem opIterate_assign_aligned (ignore : Bool) (op : Op) (src : List (Ev Val))
    (h : AssignAlignedOK ignore op src) :
    (Impl.opIterate ignore op src).evs.map (·.ev) = Ref.opEvents ignore op op.s0 (Ref.skipNT ignore src) := by
  have hb : op.batch ≠ 0 := by have := h.batch; omega
  unfold Impl.opIterate
  simp only [h.kind, Impl.passedOnFixed, Bool.and_true, iterate_batchOnly _ op h.fnBatch hb]
  have := aligned_core ignore op op.batch h.batch h.nout
    (fun p => liftErr (getOutputs op p.2 p.1))
    (by intro r v; simp [Ref.semWrite, h.kind, getOutputs_normOuts op h.selfAlone])
    op.s0 [] src ((cutTerminal ignore src).length + 1) (by simp) h.aligned
  simpa [Impl.countOk] using this

/-- chains of un-batched operators (`OpOK`) and aligned `assign`s with `batch_size` -/
def RunOKA (ignore : Bool) : List Op → List (Ev Val) → Prop
  | [], _ => True
  | op :: ops, evs =>
    (OpOK op ∨ AssignAlignedOK ignore op evs) ∧
      RunOKA ignore ops (Ref.opEvents ignore op op.s0 (Ref.skipNT ignore evs))

theorem topEventsA_spec (ignore : Bool) (ops : List Op) (src : List (Ev Val)) (h : RunOKA ignore ops src) :
    Impl.topEvents ignore ops src = Ref.chainEventsS ignore ops src := by
  induction ops generalizing src with
  | nil => rfl
  | cons op ops ih =>
    obtain ⟨hop, hrest⟩ := h
    have hev : (Impl.opIterate ignore op src).evs.map (·.ev)
        = Ref.opEvents ignore op op.s0 (Ref.skipNT ignore src) := by
      rcases hop with hop | hop
      · exact opIterate_src_spec ignore op hop src
      · exact opIterate_assign_aligned ignore op src hop
    simp only [Impl.topEvents, Ref.chainEventsS, hev]
    exact ih _ hrest

/-! ## the Boolean side conditions the driver evaluates imply the hypotheses of the theorems -/

theorem selfAloneB_sound {op : Op} (h : Ref.selfAloneB op = true) : SelfAlone op := by
  intro k k' rest hk
  simpa [Ref.selfAloneB, hk] using h

theorem assignAlignedOKB_sound (ignore : Bool) (op : Op) (src : List (Ev Val))
    (h : Ref.assignAlignedOKB ignore op src = true) : AssignAlignedOK ignore op src := by
  simp only [Ref.assignAlignedOKB, Bool.and_eq_true, beq_iff_eq, decide_eq_true_eq] at h
  obtain ⟨⟨⟨⟨⟨hk, hfb⟩, hb⟩, hn⟩, hs⟩, hal⟩ := h
  exact ⟨hk, hfb, hb, hn, selfAloneB_sound hs, alignedCallsB_sound _ _ _ _ hal⟩

/-- `Ref.runOKAB` (what the driver reports as `refa_ok`) and "no predicate returns a tuple" give `RunOKA` -/
theorem runOKAB_sound (ignore : Bool) (ops : List Op) (hpred : ∀ op ∈ ops, op.kind = .filter → NoTuple op)
    (src : List (Ev Val)) (h : Ref.runOKAB ignore ops src = true) : RunOKA ignore ops src := by
  induction ops generalizing src with
  | nil => trivial
  | cons op ops ih =>
    simp only [Ref.runOKAB, Bool.and_eq_true, Bool.or_eq_true, beq_iff_eq] at h
    refine ⟨?_, ih (fun o ho => hpred o (List.mem_cons_of_mem _ ho)) _ h.2⟩
    rcases h.1 with ⟨⟨hfb, hb⟩, hs⟩ | ha
    · exact Or.inl ⟨⟨hfb, hb⟩, selfAloneB_sound hs, hpred op (List.mem_cons_self ..)⟩
    · exact Or.inr (assignAlignedOKB_sound ignore op src ha)

end MlModel.Pipe
