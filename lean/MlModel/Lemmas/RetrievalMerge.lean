import Mathlib.Data.Multiset.AddSub
import MlModel.Lemmas.RetrievalThr
/-!
# Algebra of `TopKRetrieval.merge`

`mergeState` is associative on the nose.  Commutativity holds up to the order of the *formal
sums* of symbolic terms (Fowlkes–Mallows / DCG / NDCG totals): the denotation `den` replaces every
formal sum by the multiset of its terms; every interpretation of the terms in a commutative
monoid (in particular float64 evaluation up to rounding, real evaluation exactly) factors
through it.
-/
namespace MlModel.Agg.Retrieval

/-! ## generic `zipWith` facts -/

theorem zipWith_assoc_of {β : Type} (f : β → β → β) (hf : ∀ a b c, f (f a b) c = f a (f b c))
    (a b c : List β) : List.zipWith f (List.zipWith f a b) c = List.zipWith f a (List.zipWith f b c) := by
  induction a generalizing b c with
  | nil => simp
  | cons x xs ih =>
    cases b with
    | nil => simp
    | cons y ys =>
      cases c with
      | nil => simp
      | cons z zs => simp [ih, hf]

theorem zipWith_comm_of {β : Type} (f : β → β → β) (hf : ∀ a b, f a b = f b a) (a b : List β) :
    List.zipWith f a b = List.zipWith f b a := by
  rw [List.zipWith_comm]
  congr
  funext x y
  exact hf y x

theorem map_zipWith_hom {β γ : Type} (f : β → β → β) (f' : γ → γ → γ) (g : β → γ)
    (h : ∀ x y, g (f x y) = f' (g x) (g y)) (a b : List β) :
    (List.zipWith f a b).map g = List.zipWith f' (a.map g) (b.map g) := by
  induction a generalizing b with
  | nil => simp
  | cons x xs ih =>
    cases b with
    | nil => simp
    | cons y ys => simp [ih, h]

/-! ## associativity (exact) -/

theorem MeanCell.merge_assoc (a b c : MeanCell) :
    MeanCell.merge (MeanCell.merge a b) c = MeanCell.merge a (MeanCell.merge b c) := by
  simp [MeanCell.merge, vecAdd_assoc, Nat.add_assoc]

theorem mergeState_assoc (a b c : State) :
    mergeState (mergeState a b) c = mergeState a (mergeState b c) :=
  zipWith_assoc_of _ MeanCell.merge_assoc a b c

/-! ## denotation -/

/-- a float value up to the order of its symbolic terms -/
abbrev D := Q × Multiset Term

def dAdd (a b : D) : D := (Q.add a.1 b.1, a.2 + b.2)

theorem dAdd_assoc (a b c : D) : dAdd (dAdd a b) c = dAdd a (dAdd b c) := by
  simp [dAdd, Q.add_assoc, Multiset.add_assoc]

theorem dAdd_comm (a b : D) : dAdd a b = dAdd b a := by
  simp only [dAdd]
  rw [Q.add_comm, Multiset.add_comm]

def V.den (v : V) : D := (v.q, (v.sym : Multiset Term))

theorem V.den_add (a b : V) : (V.add a b).den = dAdd a.den b.den := by
  simp [V.den, V.add, dAdd]

abbrev CellD := List D × Nat

def cellAdd (a b : CellD) : CellD := (List.zipWith dAdd a.1 b.1, a.2 + b.2)

theorem cellAdd_assoc (a b c : CellD) : cellAdd (cellAdd a b) c = cellAdd a (cellAdd b c) := by
  simp [cellAdd, zipWith_assoc_of dAdd dAdd_assoc, Nat.add_assoc]

theorem cellAdd_comm (a b : CellD) : cellAdd a b = cellAdd b a := by
  simp only [cellAdd]
  rw [zipWith_comm_of dAdd dAdd_comm, Nat.add_comm]

def MeanCell.den (c : MeanCell) : CellD := (c.total.map V.den, c.count)

theorem MeanCell.den_merge (a b : MeanCell) : (MeanCell.merge a b).den = cellAdd a.den b.den := by
  simp only [MeanCell.den, MeanCell.merge, cellAdd, vecAdd]
  rw [map_zipWith_hom V.add dAdd V.den V.den_add]

abbrev StateD := List CellD

def stAdd (a b : StateD) : StateD := List.zipWith cellAdd a b

theorem stAdd_assoc (a b c : StateD) : stAdd (stAdd a b) c = stAdd a (stAdd b c) :=
  zipWith_assoc_of _ cellAdd_assoc a b c

theorem stAdd_comm (a b : StateD) : stAdd a b = stAdd b a :=
  zipWith_comm_of _ cellAdd_comm a b

/-- the state up to the order of the symbolic terms -/
def den (s : State) : StateD := s.map MeanCell.den

theorem den_merge (a b : State) : den (mergeState a b) = stAdd (den a) (den b) :=
  map_zipWith_hom MeanCell.merge cellAdd MeanCell.den MeanCell.den_merge a b

/-- results up to the order of the symbolic terms -/
def MeanResult.den : MeanResult → Option CellD
  | .scalarZero => none
  | .mean t c => some (t.map V.den, c)

theorem result_den (s t : State) (h : den s = den t) :
    (resultState s).map MeanResult.den = (resultState t).map MeanResult.den := by
  have hh : ∀ c : MeanCell, (MeanCell.result c).den = (if c.den.2 = 0 then none else some c.den) := by
    intro c
    simp only [MeanCell.result, MeanCell.den]
    by_cases h0 : c.count = 0 <;> simp [h0, MeanResult.den]
  simp only [resultState, List.map_map]
  have e : (MeanResult.den ∘ MeanCell.result) = (fun d : CellD => if d.2 = 0 then none else some d) ∘ MeanCell.den := by
    funext c
    exact hh c
  rw [e, ← List.map_map, ← List.map_map]
  show List.map _ (den s) = List.map _ (den t)
  rw [h]

/-! ## any order, any bracketing -/

/-- `denotation ⊎ {unit}`: lets a non-empty merge be written as a fold from a formal unit -/
def optAdd : Option StateD → StateD → Option StateD
  | none, b => some b
  | some a, b => some (stAdd a b)

theorem optAdd_right_comm (z : Option StateD) (x y : StateD) :
    optAdd (optAdd z x) y = optAdd (optAdd z y) x := by
  cases z with
  | none => simp [optAdd, stAdd_comm]
  | some z =>
    simp only [optAdd]
    rw [stAdd_assoc, stAdd_comm x y, ← stAdd_assoc]

/-- merge trees (every bracketing of a non-empty sequence of states) -/
inductive MTree where
  | leaf (s : State)
  | node (l r : MTree)

def MTree.eval : MTree → State
  | .leaf s => s
  | .node l r => mergeState l.eval r.eval

def MTree.leaves : MTree → List State
  | .leaf s => [s]
  | .node l r => l.leaves ++ r.leaves

theorem foldl_optAdd_some (l : List StateD) (a : StateD) :
    l.foldl optAdd (some a) = some (l.foldl stAdd a) := by
  induction l generalizing a with
  | nil => rfl
  | cons x xs ih => simp [optAdd, ih]

theorem stAdd_foldl (l : List StateD) (a b : StateD) :
    stAdd a (l.foldl stAdd b) = l.foldl stAdd (stAdd a b) := by
  induction l generalizing b with
  | nil => rfl
  | cons x xs ih => simp [ih, stAdd_assoc]

theorem MTree.den_eval (t : MTree) :
    some (den t.eval) = (t.leaves.map den).foldl optAdd none := by
  induction t with
  | leaf s => simp [MTree.eval, MTree.leaves, optAdd]
  | node l r ihl ihr =>
    simp only [MTree.eval, MTree.leaves, List.map_append, List.foldl_append, den_merge]
    rw [← ihl]
    cases hr : r.leaves.map den with
    | nil =>
      rw [hr] at ihr
      simp at ihr
    | cons x xs =>
      rw [hr] at ihr
      simp only [List.foldl_cons, optAdd, foldl_optAdd_some] at ihr ⊢
      have := Option.some.inj ihr
      rw [this, stAdd_foldl]


/-! ## well-formed / reachable states -/

variable {α : Type} [DecidableEq α]

/-- a state of the shape accumulators of configuration `cfg` have: one `MeanState` per metric,
every total a vector over the Ks -/
def WF (cfg : Config) (s : State) : Prop :=
  s.length = cfg.metrics.length ∧ ∀ c ∈ s, c.total.length = cfg.nk

/-- states reachable through the API: fresh, after `add`, after `merge` -/
inductive Reachable (cfg : Config) : State → Prop where
  | fresh : Reachable cfg (emptyState cfg)
  | add {s : State} (rows : List (Row α)) : Reachable cfg s → Reachable cfg (mergeState s (ofBatch cfg rows))
  | merge {s t : State} : Reachable cfg s → Reachable cfg t → Reachable cfg (mergeState s t)

theorem wf_empty (cfg : Config) : WF cfg (emptyState cfg) := by
  simp [WF, emptyState]

theorem wf_ofBatch (cfg : Config) (rows : List (Row α)) : WF cfg (ofBatch cfg rows) := by
  constructor
  · simp [ofBatch, batchVals]
  · intro c hc
    simp only [ofBatch, batchVals, List.map_map, List.mem_map, List.mem_range] at hc
    obtain ⟨j, hj, rfl⟩ := hc
    simp only [Function.comp, MeanCell.new]
    apply foldl_vecAdd_length
    · simp
    · intro b hb
      obtain ⟨r, _, rfl⟩ := List.mem_map.mp hb
      show ((rowVals cfg (cfg.width rows) r).getD j []).length = cfg.nk
      unfold rowVals
      simp only []
      rw [List.getD_eq_getElem?_getD, List.getElem?_map, List.getElem?_eq_getElem hj]
      simp [rowKs_length]

theorem wf_merge (cfg : Config) (a b : State) (ha : WF cfg a) (hb : WF cfg b) :
    WF cfg (mergeState a b) := by
  constructor
  · simp [mergeState, ha.1, hb.1]
  · intro c hc
    simp only [mergeState] at hc
    obtain ⟨i, hi, rfl⟩ := List.mem_iff_getElem.mp hc
    simp only [List.getElem_zipWith, MeanCell.merge, vecAdd_length]
    rw [ha.2 _ (List.getElem_mem _), hb.2 _ (List.getElem_mem _)]
    omega


theorem zipWith_replicate_left {β : Type} (f : β → β → β) (e : β) (s : List β) (n : Nat)
    (hn : s.length = n) (h : ∀ c ∈ s, f e c = c) : List.zipWith f (List.replicate n e) s = s := by
  induction s generalizing n with
  | nil => simp
  | cons x xs ih =>
    cases n with
    | zero => simp at hn
    | succ n =>
      simp only [List.replicate_succ, List.zipWith_cons_cons]
      rw [h x (by simp), ih n (by simpa using hn) (fun c hc => h c (by simp [hc]))]

theorem zipWith_replicate_right {β : Type} (f : β → β → β) (e : β) (s : List β) (n : Nat)
    (hn : s.length = n) (h : ∀ c ∈ s, f c e = c) : List.zipWith f s (List.replicate n e) = s := by
  induction s generalizing n with
  | nil => simp
  | cons x xs ih =>
    cases n with
    | zero => simp at hn
    | succ n =>
      simp only [List.replicate_succ, List.zipWith_cons_cons]
      rw [h x (by simp), ih n (by simpa using hn) (fun c hc => h c (by simp [hc]))]


end MlModel.Agg.Retrieval
