import MlModel.Model.Piter2
import MlModel.Lemmas.QueueInv
/-!
# Two-queue LTS (`Model/Piter2.lean`): reachability, executed schedules
-/
namespace MlModel.Piter2
open MlModel.Queue

inductive Reachable (F : Nat → Option (List Nat)) (c0 : Cfg) : Cfg → Prop where
  | init : Reachable F c0 c0
  | step {c c' : Cfg} {tid : Tid} {alt : Bool} {lbl : String} :
      Reachable F c0 c → step F c tid alt = some (lbl, c') → Reachable F c0 c'

theorem Reachable.trans {F : Nat → Option (List Nat)} {a b c : Cfg} (h1 : Reachable F a b) (h2 : Reachable F b c) :
    Reachable F a c := by
  induction h2 with
  | init => exact h1
  | step _ hs ih => exact .step ih hs

/-- a schedule accepted by `run` reaches its result -/
theorem reachable_run {F : Nat → Option (List Nat)} : ∀ (sched : List Tid) (c c' : Cfg),
    run F c sched = some c' → Reachable F c c'
  | [], c, c', h => by
    simp only [run, Option.some.injEq] at h
    subst h
    exact .init
  | tid :: rest, c, c', h => by
    simp only [run] at h
    split at h
    · simp at h
    · rename_i lbl c1 hs
      exact Reachable.trans (.step .init hs) (reachable_run rest c1 c' h)

/-- no thread has an enabled step -/
def Cfg.quiescent (F : Nat → Option (List Nat)) (c : Cfg) : Prop := ∀ tid alt, step F c tid alt = none

theorem quiescent_of_enabled_nil {F : Nat → Option (List Nat)} {c : Cfg} (h : enabled F c = []) : c.quiescent F := by
  intro tid alt
  by_cases htid : tid < c.ths.length
  · cases hs : step F c tid alt with
    | none => rfl
    | some r =>
      exfalso
      have hmem : (tid, alt) ∈ enabled F c := by
        simp only [enabled, List.mem_flatMap, List.mem_range, List.mem_map, List.mem_filter]
        exact ⟨tid, htid, alt, ⟨by cases alt <;> simp, by simp [hs]⟩, rfl⟩
      rw [h] at hmem
      simp at hmem
  · have : c.ths[tid]? = none := List.getElem?_eq_none (Nat.le_of_not_lt htid)
    simp [step, this]

end MlModel.Piter2
