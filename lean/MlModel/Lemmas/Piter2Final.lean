import MlModel.Lemmas.Piter2Dead
/-!
# Two-queue LTS: deadlock freedom over all reachable configurations

Glue between `stuck_final` (`Piter2Dead.lean`) and the initial configurations: the roles never change (`Frame`), so the
thread list stays "caller, first-level tasks, second-level tasks", and the invariants hold for every setting of the
pool's `fifo` flag.
-/
namespace MlModel.Piter2
open MlModel.Queue

variable {F : Nat → Option (List Nat)}

/-- the initial configuration with the pool's start order chosen -/
def initF (cap1 cap2 bm1 bm2 mw : Nat) (ns : Option Nat) (fwd ff : Bool) (inputs : List InSpec) (gens : List Nat) : Cfg :=
  { init cap1 cap2 bm1 bm2 mw ns fwd inputs gens with fifo := ff }

theorem good_initF (cap1 cap2 bm1 bm2 mw : Nat) (ns : Option Nat) (fwd ff : Bool) (inputs : List InSpec)
    (gens : List Nat) : Good (initF cap1 cap2 bm1 bm2 mw ns fwd ff inputs gens) := by
  have g := good_init cap1 cap2 bm1 bm2 mw ns fwd inputs gens
  refine ⟨⟨g.inv.ti, g.inv.d1, g.inv.sub, ?_, g.inv.role0, g.inv.ilock, g.inv.ilockLt, g.inv.to1, g.inv.ig1, g.inv.to2,
    g.inv.ig2⟩, g.live1, g.live2⟩
  intro _ i j ti tj hij _ htj hs
  exfalso
  cases j with
  | zero => cases hij
  | succ k =>
    have htj' : (inputs.map mkL1 ++ gens.map (mkL2 bm1))[k]? = some tj := by
      simpa [initF, init] using htj
    have hm := List.mem_of_getElem? htj'
    simp only [List.mem_append, List.mem_map] at hm
    rcases hm with ⟨x, _, rfl⟩ | ⟨x, _, rfl⟩ <;> simp [Th.started, mkL1, mkL2] at hs

theorem initF_roles (cap1 cap2 bm1 bm2 mw : Nat) (ns : Option Nat) (fwd ff : Bool) (inputs : List InSpec) (gens : List Nat) :
    (initF cap1 cap2 bm1 bm2 mw ns fwd ff inputs gens).ths.map (·.role) =
      Role.cons :: ((inputs.map fun _ => Role.l1) ++ gens.map fun _ => Role.l2) :=
  init_ths cap1 cap2 bm1 bm2 mw ns fwd inputs gens

/-- what the constant role list says about a configuration -/
theorem roles_facts {c : Cfg} {n p : Nat} (hroles : c.ths.map (·.role) = Role.cons :: (List.replicate n Role.l1 ++ List.replicate p Role.l2)) :
    (0 < n → ∃ t ∈ c.ths, t.role = .l1) ∧ (0 < p → ∃ t ∈ c.ths, t.role = .l2) ∧ Ordered c ∧
    nRole .l1 c = n ∧ nRole .l2 c = p := by
  have hget : ∀ (i : Nat) (t : Th), c.ths[i]? = some t →
      (Role.cons :: (List.replicate n Role.l1 ++ List.replicate p Role.l2))[i]? = some t.role := by
    intro i t ht
    rw [← hroles, List.getElem?_map, ht]; rfl
  have hmem : ∀ r, r ∈ (Role.cons :: (List.replicate n Role.l1 ++ List.replicate p Role.l2)) → ∃ t ∈ c.ths, t.role = r := by
    intro r hr
    rw [← hroles, List.mem_map] at hr
    exact hr
  refine ⟨fun h => hmem _ ?_, fun h => hmem _ ?_, ?_, ?_, ?_⟩
  · simp [List.mem_replicate]; omega
  · simp [List.mem_replicate]; omega
  · intro i j ti tj hi hj hri hrj
    have h1 := hget i ti hi
    have h2 := hget j tj hj
    rw [hri] at h1; rw [hrj] at h2
    cases i with
    | zero => simp at h1
    | succ i' =>
      cases j with
      | zero => simp at h2
      | succ j' =>
        simp only [List.getElem?_cons_succ] at h1 h2
        have hi' : i' < n := by
          rcases Nat.lt_or_ge i' n with h | h
          · exact h
          · rw [List.getElem?_append_right (by simpa using h)] at h1
            have := List.mem_of_getElem? h1
            simp [List.mem_replicate] at this
        have hj' : n ≤ j' := by
          rcases Nat.lt_or_ge j' n with h | h
          · rw [List.getElem?_append_left (by simpa using h)] at h2
            have := List.mem_of_getElem? h2
            simp [List.mem_replicate] at this
          · exact h
        omega
  · unfold nRole
    have : c.ths.countP (fun t => t.role == Role.l1) = (c.ths.map (·.role)).countP (· == Role.l1) := by
      rw [List.countP_map]; rfl
    rw [this, hroles]
    simp [List.countP_append, List.countP_replicate]
  · unfold nRole
    have : c.ths.countP (fun t => t.role == Role.l2) = (c.ths.map (·.role)).countP (· == Role.l2) := by
      rw [List.countP_map]; rfl
    rw [this, hroles]
    simp [List.countP_append, List.countP_replicate]

theorem map_const_replicate {α β} (l : List α) (b : β) : (l.map fun _ => b) = List.replicate l.length b := by
  induction l with
  | nil => rfl
  | cons a l ih => simp [List.replicate_succ, ih]

/-- **deadlock freedom of the two-queue LTS**: a reachable configuration without enabled step is
final, provided the pool is unbounded or has more workers than inputs and (unless it is FIFO) more workers than
`iterator_fn` tasks -/
theorem no_deadlock {cap1 cap2 bm1 bm2 mw : Nat} {ns : Option Nat} {fwd ff : Bool} {inputs : List InSpec}
    {gens : List Nat} {c : Cfg} (hin : inputs ≠ []) (hgen : gens ≠ [])
    (hpool : mw = 0 ∨ (inputs.length < mw ∧ (ff = true ∨ gens.length < mw)))
    (h : Reachable F (initF cap1 cap2 bm1 bm2 mw ns fwd ff inputs gens) c) (hq : c.quiescent F) :
    c.allDone = true := by
  have hg := good_reachable (good_initF cap1 cap2 bm1 bm2 mw ns fwd ff inputs gens) h
  have hf := reachable_frame h
  have hroles : c.ths.map (·.role) =
      Role.cons :: (List.replicate inputs.length Role.l1 ++ List.replicate gens.length Role.l2) := by
    rw [hf.roles, initF_roles, map_const_replicate, map_const_replicate]
  obtain ⟨h1, h2, h3, h4, h5⟩ := roles_facts hroles
  refine stuck_final hg hq (h1 (List.length_pos_iff.mpr hin)) (h2 (List.length_pos_iff.mpr hgen)) h3 ?_
  unfold PoolSide
  rw [h4, h5, hf.workers, hf.fifo]
  exact hpool

end MlModel.Piter2
