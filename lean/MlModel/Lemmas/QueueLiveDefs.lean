import MlModel.Lemmas.QueueFault
/-!
# Liveness of the IteratorQueue LTS — definitions

Thread classifiers and the *no-lost-wake-up* invariant (DESIGN Appendix A, made precise by model
checking small configurations, `Scratch/`).

Vocabulary.  A consumer has **sawEmpty** when it has decided to wait (got `Empty` in `get`, or
found the queue empty and enqueueing not done in `get_batch`) and still holds the dequeue lock;
it is **parked** when its tid is in `deqWait`; a consumer that is neither, and has not armed its
final exception, is **active**: it reaches a decision point (`get_nowait`) before it can park.
A producer has **sawFull** at `pWait`; it is **committed** at `pPut` (it puts, or sees `Full`).
Debtors owe a notification:
* `debtD`    — a producer between its successful `put_nowait` and its `notify cond1`;
* `debtDAll` — a thread that made `enqueue_done` (or `exhausted`) true and has not yet executed its
               `notify_all cond1`;
* `debtE`    — a consumer that dequeued in the current call and has not yet executed `notify cond2`;
* `debtEAll` — a thread that made `enqueue_done` true and has not yet executed `notify_all cond2`.
-/
namespace MlModel.Queue

/-- `enqueue_done` as a function of the five fields it reads (kept folded in the step proofs) -/
def doneOf (exc : Option ErrKind) (stopRequested : Bool) (maxEnq start stop : Nat) : Bool :=
  if exc.isSome || stopRequested then true
  else if maxEnq == 0 then false
  else start == stop && stop == maxEnq

theorem enqueueDone_eq (s : Shared) :
    s.enqueueDone = doneOf s.exc s.stopRequested s.maxEnq s.start s.stop := rfl

def isProd (t : Thread) : Bool := t.prog.kind == .producer
def isCons (t : Thread) : Bool := t.prog.kind == .get || t.prog.kind == .batch
def isStopper (t : Thread) : Bool := t.prog.kind == .stopper

def consWakePc : Pc → Bool
  | .gWake | .bWake => true
  | _ => false

def prodWakePc : Pc → Bool
  | .pWake => true
  | _ => false

def sawEmpty (t : Thread) : Bool :=
  match t.pc with
  | .nRelErr c => c == .get && t.x == .empty
  | .gWait | .bWait => true
  | _ => false

def sawFull (t : Thread) : Bool :=
  match t.pc with
  | .pWait => true
  | _ => false

/-- a consumer that will reach a decision point of `get_nowait` before it can park -/
def activeC (t : Thread) : Bool :=
  match t.pc with
  | .start => isCons t
  | .nAcq _ | .nGet _ | .nEmp _ | .nNaOk _ | .nRelOk _ => true
  | .nRelErr c => c == .batch && t.x == .empty
  | .gAcq | .gR0 | .gR1 | .gR2 | .gR3 | .gR4 | .gRet => true
  | .bAcq | .bR0 | .bR1 | .bR2 | .bR3 | .bR4 | .bEmp | .bExit | .bE1 | .bE2 | .bE3 => true
  | _ => false

def debtD (t : Thread) : Bool :=
  match t.pc with
  | .pStAcq | .pStRel | .pR0 | .pR1 | .pR2 => true
  | _ => false

def debtDAll (t : Thread) : Bool :=
  match t.pc with
  | .tAcq => t.reraise.isSome
  | .tR0 | .tR1 | .tR2 | .mRel | .mE0 | .mE1 | .mE2 | .mD0 | .mD1 | .nNaOk _ | .nNaErr _ => true
  | _ => false

def debtE (t : Thread) : Bool :=
  match t.pc with
  | .nEmp _ | .nNaOk _ | .nRelOk _ | .gR0 | .gR1 | .gR2 => true
  | .nAcq c | .nGet c | .nNaErr c | .nRelErr c => c == .batch && !t.result.isEmpty
  | .bExit | .bE1 | .bE2 | .bR0 | .bR1 | .bR2 => !t.result.isEmpty
  | _ => false

def commitP (t : Thread) : Bool :=
  match t.pc with
  | .pPut => true
  | _ => false

def debtEAll (t : Thread) : Bool :=
  match t.pc with
  | .tAcq => t.reraise.isSome
  | .tR0 | .tR1 | .tR2 | .tR3 | .tR4 | .tS0 | .tS1 | .tS2 | .mRel | .mE0 | .mE1 => true
  | _ => false

/-- some thread of the configuration satisfies `P` -/
def anyT (c : Cfg) (P : Thread → Bool) : Prop := ∃ t ∈ c.ths, P t = true

instance (c : Cfg) (P : Thread → Bool) : Decidable (anyT c P) := by unfold anyT; infer_instance

/-- **J1**: a consumer that waits (or is about to) while the queue is not empty has someone
responsible for it. -/
def J1 (c : Cfg) : Prop :=
  (c.sh.deqWait ≠ [] ∨ anyT c sawEmpty) → c.sh.q ≠ [] →
    c.sh.deqNotified ≠ [] ∨ anyT c activeC ∨ anyT c debtD ∨ c.sh.enqueueDone = true

/-- **J2**: a consumer that waits after the end of enqueueing has a pending `notify_all`. -/
def J2 (c : Cfg) : Prop :=
  (c.sh.deqWait ≠ [] ∨ anyT c sawEmpty) → c.sh.enqueueDone = true → anyT c debtDAll

/-- **K1**: a producer that waits (or is about to) while the queue is empty has someone
responsible for it. -/
def K1 (c : Cfg) : Prop :=
  (c.sh.enqWait ≠ [] ∨ anyT c sawFull) →
    c.sh.q ≠ [] ∨ c.sh.enqNotified ≠ [] ∨ anyT c debtE ∨ anyT c commitP ∨ c.sh.enqueueDone = true

/-- **K2**: a producer that waits after the end of enqueueing has a pending `notify_all`
(this is what the repair of finding F6 establishes). -/
def K2 (c : Cfg) : Prop :=
  (c.sh.enqWait ≠ [] ∨ anyT c sawFull) → c.sh.enqueueDone = true → anyT c debtEAll

instance (c : Cfg) : Decidable (J1 c) := by unfold J1; infer_instance
instance (c : Cfg) : Decidable (J2 c) := by unfold J2; infer_instance
instance (c : Cfg) : Decidable (K1 c) := by unfold K1; infer_instance
instance (c : Cfg) : Decidable (K2 c) := by unfold K2; infer_instance

/-! ## thread-local facts tied to sticky shared flags -/

def _root_.MlModel.Queue.Raise.isErr : Raise → Bool
  | .err _ => true
  | _ => false

@[simp] theorem isErr_err (e : ErrKind) : (Raise.err e).isErr = true := rfl
@[simp] theorem isErr_empty : Raise.empty.isErr = false := rfl
@[simp] theorem isErr_stop (r : List Nat) : (Raise.stop r).isErr = false := rfl
@[simp] theorem final_beq_empty (s : Shared) : (s.final == .empty) = false := by
  unfold Shared.final; cases s.exc <;> simp
@[simp] theorem final_ne_empty (s : Shared) : s.final ≠ .empty := by
  unfold Shared.final; cases s.exc <;> simp
@[simp] theorem final_isErr (s : Shared) : s.final.isErr = s.exc.isSome := by
  unfold Shared.final; cases s.exc <;> simp

def armed (t : Thread) : Bool :=
  match t.pc with
  | .nRelErr _ => t.x != .empty
  | .gRaise | .bRaise => true
  | .done => isCons t
  | _ => false

/-- per-thread invariant relative to the shared state -/
def XOK (s : Shared) (t : Thread) : Prop :=
  (t.pc = .tAcq → t.reraise.isSome = true → s.exc.isSome = true) ∧
  ((match t.pc with | .mRel | .mE0 | .mE1 | .mE2 | .mD0 | .mD1 | .mD2 => true
                    | .done => isStopper t | _ => false) = true → s.stopRequested = true) ∧
  ((match t.pc with | .nRelErr _ | .gRaise | .bRaise => true | _ => false) = true →
      t.x.isErr = true → s.exc.isSome = true ∨ s.timeout = true) ∧
  ((match t.pc with | .nNaOk _ | .nNaErr _ => true | _ => false) = true → s.exhausted = true) ∧
  (armed t = true → s.exhausted = true ∨ s.timeout = true) ∧
  ((match t.pc with | .pWait | .pWake | .pRaiseT => true | _ => false) = true → s.cap ≠ 0)

instance (s : Shared) (t : Thread) : Decidable (XOK s t) := by unfold XOK; infer_instance

/-! ## counting producers (`WF_enq`) -/

def pastS (t : Thread) : Bool :=
  isProd t && (match t.pc with | .start | .sAcq => false | _ => true)

/-- has executed the state update of `_stop_enqueue` (its arguments are recorded in the thread) -/
def stoppedOf (rets : List Nat) (reraise : Option ErrKind) : Bool := !rets.isEmpty || reraise.isSome
def stopped (t : Thread) : Bool := stoppedOf t.rets t.reraise

@[simp] theorem stoppedOf_cons (r : Nat) (l : List Nat) (o : Option ErrKind) : stoppedOf (r :: l) o = true := rfl
@[simp] theorem stoppedOf_some (l : List Nat) (e : ErrKind) : stoppedOf l (some e) = true := by
  simp [stoppedOf]

def pastT (t : Thread) : Bool :=
  isProd t && (match t.pc with
    | .tR0 | .tR1 | .tR2 | .tR3 | .tR4 | .tS0 | .tS1 | .tS2 | .tS3 | .tS4 | .tRel => true
    | .done => stopped t
    | _ => false)

/-- a producer that left `enqueue_from_iterator` because `enqueue_done` already held -/
def early (t : Thread) : Bool :=
  isProd t && (match t.pc with | .done => !stopped t | _ => false)

/-- thread-local: `_stop_enqueue`'s arguments are set exactly from `tAcq` on -/
def TL (t : Thread) : Prop :=
  match t.pc with
  | .start | .sAcq | .sRel | .eNext | .pAcq | .pPut | .pStAcq | .pStRel | .pR0 | .pR1 | .pR2 | .pR3
  | .pR4 | .pRet | .pWait | .pWake | .pRaiseT | .pExit => stopped t = false
  | .tAcq | .tR0 | .tR1 | .tR2 | .tR3 | .tR4 | .tS0 | .tS1 | .tS2 | .tS3 | .tS4 | .tRel => stopped t = true
  | _ => True

instance (t : Thread) : Decidable (TL t) := by unfold TL; split <;> infer_instance

/-- `WF_enq`: the number of producers was declared up front -/
def CNT (c : Cfg) : Prop :=
  c.sh.stopRequested = false →
    c.sh.maxEnq = c.ths.countP isProd ∧ c.sh.start = c.ths.countP pastS ∧ c.sh.stop = c.ths.countP pastT

def EARLY (c : Cfg) : Prop := anyT c early → c.sh.enqueueDone = true

def I3 (c : Cfg) : Prop := c.sh.exhausted = true → c.sh.enqueueDone = true

instance (c : Cfg) : Decidable (CNT c) := by unfold CNT; infer_instance
instance (c : Cfg) : Decidable (EARLY c) := by unfold EARLY; infer_instance
instance (c : Cfg) : Decidable (I3 c) := by unfold I3; infer_instance

/-! ## wait lists -/

def wlD (s : Shared) : List Tid := s.deqNotified ++ s.deqWait
def wlE (s : Shared) : List Tid := s.enqNotified ++ s.enqWait

def WaitInv (c : Cfg) : Prop :=
  (wlD c.sh).Nodup ∧ (wlE c.sh).Nodup ∧
  (∀ tid, tid ∈ wlD c.sh ↔ ∃ t, c.ths[tid]? = some t ∧ consWakePc t.pc = true) ∧
  (∀ tid, tid ∈ wlE c.sh ↔ ∃ t, c.ths[tid]? = some t ∧ prodWakePc t.pc = true)

end MlModel.Queue
