import MlModel.Lemmas.RebatchDefs
/-!
# Lemmas about the `rebatched_args` model (used by `Properties/C19.lean`)

Route: closed form of `sliced` (`sliced_getElem`, length bounds) → closed form of the flush block
(`flush_noop`, `flush_go`) under a buffer shape `Shape nc m st` → one loop iteration on a
well-formed batch (`step_spec`: no error, invariant `Inv`, only full batches emitted, per-column
conservation) → the source-exhausted iteration (`finish_spec`) → the loop (`feed_spec`,
`runFrom_eq_feed`) → `run_spec`.
-/
namespace MlModel.Rebatch
variable {α : Type}

theorem sliced_nil (n : Nat) : sliced n ([] : List α) = [] := by
  rw [sliced]; simp

theorem sliced_zero (xs : List α) : sliced 0 xs = [] := by
  rw [sliced]; simp

theorem sliced_cons_eq {n : Nat} (hn : 0 < n) {xs : List α} (hx : xs ≠ []) :
    sliced n xs = xs.take n :: sliced n (xs.drop n) := by
  rw [sliced]
  have : ¬ (n = 0 ∨ xs = []) := by intro h; cases h <;> simp_all <;> omega
  simp [this]

theorem sliced_getElem {n : Nat} (xs : List α) :
    ∀ (j : Nat) (h : j < (sliced n xs).length), (sliced n xs)[j] = (xs.drop (j * n)).take n := by
  fun_induction sliced n xs with
  | case1 xs h => intro j hj; simp at hj
  | case2 xs h ih =>
    intro j hj
    cases j with
    | zero => simp
    | succ j =>
      simp only [List.getElem_cons_succ]
      rw [ih j (by simpa using hj)]
      simp [List.drop_drop, Nat.succ_mul, Nat.add_comm]

theorem sliced_flatten {n : Nat} (hn : 0 < n) (xs : List α) : (sliced n xs).flatten = xs := by
  fun_induction sliced n xs with
  | case1 xs h => cases h with
    | inl h => omega
    | inr h => simp [h]
  | case2 xs h ih => simp [ih]

theorem sliced_length_congr {β : Type} {n : Nat} (xs : List α) :
    ∀ (ys : List β), xs.length = ys.length → (sliced n xs).length = (sliced n ys).length := by
  fun_induction sliced n xs with
  | case1 xs h =>
    intro ys hl
    cases h with
    | inl h => subst h; simp [sliced_zero]
    | inr h => subst h; have : ys = [] := List.length_eq_zero_iff.mp hl.symm
               subst this; simp [sliced_nil]
  | case2 xs h ih =>
    intro ys hl
    have hn : 0 < n := by omega
    have hy : ys ≠ [] := by
      intro e; subst e; simp at hl; exact h (Or.inr hl)
    rw [sliced_cons_eq hn hy]
    simp only [List.length_cons]
    rw [ih (ys.drop n) (by simp [hl])]

/-- number of slices `k` of a list of length `L`: `L ≤ k*n` and `(k-1)*n < L` unless `L = 0`. -/
theorem sliced_length_ge {n : Nat} (hn : 0 < n) (xs : List α) :
    xs.length ≤ (sliced n xs).length * n := by
  fun_induction sliced n xs with
  | case1 xs h => cases h with
    | inl h => omega
    | inr h => simp [h]
  | case2 xs h ih =>
    simp only [List.length_cons, List.length_drop] at *
    rw [Nat.succ_mul]; omega

theorem sliced_length_lt {n : Nat} (hn : 0 < n) (xs : List α) (hx : xs ≠ []) :
    ((sliced n xs).length - 1) * n < xs.length := by
  fun_induction sliced n xs with
  | case1 xs h => cases h with
    | inl h => omega
    | inr h => exact absurd h hx
  | case2 xs h ih =>
    simp only [List.length_cons, Nat.add_sub_cancel]
    by_cases hd : xs.drop n = []
    · rw [hd, sliced_nil]; simp; exact List.length_pos_iff.mpr hx
    · have := ih hd
      have hpos : 0 < (sliced n (xs.drop n)).length := by
        rw [sliced_cons_eq hn hd]; simp
      simp only [List.length_drop] at this
      have e : (sliced n (List.drop n xs)).length = ((sliced n (List.drop n xs)).length - 1) + 1 := by omega
      rw [e, Nat.succ_mul]; omega

theorem sliced_eq_nil_iff {n : Nat} (hn : 0 < n) (xs : List α) : sliced n xs = [] ↔ xs = [] := by
  constructor
  · intro h; by_cases hx : xs = []
    · exact hx
    · rw [sliced_cons_eq hn hx] at h; simp at h
  · intro h; subst h; exact sliced_nil n

theorem mapM_ok_of_forall {β γ : Type} {f : β → Except ErrKind γ} {g : β → γ} :
    ∀ (l : List β), (∀ x ∈ l, f x = .ok (g x)) → l.mapM f = .ok (l.map g) := by
  intro l
  induction l with
  | nil => intro _; rfl
  | cons a l ih =>
    intro h
    simp only [List.mapM_cons, List.map_cons]
    rw [h a (by simp), ih (fun x hx => h x (by simp [hx]))]
    rfl

theorem zipStrict_ok {β : Type} [Inhabited β] {cols : List (List β)} {k : Nat}
    (hne : cols ≠ []) (h : ∀ c ∈ cols, c.length = k) :
    zipStrict cols = .ok ((List.range k).map fun j => cols.map fun col => col.getD j default) := by
  have hk : (cols.headD []).length = k := by
    cases cols with
    | nil => exact absurd rfl hne
    | cons a l => simpa using h a (by simp)
  have hall : (cols.all fun x => x.length == k) = true := by
    rw [List.all_eq_true]; intro c hc; simp [h c hc]
  simp only [zipStrict, hk, hall, if_true]

/-- total version of `concat` for non-empty chunk lists of supported kinds -/
def concatT (chunks : List (Col α)) : Col α :=
  ⟨(chunks.headD default).kind, (chunks.map (·.rows)).flatten⟩

theorem concat_ok {chunks : List (Col α)} (hne : chunks ≠ [])
    (hk : ∀ c ∈ chunks, c.kind ≠ .other) : concat chunks = .ok (concatT chunks) := by
  match chunks, hne, hk with
  | [c], _, _ => simp [concat, concatT]
  | c :: d :: l, _, hk =>
    have hc : c.kind ≠ .other := hk c (by simp)
    simp only [concat, concatT]
    cases h : c.kind <;> simp_all

/-- number of slices of a sequence of `m` rows -/
def nsl (t m : Nat) : Nat := (sliced t (List.replicate m ())).length

theorem sliced_length (t : Nat) (xs : List α) : (sliced t xs).length = nsl t xs.length :=
  sliced_length_congr xs _ (by simp)

theorem nsl_ge {t : Nat} (ht : 0 < t) (m : Nat) : m ≤ nsl t m * t := by
  simpa [nsl] using sliced_length_ge ht (List.replicate m ())

theorem nsl_lt {t : Nat} (ht : 0 < t) {m : Nat} (hm : 0 < m) : (nsl t m - 1) * t < m := by
  have := sliced_length_lt ht (List.replicate m ()) (by
    intro h; have := congrArg List.length h; simp at this; omega)
  simpa [nsl] using this

theorem nsl_pos {t : Nat} (ht : 0 < t) {m : Nat} (hm : 0 < m) : 0 < nsl t m := by
  have := nsl_ge ht m
  rcases Nat.eq_zero_or_pos (nsl t m) with h | h
  · rw [h] at this; omega
  · exact h

theorem nsl_zero (t : Nat) : nsl t 0 = 0 := by simp [nsl, sliced_nil]

/-- `m < t` rows give exactly one slice -/
theorem nsl_of_lt {t m : Nat} (hm : 0 < m) (hlt : m ≤ t) : nsl t m = 1 := by
  have ht : 0 < t := by omega
  have h1 := nsl_lt ht hm
  have h2 := nsl_pos ht hm
  rcases Nat.lt_or_ge 1 (nsl t m) with h | h
  · have : 1 * t ≤ (nsl t m - 1) * t := Nat.mul_le_mul_right t (by omega)
    omega
  · omega

/-- the `j`-th slice of every column -/
def sliceAt (t : Nat) (cols : List (Col α)) (j : Nat) : Batch α :=
  cols.map fun c => ⟨c.kind, (c.rows.drop (j * t)).take t⟩

/-- Shape of the buffer: `nc` columns, each holding `m` rows in chunks of supported kinds. -/
structure Shape (nc m : Nat) (st : St α) : Prop where
  buf_len : st.buf.length = nc
  sizes_eq : st.sizes = List.replicate nc m
  rows_len : ∀ chunks ∈ st.buf, ((chunks.map (·.rows)).flatten).length = m
  kinds : ∀ chunks ∈ st.buf, ∀ c ∈ chunks, c.kind ≠ .other

theorem Shape.headD {nc m : Nat} {st : St α} (h : Shape nc m st) (hnc : 0 < nc) :
    st.sizes.headD 0 = m := by
  rw [h.sizes_eq]; cases nc with
  | zero => omega
  | succ n => simp [List.replicate_succ]

theorem Shape.chunks_ne {nc m : Nat} {st : St α} (h : Shape nc m st) (hm : 0 < m) :
    ∀ chunks ∈ st.buf, chunks ≠ [] := by
  intro chunks hc e
  have := h.rows_len chunks hc
  subst e; simp at this; omega

theorem Shape.init (nc : Nat) : Shape nc 0 (St.init nc : St α) := by
  refine ⟨by simp [St.init], by simp [St.init], ?_, ?_⟩
  · intro chunks hc; simp [St.init] at hc; simp [hc.2]
  · intro chunks hc c hcc; simp [St.init] at hc; simp [hc.2] at hcc

/-- the slicing pipeline of the flush block, in closed form -/
theorem slices_eq {nc m t : Nat} {st : St α} (h : Shape nc m st) (hnc : 0 < nc)
    (hm : 0 < m) :
    (st.buf.mapM concat >>= fun concated =>
      zipStrict (concated.map fun c => (sliced t c.rows).map fun r => ({ kind := c.kind, rows := r } : Col α)))
    = .ok ((List.range (nsl t m)).map (sliceAt t (st.buf.map concatT))) := by
  have h1 : st.buf.mapM concat = .ok (st.buf.map concatT) :=
    mapM_ok_of_forall _ fun chunks hc => concat_ok (h.chunks_ne hm chunks hc) (h.kinds chunks hc)
  rw [h1]
  show zipStrict _ = _
  have hne : st.buf ≠ [] := by
    intro e; have := h.buf_len; rw [e] at this; simp at this; omega
  rw [zipStrict_ok (k := nsl t m) (by simpa using hne)]
  · congr 1
    apply List.map_congr_left
    intro j hj
    have hj : j < nsl t m := by simpa using hj
    simp only [sliceAt, List.map_map]
    apply List.map_congr_left
    intro chunks hc
    have hl : (concatT chunks).rows.length = m := h.rows_len chunks hc
    have hj' : j < (sliced t (concatT chunks).rows).length := by rw [sliced_length, hl]; exact hj
    simp only [Function.comp, List.getD_eq_getElem?_getD, List.getElem?_map]
    rw [List.getElem?_eq_getElem hj']
    simp [sliced_getElem]
  · intro c hc
    simp only [List.mem_map] at hc
    obtain ⟨col, ⟨chunks, hch, rfl⟩, rfl⟩ := hc
    have hl : (concatT chunks).rows.length = m := h.rows_len chunks hch
    simp [sliced_length, hl]

theorem flush_noop {nc m t : Nat} {st : St α} (h : Shape nc m st) (hnc : 0 < nc)
    (pad : Option α) (exh : Bool) (hc : m = 0 ∨ (m < t ∧ exh = false)) :
    flush t pad exh st = .ok (st, []) := by
  unfold flush
  simp only [h.headD hnc]
  rcases hc with hc | ⟨hc, he⟩
  · subst hc; simp
  · subst he
    have : decide (m ≥ t) = false := by simp; omega
    simp [this]

/-- total version of `padCol` over a batch -/
def padT (b : Batch α) (p : α) (t : Nat) : Batch α :=
  b.map fun c => { c with rows := c.rows ++ List.replicate (t - c.rows.length) p }

theorem concatT_kind {nc m : Nat} {st : St α} (h : Shape nc m st) (hm : 0 < m) :
    ∀ chunks ∈ st.buf, (concatT chunks).kind ≠ .other := by
  intro chunks hc
  have hne := h.chunks_ne hm chunks hc
  cases chunks with
  | nil => exact absurd rfl hne
  | cons c l => simpa [concatT] using h.kinds _ hc c (by simp)

theorem sliceAt_kind {nc m : Nat} {st : St α} (h : Shape nc m st) (hm : 0 < m) (t j : Nat) :
    ∀ c ∈ sliceAt t (st.buf.map concatT) j, c.kind ≠ .other := by
  intro c hc
  simp only [sliceAt, List.mem_map] at hc
  obtain ⟨_, ⟨chunks, hch, rfl⟩, rfl⟩ := hc
  exact concatT_kind h hm chunks hch

theorem mapM_padCol {b : Batch α} (hk : ∀ c ∈ b, c.kind ≠ .other) (p : α) (t : Nat) :
    b.mapM (fun c => padCol c p t) = .ok (padT b p t) := by
  apply mapM_ok_of_forall
  intro c hc
  have := hk c hc
  unfold padCol
  cases hkd : c.kind <;> simp_all

theorem sliceAt_head_len {nc m : Nat} {st : St α} (h : Shape nc m st) (hnc : 0 < nc) (t j : Nat) :
    ((sliceAt t (st.buf.map concatT) j).headD default).rows.length = min t (m - j * t) := by
  have hl := h.buf_len
  cases hb : st.buf with
  | nil => rw [hb] at hl; simp at hl; omega
  | cons chunks rest =>
    have := h.rows_len chunks (by rw [hb]; simp)
    simp [sliceAt, concatT, this]

theorem flush_go {nc m t : Nat} {st : St α} (h : Shape nc m st) (hnc : 0 < nc) (ht : 0 < t)
    (hm : 0 < m) (pad : Option α) (exh : Bool) (hc : t ≤ m ∨ exh = true) :
    flush t pad exh st =
      (let cols := st.buf.map concatT
       let K := nsl t m - 1
       let last := sliceAt t cols K
       let full := (List.range K).map (sliceAt t cols)
       if m = (K + 1) * t then .ok (St.init nc, full ++ [last])
       else if exh = true then
         .ok (St.init nc, full ++ [match pad with | some p => padT last p t | none => last])
       else .ok (⟨last.map fun c => [c], last.map fun c => c.rows.length⟩, full)) := by
  unfold flush
  simp only [h.headD hnc]
  have h1 : (m != 0 && (decide (m ≥ t) || exh)) = true := by
    rcases hc with hc | hc
    · simp [hc]; omega
    · simp [hc]; omega
  simp only [h1, if_true]
  rw [← bind_assoc, slices_eq h hnc hm]
  simp only [bind, Except.bind]
  have hk : nsl t m = (nsl t m - 1) + 1 := by have := nsl_pos ht hm; omega
  have hge := nsl_ge ht m
  have hlt := nsl_lt ht hm
  generalize nsl t m - 1 = K at *
  rw [hk, List.range_succ, List.map_append, List.map_singleton, List.getLast?_concat,
    List.dropLast_concat]
  simp only [sliceAt_head_len h hnc, h.buf_len]
  rw [hk, Nat.succ_mul] at hge
  have hcond : (min t (m - K * t) == t) = decide (m = (K + 1) * t) := by
    rw [Nat.succ_mul]
    by_cases e : m = K * t + t
    · simp [e]
    · have : min t (m - K * t) ≠ t := by omega
      simp [e, this]
  rw [hcond]
  by_cases e : m = (K + 1) * t
  · simp [e]
  · simp only [e, decide_false, Bool.false_eq_true, if_false]
    cases exh with
    | false => simp
    | true =>
      cases pad with
      | none => simp
      | some p => simp [mapM_padCol (sliceAt_kind h hm t K)]

/-- rows buffered for column `c` -/
def bufRows (st : St α) (c : Nat) : List α := ((st.buf.getD c []).map (·.rows)).flatten

@[simp] theorem default_rows : (default : Col α).rows = [] := rfl

@[simp] theorem colConcat_nil (c : Nat) : colConcat ([] : List (Batch α)) c = [] := rfl
@[simp] theorem colConcat_cons (b : Batch α) (bs : List (Batch α)) (c : Nat) :
    colConcat (b :: bs) c = colRows b c ++ colConcat bs c := rfl
@[simp] theorem colConcat_append (xs ys : List (Batch α)) (c : Nat) :
    colConcat (xs ++ ys) c = colConcat xs c ++ colConcat ys c := by
  simp [colConcat]

theorem Rect.nrows {nc r : Nat} {b : Batch α} (h : Rect nc r b) (hnc : 0 < nc) : nrows b = r := by
  cases b with
  | nil => have := h.1; simp at this; omega
  | cons c l => simpa [Rebatch.nrows] using (h.2 c (by simp)).2

theorem Rect.colRows_len {nc r : Nat} {b : Batch α} (h : Rect nc r b) {c : Nat} (hc : c < nc) :
    (colRows b c).length = r := by
  have hl : c < b.length := by rw [h.1]; exact hc
  simp only [colRows, List.getD_eq_getElem?_getD, List.getElem?_eq_getElem hl, Option.getD_some]
  exact (h.2 _ (List.getElem_mem hl)).2

theorem bufRows_eq (st : St α) (c : Nat) :
    bufRows st c = ((st.buf.map concatT).getD c default).rows := by
  simp only [bufRows, List.getD_eq_getElem?_getD, List.getElem?_map]
  cases st.buf[c]? <;> simp [concatT]

theorem colRows_sliceAt (t : Nat) (st : St α) (j c : Nat) :
    colRows (sliceAt t (st.buf.map concatT) j) c = ((bufRows st c).drop (j * t)).take t := by
  rw [bufRows_eq]
  simp only [colRows, sliceAt, List.getD_eq_getElem?_getD, List.getElem?_map]
  cases st.buf[c]? <;> simp

theorem take_slices (t : Nat) (X : List α) (K : Nat) :
    ((List.range K).map fun j => (X.drop (j * t)).take t).flatten = X.take (K * t) := by
  induction K with
  | zero => simp
  | succ K ih =>
    rw [List.range_succ, List.map_append, List.flatten_append, ih, Nat.succ_mul, List.take_add]
    simp

theorem colConcat_slices (t : Nat) (st : St α) (K c : Nat) :
    colConcat ((List.range K).map (sliceAt t (st.buf.map concatT))) c = (bufRows st c).take (K * t) := by
  rw [← take_slices]
  simp [colConcat, colRows_sliceAt, Function.comp_def]

/-- the buffer after `column_buffer[i].append(column)` / `batch_sizes += ...` -/
def push (st : St α) (b : Batch α) : St α :=
  ⟨List.zipWith (fun chunks c => chunks ++ [c]) st.buf b,
   List.zipWith (· + ·) st.sizes (b.map fun c => c.rows.length)⟩

theorem push_shape {nc m r : Nat} {st : St α} {b : Batch α} (h : Shape nc m st) (hb : Rect nc r b) :
    Shape nc (m + r) (push st b) := by
  have hlen : (b.map fun c => c.rows.length) = List.replicate nc r := by
    rw [List.eq_replicate_iff]
    refine ⟨by simp [hb.1], ?_⟩
    intro x hx
    simp only [List.mem_map] at hx
    obtain ⟨c, hc, rfl⟩ := hx
    exact (hb.2 c hc).2
  refine ⟨by simp [push, h.buf_len, hb.1], ?_, ?_, ?_⟩
  · simp [push, h.sizes_eq, hlen]
  · intro chunks hc
    simp only [push, List.mem_iff_getElem, List.length_zipWith, List.getElem_zipWith] at hc
    obtain ⟨i, hi, rfl⟩ := hc
    have h1 := h.rows_len st.buf[i] (List.getElem_mem _)
    have h2 := (hb.2 b[i] (List.getElem_mem _)).2
    simp only [List.map_append, List.flatten_append, List.length_append, h1]
    simp [h2]
  · intro chunks hc c hcc
    simp only [push, List.mem_iff_getElem, List.length_zipWith, List.getElem_zipWith] at hc
    obtain ⟨i, hi, rfl⟩ := hc
    rcases List.mem_append.mp hcc with hcc | hcc
    · exact h.kinds st.buf[i] (List.getElem_mem _) c hcc
    · simp only [List.mem_singleton] at hcc
      subst hcc
      exact (hb.2 b[i] (List.getElem_mem _)).1

theorem bufRows_push {nc m r : Nat} {st : St α} {b : Batch α} (h : Shape nc m st)
    (hb : Rect nc r b) (c : Nat) :
    bufRows (push st b) c = bufRows st c ++ colRows b c := by
  simp only [bufRows, colRows, push, List.getD_eq_getElem?_getD, List.getElem?_zipWith]
  by_cases hc : c < nc
  · have h1 : c < st.buf.length := by rw [h.buf_len]; exact hc
    have h2 : c < b.length := by rw [hb.1]; exact hc
    simp [List.getElem?_eq_getElem h1, List.getElem?_eq_getElem h2]
  · have h1 : st.buf.length ≤ c := by rw [h.buf_len]; omega
    have h2 : b.length ≤ c := by rw [hb.1]; omega
    simp [List.getElem?_eq_none h1, List.getElem?_eq_none h2]

theorem allEq_replicate (n x : Nat) : allEq (List.replicate n x) = true := by
  cases n with
  | zero => simp [allEq]
  | succ n => simp [allEq, List.replicate_succ]

theorem step_eq {nc m r t : Nat} {st : St α} {b : Batch α} (h : Shape nc m st) (hb : Rect nc r b)
    (hnc : 0 < nc) (pad : Option α) :
    step t nc pad st b = flush t pad false (push st b) := by
  have hne : b.isEmpty = false := by
    cases b with
    | nil => have := hb.1; simp at this; omega
    | cons => rfl
  have hs := (push_shape h hb).sizes_eq
  simp only [push] at hs
  unfold step
  simp [hb.1, hne, hs, allEq_replicate, push]

theorem sliceAt_rect {nc m : Nat} {st : St α} (h : Shape nc m st) (hm : 0 < m) (t j : Nat) :
    Rect nc (min t (m - j * t)) (sliceAt t (st.buf.map concatT) j) := by
  refine ⟨by simp [sliceAt, h.buf_len], ?_⟩
  intro c hc
  refine ⟨sliceAt_kind h hm t j c hc, ?_⟩
  simp only [sliceAt, List.mem_map] at hc
  obtain ⟨_, ⟨chunks, hch, rfl⟩, rfl⟩ := hc
  have : (concatT chunks).rows.length = m := h.rows_len chunks hch
  simp [this]

/-- the invariant between two iterations of the `while` loop -/
def Inv (t nc : Nat) (st : St α) : Prop := ∃ m, m < t ∧ Shape nc m st

theorem Inv.init {t : Nat} (ht : 0 < t) (nc : Nat) : Inv t nc (St.init nc : St α) :=
  ⟨0, ht, Shape.init nc⟩

theorem carry_shape {nc r : Nat} {last : Batch α} (h : Rect nc r last) :
    Shape nc r (⟨last.map fun c => [c], last.map fun c => c.rows.length⟩ : St α) := by
  refine ⟨by simp [h.1], ?_, ?_, ?_⟩
  · rw [List.eq_replicate_iff]
    refine ⟨by simp [h.1], ?_⟩
    intro x hx
    simp only [List.mem_map] at hx
    obtain ⟨c, hc, rfl⟩ := hx
    exact (h.2 c hc).2
  · intro chunks hc
    simp only [List.mem_map] at hc
    obtain ⟨c, hc, rfl⟩ := hc
    simpa using (h.2 c hc).2
  · intro chunks hc c hcc
    simp only [List.mem_map] at hc
    obtain ⟨c', hc', rfl⟩ := hc
    simp only [List.mem_singleton] at hcc
    subst hcc
    exact (h.2 c hc').1

theorem bufRows_carry (last : Batch α) (c : Nat) :
    bufRows (⟨last.map fun c => [c], last.map fun c => c.rows.length⟩ : St α) c = colRows last c := by
  simp only [bufRows, colRows, List.getD_eq_getElem?_getD, List.getElem?_map]
  cases last[c]? <;> simp

theorem bufRows_init (nc c : Nat) : bufRows (St.init nc : St α) c = [] := by
  simp only [bufRows, St.init, List.getD_eq_getElem?_getD, List.getElem?_replicate]
  split <;> simp

theorem Shape.bufRows_len {nc m : Nat} {st : St α} (h : Shape nc m st) (c : Nat) :
    (bufRows st c).length ≤ m := by
  by_cases hc : c < nc
  · have := h.rows_len (st.buf.getD c []) (by
      simp only [List.getD_eq_getElem?_getD]
      rw [List.getElem?_eq_getElem (by rw [h.buf_len]; exact hc)]
      simp)
    simp only [bufRows]; omega
  · have : st.buf.length ≤ c := by rw [h.buf_len]; omega
    simp [bufRows, List.getD_eq_getElem?_getD, List.getElem?_eq_none this]

theorem Shape.bufRows_len_eq {nc m : Nat} {st : St α} (h : Shape nc m st) {c : Nat} (hc : c < nc) :
    (bufRows st c).length = m := by
  have := h.rows_len (st.buf.getD c []) (by
    simp only [List.getD_eq_getElem?_getD]
    rw [List.getElem?_eq_getElem (by rw [h.buf_len]; exact hc)]
    simp)
  simpa only [bufRows] using this

/-- One loop iteration on a well-formed batch: never raises, keeps the invariant, emits only
full batches, and conserves every column: emitted ++ buffered = previously buffered ++ batch. -/
theorem step_spec {t nc r : Nat} (ht : 0 < t) (hnc : 0 < nc) (pad : Option α) {st : St α}
    (hinv : Inv t nc st) {b : Batch α} (hb : Rect nc r b) :
    ∃ st' o, step t nc pad st b = .ok (st', o) ∧ Inv t nc st' ∧ (∀ b' ∈ o, Rect nc t b') ∧
      ∀ c, colConcat o c ++ bufRows st' c = bufRows st c ++ colRows b c := by
  obtain ⟨m, hmt, hsh⟩ := hinv
  rw [step_eq hsh hb hnc]
  have hsh' := push_shape hsh hb
  have hrows := fun c => bufRows_push hsh hb c
  generalize push st b = st1 at *
  generalize hM : m + r = M at *
  by_cases hlt : M = 0 ∨ M < t
  · refine ⟨st1, [], flush_noop hsh' hnc pad false (hlt.imp id fun h => ⟨h, rfl⟩),
      ⟨M, ?_, hsh'⟩, by simp, ?_⟩
    · omega
    · intro c; simp [hrows]
  · have hMpos : 0 < M := by omega
    have hge : t ≤ M := by omega
    rw [flush_go hsh' hnc ht hMpos pad false (Or.inl hge)]
    have hk : nsl t M = (nsl t M - 1) + 1 := by have := nsl_pos ht hMpos; omega
    have hnge := nsl_ge ht M
    have hnlt := nsl_lt ht hMpos
    rw [hk] at hnge
    generalize nsl t M - 1 = K at *
    have hmul : (K + 1) * t = K * t + t := Nat.succ_mul K t
    simp only [hmul] at hnge ⊢
    have hfull : ∀ j, j < K → Rect nc t (sliceAt t (st1.buf.map concatT) j) := by
      intro j hj
      have h1 := sliceAt_rect hsh' hMpos t j
      have : (j + 1) * t ≤ K * t := Nat.mul_le_mul_right t hj
      rw [Nat.succ_mul] at this
      have e : min t (M - j * t) = t := by omega
      rwa [e] at h1
    have hrect := sliceAt_rect hsh' hMpos t K
    by_cases he : M = K * t + t
    · simp only [he, if_true]
      refine ⟨_, _, rfl, Inv.init ht nc, ?_, ?_⟩
      · intro b' hb'
        rcases List.mem_append.mp hb' with hb' | hb'
        · simp only [List.mem_map, List.mem_range] at hb'
          obtain ⟨j, hj, rfl⟩ := hb'
          exact hfull j hj
        · simp only [List.mem_singleton] at hb'
          subst hb'
          have e : min t (M - K * t) = t := by omega
          rwa [e] at hrect
      · intro c
        have hl := hsh'.bufRows_len c
        rw [bufRows_init, List.append_nil, ← hrows c]
        have : (List.range K).map (sliceAt t (st1.buf.map concatT)) ++ [sliceAt t (st1.buf.map concatT) K]
            = (List.range (K + 1)).map (sliceAt t (st1.buf.map concatT)) := by
          rw [List.range_succ, List.map_append, List.map_singleton]
        rw [this, colConcat_slices, List.take_of_length_le]
        rw [hmul]; omega
    · simp only [he, if_false, Bool.false_eq_true]
      have e : min t (M - K * t) = M - K * t := by omega
      rw [e] at hrect
      refine ⟨_, _, rfl, ⟨M - K * t, by omega, carry_shape hrect⟩, ?_, ?_⟩
      · intro b' hb'
        simp only [List.mem_map, List.mem_range] at hb'
        obtain ⟨j, hj, rfl⟩ := hb'
        exact hfull j hj
      · intro c
        rw [bufRows_carry, colConcat_slices, colRows_sliceAt, ← hrows c]
        have hl := hsh'.bufRows_len c
        have e2 : ((bufRows st1 c).drop (K * t)).take t = (bufRows st1 c).drop (K * t) :=
          List.take_of_length_le (by simp; omega)
        rw [e2, List.take_append_drop]

theorem padding_mod (t : Nat) (pad : Option α) (n : Nat) : padding t pad (n % t) = padding t pad n := by
  cases pad <;> simp [padding]

theorem padT_rect {nc m t : Nat} {b : Batch α} (h : Rect nc m b) (hmt : m ≤ t) (p : α) :
    Rect nc t (padT b p t) := by
  refine ⟨by simp [padT, h.1], ?_⟩
  intro c hc
  simp only [padT, List.mem_map] at hc
  obtain ⟨c', hc', rfl⟩ := hc
  have := h.2 c' hc'
  refine ⟨this.1, ?_⟩
  simp [this.2]; omega

theorem colRows_padT {nc m : Nat} {b : Batch α} (h : Rect nc m b) (p : α) (t : Nat) {c : Nat}
    (hc : c < nc) : colRows (padT b p t) c = colRows b c ++ List.replicate (t - m) p := by
  have hl : c < b.length := by rw [h.1]; exact hc
  have := (h.2 b[c] (List.getElem_mem hl)).2
  simp [colRows, padT, List.getD_eq_getElem?_getD, List.getElem?_eq_getElem hl, this]

/-- the final iteration (source exhausted): flushes what is buffered as one last batch -/
theorem finish_spec {t nc m : Nat} (ht : 0 < t) (hnc : 0 < nc) (pad : Option α) {st : St α}
    (hsh : Shape nc m st) (hmt : m < t) :
    ∃ o, finish t pad st = .ok o ∧ (m = 0 → o = []) ∧
      (0 < m → ∃ last, o = [last] ∧ Rect nc (if pad.isSome then t else m) last) ∧
      ∀ c, c < nc → colConcat o c = bufRows st c ++ padding t pad m := by
  unfold finish
  by_cases hm : m = 0
  · rw [flush_noop hsh hnc pad true (Or.inl hm)]
    refine ⟨[], rfl, fun _ => rfl, fun h => by omega, ?_⟩
    intro c hc
    have := hsh.bufRows_len c
    have e : bufRows st c = [] := List.length_eq_zero_iff.mp (by omega)
    subst hm
    cases pad <;> simp [padding, e]
  · have hmpos : 0 < m := by omega
    rw [flush_go hsh hnc ht hmpos pad true (Or.inr rfl)]
    have hK : nsl t m - 1 = 0 := by rw [nsl_of_lt hmpos (by omega)]
    have hne : ¬ m = (0 + 1) * t := by omega
    simp only [hK, hne, if_false, if_true, List.range_zero, List.map_nil, List.nil_append]
    have hrect := sliceAt_rect hsh hmpos t 0
    have e : min t (m - 0 * t) = m := by omega
    rw [e] at hrect
    have hcol : ∀ c, colRows (sliceAt t (st.buf.map concatT) 0) c = bufRows st c := by
      intro c
      rw [colRows_sliceAt]
      have := hsh.bufRows_len c
      simp only [Nat.zero_mul, List.drop_zero]
      exact List.take_of_length_le (by omega)
    have hmod : m % t = m := Nat.mod_eq_of_lt hmt
    have hmod2 : (t - m) % t = t - m := Nat.mod_eq_of_lt (by omega)
    cases pad with
    | none =>
      refine ⟨_, rfl, fun h => by omega, fun _ => ⟨_, rfl, by simpa using hrect⟩, ?_⟩
      intro c _
      simp [colConcat, hcol, padding]
    | some p =>
      refine ⟨_, rfl, fun h => by omega, fun _ => ⟨_, rfl, ?_⟩, ?_⟩
      · simpa using padT_rect hrect (by omega) p
      · intro c hc
        simp [colConcat, colRows_padT hrect p t hc, hcol, padding, hmod, hmod2]

theorem WF.append {nc : Nat} {xs ys : List (Batch α)} : WF nc (xs ++ ys) ↔ WF nc xs ∧ WF nc ys := by
  simp only [WF, List.mem_append]
  constructor
  · intro h; exact ⟨fun b hb => h b (Or.inl hb), fun b hb => h b (Or.inr hb)⟩
  · rintro ⟨h1, h2⟩ b (hb | hb); exact h1 b hb; exact h2 b hb

theorem WF.cons {nc : Nat} {b : Batch α} {bs : List (Batch α)} :
    WF nc (b :: bs) ↔ Rect nc (nrows b) b ∧ WF nc bs := by
  simp [WF]

theorem feed_spec {t nc : Nat} (ht : 0 < t) (hnc : 0 < nc) (pad : Option α) :
    ∀ (bs : List (Batch α)) (st : St α), Inv t nc st → WF nc bs →
      (feed t nc pad st bs).err = none ∧ Inv t nc (feed t nc pad st bs).st ∧
      (∀ b' ∈ (feed t nc pad st bs).out, Rect nc t b') ∧
      ∀ c, colConcat (feed t nc pad st bs).out c ++ bufRows (feed t nc pad st bs).st c
            = bufRows st c ++ colConcat bs c := by
  intro bs
  induction bs with
  | nil => intro st hinv _; simp [feed, hinv]
  | cons b bs ih =>
    intro st hinv hwf
    rw [WF.cons] at hwf
    obtain ⟨st', o, hstep, hinv', hfull, hcons⟩ := step_spec ht hnc pad hinv hwf.1
    obtain ⟨h1, h2, h3, h4⟩ := ih st' hinv' hwf.2
    simp only [feed, hstep]
    refine ⟨h1, h2, ?_, ?_⟩
    · intro b' hb'
      rcases List.mem_append.mp hb' with hb' | hb'
      · exact hfull b' hb'
      · exact h3 b' hb'
    · intro c
      rw [colConcat_append, List.append_assoc, h4 c, ← List.append_assoc, hcons c]
      simp

theorem feed_append {t nc : Nat} (pad : Option α) :
    ∀ (xs ys : List (Batch α)) (st : St α), (feed t nc pad st xs).err = none →
      feed t nc pad st (xs ++ ys) =
        ⟨(feed t nc pad (feed t nc pad st xs).st ys).st,
         (feed t nc pad st xs).out ++ (feed t nc pad (feed t nc pad st xs).st ys).out,
         (feed t nc pad (feed t nc pad st xs).st ys).err⟩ := by
  intro xs
  induction xs with
  | nil => intro ys st _; simp [feed]
  | cons b xs ih =>
    intro ys st h
    simp only [List.cons_append, feed] at h ⊢
    cases hs : step t nc pad st b with
    | error e => simp [hs] at h
    | ok v =>
      obtain ⟨st', o⟩ := v
      simp only [hs] at h ⊢
      rw [ih ys st' h]
      simp

theorem runFrom_eq_feed {t nc : Nat} (pad : Option α) :
    ∀ (bs : List (Batch α)) (st : St α) (acc : List (Batch α)),
      runFrom t nc pad st acc bs =
        match (feed t nc pad st bs).err with
        | some e => ⟨acc ++ (feed t nc pad st bs).out, some e⟩
        | none =>
          match finish t pad (feed t nc pad st bs).st with
          | .ok o => ⟨acc ++ (feed t nc pad st bs).out ++ o, none⟩
          | .error e => ⟨acc ++ (feed t nc pad st bs).out, some e⟩ := by
  intro bs
  induction bs with
  | nil => intro st acc; simp only [runFrom, feed]; cases finish t pad st <;> simp
  | cons b bs ih =>
    intro st acc
    simp only [runFrom, feed]
    cases hs : step t nc pad st b with
    | error e => simp
    | ok v =>
      obtain ⟨st', o⟩ := v
      simp only [ih]
      cases (feed t nc pad st' bs).err with
      | some e => simp
      | none => simp only []; cases finish t pad (feed t nc pad st' bs).st <;> simp

theorem effCols_eq {nc numColumns : Nat} {bs : List (Batch α)} (hnc : 0 < nc)
    (hcols : numColumns = nc ∨ numColumns = 0) (hwf : WF nc bs) (hne : bs ≠ []) :
    effCols numColumns bs = nc := by
  rcases hcols with h | h
  · subst h; simp [effCols]; omega
  · subst h
    cases bs with
    | nil => exact absurd rfl hne
    | cons b bs => simpa [effCols] using (hwf b (by simp)).1

theorem runFrom_nil_init (t nc : Nat) (pad : Option α) :
    runFrom t nc pad (St.init nc) [] ([] : List (Batch α)) = ⟨[], none⟩ := by
  cases nc with
  | zero => simp [runFrom, finish, flush, St.init]; rfl
  | succ n =>
    have := flush_noop (Shape.init (n + 1) (α := α)) (by omega) pad true (t := t) (Or.inl rfl)
    simp [runFrom, finish, this]; rfl

theorem run_eq {t nc numColumns : Nat} (ht : 0 < t) (hnc : 0 < nc)
    (hcols : numColumns = nc ∨ numColumns = 0) (pad : Option α) {bs : List (Batch α)}
    (hwf : WF nc bs) :
    run t numColumns pad bs = runFrom t nc pad (St.init nc) [] bs := by
  have ht0 : (t == 0) = false := by simp; omega
  unfold run
  simp only [ht0, Bool.false_eq_true, if_false]
  rcases hcols with h | h
  · subst h
    have : (numColumns != 0) = true := by simp; omega
    simp [this]
  · subst h
    cases bs with
    | nil => simp [runFrom_nil_init]
    | cons b bs =>
      have := (hwf b (by simp)).1
      simp [this]

theorem online_eq {t nc numColumns : Nat} (ht : 0 < t) (hnc : 0 < nc)
    (hcols : numColumns = nc ∨ numColumns = 0) (pad : Option α) {bs : List (Batch α)}
    (hwf : WF nc bs) :
    online t numColumns pad bs = (feed t nc pad (St.init nc) bs).out := by
  have ht0 : (t == 0) = false := by simp; omega
  unfold online
  simp only [ht0, Bool.false_eq_true, if_false]
  cases bs with
  | nil => simp [feed]
  | cons b bs => rw [effCols_eq hnc hcols hwf (by simp)]

theorem length_colRows_of_rect {nc r : Nat} {b : Batch α} (h : Rect nc r b) {c : Nat} (hc : c < nc) :
    (colRows b c).length = r := h.colRows_len hc

theorem length_colConcat {nc : Nat} {bs : List (Batch α)} (hwf : WF nc bs) {c : Nat}
    (hc : c < nc) : (colConcat bs c).length = totalRows bs := by
  induction bs with
  | nil => rfl
  | cons b bs ih =>
    rw [WF.cons] at hwf
    simp only [colConcat_cons, List.length_append, totalRows, List.map_cons, List.sum_cons]
    rw [hwf.1.colRows_len hc, ih hwf.2]; rfl

theorem wf_of_rect {nc r : Nat} (hnc : 0 < nc) {bs : List (Batch α)} (h : ∀ b ∈ bs, Rect nc r b) :
    WF nc bs := fun b hb => by rw [(h b hb).nrows hnc]; exact h b hb

theorem totalRows_of_rect {nc r : Nat} (hnc : 0 < nc) {bs : List (Batch α)}
    (h : ∀ b ∈ bs, Rect nc r b) : totalRows bs = bs.length * r := by
  induction bs with
  | nil => simp [totalRows]
  | cons b bs ih =>
    have h1 := (h b (by simp)).nrows hnc
    have h2 := ih (fun b' hb' => h b' (by simp [hb']))
    simp only [totalRows, List.map_cons, List.sum_cons, List.length_cons] at h2 ⊢
    rw [h2, h1, Nat.succ_mul]; omega

/-- Everything about a run on a well-formed stream, in one statement (`full` = the batches
yielded online, `fin` = the final flush, `m` = rows still buffered when the source ends). -/
theorem run_spec {t nc numColumns : Nat} (ht : 0 < t) (hnc : 0 < nc)
    (hcols : numColumns = nc ∨ numColumns = 0) (pad : Option α) {bs : List (Batch α)}
    (hwf : WF nc bs) :
    ∃ fin : List (Batch α), ∃ m : Nat,
      run t numColumns pad bs = ⟨online t numColumns pad bs ++ fin, none⟩ ∧
      (∀ b ∈ online t numColumns pad bs, Rect nc t b) ∧
      totalRows bs = (online t numColumns pad bs).length * t + m ∧ m < t ∧
      (m = 0 → fin = []) ∧
      (0 < m → ∃ last, fin = [last] ∧ Rect nc (if pad.isSome then t else m) last) ∧
      ∀ c, c < nc → colConcat (online t numColumns pad bs ++ fin) c
                      = colConcat bs c ++ padding t pad (totalRows bs) := by
  rw [run_eq ht hnc hcols pad hwf, online_eq ht hnc hcols pad hwf, runFrom_eq_feed]
  obtain ⟨herr, ⟨m, hmt, hsh⟩, hfull, hcons⟩ := feed_spec ht hnc pad bs _ (Inv.init ht nc) hwf
  obtain ⟨fin, hfin, hfin0, hfin1, hfinc⟩ := finish_spec ht hnc pad hsh hmt
  have htot : totalRows bs = (feed t nc pad (St.init nc) bs).out.length * t + m := by
    have := congrArg List.length (hcons 0)
    rw [List.length_append, List.length_append, length_colConcat hwf hnc,
      length_colConcat (wf_of_rect hnc hfull) hnc, totalRows_of_rect hnc hfull,
      hsh.bufRows_len_eq hnc, bufRows_init] at this
    simp at this; omega
  refine ⟨fin, m, ?_, hfull, htot, hmt, hfin0, hfin1, ?_⟩
  · simp [herr, hfin]
  · intro c hc
    have hmod : totalRows bs % t = m := by
      rw [htot, Nat.mul_comm, Nat.mul_add_mod]; exact Nat.mod_eq_of_lt hmt
    rw [colConcat_append, hfinc c hc, ← List.append_assoc, hcons c, bufRows_init,
      List.nil_append, ← padding_mod t pad (totalRows bs), hmod]

/-! ## Alignment, the error branches, and column-count deduction -/

theorem getElem?_flatten_offset {β : Type} :
    ∀ (L : List (List β)) (j i : Nat) (x : List β), L[j]? = some x → i < x.length →
      L.flatten[((L.take j).map List.length).sum + i]? = x[i]? := by
  intro L
  induction L with
  | nil => intro j i x h; simp at h
  | cons a L ih =>
    intro j i x h hi
    cases j with
    | zero =>
      simp only [List.getElem?_cons_zero, Option.some.injEq] at h
      subst h
      simp [List.getElem?_append_left hi]
    | succ j =>
      simp only [List.getElem?_cons_succ] at h
      simp only [List.take_succ_cons, List.map_cons, List.sum_cons, List.flatten_cons]
      rw [Nat.add_assoc, List.getElem?_append_right (by omega), Nat.add_sub_cancel_left]
      exact ih j i x h hi

theorem sum_length_colRows {nc : Nat} {bs : List (Batch α)} (hwf : WF nc bs) {c : Nat}
    (hc : c < nc) : ((bs.map (colRows · c)).map List.length).sum = totalRows bs := by
  rw [← List.length_flatten]; exact length_colConcat hwf hc

theorem WF.take {nc : Nat} {bs : List (Batch α)} (hwf : WF nc bs) (j : Nat) : WF nc (bs.take j) :=
  fun b hb => hwf b (List.mem_of_mem_take hb)

theorem step_bad_cols {t nc : Nat} (pad : Option α) (st : St α) {b : Batch α} (hb : b.length ≠ nc) :
    step t nc pad st b = .error .value := by
  unfold step
  simp [hb]
  rfl

theorem step_bad_lens {t nc m : Nat} (pad : Option α) {st : St α} (hsh : Shape nc m st)
    (hnc : 0 < nc) {b : Batch α} (hlen : b.length = nc)
    (hbad : ¬ ∀ c ∈ b, c.rows.length = nrows b) :
    step t nc pad st b = .error .value := by
  have hne : b.isEmpty = false := by
    cases b with
    | nil => simp at hlen; omega
    | cons => rfl
  have hsz : List.zipWith (· + ·) st.sizes (b.map fun c => c.rows.length)
      = b.map fun c => m + c.rows.length := by
    rw [hsh.sizes_eq]
    apply List.ext_getElem
    · simp [hlen]
    · intro i h1 h2; simp
  have hall : allEq (b.map fun c => m + c.rows.length) = false := by
    cases hb : b with
    | nil => rw [hb] at hne; simp at hne
    | cons c0 l =>
      rw [Bool.eq_false_iff]
      intro h
      apply hbad
      rw [hb]
      simp only [allEq, List.map_cons, List.headD_cons, List.all_eq_true] at h
      intro c hc
      have := h (m + c.rows.length) (by
        rcases List.mem_cons.mp hc with e | e
        · subst e; simp
        · exact List.mem_cons_of_mem _ (List.mem_map.mpr ⟨c, e, rfl⟩))
      simp only [beq_iff_eq] at this
      simp only [nrows, List.headD_cons]; omega
  unfold step
  simp [hlen, hne, hsz, hall]
  rfl

theorem effCols_append {numColumns : Nat} {xs : List (Batch α)} (ys : List (Batch α)) (hne : xs ≠ []) :
    effCols numColumns (xs ++ ys) = effCols numColumns xs := by
  cases xs with
  | nil => exact absurd rfl hne
  | cons b xs => simp [effCols]

theorem run_eq_eff {t numColumns : Nat} (ht : 0 < t) (pad : Option α) {bs : List (Batch α)}
    (hne : bs ≠ []) :
    run t numColumns pad bs
      = runFrom t (effCols numColumns bs) pad (St.init (effCols numColumns bs)) [] bs := by
  have ht0 : (t == 0) = false := by simp; omega
  unfold run effCols
  simp only [ht0, Bool.false_eq_true, if_false]
  cases bs with
  | nil => exact absurd rfl hne
  | cons b bs => by_cases h : numColumns = 0 <;> simp [h]

section RowView
variable {β : Type}

/-! ## Row view (for `TreeFn._iterate`) -/

/-- the rows `0..n-1` read across the columns `X 0 .. X (nc-1)` -/
def rowsOfCols [Inhabited α] (nc : Nat) (X : Nat → List α) (n : Nat) : List (List α) :=
  (List.range n).map fun i => (List.range nc).map fun c => (X c).getD i default

theorem map_eq_range_map {γ δ : Type} (l : List γ) (d : γ) (f : γ → δ) :
    l.map f = (List.range l.length).map fun i => f (l.getD i d) := by
  apply List.ext_getElem
  · simp
  · intro i h1 h2
    simp at h1
    simp [List.getD_eq_getElem?_getD, List.getElem?_eq_getElem h1]

theorem rowsOf_eq [Inhabited α] {nc r : Nat} {b : Batch α} (h : Rect nc r b) :
    rowsOf b = rowsOfCols nc (colRows b) (nrows b) := by
  simp only [rowsOf, rowsOfCols]
  apply List.map_congr_left
  intro i _
  rw [map_eq_range_map b default, h.1]
  rfl

theorem rowsOfCols_congr [Inhabited α] {nc : Nat} {X Y : Nat → List α} (n : Nat)
    (h : ∀ c, c < nc → X c = Y c) : rowsOfCols nc X n = rowsOfCols nc Y n := by
  simp only [rowsOfCols]
  apply List.map_congr_left
  intro i _
  apply List.map_congr_left
  intro c hc
  rw [h c (by simpa using hc)]

theorem rowsOfCols_append [Inhabited α] {nc a : Nat} {A B : Nat → List α} (n : Nat)
    (hA : ∀ c, c < nc → (A c).length = a) :
    rowsOfCols nc (fun c => A c ++ B c) (a + n) = rowsOfCols nc A a ++ rowsOfCols nc B n := by
  simp only [rowsOfCols, List.range_add, List.map_append, List.map_map]
  congr 1
  · apply List.map_congr_left
    intro i hi
    apply List.map_congr_left
    intro c hc
    have hi : i < a := by simpa using hi
    have hc : c < nc := by simpa using hc
    simp [List.getD_eq_getElem?_getD, List.getElem?_append_left (by rw [hA c hc]; exact hi)]
  · apply List.map_congr_left
    intro i _
    apply List.map_congr_left
    intro c hc
    have hc : c < nc := by simpa using hc
    have h1 : (A c).length ≤ a + i := by rw [hA c hc]; omega
    simp [List.getD_eq_getElem?_getD, List.getElem?_append_right h1, hA c hc]

theorem flatMap_rowsOf [Inhabited α] {nc : Nat} {xs : List (Batch α)} (hwf : WF nc xs) :
    xs.flatMap rowsOf = rowsOfCols nc (colConcat xs) (totalRows xs) := by
  induction xs with
  | nil => simp [rowsOfCols, totalRows]
  | cons b xs ih =>
    rw [WF.cons] at hwf
    rw [List.flatMap_cons, ih hwf.2, rowsOf_eq hwf.1]
    have : totalRows (b :: xs) = nrows b + totalRows xs := by simp [totalRows]
    rw [this]
    exact (rowsOfCols_append (A := colRows b) (B := colConcat xs) (totalRows xs)
      (fun c hc => hwf.1.colRows_len hc)).symm

/-- the rows of a well-formed stream depend only on its column concatenations -/
theorem flatMap_rowsOf_congr [Inhabited α] {nc : Nat} (hnc : 0 < nc) {xs ys : List (Batch α)}
    (hx : WF nc xs) (hy : WF nc ys) (h : ∀ c, c < nc → colConcat xs c = colConcat ys c) :
    xs.flatMap rowsOf = ys.flatMap rowsOf := by
  rw [flatMap_rowsOf hx, flatMap_rowsOf hy, ← length_colConcat hx hnc, ← length_colConcat hy hnc,
    h 0 hnc]
  exact rowsOfCols_congr _ h

theorem length_rowsOf [Inhabited α] (b : Batch α) : (rowsOf b).length = nrows b := by
  simp [rowsOf]

theorem mapRows_rect [Inhabited α] [Inhabited β] (g : List α → List β) {kinds : List Kind}
    (hk : ∀ k ∈ kinds, k ≠ .other) (b : Batch α) :
    Rect kinds.length (nrows b) (mapRows g kinds b) := by
  refine ⟨by simp [mapRows, ofRows], ?_⟩
  intro c hc
  simp only [mapRows, ofRows, List.mem_map, List.mem_range] at hc
  obtain ⟨i, hi, rfl⟩ := hc
  refine ⟨?_, by simp [length_rowsOf]⟩
  simp only [List.getD_eq_getElem?_getD, List.getElem?_eq_getElem hi, Option.getD_some]
  exact hk _ (List.getElem_mem hi)

theorem colRows_mapRows [Inhabited α] [Inhabited β] (g : List α → List β) {kinds : List Kind}
    (b : Batch α) {c : Nat} (hc : c < kinds.length) :
    colRows (mapRows g kinds b) c = (rowsOf b).map fun r => (g r).getD c default := by
  simp [colRows, mapRows, ofRows, List.getD_eq_getElem?_getD, hc]

theorem colConcat_mapRows [Inhabited α] [Inhabited β] (g : List α → List β) {kinds : List Kind}
    (xs : List (Batch α)) {c : Nat} (hc : c < kinds.length) :
    colConcat (xs.map (mapRows g kinds)) c
      = (xs.flatMap rowsOf).map fun r => (g r).getD c default := by
  induction xs with
  | nil => rfl
  | cons b xs ih => simp [colRows_mapRows g b hc, ih]

theorem wf_mapRows [Inhabited α] [Inhabited β] (g : List α → List β) {kinds : List Kind}
    (hk : ∀ k ∈ kinds, k ≠ .other) (hn : 0 < kinds.length) (xs : List (Batch α)) :
    WF kinds.length (xs.map (mapRows g kinds)) := by
  intro b hb
  simp only [List.mem_map] at hb
  obtain ⟨b0, _, rfl⟩ := hb
  have := mapRows_rect g hk b0
  rw [this.nrows hn]; exact this

theorem totalRows_mapRows [Inhabited α] [Inhabited β] (g : List α → List β) {kinds : List Kind}
    (hk : ∀ k ∈ kinds, k ≠ .other) (hn : 0 < kinds.length) (xs : List (Batch α)) :
    totalRows (xs.map (mapRows g kinds)) = totalRows xs := by
  induction xs with
  | nil => rfl
  | cons b xs ih =>
    simp only [totalRows, List.map_cons, List.sum_cons] at ih ⊢
    rw [ih, (mapRows_rect g hk b).nrows hn]

theorem map_range_const {γ : Type} (n : Nat) (x : γ) :
    (List.range n).map (fun _ => x) = List.replicate n x := by
  apply List.ext_getElem <;> simp

theorem rowsOfCols_replicate [Inhabited α] (nc k : Nat) (p : α) :
    rowsOfCols nc (fun _ => List.replicate k p) k = List.replicate k (List.replicate nc p) := by
  simp only [rowsOfCols]
  have : ∀ i ∈ List.range k, ((List.range nc).map fun _ => (List.replicate k p).getD i default)
      = List.replicate nc p := by
    intro i hi
    have hi : i < k := by simpa using hi
    simp [List.getD_eq_getElem?_getD, hi, map_range_const]
  rw [List.map_congr_left this, map_range_const]

/-! ### row-count-changing batch functions (`flatMapRows`) -/

theorem ofRows_rect [Inhabited β] {kinds : List Kind} (hk : ∀ k ∈ kinds, k ≠ .other)
    (rows : List (List β)) : Rect kinds.length rows.length (ofRows kinds rows) := by
  refine ⟨by simp [ofRows], ?_⟩
  intro c hc
  simp only [ofRows, List.mem_map, List.mem_range] at hc
  obtain ⟨i, hi, rfl⟩ := hc
  refine ⟨?_, by simp⟩
  simp only [List.getD_eq_getElem?_getD, List.getElem?_eq_getElem hi, Option.getD_some]
  exact hk _ (List.getElem_mem hi)

theorem colRows_ofRows [Inhabited β] {kinds : List Kind} (rows : List (List β)) {c : Nat}
    (hc : c < kinds.length) : colRows (ofRows kinds rows) c = rows.map fun r => r.getD c default := by
  simp [colRows, ofRows, List.getD_eq_getElem?_getD, hc]

theorem colConcat_flatMapRows [Inhabited α] [Inhabited β] (g : List α → List (List β))
    {kinds : List Kind} (xs : List (Batch α)) {c : Nat} (hc : c < kinds.length) :
    colConcat (xs.map (flatMapRows g kinds)) c
      = ((xs.flatMap rowsOf).flatMap g).map fun r => r.getD c default := by
  induction xs with
  | nil => rfl
  | cons b xs ih => simp [flatMapRows, colRows_ofRows _ hc, ih]

theorem wf_flatMapRows [Inhabited α] [Inhabited β] (g : List α → List (List β)) {kinds : List Kind}
    (hk : ∀ k ∈ kinds, k ≠ .other) (hn : 0 < kinds.length) (xs : List (Batch α)) :
    WF kinds.length (xs.map (flatMapRows g kinds)) := by
  intro b hb
  simp only [List.mem_map] at hb
  obtain ⟨b0, _, rfl⟩ := hb
  have := ofRows_rect hk ((rowsOf b0).flatMap g)
  simp only [flatMapRows]
  rw [this.nrows hn]; exact this

theorem totalRows_flatMapRows [Inhabited α] [Inhabited β] (g : List α → List (List β))
    {kinds : List Kind} (hk : ∀ k ∈ kinds, k ≠ .other) (hn : 0 < kinds.length)
    (xs : List (Batch α)) :
    totalRows (xs.map (flatMapRows g kinds)) = ((xs.flatMap rowsOf).flatMap g).length := by
  rw [← length_colConcat (wf_flatMapRows g hk hn xs) hn, colConcat_flatMapRows g xs hn]
  simp

end RowView

end MlModel.Rebatch
