import MlModel.Lemmas.PiterClean
/-!
# `Clean` is preserved: steps that only move one thread locally
(`start` of a task, `acquire lock1`, the consumer's `start` / `submit` / `shutdown`)
-/
namespace MlModel.Piter
open MlModel.Queue

variable {F : Nat → Option (List Nat)} {inputs0 : List (List Item)}

theorem nf_early {c : Cfg} (hn : NF c) {t : PThread} (h0 : c.ths[0]? = some t) : t.early = false := hn.2 t h0

theorem get_set0 {c : Cfg} {t t' : PThread} (ht : c.ths[0]? = some t) : (c.ths.set 0 t')[0]? = some t' := by
  have : 0 < c.ths.length := by
    rcases List.getElem?_eq_some_iff.mp ht with ⟨h, _⟩; exact h
  simp [List.getElem?_set_self this]

/-- under `NF`, `beginIter` is the plain start of the iteration -/
theorem beginIter_nf {c : Cfg} {t : PThread} (h : (beginIter c t).early = false) :
    beginIter c t = { t with q := { t.q with pc := .bAcq }, cpc := .iter } := by
  by_cases h0 : c.numSteps = some 0 <;> simp [beginIter, h0] at h ⊢

theorem consOK_begin {c c' : Cfg} {t : PThread} (h : ConsOK c t) (hsh : c'.sh = c.sh)
    (hc : t.cpc = .boot ∨ t.cpc = .submit) :
    ConsOK c' { t with q := { t.q with pc := .bAcq }, cpc := .iter } := by
  refine ⟨fun k hk => by simp at hk, fun hp => by simp at hp, fun hp => by simp at hp, ?_, fun hp => by simp at hp, ?_,
    fun _ => h.live (hc.imp id Or.inl)⟩
  · intro r hr; rw [hsh]; exact h.ended r hr
  · intro hn; rw [hsh]; exact h.noStop hn

theorem clean_pstart {c : Cfg} {tid : Tid} {t : PThread} (hb : Base c) (hc : Clean F inputs0 c)
    (ht : c.ths[tid]? = some t) (hp : t.isProd = true) (hpc : t.q.pc = .start) :
    Clean F inputs0 (c.setTh tid { t with q := { t.q with pc := .sAcq } }) := by
  have hmem : t ∈ c.ths := List.mem_of_getElem? ht
  have ho := hc.prod t hmem hp
  refine clean_same hc ht rfl rfl rfl rfl rfl rfl rfl rfl rfl rfl rfl rfl (fun _ => by simp [hpc, pastStart])
    (fun _ => by simp [hpc, pastStop]) (fun _ => rfl) rfl (by simp [itemsOf, handItems, hpc]) ?_
    (fun h => absurd h (ne0_of_prod hb.static ht hp))
  intro _
  refine ⟨?_, ho.okF, fun h => by simp [pastStop] at h, fun h => by simp at h, fun h => by simp at h,
    fun h => by simp at h⟩
  have := ho.bal
  simpa [holdV, hpc, pendPc] using this

theorem clean_iacq {c : Cfg} {tid : Tid} {t : PThread} (hb : Base c) (hc : Clean F inputs0 c)
    (ht : c.ths[tid]? = some t) (hp : t.isProd = true) (hipc : t.ipc = .acq) :
    Clean F inputs0 { c with ilock := some tid, ths := c.ths.set tid { t with ipc := .next } } := by
  have hmem : t ∈ c.ths := List.mem_of_getElem? ht
  have ho := hc.prod t hmem hp
  refine clean_same hc ht rfl rfl rfl rfl rfl rfl rfl rfl rfl rfl rfl rfl (fun _ => rfl) (fun _ => rfl)
    (fun _ => rfl) rfl (by simp [itemsOf, handItems, hipc]) ?_ (fun h => absurd h (ne0_of_prod hb.static ht hp))
  intro _
  exact ⟨ho.bal, ho.okF, ho.stopped, ho.atStop, ho.atNext, fun _ h => by simp at h⟩

theorem clean_cboot0 {c : Cfg} {tid : Tid} {t : PThread} (hb : Base c) (hc : Clean F inputs0 c)
    (hn' : NF (c.setTh tid (beginIter c t))) (ht : c.ths[tid]? = some t) (hp : t.isProd = false)
    (hcp : t.cpc = .boot) : Clean F inputs0 (c.setTh tid (beginIter c t)) := by
  have h0 := nf_tid0 hb.static ht hp
  subst h0
  have hco := hc.cons t ht
  have he' : (beginIter c t).early = false := hn'.2 _ (get_set0 ht)
  rw [beginIter_nf he']
  exact clean_same hc ht rfl rfl rfl rfl rfl rfl rfl rfl rfl rfl rfl rfl (fun h => by simp [hp] at h)
    (fun h => by simp [hp] at h) (fun h => by simp [hp] at h) rfl (by simp [itemsOf, handItems, hp])
    (fun h => by simp [hp] at h) (fun _ => consOK_begin hco rfl (Or.inl hcp))

theorem clean_cboot {c : Cfg} {tid : Tid} {t : PThread} (hb : Base c) (hc : Clean F inputs0 c)
    (ht : c.ths[tid]? = some t) (hp : t.isProd = false) (hcp : t.cpc = .boot) :
    Clean F inputs0 (c.setTh tid { t with cpc := .submit }) := by
  have h0 := nf_tid0 hb.static ht hp
  subst h0
  have hco := hc.cons t ht
  refine clean_same hc ht rfl rfl rfl rfl rfl rfl rfl rfl rfl rfl rfl rfl (fun _ => rfl)
    (fun _ => rfl) (fun _ => rfl) rfl (by simp [itemsOf, handItems, hp])
    (fun h => by simp [hp] at h) (fun _ => ?_)
  exact ⟨hco.naErr, hco.armed, hco.raise, hco.ended, fun h => by simp at h, hco.noStop,
    fun _ => hco.live (Or.inl hcp)⟩

theorem clean_csubmit {c : Cfg} {tid : Tid} {t : PThread} (hb : Base c) (hc : Clean F inputs0 c)
    (hn' : NF { c with nsub := c.nsub + 1,
                       ths := c.ths.set tid (if c.nsub + 1 ≥ c.nProd then beginIter c t else t) })
    (ht : c.ths[tid]? = some t) (hp : t.isProd = false) (hcp : t.cpc = .submit) :
    Clean F inputs0 { c with nsub := c.nsub + 1,
                             ths := c.ths.set tid (if c.nsub + 1 ≥ c.nProd then beginIter c t else t) } := by
  have h0 := nf_tid0 hb.static ht hp
  subst h0
  have hco := hc.cons t ht
  by_cases hge : c.nsub + 1 ≥ c.nProd
  · simp only [hge, if_true] at hn' ⊢
    have he' : (beginIter c t).early = false := hn'.2 _ (get_set0 ht)
    rw [beginIter_nf he']
    exact clean_same hc ht rfl rfl rfl rfl rfl rfl rfl rfl rfl rfl rfl rfl (fun h => by simp [hp] at h)
      (fun h => by simp [hp] at h) (fun h => by simp [hp] at h) rfl (by simp [itemsOf, handItems, hp])
      (fun h => by simp [hp] at h) (fun _ => consOK_begin hco rfl (Or.inr hcp))
  · simp only [hge, if_false]
    refine clean_same hc ht rfl rfl rfl rfl rfl rfl rfl rfl rfl rfl rfl rfl (fun _ => rfl)
      (fun _ => rfl) (fun _ => rfl) rfl rfl (fun h => by simp [hp] at h) (fun _ => ?_)
    exact ⟨hco.naErr, hco.armed, hco.raise, hco.ended, hco.phase, hco.noStop, hco.live⟩

theorem clean_cshutdown {c : Cfg} {tid : Tid} {t : PThread} (hb : Base c) (hc : Clean F inputs0 c)
    (ht : c.ths[tid]? = some t) (hp : t.isProd = false) (hcp : t.cpc = .shutdown) :
    Clean F inputs0 (c.setTh tid { t with cpc := .fin }) := by
  have h0 := nf_tid0 hb.static ht hp
  subst h0
  have hco := hc.cons t ht
  refine clean_same hc ht rfl rfl rfl rfl rfl rfl rfl rfl rfl rfl rfl rfl (fun _ => rfl)
    (fun _ => rfl) (fun _ => rfl) rfl (by simp [itemsOf, handItems, hp])
    (fun h => by simp [hp] at h) (fun _ => ?_)
  exact ⟨hco.naErr, hco.armed, hco.raise, hco.ended, fun _ => hco.phase (Or.inr (Or.inl hcp)), hco.noStop,
    fun h => by simp at h⟩

end MlModel.Piter
