import MlModel.Lemmas.QueueVariantView
import MlModel.Lemmas.QueueStop
/-!
# The termination measure of the IteratorQueue LTS with a FIXED thread bound and silent inert slots

`Phi c` (Lemmas/QueueVariantDefs.lean) weighs with `N = c.ths.length` and gives every thread — also one that has
not started — a share.  A per-queue VIEW of a server with a growing thread list (Lemmas/PrefetchViews.lean: one slot
per server thread, `inertT` — a thread at `start` that never runs — for everybody not working on that queue) needs

* a weight parameter `N` that does not change when a thread is created: any bound `N ≥ c.ths.length` works
  (`stepThread_v` is already stated for an arbitrary `N`);
* slots at `start` that count 0, so that entering / leaving a view changes the measure by exactly the share of the
  embedded thread.

`PsiN N c` is that measure; `psi_step`: it strictly decreases on every step of a thread that has started.
-/
namespace MlModel.Queue

/-- thread part: a slot that has not started counts nothing -/
def potS (N : Nat) (x : Bool) (t : Thread) : Nat := if t.pc = .start then 0 else potT N x t

def PsiN (N : Nat) (c : Cfg) : Nat := potG N c.sh + (c.ths.map (potS N (xEmpty c.sh))).sum

theorem potS_x (N : Nat) (u : Thread) :
    potS N true u ≤ potS N false u + wFlip ∧ potS N false u ≤ potS N true u := by
  unfold potS
  split
  · exact ⟨by omega, by omega⟩
  · exact potT_x N u

theorem potS_of_ne {N : Nat} {x : Bool} {t : Thread} (h : t.pc ≠ .start) : potS N x t = potT N x t := if_neg h

theorem potS_inert (N : Nat) (x : Bool) : potS N x inertT = 0 := rfl

/-- a started thread does not return to `start` -/
theorem stepThread_ne_start {s s' : Shared} {t t' : Thread} {tid : Tid} {alt : Bool} {lbl : String} {kd : PKind}
    (hk : pcKind t.pc = some kd) (h : stepThread s t tid alt = some (lbl, s', t')) : t'.pc ≠ .start := by
  have hns : t.pc ≠ .start := by intro e; rw [e] at hk; cases hk
  obtain ⟨h1, h2, h3⟩ := stepThread_stop lbl s' t' h hns
  intro e
  cases kd with
  | batch =>
    rcases (h1 (Or.inl hk)).2.2.2.2.2.2 with h4 | h4
    · rw [e, hk] at h4; cases h4
    · rw [e] at h4; cases h4
  | get =>
    rcases (h1 (Or.inr hk)).2.2.2.2.2.2 with h4 | h4
    · rw [e, hk] at h4; cases h4
    · rw [e] at h4; cases h4
  | producer =>
    rcases (h2 hk).2.2.1 with h4 | h4
    · rw [e] at h4; cases h4
    · rw [e] at h4; cases h4
  | stopper =>
    rcases (h3 hk).2.2.2.1 with h4 | h4
    · rw [e] at h4; cases h4
    · rw [e] at h4; cases h4

/-- **The measure with a fixed bound strictly decreases** on every step of a started thread. -/
theorem psi_step {N : Nat} {c c' : Cfg} {tid : Tid} {alt : Bool} {lbl : String} {t : Thread} {kd : PKind}
    (hN : c.ths.length ≤ N) (hb : Base c) (ht : c.ths[tid]? = some t) (hk : pcKind t.pc = some kd)
    (hmax : t.prog.kind = .batch → 0 < t.batchMax) (hrn : RN t)
    (h : step c tid alt = some (lbl, c')) : PsiN N c' < PsiN N c := by
  have hmono := done_mono hb h
  obtain ⟨t0, s', t', ht0, hst, rfl⟩ := step_inv h
  rw [ht] at ht0; obtain rfl := Option.some.inj ht0
  have htm : t ∈ c.ths := List.mem_of_getElem? ht
  have htid : tid < c.ths.length := (List.getElem?_eq_some_iff.mp ht).1
  have htok := hb.tok t htm
  have hns : t.pc ≠ .start := by intro e; rw [e] at hk; cases hk
  have hns' : t'.pc ≠ .start := stepThread_ne_start hk hst
  obtain ⟨n1, n2, m1, m2⟩ := hb.wait
  have hbound : ∀ x ∈ wlD c.sh, x < c.ths.length := by
    intro x hx
    obtain ⟨u, hu, _⟩ := (m1 x).mp hx
    exact (List.getElem?_eq_some_iff.mp hu).1
  have hbound2 : ∀ x ∈ wlE c.sh, x < c.ths.length := by
    intro x hx
    obtain ⟨u, hu, _⟩ := (m2 x).mp hx
    exact (List.getElem?_eq_some_iff.mp hu).1
  have hdw : c.sh.deqWait.length ≤ N := by
    have := nodup_length_le _ _ n1 hbound
    unfold wlD at this; simp only [List.length_append] at this; omega
  have hew : c.sh.enqWait.length ≤ N := by
    have := nodup_length_le _ _ n2 hbound2
    unfold wlE at this; simp only [List.length_append] at this; omega
  have hN1 : 1 ≤ N := Nat.le_trans (Nat.lt_of_le_of_lt (Nat.zero_le _) htid) hN
  have hv := stepThread_v lbl s' t' hst N hN1 htok hmax hdw hew (fun e => hrn (by rw [e]))
  obtain ⟨_, _, hq, _⟩ := stepThread_data lbl s' t' hst htok
  have hflip : xEmpty s' = true → xEmpty c.sh = false → flT N c.sh t = wFlip * N := by
    intro h1 h2
    unfold xEmpty at h1 h2
    simp only [Bool.and_eq_true, List.isEmpty_iff, Bool.not_eq_true'] at h1
    have hnd : c.sh.enqueueDone = false := by
      cases hd : c.sh.enqueueDone with
      | false => rfl
      | true =>
        have : s'.enqueueDone = true := hmono hd
        rw [this] at h1; exact absurd h1.2 (by simp)
    rw [hnd] at h2
    simp only [Bool.not_false, Bool.and_true, List.isEmpty_eq_false_iff] at h2
    rw [h1.1, List.append_nil] at hq
    unfold extOf newOf at hq
    unfold flT
    cases hpc : t.pc <;> simp only [hpc] at hq <;>
      (try (simp only [List.append_eq_nil_iff] at hq; exact absurd hq.1 h2))
    · cases hqq : c.sh.q with
      | nil => exact absurd hqq h2
      | cons v r =>
        rw [hqq] at hq
        simp only [List.append_nil, List.cons.injEq, true_and] at hq
        simp [hq]
  have hothers : (c.ths.map (potS N (xEmpty s'))).sum ≤
      (c.ths.map (potS N (xEmpty c.sh))).sum + flT N c.sh t := by
    cases hx' : xEmpty s' <;> cases hx : xEmpty c.sh
    · omega
    · have := sum_map_le_add (potS N true) (potS N false) 0 c.ths
        (fun u _ => by have := (potS_x N u).2; omega)
      omega
    · have := sum_map_le_add (potS N false) (potS N true) wFlip c.ths
        (fun u _ => (potS_x N u).1)
      rw [hflip hx' hx]
      have : wFlip * c.ths.length ≤ wFlip * N := Nat.mul_le_mul_left _ hN
      omega
    · omega
  have hset := sum_map_set (potS N (xEmpty s')) (b := t') ht
  rw [potS_of_ne hns, potS_of_ne hns'] at hset
  unfold PsiN
  show potG N s' + ((c.ths.set tid t').map (potS N (xEmpty s'))).sum <
    potG N c.sh + (c.ths.map (potS N (xEmpty c.sh))).sum
  omega

/-- replacing one slot changes the measure by the difference of the two shares -/
theorem psi_set {N : Nat} {s : Shared} {l : List Thread} {i : Tid} {a b : Thread} (h : l[i]? = some a) :
    PsiN N { sh := s, ths := l.set i b } + potS N (xEmpty s) a = PsiN N { sh := s, ths := l } + potS N (xEmpty s) b := by
  unfold PsiN
  have := sum_map_set (potS N (xEmpty s)) (b := b) h
  simp only
  omega

theorem psi_append_inert {N : Nat} {s : Shared} {l : List Thread} :
    PsiN N { sh := s, ths := l ++ [inertT] } = PsiN N { sh := s, ths := l } := by
  unfold PsiN
  simp [potS_inert]

/-- a `get_batch` consumer about to call holds at least the price of a call -/
theorem potS_bAcq_ge {N : Nat} {x : Bool} {t : Thread} (h : t.pc = .bAcq) : 19 + 2 * wE ≤ potS N x t := by
  unfold potS potT basePot
  simp [h]
  omega

theorem potS_done {N : Nat} {x : Bool} {t : Thread} (h : t.pc = .done) : potS N x t = 0 := by
  unfold potS potT basePot srcLen
  simp [h]

end MlModel.Queue
