import MlModel.Model.PipeAggCarry
import MlModel.Lemmas.PipeAggMain
/-!
# A carried-in aggregation state: `_RunnerIterator.__init__`'s filter is the identity on every state the
runner itself produced, hence running the rest of a stream from a carried state = running the whole stream
-/
namespace MlModel.PipeAgg
open MlModel MlModel.Agg

variable {X S Rv : Type} {P : Pipeline X S Rv}

/-- every key of the state — un-sliced or per-slice — names one of the runner's aggregates -/
def Owned (P : Pipeline X S Rv) (st : State S) : Prop := ∀ k ∈ AList.keys st, ownedBy P k = true

theorem ownedBy_of_mem {a : Agg X S Rv} (ha : a ∈ P.aggs) (k : SliceKey) : ownedBy P ⟨a.out, k⟩ = true := by
  unfold ownedBy
  rw [List.any_eq_true]
  exact ⟨a, ha, by simp⟩

theorem ownedBy_of_metrics {a : Agg X S Rv} (ha : a ∈ P.aggs) {mk : MetricKey} (h : mk.metrics = a.out) :
    ownedBy P mk = true := by
  cases mk with
  | mk m s => simp only at h; subst h; exact ownedBy_of_mem ha s

/-- **the filter of `__init__` keeps EVERY entry of an owned state** -/
theorem initFilter_of_owned {st : State S} (h : Owned P st) : initFilter P st = st := by
  unfold initFilter
  rw [List.filter_eq_self]
  intro e he
  exact h e.1 (List.mem_map_of_mem (f := (·.1)) he)

theorem owned_createState (P : Pipeline X S Rv) : Owned P (createState P) := by
  intro k hk
  obtain ⟨a, ha, rfl⟩ := (mem_keys_createState P k).mp hk
  exact ownedBy_of_mem ha _

theorem owned_nil (P : Pipeline X S Rv) : Owned P ([] : State S) := by
  intro k hk; cases hk

theorem owned_initFilter (P : Pipeline X S Rv) (st : State S) : Owned P (initFilter P st) := by
  intro k hk
  obtain ⟨e, he, rfl⟩ := List.mem_map.mp hk
  exact (List.mem_filter.mp he).2

/-- the keys one `update_state` call writes belong to the runner's aggregates -/
theorem plan_keys_owned {b : Batch} {us : List (Upd X S Rv)} (h : plan P b = .ok us) :
    ∀ u ∈ us, ownedBy P u.key = true := by
  intro u hu
  obtain ⟨a, ha, us', hpa, hu'⟩ := plan_mem h hu
  exact ownedBy_of_metrics ha (planAgg_mem hpa hu').2.1

theorem owned_foldl_apply {st : State S} (h : Owned P st) {us : List (Upd X S Rv)}
    (hu : ∀ u ∈ us, ownedBy P u.key = true) : Owned P (us.foldl Upd.apply st) := by
  intro k hk
  rcases (mem_keys_foldl_apply k us st).mp hk with h1 | ⟨u, hu1, rfl⟩
  · exact h k h1
  · exact hu u hu1

theorem owned_updateState {st st' : State S} {b : Batch} (h : Owned P st)
    (hu : updateState P st b = .ok st') : Owned P st' := by
  obtain ⟨us, hp, rfl⟩ := updateState_ok hu
  exact owned_foldl_apply h (plan_keys_owned hp)

/-- **every state a runner reaches from an owned state is owned**: the slice entries `update_state` adds
dynamically included -/
theorem owned_runFrom {bs : List Batch} : ∀ {st st' : State S}, Owned P st →
    runFrom P st bs = .ok st' → Owned P st' := by
  induction bs with
  | nil => intro st st' h hr; simp only [runFrom] at hr; cases hr; exact h
  | cons b bs ih =>
    intro st st' h hr
    simp only [runFrom] at hr
    cases hu : updateState P st b with
    | error e => rw [hu] at hr; cases hr
    | ok st1 => rw [hu] at hr; exact ih (owned_updateState h hu) hr

theorem owned_run {bs : List Batch} {st : State S} (h : run P bs = .ok st) : Owned P st :=
  owned_runFrom (owned_createState P) h

/-- `runFrom` over a concatenated stream = `runFrom` over the first part, then over the rest from the
state reached (failures included: the first failing batch decides) -/
theorem runFrom_append (P : Pipeline X S Rv) (xs ys : List Batch) : ∀ (st : State S),
    runFrom P st (xs ++ ys) =
      match runFrom P st xs with
      | .error e => .error e
      | .ok st' => runFrom P st' ys := by
  induction xs with
  | nil => intro st; rfl
  | cons b xs ih =>
    intro st
    simp only [List.cons_append, runFrom]
    cases updateState P st b with
    | error e => rfl
    | ok st1 => exact ih st1

theorem startState_none (P : Pipeline X S Rv) : startState P none = createState P :=
  initFilter_of_owned (owned_createState P)

theorem startState_owned {st : State S} (h : Owned P st) (hne : st = [] → createState P = []) :
    startState P (some st) = st := by
  unfold startState
  cases st with
  | nil => simp [List.isEmpty, hne rfl, initFilter]
  | cons e rest => simp only [List.isEmpty]; exact initFilter_of_owned h

/-- a state the runner reached from `create_state()` is empty only if `create_state()` is -/
theorem run_nil_createState {bs : List Batch} {st : State S} (h : run P bs = .ok st) (he : st = []) :
    createState P = [] := by
  obtain ⟨uss, _, rfl⟩ := run_ok h
  cases hc : createState P with
  | nil => rfl
  | cons e rest =>
    exfalso
    have : e.1 ∈ AList.keys (uss.flatten.foldl Upd.apply (createState P)) := by
      rw [mem_keys_foldl_apply]; left; rw [hc]; simp [AList.keys]
    rw [he] at this
    cases this

/-- `iterate(rest, state=st)` for a state `st` reached by this runner: the filter drops nothing -/
theorem iterateWith_run {xs : List Batch} {st : State S} (h : run P xs = .ok st) (ys : List Batch) :
    iterateWith P (some st) ys = runFrom P st ys := by
  unfold iterateWith
  rw [startState_owned (owned_run h) (run_nil_createState h)]

theorem iterateWith_none (P : Pipeline X S Rv) (bs : List Batch) : iterateWith P none bs = run P bs := by
  unfold iterateWith run
  rw [startState_none]

theorem carriedFrom_run : ∀ (parts : List (List Batch)) {xs : List Batch} {st : State S},
    run P xs = .ok st → carriedFrom P st parts = runFrom P st parts.flatten := by
  intro parts
  induction parts with
  | nil => intro xs st _; rfl
  | cons p ps ih =>
    intro xs st h
    simp only [carriedFrom, List.flatten_cons]
    rw [iterateWith_run h, runFrom_append]
    cases hr : runFrom P st p with
    | error e => rfl
    | ok st' =>
      have : run P (xs ++ p) = .ok st' := by
        unfold run at h ⊢
        rw [runFrom_append, h]; exact hr
      exact ih this

/-- **carried in = run through** (the state map as a whole, failures included) -/
theorem carried_eq_run (P : Pipeline X S Rv) (parts : List (List Batch)) :
    carried P parts = run P parts.flatten := by
  cases parts with
  | nil => simp only [carried, List.flatten_nil, run, runFrom, startState_none]
  | cons p ps =>
    simp only [carried, List.flatten_cons]
    rw [iterateWith_none]
    show _ = runFrom P (createState P) (p ++ ps.flatten)
    rw [runFrom_append]
    cases hr : run P p with
    | error e =>
      have hr' : runFrom P (createState P) p = .error e := hr
      rw [hr']
    | ok st =>
      have hr' : runFrom P (createState P) p = .ok st := hr
      rw [hr']
      exact carriedFrom_run ps hr

theorem foldUpdate_run : ∀ (bs : List Batch) {xs : List Batch} {st : State S},
    run P xs = .ok st → foldUpdate P st bs = runFrom P st bs := by
  intro bs
  induction bs with
  | nil => intro xs st _; rfl
  | cons b bs ih =>
    intro xs st h
    simp only [foldUpdate, updateVia]
    rw [iterateWith_run h]
    simp only [runFrom]
    cases hu : updateState P st b with
    | error e => rfl
    | ok st' =>
      have : run P (xs ++ [b]) = .ok st' := by
        unfold run at h ⊢
        rw [runFrom_append, h]; simp only [runFrom, hu]
      exact ih this

/-- folding `ChainedRunner.update_state` over the batches = one pass -/
theorem foldUpdate_eq_run (P : Pipeline X S Rv) (bs : List Batch) :
    foldUpdate P (createState P) bs = run P bs :=
  foldUpdate_run bs (xs := []) rfl

/-! ### the state of a CHAINED runner: the union of the stages' states, handed to every stage -/

/-- no aggregate of `Q` has the output-key tuple of an aggregate of `P` (`TreeTransform.chain` /
`ChainedRunner.__init__` keep the stages' aggregates apart) -/
def OutsDisjoint (P Q : Pipeline X S Rv) : Prop := ∀ a ∈ P.aggs, ∀ b ∈ Q.aggs, a.out ≠ b.out

theorem initFilter_foreign {Q : Pipeline X S Rv} (hd : OutsDisjoint P Q) {st : State S} (h : Owned Q st) :
    initFilter P st = [] := by
  unfold initFilter
  rw [List.filter_eq_nil_iff]
  intro e he hown
  have hq := h e.1 (List.mem_map_of_mem (f := (·.1)) he)
  unfold ownedBy at hown hq
  rw [List.any_eq_true] at hown hq
  obtain ⟨a, ha, ea⟩ := hown
  obtain ⟨b, hb, eb⟩ := hq
  exact hd a ha b hb (by rw [of_decide_eq_true ea, of_decide_eq_true eb])

theorem initFilter_flatten_foreign : ∀ (qs : List (Pipeline X S Rv × State S)),
    (∀ q ∈ qs, Owned q.1 q.2 ∧ OutsDisjoint P q.1) → initFilter P (qs.map (·.2)).flatten = [] := by
  intro qs
  induction qs with
  | nil => intro _; rfl
  | cons q qs ih =>
    intro h
    rw [List.map_cons, List.flatten_cons]
    have e1 := initFilter_foreign (h q List.mem_cons_self).2 (h q List.mem_cons_self).1
    have e2 := ih (fun q' hq => h q' (List.mem_cons_of_mem _ hq))
    unfold initFilter at e1 e2 ⊢
    rw [List.filter_append, e1, e2]; rfl

/-- **out of the union state of a chain every stage takes back exactly its own state**, per-slice
entries included, wherever the stage sits in the chain (`qs₁` / `qs₂`: the stages upstream / downstream
with their states) -/
theorem initFilter_chain (qs₁ qs₂ : List (Pipeline X S Rv × State S)) {st : State S} (h : Owned P st)
    (h₁ : ∀ q ∈ qs₁, Owned q.1 q.2 ∧ OutsDisjoint P q.1)
    (h₂ : ∀ q ∈ qs₂, Owned q.1 q.2 ∧ OutsDisjoint P q.1) :
    initFilter P ((qs₁.map (·.2)).flatten ++ st ++ (qs₂.map (·.2)).flatten) = st := by
  have e1 := initFilter_flatten_foreign (P := P) qs₁ h₁
  have e2 := initFilter_flatten_foreign (P := P) qs₂ h₂
  have e0 := initFilter_of_owned h
  unfold initFilter at e0 e1 e2 ⊢
  rw [List.filter_append, List.filter_append, e1, e2, e0]
  simp

end MlModel.PipeAgg
