import MlModel.Lemmas.Piter2Data
/-!
# Two-queue LTS: the static signature of the threads (which input each first-level task reads, which generator each
second-level task runs) is never changed by a step

`sig t` = role + the program of the part that is the task's OWN producer (first level: `a`, with the further arguments
`more` of the input's `StopIteration`; second level: `b`).  With it the link-by-link conservation invariants of
`Piter2Data.lean` can be stated against the `inputs` / `gens` the initial configuration was built from.
-/
namespace MlModel.Queue

/-- no step changes the program of the stepping thread -/
def ProgStep (s : Shared) (t : Thread) (tid : Tid) (alt : Bool) : Prop :=
  ∀ lbl s' t', stepThread s t tid alt = some (lbl, s', t') → t'.prog = t.prog

set_option hygiene false in
macro "prog_group" : tactic => `(tactic| (
  intro lbl s' t' h
  unfold stepThread at h
  cases hpc : t.pc <;> (try (simp only [hpc, Pc.group] at hg; omega)) <;>
    simp only [hpc] at h <;>
    (try simp only [acquire, release, notify, waitPark, waitWake, goto, enqLoop, putLoop, batchLoop,
      afterRaise, afterValue] at h) <;>
    (repeat' split at h) <;>
    (try simp only [Option.some.injEq, Prod.mk.injEq, reduceCtorEq] at h) <;>
    (try (obtain ⟨-, rfl, rfl⟩ := h)) <;>
    simp_all))

theorem prog_g0 {s t tid alt} (hg : t.pc.group = 0) : ProgStep s t tid alt := by prog_group
theorem prog_g1 {s t tid alt} (hg : t.pc.group = 1) : ProgStep s t tid alt := by prog_group
theorem prog_g2 {s t tid alt} (hg : t.pc.group = 2) : ProgStep s t tid alt := by prog_group
theorem prog_g3 {s t tid alt} (hg : t.pc.group = 3) : ProgStep s t tid alt := by prog_group
theorem prog_g4 {s t tid alt} (hg : t.pc.group = 4) : ProgStep s t tid alt := by prog_group
theorem prog_g5 {s t tid alt} (hg : t.pc.group = 5) : ProgStep s t tid alt := by prog_group
theorem prog_g6 {s t tid alt} (hg : t.pc.group = 6) : ProgStep s t tid alt := by prog_group
theorem prog_g7 {s t tid alt} (hg : t.pc.group = 7) : ProgStep s t tid alt := by prog_group

theorem stepThread_prog {s : Shared} {t : Thread} {tid : Tid} {alt : Bool} {lbl : String} {s' : Shared} {t' : Thread}
    (hst : stepThread s t tid alt = some (lbl, s', t')) : t'.prog = t.prog := by
  have h := Pc.group_lt t.pc
  match hg : t.pc.group with
  | 0 => exact prog_g0 hg lbl s' t' hst | 1 => exact prog_g1 hg lbl s' t' hst | 2 => exact prog_g2 hg lbl s' t' hst
  | 3 => exact prog_g3 hg lbl s' t' hst | 4 => exact prog_g4 hg lbl s' t' hst | 5 => exact prog_g5 hg lbl s' t' hst
  | 6 => exact prog_g6 hg lbl s' t' hst | 7 => exact prog_g7 hg lbl s' t' hst
  | n + 8 => omega

end MlModel.Queue

namespace MlModel.Piter2
open MlModel.Queue

variable {F : Nat → Option (List Nat)}

/-- the static signature of a thread -/
def sig (t : Th) : Role × Prog × List Nat :=
  match t.role with
  | .cons => (.cons, .getLoop, [])
  | .l1 => (.l1, t.a.prog, t.more)
  | .l2 => (.l2, t.b.prog, [])

/-- what no step changes: the signatures, `fwd`, `num_steps`, the batch size of `DequeueIterator(Q1)` -/
structure Static (c c' : Cfg) : Prop where
  sigs : c'.ths.map sig = c.ths.map sig
  fwd : c'.fwd = c.fwd
  ns : c'.numSteps = c.numSteps
  bm1 : c'.bm1 = c.bm1

theorem Static.refl (c : Cfg) : Static c c := ⟨rfl, rfl, rfl, rfl⟩

theorem Static.trans {a b c : Cfg} (h1 : Static a b) (h2 : Static b c) : Static a c :=
  ⟨h2.sigs.trans h1.sigs, h2.fwd.trans h1.fwd, h2.ns.trans h1.ns, h2.bm1.trans h1.bm1⟩

theorem sig_set {ths : List Th} {tid : Tid} {t t' : Th} (ht : ths[tid]? = some t) (hs : sig t' = sig t) :
    (ths.set tid t').map sig = ths.map sig := by
  rw [List.map_set, hs]
  exact set_self_of_get (by simp [ht])

theorem static_mk {c : Cfg} {tid : Tid} {t t' : Th} {s1 s2 : Shared} {il : Option Tid} {ca : List Elem} {ns : Nat}
    (ht : c.ths[tid]? = some t) (hs : sig t' = sig t) :
    Static c { c with s1 := s1, s2 := s2, ths := c.ths.set tid t', ilock := il, cache := ca, nsub := ns } :=
  ⟨sig_set ht hs, rfl, rfl, rfl⟩

theorem sig_of {t t' : Th} (hr : t'.role = t.role) (ha : t.role = .l1 → t'.a.prog = t.a.prog ∧ t'.more = t.more)
    (hb : t.role = .l2 → t'.b.prog = t.b.prog) : sig t' = sig t := by
  unfold sig
  rw [hr]
  cases h : t.role with
  | cons => rfl
  | l1 => simp only []; rw [(ha h).1, (ha h).2]
  | l2 => simp only []; rw [hb h]

theorem enterNext_bprog (tid : Tid) (t : Th) : (enterNext tid t).b.prog = t.b.prog := by
  unfold enterNext; split <;> rfl

theorem postProd_bprog (tid : Tid) (t : Th) (s : Shared) (b : Queue.Thread) : (postProd tid t s b).b.prog = b.prog := by
  unfold postProd
  simp only []
  split
  · rw [enterNext_bprog]
  · split <;> rfl

theorem afterPull_bprog (fwd : Bool) (tid : Tid) (s : Shared) (t : Th) (r : Hand) :
    (afterPull F fwd tid s t r).2.b.prog = t.b.prog := by
  unfold afterPull failPull
  (repeat' split) <;> rfl

theorem stepL1_static {c c' : Cfg} {tid : Tid} {t : Th} {alt : Bool} {lbl : String} (ht : c.ths[tid]? = some t)
    (hr : t.role = .l1) (h : stepL1 c tid t alt = some (lbl, c')) : Static c c' := by
  unfold stepL1 at h
  (repeat' split at h) <;> simp only [Option.some.injEq, Prod.mk.injEq, reduceCtorEq] at h <;>
    obtain ⟨-, rfl⟩ := h <;> refine static_mk (c := c) ht (sig_of rfl (fun _ => ⟨?_, rfl⟩) (fun e => ?_)) <;>
    first
    | (rw [hr] at e; cases e)
    | rfl
    | exact stepThread_prog (by assumption)

theorem stepL2_static {c c' : Cfg} {tid : Tid} {t : Th} {alt : Bool} {lbl : String} (ht : c.ths[tid]? = some t)
    (hr : t.role = .l2) (h : stepL2 F c tid t alt = some (lbl, c')) : Static c c' := by
  unfold stepL2 at h
  (repeat' split at h) <;> simp only [Option.some.injEq, Prod.mk.injEq, reduceCtorEq] at h <;>
    obtain ⟨-, rfl⟩ := h <;>
    first
    | exact static_mk (c := c) ht (sig_of rfl (fun e => by rw [hr] at e; cases e) (fun _ => rfl))
    | exact static_mk (c := c) ht (sig_of (afterPull_role _ _ _ _ _ _) (fun e => by rw [hr] at e; cases e)
        (fun _ => afterPull_bprog _ _ _ _ _))
    | exact static_mk (c := c) ht (sig_of (postProd_role _ _ _ _) (fun e => by rw [hr] at e; cases e)
        (fun _ => (postProd_bprog _ _ _ _).trans (stepThread_prog (by assumption))))

theorem stepCons_static {c c' : Cfg} {tid : Tid} {t : Th} {alt : Bool} {lbl : String} (ht : c.ths[tid]? = some t)
    (hr : t.role = .cons) (h : stepCons c tid t alt = some (lbl, c')) : Static c c' := by
  obtain ⟨t0, t', ht0, hths, hrole⟩ : ∃ t0 t', c.ths[tid]? = some t0 ∧ c'.ths = c.ths.set tid t' ∧ t'.role = t0.role := by
    have : step (fun _ => none) c tid alt = some (lbl, c') := by simp [step, ht, hr, h]
    exact step_set this
  rw [ht] at ht0
  cases ht0
  have hsig : sig t' = sig t := by unfold sig; rw [hrole, hr]
  have hs : c'.ths.map sig = c.ths.map sig := by rw [hths]; exact sig_set ht hsig
  unfold stepCons at h
  (repeat' split at h) <;> simp only [Option.some.injEq, Prod.mk.injEq, reduceCtorEq] at h <;>
    obtain ⟨-, rfl⟩ := h <;> exact ⟨hs, rfl, rfl, rfl⟩

theorem step_static {c c' : Cfg} {tid : Tid} {alt : Bool} {lbl : String} (h : step F c tid alt = some (lbl, c')) :
    Static c c' := by
  unfold step at h
  split at h
  · simp at h
  · rename_i t ht
    split at h
    · rename_i hr; exact stepCons_static ht hr h
    · rename_i hr; exact stepL1_static ht hr h
    · rename_i hr; exact stepL2_static ht hr h

theorem reachable_static {c0 c : Cfg} (h : Reachable F c0 c) : Static c0 c := by
  induction h with
  | init => exact Static.refl _
  | step _ hs ih => exact ih.trans (step_static hs)

/-- the signatures of an initial configuration -/
theorem init_sigs (cap1 cap2 bm1 bm2 mw : Nat) (ns : Option Nat) (fwd : Bool) (inputs : List InSpec) (gens : List Nat) :
    (init cap1 cap2 bm1 bm2 mw ns fwd inputs gens).ths.map sig =
      (Role.cons, Prog.getLoop, []) ::
        (inputs.map (fun i => (Role.l1, Prog.producer i.items i.ret, i.more)) ++
         gens.map (fun g => (Role.l2, Prog.producer [] g, []))) := by
  simp [init, sig, mkCons, mkL1, mkL2, Function.comp_def]

end MlModel.Piter2
