import MlModel.Lemmas.QueueData
/-!
# Global invariants of the IteratorQueue LTS over all reachable configurations

`Reachable c0 c`: `c` is reached from `c0` by any finite sequence of scheduler choices —
any thread count, any capacity, any schedule (including timeout alternatives).
-/
namespace MlModel.Queue

theorem stepThread_locks {s t tid alt} : LocksStep s t tid alt := by
  have h := Pc.group_lt t.pc
  match hg : t.pc.group with
  | 0 => exact locks_g0 hg | 1 => exact locks_g1 hg | 2 => exact locks_g2 hg | 3 => exact locks_g3 hg
  | 4 => exact locks_g4 hg | 5 => exact locks_g5 hg | 6 => exact locks_g6 hg | 7 => exact locks_g7 hg
  | n + 8 => omega

theorem stepThread_data {s t tid alt} : DataStep s t tid alt := by
  have h := Pc.group_lt t.pc
  match hg : t.pc.group with
  | 0 => exact data_g0 hg | 1 => exact data_g1 hg | 2 => exact data_g2 hg | 3 => exact data_g3 hg
  | 4 => exact data_g4 hg | 5 => exact data_g5 hg | 6 => exact data_g6 hg | 7 => exact data_g7 hg
  | n + 8 => omega

inductive Reachable (c0 : Cfg) : Cfg → Prop where
  | init : Reachable c0 c0
  | step {c c' : Cfg} {tid : Tid} {alt : Bool} {lbl : String} :
      Reachable c0 c → step c tid alt = some (lbl, c') → Reachable c0 c'

/-- decomposition of a configuration step into the thread step -/
theorem step_inv {c c' : Cfg} {tid alt lbl} (h : step c tid alt = some (lbl, c')) :
    ∃ t s' t', c.ths[tid]? = some t ∧ stepThread c.sh t tid alt = some (lbl, s', t') ∧
      c' = { sh := s', ths := c.ths.set tid t' } := by
  unfold step at h
  split at h
  · simp at h
  · rename_i t ht
    split at h
    · simp at h
    · rename_i lbl' s' t' hst
      simp only [Option.some.injEq, Prod.mk.injEq] at h
      obtain ⟨rfl, rfl⟩ := h
      exact ⟨t, s', t', ht, hst, rfl⟩

/-! ## Lock discipline -/

def LockInv (c : Cfg) : Prop :=
  (∀ tid t, c.ths[tid]? = some t → ∀ l, (c.sh.owner l = some tid ↔ holds l t.pc = true)) ∧
  (∀ l u, c.sh.owner l = some u → u < c.ths.length)

theorem lockInv_init (cap maxEnq : Nat) (to ig : Bool) (progs : List Prog) :
    LockInv (init cap maxEnq to ig progs) := by
  constructor
  · intro tid t ht l
    simp only [init, List.getElem?_map, Option.map_eq_some_iff] at ht
    obtain ⟨p, _, rfl⟩ := ht
    cases l <;> simp [init, Shared.owner, holds]
  · intro l u h
    cases l <;> simp [init, Shared.owner] at h

theorem lockInv_step {c c' : Cfg} {tid alt lbl} (hi : LockInv c)
    (h : step c tid alt = some (lbl, c')) : LockInv c' := by
  obtain ⟨t, s', t', ht, hst, rfl⟩ := step_inv h
  have htid : tid < c.ths.length := by
    rcases List.getElem?_eq_some_iff.mp ht with ⟨h1, _⟩; exact h1
  have key := stepThread_locks lbl s' t' hst (hi.1 tid t ht)
  constructor
  · intro u tu hu l
    by_cases hut : u = tid
    · subst hut
      simp only [List.getElem?_set_self htid, Option.some.injEq] at hu
      subst hu
      exact (key l).1
    · rw [List.getElem?_set_ne (Ne.symm hut)] at hu
      rw [(key l).2 u hut]
      exact hi.1 u tu hu l
  · intro l u hu
    simp only [List.length_set]
    by_cases hut : u = tid
    · subst hut; exact htid
    · exact hi.2 l u (((key l).2 u hut).mp hu)

theorem lockInv_reachable {c0 c : Cfg} (h0 : LockInv c0) (h : Reachable c0 c) : LockInv c := by
  induction h with
  | init => exact h0
  | step _ hs ih => exact lockInv_step ih hs

/-! ## Data invariants: FIFO, order, conservation -/

def sumSeq (ths : List Thread) : List Elem := (ths.map seqOf).flatten

structure DataInv (c : Cfg) : Prop where
  tok : ∀ t ∈ c.ths, TOK t
  /-- the queue is FIFO: everything put = everything taken ++ what is still queued -/
  fifo : c.sh.produced = c.sh.dequeued ++ c.sh.q
  /-- each consumer holds a subsequence of the global dequeue order -/
  sub : ∀ t ∈ c.ths, (seqOf t).Sublist c.sh.dequeued
  /-- everything taken out of the queue is held by exactly one consumer, or was dropped -/
  cons : c.sh.dequeued.Perm (sumSeq c.ths ++ c.sh.lost)

theorem sumSeq_set {ths : List Thread} {i : Nat} {a b : Thread} (h : ths[i]? = some a) :
    (sumSeq (ths.set i b) ++ seqOf a).Perm (sumSeq ths ++ seqOf b) := by
  induction ths generalizing i with
  | nil => simp at h
  | cons x xs ih =>
    cases i with
    | zero =>
      simp only [List.getElem?_cons_zero, Option.some.injEq] at h
      subst h
      simp only [List.set_cons_zero, sumSeq, List.map_cons, List.flatten_cons]
      rw [List.perm_iff_count]; intro e; simp only [List.count_append]; omega
    | succ j =>
      simp only [List.getElem?_cons_succ] at h
      have := ih h
      simp only [List.set_cons_succ, sumSeq, List.map_cons, List.flatten_cons] at this ⊢
      rw [List.perm_iff_count] at this ⊢
      intro e; have := this e; simp only [List.count_append] at this ⊢; omega

theorem dataInv_init (cap maxEnq : Nat) (to ig : Bool) (progs : List Prog) :
    DataInv (init cap maxEnq to ig progs) := by
  refine ⟨?_, rfl, ?_, ?_⟩
  · intro t ht
    simp only [init, List.mem_map] at ht
    obtain ⟨p, _, rfl⟩ := ht
    exact ⟨by intro k hk; simp [pcKind] at hk, by intro _; rfl⟩
  · intro t ht
    simp only [init, List.mem_map] at ht
    obtain ⟨p, _, rfl⟩ := ht
    simp [seqOf, inHand, inHandPc, init]
  · have : sumSeq (init cap maxEnq to ig progs).ths = [] := by
      simp only [init, sumSeq, List.map_map, List.flatten_eq_nil_iff, List.mem_map]
      rintro l ⟨p, _, rfl⟩
      simp [seqOf, inHand, inHandPc]
    rw [this]; simp [init]

theorem dataInv_step {c c' : Cfg} {tid alt lbl} (hi : DataInv c)
    (h : step c tid alt = some (lbl, c')) : DataInv c' := by
  obtain ⟨t, s', t', ht, hst, rfl⟩ := step_inv h
  have htmem : t ∈ c.ths := List.mem_of_getElem? ht
  obtain ⟨htok', _, hq, hdq, hpr, hlost, hseq⟩ := stepThread_data lbl s' t' hst (hi.tok t htmem)
  refine ⟨?_, ?_, ?_, ?_⟩
  · intro u hu
    rcases List.mem_or_eq_of_mem_set hu with hu | rfl
    · exact hi.tok u hu
    · exact htok'
  · show s'.produced = s'.dequeued ++ s'.q
    rw [hpr, hdq, hi.fifo, List.append_assoc, List.append_assoc, hq]
  · intro u hu
    show (seqOf u).Sublist s'.dequeued
    rw [hdq]
    rcases List.mem_or_eq_of_mem_set hu with hu | rfl
    · exact (hi.sub u hu).trans (List.sublist_append_left _ _)
    · have h1 : (seqOf u).Sublist (seqOf u ++ droppedOf t) := List.sublist_append_left _ _
      rw [← hseq] at h1
      exact h1.trans (List.Sublist.append (hi.sub t htmem) (List.Sublist.refl _))
  · show s'.dequeued.Perm (sumSeq (c.ths.set tid t') ++ s'.lost)
    rw [hdq, hlost]
    have h1 := sumSeq_set (b := t') ht
    have h2 := hi.cons
    rw [List.perm_iff_count] at h1 h2 ⊢
    intro e
    have h1 := h1 e; have h2 := h2 e
    have h3 : (seqOf t ++ extOf c.sh t).count e = (seqOf t' ++ droppedOf t).count e := by rw [hseq]
    simp only [List.count_append] at h1 h2 h3 ⊢
    omega

theorem dataInv_reachable {c0 c : Cfg} (h0 : DataInv c0) (h : Reachable c0 c) : DataInv c := by
  induction h with
  | init => exact h0
  | step _ hs ih => exact dataInv_step ih hs

end MlModel.Queue
