import MlModel.Model.Stage
/-!
Invariant of the interleaved-stage LTS (`Model/Stage.lean`) for the code's configuration
(`ackAwait = false`: kick-off and registration in one event-loop turn).
-/
namespace MlModel.Stage

def hands (ws : List W) : List Nat := ws.flatMap (·.hand)

def isReg (x : W) : Bool := x.phase == .registered || x.phase == .done
def isDone (x : W) : Bool := x.phase == .done

/-- per-worker consistency: a worker that is not registered has not been kicked off, a worker that was
not kicked off holds nothing, a finished worker holds nothing and has seen the end of the input -/
structure W.Ok (x : W) : Prop where
  nk : x.phase ≠ .kicked
  early : x.phase = .idle ∨ x.phase = .creating → x.pulling = false
  np : x.pulling = false → x.hand = [] ∧ x.remoteDone = false
  dn : x.phase = .done → x.hand = [] ∧ x.remoteDone = true

structure Inv (all : List Nat) (s : St) : Prop where
  cons : (s.toProduce ++ s.inp ++ hands s.ws ++ s.resultQ ++ s.consumed).Perm all
  wok : ∀ x ∈ s.ws, x.Ok
  rd : (∃ x ∈ s.ws, x.remoteDone = true) → s.inClosed = true ∧ s.inp = []
  closed : s.inClosed = true → s.toProduce = []
  cstart : s.start = s.ws.countP isReg
  cstop : s.stop = s.ws.countP isDone
  cmax : s.maxE = s.start
  cdone : s.consumerDone = true → s.consumed.Perm all

theorem split_of_get : ∀ {ws : List W} {w : Nat} {y : W}, ws[w]? = some y →
    ∃ l1 l2, ws = l1 ++ y :: l2 ∧ ∀ x, ws.set w x = l1 ++ x :: l2
  | [], w, y, h => by simp at h
  | a :: ws, 0, y, h => by
    simp at h; subst h; exact ⟨[], ws, rfl, fun x => rfl⟩
  | a :: ws, w + 1, y, h => by
    simp at h
    obtain ⟨l1, l2, e, hs⟩ := split_of_get h
    exact ⟨a :: l1, l2, by simp [e], fun x => by simp [hs x]⟩

theorem hands_split (l1 l2 : List W) (x : W) : hands (l1 ++ x :: l2) = hands l1 ++ (x.hand ++ hands l2) := by
  simp [hands]

theorem inv_init (all : List Nat) (n : Nat) : Inv all (St.init all n) := by
  refine ⟨?_, ?_, ?_, ?_, ?_, ?_, rfl, ?_⟩
  · have : hands (List.replicate n ({} : W)) = [] := by
      induction n with
      | zero => rfl
      | succ k ih => simp [List.replicate_succ, hands] at ih ⊢
    simp [St.init, this]
  · intro x hx
    simp [St.init] at hx
    obtain ⟨_, rfl⟩ := hx
    exact ⟨by simp, by simp, by simp, by simp⟩
  · rintro ⟨x, hx, hr⟩
    simp [St.init] at hx
    obtain ⟨_, rfl⟩ := hx
    simp at hr
  · intro h; simp [St.init] at h
  · simp [St.init, List.countP_replicate, isReg]
  · simp [St.init, List.countP_replicate, isDone]
  · intro h; simp [St.init] at h

/-- counting form of permutation goals -/
theorem perm_of_count {l l' all : List Nat} (h : l.Perm all) (hc : ∀ a, l'.count a = l.count a) : l'.Perm all :=
  (List.perm_iff_count.mpr hc).trans h


theorem ex_rd_mono {l1 l2 : List W} {y y' : W} (hyy : y'.remoteDone = true → y.remoteDone = true) :
    (∃ x ∈ l1 ++ y' :: l2, x.remoteDone = true) → (∃ x ∈ l1 ++ y :: l2, x.remoteDone = true) := by
  rintro ⟨x, hx, hr⟩
  simp only [List.mem_append, List.mem_cons] at hx
  rcases hx with hx | rfl | hx
  · exact ⟨x, by simp [hx], hr⟩
  · exact ⟨y, by simp, hyy hr⟩
  · exact ⟨x, by simp [hx], hr⟩

theorem hands_nil : ∀ {ws : List W}, (∀ x ∈ ws, x.hand = []) → hands ws = []
  | [], _ => rfl
  | a :: ws, h => by
    have h1 := h a (by simp)
    have h2 := hands_nil (ws := ws) (fun x hx => h x (by simp [hx]))
    simp [hands] at h2 ⊢
    exact ⟨h1, h2⟩

theorem countP_done_le : ∀ (ws : List W), ws.countP isDone ≤ ws.countP isReg
  | [] => by simp
  | a :: ws => by
    have := countP_done_le ws
    simp only [List.countP_cons]
    cases hp : a.phase <;> simp [isDone, isReg, hp] <;> omega

theorem reg_done_of_counts : ∀ (ws : List W), ws.countP isReg = ws.countP isDone →
    ∀ x ∈ ws, isReg x = true → isDone x = true
  | [], _ => by simp
  | a :: ws, h => by
    have hle := countP_done_le ws
    simp only [List.countP_cons] at h
    intro x hx hr
    have hda : isDone a = true → isReg a = true := by
      cases hp : a.phase <;> simp [isDone, isReg, hp]
    simp only [List.mem_cons] at hx
    rcases hx with rfl | hx
    · cases hd : isDone x with
      | true => rfl
      | false => simp [hd, hr] at h; omega
    · refine reg_done_of_counts ws ?_ x hx hr
      cases hd : isDone a with
      | true => simp [hd, hda hd] at h; omega
      | false =>
        cases hra : isReg a with
        | true => simp [hd, hra] at h; omega
        | false => simp [hd, hra] at h; omega

macro "perm_tac " h:term : tactic => `(tactic| (
  refine perm_of_count $h ?_
  intro a
  simp only [List.count_append, List.count_cons, List.count_nil, hands_split]
  try omega))

theorem inv_step {all : List Nat} {c : Cfg} (hc : c.ackAwait = false) {s s' : St} {l : Label}
    (h : Inv all s) (hs : step c s l = some s') : Inv all s' := by
  obtain ⟨tp, inp, cl, ws, rq, co, st, sp, mx, cd⟩ := s
  obtain ⟨hcons, hwok, hrd, hclosed, hst, hsp, hmx, hcd⟩ := h
  simp only at hcons hwok hrd hclosed hst hsp hmx hcd
  cases l with
  | produce =>
    simp only [step] at hs
    cases cl <;> cases tp <;> simp at hs
    subst hs
    refine ⟨?_, hwok, ?_, ?_, hst, hsp, hmx, hcd⟩
    · perm_tac hcons
    · intro hx; have := (hrd hx).1; simp at this
    · intro hx; simp at hx
  | closeInput =>
    simp only [step] at hs
    cases cl <;> cases tp <;> simp at hs
    subst hs
    refine ⟨hcons, hwok, ?_, ?_, hst, hsp, hmx, hcd⟩
    · intro hx; have := (hrd hx).1; simp at this
    · intro _; rfl
  | schedule w =>
    simp only [step] at hs
    cases hget : ws[w]? with
    | none => simp [hget] at hs
    | some y =>
      simp [hget] at hs
      obtain ⟨hph, rfl⟩ := hs
      obtain ⟨l1, l2, rfl, hset⟩ := split_of_get hget
      have hy := hwok y (by simp)
      simp only [hset]
      refine ⟨?_, ?_, ?_, hclosed, ?_, ?_, hmx, hcd⟩
      · perm_tac hcons
      · intro z hz
        simp only [List.mem_append, List.mem_cons] at hz
        rcases hz with hz | rfl | hz
        · exact hwok z (by simp [hz])
        · exact ⟨by simp, fun _ => hy.early (Or.inl hph), hy.np, by simp⟩
        · exact hwok z (by simp [hz])
      · intro hx; refine hrd (ex_rd_mono (y := y) ?_ hx); exact fun h => h
      · simp only [hst, List.countP_append, List.countP_cons]; simp [isReg, hph]
      · simp only [hsp, List.countP_append, List.countP_cons]; simp [isDone, hph]
  | created w =>
    simp only [step] at hs
    cases hget : ws[w]? with
    | none => simp [hget] at hs
    | some y =>
      simp [hget, hc] at hs
      obtain ⟨hph, rfl⟩ := hs
      obtain ⟨l1, l2, rfl, hset⟩ := split_of_get hget
      have hy := hwok y (by simp)
      simp only [hset, St.register]
      refine ⟨?_, ?_, ?_, hclosed, ?_, ?_, ?_, hcd⟩
      · perm_tac hcons
      · intro z hz
        simp only [List.mem_append, List.mem_cons] at hz
        rcases hz with hz | rfl | hz
        · exact hwok z (by simp [hz])
        · exact ⟨by simp, by simp, by simp, by simp⟩
        · exact hwok z (by simp [hz])
      · intro hx; refine hrd (ex_rd_mono (y := y) ?_ hx); exact fun h => h
      · simp only [hst, List.countP_append, List.countP_cons]; simp [isReg, hph]; omega
      · simp only [hsp, List.countP_append, List.countP_cons]; simp [isDone, hph]
      · simp only [hmx]; omega
  | ack w =>
    simp only [step] at hs
    cases hget : ws[w]? with
    | none => simp [hget] at hs
    | some y =>
      simp [hget] at hs
      obtain ⟨hph, _⟩ := hs
      obtain ⟨l1, l2, rfl, _⟩ := split_of_get hget
      exact absurd hph (hwok y (by simp)).nk
  | pull w =>
    simp only [step] at hs
    cases hget : ws[w]? with
    | none => simp [hget] at hs
    | some y =>
      cases inp with
      | nil => simp [hget] at hs
      | cons b rest =>
        simp [hget] at hs
        obtain ⟨⟨hpl, hnr⟩, rfl⟩ := hs
        obtain ⟨l1, l2, rfl, hset⟩ := split_of_get hget
        have hy := hwok y (by simp)
        simp only [hset]
        refine ⟨?_, ?_, ?_, hclosed, ?_, ?_, hmx, hcd⟩
        · perm_tac hcons
        · intro z hz
          simp only [List.mem_append, List.mem_cons] at hz
          rcases hz with hz | rfl | hz
          · exact hwok z (by simp [hz])
          · refine ⟨hy.nk, hy.early, ?_, ?_⟩
            · intro hp; simp [hpl] at hp
            · intro hd; have := (hy.dn hd).2; simp [hnr] at this
          · exact hwok z (by simp [hz])
        · intro hx
          have := (hrd (ex_rd_mono (y := y) (y' := { y with hand := y.hand ++ [b] }) (fun h => h) hx)).2
          simp at this
        · simp only [hst, List.countP_append, List.countP_cons]; simp [isReg]
        · simp only [hsp, List.countP_append, List.countP_cons]; simp [isDone]
  | pullEnd w =>
    simp only [step] at hs
    cases hget : ws[w]? with
    | none => simp [hget] at hs
    | some y =>
      simp [hget] at hs
      obtain ⟨⟨⟨⟨hpl, hnr⟩, hcl⟩, hin⟩, rfl⟩ := hs
      obtain ⟨l1, l2, rfl, hset⟩ := split_of_get hget
      have hy := hwok y (by simp)
      simp only [hset]
      refine ⟨?_, ?_, ?_, hclosed, ?_, ?_, hmx, hcd⟩
      · perm_tac hcons
      · intro z hz
        simp only [List.mem_append, List.mem_cons] at hz
        rcases hz with hz | rfl | hz
        · exact hwok z (by simp [hz])
        · refine ⟨hy.nk, hy.early, ?_, ?_⟩
          · intro hp; simp [hpl] at hp
          · intro hd; exact ⟨(hy.dn hd).1, rfl⟩
        · exact hwok z (by simp [hz])
      · intro _; exact ⟨hcl, hin⟩
      · simp only [hst, List.countP_append, List.countP_cons]; simp [isReg]
      · simp only [hsp, List.countP_append, List.countP_cons]; simp [isDone]
  | forward w =>
    simp only [step] at hs
    cases hget : ws[w]? with
    | none => simp [hget] at hs
    | some y =>
      cases hh : y.hand with
      | nil => simp [hget, hh] at hs
      | cons b rest =>
        simp [hget, hh] at hs
        obtain ⟨hph, rfl⟩ := hs
        obtain ⟨l1, l2, rfl, hset⟩ := split_of_get hget
        have hy := hwok y (by simp)
        simp only [hset]
        have hpl : y.pulling = true := by
          cases hp : y.pulling with
          | true => rfl
          | false => have := (hy.np hp).1; simp [hh] at this
        refine ⟨?_, ?_, ?_, hclosed, ?_, ?_, hmx, hcd⟩
        · refine perm_of_count hcons ?_
          intro a
          simp only [List.count_append, List.count_cons, List.count_nil, hands_split, hh]
          omega
        · intro z hz
          simp only [List.mem_append, List.mem_cons] at hz
          rcases hz with hz | rfl | hz
          · exact hwok z (by simp [hz])
          · refine ⟨hy.nk, hy.early, ?_, ?_⟩
            · intro hp; simp [hpl] at hp
            · intro hd; simp [hph] at hd
          · exact hwok z (by simp [hz])
        · intro hx; refine hrd (ex_rd_mono (y := y) ?_ hx); exact fun h => h
        · simp only [hst, List.countP_append, List.countP_cons]; simp [isReg]
        · simp only [hsp, List.countP_append, List.countP_cons]; simp [isDone]
  | finish w =>
    simp only [step] at hs
    cases hget : ws[w]? with
    | none => simp [hget] at hs
    | some y =>
      simp [hget] at hs
      obtain ⟨⟨⟨hph, hrdn⟩, hh⟩, rfl⟩ := hs
      obtain ⟨l1, l2, rfl, hset⟩ := split_of_get hget
      have hy := hwok y (by simp)
      simp only [hset]
      refine ⟨?_, ?_, ?_, hclosed, ?_, ?_, hmx, hcd⟩
      · perm_tac hcons
      · intro z hz
        simp only [List.mem_append, List.mem_cons] at hz
        rcases hz with hz | rfl | hz
        · exact hwok z (by simp [hz])
        · refine ⟨by simp, by simp, hy.np, ?_⟩
          intro _; exact ⟨hh, hrdn⟩
        · exact hwok z (by simp [hz])
      · intro hx; refine hrd (ex_rd_mono (y := y) ?_ hx); exact fun h => h
      · simp only [hst, List.countP_append, List.countP_cons]; simp [isReg, hph]
      · simp only [hsp, List.countP_append, List.countP_cons]; simp [isDone, hph]; omega
  | consume =>
    simp only [step] at hs
    cases cd <;> cases rq <;> simp at hs
    subst hs
    refine ⟨?_, hwok, hrd, hclosed, hst, hsp, hmx, ?_⟩
    · perm_tac hcons
    · intro hx; simp at hx
  | consumerEnd =>
    simp only [step] at hs
    simp [St.enqueueDone] at hs
    obtain ⟨⟨⟨hcdf, hrq⟩, ⟨hm0, hss⟩, hsm⟩, rfl⟩ := hs
    refine ⟨hcons, hwok, hrd, hclosed, hst, hsp, hmx, ?_⟩
    intro _
    -- no worker is registered-but-not-done, so nobody holds a batch
    have hcnt : ws.countP isReg = ws.countP isDone := by omega
    have hrdone := reg_done_of_counts ws hcnt
    have hh : hands ws = [] := by
      apply hands_nil
      intro x hx
      have hok := hwok x hx
      cases hr : isReg x with
      | true => exact (hok.dn (by simpa [isDone] using hrdone x hx hr)).1
      | false =>
        cases hp : x.phase with
        | idle => exact (hok.np (hok.early (Or.inl hp))).1
        | creating => exact (hok.np (hok.early (Or.inr hp))).1
        | kicked => exact absurd hp hok.nk
        | registered => simp [isReg, hp] at hr
        | done => simp [isReg, hp] at hr
    -- some worker is done, so the input is closed and empty
    have hpos : 0 < ws.countP isDone := by omega
    obtain ⟨x, hx, hd⟩ := List.countP_pos_iff.mp hpos
    have hxr : x.remoteDone = true := ((hwok x hx).dn (by simpa [isDone] using hd)).2
    obtain ⟨hcl, hin⟩ := hrd ⟨x, hx, hxr⟩
    have htp := hclosed hcl
    simpa [htp, hin, hh, hrq] using hcons

theorem inv_reach {all : List Nat} {c : Cfg} (hc : c.ackAwait = false) {n : Nat} {s : St}
    (h : Reach c (St.init all n) s) : Inv all s := by
  induction h with
  | refl => exact inv_init all n
  | step l _ hs ih => exact inv_step hc ih hs

theorem reach_trans {c : Cfg} {s0 s1 s2 : St} (h1 : Reach c s0 s1) (h2 : Reach c s1 s2) : Reach c s0 s2 := by
  induction h2 with
  | refl => exact h1
  | step l _ hs ih => exact .step l ih hs

theorem reach_of_run {c : Cfg} : ∀ {s s' : St} (ls : List Label), run c s ls = some s' → Reach c s s'
  | s, s', [], h => by simp [run] at h; subst h; exact .refl
  | s, s', l :: ls, h => by
    simp only [run] at h
    cases hs : step c s l with
    | none => simp [hs] at h
    | some s1 =>
      simp [hs] at h
      exact reach_trans (.step l .refl hs) (reach_of_run ls h)

/-- a reachable state with a decidable property, found by running an explicit schedule -/
theorem reach_witness {c : Cfg} {s0 : St} (ls : List Label) (P : St → Bool)
    (h : ((run c s0 ls).map P).getD false = true) : ∃ s, Reach c s0 s ∧ P s = true := by
  cases hr : run c s0 ls with
  | none => simp [hr] at h
  | some s => exact ⟨s, reach_of_run ls hr, by simpa [hr] using h⟩

end MlModel.Stage
