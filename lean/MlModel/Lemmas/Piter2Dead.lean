import MlModel.Lemmas.Piter2Live
/-!
# Two-queue LTS: a configuration without enabled step

From `Good c` (both queues' no-lost-wake-up invariant + the structural invariant) and quiescence:

1. `dead_q1`, `dead_q2` — in each view every thread is blocked on its queue operation or *excused* (not started, inert,
   inside `next(iterator)`), so `Queue.dead_shape` gives the shape of each queue: all six queue locks free, nobody
   notified, a parked consumer ⇒ queue empty, enqueueing not done, some producer excused; a parked producer ⇒ queue not
   empty, enqueueing not done, no parked consumer;
2. `stuck_cons`, `stuck_l1`, `stuck_l2` — where each thread is: the caller parked in `Q2.get_batch`, or in `shutdown()`
   waiting for the tasks, or finished; a first-level task unstarted, parked in `Q1.put`, or finished; a second-level
   task unstarted, waiting for `lock1`, parked in `Q1.get_batch` (holding `lock1`), parked in `Q2.put`, or finished.
-/
namespace MlModel.Piter2
open MlModel.Queue

variable {F : Nat → Option (List Nat)}

theorem class_by_kind {q : Queue.Thread} (htok : TOK q) (h1 : q.pc ≠ .start) (h2 : q.pc ≠ .done)
    (hc : Excused q ∨ q.pc = .done ∨ consWakePc q.pc = true ∨ prodWakePc q.pc = true) :
    (q.prog.kind = .stopper → False) ∧ (q.prog.kind = .batch → consWakePc q.pc = true) ∧
    (q.prog.kind = .producer → q.pc = .eNext ∨ prodWakePc q.pc = true) := by
  have hk := kind_of_tok htok h1 h2
  have hw := wake_kind q htok
  rcases hc with (⟨h, -⟩ | h) | h | h | h
  · exact absurd h h1
  · rw [h] at hk
    simp only [pcKind, Option.some.injEq] at hk
    refine ⟨fun e => ?_, fun e => ?_, fun _ => .inl h⟩ <;> rw [e] at hk <;> cases hk
  · exact absurd h h2
  · obtain ⟨a, b, c⟩ := hw.1 h
    refine ⟨fun e => ?_, fun _ => h, fun e => ?_⟩
    · simp [isCons, e] at a
    · simp [isCons, e] at a
  · obtain ⟨a, b, c⟩ := hw.2 h
    refine ⟨fun e => ?_, fun e => ?_, fun _ => .inr h⟩
    · simp [isProd, e] at c
    · simp [isProd, e] at c

/-! ### the normalising view of the output queue reads the same program points -/

theorem v2_l2_cases {t : Th} (hr : t.role = .l2) : v2 t = t.b ∨ v2 t = { t.b with rets := [0] } := by
  by_cases h : t.x = .idle ∧ stopSeen t = true
  · exact .inr (v2_l2s hr h.1 h.2)
  · exact .inl (v2_l2 hr h)

theorem v2_l2_pc {t : Th} (hr : t.role = .l2) : (v2 t).pc = t.b.pc ∧ (v2 t).prog = t.b.prog := by
  rcases v2_l2_cases hr with h | h <;> rw [h] <;> exact ⟨rfl, rfl⟩

theorem tok_of_v2 {t : Th} (hr : t.role = .l2) (h : TOK (v2 t)) : TOK t.b := by
  rcases v2_l2_cases hr with e | e <;> rw [e] at h
  · exact h
  · exact ⟨h.kind, h.res⟩

theorem cls_of_v2 {t : Th} (hr : t.role = .l2)
    (h : Excused (v2 t) ∨ (v2 t).pc = .done ∨ consWakePc (v2 t).pc = true ∨ prodWakePc (v2 t).pc = true) :
    Excused t.b ∨ t.b.pc = .done ∨ consWakePc t.b.pc = true ∨ prodWakePc t.b.pc = true := by
  rcases v2_l2_cases hr with e | e <;> rw [e] at h
  · exact h
  · exact h

theorem excused_to_v2 {t : Th} (hr : t.role = .l2) (h : Excused t.b) : Excused (v2 t) := by
  rcases v2_l2_cases hr with e | e <;> rw [e]
  · exact h
  · exact h

theorem none_to_v2 {t : Th} {s : Shared} {tid : Tid} (hr : t.role = .l2) (hti : TI t)
    (h : stepThread s t.b tid false = none) : (stepThread s (v2 t) tid false).isSome = false := by
  by_cases hn : t.x = .idle ∧ stopSeen t = true
  · rw [v2_l2s hr hn.1 hn.2]
    rcases (l2_seen hr hti hn.1 hn.2).1 with hreg | hd
    · rw [(stepThread_rets [0] hreg).2 h]; rfl
    · simp [stepThread, hd]
  · rw [v2_l2 hr hn, h]; rfl

/-! ### 1. the two views of a quiescent configuration -/

theorem dead_q1 {c : Cfg} (hg : Good c) (hq : c.quiescent F) :
    ∀ (tid : Tid) (q : Queue.Thread), (q1cfg c).ths[tid]? = some q →
      Excused q ∨ (stepThread (q1cfg c).sh q tid false).isSome = false := by
  intro tid q hq1
  simp only [q1cfg, List.getElem?_map, Option.map_eq_some_iff] at hq1
  obtain ⟨t, ht, rfl⟩ := hq1
  show _ ∨ (stepThread c.s1 (v1 t) tid false).isSome = false
  have hs := hq tid false
  unfold step at hs
  simp only [ht] at hs
  have hti := hg.inv.ti t (List.mem_of_getElem? ht)
  unfold TI at hti
  cases hr : t.role with
  | cons =>
    simp only [hr] at hs hti
    by_cases hc : t.cpc = .upstop
    · right
      simp only [v1, hr, hc, if_true]
      unfold stepCons at hs
      simp only [hc] at hs
      cases hst : stepThread c.s1 t.a tid false with
      | none => rfl
      | some r => rw [hst] at hs; simp at hs
    · left; rw [v1_cons hr hc]; exact excused_inert
  | l1 =>
    simp only [hr] at hs hti
    rw [v1_l1 hr]
    by_cases h1 : t.a.pc = .start
    · exact .inl (.inl ⟨h1, isCons_of_kind (.inl hti)⟩)
    by_cases h2 : t.a.pc = .eNext
    · exact .inl (.inr h2)
    right
    unfold stepL1 at hs
    split at hs
    · rename_i e; exact absurd e h1
    · rename_i e; exact absurd e h2
    · cases hst : stepThread c.s1 t.a tid false with
      | none => rfl
      | some r => rw [hst] at hs; simp at hs
  | l2 =>
    simp only [hr] at hs hti
    by_cases hx : t.x = .deq ∨ t.x = .up
    · right
      rw [v1_l2_on hr hx]
      rcases hx with hx | hx
      · simp only [hx] at hti
        unfold stepL2 at hs
        simp only [hti.2.1, hx] at hs
        cases hst : stepThread c.s1 t.a tid false with
        | none => rfl
        | some r =>
          obtain ⟨l, s', a'⟩ := r
          simp only [hst] at hs
          split at hs <;> simp at hs
      · simp only [hx] at hti
        unfold stepL2 at hs
        simp only [hti.2.1, hx] at hs
        cases hst : stepThread c.s1 t.a tid false with
        | none => rfl
        | some r => rw [hst] at hs; simp at hs
    · left
      rw [v1_l2_off hr (fun e => hx (.inl e)) (fun e => hx (.inr e))]
      exact excused_inert

theorem dead_q2 {c : Cfg} (hg : Good c) (hq : c.quiescent F) :
    ∀ (tid : Tid) (q : Queue.Thread), (q2cfg c).ths[tid]? = some q →
      Excused q ∨ (stepThread (q2cfg c).sh q tid false).isSome = false := by
  intro tid q hq2
  simp only [q2cfg, List.getElem?_map, Option.map_eq_some_iff] at hq2
  obtain ⟨t, ht, rfl⟩ := hq2
  show _ ∨ (stepThread c.s2 (v2 t) tid false).isSome = false
  have hs := hq tid false
  unfold step at hs
  simp only [ht] at hs
  have hti := hg.inv.ti t (List.mem_of_getElem? ht)
  unfold TI at hti
  cases hr : t.role with
  | cons =>
    simp only [hr] at hs hti
    rw [v2_cons hr]
    right
    unfold stepCons at hs
    cases hc : t.cpc <;> simp only [hc] at hs hti
    · by_cases hn : (c.nTasks == 0) = true <;> simp [hn] at hs
    · simp at hs
    · cases hst : stepThread c.s2 t.b tid false with
      | none => rfl
      | some r => rw [hst] at hs; simp at hs
    · cases hst : stepThread c.s2 t.b tid false with
      | none => rfl
      | some r => rw [hst] at hs; simp at hs
    · simp [stepThread, hti.2.2.1.1]
    · simp [stepThread, hti.2.2.1]
    · simp [stepThread, hti.2.2.1]
  | l1 => left; rw [v2_l1 hr]; exact excused_inert
  | l2 =>
    have hti0 := hg.inv.ti t (List.mem_of_getElem? ht)
    simp only [hr] at hs hti
    by_cases h1 : t.b.pc = .start
    · exact .inl (excused_to_v2 hr (.inl ⟨h1, isCons_of_kind (.inl hti.1)⟩))
    by_cases h2 : t.b.pc = .eNext
    · exact .inl (excused_to_v2 hr (.inr h2))
    right
    apply none_to_v2 hr hti0
    by_cases h3 : t.b.pc = .done
    · simp [stepThread, h3]
    unfold stepL2 at hs
    split at hs
    · rename_i e; exact absurd e h1
    · rename_i e; exact absurd e h2
    · rename_i e; exact absurd e h3
    · cases hst : stepThread c.s2 t.b tid false with
      | none => rfl
      | some r => rw [hst] at hs; simp at hs

theorem prod1_pos {c : Cfg} (hg : Good c) (h : ∃ t ∈ c.ths, t.role = .l1) : 0 < (q1cfg c).ths.countP isProd := by
  obtain ⟨t, ht, hr⟩ := h
  have hti := hg.inv.ti t ht
  unfold TI at hti
  simp only [hr] at hti
  rw [List.countP_pos_iff]
  exact ⟨v1 t, List.mem_map_of_mem ht, by rw [v1_l1 hr]; simp [isProd, hti]⟩

theorem prod2_pos {c : Cfg} (hg : Good c) (h : ∃ t ∈ c.ths, t.role = .l2) : 0 < (q2cfg c).ths.countP isProd := by
  obtain ⟨t, ht, hr⟩ := h
  have hti := hg.inv.ti t ht
  unfold TI at hti
  simp only [hr] at hti
  rw [List.countP_pos_iff]
  exact ⟨v2 t, List.mem_map_of_mem ht, by simp [isProd, (v2_l2_pc hr).2, hti.1]⟩

/-! ### 2. where each thread is -/

/-- the caller in a quiescent configuration -/
theorem stuck_cons {c : Cfg} (hg : Good c) (hq : c.quiescent F) (ds1 : DeadShape (q1cfg c)) (ds2 : DeadShape (q2cfg c))
    {t : Th} (ht : c.ths[0]? = some t) :
    (t.cpc = .iter ∧ consWakePc t.b.pc = true) ∨ (t.cpc = .shutdown ∧ c.tasksDone = false) ∨ t.cpc = .fin := by
  have hr : t.role = .cons := (hg.inv.role0 0 t ht).mpr rfl
  have hs := hq 0 false
  unfold step at hs
  simp only [ht, hr] at hs
  have hti := hg.inv.ti t (List.mem_of_getElem? ht)
  unfold TI at hti
  simp only [hr] at hti
  have hq2 := q2_get ht
  rw [v2_cons hr] at hq2
  have htok2 : TOK t.b := hg.live2.base.tok t.b (List.mem_of_getElem? hq2)
  unfold stepCons at hs
  cases hc : t.cpc <;> simp only [hc] at hs hti
  · by_cases hn : (c.nTasks == 0) = true <;> simp [hn] at hs
  · simp at hs
  · exact .inl ⟨rfl, (class_by_kind htok2 hti.2.2.2.1 hti.2.2.2.2 (ds2.cls 0 t.b hq2)).2.1 hti.2.2.1⟩
  · exact absurd hti.2.2.1 (class_by_kind htok2 hti.2.2.2.1 hti.2.2.2.2 (ds2.cls 0 t.b hq2)).1
  · have hq1 := q1_get ht
    rw [show v1 t = t.a by simp [v1, hr, hc]] at hq1
    have htok1 : TOK t.a := hg.live1.base.tok t.a (List.mem_of_getElem? hq1)
    exact absurd hti.1 (class_by_kind htok1 hti.2.2.2.1 hti.2.2.2.2 (ds1.cls 0 t.a hq1)).1
  · refine .inr (.inl ⟨rfl, ?_⟩)
    cases htd : c.tasksDone with
    | false => rfl
    | true => simp [htd] at hs
  · exact .inr (.inr rfl)

/-- a first-level task in a quiescent configuration -/
theorem stuck_l1 {c : Cfg} (hg : Good c) (hq : c.quiescent F) (ds1 : DeadShape (q1cfg c))
    {tid : Tid} {t : Th} (ht : c.ths[tid]? = some t) (hr : t.role = .l1) :
    (t.a.pc = .start ∧ c.gate tid = false) ∨ t.a.pc = .done ∨ prodWakePc t.a.pc = true := by
  have hs := hq tid false
  unfold step at hs
  simp only [ht, hr] at hs
  have hti := hg.inv.ti t (List.mem_of_getElem? ht)
  unfold TI at hti
  simp only [hr] at hti
  have hq1 := q1_get ht
  rw [v1_l1 hr] at hq1
  have htok : TOK t.a := hg.live1.base.tok t.a (List.mem_of_getElem? hq1)
  by_cases h1 : t.a.pc = .start
  · refine .inl ⟨h1, ?_⟩
    cases hgt : c.gate tid with
    | false => rfl
    | true =>
      exfalso
      cases hp : t.a.prog <;> simp [stepL1, h1, hgt, stepThread, hp] at hs
  by_cases h2 : t.a.pc = .done
  · exact .inr (.inl h2)
  rcases (class_by_kind htok h1 h2 (ds1.cls tid t.a hq1)).2.2 hti with h | h
  · exfalso
    cases hsrc : t.a.src with
    | nil => simp [stepL1, h, hsrc] at hs
    | cons i rest => cases i <;> simp [stepL1, h, hsrc, stepThread, hg.inv.ig1] at hs
  · exact .inr (.inr h)

/-- a second-level task in a quiescent configuration -/
theorem stuck_l2 {c : Cfg} (hg : Good c) (hq : c.quiescent F) (ds1 : DeadShape (q1cfg c)) (ds2 : DeadShape (q2cfg c))
    {tid : Tid} {t : Th} (ht : c.ths[tid]? = some t) (hr : t.role = .l2) :
    (t.b.pc = .start ∧ c.gate tid = false) ∨ (t.b.pc = .done ∧ t.x = .idle) ∨ prodWakePc t.b.pc = true ∨
    (t.b.pc = .eNext ∧ t.x = .lockAcq ∧ c.ilock ≠ none) ∨
    (t.b.pc = .eNext ∧ t.x = .deq ∧ consWakePc t.a.pc = true) := by
  have hs := hq tid false
  unfold step at hs
  simp only [ht, hr] at hs
  have hti := hg.inv.ti t (List.mem_of_getElem? ht)
  unfold TI at hti
  simp only [hr] at hti
  obtain ⟨hkb, hx⟩ := hti
  have hq2 := q2_get ht
  have htok : TOK t.b := tok_of_v2 hr (hg.live2.base.tok _ (List.mem_of_getElem? hq2))
  have hcls := cls_of_v2 hr (ds2.cls tid _ hq2)
  by_cases h1 : t.b.pc = .start
  · refine .inl ⟨h1, ?_⟩
    cases hgt : c.gate tid with
    | false => rfl
    | true => simp [stepL2, h1, hgt] at hs
  by_cases h2 : t.b.pc = .done
  · cases hxx : t.x <;> simp only [hxx] at hx
    · exact .inr (.inl ⟨h2, rfl⟩)
    · rw [h2] at hx; cases hx.1
    · rw [h2] at hx; cases hx.1
    · rw [h2] at hx; cases hx.1
    · exfalso
      have hq1 := q1_get ht
      rw [v1_l2_on hr (.inr hxx)] at hq1
      have htok1 : TOK t.a := hg.live1.base.tok t.a (List.mem_of_getElem? hq1)
      exact (class_by_kind htok1 hx.2.2.1 hx.2.2.2.1 (ds1.cls tid t.a hq1)).1 hx.2.1
  rcases (class_by_kind htok h1 h2 hcls).2.2 hkb with h | h
  · cases hxx : t.x <;> simp only [hxx] at hx
    · exact absurd h hx.1
    · refine .inr (.inr (.inr (.inl ⟨h, rfl, ?_⟩)))
      intro hil
      cases hca : c.cache <;> simp [stepL2, h, hxx, hil, hca] at hs
    · have hq1 := q1_get ht
      rw [v1_l2_on hr (.inl hxx)] at hq1
      have htok1 : TOK t.a := hg.live1.base.tok t.a (List.mem_of_getElem? hq1)
      exact .inr (.inr (.inr (.inr ⟨h, rfl,
        (class_by_kind htok1 hx.2.2.1 hx.2.2.2.1 (ds1.cls tid t.a hq1)).2.1 hx.2.1⟩)))
    · exfalso
      have hil : c.ilock = some tid := (hg.inv.ilock tid t ht).mpr ⟨hr, .inr hxx⟩
      simp [stepL2, h, hxx, hil] at hs
    · rw [h] at hx; cases hx.1
  · exact .inr (.inr (.inl h))

/-! ### 3. who is what in the views -/

theorem isProd_inert : isProd inertT = false := inert_class.2.2.2.2.2.2.2.1

theorem isProd_v1 {t : Th} (hti : TI t) (h : isProd (v1 t) = true) : t.role = .l1 := by
  unfold TI at hti
  cases hr : t.role with
  | l1 => rfl
  | cons =>
    exfalso
    simp only [hr] at hti
    unfold v1 at h
    simp only [hr] at h
    split at h
    · simp [isProd, hti.1] at h
    · rw [isProd_inert] at h; cases h
  | l2 =>
    exfalso
    simp only [hr] at hti
    unfold v1 at h
    simp only [hr] at h
    split at h
    · rename_i hx
      rcases hx with hx | hx <;> simp only [hx] at hti
      · simp [isProd, hti.2.2.1] at h
      · simp [isProd, hti.2.2.1] at h
    · rw [isProd_inert] at h; cases h

theorem isCons_v1 {t : Th} (hti : TI t) (h : isCons (v1 t) = true) : t.role = .l2 ∧ t.x = .deq := by
  unfold TI at hti
  cases hr : t.role with
  | l1 =>
    exfalso
    simp only [hr] at hti
    rw [v1_l1 hr] at h
    simp [isCons, hti] at h
  | cons =>
    exfalso
    simp only [hr] at hti
    unfold v1 at h
    simp only [hr] at h
    split at h
    · simp [isCons, hti.1] at h
    · rw [isCons_inert] at h; cases h
  | l2 =>
    simp only [hr] at hti
    unfold v1 at h
    simp only [hr] at h
    split at h
    · rename_i hx
      rcases hx with hx | hx
      · exact ⟨rfl, hx⟩
      · exfalso
        simp only [hx] at hti
        simp [isCons, hti.2.2.1] at h
    · rw [isCons_inert] at h; cases h

theorem isProd_v2 {t : Th} (hti : TI t) (h : isProd (v2 t) = true) : t.role = .l2 := by
  unfold TI at hti
  cases hr : t.role with
  | l2 => rfl
  | l1 => exfalso; rw [v2_l1 hr, isProd_inert] at h; cases h
  | cons =>
    exfalso
    simp only [hr] at hti
    rw [v2_cons hr] at h
    obtain ⟨-, -, hb⟩ := hti
    cases hc : t.cpc <;> simp only [hc] at hb
    · simp [isProd, hb.2.1] at h
    · simp [isProd, hb.2.1] at h
    · simp [isProd, hb.1] at h
    · simp [isProd, hb.1] at h
    · rcases hb.1.2 with e | e <;> simp [isProd, e] at h
    · rcases hb.2 with e | e <;> simp [isProd, e] at h
    · rcases hb.2 with e | e <;> simp [isProd, e] at h

/-- once the caller has left its iteration, enqueueing on the OUTPUT queue is done -/
theorem cons_done2 {c : Cfg} (hg : Good c) {t : Th} (ht : c.ths[0]? = some t)
    (hc : t.cpc = .shutdown ∨ t.cpc = .fin) : c.s2.enqueueDone = true := by
  have hr : t.role = .cons := (hg.inv.role0 0 t ht).mpr rfl
  have hti := hg.inv.ti t (List.mem_of_getElem? ht)
  unfold TI at hti
  simp only [hr] at hti
  have hb : t.b.pc = .done ∧ (t.b.prog.kind = .batch ∨ t.b.prog.kind = .stopper) := by
    rcases hc with hc | hc <;> simpa [hc] using hti.2.2
  have hq2 := q2_get ht
  rw [v2_cons hr] at hq2
  have hx := hg.live2.base.xok t.b (List.mem_of_getElem? hq2)
  rcases hb.2 with hk | hk
  · rcases hx.2.2.2.2.1 (by simp [armed, hb.1, isCons, hk]) with h | h
    · exact hg.live2.base.i3 h
    · rw [show (q2cfg c).sh.timeout = c.s2.timeout from rfl, hg.inv.to2] at h; cases h
  · have := hx.2.1 (by simp [hb.1, isStopper, hk])
    show (q2cfg c).sh.enqueueDone = true
    rw [enqueueDone_iff]; exact .inr (.inl this)

/-! ### 4. the pool -/

def nRole (r : Role) (c : Cfg) : Nat := c.ths.countP (·.role == r)

theorem running_le {c : Cfg} (r : Role)
    (h : ∀ t ∈ c.ths, (t.isTask && t.started && !t.done) = true → t.role = r) : c.running ≤ nRole r c := by
  unfold Cfg.running nRole
  rw [← List.countP_eq_length_filter]
  exact List.countP_mono_left (fun t ht h' => by simp [h t ht h'])

theorem exists_first_unstarted {c : Cfg} :
    ∀ (i : Nat) (t : Th), c.ths[i]? = some t → t.started = false →
      ∃ (k : Nat) (u : Th), c.ths[k]? = some u ∧ u.started = false ∧
        ∀ (j : Nat) (w : Th), j < k → c.ths[j]? = some w → w.started = true := by
  intro i
  induction i using Nat.strongRecOn with
  | _ i ih =>
    intro t ht hs
    by_cases hm : ∃ j w, j < i ∧ c.ths[j]? = some w ∧ w.started = false
    · obtain ⟨j, w, hj, hw, hws⟩ := hm
      exact ih j hj w hw hws
    · refine ⟨i, t, ht, hs, fun j w hj hw => ?_⟩
      cases hws : w.started with
      | true => rfl
      | false => exact absurd ⟨j, w, hj, hw, hws⟩ hm

/-- the pool lets the first task that has not started start, as soon as a worker is free -/
theorem gate_of_first {c : Cfg} {k : Nat} {u : Th} (hk : c.ths[k]? = some u) (hsub : c.ths.length - 1 ≤ c.nsub)
    (hfirst : ∀ (j : Nat) (w : Th), j < k → c.ths[j]? = some w → w.started = true)
    (hcap : c.maxWorkers = 0 ∨ c.running < c.maxWorkers) : c.gate k = true := by
  have hlt : k < c.ths.length := (List.getElem?_eq_some_iff.mp hk).1
  unfold Cfg.gate
  simp only [Bool.and_eq_true, decide_eq_true_eq, Bool.or_eq_true, beq_iff_eq, Bool.not_eq_true', List.all_eq_true]
  refine ⟨⟨?_, hcap⟩, ?_⟩
  · exact Nat.le_trans (Nat.le_sub_one_of_lt hlt) hsub
  cases hf : c.fifo with
  | false => exact .inl rfl
  | true =>
    right
    intro w hw
    rw [List.mem_take_iff_getElem] at hw
    obtain ⟨j, hj, rfl⟩ := hw
    rw [Nat.lt_min] at hj
    exact hfirst j _ hj.1 (List.getElem?_eq_getElem hj.2)

/-- the side condition on the pool: unbounded, or more workers than first-level tasks and (unless the pool is FIFO) more
workers than second-level tasks -/
def PoolSide (c : Cfg) : Prop :=
  c.maxWorkers = 0 ∨ (nRole .l1 c < c.maxWorkers ∧ (c.fifo = true ∨ nRole .l2 c < c.maxWorkers))

/-- the thread list is the caller, then the first-level tasks, then the second-level tasks -/
def Ordered (c : Cfg) : Prop :=
  ∀ (i j : Nat) (ti tj : Th), c.ths[i]? = some ti → c.ths[j]? = some tj → ti.role = .l1 → tj.role = .l2 → i < j

theorem unstarted_task {t : Th} (h : t.started = false) : t.role ≠ .cons := by
  intro e; simp [Th.started, e] at h

/-! ### 5. a quiescent configuration is final -/

set_option maxHeartbeats 400000 in
/-- **stuck ⇒ final** -/
theorem stuck_final {c : Cfg} (hg : Good c) (hq : c.quiescent F) (hn1 : ∃ t ∈ c.ths, t.role = .l1)
    (hn2 : ∃ t ∈ c.ths, t.role = .l2) (hord : Ordered c) (hpool : PoolSide c) : c.allDone = true := by
  have hi := hg.inv
  have ds1 := dead_shape hg.live1 (prod1_pos hg hn1) (dead_q1 hg hq)
  have ds2 := dead_shape hg.live2 (prod2_pos hg hn2) (dead_q2 hg hq)
  -- the caller
  obtain ⟨t0, ht0⟩ : ∃ t0, c.ths[0]? = some t0 := by
    obtain ⟨t, ht, -⟩ := hn1
    cases hc : c.ths with
    | nil => rw [hc] at ht; cases ht
    | cons a l => exact ⟨a, rfl⟩
  have hr0 : t0.role = .cons := (hi.role0 0 t0 ht0).mpr rfl
  have hc0 := stuck_cons hg hq ds1 ds2 ht0
  have hq20 := q2_get ht0
  rw [v2_cons hr0] at hq20
  have hsub : c.ths.length - 1 ≤ c.nsub := by
    apply sub_of hi ht0 <;> rcases hc0 with ⟨h, -⟩ | ⟨h, -⟩ | h <;> simp [h]
  -- every unstarted task is held back by the pool
  have hgate : ∀ (k : Nat) (u : Th), c.ths[k]? = some u → u.started = false → c.gate k = false := by
    intro k u hk hu
    cases hr : u.role with
    | cons => exact absurd hr (unstarted_task hu)
    | l1 =>
      rcases stuck_l1 hg hq ds1 hk hr with h | h | h
      · exact h.2
      · simp [Th.started, hr, h] at hu
      · have : u.a.pc = .start := by simpa [Th.started, hr] using hu
        rw [this] at h; simp [prodWakePc] at h
    | l2 =>
      have : u.b.pc = .start := by simpa [Th.started, hr] using hu
      rcases stuck_l2 hg hq ds1 ds2 hk hr with h | h | h | h | h
      · exact h.2
      · rw [this] at h; cases h.1
      · rw [this] at h; simp [prodWakePc] at h
      · rw [this] at h; cases h.1
      · rw [this] at h; cases h.1
  -- with a free worker, no task is unstarted
  have hnoUn : (c.maxWorkers = 0 ∨ c.running < c.maxWorkers) →
      ∀ (i : Nat) (t : Th), c.ths[i]? = some t → t.started = true := by
    intro hcap i t ht
    cases hs : t.started with
    | true => rfl
    | false =>
      exfalso
      obtain ⟨k, u, hk, hu, hfirst⟩ := exists_first_unstarted i t ht hs
      have := gate_of_first hk hsub hfirst hcap
      rw [hgate k u hk hu] at this; cases this
  -- 1. no second-level task is parked in `Q2.put`
  have hW2p : (q2cfg c).sh.enqWait = [] := by
    cases hw : (q2cfg c).sh.enqWait with
    | nil => rfl
    | cons a l =>
      exfalso
      obtain ⟨hnd, -, hdw, -⟩ := ds2.prodParked (by rw [hw]; simp)
      rcases hc0 with ⟨-, hcw⟩ | ⟨h, -⟩ | h
      · exact ds2.cwait 0 t0.b hq20 hcw hdw
      · have := cons_done2 hg ht0 (.inl h)
        rw [show (q2cfg c).sh.enqueueDone = c.s2.enqueueDone from rfl, this] at hnd; cases hnd
      · have := cons_done2 hg ht0 (.inr h)
        rw [show (q2cfg c).sh.enqueueDone = c.s2.enqueueDone from rfl, this] at hnd; cases hnd
  -- where the second-level tasks are
  have hl2 : ∀ (k : Nat) (u : Th), c.ths[k]? = some u → u.role = .l2 →
      u.b.pc = .start ∨ (u.b.pc = .done ∧ u.x = .idle) ∨ (u.b.pc = .eNext ∧ u.x = .lockAcq ∧ c.ilock ≠ none) ∨
      (u.b.pc = .eNext ∧ u.x = .deq ∧ consWakePc u.a.pc = true) := by
    intro k u hk hr
    rcases stuck_l2 hg hq ds1 ds2 hk hr with h | h | h | h | h
    · exact .inl h.1
    · exact .inr (.inl h)
    · exact absurd hW2p (ds2.pwait k (v2 u) (q2_get hk) (by rw [(v2_l2_pc hr).1]; exact h))
    · exact .inr (.inr (.inl h))
    · exact .inr (.inr (.inr h))
  -- 2. no second-level task is parked in `Q1.get_batch`
  have hW1c : (q1cfg c).sh.deqWait = [] := by
    cases hw : (q1cfg c).sh.deqWait with
    | nil => rfl
    | cons x l =>
      exfalso
      have hne : (q1cfg c).sh.deqWait ≠ [] := by rw [hw]; simp
      obtain ⟨-, -, hew, q, hqm, hqp, hqe⟩ := ds1.consParked hne
      -- an unstarted first-level task
      simp only [q1cfg, List.mem_map] at hqm
      obtain ⟨tu, htum, rfl⟩ := hqm
      have hru := isProd_v1 (hi.ti tu htum) hqp
      obtain ⟨iu, hiu⟩ := List.getElem?_of_mem htum
      rw [v1_l1 hru] at hqe
      have hun : tu.a.pc = .start := by
        rcases stuck_l1 hg hq ds1 hiu hru with h | h | h
        · exact h.1
        · rcases hqe with ⟨e, -⟩ | e
          · exact e
          · rw [h] at e; cases e
        · rcases hqe with ⟨e, -⟩ | e
          · exact e
          · rw [e] at h; simp [prodWakePc] at h
      have hus : tu.started = false := by simp [Th.started, hru, hun]
      -- the parked consumer of the input queue is a started second-level task
      have hxm : x ∈ wlD (q1cfg c).sh := by unfold wlD; rw [hw]; simp
      obtain ⟨qx, hqx, hcw⟩ := (hg.live1.base.wait.2.2.1 x).mp hxm
      simp only [q1cfg, List.getElem?_map, Option.map_eq_some_iff] at hqx
      obtain ⟨tx, htx, rfl⟩ := hqx
      have hcx := ((wake_kind (v1 tx) (hg.live1.base.tok _ (List.mem_map_of_mem (List.mem_of_getElem? htx)))).1 hcw).1
      obtain ⟨hrx, hxx⟩ := isCons_v1 (hi.ti tx (List.mem_of_getElem? htx)) hcx
      have htix := hi.ti tx (List.mem_of_getElem? htx)
      unfold TI at htix
      simp only [hrx, hxx] at htix
      have hxs : tx.started = true := by simp [Th.started, hrx, htix.2.1]
      -- no first-level task runs
      have hrun : ∀ t ∈ c.ths, (t.isTask && t.started && !t.done) = true → t.role = .l2 := by
        intro t htm hrn
        cases hr : t.role with
        | l2 => rfl
        | cons => simp [Th.isTask, hr] at hrn
        | l1 =>
          exfalso
          obtain ⟨k, hk⟩ := List.getElem?_of_mem htm
          rcases stuck_l1 hg hq ds1 hk hr with h | h | h
          · simp [Th.started, hr, h.1] at hrn
          · simp [Th.done, hr, h] at hrn
          · exact absurd hew (ds1.pwait k t.a (by rw [← v1_l1 hr]; exact q1_get hk) h)
      rcases hpool with h0 | ⟨-, hf | hp⟩
      · have := hnoUn (.inl h0) iu tu hiu; rw [hus] at this; cases this
      · have := hi.pre hf iu x tu tx (hord iu x tu tx hiu htx hru hrx) hiu htx hxs
        rw [hus] at this; cases this
      · have := hnoUn (.inr (Nat.lt_of_le_of_lt (running_le .l2 hrun) hp)) iu tu hiu
        rw [hus] at this; cases this
  -- hence `lock1` is free and every second-level task is unstarted or finished
  have hl2' : ∀ (k : Nat) (u : Th), c.ths[k]? = some u → u.role = .l2 → u.b.pc = .start ∨ (u.b.pc = .done ∧ u.x = .idle) := by
    intro k u hk hr
    have hdeq : ∀ (k : Nat) (u : Th), c.ths[k]? = some u → u.role = .l2 → ¬ (u.x = .deq ∧ consWakePc u.a.pc = true) := by
      rintro k u hk hr ⟨hx, hcw⟩
      exact ds1.cwait k u.a (by rw [← v1_l2_on hr (.inl hx)]; exact q1_get hk) hcw hW1c
    rcases hl2 k u hk hr with h | h | h | h
    · exact .inl h
    · exact .inr h
    · exfalso
      cases hil : c.ilock with
      | none => exact h.2.2 hil
      | some w =>
        have hw := hi.ilockLt w hil
        obtain ⟨tw, htw⟩ : ∃ tw, c.ths[w]? = some tw := ⟨c.ths[w], List.getElem?_eq_getElem hw⟩
        obtain ⟨hrw, hxw⟩ := (hi.ilock w tw htw).mp hil
        rcases hl2 w tw htw hrw with g | g | g | g
        · have htiw := hi.ti tw (List.mem_of_getElem? htw)
          unfold TI at htiw
          simp only [hrw] at htiw
          rcases hxw with e | e <;> simp only [e] at htiw <;> (rw [g] at htiw; cases htiw.2.1)
        · rcases hxw with e | e <;> (rw [g.2] at e; cases e)
        · rcases hxw with e | e <;> (rw [g.2.1] at e; cases e)
        · exact hdeq w tw htw hrw ⟨g.2.1, g.2.2⟩
    · exact absurd ⟨h.2.1, h.2.2⟩ (hdeq k u hk hr)
  -- 3. every task has started
  have hrun1 : ∀ t ∈ c.ths, (t.isTask && t.started && !t.done) = true → t.role = .l1 := by
    intro t htm hrn
    cases hr : t.role with
    | l1 => rfl
    | cons => simp [Th.isTask, hr] at hrn
    | l2 =>
      exfalso
      obtain ⟨k, hk⟩ := List.getElem?_of_mem htm
      rcases hl2' k t hk hr with h | h
      · simp [Th.started, hr, h] at hrn
      · simp [Th.done, hr, h.1, h.2] at hrn
  have hcap : c.maxWorkers = 0 ∨ c.running < c.maxWorkers := by
    rcases hpool with h0 | ⟨h1, -⟩
    · exact .inl h0
    · exact .inr (Nat.lt_of_le_of_lt (running_le .l1 hrun1) h1)
  have hstarted := hnoUn hcap
  -- 4. every second-level task has finished, so enqueueing on the input queue is done
  have hl2d : ∀ (k : Nat) (u : Th), c.ths[k]? = some u → u.role = .l2 → u.b.pc = .done ∧ u.x = .idle := by
    intro k u hk hr
    rcases hl2' k u hk hr with h | h
    · have := hstarted k u hk; simp [Th.started, hr, h] at this
    · exact h
  have hdone1 : c.s1.enqueueDone = true := by
    obtain ⟨u, hum, hru⟩ := hn2
    obtain ⟨k, hk⟩ := List.getElem?_of_mem hum
    have := hl2d k u hk hru
    exact hi.d1 u hum ⟨hru, .inr (.inr ⟨this.2, this.1⟩)⟩
  -- 5. every first-level task has finished
  have hl1d : ∀ (k : Nat) (u : Th), c.ths[k]? = some u → u.role = .l1 → u.a.pc = .done := by
    intro k u hk hr
    rcases stuck_l1 hg hq ds1 hk hr with h | h | h
    · have := hstarted k u hk; simp [Th.started, hr, h.1] at this
    · exact h
    · exfalso
      have hne := ds1.pwait k u.a (by rw [← v1_l1 hr]; exact q1_get hk) h
      have := (ds1.prodParked hne).1
      rw [show (q1cfg c).sh.enqueueDone = c.s1.enqueueDone from rfl, hdone1] at this; cases this
  have htasks : ∀ t ∈ c.ths, t.isTask = true → t.done = true := by
    intro t htm htk
    obtain ⟨k, hk⟩ := List.getElem?_of_mem htm
    cases hr : t.role with
    | cons => simp [Th.isTask, hr] at htk
    | l1 => simp [Th.done, hr, hl1d k t hk hr]
    | l2 => simp [Th.done, hr, hl2d k t hk hr]
  -- 6. the caller has finished
  have hfin : t0.cpc = .fin := by
    rcases hc0 with ⟨-, hcw⟩ | ⟨-, htd⟩ | h
    · exfalso
      have hne := ds2.cwait 0 t0.b hq20 hcw
      obtain ⟨-, -, -, q, hqm, hqp, hqe⟩ := ds2.consParked hne
      simp only [q2cfg, List.mem_map] at hqm
      obtain ⟨tu, htum, rfl⟩ := hqm
      have hru := isProd_v2 (hi.ti tu htum) hqp
      obtain ⟨k, hk⟩ := List.getElem?_of_mem htum
      have := (hl2d k tu hk hru).1
      rcases hqe with ⟨e, -⟩ | e <;> (rw [(v2_l2_pc hru).1, this] at e; cases e)
    · exfalso
      have : c.tasksDone = true := by
        unfold Cfg.tasksDone
        rw [List.all_eq_true]
        intro t htm
        cases htk : t.isTask with
        | false => simp
        | true => simp [htasks t htm htk]
      rw [this] at htd; cases htd
    · exact h
  unfold Cfg.allDone
  rw [List.all_eq_true]
  intro t htm
  cases htk : t.isTask with
  | true => exact htasks t htm htk
  | false =>
    have hr : t.role = .cons := by simpa [Th.isTask] using htk
    obtain ⟨k, hk⟩ := List.getElem?_of_mem htm
    have hk0 := (hi.role0 k t hk).mp hr
    subst hk0
    rw [ht0] at hk; cases hk
    simp [Th.done, hr, hfin]

end MlModel.Piter2
