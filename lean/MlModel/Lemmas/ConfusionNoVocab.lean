import MlModel.Lemmas.ConfusionGen
import Mathlib.Data.List.Dedup
/-!
# Without a vocabulary (finding F8): what does NOT depend on the batching

`multiclass` / `multiclass-multioutput` input, `vocab=None`, `average='micro'`: every batch deduces
its own vocabulary `V_b` (`get_vocab`: the set of labels of THAT batch, in CPython's set order).
For one example with true label set `T` and predicted set `P` the batch then counts

  tp = |T ∩ P|,  fn = |T \ P|,  fp = |P \ T|      — whatever `V_b` is (`ex_counts_univ`), and
  tn = |V_b| − |T ∪ P|                            — the only place the batch-mates enter.

Trick: tag every example with the size of the vocabulary of the batch it is fed in.  On tagged
examples the accumulator is again a homomorphic count function (`noVocabD`), so the generic
sharding theorem applies and gives the state of ANY composition into shards and batches in closed
form: `tp`, `fp`, `fn` are sums of per-example quantities that do not mention the batch; `tn` is
`Σ_examples (|V_batch(example)| − |T ∪ P|)`.
-/
namespace MlModel.Agg.Confusion
open MlModel.Spec.Classification

abbrev LabelSets := List Label × List Label

/-- `|T ∩ P|`, `|T \ P|`, `|P \ T|` of one example: no class universe involved -/
def exTP (x : LabelSets) : Nat := x.1.dedup.countP fun k => x.2.contains k
def exFN (x : LabelSets) : Nat := x.1.dedup.countP fun k => !x.2.contains k
def exFP (x : LabelSets) : Nat := x.2.dedup.countP fun k => !x.1.contains k

/-! ## counting over any duplicate-free universe that contains the labels -/

theorem countP_univ (U S : List Label) (hU : U.Nodup) (hS : ∀ e ∈ S, e ∈ U) (q : Label → Bool) :
    U.countP (fun k => S.contains k && q k) = S.dedup.countP q := by
  have hperm : (U.filter fun k => S.contains k).Perm S.dedup := by
    rw [List.perm_ext_iff_of_nodup (hU.filter _) (List.nodup_dedup S)]
    intro a
    simp only [List.mem_filter, List.contains_iff_mem, List.mem_dedup]
    exact ⟨fun h => h.2, fun h => ⟨hS a h, h⟩⟩
  rw [List.countP_eq_length_filter, List.countP_eq_length_filter,
    show (U.filter fun k => S.contains k && q k) = (U.filter fun k => S.contains k).filter q by
      rw [List.filter_filter]; congr 1; funext k; rw [Bool.and_comm]]
  exact (hperm.filter q).length_eq

theorem rowCells_mark (U T P : List Label) :
    rowCells (mark U T) (mark U P) = U.map fun k => (⟨T.contains k, P.contains k⟩ : Cell) := by
  simp [rowCells, mark, List.zipWith_map_left, List.zipWith_map_right, List.zipWith_self]

theorem cells_total : ∀ (cs : List Cell), tpOf cs + fpOf cs + fnOf cs + tnOf cs = cs.length
  | [] => rfl
  | c :: cs => by
    have ih := cells_total cs
    obtain ⟨t, p⟩ := c
    simp only [tpOf, fpOf, fnOf, tnOf, List.countP_cons, List.length_cons] at *
    cases t <;> cases p <;> simp <;> omega

/-- the counts of one example's cells over ANY duplicate-free universe containing its labels -/
theorem ex_counts_univ (U : List Label) (hU : U.Nodup) (x : LabelSets) (h1 : ∀ e ∈ x.1, e ∈ U)
    (h2 : ∀ e ∈ x.2, e ∈ U) :
    tpOf (rowCells (mark U x.1) (mark U x.2)) = exTP x ∧
    fnOf (rowCells (mark U x.1) (mark U x.2)) = exFN x ∧
    fpOf (rowCells (mark U x.1) (mark U x.2)) = exFP x ∧
    (tnOf (rowCells (mark U x.1) (mark U x.2)) : Int) = (U.length : Int) - (exTP x + exFP x + exFN x) := by
  have e1 : tpOf (rowCells (mark U x.1) (mark U x.2)) = exTP x := by
    rw [rowCells_mark]; simp only [tpOf, List.countP_map, Function.comp_def]
    exact countP_univ U x.1 hU h1 _
  have e2 : fnOf (rowCells (mark U x.1) (mark U x.2)) = exFN x := by
    rw [rowCells_mark]; simp only [fnOf, List.countP_map, Function.comp_def]
    exact countP_univ U x.1 hU h1 _
  have e3 : fpOf (rowCells (mark U x.1) (mark U x.2)) = exFP x := by
    rw [rowCells_mark]; simp only [fpOf, List.countP_map, Function.comp_def]
    rw [show (fun k => !x.1.contains k && x.2.contains k) = fun k => x.2.contains k && !x.1.contains k by
      funext k; rw [Bool.and_comm]]
    exact countP_univ U x.2 hU h2 _
  refine ⟨e1, e2, e3, ?_⟩
  have ht := cells_total (rowCells (mark U x.1) (mark U x.2))
  have hl : (rowCells (mark U x.1) (mark U x.2)).length = U.length := by rw [rowCells_mark]; simp
  rw [e1, e2, e3, hl] at ht
  omega

/-! ## the count function on examples tagged with the vocabulary size of their batch -/

def scalarCM (tp tn fp fn : Int) : CMArr := { tp := .s tp, tn := .s tn, fp := .s fp, fn := .s fn }

section tagged
variable {X : Type} (lab : X → LabelSets)

/-- what a set of examples, each tagged with `|V_b|` of the batch it was fed in, adds to the state -/
def noVocabD (ys : List (X × Nat)) : CMArr :=
  scalarCM (ys.map fun y => (exTP (lab y.1) : Int)).sum
    (ys.map fun y => (y.2 : Int) - (exTP (lab y.1) + exFP (lab y.1) + exFN (lab y.1))).sum
    (ys.map fun y => (exFP (lab y.1) : Int)).sum
    (ys.map fun y => (exFN (lab y.1) : Int)).sum

theorem noVocabD_append (xs ys : List (X × Nat)) :
    noVocabD lab (xs ++ ys) = (noVocabD lab xs).addP (noVocabD lab ys) := by
  simp [noVocabD, scalarCM, CMArr.addP, Arr.addP, List.sum_append]

theorem noVocabD_good (ys : List (X × Nat)) : GCM (GoodArr none 0) (noVocabD lab ys) :=
  ⟨⟨_, rfl⟩, ⟨_, rfl⟩, ⟨_, rfl⟩, ⟨_, rfl⟩⟩

/-- the batch order is a duplicate-free list containing every label of the batch (`set(...)`) -/
def ValidOrd (o : List Label) (xs : List X) : Prop :=
  o.Nodup ∧ ∀ x ∈ xs, (∀ e ∈ (lab x).1, e ∈ o) ∧ (∀ e ∈ (lab x).2, e ∈ o)

instance (o : List Label) (xs : List X) : Decidable (ValidOrd lab o xs) := by
  unfold ValidOrd; infer_instance

theorem sum_map_congr {α : Type} (f g : α → Int) : ∀ (l : List α), (∀ a ∈ l, f a = g a) →
    (l.map f).sum = (l.map g).sum
  | [], _ => rfl
  | a :: l, h => by
    simp only [List.map_cons, List.sum_cons, h a (by simp),
      sum_map_congr f g l (fun b hb => h b (by simp [hb]))]

theorem natCast_sum_flatMap {α : Type} (f : α → List Cell) (g : List Cell → Nat)
    (hg : ∀ a b, g (a ++ b) = g a + g b) (hg0 : g [] = 0) :
    ∀ xs : List α, ((g (xs.flatMap f) : Nat) : Int) = (xs.map fun x => ((g (f x) : Nat) : Int)).sum
  | [] => by simp [hg0]
  | x :: xs => by
    simp only [List.flatMap_cons, hg, List.map_cons, List.sum_cons,
      ← natCast_sum_flatMap f g hg hg0 xs]
    omega

/-- the dense counts of one batch over its own deduced vocabulary `o` -/
theorem denseCM_noVocab (o : List Label) (xs : List X) (ho : ValidOrd lab o xs) :
    denseCM none o.length (xs.map fun x => encMultioutput o (lab x))
      = noVocabD lab (xs.map fun x => (x, o.length)) := by
  rw [denseCM, countsOf_pooled _ _ _ (rowsAligned_of _ (by
    intro x hx; obtain ⟨y, _, rfl⟩ := List.mem_map.mp hx; simp [encMultioutput, mark])),
    pooledCells, zip_fst_snd, List.flatMap_map]
  have hex := fun x hx => ex_counts_univ o ho.1 (lab x) (ho.2 x hx).1 (ho.2 x hx).2
  simp only [noVocabD, scalarCM, List.map_map, Function.comp_def, encMultioutput]
  refine CMArr.mk.injEq .. |>.mpr ⟨?_, ?_, ?_, ?_⟩ <;> congr 1
  · rw [natCast_sum_flatMap _ tpOf tpOf_append rfl]
    exact sum_map_congr _ _ xs fun x hx => by rw [(hex x hx).1]
  · rw [natCast_sum_flatMap _ tnOf tnOf_append rfl]
    exact sum_map_congr _ _ xs fun x hx => (hex x hx).2.2.2
  · rw [natCast_sum_flatMap _ fpOf fpOf_append rfl]
    exact sum_map_congr _ _ xs fun x hx => by rw [(hex x hx).2.2.1]
  · rw [natCast_sum_flatMap _ fnOf fnOf_append rfl]
    exact sum_map_congr _ _ xs fun x hx => by rw [(hex x hx).2.1]

end tagged

/-! ## the two input types -/

theorem multioutputCM_noVocab (cv : Option Vocab) (hcv : cv = none ∨ cv = some []) (avg : Average)
    (axis : Option Nat) (hax : axisOf avg = .ok axis) (hb : avg ≠ .binary) (o : List Label)
    (ho : o.Nodup) (xs : List LabelSets)
    (hx : ∀ x ∈ xs, (∀ e ∈ x.1, e ∈ o) ∧ (∀ e ∈ x.2, e ∈ o)) :
    multiclassCM cv true avg { yTrue := .nested (xs.map (·.1)), yPred := .nested (xs.map (·.2)), order := o }
      = .ok (denseCM axis o.length (xs.map (encMultioutput o))) := by
  have hv : effectiveVocab cv o = o.zipIdx := by rcases hcv with rfl | rfl <;> rfl
  have e1 := applyVocab_nested o ho (xs.map (·.1)) (by
    intro r hr; obtain ⟨x, hx', rfl⟩ := List.mem_map.mp hr; exact (hx x hx').1)
  have e2 := applyVocab_nested o ho (xs.map (·.2)) (by
    intro r hr; obtain ⟨x, hx', rfl⟩ := List.mem_map.mp hr; exact (hx x hx').2)
  simp only [multiclassCM, hv, e1, e2, hax, bind, Except.bind, List.length_zipIdx]
  rw [indicatorCore_dense avg hb axis _ _ _ (by simp)]
  simp [denseCM, encMultioutput, List.map_map, Function.comp_def]

theorem multiclassCM_noVocab (cv : Option Vocab) (hcv : cv = none ∨ cv = some []) (avg : Average)
    (axis : Option Nat) (hax : axisOf avg = .ok axis) (hb : avg ≠ .binary) (o : List Label)
    (ho : o.Nodup) (xs : List (Label × Label)) (hx : ∀ x ∈ xs, x.1 ∈ o ∧ x.2 ∈ o) :
    multiclassCM cv false avg { yTrue := .flat (xs.map (·.1)), yPred := .flat (xs.map (·.2)), order := o }
      = .ok (denseCM axis o.length (xs.map (encMulticlass o))) := by
  have hv : effectiveVocab cv o = o.zipIdx := by rcases hcv with rfl | rfl <;> rfl
  have e1 := applyVocab_flat o ho (xs.map (·.1)) (by
    intro y hy; obtain ⟨x, hx', rfl⟩ := List.mem_map.mp hy; exact (hx x hx').1)
  have e2 := applyVocab_flat o ho (xs.map (·.2)) (by
    intro y hy; obtain ⟨x, hx', rfl⟩ := List.mem_map.mp hy; exact (hx x hx').2)
  simp only [multiclassCM, hv, e1, e2, hax, bind, Except.bind, List.length_zipIdx]
  rw [indicatorCore_dense avg hb axis _ _ _ (by simp)]
  simp [denseCM, encMulticlass, List.map_map, Function.comp_def]

/-- label sets of a `multiclass` example: the single label on each side -/
def labMc (x : Label × Label) : LabelSets := ([x.1], [x.2])

/-- batches of tagged examples: the order is chosen by `ord` from the untagged batch -/
def moBatchT (ord : List LabelSets → List Label) (ys : List (LabelSets × Nat)) : Batch :=
  { yTrue := .nested ((ys.map (·.1)).map (·.1)), yPred := .nested ((ys.map (·.1)).map (·.2)),
    order := ord (ys.map (·.1)) }
def mcBatchT (ord : List (Label × Label) → List Label) (ys : List ((Label × Label) × Nat)) : Batch :=
  { yTrue := .flat ((ys.map (·.1)).map (·.1)), yPred := .flat ((ys.map (·.1)).map (·.2)),
    order := ord (ys.map (·.1)) }

/-- the batch's set order is valid and every example carries the size of that vocabulary -/
def TagOK {X : Type} (lab : X → LabelSets) (ord : List X → List Label) (ys : List (X × Nat)) : Prop :=
  ValidOrd lab (ord (ys.map (·.1))) (ys.map (·.1)) ∧ ∀ y ∈ ys, y.2 = (ord (ys.map (·.1))).length

theorem tagged_self {X : Type} (ord : List X → List Label) (ys : List (X × Nat))
    (h : ∀ y ∈ ys, y.2 = (ord (ys.map (·.1))).length) :
    ((ys.map (·.1)).map fun x => (x, (ord (ys.map (·.1))).length)) = ys := by
  rw [List.map_map]
  conv => rhs; rw [← List.map_id ys]
  apply List.map_congr_left
  intro y hy
  simp only [Function.comp, id]
  rw [← h y hy]

theorem noVocab_multioutput (c : Cfg) (hk' : c.kind = .cm) (hi : c.input = some .multioutput) (hv : c.vocab = none ∨ c.vocab = some [])
    (ha : c.average = .micro) (ord : List LabelSets → List Label) :
    EncodesG c (GoodArr none 0) (TagOK id ord) (moBatchT ord) (noVocabD id) where
  laws := goodArr_laws none 0
  guard := by simp [ha]
  good := noVocabD_good id
  hom := noVocabD_append id
  batch_eq := fun ys hy => by
    simp only [batchCM, hk', hi, ha, moBatchT]
    rw [multioutputCM_noVocab c.vocab hv .micro none rfl (by decide) _ hy.1.1 _ (by
      intro x hx; exact hy.1.2 x hx)]
    have := denseCM_noVocab id (ord (ys.map (·.1))) (ys.map (·.1)) hy.1
    simp only [id] at this
    rw [this, tagged_self ord ys hy.2]

theorem noVocab_multiclass (c : Cfg) (hk' : c.kind = .cm) (hi : c.input = some .multiclass)
    (hv : c.vocab = none ∨ c.vocab = some []) (ha : c.average = .micro)
    (ord : List (Label × Label) → List Label) :
    EncodesG c (GoodArr none 0) (TagOK labMc ord) (mcBatchT ord) (noVocabD labMc) where
  laws := goodArr_laws none 0
  guard := by simp [ha]
  good := noVocabD_good labMc
  hom := noVocabD_append labMc
  batch_eq := fun ys hy => by
    simp only [batchCM, hk', hi, ha, mcBatchT]
    rw [multiclassCM_noVocab c.vocab hv .micro none rfl (by decide) _ hy.1.1 _ (by
      intro x hx
      have := hy.1.2 x hx
      simpa [labMc] using this)]
    have := denseCM_noVocab labMc (ord (ys.map (·.1))) (ys.map (·.1)) hy.1
    have e : (ys.map (·.1)).map (encMulticlass (ord (ys.map (·.1))))
        = (ys.map (·.1)).map fun x => encMultioutput (ord (ys.map (·.1))) (labMc x) := rfl
    rw [e, this, tagged_self ord ys hy.2]

/-- tag every example of every batch with the size of the vocabulary deduced from its batch -/
def tagShards {X : Type} (ord : List X → List Label) (shards : List (List (List X))) :
    List (List (List (X × Nat))) :=
  shards.map (·.map fun b => b.map fun x => (x, (ord b).length))

theorem map_fst_tag {X : Type} (b : List X) (n : Nat) : (b.map fun x => (x, n)).map (·.1) = b := by
  rw [List.map_map]; conv => rhs; rw [← List.map_id b]
  rfl

theorem tagOK_tag {X : Type} (lab : X → LabelSets) (ord : List X → List Label) (b : List X)
    (h : ValidOrd lab (ord b) b) : TagOK lab ord (b.map fun x => (x, (ord b).length)) := by
  unfold TagOK
  rw [map_fst_tag]
  exact ⟨h, by intro y hy; obtain ⟨x, _, rfl⟩ := List.mem_map.mp hy; rfl⟩

/-! ## reading the closed form -/

theorem noVocabD_tp {X : Type} (lab : X → LabelSets) (ys : List (X × Nat)) :
    (noVocabD lab ys).tp = .s ((ys.map (·.1)).map fun x => (exTP (lab x) : Int)).sum := by
  simp [noVocabD, scalarCM, List.map_map, Function.comp_def]
theorem noVocabD_fp {X : Type} (lab : X → LabelSets) (ys : List (X × Nat)) :
    (noVocabD lab ys).fp = .s ((ys.map (·.1)).map fun x => (exFP (lab x) : Int)).sum := by
  simp [noVocabD, scalarCM, List.map_map, Function.comp_def]
theorem noVocabD_fn {X : Type} (lab : X → LabelSets) (ys : List (X × Nat)) :
    (noVocabD lab ys).fn = .s ((ys.map (·.1)).map fun x => (exFN (lab x) : Int)).sum := by
  simp [noVocabD, scalarCM, List.map_map, Function.comp_def]

/-- `tn` = (sum of the vocabulary sizes the examples were counted against) − Σ |T ∪ P| -/
theorem noVocabD_tn {X : Type} (lab : X → LabelSets) (ys : List (X × Nat)) :
    (noVocabD lab ys).tn = .s ((ys.map fun y => (y.2 : Int)).sum
      - ((ys.map (·.1)).map fun x => ((exTP (lab x) + exFP (lab x) + exFN (lab x) : Nat) : Int)).sum) := by
  simp only [noVocabD, scalarCM, List.map_map, Function.comp_def]
  congr 1
  induction ys with
  | nil => rfl
  | cons y ys ih => simp only [List.map_cons, List.sum_cons, ih]; omega

theorem tagShards_fst {X : Type} (ord : List X → List Label) (shards : List (List (List X))) :
    (tagShards ord shards).flatten.flatten.map (·.1) = shards.flatten.flatten := by
  have e : (tagShards ord shards).map (·.map (·.map (·.1))) = shards := by
    unfold tagShards
    rw [List.map_map]
    conv => rhs; rw [← List.map_id shards]
    apply List.map_congr_left
    intro sh _
    simp only [Function.comp, List.map_map, id]
    conv => rhs; rw [← List.map_id sh]
    apply List.map_congr_left
    intro b _
    simp only [Function.comp, id]
    exact map_fst_tag b _
  rw [List.map_flatten, List.map_flatten]
  conv => rhs; rw [← e]

theorem tagShards_flatten_nil {X : Type} (ord : List X → List Label) (shards : List (List (List X))) :
    (tagShards ord shards).flatten = [] ↔ shards.flatten = [] := by
  simp [tagShards, List.flatten_eq_nil_iff]

end MlModel.Agg.Confusion
