import MlModel.Lemmas.QueueLiveK
/-!
# Liveness of the IteratorQueue LTS — the no-lost-wake-up invariant over all reachable configurations

`Live c` = `Base c` (supporting invariants, `WF_enq` counting) ∧ `J1 ∧ J2 ∧ K1 ∧ K2`.  It holds
initially and is preserved by every step of every thread, for every capacity, every mix of
programs (producers with failing items, `get`/`get_batch` consumers, stoppers), as long as no
timeout is configured (with a timeout every parked thread can always wake up by itself).
-/
namespace MlModel.Queue

theorem sawEmpty_holds (x : Thread) (h : sawEmpty x = true) : holds .deq x.pc = true := by
  unfold sawEmpty at h
  cases hp : x.pc <;> simp_all [holds]

theorem sawFull_holds (x : Thread) (h : sawFull x = true) : holds .enq x.pc = true := by
  unfold sawFull at h
  cases hp : x.pc <;> simp_all [holds]

theorem mutex_others {c : Cfg} (hl : LockInv c) {tid : Tid} {t : Thread} (ht : c.ths[tid]? = some t)
    (l : Lk) (P : Thread → Bool) (hP : ∀ x, P x = true → holds l x.pc = true)
    (hh : holds l t.pc = true) : ¬ others c tid P := by
  rintro ⟨j, tj, hj, htj, hp⟩
  have h1 := (hl.1 tid t ht l).mpr hh
  have h2 := (hl.1 j tj htj l).mpr (hP tj hp)
  rw [h1] at h2
  exact hj (Option.some.inj h2).symm

structure Live (c : Cfg) : Prop where
  base : Base c
  j1 : J1 c
  j2 : J2 c
  k1 : K1 c
  k2 : K2 c

theorem live_init (cap maxEnq : Nat) (ig : Bool) (progs : List Prog) (hwf : WF_enq maxEnq progs) (to : Bool) :
    Live (init cap maxEnq to ig progs) := by
  have hno : ∀ P : Thread → Bool, (∀ p : Prog, P { prog := p } = false) →
      ¬ anyT (init cap maxEnq to ig progs) P := by
    rintro P hP ⟨t, ht, hp⟩
    simp only [init, List.mem_map] at ht
    obtain ⟨p, _, rfl⟩ := ht
    rw [hP p] at hp; cases hp
  refine ⟨base_init cap maxEnq to ig progs hwf, ?_, ?_, ?_, ?_⟩
  · rintro (h | h)
    · exact absurd rfl h
    · exact absurd h (hno sawEmpty (fun p => rfl))
  · rintro (h | h)
    · exact absurd rfl h
    · exact absurd h (hno sawEmpty (fun p => rfl))
  · rintro (h | h)
    · exact absurd rfl h
    · exact absurd h (hno sawFull (fun p => rfl))
  · rintro (h | h)
    · exact absurd rfl h
    · exact absurd h (hno sawFull (fun p => rfl))

theorem live_step {c c' : Cfg} {tid alt lbl} (hto : c.sh.timeout = false) (hv : Live c)
    (h : step c tid alt = some (lbl, c')) : Live c' := by
  have hb := hv.base
  have hmono := done_mono hb h
  have hb' := base_step hb h
  obtain ⟨t, s', t', ht, hst, rfl⟩ := step_inv h
  have hS := fun hpc => done_sAcq hb h ht hpc
  have htm : t ∈ c.ths := List.mem_of_getElem? ht
  have hx := hb.xok t htm
  have hx1 := hx.1
  have hx2 : t.pc = .mRel → c.sh.stopRequested = true := fun e => hx.2.1 (by rw [e])
  have hx3 : (match t.pc with | .nRelErr _ => true | _ => false) = true → t.x.isErr = true →
      c.sh.exc.isSome = true := by
    intro h1 h2
    have h3 : (match t.pc with | .nRelErr _ | .gRaise | .bRaise => true | _ => false) = true := by
      cases hp : t.pc <;> simp_all
    rcases hx.2.2.1 h3 h2 with h | h
    · exact h
    · rw [hto] at h; cases h
  have hmd := fun hh => mutex_others hb.lock ht .deq sawEmpty sawEmpty_holds hh
  have hme := fun hh => mutex_others hb.lock ht .enq sawFull sawFull_holds hh
  refine ⟨hb', ?_, ?_, ?_, ?_⟩
  · have h0 := hv.j1
    unfold J1 at h0 ⊢
    simp only [anyT_iff ht] at h0
    simp only [anyT_set ht]
    have := stepThread_j1 lbl s' t' hst (others c tid sawEmpty)
      (others c tid activeC ∨ others c tid debtD) hb.i3 hmd hmono
    unfold J1L at this
    intro a b
    have h1 := this (by intro a b; have := h0 a b; grind) a b
    grind
  · have h0 := hv.j2
    unfold J2 at h0 ⊢
    simp only [anyT_iff ht] at h0
    simp only [anyT_set ht]
    have := stepThread_j2 lbl s' t' hst (others c tid sawEmpty) (others c tid debtDAll) hx1 hx2 hmd hS
    unfold J2L at this
    intro a b
    exact this (fun a b => h0 a b) a b
  · have h0 := hv.k1
    unfold K1 at h0 ⊢
    simp only [anyT_iff ht] at h0
    simp only [anyT_set ht]
    have := stepThread_k1 lbl s' t' hst (others c tid sawFull)
      (others c tid debtE ∨ others c tid commitP) hx3 hme hmono
    unfold K1L at this
    intro a
    have h1 := this (by intro a; have := h0 a; grind) a
    grind
  · have h0 := hv.k2
    unfold K2 at h0 ⊢
    simp only [anyT_iff ht] at h0
    simp only [anyT_set ht]
    have := stepThread_k2 lbl s' t' hst (others c tid sawFull) (others c tid debtEAll) hx1 hx2 hme hS
    unfold K2L at this
    intro a b
    exact this (fun a b => h0 a b) a b

theorem timeout_step {c c' : Cfg} {tid alt lbl} (h : step c tid alt = some (lbl, c')) :
    c'.sh.timeout = c.sh.timeout := by
  obtain ⟨t, s', t', ht, hst, rfl⟩ := step_inv h
  exact (stepThread_const lbl s' t' hst).1

theorem timeout_reachable {c0 c : Cfg} (h : Reachable c0 c) : c.sh.timeout = c0.sh.timeout := by
  induction h with
  | init => rfl
  | step _ hs ih => rw [timeout_step hs, ih]

theorem live_reachable {c0 c : Cfg} (hto : c0.sh.timeout = false) (h0 : Live c0) (h : Reachable c0 c) :
    Live c := by
  induction h with
  | init => exact h0
  | step hr hs ih => exact live_step (by rw [timeout_reachable hr, hto]) ih hs

theorem base_reachable {c0 c : Cfg} (h0 : Base c0) (h : Reachable c0 c) : Base c := by
  induction h with
  | init => exact h0
  | step _ hs ih => exact base_step ih hs

end MlModel.Queue
