import MlModel.Lemmas.AggHeapObs
import MlModel.Model.Agg.HeapMS
/-!
# `merge_states` over n accumulators writes the first state only — for every lawful class (work package SC11)

Generic consequences of the per-class heap contract `HLaws` / `HLawsR` for the n-ary operation of
`Model/Agg/HeapMS.lean`:

* `runM_eq_run` / `runRM_eq_run` : a history with `mergeStates` calls reaches the population that the
  flattened history of binary merges reaches (so every invariant proved over `run` holds over `runM`);
* `Sep.mergeStates`, `InvR.mergeStates` : separation / the returned-value invariant survive the call;
* `frame_mergeStates` : every accumulator other than the FIRST of the list keeps its record and the
  content of every cell it references — for every length of the list, every position, repeated and
  never-updated states included;
* `mergeStates_extends` : stronger — every cell that existed before the call and is not in the
  `owned` footprint the first state had before the call keeps its content (all other accumulators,
  every returned value, every unreferenced cell);
* `notOwned_read_mergeStates` : every array ever handed to the caller keeps its content.
-/
namespace MlModel.Agg.Heap

variable {C B : Type} [Inhabited C]

/-! ## histories with `mergeStates` = flattened histories -/

omit [Inhabited C] in
theorem mergeInto_eq_run {cls : HClass C B} (σ : Sys cls) (i : Nat) (js : List Nat) :
    σ.mergeInto i js = σ.run (js.map (Op.merge i)) := by
  simp only [Sys.mergeInto, Sys.run, List.foldl_map]

omit [Inhabited C] in
theorem stepM_eq_run {cls : HClass C B} (σ : Sys cls) (op : OpM B) : σ.stepM op = σ.run op.flatten := by
  cases op with
  | base op => simp [Sys.stepM, OpM.flatten, Sys.run]
  | mergeStates ids =>
    cases ids with
    | nil => simp [Sys.stepM, Sys.mergeStates, OpM.flatten, Sys.run]
    | cons i js => simp only [Sys.stepM, Sys.mergeStates, OpM.flatten]; exact mergeInto_eq_run σ i js

omit [Inhabited C] in
theorem run_append {cls : HClass C B} (σ : Sys cls) (a b : List (Op B)) : σ.run (a ++ b) = (σ.run a).run b := by
  simp [Sys.run, List.foldl_append]

omit [Inhabited C] in
/-- a history over the alphabet with `mergeStates` reaches exactly what its flattening reaches -/
theorem runM_eq_run {cls : HClass C B} (ops : List (OpM B)) :
    ∀ (σ : Sys cls), σ.runM ops = σ.run (ops.flatMap OpM.flatten) := by
  induction ops with
  | nil => intro σ; rfl
  | cons op ops ih =>
    intro σ
    have : σ.runM (op :: ops) = (σ.stepM op).runM ops := rfl
    rw [this, ih, stepM_eq_run, List.flatMap_cons, run_append]

omit [Inhabited C] in
theorem mergeIntoR_eq_run {cls : HClassR C B} (σ : SysR cls) (i : Nat) (js : List Nat) :
    σ.mergeInto i js = σ.run (js.map fun j => OpR.base (Op.merge i j)) := by
  simp only [SysR.mergeInto, SysR.run, List.foldl_map]

omit [Inhabited C] in
theorem stepRM_eq_run {cls : HClassR C B} (σ : SysR cls) (op : OpRM B C) : σ.stepM op = σ.run op.flatten := by
  cases op with
  | r op => simp [SysR.stepM, OpRM.flatten, SysR.run]
  | mergeStates ids =>
    cases ids with
    | nil => simp [SysR.stepM, SysR.mergeStates, OpRM.flatten, SysR.run]
    | cons i js => simp only [SysR.stepM, SysR.mergeStates, OpRM.flatten]; exact mergeIntoR_eq_run σ i js

omit [Inhabited C] in
theorem runR_append {cls : HClassR C B} (σ : SysR cls) (a b : List (OpR B C)) :
    σ.run (a ++ b) = (σ.run a).run b := by
  simp [SysR.run, List.foldl_append]

omit [Inhabited C] in
theorem runRM_eq_run {cls : HClassR C B} (ops : List (OpRM B C)) :
    ∀ (σ : SysR cls), σ.runM ops = σ.run (ops.flatMap OpRM.flatten) := by
  induction ops with
  | nil => intro σ; rfl
  | cons op ops ih =>
    intro σ
    have : σ.runM (op :: ops) = (σ.stepM op).runM ops := rfl
    rw [this, ih, stepRM_eq_run, List.flatMap_cons, runR_append]

omit [Inhabited C] in
/-- the accumulators of a population with returned values, through the n-ary call -/
theorem mergeIntoR_base {cls : HClassR C B} (i : Nat) (js : List Nat) :
    ∀ (σ : SysR cls), (σ.mergeInto i js).base = σ.base.mergeInto i js ∧ (σ.mergeInto i js).outs = σ.outs := by
  induction js with
  | nil => intro σ; exact ⟨rfl, rfl⟩
  | cons j js ih =>
    intro σ
    have h := ih (σ.step (.base (.merge i j)))
    exact ⟨h.1, h.2⟩

omit [Inhabited C] in
theorem mergeStatesR_base {cls : HClassR C B} (σ : SysR cls) (ids : List Nat) :
    (σ.mergeStates ids).base = σ.base.mergeStates ids ∧ (σ.mergeStates ids).outs = σ.outs := by
  cases ids with
  | nil => exact ⟨rfl, rfl⟩
  | cons i js => exact mergeIntoR_base i js σ

/-! ## separation -/

theorem Sep.runFrom {cls : HClass C B} (laws : HLaws cls) (ops : List (Op B)) :
    ∀ (σ : Sys cls), Sep σ → Sep (σ.run ops) := by
  induction ops with
  | nil => intro σ h; exact h
  | cons op ops ih => intro σ h; exact ih _ (h.step laws op)

theorem Sep.mergeInto {cls : HClass C B} (laws : HLaws cls) {σ : Sys cls} (hs : Sep σ) (i : Nat)
    (js : List Nat) : Sep (σ.mergeInto i js) := by
  rw [mergeInto_eq_run]; exact Sep.runFrom laws _ σ hs

theorem Sep.mergeStates {cls : HClass C B} (laws : HLaws cls) {σ : Sys cls} (hs : Sep σ)
    (ids : List Nat) : Sep (σ.mergeStates ids) := by
  cases ids with
  | nil => exact hs
  | cons i js => exact hs.mergeInto laws i js

theorem Sep.stepM {cls : HClass C B} (laws : HLaws cls) {σ : Sys cls} (hs : Sep σ) (op : OpM B) :
    Sep (σ.stepM op) := by
  rw [stepM_eq_run]; exact Sep.runFrom laws _ σ hs

/-- separation after every history whose alphabet contains the n-ary `merge_states` -/
theorem Sep.runM {cls : HClass C B} (laws : HLaws cls) (ops : List (OpM B)) :
    Sep ((Sys.init cls).runM ops) := by
  rw [runM_eq_run]; exact Sep.run laws _

/-! ## frame: only the first state of the list is written -/

theorem frame_mergeInto {cls : HClass C B} (laws : HLaws cls) (i : Nat) (js : List Nat) :
    ∀ (σ : Sys cls), Sep σ → ∀ (k : Nat) (ok : cls.Obj), σ.objs[k]? = some ok → k ≠ i →
      (σ.mergeInto i js).objs[k]? = some ok ∧
      ∀ r ∈ (cls.fp ok).refs, (σ.mergeInto i js).heap.read r = σ.heap.read r := by
  induction js with
  | nil => intro σ _ k ok hk _; exact ⟨hk, fun _ _ => rfl⟩
  | cons j js ih =>
    intro σ hs k ok hk hne
    obtain ⟨h1, h2⟩ := frame_step laws hs (.merge i j) k ok hk
      (by simp only [Op.receiver]; exact fun e => hne (Option.some.inj e).symm)
    obtain ⟨h3, h4⟩ := ih (σ.step (.merge i j)) (hs.step laws _) k ok h1 hne
    exact ⟨h3, fun r hr => by rw [show σ.mergeInto i (j :: js) = (σ.step (.merge i j)).mergeInto i js from rfl,
      h4 r hr, h2 r hr]⟩

/-- **`merge_states` only ever writes the first state**: every accumulator that is not the first of
the list — merged-in states at every position and bystanders alike — keeps its record and the content
of every cell it references -/
theorem frame_mergeStates {cls : HClass C B} (laws : HLaws cls) {σ : Sys cls} (hs : Sep σ)
    (ids : List Nat) (k : Nat) (ok : cls.Obj) (hk : σ.objs[k]? = some ok) (hne : ids.head? ≠ some k) :
    (σ.mergeStates ids).objs[k]? = some ok ∧
    ∀ r ∈ (cls.fp ok).refs, (σ.mergeStates ids).heap.read r = σ.heap.read r := by
  cases ids with
  | nil => exact ⟨hk, fun _ _ => rfl⟩
  | cons i js =>
    exact frame_mergeInto laws i js σ hs k ok hk (fun e => hne (by simp [e]))

theorem frame_stepM {cls : HClass C B} (laws : HLaws cls) {σ : Sys cls} (hs : Sep σ) (op : OpM B)
    (k : Nat) (ok : cls.Obj) (hk : σ.objs[k]? = some ok) (hrecv : op.receiver ≠ some k) :
    (σ.stepM op).objs[k]? = some ok ∧
    ∀ r ∈ (cls.fp ok).refs, (σ.stepM op).heap.read r = σ.heap.read r := by
  cases op with
  | base op => exact frame_step laws hs op k ok hk hrecv
  | mergeStates ids => exact frame_mergeStates laws hs ids k ok hk hrecv

/-! ## which cells a call can write at all -/

omit [Inhabited C] in
/-- what a binary merge step is -/
theorem step_merge_cases {cls : HClass C B} (σ : Sys cls) (i j : Nat) :
    σ.step (.merge i j) = σ ∨ ∃ s o, i ≠ j ∧ σ.objs[i]? = some s ∧ σ.objs[j]? = some o ∧
      σ.step (.merge i j) = ⟨(cls.merge σ.heap s o).1, σ.objs.set i (cls.merge σ.heap s o).2⟩ := by
  simp only [Sys.step]
  by_cases hij : i = j
  · left; rw [if_pos hij]
  · rw [if_neg hij]
    cases hi : σ.objs[i]? with
    | none => left; rfl
    | some s =>
      cases hj : σ.objs[j]? with
      | none => left; rfl
      | some o => right; exact ⟨s, o, hij, rfl, rfl, rfl⟩

theorem mergeInto_extends_aux {cls : HClass C B} (laws : HLaws cls) (i : Nat) (js : List Nat) :
    ∀ (σ : Sys cls) (s : cls.Obj), Sep σ → σ.objs[i]? = some s → ∀ (n0 : Nat) (W : List Ref),
      n0 ≤ σ.heap.size → (∀ r ∈ (cls.fp s).owned, r ∈ W ∨ n0 ≤ r) →
      σ.heap.size ≤ (σ.mergeInto i js).heap.size ∧
      ∀ r, r < n0 → r ∉ W → (σ.mergeInto i js).heap.read r = σ.heap.read r := by
  induction js with
  | nil => intro σ s _ _ n0 W _ _; exact ⟨Nat.le_refl _, fun _ _ _ => rfl⟩
  | cons j js ih =>
    intro σ s hs hi n0 W hn hW
    have hunf : σ.mergeInto i (j :: js) = (σ.step (.merge i j)).mergeInto i js := rfl
    rcases step_merge_cases σ i j with he | ⟨s', o, hij, hi', hj, he⟩
    · rw [hunf, he]; exact ih σ s hs hi n0 W hn hW
    · rw [hi] at hi'; cases hi'
      obtain ⟨ext, hown, _, _, _⟩ := laws.merge_spec σ.heap s o (hs.valid i s hi)
        (hs.valid j o hj) (hs.self i s hi) (hs.self j o hj) (hs.sep i j s o hij hi hj)
        (hs.sep j i o s (Ne.symm hij) hj hi)
      have hs1 : Sep (σ.step (.merge i j)) := hs.step laws _
      have hlt := lt_of_getElem?_some hi
      have hi1 : (σ.step (.merge i j)).objs[i]? = some (cls.merge σ.heap s o).2 := by
        rw [he]; simp [List.getElem?_set_self hlt]
      have hsz : σ.heap.size ≤ (σ.step (.merge i j)).heap.size := by rw [he]; exact ext.1
      obtain ⟨h1, h2⟩ := ih (σ.step (.merge i j)) _ hs1 hi1 n0 W (Nat.le_trans hn hsz) (fun r hr => by
        rcases hown r hr with h | h
        · exact hW r h
        · exact Or.inr (Nat.le_trans hn h))
      rw [hunf]
      refine ⟨Nat.le_trans hsz h1, fun r hr hw => ?_⟩
      rw [h2 r hr hw, he]
      refine ext.2 r (Nat.lt_of_lt_of_le hr hn) (fun hm => ?_)
      rcases hW r hm with h | h
      · exact hw h
      · exact absurd hr (Nat.not_lt.mpr h)

/-- **every pre-existing cell outside the first state's `owned` footprint keeps its content** -/
theorem mergeStates_extends {cls : HClass C B} (laws : HLaws cls) {σ : Sys cls} (hs : Sep σ)
    (i : Nat) (js : List Nat) (s : cls.Obj) (hi : σ.objs[i]? = some s) :
    ExtendsExcept σ.heap (σ.mergeStates (i :: js)).heap (cls.fp s).owned := by
  obtain ⟨h1, h2⟩ := mergeInto_extends_aux laws i js σ s hs hi σ.heap.size (cls.fp s).owned
    (Nat.le_refl _) (fun r hr => Or.inl hr)
  exact ⟨h1, h2⟩

omit [Inhabited C] in
/-- …and when the first index names no accumulator nothing happens at all -/
theorem mergeStates_no_receiver {cls : HClass C B} (σ : Sys cls) (i : Nat) (js : List Nat)
    (hi : σ.objs[i]? = none) : σ.mergeStates (i :: js) = σ := by
  show σ.mergeInto i js = σ
  induction js with
  | nil => rfl
  | cons j js ih =>
    show (σ.step (.merge i j)).mergeInto i js = σ
    rcases step_merge_cases σ i j with he | ⟨s, o, _, hi', _, _⟩
    · rw [he]; exact ih
    · rw [hi] at hi'; cases hi'

/-! ## populations with returned values -/

theorem InvR.runFrom {cls : HClassR C B} (laws : HLawsR cls) (ops : List (OpR B C)) :
    ∀ (σ : SysR cls), InvR σ → InvR (σ.run ops) := by
  induction ops with
  | nil => intro σ h; exact h
  | cons op ops ih => intro σ h; exact ih _ (h.step laws op)

theorem InvR.mergeStates {cls : HClassR C B} (laws : HLawsR cls) {σ : SysR cls} (inv : InvR σ)
    (ids : List Nat) : InvR (σ.mergeStates ids) := by
  have := stepRM_eq_run σ (.mergeStates ids)
  simp only [SysR.stepM] at this
  rw [this]; exact InvR.runFrom laws _ σ inv

theorem InvR.stepM {cls : HClassR C B} (laws : HLawsR cls) {σ : SysR cls} (inv : InvR σ)
    (op : OpRM B C) : InvR (σ.stepM op) := by
  rw [stepRM_eq_run]; exact InvR.runFrom laws _ σ inv

theorem InvR.runM {cls : HClassR C B} (laws : HLawsR cls) (ops : List (OpRM B C)) :
    InvR ((SysR.init cls).runM ops) := by
  rw [runRM_eq_run]; exact InvR.run laws _

theorem frameR_mergeStates {cls : HClassR C B} (laws : HLawsR cls) {σ : SysR cls} (inv : InvR σ)
    (ids : List Nat) (k : Nat) (ok : cls.Obj) (hk : σ.objs[k]? = some ok) (hne : ids.head? ≠ some k) :
    (σ.mergeStates ids).objs[k]? = some ok ∧
    ∀ r ∈ (cls.fp ok).refs, (σ.mergeStates ids).heap.read r = σ.heap.read r := by
  obtain ⟨hb, _⟩ := mergeStatesR_base σ ids
  have h := frame_mergeStates laws.base inv.sep ids k ok hk hne
  rw [← hb] at h
  exact h

theorem frameR_stepM {cls : HClassR C B} (laws : HLawsR cls) {σ : SysR cls} (inv : InvR σ)
    (op : OpRM B C) (k : Nat) (ok : cls.Obj) (hk : σ.objs[k]? = some ok) (hrecv : op.receiver ≠ some k) :
    (σ.stepM op).objs[k]? = some ok ∧
    ∀ r ∈ (cls.fp ok).refs, (σ.stepM op).heap.read r = σ.heap.read r := by
  cases op with
  | r op => exact frameR_step laws inv op k ok hk hrecv
  | mergeStates ids => exact frameR_mergeStates laws inv ids k ok hk hrecv

/-- a cell nobody owns (every array of every returned value is one) keeps its content through the call -/
theorem notOwned_read_mergeStates {cls : HClassR C B} (laws : HLawsR cls) {σ : SysR cls} (inv : InvR σ)
    (ids : List Nat) {r : Ref} (hr : NotOwned σ r) :
    (σ.mergeStates ids).heap.read r = σ.heap.read r := by
  have := stepRM_eq_run σ (.mergeStates ids)
  simp only [SysR.stepM] at this
  rw [this]
  refine notOwned_read_run laws _ σ inv r hr (fun k n c hm => ?_)
  cases ids with
  | nil => simp [OpRM.flatten] at hm
  | cons i js => simp [OpRM.flatten] at hm

end MlModel.Agg.Heap
