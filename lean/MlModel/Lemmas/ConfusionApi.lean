import MlModel.Lemmas.ConfusionAgg
/-!
# From the dense stage to the aggregate-function API

`update_state` / `merge_states` work on `Option CMArr` (`None` = never updated) with numpy
broadcasting; on the equally shaped arrays a fixed configuration produces they are the
commutative monoid `oadd` (`None` neutral).  Hence every feed / merge plan computes the sum of
the per-batch count arrays.
-/
namespace MlModel.Agg.Confusion

/-- shape of the count arrays for a fixed axis and class count -/
def GoodArr (axis : Option Nat) (W : Nat) (a : Arr Int) : Prop :=
  match axis with
  | none => ∃ x, a = .s x
  | _ => ∃ xs, a = .v xs ∧ xs.length = W

structure GoodCM (axis : Option Nat) (W : Nat) (a : CMArr) : Prop where
  tp : GoodArr axis W a.tp
  tn : GoodArr axis W a.tn
  fp : GoodArr axis W a.fp
  fn : GoodArr axis W a.fn

theorem good_denseCM (axis : Option Nat) (W : Nat) (h : axis = none ∨ axis = some 0) (xs : List DenseEx) :
    GoodCM axis W (denseCM axis W xs) := by
  rcases h with rfl | rfl
  · constructor <;> simp [denseCM, countsOf, sumAxis, arrSub, GoodArr]
  · constructor <;> simp [denseCM, countsOf, sumAxis, arrSub, GoodArr]

section arr
variable {axis : Option Nat} {W : Nat}

theorem GoodArr.addP {a b : Arr Int} (ha : GoodArr axis W a) (hb : GoodArr axis W b) :
    GoodArr axis W (a.addP b) := by
  cases axis with
  | none => obtain ⟨x, rfl⟩ := ha; obtain ⟨y, rfl⟩ := hb; exact ⟨x + y, rfl⟩
  | some k =>
    obtain ⟨xs, rfl, hx⟩ := ha; obtain ⟨ys, rfl, hy⟩ := hb
    exact ⟨_, rfl, by simp [hx, hy]⟩

theorem GoodArr.zipWithB {a b : Arr Int} (ha : GoodArr axis W a) (hb : GoodArr axis W b) :
    Arr.zipWithB (· + ·) a b = .ok (a.addP b) := by
  cases axis with
  | none => obtain ⟨x, rfl⟩ := ha; obtain ⟨y, rfl⟩ := hb; rfl
  | some k =>
    obtain ⟨xs, rfl, hx⟩ := ha; obtain ⟨ys, rfl, hy⟩ := hb
    simp [Arr.zipWithB, bcast1, hx, hy, Arr.addP, Functor.map, Except.map]

theorem GoodArr.iaddB {a b : Arr Int} (ha : GoodArr axis W a) (hb : GoodArr axis W b) :
    a.iaddB b = .ok (a.addP b) := by
  have h := ha.zipWithB hb
  cases axis with
  | none => obtain ⟨x, rfl⟩ := ha; obtain ⟨y, rfl⟩ := hb; rfl
  | some k =>
    obtain ⟨xs, rfl, hx⟩ := ha; obtain ⟨ys, rfl, hy⟩ := hb
    simp [Arr.iaddB, Arr.zipWithB, bcast1, hx, hy, Arr.addP, Arr.shape, bind, Except.bind, Functor.map, Except.map]

theorem zipWith_add_comm : ∀ (a b : List Int),
    List.zipWith (· + ·) a b = List.zipWith (· + ·) b a
  | [], b => by cases b <;> simp
  | _ :: _, [] => by simp
  | x :: a, y :: b => by simp [zipWith_add_comm a b, Int.add_comm]

theorem GoodArr.addP_comm {a b : Arr Int} (ha : GoodArr axis W a) (hb : GoodArr axis W b) :
    a.addP b = b.addP a := by
  cases axis with
  | none => obtain ⟨x, rfl⟩ := ha; obtain ⟨y, rfl⟩ := hb; simp [Arr.addP, Int.add_comm]
  | some k =>
    obtain ⟨xs, rfl, hx⟩ := ha; obtain ⟨ys, rfl, hy⟩ := hb
    simp only [Arr.addP]; congr 1
    exact zipWith_add_comm xs ys

theorem zipWith_add_assoc : ∀ (a b c : List Int),
    List.zipWith (· + ·) (List.zipWith (· + ·) a b) c = List.zipWith (· + ·) a (List.zipWith (· + ·) b c)
  | [], _, _ => by simp
  | _ :: _, [], _ => by simp
  | _ :: _, _ :: _, [] => by simp
  | x :: a, y :: b, z :: c => by simp [zipWith_add_assoc a b c, Int.add_assoc]

theorem GoodArr.addP_assoc {a b c : Arr Int} (ha : GoodArr axis W a) (hb : GoodArr axis W b)
    (hc : GoodArr axis W c) : (a.addP b).addP c = a.addP (b.addP c) := by
  cases axis with
  | none =>
    obtain ⟨x, rfl⟩ := ha; obtain ⟨y, rfl⟩ := hb; obtain ⟨z, rfl⟩ := hc
    simp [Arr.addP, Int.add_assoc]
  | some k =>
    obtain ⟨xs, rfl, hx⟩ := ha; obtain ⟨ys, rfl, hy⟩ := hb; obtain ⟨zs, rfl, hz⟩ := hc
    simp only [Arr.addP]; congr 1; exact zipWith_add_assoc xs ys zs

end arr

section cm
variable {axis : Option Nat} {W : Nat} {a b c : CMArr}

theorem GoodCM.addP (ha : GoodCM axis W a) (hb : GoodCM axis W b) : GoodCM axis W (a.addP b) :=
  ⟨ha.tp.addP hb.tp, ha.tn.addP hb.tn, ha.fp.addP hb.fp, ha.fn.addP hb.fn⟩

theorem GoodCM.add (ha : GoodCM axis W a) (hb : GoodCM axis W b) : a.add b = .ok (a.addP b) := by
  simp [CMArr.add, ha.tp.zipWithB hb.tp, ha.tn.zipWithB hb.tn, ha.fp.zipWithB hb.fp,
    ha.fn.zipWithB hb.fn, CMArr.addP, bind, Except.bind, pure, Except.pure]

theorem GoodCM.iadd (ha : GoodCM axis W a) (hb : GoodCM axis W b) : a.iadd b = .ok (a.addP b) := by
  simp [CMArr.iadd, ha.tp.iaddB hb.tp, ha.tn.iaddB hb.tn, ha.fp.iaddB hb.fp,
    ha.fn.iaddB hb.fn, CMArr.addP, bind, Except.bind, pure, Except.pure]

theorem GoodCM.addP_comm (ha : GoodCM axis W a) (hb : GoodCM axis W b) : a.addP b = b.addP a := by
  simp only [CMArr.addP, ha.tp.addP_comm hb.tp, ha.tn.addP_comm hb.tn, ha.fp.addP_comm hb.fp,
    ha.fn.addP_comm hb.fn]

theorem GoodCM.addP_assoc (ha : GoodCM axis W a) (hb : GoodCM axis W b) (hc : GoodCM axis W c) :
    (a.addP b).addP c = a.addP (b.addP c) := by
  simp only [CMArr.addP, ha.tp.addP_assoc hb.tp hc.tp, ha.tn.addP_assoc hb.tn hc.tn,
    ha.fp.addP_assoc hb.fp hc.fp, ha.fn.addP_assoc hb.fn hc.fn]

end cm

/-! ## `Option CMArr` with `None` neutral -/

def oadd : Option CMArr → Option CMArr → Option CMArr
  | none, b => b
  | a, none => a
  | some a, some b => some (a.addP b)

def OGood (axis : Option Nat) (W : Nat) : Option CMArr → Prop
  | none => True
  | some a => GoodCM axis W a

section oadd
variable {axis : Option Nat} {W : Nat} {a b c : Option CMArr}

@[simp] theorem oadd_none_left (a : Option CMArr) : oadd none a = a := by cases a <;> rfl
@[simp] theorem oadd_none_right (a : Option CMArr) : oadd a none = a := by cases a <;> rfl

theorem ogood_oadd (ha : OGood axis W a) (hb : OGood axis W b) : OGood axis W (oadd a b) := by
  cases a <;> cases b <;> simp_all [OGood, oadd]
  exact GoodCM.addP ha hb

theorem ogood_comm (ha : OGood axis W a) (hb : OGood axis W b) : oadd a b = oadd b a := by
  cases a <;> cases b <;> simp_all [OGood, oadd]
  exact GoodCM.addP_comm ha hb

theorem ogood_assoc (ha : OGood axis W a) (hb : OGood axis W b) (hc : OGood axis W c) :
    oadd (oadd a b) c = oadd a (oadd b c) := by
  cases a <;> cases b <;> cases c <;> simp_all [OGood, oadd]
  exact GoodCM.addP_assoc ha hb hc

theorem foldl_oadd_good {l : List (Option CMArr)} (hl : ∀ x ∈ l, OGood axis W x) (hacc : OGood axis W a) :
    OGood axis W (l.foldl oadd a) := by
  induction l generalizing a with
  | nil => simpa
  | cons x l ih =>
    exact ih (fun y hy => hl y (by simp [hy])) (ogood_oadd hacc (hl x (by simp)))

/-- the sum of a list of good states, from any good start -/
theorem foldl_oadd_start {l : List (Option CMArr)} (hl : ∀ x ∈ l, OGood axis W x) (hacc : OGood axis W a) :
    l.foldl oadd a = oadd a (l.foldl oadd none) := by
  induction l generalizing a with
  | nil => simp
  | cons x l ih =>
    have hx := hl x (by simp)
    have hl' : ∀ y ∈ l, OGood axis W y := fun y hy => hl y (by simp [hy])
    simp only [List.foldl_cons, oadd_none_left]
    rw [ih hl' (ogood_oadd hacc hx), ih hl' hx, ogood_assoc hacc hx (foldl_oadd_good hl' (by trivial))]

theorem foldl_oadd_append {l₁ l₂ : List (Option CMArr)} (h₁ : ∀ x ∈ l₁, OGood axis W x)
    (h₂ : ∀ x ∈ l₂, OGood axis W x) :
    (l₁ ++ l₂).foldl oadd none = oadd (l₁.foldl oadd none) (l₂.foldl oadd none) := by
  rw [List.foldl_append, foldl_oadd_start h₂ (foldl_oadd_good h₁ (by trivial))]

/-- sum of the per-shard sums = sum over all batches (in shard order) -/
theorem foldl_oadd_flatten {ls : List (List (Option CMArr))} (h : ∀ l ∈ ls, ∀ x ∈ l, OGood axis W x) :
    (ls.map (·.foldl oadd none)).foldl oadd none = ls.flatten.foldl oadd none := by
  induction ls with
  | nil => rfl
  | cons l ls ih =>
    have hl := h l (by simp)
    have hls : ∀ l' ∈ ls, ∀ x ∈ l', OGood axis W x := fun l' hl' => h l' (by simp [hl'])
    have hflat : ∀ x ∈ ls.flatten, OGood axis W x := by
      intro x hx; obtain ⟨l', hl', hx'⟩ := List.mem_flatten.mp hx; exact hls l' hl' x hx'
    have hmap : ∀ x ∈ ls.map (·.foldl oadd none), OGood axis W x := by
      intro x hx; obtain ⟨l', hl', rfl⟩ := List.mem_map.mp hx
      exact foldl_oadd_good (hls l' hl') (by trivial)
    simp only [List.map_cons, List.foldl_cons, oadd_none_left, List.flatten_cons]
    rw [foldl_oadd_start hmap (foldl_oadd_good hl (by trivial)), ih hls, foldl_oadd_append hl hflat]

/-- the sum of good states does not depend on their order -/
theorem foldl_oadd_perm {l₁ l₂ : List (Option CMArr)} (p : l₁.Perm l₂) (h : ∀ x ∈ l₁, OGood axis W x)
    (hacc : OGood axis W a) : l₁.foldl oadd a = l₂.foldl oadd a := by
  induction p generalizing a with
  | nil => rfl
  | cons x _ ih =>
    exact ih (fun y hy => h y (by simp [hy])) (ogood_oadd hacc (h x (by simp)))
  | swap x y l =>
    have hx := h x (by simp); have hy := h y (by simp)
    simp only [List.foldl_cons]
    rw [ogood_assoc hacc hy hx, ogood_comm hy hx, ← ogood_assoc hacc hx hy]
  | trans p₁ _ ih₁ ih₂ =>
    rw [ih₁ h hacc]
    exact ih₂ (fun y hy => h y (p₁.symm.subset hy)) hacc

end oadd

/-! ## `update_state`, `merge_states` are `oadd` on good states -/

theorem mergeStates_eq {axis : Option Nat} {W : Nat} (c : Cfg)
    (hguard : ((c.average == .weighted || c.average == .macro) && c.vocab.isNone) = false)
    (sts : List (Option CMArr)) (h : ∀ s ∈ sts, OGood axis W s) :
    mergeStates c sts = .ok (sts.foldl oadd none) := by
  have key : ∀ (gs : List CMArr) (s : CMArr), GoodCM axis W s → (∀ g ∈ gs, GoodCM axis W g) →
      gs.foldlM CMArr.iadd s = .ok (gs.foldl CMArr.addP s) := by
    intro gs
    induction gs with
    | nil => intro s _ _; rfl
    | cons g gs ih =>
      intro s hs hg
      have hg0 := hg g (by simp)
      simp only [List.foldlM_cons, hs.iadd hg0, bind, Except.bind, List.foldl_cons]
      exact ih _ (hs.addP hg0) (fun g' hg' => hg g' (by simp [hg']))
  have fold_some : ∀ (gs : List CMArr) (s : CMArr),
      (gs.map some).foldl oadd (some s) = some (gs.foldl CMArr.addP s) := by
    intro gs; induction gs with
    | nil => intro s; rfl
    | cons g gs ih => intro s; simp [oadd, ih]
  have fm : ∀ (sts : List (Option CMArr)) (acc : Option CMArr),
      sts.foldl oadd acc = ((sts.filterMap id).map some).foldl oadd acc := by
    intro sts; induction sts with
    | nil => intro acc; rfl
    | cons s sts ih =>
      intro acc
      cases s with
      | none => simpa using ih acc
      | some s => simpa using ih (oadd acc (some s))
  have hgood : ∀ g ∈ sts.filterMap id, GoodCM axis W g := by
    intro g hg
    obtain ⟨s, hs, hsg⟩ := List.mem_filterMap.mp hg
    have := h s hs
    simp only [id] at hsg; subst hsg; exact this
  unfold mergeStates
  simp only [hguard, Bool.false_eq_true, ↓reduceIte, pure, Except.pure]
  rw [fm sts none]
  cases hfm : sts.filterMap id with
  | nil => rfl
  | cons s rest =>
    rw [hfm] at hgood
    simp only [List.map_cons, List.foldl_cons, oadd_none_left, fold_some,
      key rest s (hgood s (by simp)) (fun g hg => hgood g (by simp [hg])), Functor.map, Except.map]

theorem updateState_eq {axis : Option Nat} {W : Nat} (c : Cfg) (st : Option CMArr) (b : Batch)
    (cm : CMArr) (hb : batchCM c b = .ok cm) (hcm : GoodCM axis W cm) (hst : OGood axis W st) :
    updateState c st b = .ok (oadd st (some cm)) := by
  unfold updateState
  simp only [hb, bind, Except.bind, pure, Except.pure]
  cases st with
  | none => rfl
  | some s =>
    have hs : GoodCM axis W s := hst
    simp only [hcm.add hs, hcm.addP_comm hs, oadd]

theorem feedApi_eq {axis : Option Nat} {W : Nat} (c : Cfg) (bs : List Batch) (cmOf : Batch → CMArr)
    (hb : ∀ b ∈ bs, batchCM c b = .ok (cmOf b) ∧ GoodCM axis W (cmOf b)) :
    feedApi c bs = .ok ((bs.map fun b => some (cmOf b)).foldl oadd none) := by
  have gen : ∀ (st : Option CMArr), OGood axis W st →
      bs.foldlM (updateState c) st = .ok ((bs.map fun b => some (cmOf b)).foldl oadd st) := by
    induction bs with
    | nil => intro st _; rfl
    | cons b bs ih =>
      intro st hst
      have h := hb b (by simp)
      simp only [List.foldlM_cons, updateState_eq c st _ _ h.1 h.2 hst, bind, Except.bind,
        List.map_cons, List.foldl_cons]
      exact ih (fun b' hb' => hb b' (by simp [hb'])) _ (ogood_oadd hst h.2)
  exact gen none (by trivial)

end MlModel.Agg.Confusion
