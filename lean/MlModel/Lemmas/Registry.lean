import MlModel.Model.Registry
/-! Lemmas about the liveness registry used by `Properties/C20.lean`. -/
namespace MlModel.Registry

theorem run_nil (r : Reg) : run r [] = r := rfl
theorem run_cons (r : Reg) (e : REv) (es) : run r (e :: es) = run (e.apply r) es := rfl
theorem run_append (r : Reg) (xs ys : List REv) : run r (xs ++ ys) = run (run r xs) ys := by
  simp [run, List.foldl_append]

/-! ### pointwise behaviour of the three operations -/

theorem register_other (r : Reg) (a b : Addr) (t : Time) (h : b ≠ a) : register r a t b = r b := by
  unfold register; rcases r a with _ | _ | l <;> simp [Reg.set, h]

theorem refresh_other (r : Reg) (a b : Addr) (t : Time) (h : b ≠ a) : refresh r a t b = r b := by
  unfold refresh; rcases r a with _ | _ | l <;> simp [Reg.set, h]

theorem unregister_other (r : Reg) (a b : Addr) (h : b ≠ a) : unregister r a b = r b := by
  simp [unregister, Reg.set, h]

theorem unregister_same (r : Reg) (a : Addr) : unregister r a a = some none := by simp [unregister]

theorem refresh_dead (r : Reg) (a : Addr) (t : Time) (h : r a = some none) : refresh r a t = r := by
  simp [refresh, h]

theorem refresh_live (r : Reg) (a : Addr) (t l : Time) (h : r a = some (some l)) :
    refresh r a t a = some (some (max l t)) := by simp [refresh, h]

theorem refresh_absent (r : Reg) (a : Addr) (t : Time) (h : r a = none) :
    refresh r a t a = some (some (max 0 t)) := by simp [refresh, h]

theorem register_live (r : Reg) (a : Addr) (t l : Time) (h : r a = some (some l)) :
    register r a t a = some (some (max l t)) := by simp [register, h]

theorem register_dead (r : Reg) (a : Addr) (t : Time) (h : r a = some none) :
    register r a t a = some (some t) := by simp [register, h]

theorem register_absent (r : Reg) (a : Addr) (t : Time) (h : r a = none) :
    register r a t a = some (some t) := by simp [register, h]

/-- A dead entry is changed by nothing but a `register` of that address. -/
theorem dead_stable_ev (r : Reg) (a : Addr) (h : r a = some none) (e : REv)
    (he : e.registers a = false) : e.apply r a = some none := by
  cases e with
  | register b t =>
    have hb : a ≠ b := by intro hab; simp [REv.registers, hab] at he
    simp [REv.apply, register_other r b a t hb, h]
  | refresh b t =>
    by_cases hb : a = b
    · subst hb; simp [REv.apply, refresh_dead r a t h, h]
    · simp [REv.apply, refresh_other r b a t hb, h]
  | unregister b =>
    by_cases hb : a = b
    · subst hb; simp [REv.apply, unregister_same]
    · simp [REv.apply, unregister_other r b a hb, h]

theorem dead_stable_run (a : Addr) (evs : List REv) :
    ∀ (r : Reg), r a = some none → (∀ e ∈ evs, e.registers a = false) → run r evs a = some none := by
  induction evs with
  | nil => intro r h _; exact h
  | cons e es ih =>
    intro r h hall
    rw [run_cons]
    exact ih _ (dead_stable_ev r a h e (hall e (by simp))) (fun e' he' => hall e' (by simp [he']))

theorem get_dead (r : Reg) (a : Addr) (h : r a = some none) : get r a = 0 := by simp [get, h]

theorem fresh_zero_false (now thr : Time) (h : thr ≤ now) : fresh now 0 thr = false := by
  simp [fresh]; omega

/-- A live entry stays live and does not decrease under any event but `unregister` of that address. -/
theorem live_mono_ev (r : Reg) (a : Addr) (l : Time) (h : r a = some (some l)) (e : REv)
    (he : e.unregisters a = false) : ∃ l', e.apply r a = some (some l') ∧ l ≤ l' := by
  cases e with
  | register b t =>
    by_cases hb : a = b
    · subst hb; exact ⟨max l t, by simp [REv.apply, register_live r a t l h], Int.le_max_left _ _⟩
    · exact ⟨l, by simp [REv.apply, register_other r b a t hb, h], Int.le_refl _⟩
  | refresh b t =>
    by_cases hb : a = b
    · subst hb; exact ⟨max l t, by simp [REv.apply, refresh_live r a t l h], Int.le_max_left _ _⟩
    · exact ⟨l, by simp [REv.apply, refresh_other r b a t hb, h], Int.le_refl _⟩
  | unregister b =>
    have hb : a ≠ b := by intro hab; simp [REv.unregisters, hab] at he
    exact ⟨l, by simp [REv.apply, unregister_other r b a hb, h], Int.le_refl _⟩

theorem live_mono_run (a : Addr) (evs : List REv) :
    ∀ (r : Reg) (l : Time), r a = some (some l) → (∀ e ∈ evs, e.unregisters a = false) →
      ∃ l', run r evs a = some (some l') ∧ l ≤ l' := by
  induction evs with
  | nil => intro r l h _; exact ⟨l, h, Int.le_refl _⟩
  | cons e es ih =>
    intro r l h hall
    obtain ⟨l1, h1, hle1⟩ := live_mono_ev r a l h e (hall e (by simp))
    obtain ⟨l2, h2, hle2⟩ := ih _ l1 h1 (fun e' he' => hall e' (by simp [he']))
    exact ⟨l2, by rw [run_cons]; exact h2, Int.le_trans hle1 hle2⟩

/-- Times carried by `register` events are not negative (clock reads of a non-negative clock). -/
def REv.nonneg : REv → Bool
  | .register _ t => decide (0 ≤ t)
  | _ => true

theorem get_of_live (r : Reg) (a : Addr) (l : Time) (h : r a = some (some l)) : get r a = l := by
  simp [get, h]

theorem get_of_not_live (r : Reg) (a : Addr) (h : ∀ l, r a ≠ some (some l)) : get r a = 0 := by
  unfold get; rcases hr : r a with _ | _ | l
  · rfl
  · rfl
  · exact absurd hr (h l)

/-- `get` (what `_last_heartbeat` reads) does not decrease under any event but `unregister` of that address. -/
theorem get_mono_ev (r : Reg) (a : Addr) (e : REv) (he : e.unregisters a = false) (hn : e.nonneg = true) :
    get r a ≤ get (e.apply r) a := by
  rcases hra : r a with _ | _ | l
  · -- unknown address: reads 0
    have h0 : get r a = 0 := by simp [get, hra]
    rw [h0]
    cases e with
    | register b t =>
      simp only [REv.nonneg, decide_eq_true_eq] at hn
      by_cases hb : a = b
      · subst hb; rw [REv.apply, get_of_live _ a t (register_absent r a t hra)]; exact hn
      · simp [REv.apply, get, register_other r b a t hb, hra]
    | refresh b t =>
      by_cases hb : a = b
      · subst hb; rw [REv.apply, get_of_live _ a _ (refresh_absent r a t hra)]; exact Int.le_max_left _ _
      · simp [REv.apply, get, refresh_other r b a t hb, hra]
    | unregister b =>
      have hb : a ≠ b := by intro hab; simp [REv.unregisters, hab] at he
      simp [REv.apply, get, unregister_other r b a hb, hra]
  · -- dead: reads 0
    have h0 : get r a = 0 := by simp [get, hra]
    rw [h0]
    cases e with
    | register b t =>
      simp only [REv.nonneg, decide_eq_true_eq] at hn
      by_cases hb : a = b
      · subst hb; rw [REv.apply, get_of_live _ a t (register_dead r a t hra)]; exact hn
      · simp [REv.apply, get, register_other r b a t hb, hra]
    | refresh b t =>
      by_cases hb : a = b
      · subst hb; simp [REv.apply, refresh_dead r a t hra, get, hra]
      · simp [REv.apply, get, refresh_other r b a t hb, hra]
    | unregister b =>
      have hb : a ≠ b := by intro hab; simp [REv.unregisters, hab] at he
      simp [REv.apply, get, unregister_other r b a hb, hra]
  · obtain ⟨l', h', hle⟩ := live_mono_ev r a l hra e he
    rw [get_of_live r a l hra, get_of_live _ a l' h']; exact hle

theorem get_mono_run (a : Addr) (evs : List REv) :
    ∀ (r : Reg), (∀ e ∈ evs, e.unregisters a = false ∧ e.nonneg = true) → get r a ≤ get (run r evs) a := by
  induction evs with
  | nil => intro r _; exact Int.le_refl _
  | cons e es ih =>
    intro r hall
    have h1 := get_mono_ev r a e (hall e (by simp)).1 (hall e (by simp)).2
    have h2 := ih (e.apply r) (fun e' he' => hall e' (by simp [he']))
    rw [run_cons]; exact Int.le_trans h1 h2

/-! ### The client fold performs exactly its `refresh` events -/

theorem foldPend_reg (st : Nat → CallSt) (a : Addr) (ps : List Pend) :
    ∀ r, (foldPend st a r ps).1 = run r (foldEvents st a ps) := by
  induction ps with
  | nil => intro r; rfl
  | cons p ps ih =>
    intro r
    simp only [foldPend, foldEvents]
    cases h : st p.call <;> simp [ih, run_cons, REv.apply]

theorem foldEvents_refresh (st : Nat → CallSt) (a : Addr) (ps : List Pend) :
    ∀ e ∈ foldEvents st a ps, ∃ t, e = .refresh a t := by
  induction ps with
  | nil => intro e he; simp [foldEvents] at he
  | cons p ps ih =>
    intro e he
    simp only [foldEvents] at he
    split at he
    · rcases List.mem_cons.mp he with h | h
      · exact ⟨p.time, h⟩
      · exact ih e h
    · exact ih e he

theorem heartbeatEvents_reg (now : Time) (s : Option Addr) (al : Bool) (a : Addr) :
    (∀ e ∈ heartbeatEvents now s al, e.registers a = false) ∨ (s = some a ∧ al = true) := by
  cases s with
  | none => left; simp [heartbeatEvents]
  | some b =>
    cases al
    · left; simp [heartbeatEvents, REv.registers]
    · by_cases hb : b = a
      · right; simp [hb]
      · left; simp [heartbeatEvents, REv.registers, hb]

/-! ### every `World` event acts on the registry through its `regEvents` -/

@[simp] theorem setClient_reg (w : World) (i c) : (w.setClient i c).reg = w.reg := rfl
@[simp] theorem setClient_now (w : World) (i c) : (w.setClient i c).now = w.now := rfl
@[simp] theorem submit_reg (w : World) (a m) : (w.submit a m).1.reg = w.reg := rfl
@[simp] theorem submit_now (w : World) (a m) : (w.submit a m).1.now = w.now := rfl

theorem isAlive_reg (w : World) (i : Nat) :
    (w.isAlive i).1.reg = run w.reg (match w.clients[i]? with
      | none => []
      | some c => foldEvents w.callSt c.addr c.pend) := by
  unfold World.isAlive
  cases hc : w.clients[i]? with
  | none => simp [run_nil]
  | some c =>
    simp only []
    rw [← foldPend_reg]
    split <;> (try split) <;> (try split) <;> simp

theorem isAlive_verdict (w : World) (i : Nat) (c : Client) (hc : w.clients[i]? = some c) :
    (w.isAlive i).2 = w.aliveVerdict c := by
  unfold World.isAlive World.aliveVerdict
  simp only [hc]
  split <;> (try split) <;> (try split) <;> simp_all

theorem deliverCall_reg (w : World) (id : Nat) (fail : Bool) :
    (w.deliverCall id fail).reg = run w.reg (match w.calls[id]? with
      | none => []
      | some c =>
        if c.st = .cancelled ∨ w.down.contains c.addr ∨ fail then []
        else match c.meth with
          | .heartbeat s al => heartbeatEvents w.now s al
          | _ => []) := by
  unfold World.deliverCall
  cases hc : w.calls[id]? with
  | none => simp [run_nil]
  | some c =>
    simp only []
    by_cases h1 : c.st = .cancelled
    · simp [h1, run_nil]
    · by_cases h2 : c.addr ∈ w.down
      · simp only [h1, h2, List.contains_iff_mem, if_true, if_false, true_or, or_true]
        cases c.meth <;> simp [run_nil]
      · cases fail with
        | true => simp [h1, h2, run_nil]
        | false =>
          simp only [h1, h2, List.contains_iff_mem, if_false, Bool.false_eq_true, or_self]
          cases c.meth <;> simp [run_nil]
          split <;> rfl

theorem step_reg (w : World) (e : Ev) : (w.step e).1.reg = run w.reg (w.regEvents e) := by
  cases e with
  | reg a t => simp [World.step, World.regEvents, run, REv.apply]
  | refresh a t => simp [World.step, World.regEvents, run, REv.apply]
  | unreg a => simp [World.step, World.regEvents, run, REv.apply]
  | tick d => simp [World.step, World.regEvents, run]
  | alive i => simp only [World.step, World.regEvents]; exact isAlive_reg w i
  | call i =>
    simp only [World.step, World.regEvents]
    cases w.clients[i]? <;> simp [run]
  | send i a al =>
    simp only [World.step, World.regEvents]
    have h := isAlive_reg w i
    cases hc : (w.isAlive i).1.clients[i]? <;> simp only [submit_reg] <;> exact h
  | deliver k fail =>
    simp only [World.step, World.regEvents]
    cases hq : w.queue with
    | nil => simp [run]
    | cons x xs => simp only []; rw [deliverCall_reg]; rfl
  | kill a => simp [World.step, World.regEvents, run]
  | revive a => simp only [World.step, World.regEvents]; split <;> simp [run]
  | shutdown i =>
    simp only [World.step, World.regEvents]
    cases w.clients[i]? <;> simp [run, REv.apply]

/-! ### histories -/

theorem runEvs_dead (a : Addr) (evs : List Ev) :
    ∀ w : World, w.reg a = some none → NoRegister a w evs → (w.runEvs evs).1.reg a = some none := by
  induction evs with
  | nil => intro w h _; exact h
  | cons e es ih =>
    intro w h hno
    simp only [World.runEvs]
    refine ih (w.step e).1 ?_ hno.2
    rw [step_reg]
    exact dead_stable_run a _ _ h hno.1

theorem hbStep_mono (a : Addr) (c c' : HbCfg) (lab : HbLabel) (l : Time)
    (hs : hbStep? c lab = some c') (hlive : c.reg a = some (some l))
    (hh : ∀ h, hbUnregs a (c.handlers h) = false) (hl : labelUnregs a lab = false) :
    (∃ l', c'.reg a = some (some l') ∧ l ≤ l') ∧ ∀ h, hbUnregs a (c'.handlers h) = false := by
  cases lab with
  | tick d =>
    simp only [hbStep?, Option.some.injEq] at hs; subst hs
    exact ⟨⟨l, hlive, Int.le_refl _⟩, hh⟩
  | other e =>
    simp only [hbStep?, Option.some.injEq] at hs; subst hs
    exact ⟨live_mono_ev c.reg a l hlive e hl, hh⟩
  | handler i =>
    simp only [hbStep?] at hs
    cases hp : c.handlers i with
    | start s al =>
      simp only [hp, Option.some.injEq] at hs; subst hs
      refine ⟨⟨l, hlive, Int.le_refl _⟩, ?_⟩
      intro j
      by_cases hj : j = i
      · subst hj
        have := hh j; rw [hp] at this
        simp only [if_true]
        cases s <;> cases al <;> simp_all [hbUnregs]
      · simp only [hj, if_false]; exact hh j
    | read s al t =>
      simp only [hp, Option.some.injEq] at hs; subst hs
      refine ⟨?_, ?_⟩
      · apply live_mono_run a _ c.reg l hlive
        intro e he
        have := hh i; rw [hp] at this
        cases s with
        | none => simp [heartbeatEvents] at he
        | some b =>
          cases al with
          | true => simp [heartbeatEvents] at he; rw [he]; rfl
          | false =>
            simp [heartbeatEvents] at he; rw [he]
            simpa [hbUnregs, REv.unregisters] using this
      · intro j
        by_cases hj : j = i
        · subst hj; simp [hbUnregs]
        · simp only [hj, if_false]; exact hh j
    | done => simp [hp] at hs

end MlModel.Registry
