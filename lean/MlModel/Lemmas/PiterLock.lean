import MlModel.Lemmas.PiterBase
/-!
# The input lock (`_ThreadSafeIterator._lock`) is held by exactly the producer inside `next(input)`
-/
namespace MlModel.Piter
open MlModel.Queue

variable {F : Nat → Option (List Nat)}

/-- the producer is between `acquire lock1` and `release lock1` -/
def holdsI (t : PThread) : Bool := t.isProd && t.q.pc == .eNext && t.useLock && t.ipc != .acq

structure ILockInv (c : Cfg) : Prop where
  own : ∀ tid t, c.ths[tid]? = some t → (c.ilock = some tid ↔ holdsI t = true)
  acq : ∀ t ∈ c.ths, t.isProd = true → t.q.pc = .eNext → t.ipc = .acq → t.useLock = true

theorem afterPull_lock (tid : Tid) (s : Shared) (t : PThread) (r : PullRes) :
    (afterPull F tid s t r).2.isProd = t.isProd ∧ (afterPull F tid s t r).2.useLock = t.useLock ∧
    ((afterPull F tid s t r).2.q.pc = .eNext →
      (afterPull F tid s t r).2.ipc = if t.useLock then .acq else .next) := by
  unfold afterPull failPull
  split
  · simp
  · simp
  · split <;> simp

theorem postProd_lock (tid : Tid) (t : PThread) (q' : Queue.Thread) :
    (postProd tid t q').isProd = t.isProd ∧ (postProd tid t q').useLock = t.useLock ∧
    ((postProd tid t q').q.pc = .eNext → (postProd tid t q').ipc = if t.useLock then .acq else .next) := by
  unfold postProd enterNext
  by_cases h : q'.pc = .eNext
  · cases hp : t.pend <;> simp [h]
  · simp [h]

theorem holdsI_of_reset {T : PThread} {ul : Bool} (hu : T.useLock = ul)
    (h : T.q.pc = .eNext → T.ipc = if ul then .acq else .next) : holdsI T = false := by
  unfold holdsI
  by_cases hpc : T.q.pc = .eNext
  · have := h hpc
    cases ul <;> simp_all
  · simp [hpc]

theorem ilock_of {c c' : Cfg} {tid : Tid} {t T : PThread} (hi : ILockInv c) (ht : c.ths[tid]? = some t)
    (hths : c'.ths = c.ths.set tid T)
    (hother : ∀ u, u ≠ tid → (c'.ilock = some u ↔ c.ilock = some u))
    (hself : c'.ilock = some tid ↔ holdsI T = true)
    (hacq : T.isProd = true → T.q.pc = .eNext → T.ipc = .acq → T.useLock = true) : ILockInv c' := by
  have htid : tid < c.ths.length := by
    rcases List.getElem?_eq_some_iff.mp ht with ⟨h, _⟩; exact h
  constructor
  · intro u tu hu
    rw [hths] at hu
    by_cases hut : u = tid
    · subst hut
      simp only [List.getElem?_set_self htid, Option.some.injEq] at hu
      subst hu; exact hself
    · rw [List.getElem?_set_ne (Ne.symm hut)] at hu
      rw [hother u hut]; exact hi.own u tu hu
  · intro u hu
    rw [hths] at hu
    rcases List.mem_or_eq_of_mem_set hu with hu | rfl
    · exact hi.acq u hu
    · exact hacq

theorem ilock_step {c c' : Cfg} {tid : Tid} {alt : Bool} {lbl : String} (hi : ILockInv c)
    (h : step F c tid alt = some (lbl, c')) : ILockInv c' := by
  obtain ⟨t, ht, hk⟩ := step_inv h
  have hmem : t ∈ c.ths := List.mem_of_getElem? ht
  have hown := hi.own tid t ht
  cases hk with
  | pstart hp hpc =>
    have h0 : holdsI t = false := by simp [holdsI, hpc]
    refine ilock_of hi ht rfl (fun _ _ => Iff.rfl) ?_ (fun _ h => by simp at h)
    show c.ilock = some tid ↔ _
    rw [hown, h0]; simp [holdsI]
  | iacq hp hpc hipc hl =>
    have hul := hi.acq t hmem hp hpc hipc
    refine ilock_of hi ht rfl (fun u hu => ?_) ?_ (fun _ _ h => by simp at h)
    · show some tid = some u ↔ c.ilock = some u
      rw [hl]; simp; exact fun h => hu h.symm
    · show some tid = some tid ↔ _
      simp [holdsI, hp, hpc, hul]
  | inextL hp hpc hipc hul hl =>
    refine ilock_of hi ht rfl (fun _ _ => Iff.rfl) ?_ (fun _ _ h => by simp at h)
    show c.ilock = some tid ↔ _
    simp [holdsI, hp, hpc, hul, hl]
  | inextU hp hpc hipc hul =>
    obtain ⟨l1, l2, l3⟩ := afterPull_lock (F := F) tid c.sh t (pull c.inputs t.sid).1
    have h0 : holdsI t = false := by simp [holdsI, hul]
    refine ilock_of hi ht rfl (fun _ _ => Iff.rfl) ?_ ?_
    · show c.ilock = some tid ↔ _
      rw [hown, h0, holdsI_of_reset l2 l3]
    · intro _ h1 h2
      have := l3 h1
      rw [h2] at this
      cases hu : t.useLock <;> simp [hu] at this
      rw [l2]; exact hu
  | irel hp hpc hipc hl =>
    obtain ⟨l1, l2, l3⟩ := afterPull_lock (F := F) tid c.sh t t.hand
    refine ilock_of hi ht rfl (fun u hu => ?_) ?_ ?_
    · show none = some u ↔ c.ilock = some u
      rw [hl]; simp; exact fun h => hu h.symm
    · show none = some tid ↔ _
      rw [holdsI_of_reset l2 l3]; simp
    · intro _ h1 h2
      have := l3 h1
      rw [h2] at this
      cases hu : t.useLock <;> simp [hu] at this
      rw [l2]; exact hu
  | @pq lbl s' q' hp hd hs0 hne hst =>
    obtain ⟨l1, l2, l3⟩ := postProd_lock tid t q'
    have h0 : holdsI t = false := by simp [holdsI, hne]
    refine ilock_of hi ht rfl (fun _ _ => Iff.rfl) ?_ ?_
    · show c.ilock = some tid ↔ _
      rw [hown, h0, holdsI_of_reset l2 l3]
    · intro _ h1 h2
      have := l3 h1
      rw [h2] at this
      cases hu : t.useLock <;> simp [hu] at this
      rw [l2]; exact hu
  | cboot0 hp =>
    have h0 : holdsI t = false := by simp [holdsI, hp]
    refine ilock_of hi ht rfl (fun _ _ => Iff.rfl) ?_ ?_
    · show c.ilock = some tid ↔ _
      rw [hown, h0]; unfold beginIter; split <;> simp [holdsI, hp]
    · intro hh; exfalso; revert hh; unfold beginIter; split <;> simp [hp]
  | cboot hp =>
    have h0 : holdsI t = false := by simp [holdsI, hp]
    refine ilock_of hi ht rfl (fun _ _ => Iff.rfl) ?_ (fun hh => by simp [hp] at hh)
    show c.ilock = some tid ↔ _
    rw [hown, h0]; simp [holdsI, hp]
  | csubmit hp =>
    have h0 : holdsI t = false := by simp [holdsI, hp]
    refine ilock_of hi ht rfl (fun _ _ => Iff.rfl) ?_ ?_
    · show c.ilock = some tid ↔ _
      rw [hown, h0]
      split
      · unfold beginIter; split <;> simp [holdsI, hp]
      · simp [holdsI, hp]
    · intro hh; exfalso; revert hh
      split
      · unfold beginIter; split <;> simp [hp]
      · simp [hp]
  | @citer lbl s' q' hp hcp hst =>
    have h0 : holdsI t = false := by simp [holdsI, hp]
    have hip : (afterIter c t.q.pc s' { t with q := q' }).2.isProd = false := by
      unfold afterIter; (repeat' split) <;> exact hp
    refine ilock_of hi ht rfl (fun _ _ => Iff.rfl) ?_ ?_
    · show c.ilock = some tid ↔ _
      rw [hown, h0]; simp [holdsI, hip]
    · intro hh; rw [hip] at hh; cases hh
  | @cstop lbl s' q' hp hcp hst =>
    have h0 : holdsI t = false := by simp [holdsI, hp]
    have hip : (postStop t q').isProd = false := by unfold postStop; split <;> exact hp
    refine ilock_of hi ht rfl (fun _ _ => Iff.rfl) ?_ ?_
    · show c.ilock = some tid ↔ _
      rw [hown, h0]; simp [holdsI, hip]
    · intro hh; rw [hip] at hh; cases hh
  | cshutdown hp =>
    have h0 : holdsI t = false := by simp [holdsI, hp]
    refine ilock_of hi ht rfl (fun _ _ => Iff.rfl) ?_ (fun hh => by simp [hp] at hh)
    show c.ilock = some tid ↔ _
    rw [hown, h0]; simp [holdsI, hp]

theorem ilock_init (cap bm mw : Nat) (ns : Option Nat) (soe : Bool) (inputs : List (List Item))
    (prods : List ProdSpec) : ILockInv (init cap bm mw ns soe inputs prods) := by
  constructor
  · intro tid t ht
    have hpc : t.q.pc = .start := by
      cases tid with
      | zero => simp only [init, List.getElem?_cons_zero, Option.some.injEq] at ht; subst ht; rfl
      | succ n =>
        simp only [init, List.getElem?_cons_succ, List.getElem?_map, Option.map_eq_some_iff] at ht
        obtain ⟨p, _, rfl⟩ := ht; rfl
    simp [init, holdsI, hpc]
  · intro t ht _ hpc
    simp only [init, List.mem_cons, List.mem_map] at ht
    rcases ht with rfl | ⟨p, _, rfl⟩ <;> simp [mkConsumer, mkProducer] at hpc

theorem ilock_reachable {c0 c : Cfg} (h0 : ILockInv c0) (h : Reachable F c0 c) : ILockInv c := by
  induction h with
  | init => exact h0
  | step _ hs ih => exact ilock_step ih hs

end MlModel.Piter
