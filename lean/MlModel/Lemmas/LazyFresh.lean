import MlModel.Lemmas.LazyEager
/-! Without caching, `maybe_make` *is* eager evaluation (value, identity, call log, counter). -/
namespace MlModel.Lazy
set_option linter.unusedSimpArgs false
set_option linter.unusedVariables false

/-- `LazyFn.result_` proper (lazy_fns.py:469-483), the `body` of `eval` on a call node. -/
def callBody (f : Expr) (args : List Expr) (kw : List (String × Expr)) (lazy : Bool) : M RVal :=
  if f = .const .none then (if lazy then newHandle (.none, 0) else pure (.none, 0)) else do
  let fv ← eval f
  if !fv.1.callable then M.throw (.py .type) else do
  let as ← evalArgs args
  let ks ← evalKw kw
  let r ← applyMake fv as ks
  if lazy then newHandle r else pure r

theorem eval_call (f : Expr) (args : List Expr) (kw : List (String × Expr)) (cache lazy : Bool) :
    eval (.call f args kw cache lazy) =
      if cache then do
        match ← fncGet (Expr.call f args kw cache lazy).key with
        | some r => pure r
        | none => do
          let r ← callBody f args kw lazy
          fncSet (Expr.call f args kw cache lazy).key r
          pure r
      else callBody f args kw lazy := by
  simp only [eval, callBody]; rfl

/-- state with another world -/
def St.withW (s : St) (w : World) : St := { s with w := w }

@[simp] theorem St.withW_w (s : St) (w : World) : (s.withW w).w = w := rfl
@[simp] theorem St.withW_withW (s : St) (w w' : World) : (s.withW w).withW w' = s.withW w' := rfl
@[simp] theorem St.withW_self (s : St) : s.withW s.w = s := rfl

mutual
theorem eval_fresh : ∀ (e : Expr) (s : St), e.leafAll noHandleP = true → e.noLazy = true →
    e.noCache = true → eval e s = ((eager e s.w).1, s.withW (eager e s.w).2)
  | .const v, s, hp, hl, hc => by
    simp only [Expr.leafAll] at hp
    simp only [eval, eager]
    rw [makeVal_not_handle (leafAll_noHandle_ne hp)]; rfl
  | .traced v l, s, hp, hl, hc => by
    simp only [Expr.noLazy, Bool.not_eq_true'] at hl
    subst hl
    simp [eval, eager]
  | .call f as ks c l, s, hp, hl, hc => by
    simp only [Expr.leafAll, Bool.and_eq_true] at hp
    obtain ⟨⟨hpf, hpa⟩, hpk⟩ := hp
    simp only [Expr.noLazy, Bool.and_eq_true, Bool.not_eq_true', bne_iff_ne, ne_eq] at hl
    obtain ⟨⟨⟨⟨hl0, hnone⟩, hlf⟩, hla⟩, hlk⟩ := hl
    simp only [Expr.noCache, Bool.and_eq_true, Bool.not_eq_true'] at hc
    obtain ⟨⟨⟨hc0, hcf⟩, hca⟩, hck⟩ := hc
    subst hl0; subst hc0
    rw [eval_call]
    simp only [Bool.false_eq_true, if_false, callBody, hnone]
    have ihf := eval_fresh f s hpf hlf hcf
    cases h1 : eager f s.w with
    | mk r1 w1 =>
      rw [h1] at ihf
      cases r1 with
      | error e => rw [bind_err ihf, eager_call_err_f h1]
      | ok fv =>
        rw [bind_ok ihf]
        have hfv := eager_leafAll noHandleP f s.w w1 fv hpf h1
        by_cases hfn : ∃ name, fv.1 = .fn name
        · obtain ⟨name, hfv1⟩ := hfn
          simp only [hfv1, Val.callable, Bool.not_true, Bool.false_eq_true, if_false]
          have iha := evalArgs_fresh as (s.withW w1) hpa hla hca
          simp only [St.withW_w, St.withW_withW] at iha
          cases h2 : eagerArgs as w1 with
          | mk r2 w2 =>
            rw [h2] at iha
            cases r2 with
            | error e => rw [bind_err iha, eager_call_err_args h1 hfv1 h2]
            | ok avs =>
              rw [bind_ok iha]
              have ihk := evalKw_fresh ks (s.withW w2) hpk hlk hck
              simp only [St.withW_w, St.withW_withW] at ihk
              cases h3 : eagerKw ks w2 with
              | mk r3 w3 =>
                rw [h3] at ihk
                cases r3 with
                | error e => rw [bind_err ihk, eager_call_err_kw h1 hfv1 h2 h3]
                | ok kvs =>
                  rw [bind_ok ihk, eager_call_ok h1 hfv1 h2 h3]
                  have happ := applyMake_fn noHandleP (fun _ => rfl) (name := name) (ref := fv.2)
                    (eagerArgs_leafAll noHandleP as w1 w2 avs hpa h2)
                    (eagerKw_leafAll noHandleP ks w2 w3 kvs hpk h3) (s.withW w3)
                  have hfveq : fv = (Val.fn name, fv.2) := by
                    obtain ⟨a, b⟩ := fv; simp only at hfv1; subst hfv1; rfl
                  rw [← hfveq] at happ
                  simp only [St.withW_w] at happ
                  cases h4 : applyLib name avs kvs w3 with
                  | mk r4 w4 =>
                    rw [h4] at happ
                    cases r4 with
                    | error e => rw [bind_err happ]; rfl
                    | ok rv => rw [bind_ok happ]; rfl
        · have hn : ∀ n, fv.1 ≠ .fn n := fun n e => hfn ⟨n, e⟩
          have hh := leafAll_noHandle_ne hfv
          rw [eager_call_not_callable h1 hn hh]
          have : fv.1.callable = false := by
            cases hv : fv.1 <;> simp_all [Val.callable]
          simp [this]
theorem evalArgs_fresh : ∀ (as : List Expr) (s : St), Expr.leafAllL noHandleP as = true →
    Expr.noLazyL as = true → Expr.noCacheL as = true →
    evalArgs as s = ((eagerArgs as s.w).1, s.withW (eagerArgs as s.w).2)
  | [], s, hp, hl, hc => by simp [evalArgs, eagerArgs]
  | a :: as, s, hp, hl, hc => by
    simp only [Expr.leafAllL, Expr.noLazyL, Expr.noCacheL, Bool.and_eq_true] at hp hl hc
    simp only [evalArgs]
    have ih1 := eval_fresh a s hp.1 hl.1 hc.1
    cases h1 : eager a s.w with
    | mk r1 w1 =>
      rw [h1] at ih1
      cases r1 with
      | error e => rw [bind_err ih1, eagerArgs_cons_err1 h1]
      | ok v =>
        rw [bind_ok ih1]
        have ih2 := evalArgs_fresh as (s.withW w1) hp.2 hl.2 hc.2
        simp only [St.withW_w, St.withW_withW] at ih2
        cases h2 : eagerArgs as w1 with
        | mk r2 w2 =>
          rw [h2] at ih2
          cases r2 with
          | error e => rw [bind_err ih2, eagerArgs_cons_err2 h1 h2]
          | ok vs => rw [bind_ok ih2, eagerArgs_cons_ok h1 h2]; rfl
theorem evalKw_fresh : ∀ (ks : List (String × Expr)) (s : St), Expr.leafAllK noHandleP ks = true →
    Expr.noLazyK ks = true → Expr.noCacheK ks = true →
    evalKw ks s = ((eagerKw ks s.w).1, s.withW (eagerKw ks s.w).2)
  | [], s, hp, hl, hc => by simp [evalKw, eagerKw]
  | (k, a) :: ks, s, hp, hl, hc => by
    simp only [Expr.leafAllK, Expr.noLazyK, Expr.noCacheK, Bool.and_eq_true] at hp hl hc
    simp only [evalKw]
    have ih1 := eval_fresh a s hp.1 hl.1 hc.1
    cases h1 : eager a s.w with
    | mk r1 w1 =>
      rw [h1] at ih1
      cases r1 with
      | error e => rw [bind_err ih1, eagerKw_cons_err1 h1]
      | ok v =>
        rw [bind_ok ih1]
        have ih2 := evalKw_fresh ks (s.withW w1) hp.2 hl.2 hc.2
        simp only [St.withW_w, St.withW_withW] at ih2
        cases h2 : eagerKw ks w1 with
        | mk r2 w2 =>
          rw [h2] at ih2
          cases r2 with
          | error e => rw [bind_err ih2, eagerKw_cons_err2 h1 h2]
          | ok vs => rw [bind_ok ih2, eagerKw_cons_ok h1 h2]; rfl
end

end MlModel.Lazy
