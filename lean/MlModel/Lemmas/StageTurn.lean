import MlModel.Model.Stage
import MlModel.Lemmas.StageInv
/-!
Conservation for the interleaved-stage LTS in EVERY configuration (`ackAwait` true or false), hence for the
thread-granular `stepT` (package C16S): steps only move batches between the five places.
-/
namespace MlModel.Stage

def places (s : St) : List Nat := s.toProduce ++ s.inp ++ hands s.ws ++ s.resultQ ++ s.consumed

theorem hands_set_same {ws : List W} {w : Nat} {y y' : W} (hget : ws[w]? = some y) (hh : y'.hand = y.hand) :
    hands (ws.set w y') = hands ws := by
  obtain ⟨l1, l2, rfl, hset⟩ := split_of_get hget
  simp [hset, hands_split, hh]

theorem cons_step {all : List Nat} {c : Cfg} {s s' : St} {l : Label}
    (h : (places s).Perm all) (hs : step c s l = some s') : (places s').Perm all := by
  obtain ⟨tp, inp, cl, ws, rq, co, st, sp, mx, cd⟩ := s
  simp only [places] at h ⊢
  cases l with
  | produce =>
    simp only [step] at hs
    cases cl <;> cases tp <;> simp at hs
    subst hs
    perm_tac h
  | closeInput =>
    simp only [step] at hs
    cases cl <;> cases tp <;> simp at hs
    subst hs
    exact h
  | schedule w =>
    simp only [step] at hs
    cases hget : ws[w]? with
    | none => simp [hget] at hs
    | some y =>
      simp [hget] at hs
      obtain ⟨_, rfl⟩ := hs
      simp only [hands_set_same hget (y' := { y with phase := .creating }) rfl]
      exact h
  | created w =>
    simp only [step] at hs
    cases hget : ws[w]? with
    | none => simp [hget] at hs
    | some y =>
      simp only [hget] at hs
      by_cases hp : y.phase = .creating
      · simp only [hp, if_true] at hs
        cases hc : c.ackAwait <;> simp [hc] at hs <;> subst hs
        · simp only [St.register, hands_set_same hget (y' := { y with phase := .registered, pulling := true }) rfl]
          exact h
        · simp only [hands_set_same hget (y' := { y with phase := .kicked, pulling := true }) rfl]
          exact h
      · simp [hp] at hs
  | ack w =>
    simp only [step] at hs
    cases hget : ws[w]? with
    | none => simp [hget] at hs
    | some y =>
      simp [hget] at hs
      obtain ⟨_, rfl⟩ := hs
      simp only [St.register, hands_set_same hget (y' := { y with phase := .registered }) rfl]
      exact h
  | pull w =>
    simp only [step] at hs
    cases hget : ws[w]? with
    | none => simp [hget] at hs
    | some y =>
      cases inp with
      | nil => simp [hget] at hs
      | cons b rest =>
        simp [hget] at hs
        obtain ⟨_, rfl⟩ := hs
        obtain ⟨l1, l2, rfl, hset⟩ := split_of_get hget
        simp only [hset]
        perm_tac h
  | pullEnd w =>
    simp only [step] at hs
    cases hget : ws[w]? with
    | none => simp [hget] at hs
    | some y =>
      simp [hget] at hs
      obtain ⟨_, rfl⟩ := hs
      simp only [hands_set_same hget (y' := { y with remoteDone := true }) rfl]
      exact h
  | forward w =>
    simp only [step] at hs
    cases hget : ws[w]? with
    | none => simp [hget] at hs
    | some y =>
      simp only [hget] at hs
      cases hh : y.hand with
      | nil => simp [hh] at hs
      | cons b rest =>
        simp [hh] at hs
        obtain ⟨_, rfl⟩ := hs
        obtain ⟨l1, l2, rfl, hset⟩ := split_of_get hget
        simp only [hset]
        refine perm_of_count h ?_
        intro a
        simp only [List.count_append, List.count_cons, List.count_nil, hands_split, hh]
        omega
  | finish w =>
    simp only [step] at hs
    cases hget : ws[w]? with
    | none => simp [hget] at hs
    | some y =>
      simp [hget] at hs
      obtain ⟨_, rfl⟩ := hs
      simp only [hands_set_same hget (y' := { y with phase := .done }) rfl]
      exact h
  | consume =>
    simp only [step] at hs
    cases cd <;> cases rq <;> simp at hs
    subst hs
    perm_tac h
  | consumerEnd =>
    simp only [step] at hs
    split at hs
    · simp at hs; subst hs; exact h
    · simp at hs

theorem stepT_step {s s' : St} {l : Label} (h : stepT s l = some s') : step { ackAwait := true } s l = some s' := by
  cases l <;> simp only [stepT] at h <;> split at h <;> first | exact h | (simp at h)

theorem places_init (all : List Nat) (n : Nat) : (places (St.init all n)).Perm all := (inv_init all n).cons

theorem cons_reachT {all : List Nat} {n : Nat} {s : St} (h : ReachT (St.init all n) s) : (places s).Perm all := by
  induction h with
  | refl => exact places_init all n
  | step l _ hs ih => exact cons_step ih (stepT_step hs)

theorem cons_reach_any {all : List Nat} {n : Nat} {c : Cfg} {s : St} (h : Reach c (St.init all n) s) :
    (places s).Perm all := by
  induction h with
  | refl => exact places_init all n
  | step l _ hs ih => exact cons_step ih hs

end MlModel.Stage
