import MlModel.Lemmas.ThrHeapRefine
import MlModel.Lemmas.AggHeapMS
/-!
# ThresholdedRetrieval: the value-level history with `merge_states` (work package SC11)

`pureStepRM` extends `pureStepR` (`Model/Agg/ThrHeap.lean`) by the n-ary call: the left fold of the pure
`Counts.merge` into the first state.  A value-level history with n-ary calls equals the flattened one.
-/
namespace MlModel.Agg.Retrieval.Thr.H
open MlModel.Agg.Heap MlModel.Agg.Retrieval.Thr

variable {α : Type} [DecidableEq α]

/-- the value-level history: `merge_states` is the left fold of `Counts.merge` into the first state -/
def pureStepRM (ts : List Rat) (accs : List Counts) : OpRM (List (Row α)) Cell → List Counts
  | .r op => pureStepR ts accs op
  | .mergeStates [] => accs
  | .mergeStates (i :: js) => js.foldl (fun accs j => pureStep (α := α) ts accs (.merge i j)) accs

theorem pureStepRM_flatten (ts : List Rat) (accs : List Counts) (op : OpRM (List (Row α)) Cell) :
    pureStepRM ts accs op = op.flatten.foldl (pureStepR ts) accs := by
  cases op with
  | r op => simp [pureStepRM, OpRM.flatten]
  | mergeStates ids =>
    cases ids with
    | nil => simp [pureStepRM, OpRM.flatten]
    | cons i js => simp only [pureStepRM, OpRM.flatten, List.foldl_map, pureStepR]

theorem pureRunRM_flatten (ts : List Rat) (ops : List (OpRM (List (Row α)) Cell)) :
    ∀ accs, ops.foldl (pureStepRM ts) accs = (ops.flatMap OpRM.flatten).foldl (pureStepR ts) accs := by
  induction ops with
  | nil => intro accs; rfl
  | cons op ops ih =>
    intro accs
    rw [List.foldl_cons, ih, pureStepRM_flatten, List.flatMap_cons, List.foldl_append]

end MlModel.Agg.Retrieval.Thr.H
