import MlModel.Model.ShardRecv
import MlModel.Lemmas.Shard
import MlModel.Lemmas.RoundRobin
/-! Lemmas about `from_state` with an explicit receiver (`Model/ShardRecv.lean`). -/
namespace MlModel.Shard
open MlModel.Merged

/-! ### Which fields `shard` / `from_state` keep and read -/

theorem Source.shard_ok_iff (s s' : Source) (i k off : Int) :
    s.shard i k off = .ok s' ↔ ∃ d, s.ds.shard i k off = .ok d ∧ s' = { s with ds := d } := by
  unfold Source.shard
  cases h : s.ds.shard i k off with
  | error e => simp
  | ok d => simp [eq_comm]

theorem Source.shard_fields {s s' : Source} {i k off : Int} (h : s.shard i k off = .ok s') :
    s'.ds.dataLen = s.ds.dataLen ∧ s'.ignoreError = s.ignoreError := by
  obtain ⟨d, hd, rfl⟩ := (Source.shard_ok_iff s s' i k off).1 h
  unfold DS.shard at hd
  split at hd
  · simp at hd
  · simp only [Except.ok.injEq] at hd
    subst hd
    exact ⟨rfl, rfl⟩

/-- `from_state` reads `data` and `ignore_error` of its receiver, nothing else. -/
theorem Source.fromState_congr (r1 r2 : Source) (hd : r1.ds.dataLen = r2.ds.dataLen)
    (hi : r1.ignoreError = r2.ignoreError) (s : ShardConfig) : r1.fromState s = r2.fromState s := by
  induction s with
  | root i k off => simp only [Source.fromState, hd, hi]
  | child i k off p ih => simp only [Source.fromState, ih]

theorem Source.fromState_fields {r r' : Source} {s : ShardConfig} (h : r.fromState s = .ok r') :
    r'.ds.dataLen = r.ds.dataLen ∧ r'.ignoreError = r.ignoreError := by
  induction s generalizing r' with
  | root i k off =>
    simp only [Source.fromState] at h
    have := Source.shard_fields h
    exact this
  | child i k off p ih =>
    simp only [Source.fromState] at h
    cases h1 : r.fromState p with
    | error e => rw [h1] at h; simp [bind, Except.bind] at h
    | ok r1 =>
      rw [h1] at h
      simp only [bind, Except.bind] at h
      obtain ⟨a, b⟩ := Source.shard_fields h
      obtain ⟨c, d⟩ := ih h1
      exact ⟨a.trans c, b.trans d⟩

theorem Reach.fields {n : Nat} {ie : Bool} {r : Source} (h : Reach n ie r) :
    r.ds.dataLen = n ∧ r.ignoreError = ie := by
  induction h with
  | root => exact ⟨rfl, rfl⟩
  | shard i k off _ hs ih =>
    obtain ⟨a, b⟩ := Source.shard_fields hs
    exact ⟨a.trans ih.1, b.trans ih.2⟩
  | fromState s _ hs ih =>
    obtain ⟨a, b⟩ := Source.fromState_fields hs
    exact ⟨a.trans ih.1, b.trans ih.2⟩

/-- Receiver independence. -/
theorem Reach.fromState_eq {n : Nat} {ie : Bool} {r : Source} (h : Reach n ie r) (s : ShardConfig) :
    r.fromState s = (Source.root n ie).fromState s :=
  Source.fromState_congr r (Source.root n ie) h.fields.1 h.fields.2 s

/-! ### Link with the receiver-free `fromState` of `Model/Shard.lean` -/

/-- Lift of a `DS` result. -/
def liftDS (ie : Bool) : Except ErrKind DS → Except ErrKind Source
  | .ok d => .ok ⟨d, ie⟩
  | .error e => .error e

theorem Source.shard_lift (d : DS) (ie : Bool) (i k off : Int) :
    (⟨d, ie⟩ : Source).shard i k off = liftDS ie (d.shard i k off) := by
  unfold Source.shard liftDS
  cases d.shard i k off <;> rfl

theorem Source.fromState_lift (r : Source) (s : ShardConfig) :
    r.fromState s = liftDS r.ignoreError (MlModel.Shard.fromState r.ds.dataLen s) := by
  induction s with
  | root i k off =>
    simp only [Source.fromState, MlModel.Shard.fromState, Source.root, Source.shard_lift]
  | child i k off p ih =>
    simp only [Source.fromState, MlModel.Shard.fromState, ih]
    cases h : MlModel.Shard.fromState r.ds.dataLen p with
    | error e => simp [liftDS, bind, Except.bind]
    | ok d => simp only [liftDS, bind, Except.bind, Source.shard_lift]

theorem liftDS_ok {ie : Bool} {x : Except ErrKind DS} {r : Source} (h : liftDS ie x = .ok r) :
    x = .ok r.ds ∧ r.ignoreError = ie := by
  unfold liftDS at h
  cases x with
  | error e => simp at h
  | ok d => simp only [Except.ok.injEq] at h; subst h; exact ⟨rfl, rfl⟩

/-! ### Every receiver is a chain of shards of the root -/

theorem shardChain_snoc (d s s' : DS) (chain : List (Int × Int × Int)) (i k off : Int)
    (h1 : d.shardChain chain = .ok s) (h2 : s.shard i k off = .ok s') :
    d.shardChain (chain ++ [(i, k, off)]) = .ok s' := by
  induction chain generalizing d with
  | nil =>
    simp only [DS.shardChain, Except.ok.injEq] at h1
    subst h1
    simp [DS.shardChain, h2, bind, Except.bind]
  | cons c rest ih =>
    obtain ⟨i1, k1, o1⟩ := c
    simp only [DS.shardChain, List.cons_append] at h1 ⊢
    cases h : d.shard i1 k1 o1 with
    | error e => rw [h] at h1; simp [bind, Except.bind] at h1
    | ok d1 =>
      rw [h] at h1
      simp only [bind, Except.bind] at h1 ⊢
      exact ih d1 h1

/-- The chain of `shard` calls a state records (outermost first). -/
def chainOf : ShardConfig → List (Int × Int × Int)
  | .root i k off => [(i, k, off)]
  | .child i k off p => chainOf p ++ [(i, k, off)]

theorem fromState_chain (n : Nat) (s : ShardConfig) (d : DS) (h : fromState n s = .ok d) :
    (DS.root n).shardChain (chainOf s) = .ok d := by
  induction s generalizing d with
  | root i k off =>
    simp only [fromState] at h
    simp [chainOf, DS.shardChain, h, bind, Except.bind]
  | child i k off p ih =>
    simp only [fromState] at h
    cases h1 : fromState n p with
    | error e => rw [h1] at h; simp [bind, Except.bind] at h
    | ok d1 =>
      rw [h1] at h
      simp only [bind, Except.bind] at h
      exact shardChain_snoc _ d1 d _ i k off (ih d1 h1) h

theorem Reach.chain {n : Nat} {ie : Bool} {r : Source} (h : Reach n ie r) :
    ∃ chain, (DS.root n).shardChain chain = .ok r.ds := by
  induction h with
  | root => exact ⟨[], rfl⟩
  | @shard r r' i k off _ hs ih =>
    obtain ⟨chain, hc⟩ := ih
    obtain ⟨d, hd, rfl⟩ := (Source.shard_ok_iff r r' i k off).1 hs
    exact ⟨chain ++ [(i, k, off)], shardChain_snoc _ _ _ chain i k off hc hd⟩
  | @fromState r r' s hr hs ih =>
    rw [Source.fromState_lift] at hs
    obtain ⟨h1, _⟩ := liftDS_ok hs
    rw [hr.fields.1] at h1
    exact ⟨chainOf s, fromState_chain n s r'.ds h1⟩

theorem Source.shardChain_lift (d : DS) (ie : Bool) (chain : List (Int × Int × Int)) :
    (⟨d, ie⟩ : Source).shardChain chain = liftDS ie (d.shardChain chain) := by
  induction chain generalizing d with
  | nil => rfl
  | cons c rest ih =>
    obtain ⟨i, k, off⟩ := c
    simp only [Source.shardChain, DS.shardChain, Source.shard_lift]
    cases h : d.shard i k off with
    | error e => simp [liftDS, bind, Except.bind]
    | ok d1 => simp only [liftDS, bind, Except.bind]; exact ih d1

theorem Reach.of_chain (n : Nat) (ie : Bool) (chain : List (Int × Int × Int)) (r r' : Source)
    (hr : Reach n ie r) (h : r.shardChain chain = .ok r') : Reach n ie r' := by
  induction chain generalizing r with
  | nil =>
    simp only [Source.shardChain, Except.ok.injEq] at h
    subst h; exact hr
  | cons c rest ih =>
    obtain ⟨i, k, off⟩ := c
    simp only [Source.shardChain] at h
    cases h1 : r.shard i k off with
    | error e => rw [h1] at h; simp [bind, Except.bind] at h
    | ok r1 =>
      rw [h1] at h
      simp only [bind, Except.bind] at h
      exact ih r1 (Reach.shard i k off hr h1) h

/-! ### Round trip through any receiver, with the iterator's offset -/

theorem withStart_root_state (i k off t : Int) (p : ShardConfig) :
    (ShardConfig.child i k off p).withStart ((ShardConfig.child i k off p).startIndex + t)
      = .child i k (off + t) p := rfl

theorem shardCore_shift (d : DS) (i k off t : Int) :
    (d.shardCore i k (off + t)).start = (d.shardCore i k off).start + t ∧
    (d.shardCore i k (off + t)).end = (d.shardCore i k off).end ∧
    (d.shardCore i k (off + t)).dataLen = (d.shardCore i k off).dataLen := by
  refine ⟨?_, rfl, rfl⟩
  simp only [DS.shardCore]
  omega

theorem shardCore_sameInterval (d d' : DS) (h : SameInterval d d') (i k off : Int) :
    SameInterval (d.shardCore i k off) (d'.shardCore i k off) := by
  obtain ⟨h1, h2, h3⟩ := h
  simp only [SameInterval, DS.shardCore, DS.end, Option.getD_some]
  simp only [DS.end] at h2
  rw [h1, h2, h3]
  exact ⟨rfl, rfl, rfl⟩

theorem shard_ok_core {d s : DS} {i k off : Int} (h : d.shard i k off = .ok s) :
    ¬ k < 1 ∧ s = d.shardCore i k off := by
  unfold DS.shard at h
  split at h
  · simp at h
  · rename_i hk
    simp only [Except.ok.injEq] at h
    exact ⟨hk, h.symm⟩

/-- The state an iterator over `s` reports after `t` elements replays, from the root, to the interval
`[s.start + t, s.end)` — for every non-empty chain of shard calls. -/
theorem roundtrip_chain_shift (n : Nat) (chain : List (Int × Int × Int)) (hne : chain ≠ []) (d d0 s : DS)
    (h0 : fromState n d.state = .ok d0) (hi : SameInterval d d0) (hs : d.shardChain chain = .ok s) (t : Int) :
    ∃ s', fromState n (s.state.withStart (s.state.startIndex + t)) = .ok s' ∧
      s'.start = s.start + t ∧ s'.end = s.end ∧ s'.dataLen = s.dataLen := by
  induction chain generalizing d d0 with
  | nil => exact absurd rfl hne
  | cons c rest ih =>
    obtain ⟨i, k, off⟩ := c
    simp only [DS.shardChain] at hs
    cases h1 : d.shard i k off with
    | error e => rw [h1] at hs; simp [bind, Except.bind] at hs
    | ok s1 =>
      rw [h1] at hs
      simp only [bind, Except.bind] at hs
      obtain ⟨hk, hs1⟩ := shard_ok_core h1
      by_cases hrest : rest = []
      · subst hrest
        simp only [DS.shardChain, Except.ok.injEq] at hs
        subst hs
        subst hs1
        refine ⟨d0.shardCore i k (off + t), ?_, ?_⟩
        · show fromState n (ShardConfig.child i k (off + t) d.state) = _
          simp only [fromState, h0, bind, Except.bind, DS.shard, if_neg hk]
        · obtain ⟨a, b, c⟩ := shardCore_shift d0 i k off t
          obtain ⟨a', b', c'⟩ := shardCore_sameInterval d d0 hi i k off
          exact ⟨by rw [a, a'], by rw [b, b'], by rw [c, c']⟩
      · obtain ⟨s1', hs1', hi1⟩ := shard_sameInterval d d0 hi i k off s1 h1
        have hfs : fromState n s1.state = .ok s1' := by
          subst hs1
          show fromState n (ShardConfig.child i k off d.state) = _
          simp only [fromState, h0, bind, Except.bind]
          exact hs1'
        exact ih hrest s1 s1' hfs hi1 hs

/-- The same for the never-sharded root: `ShardConfig(0, 1, t)`. -/
theorem roundtrip_root_shift (n : Nat) (t : Int) :
    ∃ s', fromState n ((DS.root n).state.withStart ((DS.root n).state.startIndex + t)) = .ok s' ∧
      s'.start = (DS.root n).start + t ∧ s'.end = (DS.root n).end ∧ s'.dataLen = (DS.root n).dataLen := by
  refine ⟨_, rfl, ?_⟩
  simp [DS.root, DS.shardCore, DS.end, shardLoop, shardStep, List.range_succ, ShardConfig.dflt,
    ShardConfig.startIndex]

theorem roundtrip_any_shift (n : Nat) (chain : List (Int × Int × Int)) (s : DS)
    (hs : (DS.root n).shardChain chain = .ok s) (t : Int) :
    ∃ s', fromState n (s.state.withStart (s.state.startIndex + t)) = .ok s' ∧
      s'.start = s.start + t ∧ s'.end = s.end ∧ s'.dataLen = s.dataLen := by
  by_cases hne : chain = []
  · subst hne
    simp only [DS.shardChain, Except.ok.injEq] at hs
    subst hs
    exact roundtrip_root_shift n t
  · obtain ⟨d0, h0, hi⟩ := fromState_root n
    exact roundtrip_chain_shift n chain hne (DS.root n) d0 s h0 hi hs t

/-! ### Elements -/

theorem pySlice_shift {α : Type} (xs : List α) (a b : Int) (t : Nat) (ha : 0 ≤ a) (hab : a + t ≤ b)
    (hb : b ≤ (xs.length : Int)) :
    pySlice xs (some (a + t)) (some b) = (pySlice xs (some a) (some b)).drop t := by
  rw [pySlice_nat xs (a + t) b (by omega) hab hb, pySlice_nat xs a b ha (by omega) hb]
  rw [List.drop_take, List.drop_drop]
  have e1 : (a + (t : Int)).toNat = a.toNat + t := by omega
  rw [e1]
  congr 1
  omega

theorem elems_length_wf {α : Type} (d : DS) (hwf : d.WF) (xs : List α) (hlen : xs.length = d.dataLen) :
    ((d.elems xs).length : Int) = d.end - d.start := by
  rw [elems_wf d hwf xs hlen]
  obtain ⟨h0, h1, h2⟩ := hwf
  simp only [List.length_take, List.length_drop]
  omega

/-! ### `SequenceIterator`: position after `m` `next` calls -/

/-- Invariant of an iterator over a well-formed source: `start <= _index <= end`. -/
def SeqIter.Inv (it : SeqIter) : Prop :=
  it.config.ds.start ≤ it.index ∧ it.index ≤ it.config.ds.end

theorem SeqIter.next_spec {α : Type} (xs : List α) (it : SeqIter) (hwf : it.config.ds.WF)
    (hlen : xs.length = it.config.ds.dataLen) (hinv : it.Inv) :
    (it.next xs).2.config = it.config ∧ (it.next xs).2.Inv ∧
    (it.next xs).1.toList ++ (it.next xs).2.rest xs = it.rest xs ∧
    ((it.next xs).1 = none → it.rest xs = []) := by
  have hl := elems_length_wf it.config.ds hwf xs hlen
  obtain ⟨h1, h2⟩ := hinv
  unfold SeqIter.next SeqIter.rest
  cases h : (it.config.ds.elems xs)[(it.index - it.config.ds.start).toNat]? with
  | none =>
    simp only [Option.toList_none, List.nil_append, true_and]
    refine ⟨⟨h1, h2⟩, fun _ => ?_⟩
    rw [List.getElem?_eq_none_iff] at h
    exact List.drop_of_length_le h
  | some a =>
    obtain ⟨hlt, hget⟩ := List.getElem?_eq_some_iff.1 h
    refine ⟨rfl, ⟨by simp only; omega, by simp only; omega⟩, ?_, by simp⟩
    simp only [Option.toList_some]
    have e : (it.index + 1 - it.config.ds.start).toNat = (it.index - it.config.ds.start).toNat + 1 := by omega
    rw [e, List.singleton_append, ← hget]
    exact (List.drop_eq_getElem_cons hlt).symm

theorem SeqIter.nexts_spec {α : Type} (xs : List α) (m : Nat) (it : SeqIter) (hwf : it.config.ds.WF)
    (hlen : xs.length = it.config.ds.dataLen) (hinv : it.Inv) :
    (SeqIter.nexts xs m it).2.config = it.config ∧ (SeqIter.nexts xs m it).2.Inv ∧
    (SeqIter.nexts xs m it).1.flatMap Option.toList ++ (SeqIter.nexts xs m it).2.rest xs = it.rest xs := by
  induction m generalizing it with
  | zero => exact ⟨rfl, hinv, by simp [SeqIter.nexts]⟩
  | succ m ih =>
    obtain ⟨hc, hi, hr, _⟩ := SeqIter.next_spec xs it hwf hlen hinv
    obtain ⟨hc', hi', hr'⟩ := ih (it.next xs).2 (by rw [hc]; exact hwf) (by rw [hc]; exact hlen) hi
    simp only [SeqIter.nexts]
    refine ⟨hc'.trans hc, hi', ?_⟩
    rw [List.flatMap_cons, List.append_assoc, hr', hr]

theorem Source.iterate_inv (s : Source) (hwf : s.ds.WF) : s.iterate.Inv :=
  ⟨Int.le_refl _, hwf.2.1⟩

theorem Source.iterate_rest {α : Type} (s : Source) (xs : List α) : s.iterate.rest xs = s.ds.elems xs := by
  simp [SeqIter.rest, Source.iterate]

/-! ### Round robin: restoring continues exactly -/

theorem filterMap_congr_mem {β γ : Type} (l : List β) (f g : β → Option γ) (h : ∀ x ∈ l, f x = g x) :
    l.filterMap f = l.filterMap g := by
  induction l with
  | nil => rfl
  | cons a l ih =>
    rw [List.filterMap_cons, List.filterMap_cons, h a (by simp), ih (fun x hx => h x (by simp [hx]))]

theorem rrRem_restore {α : Type} (xs : List α) (i k start : Int) (idx : Nat) (h : idx ≤ xs.length) :
    rrRem xs i k (rrStateIndex start idx) 0 = rrRem xs i k start idx := by
  unfold rrRem rrStateIndex
  have e : xs.length - 0 = idx + (xs.length - idx) := by omega
  rw [e, ← List.range'_append_1, List.filterMap_append, Nat.zero_add]
  have h1 : List.filterMap (fun j => if rrSel i k (max (idx : Int) start) j = true then xs[j]? else none)
      (List.range' 0 idx) = [] := by
    rw [List.filterMap_eq_nil_iff]
    intro j hj
    have hlt : j < idx := by simpa [List.mem_range'_1] using hj
    have : rrSel i k (max (idx : Int) start) j = false := by
      unfold rrSel
      simp only [decide_eq_false_iff_not]
      omega
    simp [this]
  rw [h1, List.nil_append]
  apply filterMap_congr_mem
  intro j hj
  have hge : idx ≤ j := by
    have := (List.mem_range'_1.1 hj).1
    exact this
  have : rrSel i k (max (idx : Int) start) j = rrSel i k start j := by
    unfold rrSel
    congr 1
    apply propext
    constructor
    · intro ⟨a, b⟩; exact ⟨by omega, b⟩
    · intro ⟨a, b⟩; exact ⟨by omega, b⟩
  rw [this]

/-! ### Restoring an iterator's state through any receiver -/

/-- An iterator whose config is a receiver over well-formed bounds, inside its interval. -/
def SeqIter.Good (n : Nat) (ie : Bool) (it : SeqIter) : Prop :=
  Reach n ie it.config ∧ it.config.ds.WF ∧ it.Inv

theorem SeqIter.restore_any {α : Type} (n : Nat) (ie : Bool) (xs : List α) (hlen : xs.length = n)
    (it : SeqIter) (hg : it.Good n ie) (recv : Source) (hr : Reach n ie recv) :
    ∃ s', recv.fromState it.state = .ok s' ∧ s'.ds.start = it.index ∧ s'.ds.end = it.config.ds.end ∧
      s'.ds.dataLen = n ∧ s'.ignoreError = ie ∧ s'.ds.WF ∧ s'.ds.elems xs = it.rest xs := by
  obtain ⟨hc, hwf, h1, h2⟩ := hg
  obtain ⟨chain, hchain⟩ := hc.chain
  obtain ⟨d', hd', hs, he, hl⟩ := roundtrip_any_shift n chain it.config.ds hchain (it.index - it.config.ds.start)
  have hst : it.state = it.config.ds.state.withStart
      (it.config.ds.state.startIndex + (it.index - it.config.ds.start)) := by
    unfold SeqIter.state; rw [Int.add_sub_assoc]
  have hn : it.config.ds.dataLen = n := hc.fields.1
  refine ⟨⟨d', ie⟩, ?_, by simp only; omega, he, by simp only; omega, rfl, ?_, ?_⟩
  · rw [hr.fromState_eq, Source.fromState_lift, hst]
    show liftDS ie (MlModel.Shard.fromState n _) = _
    rw [hd']; rfl
  · obtain ⟨w0, w1, w2⟩ := hwf
    show 0 ≤ d'.start ∧ d'.start ≤ d'.end ∧ d'.end ≤ (d'.dataLen : Int)
    refine ⟨by omega, by omega, by omega⟩
  · obtain ⟨w0, w1, w2⟩ := hwf
    show pySlice xs (some d'.start) (some d'.end) = _
    unfold SeqIter.rest DS.elems
    rw [he, hs]
    have e : it.config.ds.start + (it.index - it.config.ds.start)
        = it.config.ds.start + ((it.index - it.config.ds.start).toNat : Int) := by omega
    rw [e]
    exact pySlice_shift xs _ _ _ w0 (by omega) (by omega)

/-! ### `MultiplexIterator` -/

theorem muxNext_spec {α : Type} (n : Nat) (ie : Bool) (xs : List α) (hlen : xs.length = n)
    (its : List SeqIter) (hg : ∀ it ∈ its, it.Good n ie) :
    (muxNext xs its).2.length = its.length ∧ (∀ it ∈ (muxNext xs its).2, it.Good n ie) ∧
    (muxNext xs its).1.toList ++ muxRest xs (muxNext xs its).2 = muxRest xs its := by
  induction its with
  | nil => simp [muxNext, muxRest]
  | cons it its ih =>
    obtain ⟨hc, hwf, hinv⟩ := hg it (by simp)
    have hl : xs.length = it.config.ds.dataLen := by rw [hc.fields.1]; exact hlen
    obtain ⟨a, b, c, d⟩ := SeqIter.next_spec xs it hwf hl hinv
    have hgood : (it.next xs).2.Good n ie := ⟨by rw [a]; exact hc, by rw [a]; exact hwf, b⟩
    obtain ⟨ih1, ih2, ih3⟩ := ih (fun x hx => hg x (by simp [hx]))
    unfold muxNext
    cases hnx : it.next xs with
    | mk o it' =>
      rw [hnx] at a b c d hgood
      cases o with
      | some v =>
        simp only [List.length_cons, true_and]
        refine ⟨?_, ?_⟩
        · intro x hx
          rcases List.mem_cons.1 hx with rfl | hx
          · exact hgood
          · exact hg x (by simp [hx])
        · simp only [muxRest, List.flatMap_cons] at c ⊢
          rw [← List.append_assoc, c]
      | none =>
        simp only [List.length_cons, ih1, true_and]
        refine ⟨?_, ?_⟩
        · intro x hx
          rcases List.mem_cons.1 hx with rfl | hx
          · exact hgood
          · exact ih2 x hx
        · simp only [muxRest, List.flatMap_cons] at ih3 c ⊢
          have hnil := d rfl
          simp only [Option.toList_none, List.nil_append] at c
          rw [c, hnil, List.nil_append, List.nil_append]
          exact ih3

theorem muxNexts_spec {α : Type} (n : Nat) (ie : Bool) (xs : List α) (hlen : xs.length = n) (m : Nat)
    (its : List SeqIter) (hg : ∀ it ∈ its, it.Good n ie) :
    (muxNexts xs m its).2.length = its.length ∧ (∀ it ∈ (muxNexts xs m its).2, it.Good n ie) ∧
    (muxNexts xs m its).1.flatMap Option.toList ++ muxRest xs (muxNexts xs m its).2 = muxRest xs its := by
  induction m generalizing its with
  | zero => exact ⟨rfl, hg, by simp [muxNexts]⟩
  | succ m ih =>
    obtain ⟨a, b, c⟩ := muxNext_spec n ie xs hlen its hg
    obtain ⟨a', b', c'⟩ := ih (muxNext xs its).2 b
    simp only [muxNexts]
    refine ⟨a'.trans a, b', ?_⟩
    rw [List.flatMap_cons, List.append_assoc, c', c]

theorem muxFromState_restore {α : Type} (n : Nat) (ie : Bool) (xs : List α) (hlen : xs.length = n)
    (its : List SeqIter) (hg : ∀ it ∈ its, it.Good n ie) (recvs : List Source)
    (hr : ∀ r ∈ recvs, Reach n ie r) (hlen2 : recvs.length = its.length) :
    ∃ rebuilt, muxFromState recvs (muxState its) = .ok rebuilt ∧
      rebuilt.length = its.length ∧
      (∀ r ∈ rebuilt, Reach n ie r ∧ r.ds.WF) ∧
      rebuilt.flatMap (fun r => r.ds.elems xs) = muxRest xs its := by
  induction its generalizing recvs with
  | nil =>
    cases recvs with
    | nil => exact ⟨[], rfl, rfl, by simp, rfl⟩
    | cons r rs => simp at hlen2
  | cons it its ih =>
    cases recvs with
    | nil => simp at hlen2
    | cons r rs =>
      obtain ⟨s', h1, _, _, _, _, hwf', hel⟩ :=
        SeqIter.restore_any n ie xs hlen it (hg it (by simp)) r (hr r (by simp))
      obtain ⟨rb, h2, h3, h4, h5⟩ := ih (fun x hx => hg x (by simp [hx])) rs
        (fun x hx => hr x (by simp [hx])) (by simpa using hlen2)
      refine ⟨s' :: rb, ?_, by simp [h3], ?_, ?_⟩
      · simp only [muxState, List.map_cons, muxFromState, h1, bind, Except.bind]
        simp only [muxState] at h2
        rw [h2]; rfl
      · intro x hx
        rcases List.mem_cons.1 hx with rfl | hx
        · exact ⟨Reach.fromState _ (hr r (by simp)) h1, hwf'⟩
        · exact h4 x hx
      · simp only [List.flatMap_cons, muxRest] at h5 ⊢
        rw [hel, h5]

theorem muxFromState_congr (n : Nat) (ie : Bool) (recvs : List Source) (hr : ∀ r ∈ recvs, Reach n ie r)
    (states : List ShardConfig) :
    muxFromState recvs states = muxFromState (recvs.map fun _ => Source.root n ie) states := by
  induction recvs generalizing states with
  | nil => cases states <;> rfl
  | cons r rs ih =>
    cases states with
    | nil => rfl
    | cons s ss =>
      simp only [List.map_cons, muxFromState]
      rw [(hr r (by simp)).fromState_eq, ih (fun x hx => hr x (by simp [hx]))]


end MlModel.Shard
