import MlModel.Lemmas.PrefetchViews
/-!
# A generator that has been replaced is stopped or exhausted

`OInv`: every queue other than `self._generator` has had a `maybe_stop` executed on it, or is exhausted.  The
generator is replaced only by `_init_iterator`'s installation, which comes after the locked stop of the previous
generator (`maybe_stop` … join) or after that stop was skipped because the generator was already exhausted.
-/
namespace MlModel.Prefetch
set_option linter.unusedVariables false
set_option linter.unusedSimpArgs false

/-- the installation follows a skipped stop (`lkAcq`: no generator, or an exhausted one), `maybe_stop` without a
prefetch thread to join (`lkStop`), or the join (`lkJoin`) -/
theorem step_install_from {c c' : Cfg} {tid : Queue.Tid} {lbl : String} {t : Thread}
    (ht : c.ths[tid]? = some t) (h : step c tid = some (lbl, c')) :
    ∀ t', c'.ths[tid]? = some t' → t'.pc = .iiSpawn →
      (t.pc = .lkAcq ∧ ∀ g, c.sh.generator = some g → c.sh.exhaustedOf g = true) ∨ t.pc = .lkJoin ∨ t.pc = .lkStop := by
  have hlt : tid < c.ths.length := (List.getElem?_eq_some_iff.mp ht).1
  unfold step at h
  simp only [ht] at h
  cases hpc : t.pc <;> simp only [hpc] at h
  case done => simp at h
  case lkJoin => intro _ _ _; exact Or.inr (Or.inl rfl)
  case lkStop => intro _ _ _; exact Or.inr (Or.inr rfl)
  case iiSpawn =>
    cases hg : gen? t.prog with
    | none => simp [hg] at h
    | some g =>
      simp only [hg, Option.some.injEq, Prod.mk.injEq] at h
      obtain ⟨-, rfl⟩ := h
      intro t' ht' hpc'
      simp [List.getElem?_append_left, hlt, List.getElem?_set_self hlt] at ht'
      subst ht'
      cases hpc'
  case lkAcq =>
    simp only [beginStop, install, failInit] at h
    cases hprog : t.prog <;> simp only [hprog] at h <;> qeff_split <;>
      (intro t' ht' hpc'; rw [getElem?_setTh ht] at ht'; cases ht'; simp_all [Shared.exhaustedOf])
  case prod =>
    cases hq : c.sh.qs[t.g]? with
    | none => simp [hq] at h
    | some q =>
      simp only [hq] at h
      cases hst : Queue.stepThread q t.qt tid false with
      | none => simp [hst] at h
      | some res =>
        obtain ⟨lbl0, q', qt'⟩ := res
        simp only [hst] at h
        split at h <;> simp only [Option.some.injEq, Prod.mk.injEq] at h <;> obtain ⟨-, rfl⟩ := h <;>
          (intro t' ht' hpc'; rw [getElem?_setTh ht] at ht'; cases ht'; cases hpc')
  case nbGet =>
    cases hq : c.sh.qs[t.g]? with
    | none => simp [hq] at h
    | some q =>
      simp only [hq] at h
      cases hst : Queue.stepThread q t.qt tid false with
      | none => simp [hst] at h
      | some res =>
        obtain ⟨lbl0, q', qt'⟩ := res
        simp only [hst] at h
        split at h <;> simp only [Option.some.injEq, Prod.mk.injEq] at h <;> obtain ⟨-, rfl⟩ := h <;>
          (intro t' ht' hpc'; rw [getElem?_setTh ht] at ht'; cases ht'; cases hpc')
  case lkRel =>
    cases hprog : t.prog <;> simp only [hprog] at h <;> qeff_split <;>
      (intro t' ht' hpc'; rw [getElem?_setTh ht] at ht'; cases ht'; cases hpc')
  case start =>
    simp only [callNext, beginNext] at h
    cases hprog : t.prog <;> simp only [hprog] at h <;> qeff_split <;>
      (intro t' ht' hpc'; rw [getElem?_setTh ht] at ht'; cases ht'; cases hpc')
  all_goals
    try simp only [callNext, beginNext, receive] at h
    qeff_split <;> (intro t' ht' hpc'; rw [getElem?_setTh ht] at ht'; cases ht'; cases hpc')

/-- every queue that is not `self._generator` is stopped or exhausted -/
def OInv (c : Cfg) : Prop :=
  ∀ (k : Nat) (q : Queue.Shared), c.sh.qs[k]? = some q → c.sh.generator ≠ some k →
    q.stopRequested = true ∨ q.exhausted = true

theorem oinv_init (p : Nat) (progs : List Prog) : OInv (init p progs) := by
  intro k q hq; simp [init] at hq

theorem oinv_step {c c' : Cfg} {tid : Queue.Tid} {lbl : String} (hI : IInv c) (hU : UInv c) (hS : SInv c) (hV : VInv c)
    (hO : OInv c) (h : step c tid = some (lbl, c')) : OInv c' := by
  obtain ⟨t, ht⟩ := step_some_thread h
  obtain ⟨t', hk, hl⟩ := step_eff ht h
  have hself := hk.get_self ht
  have hq : QEff c c' tid t t' := by
    obtain ⟨t'', h1, h2⟩ := step_qeff ht h
    rw [hself] at h1
    cases h1
    exact h2
  -- what was stopped or exhausted stays so
  have hkeep : ∀ (k : Nat) (q0 : Queue.Shared), c.sh.qs[k]? = some q0 →
      (q0.stopRequested = true ∨ q0.exhausted = true) →
      ∀ q1, c'.sh.qs[k]? = some q1 → q1.stopRequested = true ∨ q1.exhausted = true := by
    intro k q0 hq0 hs0 q1 hq1
    cases hq with
    | none hqs =>
      rw [hqs k q0 hq0] at hq1; obtain rfl := Option.some.inj hq1; exact hs0
    | op q q' qt' lbl0 hqa hst hq' hqs =>
      by_cases hg : k = t.g
      · subst hg
        rw [hqa] at hq0; obtain rfl := Option.some.inj hq0
        rw [hq'] at hq1; obtain rfl := Option.some.inj hq1
        obtain ⟨-, f2, f3, -⟩ := Queue.stepThread_fault lbl0 q' qt' hst
        exact hs0.imp f2 f3
      · rw [hqs k q0 hg hq0] at hq1; obtain rfl := Option.some.inj hq1; exact hs0
  -- the queues of the new configuration
  have hqc : ∀ (k : Nat) (q1 : Queue.Shared), c'.sh.qs[k]? = some q1 →
      (∃ q0, c.sh.qs[k]? = some q0) ∨ k = c.sh.qs.length := by
    intro k q1 hq1
    cases hq with
    | none hqs hnew =>
      rcases hnew k q1 hq1 with h1 | ⟨h1, -⟩
      · exact Or.inl ⟨q1, h1⟩
      · exact Or.inr h1
    | op q q' qt' lbl0 hqa hst hq' hqs hnew =>
      by_cases hg : k = t.g
      · subst hg; exact Or.inl ⟨q, hqa⟩
      · rcases hnew k q1 hg hq1 with h1 | ⟨h1, -⟩
        · exact Or.inl ⟨q1, h1⟩
        · exact Or.inr h1
  intro k q1 hq1 hgen'
  cases hk with
  | plain hths hgen henq hlen h1 h2 hstopK =>
    rw [hgen] at hgen'
    rcases hqc k q1 hq1 with ⟨q0, hq0⟩ | hk1
    · exact hkeep k q0 hq0 (hO k q0 hq0 hgen') q1 hq1
    · have := (List.getElem?_eq_some_iff.mp hq1).1; omega
  | spawn p hths hgen henq hlen h1 h2 hp hpc hqt =>
    rw [hgen] at hgen'
    rcases hqc k q1 hq1 with ⟨q0, hq0⟩ | hk1
    · exact hkeep k q0 hq0 (hO k q0 hq0 hgen') q1 hq1
    · have := (List.getElem?_eq_some_iff.mp hq1).1; omega
  | install hths hgen henq hlen hfresh hg h1 h2 hprog' =>
    rw [hgen, hg] at hgen'
    rcases hqc k q1 hq1 with ⟨q0, hq0⟩ | hk1
    · by_cases hgk : c.sh.generator = some k
      · -- the generator that is being replaced
        rcases step_install_from ht h t' hself h2 with ⟨hp0, hex⟩ | hp0 | hp0
        · have := hex k hgk
          simp only [Shared.exhaustedOf, hq0] at this
          exact hkeep k q0 hq0 (Or.inr this) q1 hq1
        · obtain ⟨qj, hqj, hsj⟩ := hV.jn tid t ht hp0
          have hgt := hU.stopG tid t ht (Or.inr hp0)
          rw [hgk] at hgt; obtain rfl := Option.some.inj hgt
          rw [hq0] at hqj; obtain rfl := Option.some.inj hqj
          exact hkeep _ q0 hq0 (Or.inl hsj) q1 hq1
        · have hgt := hU.stopG tid t ht (Or.inl hp0)
          rw [hgk] at hgt; obtain rfl := Option.some.inj hgt
          cases hq with
          | none hqs hnew hpc => exact absurd hp0 hpc.1
          | op q q' qt' lbl0 hqa hst hq' hqs hnew hpc hprod hget hstop =>
            obtain ⟨hkind, hsr0⟩ := hS.shapeS tid t ht hp0
            have hns : t.qt.pc ≠ .start := by intro h0; rw [h0] at hkind; cases hkind
            obtain ⟨hm1, hm2, -⟩ := (Queue.stepThread_stop lbl0 q' qt' hst hns).2.2 hkind
            rw [hq'] at hq1; obtain rfl := Option.some.inj hq1
            left
            by_cases hm : t.qt.pc = .mAcq
            · exact hm1 hm
            · rw [hm2 hm]
              obtain ⟨q00, hq00, hs0⟩ := hsr0 hm
              rw [hqa] at hq00; rw [Option.some.inj hq00]; exact hs0
      · exact hkeep k q0 hq0 (hO k q0 hq0 hgk) q1 hq1
    · exact absurd (by rw [hk1]) hgen'

theorem oinv_reachable {p : Nat} {progs : List Prog} {c : Cfg} (hreq : Requests progs)
    (h : Reachable (init p progs) c) : OInv c := by
  induction h with
  | init => exact oinv_init p progs
  | step hr hs ih =>
    exact oinv_step (iinv_reachable hreq hr) (uinv_reachable hreq hr) (sinv_reachable hreq hr)
      (vinv_reachable hreq hr) ih hs

end MlModel.Prefetch
