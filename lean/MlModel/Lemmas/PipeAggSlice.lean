import MlModel.Lemmas.PipeAggMain
/-!
# Row-level slicers: the row → index list → boolean mask construction, and what it selects
-/
namespace MlModel.PipeAgg
open MlModel MlModel.Agg

variable {X S Rv : Type}

/-! ### `mask_by_slice` -/

/-- the index list recorded for slice value `v` -/
def idxOf (acc : List (List Int × List Nat)) (v : List Int) : List Nat := (AList.get? acc v).getD []

theorem inSlice_iff (f : List Val → Except ErrKind (List (List Int))) (v : List Int) (row : List Val) :
    inSlice f v row = true ↔ ∃ vs, f row = .ok vs ∧ v ∈ vs := by
  unfold inSlice
  cases h : f row with
  | error e => simp
  | ok vs => simp

theorem addIdx_foldl (i : Nat) (vs : List (List Int)) :
    ∀ (acc : List (List Int × List Nat)),
      (∀ v j, j ∈ idxOf (vs.foldl (addIdx i) acc) v ↔ j ∈ idxOf acc v ∨ (j = i ∧ v ∈ vs)) ∧
      (∀ v, v ∈ AList.keys (vs.foldl (addIdx i) acc) ↔ v ∈ AList.keys acc ∨ v ∈ vs) ∧
      ((AList.keys acc).Nodup → (AList.keys (vs.foldl (addIdx i) acc)).Nodup) := by
  induction vs with
  | nil => intro acc; simp
  | cons w vs ih =>
    intro acc
    obtain ⟨h1, h2, h3⟩ := ih (addIdx i acc w)
    simp only [List.foldl_cons]
    refine ⟨?_, ?_, ?_⟩
    · intro v j
      rw [h1]
      unfold idxOf addIdx
      rw [AList.get?_set]
      by_cases hv : v = w
      · subst hv
        have e1 : ∀ l : List Nat, j ∈ l ++ [i] ↔ j ∈ l ∨ j = i := by intro l; simp
        have e2 : v ∈ v :: vs := List.mem_cons_self
        simp only [↓reduceIte, Option.getD_some, e1]
        constructor
        · rintro ((h | h) | h)
          · exact Or.inl h
          · exact Or.inr ⟨h, e2⟩
          · exact Or.inr ⟨h.1, e2⟩
        · rintro (h | h)
          · exact Or.inl (Or.inl h)
          · exact Or.inl (Or.inr h.1)
      · simp [hv]
    · intro v
      rw [h2]
      unfold addIdx
      rw [AList.mem_keys_set]
      simp only [List.mem_cons]
      constructor
      · rintro ((h | h) | h)
        · exact Or.inr (Or.inl h)
        · exact Or.inl h
        · exact Or.inr (Or.inr h)
      · rintro (h | h | h)
        · exact Or.inl (Or.inr h)
        · exact Or.inl (Or.inl h)
        · exact Or.inr h
    · intro hn
      exact h3 (AList.nodup_keys_set _ _ _ hn)

theorem maskBySlice_ok (f : List Val → Except ErrKind (List (List Int))) (rows : List (List Val)) :
    ∀ (i : Nat) (acc acc' : List (List Int × List Nat)), maskBySlice f rows i acc = .ok acc' →
      (∀ v j, j ∈ idxOf acc' v ↔
        j ∈ idxOf acc v ∨ ∃ t r, rows[t]? = some r ∧ j = i + t ∧ inSlice f v r = true) ∧
      (∀ v, v ∈ AList.keys acc' ↔ v ∈ AList.keys acc ∨ ∃ r ∈ rows, inSlice f v r = true) ∧
      ((AList.keys acc).Nodup → (AList.keys acc').Nodup) := by
  induction rows with
  | nil =>
    intro i acc acc' h
    simp only [maskBySlice] at h
    cases h
    simp
  | cons r rows ih =>
    intro i acc acc' h
    simp only [maskBySlice] at h
    cases hf : f r with
    | error e => rw [hf] at h; cases h
    | ok vs =>
      rw [hf] at h
      obtain ⟨g1, g2, g3⟩ := ih (i + 1) _ _ h
      obtain ⟨a1, a2, a3⟩ := addIdx_foldl i vs acc
      have hin : ∀ v, inSlice f v r = true ↔ v ∈ vs := by
        intro v; rw [inSlice_iff, hf]; simp
      refine ⟨?_, ?_, fun hn => g3 (a3 hn)⟩
      · intro v j
        rw [g1, a1]
        constructor
        · rintro ((h | ⟨rfl, hv⟩) | ⟨t, r', ht, rfl, hs⟩)
          · exact Or.inl h
          · exact Or.inr ⟨0, r, rfl, rfl, (hin v).mpr hv⟩
          · exact Or.inr ⟨t + 1, r', by simpa using ht, by omega, hs⟩
        · rintro (h | ⟨t, r', ht, rfl, hs⟩)
          · exact Or.inl (Or.inl h)
          · cases t with
            | zero =>
              simp only [List.getElem?_cons_zero, Option.some.injEq] at ht
              subst ht
              exact Or.inl (Or.inr ⟨rfl, (hin v).mp hs⟩)
            | succ t =>
              exact Or.inr ⟨t, r', by simpa using ht, by omega, hs⟩
      · intro v
        rw [g2, a2]
        simp only [List.mem_cons, exists_eq_or_imp]
        constructor
        · rintro ((h | h) | h)
          · exact Or.inl h
          · exact Or.inr (Or.inl ((hin v).mpr h))
          · exact Or.inr (Or.inr h)
        · rintro (h | h | h)
          · exact Or.inl (Or.inl h)
          · exact Or.inl (Or.inr ((hin v).mp h))
          · exact Or.inr h

theorem toMask_eq (rows : List (List Val)) (idx : List Nat) (p : List Val → Bool)
    (h : ∀ j, j ∈ idx ↔ ∃ r, rows[j]? = some r ∧ p r = true) :
    toMask rows.length idx = rows.map p := by
  apply List.ext_getElem
  · simp [toMask]
  · intro j h1 h2
    simp only [toMask, List.getElem_map, List.getElem_range]
    have hj : j < rows.length := by simpa [toMask] using h1
    have hget : rows[j]? = some rows[j] := List.getElem?_eq_getElem hj
    cases hp : p rows[j] with
    | true =>
      have : j ∈ idx := (h j).mpr ⟨_, hget, hp⟩
      simpa using this
    | false =>
      have : ¬ j ∈ idx := by
        intro hm
        obtain ⟨r, hr, hpr⟩ := (h j).mp hm
        rw [hget] at hr; cases hr
        rw [hp] at hpr; cases hpr
      simpa using this

/-! ### what a row slicer yields for one batch -/

theorem featRows_eq {sl : Slicer} {b : Batch} {cs : List (List Val)}
    (h : mapE Val.asSeq (sl.keys.filterMap (fun k => lookupKey k b)) = .ok cs) :
    sl.featRows b = zipRows cs := by
  unfold Slicer.featRows; rw [h]

/-- **The built-in slicers**: for one batch, a row slicer yields one key per slice value that occurs
in some row (none other, none twice), each with the single numpy mask "row `i` is in the slice". -/
theorem rowSlicer_slice {sl : Slicer} {f : List Val → Except ErrKind (List (List Int))}
    (hfn : sl.fn = .rows f) {b : Batch} {kms : List (SliceKey × List TopMask)}
    (h : sl.slice b = .ok kms) :
    (kms.map (·.1)).Nodup ∧
    (∀ k, k ∈ kms.map (·.1) ↔ k.features = sl.name ∧ occursIn f k.values (sl.featRows b) = true) ∧
    (∀ km ∈ kms, km.2 = [.np ((sl.featRows b).map (inSlice f km.1.values))]) := by
  unfold Slicer.slice at h
  simp only [hfn] at h
  cases hcs : mapE Val.asSeq (sl.keys.filterMap (fun k => lookupKey k b)) with
  | error e => simp [hcs] at h
  | ok cs =>
    simp only [hcs] at h
    rw [featRows_eq hcs]
    cases hm : maskBySlice f (zipRows cs) 0 [] with
    | error e => simp [hm] at h
    | ok bySlice =>
      simp only [hm] at h
      obtain ⟨m1, m2, m3⟩ := maskBySlice_ok f (zipRows cs) 0 [] bySlice hm
      have hnd : (AList.keys bySlice).Nodup := m3 (by simp [AList.keys])
      -- every produced pair
      have hstep : ∀ vi km, vi ∈ bySlice →
          (match mkSliceKey sl.name vi.1 with
            | .error e => (Except.error e : Except ErrKind (SliceKey × List TopMask))
            | .ok k => .ok (k, [TopMask.np (toMask (zipRows cs).length vi.2)])) = .ok km →
          km.1 = ⟨sl.name, vi.1⟩ ∧ km.2 = [.np ((zipRows cs).map (inSlice f vi.1))] := by
        intro vi km hvi hk
        cases hkk : mkSliceKey sl.name vi.1 with
        | error e => simp [hkk] at hk
        | ok k =>
          simp only [hkk, Except.ok.injEq] at hk
          subst hk
          refine ⟨(mkSliceKey_ok hkk).1, ?_⟩
          have hget : AList.get? bySlice vi.1 = some vi.2 :=
            AList.get?_eq_some_of_mem _ hnd (by cases vi; exact hvi)
          have : toMask (zipRows cs).length vi.2 = (zipRows cs).map (inSlice f vi.1) := by
            apply toMask_eq
            intro j
            have := m1 vi.1 j
            simp only [idxOf, hget, Option.getD_some, AList.get?, Option.getD_none, List.not_mem_nil,
              false_or, Nat.zero_add] at this
            rw [this]
            constructor
            · rintro ⟨t, r, ht, rfl, hs⟩; exact ⟨r, ht, hs⟩
            · rintro ⟨r, ht, hs⟩; exact ⟨j, r, ht, rfl, hs⟩
          rw [this]
      have hkeys : kms.map (·.1) = bySlice.map (fun vi => (⟨sl.name, vi.1⟩ : SliceKey)) := by
        clear hnd m1 m2 m3 hm
        induction bySlice generalizing kms with
        | nil => simp only [mapE] at h; cases h; rfl
        | cons vi rest ih =>
          obtain ⟨km, kms', hx, hxs, rfl⟩ := mapE_cons_ok h
          have := (hstep vi km List.mem_cons_self hx).1
          simp only [List.map_cons, this]
          rw [ih hxs (fun vi' km' hv => hstep vi' km' (List.mem_cons_of_mem _ hv))]
      refine ⟨?_, ?_, ?_⟩
      · rw [hkeys]
        have : bySlice.map (fun vi => (⟨sl.name, vi.1⟩ : SliceKey)) =
            (AList.keys bySlice).map (fun v => (⟨sl.name, v⟩ : SliceKey)) := by
          simp [AList.keys, List.map_map]
        rw [this, List.Nodup, List.pairwise_map]
        exact List.Pairwise.imp (fun hne e => hne (by injection e)) hnd
      · intro k
        rw [hkeys, List.mem_map]
        constructor
        · rintro ⟨vi, hvi, rfl⟩
          refine ⟨rfl, ?_⟩
          have : vi.1 ∈ AList.keys bySlice := List.mem_map.mpr ⟨vi, hvi, rfl⟩
          rw [m2] at this
          simp only [AList.keys, List.map_nil, List.not_mem_nil, false_or] at this
          unfold occursIn
          rw [List.any_eq_true]
          exact this
        · rintro ⟨hf, ho⟩
          unfold occursIn at ho
          rw [List.any_eq_true] at ho
          have : k.values ∈ AList.keys bySlice := by rw [m2]; exact Or.inr ho
          obtain ⟨vi, hvi, hv⟩ := List.mem_map.mp this
          refine ⟨vi, hvi, ?_⟩
          cases k
          simp only at hf hv
          rw [hf, hv]
      · intro km hkm
        obtain ⟨vi, hvi, hx⟩ := mapE_ok_mem_inv h hkm
        obtain ⟨h1, h2⟩ := hstep vi km hvi hx
        rw [h2, h1]

/-! ### `filterBits` / `replBits` against the group-by spec -/

theorem filterBits_map_eq_groupRows (f : List Val → Except ErrKind (List (List Int))) (v : List Int) :
    ∀ (feats : List (List Val)) (rows : List X),
      filterBits (feats.map (inSlice f v)) rows = groupRows f v feats rows := by
  intro feats
  induction feats with
  | nil => intro rows; cases rows <;> simp [filterBits, groupRows]
  | cons fr feats ih =>
    intro rows
    cases rows with
    | nil => simp [filterBits, groupRows]
    | cons r rows =>
      have := ih rows
      unfold groupRows at this ⊢
      simp only [List.map_cons, filterBits, List.zip_cons_cons, List.filter_cons]
      by_cases hp : inSlice f v fr = true
      · simp [hp, this]
      · simp [hp, this]

theorem replBits_map_eq_replaceRows (f : List Val → Except ErrKind (List (List Int))) (v : List Int)
    (rr : X → X) :
    ∀ (feats : List (List Val)) (rows : List X),
      replBits rr (feats.map (inSlice f v)) rows = replaceRows f v rr feats rows := by
  intro feats
  induction feats with
  | nil => intro rows; cases rows <;> simp [replBits, replaceRows]
  | cons fr feats ih =>
    intro rows
    cases rows with
    | nil => simp [replBits, replaceRows]
    | cons r rows =>
      have := ih rows
      unfold replaceRows at this ⊢
      simp only [List.map_cons, replBits, List.zip_cons_cons, this]

theorem groupRows_eq_nil_of_not_occurs (f : List Val → Except ErrKind (List (List Int))) (v : List Int)
    (feats : List (List Val)) (rows : List X) (h : occursIn f v feats = false) :
    groupRows f v feats rows = [] := by
  unfold groupRows
  rw [List.map_eq_nil_iff, List.filter_eq_nil_iff]
  intro p hp hin
  unfold occursIn at h
  have : feats.any (inSlice f v) = true := List.any_eq_true.mpr ⟨p.1, (List.of_mem_zip hp).1, hin⟩
  rw [h] at this; cases this

/-! ### `Agg.feed` -/

theorem Agg.feed_ok {a : Agg X S Rv} {ms : List TopMask} {repl : Option Scalar} {b : Batch} {rows : List X}
    (h : a.feed ms repl b = .ok rows) :
    ∃ args args', a.inputs b = .ok args ∧ applyMasks repl args ms = .ok args' ∧ a.dec args' = .ok rows := by
  unfold Agg.feed at h
  cases h1 : a.inputs b with
  | error e => simp [h1] at h
  | ok args =>
    simp only [h1] at h
    cases h2 : applyMasks repl args ms with
    | error e => simp [h2] at h
    | ok args' =>
      simp only [h2] at h
      cases h3 : a.dec args' with
      | error e => simp [h3] at h
      | ok rows' =>
        simp only [h3, Except.ok.injEq] at h
        subst h
        exact ⟨args, args', rfl, h2, h3⟩

theorem Agg.rowsOf_ok {a : Agg X S Rv} {b : Batch} {rows : List X} (h : a.rowsOf b = .ok rows) :
    ∃ args, a.inputs b = .ok args ∧ a.dec args = .ok rows := by
  obtain ⟨args, args', h1, h2, h3⟩ := Agg.feed_ok h
  simp only [applyMasks, Except.ok.injEq] at h2
  subst h2
  exact ⟨args, h1, h3⟩

theorem filter_fst_eq_of_nodup {α β : Type} [DecidableEq α] (k : α) :
    ∀ (l : List (α × β)), (l.map (·.1)).Nodup →
      l.filter (fun e => e.1 = k) = [] ∨ ∃ e ∈ l, e.1 = k ∧ l.filter (fun e => e.1 = k) = [e] := by
  intro l
  induction l with
  | nil => intro _; exact Or.inl rfl
  | cons e l ih =>
    intro h
    rw [List.map_cons, List.nodup_cons] at h
    by_cases he : e.1 = k
    · right
      refine ⟨e, List.mem_cons_self, he, ?_⟩
      have : l.filter (fun e' => decide (e'.1 = k)) = [] := by
        rw [List.filter_eq_nil_iff]
        intro e' he' hk
        have hk' := of_decide_eq_true hk
        exact h.1 (List.mem_map.mpr ⟨e', he', by rw [hk', he]⟩)
      simp [he, this]
    · rcases ih h.2 with h0 | ⟨e', he', hk, hf⟩
      · left; simp [he, h0]
      · right
        exact ⟨e', List.mem_cons_of_mem _ he', hk, by simp [he, hf]⟩

/-- **Row slicers, filter mode**: what one batch contributes to slice `(name, v)` is the group-by of
the batch: the selected rows whose feature row is in the slice. -/
theorem sliceRows_rowSlicer_filter {a : Agg X S Rv} (hdec : RowWise a.dec) {sl : Slicer}
    {f : List Val → Except ErrKind (List (List Int))} (hfn : sl.fn = .rows f) (hrep : sl.replace = none)
    {b : Batch} {rows fed : List X} (hrows : a.rowsOf b = .ok rows) (v : List Int)
    (h : sliceRows a sl ⟨sl.name, v⟩ b = .ok fed) :
    fed = groupRows f v (sl.featRows b) rows := by
  unfold sliceRows at h
  cases hs : sl.slice b with
  | error e => simp [hs] at h
  | ok kms =>
    simp only [hs] at h
    obtain ⟨hnd, hkeys, hmask⟩ := rowSlicer_slice hfn hs
    rcases filter_fst_eq_of_nodup (⟨sl.name, v⟩ : SliceKey) kms hnd with h0 | ⟨km, hkm, hk, hf⟩
    · rw [h0] at h
      simp only [mapE, List.flatten_nil, Except.ok.injEq] at h
      subst h
      have : occursIn f v (sl.featRows b) = false := by
        cases ho : occursIn f v (sl.featRows b) with
        | false => rfl
        | true =>
          have : (⟨sl.name, v⟩ : SliceKey) ∈ kms.map (·.1) := (hkeys _).mpr ⟨rfl, ho⟩
          obtain ⟨km, hkm, hk⟩ := List.mem_map.mp this
          have : km ∈ kms.filter (fun e => decide (e.1 = ⟨sl.name, v⟩)) :=
            List.mem_filter.mpr ⟨hkm, decide_eq_true hk⟩
          rw [h0] at this; cases this
      exact (groupRows_eq_nil_of_not_occurs f v _ rows this).symm
    · rw [hf] at h
      cases hfeed : a.feed km.2 sl.replace b with
      | error e => simp [mapE, hfeed] at h
      | ok rows' =>
        simp only [mapE, hfeed, List.flatten_cons, List.flatten_nil, List.append_nil,
          Except.ok.injEq] at h
        subst h
        rw [hmask km hkm, hk, hrep] at hfeed
        obtain ⟨args, args', h1, h2, h3⟩ := Agg.feed_ok hfeed
        obtain ⟨args0, g1, g2⟩ := Agg.rowsOf_ok hrows
        rw [h1] at g1; cases g1
        have := hdec args rows _ args' g2 h2
        rw [h3] at this
        cases this
        exact filterBits_map_eq_groupRows f v _ rows

/-- **Row slicers, replace mode**: a batch in which the slice value occurs contributes *all* its
selected rows, those outside the slice replaced; a batch in which it does not occur contributes nothing. -/
theorem sliceRows_rowSlicer_replace {a : Agg X S Rv} {r : Scalar} {rr : X → X} (hdec : RowWiseRepl a.dec r rr)
    {sl : Slicer} {f : List Val → Except ErrKind (List (List Int))} (hfn : sl.fn = .rows f)
    (hrep : sl.replace = some r)
    {b : Batch} {rows fed : List X} (hrows : a.rowsOf b = .ok rows) (v : List Int)
    (h : sliceRows a sl ⟨sl.name, v⟩ b = .ok fed) :
    fed = if occursIn f v (sl.featRows b) then replaceRows f v rr (sl.featRows b) rows else [] := by
  unfold sliceRows at h
  cases hs : sl.slice b with
  | error e => simp [hs] at h
  | ok kms =>
    simp only [hs] at h
    obtain ⟨hnd, hkeys, hmask⟩ := rowSlicer_slice hfn hs
    rcases filter_fst_eq_of_nodup (⟨sl.name, v⟩ : SliceKey) kms hnd with h0 | ⟨km, hkm, hk, hf⟩
    · rw [h0] at h
      simp only [mapE, List.flatten_nil, Except.ok.injEq] at h
      subst h
      have : occursIn f v (sl.featRows b) = false := by
        cases ho : occursIn f v (sl.featRows b) with
        | false => rfl
        | true =>
          have : (⟨sl.name, v⟩ : SliceKey) ∈ kms.map (·.1) := (hkeys _).mpr ⟨rfl, ho⟩
          obtain ⟨km, hkm, hk⟩ := List.mem_map.mp this
          have : km ∈ kms.filter (fun e => decide (e.1 = ⟨sl.name, v⟩)) :=
            List.mem_filter.mpr ⟨hkm, decide_eq_true hk⟩
          rw [h0] at this; cases this
      simp [this]
    · rw [hf] at h
      have hocc : occursIn f v (sl.featRows b) = true := by
        have : (⟨sl.name, v⟩ : SliceKey) ∈ kms.map (·.1) := List.mem_map.mpr ⟨km, hkm, hk⟩
        exact ((hkeys _).mp this).2
      cases hfeed : a.feed km.2 sl.replace b with
      | error e => simp [mapE, hfeed] at h
      | ok rows' =>
        simp only [mapE, hfeed, List.flatten_cons, List.flatten_nil, List.append_nil,
          Except.ok.injEq] at h
        subst h
        rw [hmask km hkm, hk, hrep] at hfeed
        obtain ⟨args, args', h1, h2, h3⟩ := Agg.feed_ok hfeed
        obtain ⟨args0, g1, g2⟩ := Agg.rowsOf_ok hrows
        rw [h1] at g1; cases g1
        have := hdec args rows _ args' g2 h2
        rw [h3] at this
        cases this
        simp only [hocc, if_true]
        exact replBits_map_eq_replaceRows f v rr _ rows

end MlModel.PipeAgg
