import MlModel.Lemmas.PrefetchDead
import MlModel.Lemmas.PrefetchStopInv
import MlModel.Lemmas.QueueCountView
/-!
# The no-lost-wake-up invariant of EVERY generator queue, for any number of concurrent requests

For every queue `k` the server has created, `viewK c k q` is the queue-level configuration seen by the invariant
`Queue.Live2` (= `Queue.Live`: J1 J2 K1 K2 + `Base`, plus the counting form `J1C` of J1): one slot per server
thread, which holds the thread's embedded `Queue.Thread` while the thread works on queue `k` —

* a `next_batch` request inside `get_batch` of queue `k` (it ENTERS when it reads `self._generator`, it LEAVES with
  the step that ends the call, possibly while other requests are parked on the same queue),
* a locked stop inside `maybe_stop` of queue `k` (enters when it takes the generator lock, leaves when the call returns),
* the prefetch thread of queue `k` from its `_start_enqueue` step on (for ever) —

and is inert otherwise.  `VInv` is inductive for every request list and every schedule (`vinv_reachable`): every step
of the server LTS is, on each view, nothing, a `Queue.step`, or one of the view changes of
`Lemmas/QueueCount.lean` / `QueueCountView.lean`.
-/
namespace MlModel.Prefetch
open MlModel.Queue (inertT Live2 NoCls pcKind ph TOK)
set_option linter.unusedVariables false
set_option linter.unusedSimpArgs false

/-- thread `t` works on queue `k` at queue level -/
def inView (k : Nat) (t : Thread) : Prop :=
  (t.g = k ∧ (t.pc = .nbGet ∨ t.pc = .lkStop)) ∨ (t.prog = .producer k ∧ t.qt.pc ≠ .sAcq)

instance (k : Nat) (t : Thread) : Decidable (inView k t) := by unfold inView; infer_instance

def slot (k : Nat) (t : Thread) : Queue.Thread := if inView k t then t.qt else inertT

/-- the queue-level configuration of the `k`-th queue -/
def viewK (c : Cfg) (k : Nat) (q : Queue.Shared) : Queue.Cfg := { sh := q, ths := c.ths.map (slot k) }

theorem slot_inert {k : Nat} {t : Thread} (h : ¬ inView k t) : slot k t = inertT := if_neg h
theorem slot_qt {k : Nat} {t : Thread} (h : inView k t) : slot k t = t.qt := if_pos h

structure VInv (c : Cfg) : Prop where
  /-- the no-lost-wake-up invariant of every queue -/
  live : ∀ (k : Nat) (q : Queue.Shared), c.sh.qs[k]? = some q → Live2 (viewK c k q) ∧ q.timeout = false
  /-- a prefetch thread that has not executed `_start_enqueue` has no `_stop_enqueue` arguments yet -/
  sa : ∀ (tid : Queue.Tid) (t : Thread) (k : Nat), c.ths[tid]? = some t → t.prog = .producer k → t.qt.pc = .sAcq →
    Queue.stopped t.qt = false
  /-- a prefetch thread that has ended has left `enqueue_from_iterator` -/
  pd : ∀ (tid : Queue.Tid) (t : Thread) (k : Nat), c.ths[tid]? = some t → t.prog = .producer k → t.pc = .done →
    t.qt.pc = .done ∧ t.qt.prog.kind = .producer
  /-- the join of a locked stop comes after `maybe_stop` -/
  jn : ∀ (tid : Queue.Tid) (t : Thread), c.ths[tid]? = some t → t.pc = .lkJoin →
    ∃ q, c.sh.qs[t.g]? = some q ∧ q.stopRequested = true
  /-- every queue has its prefetch thread, or the installing request is about to start it -/
  hasP : ∀ (k : Nat), k < c.sh.qs.length →
    (∃ (tp : Queue.Tid) (P : Thread), c.ths[tp]? = some P ∧ P.prog = .producer k) ∨
    (∃ (tid : Queue.Tid) (t : Thread), c.ths[tid]? = some t ∧ t.pc = .iiSpawn ∧ t.g = k)

/-! ### small facts about single steps -/

theorem step_prod_qt {c c' : Cfg} {tid : Queue.Tid} {lbl lbl0 : String} {t : Thread} {q q' : Queue.Shared}
    {qt' : Queue.Thread} (ht : c.ths[tid]? = some t) (hpc : t.pc = .prod) (hq : c.sh.qs[t.g]? = some q)
    (hst : Queue.stepThread q t.qt tid false = some (lbl0, q', qt')) (h : step c tid = some (lbl, c')) :
    ∃ t', c'.ths[tid]? = some t' ∧ t'.qt = qt' := by
  unfold step at h
  simp only [ht, hpc, hq, hst] at h
  split at h <;> simp only [Option.some.injEq, Prod.mk.injEq] at h <;> obtain ⟨-, rfl⟩ := h <;>
    exact ⟨_, getElem?_setTh ht _ _, rfl⟩

theorem step_nbGet_leave {c c' : Cfg} {tid : Queue.Tid} {lbl lbl0 : String} {t : Thread} {q q' : Queue.Shared}
    {qt' : Queue.Thread} (ht : c.ths[tid]? = some t) (hpc : t.pc = .nbGet) (hq : c.sh.qs[t.g]? = some q)
    (hst : Queue.stepThread q t.qt tid false = some (lbl0, q', qt')) (h : step c tid = some (lbl, c')) :
    ∃ t', c'.ths[tid]? = some t' ∧ (t'.pc = .nbTxA → qt'.pc = .bAcq ∨ qt'.pc = .done) := by
  unfold step at h
  simp only [ht, hpc, hq, hst] at h
  split at h <;> simp only [Option.some.injEq, Prod.mk.injEq] at h <;> obtain ⟨-, rfl⟩ := h
  · rename_i hd
    exact ⟨_, getElem?_setTh ht _ _, fun _ => by simpa using hd⟩
  · exact ⟨_, getElem?_setTh ht _ _, fun hh => by simp at hh⟩

theorem step_spawn_stopped {c c' : Cfg} {tid : Queue.Tid} {lbl : String} {t u : Thread}
    (ht : c.ths[tid]? = some t) (hpc : t.pc = .iiSpawn) (h : step c tid = some (lbl, c'))
    (hu : c'.ths[c.ths.length]? = some u) : Queue.stopped u.qt = false := by
  unfold step at h
  simp only [ht, hpc] at h
  cases hg : gen? t.prog with
  | none => simp [hg] at h
  | some g =>
    simp only [hg, Option.some.injEq, Prod.mk.injEq] at h
    obtain ⟨-, rfl⟩ := h
    rw [List.getElem?_append_right (by simp)] at hu
    simp only [List.length_set, Nat.sub_self, List.getElem?_cons_zero, Option.some.injEq] at hu
    subst hu
    rfl

/-- a queue-level step of a slot of a view -/
theorem view_step {q q' : Queue.Shared} {l : List Queue.Thread} {i : Queue.Tid} {a a' : Queue.Thread} {lbl : String}
    (hl : l[i]? = some a) (h : Queue.stepThread q a i false = some (lbl, q', a')) :
    Queue.step { sh := q, ths := l } i false = some (lbl, { sh := q', ths := l.set i a' }) := by
  simp [Queue.step, hl, h]

theorem xok_fresh_stopper {s : Queue.Shared} {t : Queue.Thread} (hpc : t.pc = .mAcq) : Queue.XOK s t := by
  unfold Queue.XOK Queue.armed
  simp [hpc]

theorem tl_mAcq {t : Queue.Thread} (hpc : t.pc = .mAcq) : Queue.TL t := by
  unfold Queue.TL; simp [hpc]

theorem not_inert_of_kind {t : Queue.Thread} {kd : Queue.PKind} (h : pcKind t.pc = some kd) : t ≠ inertT := by
  intro e; rw [e] at h; simp [inertT, pcKind] at h

/-! ### the views after one step -/

theorem vlive_step {c c' : Cfg} {tid : Queue.Tid} {lbl : String}
    (hG : GInv c) (hG' : GInv c') (hI : IInv c) (hU : UInv c) (hS : SInv c) (hS' : SInv c') (hV : VInv c)
    (h : step c tid = some (lbl, c')) :
    ∀ (k : Nat) (qk : Queue.Shared), c'.sh.qs[k]? = some qk → Live2 (viewK c' k qk) ∧ qk.timeout = false := by
  obtain ⟨t, ht⟩ := step_some_thread h
  obtain ⟨t', hk, hl⟩ := step_eff ht h
  have hself := hk.get_self ht
  have hq : QEff c c' tid t t' := by
    obtain ⟨t'', h1, h2⟩ := step_qeff ht h
    rw [hself] at h1
    cases h1
    exact h2
  have hprog : t'.prog = t.prog := hl.prog
  have hlt : tid < c.ths.length := (List.getElem?_eq_some_iff.mp ht).1
  have hshape := hS.shapeP tid t
  have hshape' := hS'.shapeP tid t'
  -- the thread list of the new configuration
  have hthsC : (c'.ths = c.ths.set tid t') ∨
      (∃ p, c'.ths = c.ths.set tid t' ++ [p] ∧ p.pc = .start ∧ p.qt.pc = .sAcq ∧ t.pc = .iiSpawn) := by
    cases hk with
    | plain hths => exact Or.inl hths
    | install hths => exact Or.inl hths
    | spawn p hths _ _ _ h1 _ _ hpc hqt => exact Or.inr ⟨p, hths, hpc, hqt, h1⟩
  have hfin : ∀ (k : Nat) (q : Queue.Shared),
      Live2 { sh := q, ths := (c.ths.map (slot k)).set tid (slot k t') } → Live2 (viewK c' k q) := by
    intro k q hv
    rcases hthsC with hths | ⟨p, hths, hp1, hp2, -⟩
    · unfold viewK; rw [hths, List.map_set]; exact hv
    · have hsp : slot k p = inertT := slot_inert (by unfold inView; simp [hp1, hp2])
      have := Queue.live2_append_inert hv
      unfold viewK; rw [hths, List.map_append, List.map_set]
      simpa [hsp] using this
  have hold : ∀ (k : Nat), (c.ths.map (slot k))[tid]? = some (slot k t) := by
    intro k; simp [ht]
  -- a fresh queue: every slot is inert
  have hfreshV : ∀ (k : Nat) (qk : Queue.Shared), k = c.sh.qs.length → qk = freshQueue c.sh.prefetch →
      c'.sh.qs[k]? = some qk → Live2 (viewK c' k qk) ∧ qk.timeout = false := by
    intro k qk hk1 hk2 hqk
    subst hk2
    refine ⟨?_, rfl⟩
    unfold viewK freshQueue
    apply Queue.live2_fresh
    intro x hx
    obtain ⟨u, hu, rfl⟩ := List.mem_map.mp hx
    obtain ⟨j, hj⟩ := List.getElem?_of_mem hu
    apply slot_inert
    have hkl : k < c'.sh.qs.length := (List.getElem?_eq_some_iff.mp hqk).1
    rcases hk.get_inv ht hj with ⟨-, hut⟩ | ⟨hjn, hu0⟩ | ⟨-, -, h3, -, -, h6⟩
    · -- the stepping thread: it has just installed the queue
      rw [hut]
      have hpc' : t'.pc = .iiSpawn := by
        cases hk with
        | plain _ _ _ hlen => omega
        | install _ _ _ _ _ _ _ h2 => exact h2
        | spawn _ _ _ _ hlen => omega
      rintro (⟨-, h1 | h1⟩ | ⟨h1, -⟩)
      · rw [hpc'] at h1; cases h1
      · rw [hpc'] at h1; cases h1
      · rw [hprog] at h1
        have := hI.prodG tid t k ht h1
        omega
    · rintro (⟨h0, h1⟩ | ⟨h1, -⟩)
      · have hemb := (hG.ths j u hu0).emb
        have : (c.sh.qs[u.g]?).isSome = true := by
          rcases h1 with h1 | h1 <;> simp only [EmbOK, h1] at hemb <;> obtain ⟨q0, hq0, -⟩ := hemb <;> simp [hq0]
        rw [h0, hk1] at this
        simp at this
      · have := hI.prodG j u k hu0 h1
        omega
    · unfold inView; simp [h3, h6]
  -- a thread outside `get_batch` / `maybe_stop` / `enqueue_from_iterator` is in no view
  have hout : t.pc ≠ .lkStop → t.pc ≠ .nbGet → t.pc ≠ .prod → t.pc ≠ .done → ∀ k, ¬ inView k t := by
    intro h1 h2 h3 h4 k
    rintro (⟨-, h5 | h5⟩ | ⟨h5, h6⟩)
    · exact h2 h5
    · exact h1 h5
    · rcases hshape k ht h5 with ⟨-, h7⟩ | ⟨h7, -⟩ | h7
      · exact h6 h7
      · exact h3 h7
      · exact h4 h7
  cases hq with
  | none hqs hnew hpc hprod hstop hget hstart hjoin hstartP =>
    obtain ⟨hp1, hp2, hp3, hp4⟩ := hpc
    intro k qk hqk
    rcases hnew k qk hqk with hq0 | ⟨hk1, hk2⟩
    · obtain ⟨hv, hto⟩ := hV.live k qk hq0
      refine ⟨hfin k qk ?_, hto⟩
      have hst0 : slot k t = inertT := slot_inert (hout hp1 hp2 hp3 hp4 k)
      have hold' := hold k
      rw [hst0] at hold'
      by_cases hin : inView k t'
      · rw [slot_qt hin]
        rcases hin with ⟨hg, h1 | h1⟩ | ⟨h1, h2⟩
        · -- a `next_batch` request enters
          have hemb := (hG'.ths tid t' hself).emb
          simp only [EmbOK, h1] at hemb
          obtain ⟨q0, -, ⟨n, b, hpr⟩, htok, -⟩ := hemb
          have hqc : Queue.QuietC t'.qt := ⟨by rw [hpr]; rfl, Or.inl (hget h1)⟩
          exact Queue.live2_replace hv hold' Queue.nocls_inert (Queue.nocls_quiet hqc) htok hqc.tl
            (hqc.xok (fun hd => by rw [hget h1] at hd; cases hd))
        · -- a locked stop enters
          have hemb := (hG'.ths tid t' hself).emb
          simp only [EmbOK, h1] at hemb
          obtain ⟨q0, -, ⟨e, hpr⟩, htok⟩ := hemb
          have hm := hstop h1
          exact Queue.live2_replace hv hold' Queue.nocls_inert
            (Queue.nocls_stopper (by rw [hpr]; rfl) (Or.inl hm)) htok (tl_mAcq hm) (xok_fresh_stopper hm)
        · -- a prefetch thread outside `enqueue_from_iterator` has not executed `_start_enqueue`
          exfalso
          have hpk : t.prog = .producer k := by rw [← hprog]; exact h1
          rcases hshape k ht hpk with ⟨a, b⟩ | ⟨a, -⟩ | a
          · have hp' := hstartP a k hpk
            obtain ⟨-, e, -⟩ := hprod hp'
            rw [e, b] at h2; exact h2 rfl
          · exact hp3 a
          · exact hp4 a
      · rw [slot_inert hin]
        exact Queue.live2_replace hv hold' Queue.nocls_inert Queue.nocls_inert Queue.inert_tok Queue.inert_tl
          (Queue.inert_xok _)
    · exact hfreshV k qk hk1 hk2 hqk
  | op q q' qt' lbl0 hq0 hst hq' hqs hnew hpc hprod hget hstop =>
    have hglt : t.g < c.sh.qs.length := (List.getElem?_eq_some_iff.mp hq0).1
    -- no thread is created by a queue-level step
    have hths : c'.ths = c.ths.set tid t' := by
      rcases hthsC with h1 | ⟨p, -, -, -, h4⟩
      · exact h1
      · rcases hpc with h5 | h5 | h5 <;> rw [h4] at h5 <;> cases h5
    have hfin' : ∀ (k : Nat) (q : Queue.Shared),
        Live2 { sh := q, ths := (c.ths.map (slot k)).set tid (slot k t') } → Live2 (viewK c' k q) := by
      intro k q hv
      unfold viewK; rw [hths, List.map_set]; exact hv
    have hemb := (hG.ths tid t ht).emb
    intro k qk hqk
    by_cases hkg : k = t.g
    · subst hkg
      rw [hq'] at hqk
      obtain rfl := Option.some.inj hqk
      obtain ⟨hv, hto⟩ := hV.live t.g q hq0
      have hto' : q'.timeout = false := by
        rw [(Queue.stepThread_const lbl0 q' qt' hst).1]; exact hto
      refine ⟨hfin' t.g q' ?_, hto'⟩
      have hold' := hold t.g
      rcases hpc with hpc | hpc | hpc
      · ----------------------------------------------------------------- a step of `maybe_stop`
        simp only [EmbOK, hpc] at hemb
        obtain ⟨q1, -, ⟨e, hpr⟩, htok⟩ := hemb
        have hin : inView t.g t := Or.inl ⟨rfl, Or.inr hpc⟩
        rw [slot_qt hin] at hold'
        have hv' := Queue.live2_step hto hv (view_step hold' hst)
        have hnp : ∀ k, t'.prog ≠ .producer k := by
          intro k hp
          rw [hprog] at hp
          rcases hshape k ht hp with ⟨a, -⟩ | ⟨a, -⟩ | a <;> rw [hpc] at a <;> cases a
        rcases hstop hpc with ⟨a, b, d, e'⟩ | ⟨a, b, -⟩
        · have hin' : inView t.g t' := Or.inl ⟨d, Or.inr a⟩
          rw [slot_qt hin', b]; exact hv'
        · -- `maybe_stop` has returned: the request leaves the queue
          have hnin : ¬ inView t.g t' := by
            rintro (⟨-, h1 | h1⟩ | ⟨h1, -⟩)
            · rcases b with b | b | b <;> rw [b] at h1 <;> cases h1
            · rcases b with b | b | b <;> rw [b] at h1 <;> cases h1
            · exact hnp _ h1
          rw [slot_inert hnin]
          have hkd : qt'.prog.kind = .stopper := by
            rw [(Queue.stepThread_data lbl0 q' qt' hst htok).2.1, hpr]; rfl
          have := Queue.live2_replace (i := tid) (t' := inertT) hv'
            (by simp [List.getElem?_set_self, hlt]) (Queue.nocls_stopper hkd (Or.inr a))
            Queue.nocls_inert Queue.inert_tok Queue.inert_tl (Queue.inert_xok _)
          simpa [List.set_set] using this
      · ----------------------------------------------------------------- a step of `get_batch`
        simp only [EmbOK, hpc] at hemb
        obtain ⟨q1, -, ⟨n, b0, hpr⟩, htok, -⟩ := hemb
        have hin : inView t.g t := Or.inl ⟨rfl, Or.inl hpc⟩
        rw [slot_qt hin] at hold'
        have hv' := Queue.live2_step hto hv (view_step hold' hst)
        have hnp : ∀ k, t'.prog ≠ .producer k := by
          intro k hp
          rw [hprog] at hp
          rcases hshape k ht hp with ⟨a, -⟩ | ⟨a, -⟩ | a <;> rw [hpc] at a <;> cases a
        rcases hget hpc with ⟨a, b, d, e'⟩ | a
        · have hin' : inView t.g t' := Or.inl ⟨d, Or.inl a⟩
          rw [slot_qt hin', b]; exact hv'
        · -- `get_batch` has returned (or raised): the request leaves the queue
          have hnin : ¬ inView t.g t' := by
            rintro (⟨-, h1 | h1⟩ | ⟨h1, -⟩)
            · rw [a] at h1; cases h1
            · rw [a] at h1; cases h1
            · exact hnp _ h1
          rw [slot_inert hnin]
          obtain ⟨t'', h1, h2⟩ := step_nbGet_leave ht hpc hq0 hst h
          rw [hself] at h1; cases h1
          have hqc : Queue.QuietC qt' :=
            ⟨by rw [(Queue.stepThread_data lbl0 q' qt' hst htok).2.1, hpr]; rfl, h2 a⟩
          have := Queue.live2_replace (i := tid) (t' := inertT) hv'
            (by simp [List.getElem?_set_self, hlt]) (Queue.nocls_quiet hqc)
            Queue.nocls_inert Queue.inert_tok Queue.inert_tl (Queue.inert_xok _)
          simpa [List.set_set] using this
      · ----------------------------------------------------------------- a step of `enqueue_from_iterator`
        simp only [EmbOK, hpc] at hemb
        obtain ⟨q1, -, hprP, ⟨src, r, hpr⟩, htok, -⟩ := hemb
        obtain ⟨t'', h1, hqt'⟩ := step_prod_qt ht hpc hq0 hst h
        rw [hself] at h1; cases h1
        have hprP' : t'.prog = .producer t.g := by rw [hprog]; exact hprP
        have hkind : pcKind t.qt.pc = some .producer := by
          rcases hshape t.g ht hprP with ⟨a, -⟩ | ⟨-, -, a⟩ | a
          · rw [hpc] at a; cases a
          · exact a
          · rw [hpc] at a; cases a
        have hns : t.qt.pc ≠ .start := by intro h0; rw [h0] at hkind; cases hkind
        obtain ⟨-, -, -, p0, p1, p2⟩ := (Queue.stepThread_stop lbl0 q' qt' hst hns).2.1 hkind
        have hne' : qt'.pc ≠ .sAcq := by
          intro hh
          have h0 : ph qt'.pc = 0 := by rw [hh]; rfl
          rcases ph_cases t.qt.pc with h6 | h6 | h6
          · rw [(p0 h6).1] at h0; cases h0
          · rcases p1 h6 with h7 | ⟨h7, -⟩ <;> rw [h7] at h0 <;> cases h0
          · rw [p2 h6] at h0; cases h0
        have hin' : inView t.g t' := Or.inr ⟨hprP', by rw [hqt']; exact hne'⟩
        rw [slot_qt hin', hqt']
        by_cases hs : t.qt.pc = .sAcq
        · -- `_start_enqueue`: the prefetch thread takes the place of its inert slot
          have hnin : ¬ inView t.g t := by
            rintro (⟨-, h1 | h1⟩ | ⟨-, h1⟩)
            · rw [hpc] at h1; cases h1
            · rw [hpc] at h1; cases h1
            · exact h1 hs
          rw [slot_inert hnin] at hold'
          refine Queue.live2_spawn_set hv hold' hs (by rw [hpr]; rfl) htok (hV.sa tid t t.g ht hprP hs) ?_ hst
          cases hsr : q.stopRequested with
          | true => exact Or.inl hsr
          | false =>
            right
            obtain ⟨z1, z2, z3, z4⟩ := (hS.num t.g q hq0 hsr).1 (fun j P0 hP0 hpP0 => by
              obtain rfl := hU.uniq j tid P0 t t.g hP0 ht hpP0 hprP
              rw [ht] at hP0; rw [← Option.some.inj hP0]
              exact Or.inr ⟨hpc, by rw [hs]; rfl⟩)
            exact ⟨z3, z1, z2, z4, hsr⟩
        · have hin : inView t.g t := Or.inr ⟨hprP, hs⟩
          rw [slot_qt hin] at hold'
          exact Queue.live2_step hto hv (view_step hold' hst)
    · ------------------------------------------------------------------- the other queues
      have hnt : ¬ inView k t := by
        rintro (⟨h1, -⟩ | ⟨h1, -⟩)
        · exact hkg h1.symm
        · rcases hshape k ht h1 with ⟨a, -⟩ | ⟨-, a, -⟩ | a
          · rcases hpc with h5 | h5 | h5 <;> rw [a] at h5 <;> cases h5
          · exact hkg a.symm
          · rcases hpc with h5 | h5 | h5 <;> rw [a] at h5 <;> cases h5
      rcases hnew k qk hkg hqk with hq1 | ⟨hk1, hk2⟩
      · obtain ⟨hv, hto⟩ := hV.live k qk hq1
        refine ⟨hfin' k qk ?_, hto⟩
        have hold' := hold k
        rw [slot_inert hnt] at hold'
        have hnt' : ¬ inView k t' := by
          rintro (⟨h1, h2⟩ | ⟨h1, -⟩)
          · -- still inside the same queue-level call, on queue `t.g`
            have hg' : t'.g = t.g := by
              rcases hpc with h5 | h5 | h5
              · rcases hstop h5 with ⟨-, -, d, -⟩ | ⟨-, b, -⟩
                · exact d
                · rcases h2 with h2 | h2 <;> rcases b with b | b | b <;> rw [b] at h2 <;> cases h2
              · rcases hget h5 with ⟨-, -, d, -⟩ | a
                · exact d
                · rcases h2 with h2 | h2 <;> rw [a] at h2 <;> cases h2
              · rcases hprod h5 with ⟨a, -⟩ | ⟨a, -⟩ <;> rcases h2 with h2 | h2 <;> rw [a] at h2 <;> cases h2
            exact hkg (by rw [← h1, hg'])
          · rw [hprog] at h1
            rcases hshape k ht h1 with ⟨a, -⟩ | ⟨-, a, -⟩ | a
            · rcases hpc with h5 | h5 | h5 <;> rw [a] at h5 <;> cases h5
            · exact hkg a.symm
            · rcases hpc with h5 | h5 | h5 <;> rw [a] at h5 <;> cases h5
        rw [slot_inert hnt']
        exact Queue.live2_replace hv hold' Queue.nocls_inert Queue.nocls_inert Queue.inert_tok Queue.inert_tl
          (Queue.inert_xok _)
      · exact hfreshV k qk hk1 hk2 hqk

/-! ### the other clauses -/

/-- only the end of `maybe_stop` leads into the join -/
theorem step_not_join {c c' : Cfg} {tid : Queue.Tid} {lbl : String} {t : Thread}
    (ht : c.ths[tid]? = some t) (h : step c tid = some (lbl, c')) (hpc : t.pc = .lkJoin ∨ t.pc = .lkAcq) :
    ∀ t', c'.ths[tid]? = some t' → t'.pc ≠ .lkJoin := by
  unfold step at h
  simp only [ht] at h
  rcases hpc with hpc | hpc <;> simp only [hpc] at h
  · cases he : c.sh.enqThread with
    | none => simp [he] at h
    | some p =>
      simp only [he] at h
      cases hp : c.ths[p]? with
      | none => simp [hp] at h
      | some tp =>
        simp only [hp, afterStop, install, failInit] at h
        cases hprog : t.prog <;> simp only [hprog] at h <;> qeff_split <;>
          (intro t' ht'; rw [getElem?_setTh ht] at ht'; cases ht'; simp)
  · simp only [beginStop, install, failInit] at h
    cases hprog : t.prog <;> simp only [hprog] at h <;> qeff_split <;>
      (intro t' ht'; rw [getElem?_setTh ht] at ht'; cases ht'; simp_all)

theorem vinv_init (p : Nat) (progs : List Prog) (hreq : Requests progs) : VInv (init p progs) := by
  have hstart : ∀ (tid : Queue.Tid) (t : Thread), (init p progs).ths[tid]? = some t →
      t.pc = .start ∧ ∀ k, t.prog ≠ .producer k := by
    intro tid t ht
    cases tid with
    | zero =>
      simp only [init, List.getElem?_cons_zero, Option.some.injEq] at ht; subst ht
      exact ⟨rfl, by intro k hk; cases hk⟩
    | succ n =>
      simp only [init, List.getElem?_cons_succ, List.getElem?_map, Option.map_eq_some_iff] at ht
      obtain ⟨p0, hp0, rfl⟩ := ht
      exact ⟨rfl, hreq p0 (List.mem_of_getElem? hp0)⟩
  refine ⟨?_, ?_, ?_, ?_, ?_⟩
  · intro k q hq; simp [init] at hq
  · intro tid t k ht hp; exact absurd hp ((hstart tid t ht).2 k)
  · intro tid t k ht hp; exact absurd hp ((hstart tid t ht).2 k)
  · intro tid t ht hpc; rw [(hstart tid t ht).1] at hpc; cases hpc
  · intro k hk; simp [init] at hk

theorem vinv_step {c c' : Cfg} {tid : Queue.Tid} {lbl : String}
    (hG : GInv c) (hG' : GInv c') (hI : IInv c) (hU : UInv c) (hS : SInv c) (hS' : SInv c') (hV : VInv c)
    (h : step c tid = some (lbl, c')) : VInv c' := by
  refine ⟨vlive_step hG hG' hI hU hS hS' hV h, ?_, ?_, ?_, ?_⟩
  all_goals
    obtain ⟨t, ht⟩ := step_some_thread h
    obtain ⟨t', hk, hl⟩ := step_eff ht h
    have hself := hk.get_self ht
    have hq : QEff c c' tid t t' := by
      obtain ⟨t'', h1, h2⟩ := step_qeff ht h
      rw [hself] at h1
      cases h1
      exact h2
    have hprog : t'.prog = t.prog := hl.prog
    have hshape := hS.shapeP tid t
  · -- sa
    intro j u k hu hp hsa
    rcases hk.get_inv ht hu with ⟨-, rfl⟩ | ⟨-, hu0⟩ | ⟨hj, -, -, h3, -⟩
    · rw [hprog] at hp
      cases hq with
      | none hqs hnew hpc hprod hstop hget hstart hjoin hstartP =>
        rcases hshape k ht hp with ⟨a, b⟩ | ⟨a, -⟩ | a
        · obtain ⟨-, e, -⟩ := hprod (hstartP a k hp)
          rw [e]; exact hV.sa tid t k ht hp b
        · exact absurd a hpc.2.2.1
        · exact absurd a hpc.2.2.2
      | op q q' qt' lbl0 hq0 hst hq' hqs hnew hpc hprod hget hstop =>
        exfalso
        have hpc' : t.pc = .prod := by
          rcases hshape k ht hp with ⟨a, -⟩ | ⟨a, -⟩ | a
          · rcases hpc with h5 | h5 | h5 <;> rw [a] at h5 <;> cases h5
          · exact a
          · rcases hpc with h5 | h5 | h5 <;> rw [a] at h5 <;> cases h5
        obtain ⟨t'', h1, hqt'⟩ := step_prod_qt ht hpc' hq0 hst h
        rw [hself] at h1; cases h1
        have hkind : pcKind t.qt.pc = some .producer := by
          rcases hshape k ht hp with ⟨a, -⟩ | ⟨-, -, a⟩ | a
          · rw [hpc'] at a; cases a
          · exact a
          · rw [hpc'] at a; cases a
        have hns : t.qt.pc ≠ .start := by intro h0; rw [h0] at hkind; cases hkind
        obtain ⟨-, -, -, p0, p1, p2⟩ := (Queue.stepThread_stop lbl0 q' qt' hst hns).2.1 hkind
        rw [hqt'] at hsa
        have h0 : ph qt'.pc = 0 := by rw [hsa]; rfl
        rcases ph_cases t.qt.pc with h6 | h6 | h6
        · rw [(p0 h6).1] at h0; cases h0
        · rcases p1 h6 with h7 | ⟨h7, -⟩ <;> rw [h7] at h0 <;> cases h0
        · rw [p2 h6] at h0; cases h0
    · exact hV.sa j u k hu0 hp hsa
    · rw [hj] at hu
      exact step_spawn_stopped ht h3 h hu
  · -- pd
    intro j u k hu hp hd
    rcases hk.get_inv ht hu with ⟨-, rfl⟩ | ⟨-, hu0⟩ | ⟨-, -, h2, -⟩
    · rw [hprog] at hp
      cases hq with
      | none hqs hnew hpc hprod hstop hget hstart hjoin hstartP =>
        exfalso
        rcases hshape k ht hp with ⟨a, b⟩ | ⟨a, -⟩ | a
        · rw [hstartP a k hp] at hd; cases hd
        · exact hpc.2.2.1 a
        · exact hpc.2.2.2 a
      | op q q' qt' lbl0 hq0 hst hq' hqs hnew hpc hprod hget hstop =>
        have hpc' : t.pc = .prod := by
          rcases hshape k ht hp with ⟨a, -⟩ | ⟨a, -⟩ | a
          · rcases hpc with h5 | h5 | h5 <;> rw [a] at h5 <;> cases h5
          · exact a
          · rcases hpc with h5 | h5 | h5 <;> rw [a] at h5 <;> cases h5
        obtain ⟨t'', h1, hqt'⟩ := step_prod_qt ht hpc' hq0 hst h
        rw [hself] at h1; cases h1
        rcases hprod hpc' with ⟨a, -⟩ | ⟨-, a⟩
        · rw [a] at hd; cases hd
        · have hemb := (hG.ths tid t ht).emb
          simp only [EmbOK, hpc'] at hemb
          obtain ⟨q1, -, -, ⟨src, r, hpr⟩, htok, -⟩ := hemb
          rw [hqt']
          exact ⟨a, by rw [(Queue.stepThread_data lbl0 q' qt' hst htok).2.1, hpr]; rfl⟩
    · exact hV.pd j u k hu0 hp hd
    · rw [h2] at hd; cases hd
  · -- jn
    intro j u hu hpcu
    -- the queues an old thread refers to keep a requested stop
    have hkeep : ∀ (g : Nat) (q0 : Queue.Shared), c.sh.qs[g]? = some q0 → q0.stopRequested = true →
        ∃ q1, c'.sh.qs[g]? = some q1 ∧ q1.stopRequested = true := by
      intro g q0 hq0 hs0
      cases hq with
      | none hqs => exact ⟨q0, hqs g q0 hq0, hs0⟩
      | op q q' qt' lbl0 hq1 hst hq' hqs =>
        by_cases hg : g = t.g
        · subst hg
          rw [hq1] at hq0; obtain rfl := Option.some.inj hq0
          exact ⟨q', hq', (Queue.stepThread_fault lbl0 q' qt' hst).2.1 hs0⟩
        · exact ⟨q0, hqs g q0 hg hq0, hs0⟩
    rcases hk.get_inv ht hu with ⟨-, rfl⟩ | ⟨-, hu0⟩ | ⟨-, -, h2, -⟩
    · cases hk with
      | install _ _ _ _ _ _ _ h2 => rw [h2] at hpcu; cases hpcu
      | spawn _ _ _ _ _ _ h2 => rw [h2] at hpcu; cases hpcu
      | plain hths hgen henq hlen h1 h2 hstopK =>
        rcases hstopK (Or.inr hpcu) with ⟨hp0 | hp0, hg0⟩ | ⟨hp0, -⟩
        · -- `maybe_stop` has just returned
          cases hq with
          | none hqs hnew hpc => exact absurd hp0 hpc.1
          | op q q' qt' lbl0 hq0 hst hq' hqs hnew hpc hprod hget hstop =>
            obtain ⟨hkind, hsr0⟩ := hS.shapeS tid t ht hp0
            have hns : t.qt.pc ≠ .start := by intro h0; rw [h0] at hkind; cases hkind
            obtain ⟨hm1, hm2, -⟩ := (Queue.stepThread_stop lbl0 q' qt' hst hns).2.2 hkind
            refine ⟨q', by rw [hg0]; exact hq', ?_⟩
            by_cases hm : t.qt.pc = .mAcq
            · exact hm1 hm
            · rw [hm2 hm]
              obtain ⟨q0, hq00, hs0⟩ := hsr0 hm
              rw [hq0] at hq00; rw [Option.some.inj hq00]; exact hs0
        · exact absurd hpcu (step_not_join ht h (Or.inl hp0) _ hself)
        · exact absurd hpcu (step_not_join ht h (Or.inr hp0) _ hself)
    · obtain ⟨q0, hq0, hs0⟩ := hV.jn j u hu0 hpcu
      exact hkeep u.g q0 hq0 hs0
    · rw [h2] at hpcu; cases hpcu
  · -- hasP
    intro k hkl
    have hfwd : ∀ (j : Queue.Tid) (u : Thread), c.ths[j]? = some u → ∃ u', c'.ths[j]? = some u' ∧ u'.prog = u.prog := by
      intro j u hu
      by_cases hj : j = tid
      · subst hj; rw [ht] at hu; obtain rfl := Option.some.inj hu; exact ⟨t', hself, hprog⟩
      · exact ⟨u, hk.get_other hj hu, rfl⟩
    have hold : k < c.sh.qs.length → t.pc ≠ .iiSpawn →
        (∃ (tp : Queue.Tid) (P : Thread), c'.ths[tp]? = some P ∧ P.prog = .producer k) ∨
        (∃ (j : Queue.Tid) (u : Thread), c'.ths[j]? = some u ∧ u.pc = .iiSpawn ∧ u.g = k) := by
      intro hk0 hne
      rcases hV.hasP k hk0 with ⟨tp, P, hP, hpP⟩ | ⟨j, u, hu, hpu, hgu⟩
      · obtain ⟨P', hP', hpP'⟩ := hfwd tp P hP
        exact Or.inl ⟨tp, P', hP', by rw [hpP']; exact hpP⟩
      · have hj : j ≠ tid := by
          rintro rfl; rw [ht] at hu; rw [← Option.some.inj hu] at hpu; exact hne hpu
        exact Or.inr ⟨j, u, hk.get_other hj hu, hpu, hgu⟩
    cases hk with
    | plain hths hgen henq hlen h1 h2 hstopK => exact hold (by omega) h1
    | install hths hgen henq hlen hfresh hg h1 h2 hprog' =>
      by_cases hk0 : k < c.sh.qs.length
      · exact hold hk0 h1
      · exact Or.inr ⟨tid, t', hself, h2, by omega⟩
    | spawn p hths hgen henq hlen h1 h2 hp hpc hqt =>
      have hnew : c'.ths[c.ths.length]? = some p := by
        rw [hths, List.getElem?_append_right (by simp)]; simp
      rcases hV.hasP k (by omega) with ⟨tp, P, hP, hpP⟩ | ⟨j, u, hu, hpu, hgu⟩
      · obtain ⟨P', hP', hpP'⟩ := hfwd tp P hP
        exact Or.inl ⟨tp, P', hP', by rw [hpP']; exact hpP⟩
      · by_cases hj : j = tid
        · subst hj
          rw [ht] at hu; obtain rfl := Option.some.inj hu
          exact Or.inl ⟨c.ths.length, p, hnew, by rw [hp, hgu]⟩
        · exact Or.inr ⟨j, u, (Kind.spawn p hths hgen henq hlen h1 h2 hp hpc hqt).get_other hj hu, hpu, hgu⟩

theorem vinv_reachable {p : Nat} {progs : List Prog} {c : Cfg} (hreq : Requests progs)
    (h : Reachable (init p progs) c) : VInv c := by
  induction h with
  | init => exact vinv_init p progs hreq
  | step hr hs ih =>
    have hr' := Reachable.step hr hs
    exact vinv_step (ginv_reachable hreq hr) (ginv_reachable hreq hr') (iinv_reachable hreq hr)
      (uinv_reachable hreq hr) (sinv_reachable hreq hr) (sinv_reachable hreq hr') ih hs

end MlModel.Prefetch
