import MlModel.Lemmas.RemoteIter
/-! Requests served by distinct stateful objects commute (store frame lemma). -/
namespace MlModel.Remote
open MlModel MlModel.Lazy
set_option linter.unusedSimpArgs false
set_option linter.unusedVariables false

def SObj.isAlias : SObj → Bool
  | .alias _ => true
  | _ => false

/-- the store cell a request works on (`none`: the request is not served by one stateful object) -/
def cellOf (os : Store) : Prog → Option Nat
  | .next id => some (resolve os id)
  | .qget id => some id
  | .qbatch id => some id
  | _ => none

/-- `p` is served by the object in cell `t`, which is of the kind `p` expects -/
def Served (srv : Srv) (p : Prog) (t : Nat) : Prop :=
  cellOf srv.objs p = some t ∧
  match p with
  | .next _ => ∃ g, sGet srv.objs t = some (.iter g)
  | .qget _ => ∃ q, sGet srv.objs t = some (.queue q)
  | .qbatch _ => ∃ q, sGet srv.objs t = some (.queue q)
  | _ => False

theorem served_nonalias {srv : Srv} {p : Prog} {t : Nat} (h : Served srv p t) :
    ∃ o, sGet srv.objs t = some o ∧ o.isAlias = false := by
  obtain ⟨_, h2⟩ := h
  cases p <;> simp only at h2 <;> first
    | exact absurd h2 id
    | (obtain ⟨g, hg⟩ := h2; exact ⟨_, hg, rfl⟩)

/-- replacing a non-alias object by a non-alias object does not change what any handle id denotes -/
theorem resolve_sSet_nonalias (os : Store) (t id : Nat) (o o' : SObj) (h : sGet os t = some o)
    (ho : o.isAlias = false) (ho' : o'.isAlias = false) : resolve (sSet os t o') id = resolve os id := by
  unfold resolve
  by_cases hid : t = id
  · subst hid
    rw [sGet_sSet_same os t _ _ h, h]
    cases o <;> cases o' <;> simp_all [SObj.isAlias]
  · rw [sGet_sSet_other os t id _ hid]

theorem cellOf_sSet (os : Store) (t : Nat) (o o' : SObj) (h : sGet os t = some o)
    (ho : o.isAlias = false) (ho' : o'.isAlias = false) (p : Prog) :
    cellOf (sSet os t o') p = cellOf os p := by
  cases p <;> simp only [cellOf]
  rw [resolve_sSet_nonalias os t _ o o' h ho ho']

/-- A served request is a function of the object in its cell only: it answers from that object and
writes back a (non-alias) object into the same cell — in every state that agrees on that cell. -/
theorem served_run {srv : Srv} {p : Prog} {t : Nat} (h : Served srv p t) :
    ∃ (out : Outcome) (o' : SObj), o'.isAlias = false ∧
      ∀ srv2 : Srv, srv2.maxBatch = srv.maxBatch → cellOf srv2.objs p = some t →
        sGet srv2.objs t = sGet srv.objs t →
        run p srv2 = (out, { srv2 with objs := sSet srv2.objs t o' }) := by
  obtain ⟨hc, h2⟩ := h
  cases p with
  | next id =>
    obtain ⟨g, hg⟩ := h2
    refine ⟨(genNext g).1.map .plain, .iter (genNext g).2, rfl, ?_⟩
    intro srv2 _ hc2 hs2
    simp only [cellOf, Option.some.injEq] at hc2
    simp only [run, runNext, hc2, hs2, hg]
  | qget id =>
    obtain ⟨q, hq⟩ := h2
    simp only [cellOf, Option.some.injEq] at hc
    subst hc
    refine ⟨(qGet q).1.map .plain, .queue (qGet q).2, rfl, ?_⟩
    intro srv2 _ _ hs2
    simp only [run, runQGet, hs2, hq]
  | qbatch id =>
    obtain ⟨q, hq⟩ := h2
    simp only [cellOf, Option.some.injEq] at hc
    subst hc
    refine ⟨(qGetBatch srv.maxBatch q).1.map .list, .queue (qGetBatch srv.maxBatch q).2, rfl, ?_⟩
    intro srv2 hm _ hs2
    simp only [run, runQBatch, hs2, hq, hm]
  | _ => exact absurd h2 id

/-- **Frame / commutation.**  Two requests served by distinct objects: each answers what it answers
alone, and the two orders end in the same server state. -/
theorem run_commute (p q : Prog) (srv : Srv) (tp tq : Nat) (hp : Served srv p tp) (hq : Served srv q tq)
    (hne : tp ≠ tq) :
    (run q (run p srv).2).1 = (run q srv).1 ∧ (run p (run q srv).2).1 = (run p srv).1 ∧
    (run q (run p srv).2).2 = (run p (run q srv).2).2 := by
  obtain ⟨outp, op', hap, fp⟩ := served_run hp
  obtain ⟨outq, oq', haq, fq⟩ := served_run hq
  obtain ⟨op, hop, hopa⟩ := served_nonalias hp
  obtain ⟨oq, hoq, hoqa⟩ := served_nonalias hq
  have rp := fp srv rfl hp.1 rfl
  have rq := fq srv rfl hq.1 rfl
  have rqp := fq { srv with objs := sSet srv.objs tp op' } rfl
    (by simp only; rw [cellOf_sSet _ _ _ _ hop hopa hap]; exact hq.1)
    (by simp only; exact sGet_sSet_other _ _ _ _ hne)
  have rpq := fp { srv with objs := sSet srv.objs tq oq' } rfl
    (by simp only; rw [cellOf_sSet _ _ _ _ hoq hoqa haq]; exact hp.1)
    (by simp only; exact sGet_sSet_other _ _ _ _ (Ne.symm hne))
  rw [rp, rq]
  simp only
  rw [rqp, rpq]
  refine ⟨rfl, rfl, ?_⟩
  simp only [sSet_comm srv.objs tp tq op' oq' hne]

/-- evaluating an expression and advancing a stateful object act on different components -/
theorem run_expr_commute (e : Expr) (q : Prog) (srv : Srv) (tq : Nat) (hq : Served srv q tq) :
    (run q (run (.expr e) srv).2).1 = (run q srv).1 ∧ (run (.expr e) (run q srv).2).1 = (run (.expr e) srv).1 ∧
    (run q (run (.expr e) srv).2).2 = (run (.expr e) (run q srv).2).2 := by
  obtain ⟨outq, oq', haq, fq⟩ := served_run hq
  have rq := fq srv rfl hq.1 rfl
  have rqe := fq { srv with lz := (maybeMake e srv.lz).2 } rfl hq.1 rfl
  simp only [run, runExpr] at rq rqe ⊢
  rw [rqe, rq]
  exact ⟨rfl, rfl, rfl⟩

/-- a fault-free `get_result` is a fixed function of the shutdown flag and of local evaluation -/
theorem getResult_ok_form (p : Prog) (srv : Srv) (ht : p.traceError = none) :
    getResult p {} srv =
      (decode {} (match (run p srv).1 with
        | .ok v => Reply.payload v.dumps true
        | .error x => Reply.payload (.exc (if srv.shutdown then shutdownExc else x).dumps) true),
       (run p srv).2) := by
  simp only [getResult_traced ht, Bool.not_true, Bool.false_eq_true, if_false, handle_getRequest]
  rfl

theorem served_traceError {srv : Srv} {p : Prog} {t : Nat} (h : Served srv p t) : p.traceError = none := by
  cases p <;> first | rfl | exact absurd h.2 id

end MlModel.Remote
