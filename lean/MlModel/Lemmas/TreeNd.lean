import MlModel.Lemmas.TreeApply
/-!
# ndarray nodes: what a set of ONE item of an ndarray does, exactly (in place and copying), the by-value
read-back, and "the reference-valued read agrees with the complete read".
-/
namespace MlModel.Tree

/-! ## `get` is `getV` wherever it is defined -/

theorem getV_cons_of_slot {h : Heap} {r : Ref} {k : PKey} {ks : Path} {n : Node} {c : Ref}
    (h1 : k = .self → False) (h2 : ∀ id v, k = .lit id v → False) (hn : h[r]? = some n)
    (hs : n.slotGet k = .ok c) : getV h r (k :: ks) = getV h c ks := by
  rw [getV.eq_4 _ _ _ _ h1 h2, hn]
  cases n with
  | nd b o s => simp [Node.slotGet] at hs
  | buf xs => simp [Node.slotGet] at hs
  | dict es => simp only [hs]
  | list rs => simp only [hs]
  | tuple rs => simp only [hs]
  | leaf v => simp only [hs]
  | null => simp only [hs]

/-- The reference-valued read agrees with the complete read: whenever `__get` modelled by `getCore`
succeeds, `getV` returns that very object. -/
theorem getV_of_getCore (h : Heap) : ∀ (p : Path) (r : Ref) (x : Ref × Bool), getCore h r p = .ok x →
    getV h r p = .ok (.obj x.1, x.2) := by
  intro p
  induction p with
  | nil => intro r x hg; simp [getCore] at hg; subst hg; simp [getV]
  | cons k ks ih =>
    intro r x hg
    by_cases h1 : k = .self
    · subst h1; simp [getCore] at hg; subst hg; simp [getV]
    by_cases h2 : ∃ id v, k = .lit id v
    · obtain ⟨id, v, rfl⟩ := h2; simp [getCore] at hg; subst hg; simp [getV]
    have h2' : ∀ id v, k = .lit id v → False := fun id v e => h2 ⟨id, v, e⟩
    rw [getCore.eq_4 _ _ _ _ h1 h2'] at hg
    unfold index at hg
    cases hn : h[r]? with
    | none => rw [hn] at hg; cases hg
    | some n =>
      rw [hn] at hg
      simp only at hg
      cases hs : n.slotGet k with
      | error e => rw [hs] at hg; cases hg
      | ok c =>
        rw [hs] at hg
        simp only at hg
        rw [getV_cons_of_slot h1 h2' hn hs]
        exact ih c x hg

/-! ## list arithmetic on buffers -/

theorem slice_splice (xs : List Int) (o : Nat) (ys : List Int) (hb : o + ys.length ≤ xs.length) :
    slice (splice xs o ys) o ys.length = ys := by
  unfold slice splice
  have h1 : (xs.take o).length = o := by simp; omega
  rw [List.append_assoc, List.drop_append, h1]
  simp

theorem splice_length (xs : List Int) (o : Nat) (ys : List Int) (hb : o + ys.length ≤ xs.length) :
    (splice xs o ys).length = xs.length := by
  unfold splice
  simp; omega

/-! ## setting ONE item of an ndarray: the exact result -/

theorem coerce_int {h : Heap} {v : Ref} {x : Int} (hv : h[v]? = some (.leaf (.int x))) (t : List Nat) :
    coerce h v t = some (List.replicate (prod t) x) := by
  simp [coerce, hv]

theorem resolveIdx_ne_len {n : Nat} {i : Int} {j : Nat} (hj : resolveIdx n i = some j) : i ≠ (n : Int) := by
  intro e; subst e; rw [resolveIdx_len_none] at hj; cases hj

/-- `view.set(Key(k), v, in_place=True)` on an ndarray `t` (one key below the array): the item `arr[k]` is
created, `v` is coerced to its shape, and the elements are written into the caller's buffer at the item's
window — that is all. -/
theorem setPath_nd_inplace_one (strict : Bool) {h : Heap} {t v b off n : Nat} {inner : List Nat} {k : PKey}
    {i : Int} {j : Nat} {ys : List Int} (hn : h[t]? = some (.nd b off (n :: inner)))
    (hk1 : k ≠ .self) (hk2 : k ≠ .skip) (hi : k.asInt = some i) (hj : resolveIdx n i = some j)
    (hco : coerce (ndItem h b (off + j * prod inner) inner).1 v inner = some ys) :
    setPath strict true h t [k] v =
      (ndWrite (ndItem h b (off + j * prod inner) inner).1 b (off + j * prod inner) ys, .ok t) := by
  rw [setPath.eq_4 _ _ _ _ _ _ _ hk1 hk2, hn]
  simp only
  rw [setNd_unfold]
  simp [ndPre, hi, resolveIdx_ne_len hj, hj, setPath, hco]

/-- `view.copy_and_set(Key(k), v)` on an ndarray `t`: the same on a **copy** (new buffer `h.size`, new array
object `h.size + 1`). -/
theorem setPath_nd_copy_one (strict : Bool) {h : Heap} {t v b off n : Nat} {inner : List Nat} {k : PKey}
    {i : Int} {j : Nat} {ys : List Int} (hn : h[t]? = some (.nd b off (n :: inner)))
    (hk1 : k ≠ .self) (hk2 : k ≠ .skip) (hi : k.asInt = some i) (hj : resolveIdx n i = some j)
    (hco : coerce (ndItem (ndCopy h b off (n :: inner)).1 h.size (j * prod inner) inner).1 v inner = some ys) :
    setPath strict false h t [k] v =
      (ndWrite (ndItem (ndCopy h b off (n :: inner)).1 h.size (j * prod inner) inner).1 h.size (j * prod inner) ys,
        .ok (h.size + 1)) := by
  rw [setPath.eq_4 _ _ _ _ _ _ _ hk1 hk2, hn]
  simp only
  rw [setNd_unfold]
  simp [ndPre, hi, resolveIdx_ne_len hj, hj, setPath, hco, ndCopy_snd]

theorem ndItem_get_lt (h : Heap) (b o : Nat) (inner : List Nat) {r : Ref} (hr : r < h.size) :
    (ndItem h b o inner).1[r]? = h[r]? := (ndItem_extends h b o inner).2 r hr

theorem ndWrite_get_eq {h : Heap} {b : Ref} {xs : List Int} (hb : h[b]? = some (.buf xs)) (o : Nat) (ys : List Int) :
    (ndWrite h b o ys)[b]? = some (.buf (splice xs o ys)) := by
  unfold ndWrite
  rw [hb]
  exact write_get_eq _ _ (lt_size_of_get hb)

theorem bufOf_of_get {h : Heap} {b : Ref} {xs : List Int} (hb : h[b]? = some (.buf xs)) : bufOf h b = xs := by
  simp [bufOf, hb]

end MlModel.Tree
