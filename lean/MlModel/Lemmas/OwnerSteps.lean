import MlModel.Lemmas.Owner
/-! Shape of a step of the ownership LTS, and how a step can change the recorded owner. -/
namespace MlModel.Owner

/-- The thread after a method step. -/
def afterOut (th : Thread) (cl : Call) (k : K) : Out → Thread
  | .goto pc => { th with cur := some ({ cl with pc := pc }, k) }
  | .ret b => th.apply (resume k b)

/-- Every step is the start of the next operation, or one atomic step inside a `Worker` method. -/
theorem step_cases {pw : Pid → List Wid} {u : Wid → Bool} {c c' : Cfg} {t : Tid}
    (h : step? pw u c t = some c') :
    (∃ op s, (c.T t).cur = none ∧ (c.T t).script = op :: s ∧
      c' = ⟨c.W, upd c.T t ({ c.T t with script := s, exited := none }.apply (start pw op))⟩) ∨
    (∃ cl k W' o, (c.T t).cur = some (cl, k) ∧ mstep u c.W t cl = some (W', o) ∧
      c' = ⟨W', upd c.T t (afterOut (c.T t) cl k o)⟩) := by
  unfold step? at h
  cases hcur : (c.T t).cur with
  | none =>
    simp only [hcur] at h
    cases hs : (c.T t).script with
    | nil => simp [hs] at h
    | cons op s =>
      simp only [hs, Option.some.injEq] at h
      exact Or.inl ⟨op, s, rfl, rfl, h.symm⟩
  | some ck =>
    obtain ⟨cl, k⟩ := ck
    simp only [hcur] at h
    cases hm : mstep u c.W t cl with
    | none => simp [hm] at h
    | some r =>
      obtain ⟨W', o⟩ := r
      refine Or.inr ⟨cl, k, W', o, rfl, hm, ?_⟩
      cases o <;> simp only [hm, Option.some.injEq] at h <;> exact h.symm

/-- A method step rewrites at most the worker it is called on, and changes its recorded owner only
at `aWr` (to the caller's pool) and `rWr` (to `None`). -/
theorem mstep_pool {u : Wid → Bool} {W W' : Wid → Worker} {t : Tid} {cl : Call} {o : Out}
    (h : mstep u W t cl = some (W', o)) (w : Wid) :
    (W' w).pool = (W w).pool ∨
    (w = cl.w ∧ ((cl.pc = .aWr ∧ (W' w).pool = some cl.p) ∨ (cl.pc = .rWr ∧ (W' w).pool = none))) := by
  unfold mstep at h
  by_cases hw : w = cl.w
  · subst hw
    cases hpc : cl.pc <;> simp only [hpc] at h <;> (try split at h) <;>
      simp only [Option.some.injEq, Prod.mk.injEq, reduceCtorEq] at h <;>
      (try (obtain ⟨h1, _⟩ := h; subst h1)) <;> simp_all
  · left
    cases hpc : cl.pc <;> simp only [hpc] at h <;> (try split at h) <;>
      simp only [Option.some.injEq, Prod.mk.injEq, reduceCtorEq] at h <;>
      (try (obtain ⟨h1, _⟩ := h; subst h1)) <;> simp_all [upd]

theorem step_pool {pw : Pid → List Wid} {u : Wid → Bool} {c c' : Cfg} {t : Tid}
    (h : step? pw u c t = some c') (w : Wid) :
    (c'.W w).pool = (c.W w).pool ∨
    ∃ cl k, (c.T t).cur = some (cl, k) ∧ cl.w = w ∧
      ((cl.pc = .aWr ∧ (c'.W w).pool = some cl.p) ∨ (cl.pc = .rWr ∧ (c'.W w).pool = none)) := by
  rcases step_cases h with ⟨op, s, _, _, hc'⟩ | ⟨cl, k, W', o, hcur, hm, hc'⟩
  · left; rw [hc']
  · subst hc'
    rcases mstep_pool hm w with h1 | ⟨hw, h2⟩
    · exact Or.inl h1
    · exact Or.inr ⟨cl, k, hcur, hw.symm, h2⟩

/-- Threads other than the stepping one are untouched. -/
theorem step_other {pw : Pid → List Wid} {u : Wid → Bool} {c c' : Cfg} {t t' : Tid}
    (h : step? pw u c t = some c') (ht : t' ≠ t) : c'.T t' = c.T t' := by
  rcases step_cases h with ⟨op, s, _, _, hc'⟩ | ⟨cl, k, W', o, _, _, hc'⟩ <;> subst hc' <;>
    simp [upd_other _ _ ht]

/-- **No stealing.**  If a step changes the recorded owner of `w` away from `some p`, the stepping
thread is executing the write of a `release` on `w`, and — when that release is owner-checked, as
every release of the repaired pool operations is — it acts for pool `p` itself. -/
theorem owner_lost_only_by_own_release {pw : Pid → List Wid} {u : Wid → Bool} {c c' : Cfg} {t : Tid}
    (hI : Inv c) (h : step? pw u c t = some c') (w : Wid) (p : Pid)
    (hp : (c.W w).pool = some p) (hp' : (c'.W w).pool ≠ some p) :
    ∃ cl k, (c.T t).cur = some (cl, k) ∧ cl.w = w ∧ cl.pc = .rWr ∧ (cl.checked = true → cl.p = p) := by
  rcases step_pool h w with h1 | ⟨cl, k, hcur, hw, h2⟩
  · rw [h1] at hp'; exact absurd hp hp'
  · rcases h2 with ⟨hpc, _⟩ | ⟨hpc, _⟩
    · have hcs := (Inv_cs hI hcur (by simp [hpc, inCS])).2
      simp only [CS, hpc] at hcs
      rw [hw, hp] at hcs; simp at hcs
    · refine ⟨cl, k, hcur, hw, hpc, ?_⟩
      intro hck
      have hcs := (Inv_cs hI hcur (by simp [hpc, inCS])).2
      simp only [CS, hpc] at hcs
      rcases hcs.2 hck with h3 | h3 <;> rw [hw, hp] at h3 <;> simp at h3
      exact h3.symm

/-! ### repaired programs only perform owner-checked releases -/

def K.repaired : K → Bool
  | .origA .. | .origB .. => false
  | _ => true

def Next.repaired : Next → Prop
  | .call cl k => cl.checked = true ∧ k.repaired = true
  | .finish _ _ => True

theorem acqAllLoop_rep (p ws acc n) : (acqAllLoop p ws acc n).repaired := by
  cases ws <;> simp [acqAllLoop, Next.repaired, K.repaired]
theorem acqAllIter_rep (p rest acc n) : (acqAllIter p rest acc n).repaired := by
  unfold acqAllIter; split
  · simp [Next.repaired]
  · exact acqAllLoop_rep ..
theorem relAllLoop_rep (p fin ws) : (relAllLoop p fin ws).repaired := by
  cases ws <;> simp [relAllLoop, Next.repaired, K.repaired]
theorem next2Loop_rep (p ws) : (next2Loop p ws).repaired := by
  cases ws <;> simp [next2Loop, Next.repaired, K.repaired]
theorem next1Loop_rep (p acq ws un) : (next1Loop p acq ws un).repaired := by
  cases ws
  · exact next2Loop_rep ..
  · simp [next1Loop, Next.repaired, K.repaired]

theorem idleLoop_rep (p ws acc) : (idleLoop p ws acc).repaired := by
  cases ws <;> simp [idleLoop, Next.repaired, K.repaired]

theorem aliveLoop_rep (p ws acc again) : (aliveLoop p ws acc again).repaired := by
  cases ws with
  | cons w rest => simp [aliveLoop, Next.repaired, K.repaired]
  | nil =>
    cases again with
    | none => simp [aliveLoop, Next.repaired]
    | some ws2 => cases ws2 <;> simp [aliveLoop, Next.repaired, K.repaired]
theorem callLoop_rep (p ws) : (callLoop p ws).repaired := by
  cases ws <;> simp [callLoop, Next.repaired, K.repaired]
theorem acqCLoop_rep (p all ws got) : (acqCLoop p all ws got).repaired := by
  cases ws
  · exact callLoop_rep ..
  · simp [acqCLoop, Next.repaired, K.repaired]
theorem acqWLoop_rep (p ws acc) : (acqWLoop p ws acc).repaired := by
  cases ws <;> simp [acqWLoop, Next.repaired, K.repaired]
theorem acqCIter_rep (p all rest got) : (acqCIter p all rest got).repaired := by
  unfold acqCIter; split
  · exact acqCLoop_rep ..
  · exact callLoop_rep ..

theorem resume_rep (k : K) (b : Bool) (hk : k.repaired = true) : (resume k b).repaired := by
  cases k <;> simp only [resume] <;> simp only [K.repaired] at hk
  · split
    · simp [Next.repaired, K.repaired]
    · exact acqAllIter_rep ..
  · exact acqAllIter_rep ..
  · exact relAllLoop_rep ..
  · exact absurd hk (by simp)
  · exact absurd hk (by simp)
  · split
    · simp [Next.repaired, K.repaired]
    · exact next1Loop_rep ..
  · split
    · simp [Next.repaired]
    · exact next1Loop_rep ..
  · split
    · simp [Next.repaired, K.repaired]
    · exact next2Loop_rep ..
  · split
    · simp [Next.repaired]
    · exact next2Loop_rep ..
  · simp [Next.repaired]
  · split
    · simp [Next.repaired, K.repaired]
    · exact next1Loop_rep ..
  · split
    · simp [Next.repaired, K.repaired]
    · exact next2Loop_rep ..
  · split
    · simp [Next.repaired, K.repaired]
    · exact idleLoop_rep ..
  · split
    · simp [Next.repaired, K.repaired]
    · exact idleLoop_rep ..
  · exact idleLoop_rep ..
  · exact aliveLoop_rep ..
  · split
    · simp [Next.repaired, K.repaired]
    · split <;> simp [Next.repaired, K.repaired]
  · split <;> simp [Next.repaired, K.repaired]
  · split
    · simp [Next.repaired, K.repaired]
    · exact acqCIter_rep ..
  · exact acqCIter_rep ..
  · exact callLoop_rep ..
  · exact acqWLoop_rep ..

theorem start_rep (pw : Pid → List Wid) (op : Op) (h : op.repaired = true) : (start pw op).repaired := by
  cases op <;> simp only [start] <;> simp only [Op.repaired] at h
  · exact acqAllLoop_rep ..
  · exact relAllLoop_rep ..
  · exact next1Loop_rep ..
  · simp [Next.repaired, K.repaired, h]
  · exact absurd h (by simp)
  · exact relAllLoop_rep ..
  · exact idleLoop_rep ..
  · simp [Next.repaired, K.repaired]
  · exact aliveLoop_rep ..
  · split <;> simp [Next.repaired, K.repaired]
  · exact acqCLoop_rep ..
  · simp [Next.repaired, K.repaired]
  · exact acqWLoop_rep ..

/-- All scripts use only the repaired operations, and every active call is owner-checked. -/
def RepairedCfg (c : Cfg) : Prop :=
  ∀ t, (∀ op ∈ (c.T t).script, op.repaired = true) ∧
       ∀ cl k, (c.T t).cur = some (cl, k) → cl.checked = true ∧ k.repaired = true

theorem apply_rep (th : Thread) (n : Next) (hn : n.repaired) :
    ∀ cl k, (th.apply n).cur = some (cl, k) → cl.checked = true ∧ k.repaired = true := by
  intro cl k h
  cases n with
  | call cl' k' => simp [Thread.apply] at h; rw [← h.1, ← h.2]; exact hn
  | finish r e => simp [Thread.apply] at h

theorem apply_script (th : Thread) (n : Next) : (th.apply n).script = th.script := by
  cases n <;> rfl

theorem RepairedCfg_step {pw : Pid → List Wid} {u : Wid → Bool} {c c' : Cfg} {t : Tid}
    (hR : RepairedCfg c) (h : step? pw u c t = some c') : RepairedCfg c' := by
  intro t'
  by_cases ht : t' = t
  · subst ht
    rcases step_cases h with ⟨op, s, _, hs, hc'⟩ | ⟨cl, k, W', o, hcur, _, hc'⟩ <;> subst hc'
    · have hops := (hR t').1
      rw [hs] at hops
      simp only [upd_same, apply_script]
      exact ⟨fun op' h' => hops op' (by simp [h']),
             apply_rep _ _ (start_rep pw op (hops op (by simp)))⟩
    · obtain ⟨hck, hk⟩ := (hR t').2 cl k hcur
      simp only [upd_same]
      cases o with
      | goto pc =>
        refine ⟨(hR t').1, ?_⟩
        intro cl' k' h'; simp [afterOut] at h'; rw [← h'.1, ← h'.2]; exact ⟨hck, hk⟩
      | ret b =>
        simp only [afterOut, apply_script]
        exact ⟨(hR t').1, apply_rep _ _ (resume_rep k b hk)⟩
  · rw [step_other h ht]; exact hR t'

theorem RepairedCfg_reach {pw : Pid → List Wid} {c0 c : Cfg} (h0 : RepairedCfg c0) (h : Reach pw c0 c) :
    RepairedCfg c := by
  induction h with
  | refl => exact h0
  | step _ hs ih => obtain ⟨t, u, hst⟩ := hs; exact RepairedCfg_step ih hst

end MlModel.Owner
