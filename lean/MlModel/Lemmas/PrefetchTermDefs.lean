import MlModel.Lemmas.PrefetchViews
import MlModel.Lemmas.QueueVariantN
/-!
# A termination measure for ANY list of concurrent requests — definitions and the effect of one step

`(mHi, mLo)` in lexicographic order:

* `mHi c` = Σ over all threads of `tRankA`: the ONE-TIME server-level events the thread still has before it (an upper
  bound by program point: the start, the locked stop with its `maybe_stop` / join, the installation, the thread
  start, the release, the three steps of the notification, a shutdown request's three steps, the server thread's way
  from `run_until_shutdown` to the end, a prefetch thread's start and `_start_enqueue`).  It never increases, and it
  strictly decreases on every such step — whatever the step does to queues, views and threads (a fresh queue, a
  consumer / stopper / producer ENTERING a view, a new thread: all of them are one-time events, so no pre-charging
  of `Phi` shares is needed: the lexicographic order pays).
* `mLo N c` = 3 · Σ over ALL queues of `Queue.PsiN N` of the queue's view (`viewK`, one slot per server thread; the
  measure of `C04_variant` with a fixed weight bound `N` and silent inert slots) + per thread `tLo`: what is left of
  the reply's way back (2 steps, paid by the last step of `get_batch`), the share a CLIENT LOOP carries from one
  `next_batch` call to the next (`tCarry`: exactly the share of a consumer about to call — released when it leaves
  the view of the queue it read, spent when it enters the view of whatever `self._generator` is at its next call,
  the same queue or ANOTHER one), the server threads' way to their next `wait` + 4 per pending notification of the
  shutdown condition.

`N` is any bound with `c.ths.length + mHi c ≤ N` — invariant because every thread start decreases `mHi` by 2.

`step_teff`: one brute-force classification of every step of the LTS by its effect on these quantities.
-/
namespace MlModel.Prefetch
open MlModel.Queue (inertT potS PsiN RN)
set_option linter.unusedVariables false
set_option linter.unusedSimpArgs false

/-- one-time server-level events still before the thread (upper bound) -/
def tRankA (t : Thread) : Nat :=
  match t.pc with
  | .start => (match t.prog with | .producer _ => 2 | _ => 20)
  | .mnAcq | .mnWait | .mnWake | .mnTxA | .mnTxR => 19
  | .mnRel => 18 | .mnStA => 17 | .lkAcq => 16 | .lkStop => 15 | .lkJoin => 14 | .iiSpawn => 13
  | .lkRel => 9 | .iiN0 => 8 | .iiN1 => 7 | .iiN2 => 6
  | .sdAcq => 3 | .sdNotify => 2 | .sdRel => 1 | .mnStR => 1
  | .prod => if t.qt.pc = .sAcq then 1 else 0
  | .nbGet | .nbTxA | .nbTxR | .done => 0

/-- the share of a `get_batch` consumer about to call, times 3 -/
def tCarryK : Nat := 3 * (19 + 2 * Queue.wE)

/-- what a client loop whose reply carries no end marker takes along to its next call -/
def tCarry (t : Thread) : Nat :=
  match t.prog, t.reply with
  | .client _ _, some r => if r.marker.isNone then tCarryK else 0
  | _, _ => 0

def tLo (t : Thread) : Nat :=
  match t.pc with
  | .nbTxA => 2 + tCarry t | .nbTxR => 1 + tCarry t
  | .mnAcq => 4 | .mnTxA => 4 | .mnTxR => 3 | .mnWait => 2 | .mnWake => 1
  | _ => 0

/-- `Σ_k f k qs[k]` -/
def sumFrom (f : Nat → Queue.Shared → Nat) : Nat → List Queue.Shared → Nat
  | _, [] => 0
  | i, q :: qs => f i q + sumFrom f (i + 1) qs

/-- the queue-level measures of all views -/
def PsiAll (N : Nat) (c : Cfg) : Nat := sumFrom (fun k q => PsiN N (viewK c k q)) 0 c.sh.qs

def mHi (c : Cfg) : Nat := (c.ths.map tRankA).sum

def mLo (N : Nat) (c : Cfg) : Nat :=
  3 * PsiAll N c + (c.ths.map tLo).sum + 4 * c.sh.shutNotified.length

/-- the termination measure for any number of concurrent requests, ordered lexicographically (`MLt`) -/
def multiMeasure (N : Nat) (c : Cfg) : Nat × Nat := (mHi c, mLo N c)

/-! ### sums over the queue list -/

theorem sumFrom_congr {f g : Nat → Queue.Shared → Nat} {i : Nat} {l : List Queue.Shared}
    (h : ∀ k q, l[k]? = some q → f (i + k) q = g (i + k) q) : sumFrom f i l = sumFrom g i l := by
  induction l generalizing i with
  | nil => rfl
  | cons x xs ih =>
    have h0 := h 0 x rfl
    have h1 : sumFrom f (i + 1) xs = sumFrom g (i + 1) xs := by
      apply ih
      intro k q hk
      have := h (k + 1) q (by simpa using hk)
      rw [show i + 1 + k = i + (k + 1) by omega]; exact this
    simp only [sumFrom, Nat.add_zero] at h0 ⊢
    rw [h0, h1]

theorem sumFrom_set_update {f f' : Nat → Queue.Shared → Nat} {i j : Nat} {l : List Queue.Shared}
    {a b : Queue.Shared} (hj : l[j]? = some a)
    (h : ∀ k q, k ≠ j → l[k]? = some q → f' (i + k) q = f (i + k) q) :
    sumFrom f' i (l.set j b) + f (i + j) a = sumFrom f i l + f' (i + j) b := by
  induction l generalizing i j with
  | nil => simp at hj
  | cons x xs ih =>
    cases j with
    | zero =>
      simp only [List.getElem?_cons_zero, Option.some.injEq] at hj
      subst hj
      have h1 : sumFrom f' (i + 1) xs = sumFrom f (i + 1) xs := by
        apply sumFrom_congr
        intro k q hk
        have := h (k + 1) q (by omega) (by simpa using hk)
        rw [show i + 1 + k = i + (k + 1) by omega]; exact this
      simp only [List.set_cons_zero, sumFrom, Nat.add_zero, h1]
      omega
    | succ j =>
      simp only [List.getElem?_cons_succ] at hj
      have h0 := h 0 x (by omega) rfl
      have h1 := ih (i := i + 1) hj (by
        intro k q hk hq
        have := h (k + 1) q (by omega) (by simpa using hq)
        rw [show i + 1 + k = i + (k + 1) by omega]; exact this)
      simp only [List.set_cons_succ, sumFrom, Nat.add_zero] at h0 ⊢
      rw [show i + 1 + j = i + (j + 1) by omega] at h1
      rw [h0]
      omega

theorem sumFrom_update {f f' : Nat → Queue.Shared → Nat} {i j : Nat} {l : List Queue.Shared}
    {a : Queue.Shared} (hj : l[j]? = some a)
    (h : ∀ k q, k ≠ j → l[k]? = some q → f' (i + k) q = f (i + k) q) :
    sumFrom f' i l + f (i + j) a = sumFrom f i l + f' (i + j) a := by
  have := sumFrom_set_update (b := a) hj h
  have hs : l.set j a = l := by
    obtain ⟨hlt, heq⟩ := List.getElem?_eq_some_iff.mp hj
    subst heq
    exact List.set_getElem_self hlt
  rw [hs] at this
  exact this

/-! ### the side conditions of `Queue.psi_step` that are not in `Queue.Live` -/

/-- a request inside `get_batch`: positive batch size, a returning call holds an element -/
def XT (t : Thread) : Prop := t.pc = .nbGet → (RN t.qt ∧ 0 < t.qt.batchMax)

structure XInv (c : Cfg) : Prop where
  ig : ∀ (k : Nat) (q : Queue.Shared), c.sh.qs[k]? = some q → q.ignoreError = false
  th : ∀ (tid : Queue.Tid) (t : Thread), c.ths[tid]? = some t → XT t

/-! ### the effect of one step on the measure -/

inductive TEff (c c' : Cfg) (tid : Queue.Tid) (t : Thread) : Prop where
  /-- a one-time event of the stepping thread -/
  | once (t' : Thread) (hths : c'.ths = c.ths.set tid t') (hr : tRankA t' < tRankA t) (hx : XT t')
  /-- the start of a prefetch thread -/
  | spawn (t' p : Thread) (hths : c'.ths = c.ths.set tid t' ++ [p]) (hr : tRankA t' + tRankA p < tRankA t)
      (hx : XT t') (hxp : XT p)
  /-- a step that touches no queue and no view: the reply's way back, the server thread's loop -/
  | quiet (t' : Thread) (hths : c'.ths = c.ths.set tid t') (hqs : c'.sh.qs = c.sh.qs)
      (hprog : t'.prog = t.prog) (hqt : t'.qt = t.qt) (hg : t'.g = t.g)
      (hpc : t.pc ≠ .nbGet ∧ t.pc ≠ .lkStop ∧ t'.pc ≠ .nbGet ∧ t'.pc ≠ .lkStop)
      (hA : tRankA t' = tRankA t)
      (hlo : tLo t' + 4 * c'.sh.shutNotified.length < tLo t + 4 * c.sh.shutNotified.length)
  /-- a client loop receives a reply without end marker and calls again: it reads `self._generator` anew -/
  | reenter (t' : Thread) (g m : Nat) (hths : c'.ths = c.ths.set tid t') (hqs : c'.sh.qs = c.sh.qs)
      (hn : c'.sh.shutNotified = c.sh.shutNotified) (hgen : c.sh.generator = some g)
      (hpc : t.pc = .nbTxR) (hcar : tCarry t = tCarryK)
      (hpc' : t'.pc = .nbGet) (hg : t'.g = g) (hqt : t'.qt = { prog := .batchLoop m true, pc := .bAcq })
      (hm : 0 < m) (hprog : t'.prog = t.prog) (hcl : ∃ gg b, t.prog = .client gg b)
  /-- an embedded queue-level step that stays inside the call, or the last step of `get_batch` -/
  | op (q q' : Queue.Shared) (qt' : Queue.Thread) (lbl0 : String) (t' : Thread)
      (hq : c.sh.qs[t.g]? = some q) (hst : Queue.stepThread q t.qt tid false = some (lbl0, q', qt'))
      (hths : c'.ths = c.ths.set tid t') (hqs : c'.sh.qs = c.sh.qs.set t.g q')
      (hn : c'.sh.shutNotified = c.sh.shutNotified) (hprog : t'.prog = t.prog)
      (hpc : t.pc = .lkStop ∨ t.pc = .nbGet ∨ t.pc = .prod)
      (hk : (t'.qt = qt' ∧ t'.g = t.g ∧ (t'.pc = t.pc ∨ (t.pc = .prod ∧ t'.pc = .done ∧ qt'.pc = .done))) ∨
            (t.pc = .nbGet ∧ t'.pc = .nbTxA ∧ t'.qt = idleQt ∧ (qt'.pc = .bAcq ∨ qt'.pc = .done) ∧
              t'.reply = some (mkReply c'.sh t.g q' qt'.received).1))

theorem effBatch_pos' (n : Nat) : 0 < effBatch n := by
  unfold effBatch; split <;> omega

set_option hygiene false in
macro "teff_once" : tactic => `(tactic|
  (refine TEff.once _ rfl ?_ ?_ <;> ((simp [tRankA, XT, RN, Queue.Thread.batchMax, effBatch_pos', idleQt, *] <;>
    (try (split <;> omega)) <;> (try omega)); done)))

set_option hygiene false in
macro "teff_quiet" : tactic => `(tactic|
  (refine TEff.quiet _ rfl rfl ?_ rfl rfl ?_ ?_ ?_ <;> ((simp [tRankA, tLo, tCarry, setTh, *] <;> (try omega)); done)))

set_option hygiene false in
macro "teff_split" : tactic => `(tactic|
  ((repeat' split at h) <;> (try (simp at *; done)) <;>
    simp only [Option.some.injEq, Prod.mk.injEq] at h <;> obtain ⟨-, rfl⟩ := h))

set_option maxHeartbeats 400000 in
theorem step_teff {c c' : Cfg} {tid : Queue.Tid} {lbl : String} {t : Thread}
    (ht : c.ths[tid]? = some t) (h : step c tid = some (lbl, c')) : TEff c c' tid t := by
  have hlt : tid < c.ths.length := by
    rcases List.getElem?_eq_some_iff.mp ht with ⟨h, _⟩; exact h
  unfold step at h
  simp only [ht] at h
  cases hpc : t.pc <;> simp only [hpc] at h
  case done => simp at h
  case prod =>
    cases hq : c.sh.qs[t.g]? with
    | none => simp [hq] at h
    | some q =>
      simp only [hq] at h
      cases hst : Queue.stepThread q t.qt tid false with
      | none => simp [hst] at h
      | some res =>
        obtain ⟨lbl0, q', qt'⟩ := res
        simp only [hst] at h
        split at h <;> simp only [Option.some.injEq, Prod.mk.injEq] at h <;> obtain ⟨-, rfl⟩ := h
        · rename_i hd
          exact .op q q' qt' lbl0 _ hq hst rfl rfl rfl rfl (Or.inr (Or.inr hpc))
            (Or.inl ⟨rfl, rfl, Or.inr ⟨hpc, rfl, by simpa using hd⟩⟩)
        · exact .op q q' qt' lbl0 _ hq hst rfl rfl rfl rfl (Or.inr (Or.inr hpc))
            (Or.inl ⟨rfl, rfl, Or.inl hpc.symm⟩)
  case nbGet =>
    cases hq : c.sh.qs[t.g]? with
    | none => simp [hq] at h
    | some q =>
      simp only [hq] at h
      cases hst : Queue.stepThread q t.qt tid false with
      | none => simp [hst] at h
      | some res =>
        obtain ⟨lbl0, q', qt'⟩ := res
        simp only [hst] at h
        split at h <;> simp only [Option.some.injEq, Prod.mk.injEq] at h <;> obtain ⟨-, rfl⟩ := h
        · rename_i hd
          exact .op q q' qt' lbl0 _ hq hst rfl rfl rfl rfl (Or.inr (Or.inl hpc))
            (Or.inr ⟨hpc, rfl, rfl, by simpa using hd, rfl⟩)
        · exact .op q q' qt' lbl0 _ hq hst rfl rfl rfl rfl (Or.inr (Or.inl hpc))
            (Or.inl ⟨rfl, rfl, Or.inl hpc.symm⟩)
  case lkStop =>
    cases hq : c.sh.qs[t.g]? with
    | none => simp [hq] at h
    | some q =>
      simp only [hq] at h
      cases hst : Queue.stepThread q t.qt tid false with
      | none => simp [hst] at h
      | some res =>
        obtain ⟨lbl0, q', qt'⟩ := res
        simp only [hst, afterStop, install, failInit] at h
        cases hprog : t.prog <;> simp only [hprog] at h <;> teff_split <;>
          first
          | teff_once
          | exact .op q q' qt' lbl0 _ hq hst rfl rfl rfl hprog.symm (Or.inl hpc) (Or.inl ⟨rfl, rfl, Or.inl hpc.symm⟩)
  case lkJoin =>
    cases he : c.sh.enqThread with
    | none => simp [he] at h
    | some p =>
      simp only [he] at h
      cases hp : c.ths[p]? with
      | none => simp [hp] at h
      | some tp =>
        simp only [hp, afterStop, install, failInit] at h
        cases hprog : t.prog <;> simp only [hprog] at h <;> teff_split <;> teff_once
  case iiSpawn =>
    cases hg : gen? t.prog with
    | none => simp [hg] at h
    | some g =>
      simp only [hg, Option.some.injEq, Prod.mk.injEq] at h
      obtain ⟨-, rfl⟩ := h
      refine .spawn { t with pc := .lkRel } _ rfl ?_ ?_ ?_ <;> simp [tRankA, XT, hpc]
  case lkAcq =>
    simp only [beginStop, install, failInit] at h
    cases hprog : t.prog <;> simp only [hprog] at h <;> teff_split <;> teff_once
  case lkRel =>
    cases hprog : t.prog <;> simp only [hprog] at h <;> teff_split <;> teff_once
  case start =>
    simp only [callNext, beginNext] at h
    cases hprog : t.prog <;> simp only [hprog] at h <;> teff_split <;> teff_once
  case nbTxR =>
    split at h
    · simp at h
    · cases hrep : t.reply with
      | none => simp [hrep] at h
      | some r =>
        simp only [hrep, Option.some.injEq, Prod.mk.injEq] at h
        obtain ⟨-, rfl⟩ := h
        cases hprog : t.prog <;> simp only [receive, hprog] <;> (try (teff_quiet; done))
        -- the client loop
        cases hmark : r.marker with
        | some m => simp only []; teff_quiet
        | none =>
          simp only [callNext, beginNext]
          split
          · teff_quiet
          · cases hgen : c.sh.generator with
            | none => simp only [hprog]; teff_quiet
            | some g =>
              simp only []
              rename_i gg b _
              exact .reenter _ g (effBatch b) rfl rfl rfl hgen hpc (by simp [tCarry, hprog, hrep, hmark]) rfl rfl rfl
                (effBatch_pos' b) hprog.symm ⟨gg, b, hprog⟩
  case mnWake =>
    split at h
    · simp at h
    · rename_i hc
      simp only [Option.some.injEq, Prod.mk.injEq] at h
      obtain ⟨-, rfl⟩ := h
      have hmem : tid ∈ c.sh.shutNotified := by
        simp only [Bool.or_eq_true, Bool.not_eq_true', not_or, Bool.not_eq_true, Bool.not_eq_false] at hc
        have := hc.2
        simpa using this
      have hl := List.length_erase_of_mem hmem
      have hpos := List.length_pos_of_mem hmem
      refine TEff.quiet _ rfl rfl rfl rfl rfl ?_ ?_ ?_ <;> simp [tRankA, tLo, tCarry, setTh, hpc, hl]
      omega
  all_goals
    try simp only [callNext, beginNext] at h
    teff_split <;> first | teff_quiet | teff_once

end MlModel.Prefetch
