import MlModel.Lemmas.QueueLiveWait
/-!
# Liveness of the IteratorQueue LTS — how one step changes what `enqueue_done` depends on

`FStep`: the shared fields read by `enqueue_done`, as explicit functions of the pre-state.
`TStep`: the thread-side classification (`pastS`, `pastT`, `early`, `TL`).
-/
namespace MlModel.Queue
set_option linter.unusedSimpArgs false

def FStep (s : Shared) (t : Thread) (tid : Tid) (alt : Bool) : Prop :=
  ∀ lbl s' t', stepThread s t tid alt = some (lbl, s', t') →
    s'.stopRequested = (if t.pc = .mAcq then true else s.stopRequested) ∧
    s'.start = (if t.pc = .sAcq then s.start + 1 else if t.pc = .mAcq then s.maxEnq else s.start) ∧
    s'.stop = (if t.pc = .tAcq then min (s.stop + 1) s.start else if t.pc = .mAcq then s.maxEnq else s.stop) ∧
    s'.maxEnq = (if t.pc = .sAcq then max s.maxEnq (s.start + 1) else s.maxEnq) ∧
    (s'.exc = s.exc ∨ (s'.exc.isSome = true ∧ (t.pc = .eNext ∨ t.pc = .pRaiseT ∨ t.pc = .mAcq) ∧
      ((t'.pc = .tAcq ∧ t'.reraise.isSome = true) ∨ t'.pc = .mRel))) ∧
    (s'.exhausted = true → s.exhausted = true ∨ s.enqueueDone = true ∨ t.pc = .mD0) ∧
    (t.pc = .tAcq → (s'.enqueueDone = true ↔ t'.pc = .tR0))

set_option hygiene false in
macro "f_group" : tactic => `(tactic| (
  intro lbl s' t' h
  unfold stepThread at h
  cases hpc : t.pc <;> (try (simp only [hpc, Pc.group] at hg; omega)) <;>
    simp only [hpc] at h <;>
    (try simp only [acquire, release, notify, waitPark, waitWake, goto, enqLoop, putLoop, batchLoop,
      afterRaise, afterValue] at h) <;>
    (repeat' split at h) <;>
    (try simp only [Option.some.injEq, Prod.mk.injEq, reduceCtorEq] at h) <;>
    (try (obtain ⟨-, rfl, rfl⟩ := h)) <;>
    simp_all [Shared.setOwner, Shared.owner]))

theorem f_g0 {s t tid alt} (hg : t.pc.group = 0) : FStep s t tid alt := by f_group
theorem f_g1 {s t tid alt} (hg : t.pc.group = 1) : FStep s t tid alt := by f_group
theorem f_g2 {s t tid alt} (hg : t.pc.group = 2) : FStep s t tid alt := by f_group
theorem f_g3 {s t tid alt} (hg : t.pc.group = 3) : FStep s t tid alt := by f_group
theorem f_g4 {s t tid alt} (hg : t.pc.group = 4) : FStep s t tid alt := by f_group
theorem f_g5 {s t tid alt} (hg : t.pc.group = 5) : FStep s t tid alt := by f_group
theorem f_g6 {s t tid alt} (hg : t.pc.group = 6) : FStep s t tid alt := by f_group
theorem f_g7 {s t tid alt} (hg : t.pc.group = 7) : FStep s t tid alt := by f_group

theorem stepThread_f {s t tid alt} : FStep s t tid alt := by
  have h := Pc.group_lt t.pc
  match hg : t.pc.group with
  | 0 => exact f_g0 hg | 1 => exact f_g1 hg | 2 => exact f_g2 hg | 3 => exact f_g3 hg
  | 4 => exact f_g4 hg | 5 => exact f_g5 hg | 6 => exact f_g6 hg | 7 => exact f_g7 hg
  | n + 8 => omega

def TStep (s : Shared) (t : Thread) (tid : Tid) (alt : Bool) : Prop :=
  ∀ lbl s' t', stepThread s t tid alt = some (lbl, s', t') → TOK t → TL t →
    TL t' ∧ isProd t' = isProd t ∧ isCons t' = isCons t ∧ isStopper t' = isStopper t ∧
    pastS t' = (if t.pc = .sAcq then isProd t else pastS t) ∧
    pastT t' = (if t.pc = .tAcq then isProd t else pastT t) ∧
    (early t' = true → early t = true ∨ s.enqueueDone = true)

set_option hygiene false in
macro "t_group" : tactic => `(tactic| (
  intro lbl s' t' h htok htl
  have hk := htok.kind
  clear htok
  unfold TL at htl ⊢
  unfold stepThread at h
  cases hpc : t.pc <;> (try (simp only [hpc, Pc.group] at hg; omega)) <;>
    simp only [hpc] at h hk htl <;>
    (try simp only [acquire, release, notify, waitPark, waitWake, goto, enqLoop, putLoop, batchLoop,
      afterRaise, afterValue] at h) <;>
    (repeat' split at h) <;>
    (try simp only [Option.some.injEq, Prod.mk.injEq, reduceCtorEq] at h) <;>
    (try (obtain ⟨-, rfl, rfl⟩ := h)) <;>
    simp_all [Shared.setOwner, Shared.owner, isProd, isCons, isStopper, pastS, pastT, early, stopped, pcKind,
      Prog.kind, enqueueDone_eq]))

theorem t_g0 {s t tid alt} (hg : t.pc.group = 0) : TStep s t tid alt := by t_group
theorem t_g1 {s t tid alt} (hg : t.pc.group = 1) : TStep s t tid alt := by t_group
theorem t_g2 {s t tid alt} (hg : t.pc.group = 2) : TStep s t tid alt := by t_group
theorem t_g3 {s t tid alt} (hg : t.pc.group = 3) : TStep s t tid alt := by t_group
theorem t_g4 {s t tid alt} (hg : t.pc.group = 4) : TStep s t tid alt := by t_group
theorem t_g5 {s t tid alt} (hg : t.pc.group = 5) : TStep s t tid alt := by t_group
theorem t_g6 {s t tid alt} (hg : t.pc.group = 6) : TStep s t tid alt := by t_group
theorem t_g7 {s t tid alt} (hg : t.pc.group = 7) : TStep s t tid alt := by t_group

theorem stepThread_t {s t tid alt} : TStep s t tid alt := by
  have h := Pc.group_lt t.pc
  match hg : t.pc.group with
  | 0 => exact t_g0 hg | 1 => exact t_g1 hg | 2 => exact t_g2 hg | 3 => exact t_g3 hg
  | 4 => exact t_g4 hg | 5 => exact t_g5 hg | 6 => exact t_g6 hg | 7 => exact t_g7 hg
  | n + 8 => omega

end MlModel.Queue
