import MlModel.Model.SchedVal
/-!
Invariant "nothing non-retriable is in flight" of the `IT` LTS for environments without `appError`.
-/
namespace MlModel.Sched

def NoApp (env : Env) : Prop := ∀ w i, env w i ≠ .appError

theorem Worker.issue_ne_app {plan : Nat → Fate} (hp : ∀ i, plan i ≠ .appError) (x : Worker) :
    (x.issue plan).1 ≠ .appError := by
  unfold Worker.issue
  split
  · simp
  · split <;> simp_all

theorem issue_ne_app {env : Env} (hna : NoApp env) (ws : List Worker) (w : Nat) :
    (issue env ws w).1 ≠ .appError := by
  unfold issue
  split
  · simp
  · exact Worker.issue_ne_app (hna w) _

theorem clean_awaitInit {f : Fate} (h : f ≠ .appError) : (CoSt.awaitInit f).noAppErr = true := by
  cases f <;> simp_all [CoSt.noAppErr]

theorem clean_awaitNext {f : Fate} (p : Nat) (h : f ≠ .appError) : (CoSt.awaitNext f p).noAppErr = true := by
  cases f <;> simp_all [CoSt.noAppErr]

theorem coStep_clean {c : ICfg} (hna : NoApp c.env) {ws : List Worker} {r : RunI} {k : Nat} {m : Bool}
    {o : CoOut} (hc : r.co.noAppErr = true) (h : coStep c ws r k m = some o) : o.r.co.noAppErr = true := by
  cases hco : r.co with
  | start =>
    simp [coStep, hco] at h; subst h; exact clean_awaitInit (issue_ne_app hna _ _)
  | awaitInit f =>
    cases f with
    | ok => simp [coStep, hco] at h; subst h; exact clean_awaitNext 0 (issue_ne_app hna _ _)
    | deadline => simp [coStep, hco] at h; subst h; rfl
    | appError => rw [hco] at hc; simp [CoSt.noAppErr] at hc
    | die => simp [coStep, hco] at h
    | restart => simp [coStep, hco] at h
  | awaitNext f pos =>
    cases f with
    | ok =>
      simp only [coStep, hco] at h
      split at h
      · split at h
        · simp at h; subst h; rfl
        · simp at h; subst h; exact clean_awaitNext _ (issue_ne_app hna _ _)
      · simp at h
    | deadline => simp [coStep, hco] at h; subst h; rfl
    | appError => rw [hco] at hc; simp [CoSt.noAppErr] at hc
    | die => simp [coStep, hco] at h
    | restart => simp [coStep, hco] at h
  | putDone => simp [coStep, hco] at h; subst h; rfl
  | finished => simp [coStep, hco] at h
  | raisedTimeout => simp [coStep, hco] at h
  | raisedErr => simp [coStep, hco] at h

theorem draw_failed (s : IT) : s.draw.failed = s.failed := by
  unfold IT.draw; split
  · split <;> rfl
  · rfl

theorem draw_running (s : IT) : s.draw.running = s.running := by
  unfold IT.draw; split
  · split <;> rfl
  · rfl

theorem draw_zombies (s : IT) : s.draw.zombies = s.zombies := by
  unfold IT.draw; split
  · split <;> rfl
  · rfl

structure CleanInv (s : IT) : Prop where
  nf : s.failed = []
  run : ∀ r ∈ s.running, r.co.noAppErr = true
  zom : ∀ r ∈ s.zombies, r.co.noAppErr = true

theorem cleanInv_init (nw n : Nat) : CleanInv (IT.init nw n) :=
  ⟨rfl, by simp [IT.init], by simp [IT.init]⟩

theorem mem_set_cases {α : Type} {l : List α} {i : Nat} {a x : α} (h : x ∈ l.set i a) : x ∈ l ∨ x = a := by
  rcases List.mem_or_eq_of_mem_set h with h | h
  · exact Or.inl h
  · exact Or.inr h

theorem cleanInv_step {c : ICfg} (hna : NoApp c.env) {s s' : IT} {l : ILabel}
    (inv : CleanInv s) (h : itStep c s l = some s') : CleanInv s' := by
  obtain ⟨nf, hrun, hzom⟩ := inv
  cases l with
  | submit w =>
    simp only [itStep] at h
    split at h
    · split at h
      · split at h
        · simp at h; subst h
          exact ⟨by rw [draw_failed]; exact nf, by rw [draw_running]; exact hrun, by rw [draw_zombies]; exact hzom⟩
        · simp at h; subst h
          refine ⟨by simp only [draw_failed]; exact nf, ?_, by simp only [draw_zombies]; exact hzom⟩
          intro r hr
          simp only [List.mem_append, List.mem_singleton] at hr
          rcases hr with hr | rfl
          · exact hrun r hr
          · rfl
      · simp at h
    · simp at h
  | co i k m =>
    simp only [itStep] at h
    split at h
    · simp at h
    · rename_i r hget
      split at h
      · simp at h
      · rename_i o hco
        simp at h; subst h
        refine ⟨nf, ?_, hzom⟩
        intro r' hr'
        rcases mem_set_cases hr' with hr' | rfl
        · exact hrun r' hr'
        · exact coStep_clean hna (hrun r (List.mem_of_getElem? hget)) hco
  | zco i k m =>
    simp only [itStep] at h
    split at h
    · simp at h
    · rename_i r hget
      split at h
      · simp at h
      · rename_i o hco
        simp at h; subst h
        refine ⟨nf, hrun, ?_⟩
        intro r' hr'
        rcases mem_set_cases hr' with hr' | rfl
        · exact hzom r' hr'
        · exact coStep_clean hna (hzom r (List.mem_of_getElem? hget)) hco
  | drain =>
    simp only [itStep] at h
    split at h
    · simp at h; subst h; exact ⟨nf, hrun, hzom⟩
    · simp at h
  | check i =>
    simp only [itStep] at h
    split at h
    · rename_i r _ hget
      have hr := hrun r (List.mem_of_getElem? hget)
      have herase : ∀ x ∈ s.running.eraseIdx i, x.co.noAppErr = true :=
        fun x hx => hrun x (List.mem_of_mem_eraseIdx hx)
      split at h
      · simp at h; subst h; exact ⟨nf, herase, hzom⟩
      · simp at h; subst h; exact ⟨nf, herase, hzom⟩
      · rename_i heq; rw [heq] at hr; simp [CoSt.noAppErr] at hr
      · split at h
        · simp at h
        · simp at h; subst h
          refine ⟨nf, herase, ?_⟩
          intro x hx
          simp only [List.mem_cons] at hx
          rcases hx with rfl | hx
          · exact hr
          · exact hzom x hx
    · simp at h
  | finish =>
    simp only [itStep] at h
    split at h
    · split at h
      · simp at h; subst h; exact ⟨nf, hrun, hzom⟩
      · simp at h
    · simp at h
  | merge =>
    simp only [itStep] at h
    split at h
    · simp at h; subst h; exact ⟨nf, hrun, hzom⟩
    · simp at h
  | mergeStop =>
    simp only [itStep] at h
    split at h
    · simp at h; subst h; exact ⟨nf, hrun, hzom⟩
    · simp at h
  | crash w =>
    simp only [itStep] at h
    split at h
    · simp at h; subst h; exact ⟨nf, hrun, hzom⟩
    · simp at h
  | rejoin w =>
    simp only [itStep] at h
    split at h
    · split at h
      · simp at h; subst h; exact ⟨nf, hrun, hzom⟩
      · simp at h
    · simp at h

theorem cleanInv_reach {c : ICfg} (hna : NoApp c.env) {nw : Nat} {s : IT}
    (h : IReach c (IT.init nw c.n) s) : CleanInv s := by
  induction h with
  | refl => exact cleanInv_init nw c.n
  | step l _ hs ih => exact cleanInv_step hna ih hs

end MlModel.Sched
