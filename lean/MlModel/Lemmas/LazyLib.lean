import MlModel.Lemmas.LazyBasic
/-! Facts about the callable library (`libVal`, `applyLib`). -/
namespace MlModel.Lazy
set_option linter.unusedSimpArgs false

theorem leafAllL_iff (p : Val → Bool) (xs : List Val) :
    Val.leafAllL p xs = true ↔ ∀ x ∈ xs, x.leafAll p = true := by
  induction xs with
  | nil => simp [Val.leafAllL]
  | cons a as ih => simp [Val.leafAllL, ih]

theorem leafAllF_iff (p : Val → Bool) (fs : List (String × Val)) :
    Val.leafAllF p fs = true ↔ ∀ q ∈ fs, q.2.leafAll p = true := by
  induction fs with
  | nil => simp [Val.leafAllF]
  | cons a as ih => obtain ⟨k, v⟩ := a; simp [Val.leafAllF, ih]

theorem bindRest_all {P : Val → Prop} {kvs : List (String × Val)} (hk : ∀ q ∈ kvs, P q.2) :
    ∀ (params : List (String × Option Val)) (out : List Val),
      (∀ q ∈ params, ∀ d, q.2 = some d → P d) → bindRest kvs params = .ok out → ∀ v ∈ out, P v
  | [], out, _, h => by simp [bindRest] at h; subst h; simp
  | (name, dflt) :: ps, out, hd, h => by
    simp only [bindRest] at h
    cases hr : bindRest kvs ps with
    | error e => simp [hr] at h
    | ok rest =>
      have ih := bindRest_all hk ps rest (fun q hq => hd q (List.mem_cons_of_mem _ hq)) hr
      simp only [hr] at h
      cases hf : kvs.find? (fun q => q.1 == name) with
      | some q =>
        simp only [hf] at h
        have hq : q ∈ kvs := List.mem_of_find?_eq_some hf
        injection h with h; subst h
        intro v hv
        rcases List.mem_cons.mp hv with e | e
        · rw [e]; exact hk q hq
        · exact ih v e
      | none =>
        cases dflt with
        | none => simp [hf, pyErr] at h
        | some d =>
          simp only [hf] at h
          injection h with h; subst h
          intro v hv
          rcases List.mem_cons.mp hv with e | e
          · rw [e]; exact hd (name, some d) (by simp) d rfl
          · exact ih v e

theorem bindArgs_all {P : Val → Prop} {params : List (String × Option Val)} {vs : List Val}
    {kvs : List (String × Val)} {out : List Val}
    (h : bindArgs params vs kvs = .ok out) (hv : ∀ v ∈ vs, P v) (hk : ∀ q ∈ kvs, P q.2)
    (hd : ∀ q ∈ params, ∀ d, q.2 = some d → P d) : ∀ v ∈ out, P v := by
  unfold bindArgs at h
  split at h
  · simp [pyErr] at h
  · split at h
    · simp [pyErr] at h
    · split at h
      · simp [pyErr] at h
      · cases hr : bindRest kvs (params.drop vs.length) with
        | error e => simp [hr] at h
        | ok rest =>
          simp only [hr] at h
          injection h with h; subst h
          intro v hv'
          rcases List.mem_append.mp hv' with e | e
          · exact hv v e
          · exact bindRest_all hk _ rest (fun q hq => hd q (List.mem_of_mem_drop hq)) hr v e

theorem pyIndex_mem {α : Type} {xs : List α} {i : Int} {a : α} (h : pyIndex xs i = some a) : a ∈ xs := by
  unfold pyIndex at h
  split at h
  · exact List.mem_of_getElem? h
  · split at h
    · exact List.mem_of_getElem? h
    · simp at h

theorem find?_leafAllF {p : Val → Bool} {fs : List (String × Val)} {n : String} {q : String × Val}
    (hf : Val.leafAllF p fs = true) (h : fs.find? (·.1 == n) = some q) : q.2.leafAll p = true :=
  (leafAllF_iff p fs).mp hf q (List.mem_of_find?_eq_some h)

end MlModel.Lazy

namespace MlModel.Lazy
set_option linter.unusedSimpArgs false

theorem dflt_ok (p : Val → Bool) (params : List (String × Option Val))
    (h : ∀ q ∈ params, ∀ d, q.2 = some d → ∃ n, d = .int n) :
    ∀ q ∈ params, ∀ d, q.2 = some d → d.leafAll p = true := by
  intro q hq d hd
  obtain ⟨n, rfl⟩ := h q hq d hd
  rfl

/-- The library never invents a callable or a handle: every `fn`/`handle` leaf of a result comes
from an argument. -/
theorem libVal_leafAll (p : Val → Bool) {name : String} {vs : List Val} {kvs : List (String × Val)}
    {c : Nat} {v : Val} {b : Bool}
    (hv : ∀ x ∈ vs, x.leafAll p = true) (hk : ∀ q ∈ kvs, q.2.leafAll p = true)
    (h : libVal name vs kvs c = (.ok v, b)) : v.leafAll p = true := by
  have hb : ∀ (params : List (String × Option Val)) (out : List Val),
      (∀ q ∈ params, ∀ d, q.2 = some d → ∃ n, d = .int n) →
      bindArgs params vs kvs = .ok out → ∀ x ∈ out, x.leafAll p = true :=
    fun params out hp ho => bindArgs_all ho hv hk (dflt_ok p params hp)
  unfold libVal at h
  split at h
  · -- add
    split at h <;> simp [pyErr] at h
    obtain ⟨rfl, _⟩ := h; rfl
  · -- mul
    split at h <;> simp [pyErr] at h
    obtain ⟨rfl, _⟩ := h; rfl
  · -- pair
    split at h <;> simp [pyErr] at h
    rename_i a b' hbind
    obtain ⟨rfl, _⟩ := h
    have := hb _ _ (by simp) hbind
    simp [Val.leafAll, Val.leafAllL, this]
  · -- len
    split at h <;> simp [pyErr] at h
    · obtain ⟨rfl, _⟩ := h; rfl
    · obtain ⟨rfl, _⟩ := h; rfl
  · -- ident
    split at h <;> simp [pyErr] at h
    rename_i x hbind
    obtain ⟨rfl, _⟩ := h
    exact hb _ _ (by simp) hbind _ (by simp)
  · -- mkrec
    split at h <;> simp [pyErr] at h
    obtain ⟨rfl, _⟩ := h
    simp [Val.leafAll, leafAllF_iff]; exact fun a b hq => hk (a, b) hq
  · -- counter
    split at h <;> simp [pyErr] at h
    obtain ⟨rfl, _⟩ := h; rfl
  · -- failneg
    split at h <;> simp [pyErr] at h
    split at h <;> simp [pyErr] at h
    obtain ⟨rfl, _⟩ := h; rfl
  · -- getattr
    split at h
    · simp [pyErr] at h
    · split at h
      · rename_i o n
        have ho : o.leafAll p = true := hv o (by simp)
        split at h
        · split at h <;> simp [pyErr] at h
          rename_i fs _ q w hfind
          obtain ⟨rfl, _⟩ := h
          simp only [Val.leafAll] at ho
          exact find?_leafAllF ho hfind
        · simp at h
        · simp [pyErr] at h
      · simp [pyErr] at h
  · -- getitem
    split at h
    · simp [pyErr] at h
    · split at h
      · rename_i o k
        have ho : o.leafAll p = true := hv o (by simp)
        split at h
        · split at h <;> simp [pyErr] at h
          rename_i hidx
          obtain ⟨rfl, _⟩ := h
          simp only [Val.leafAll] at ho
          exact (leafAllL_iff p _).mp ho _ (pyIndex_mem hidx)
        · simp [pyErr] at h
        · split at h <;> simp [pyErr] at h
          obtain ⟨rfl, _⟩ := h; rfl
        · simp [pyErr] at h
        · split at h <;> simp [pyErr] at h
          rename_i fs n _ q w hfind
          obtain ⟨rfl, _⟩ := h
          simp only [Val.leafAll] at ho
          exact find?_leafAllF ho hfind
        · simp [pyErr] at h
        · simp at h
        · simp [pyErr] at h
      · simp [pyErr] at h
  · simp [pyErr] at h

/-- Only `counter` looks at the counter. -/
theorem libVal_counter_indep {name : String} (hn : name ≠ "counter") (vs : List Val)
    (kvs : List (String × Val)) (c c' : Nat) : libVal name vs kvs c = libVal name vs kvs c' := by
  unfold libVal
  split <;> first | rfl | (exfalso; exact hn rfl)

end MlModel.Lazy

namespace MlModel.Lazy
set_option linter.unusedSimpArgs false

/-- The value part of `applyLib` is `libVal` on the value parts of the arguments. -/
theorem applyLib_val (name : String) (args : List RVal) (kw : List (String × RVal)) (w : World) :
    (applyLib name args kw w).1.map (·.1) =
      (libVal name (args.map (·.1)) (kw.map (fun p => (p.1, p.2.1))) w.counter).1 := by
  unfold applyLib
  simp only
  cases (libVal name (args.map (·.1)) (kw.map (fun p => (p.1, p.2.1))) w.counter).1 with
  | error e => rfl
  | ok v =>
    simp only
    split
    · rfl
    · split
      · rfl
      · split <;> rfl

theorem applyLib_leafAll (p : Val → Bool) {name : String} {args : List RVal} {kw : List (String × RVal)}
    {w w' : World} {rv : RVal}
    (ha : ∀ a ∈ args, a.1.leafAll p = true) (hk : ∀ q ∈ kw, q.2.1.leafAll p = true)
    (h : applyLib name args kw w = (.ok rv, w')) : rv.1.leafAll p = true := by
  have hv := applyLib_val name args kw w
  rw [h] at hv
  simp only [Except.map] at hv
  have : libVal name (args.map (·.1)) (kw.map (fun p => (p.1, p.2.1))) w.counter =
      (.ok rv.1, (libVal name (args.map (·.1)) (kw.map (fun p => (p.1, p.2.1))) w.counter).2) := by
    rw [hv]
  refine libVal_leafAll p ?_ ?_ this
  · intro x hx
    obtain ⟨a, ha', rfl⟩ := List.mem_map.mp hx
    exact ha a ha'
  · intro q hq
    obtain ⟨a, ha', rfl⟩ := List.mem_map.mp hq
    exact hk a ha'

theorem leafAll_noHandle_ne {v : Val} (h : v.leafAll noHandleP = true) : ∀ i, v ≠ .handle i := by
  intro i e; subst e; simp [Val.leafAll, noHandleP] at h

theorem leafAll_pure_noHandle {v : Val} (h : v.leafAll pureP = true) : ∀ i, v ≠ .handle i := by
  intro i e; subst e; simp [Val.leafAll, pureP] at h

/-- With no handle among the arguments, `_maybe_make(fn(*args, **kwargs))` for a named callable is
just the library call. -/
theorem applyMake_fn (p : Val → Bool) (hp : ∀ i, p (.handle i) = false)
    {name : String} {ref : Nat} {args : List RVal} {kw : List (String × RVal)}
    (ha : ∀ a ∈ args, a.1.leafAll p = true) (hk : ∀ q ∈ kw, q.2.1.leafAll p = true) (s : St) :
    applyMake (.fn name, ref) args kw s =
      ((applyLib name args kw s.w).1, { s with w := (applyLib name args kw s.w).2 }) := by
  have hne : ∀ {v : Val}, v.leafAll p = true → ∀ i, v ≠ .handle i := by
    intro v h i e; subst e; simp [Val.leafAll, hp] at h
  have hlift : (do let r ← liftLib name args kw; makeVal r : M RVal) s =
      ((applyLib name args kw s.w).1, { s with w := (applyLib name args kw s.w).2 }) := by
    cases hr : applyLib name args kw s.w with
    | mk r w' =>
      cases r with
      | error e =>
        have : liftLib name args kw s = (.error e, { s with w := w' }) := by simp [liftLib, hr]
        rw [bind_err this]
      | ok rv =>
        have hl : liftLib name args kw s = (.ok rv, { s with w := w' }) := by simp [liftLib, hr]
        rw [bind_ok hl, makeVal_not_handle (hne (applyLib_leafAll p ha hk hr))]
        rfl
  unfold applyMake
  simp only
  have hh : headIsHandle args = false := by
    cases args with
    | nil => rfl
    | cons a rest =>
      obtain ⟨v, r⟩ := a
      have := hne (ha (v, r) (by simp))
      cases v <;> first | rfl | exact absurd rfl (this _)
  simp only [hh, Bool.and_false, Bool.false_and, Bool.false_eq_true, if_false]
  exact hlift

end MlModel.Lazy
