import MlModel.Model.OwnerEnv
import MlModel.Lemmas.Registry
import MlModel.Lemmas.OwnerExit
/-! The product `Owner × liveness environment` (`Model/OwnerEnv.lean`): every execution projects to an
execution of the ownership LTS; the registry component moves by registry events only. -/
namespace MlModel.OwnerEnv
open MlModel.Owner

/-! ### projection to the ownership LTS -/

theorem ostep_base {pw : Pid → List Wid} {x x' : X} {t : Tid} {b : Bool} {f : Env → Env}
    (h : ostep pw x t b f = some x') : step? pw (fun _ => b) x.base t = some x'.base := by
  unfold ostep at h
  cases hs : step? pw (fun _ => b) x.base t with
  | none => simp [hs] at h
  | some c' => simp [hs] at h; subst h; rfl

@[simp] theorem settle_reg (e : Env) (t : Tid) (b : Bool) (r : Option Res) : (settle e t b r).reg = e.reg := by
  unfold settle; split
  · split <;> (try split) <;> rfl
  · rfl
@[simp] theorem settle_mic (e : Env) (t : Tid) (b : Bool) (r : Option Res) : (settle e t b r).mic = e.mic := by
  unfold settle; split
  · split <;> (try split) <;> rfl
  · rfl
@[simp] theorem settle_thr (e : Env) (t : Tid) (b : Bool) (r : Option Res) : (settle e t b r).thr = e.thr := by
  unfold settle; split
  · split <;> (try split) <;> rfl
  · rfl
@[simp] theorem settle_rl (e : Env) (t : Tid) (b : Bool) (r : Option Res) : (settle e t b r).rl = e.rl := by
  unfold settle; split
  · split <;> (try split) <;> rfl
  · rfl

theorem ostep_env {pw : Pid → List Wid} {x x' : X} {t : Tid} {b : Bool} {f : Env → Env}
    (h : ostep pw x t b f = some x') : ∃ i r, x'.env = settle (f x.env) t i r := by
  unfold ostep at h
  cases hs : step? pw (fun _ => b) x.base t with
  | none => simp [hs] at h
  | some c' => simp [hs] at h; subst h; exact ⟨_, _, rfl⟩

theorem ostep_reg {pw : Pid → List Wid} {x x' : X} {t : Tid} {b : Bool} {f : Env → Env}
    (h : ostep pw x t b f = some x') : x'.env.reg = (f x.env).reg := by
  obtain ⟨i, r, hi⟩ := ostep_env h; rw [hi, settle_reg]

theorem startPiece_base {pw : Pid → List Wid} {x x' : X} {t : Tid} {op : Op} {f : Env → Env}
    (h : startPiece pw x t op f = some x') : step? pw (fun _ => false) x.base t = some x'.base := by
  unfold startPiece at h
  split at h
  · split at h
    · exact ostep_base h
    · exact absurd h (by simp)
  · exact absurd h (by simp)

theorem startPiece_reg {pw : Pid → List Wid} {x x' : X} {t : Tid} {op : Op} {f : Env → Env}
    (h : startPiece pw x t op f = some x') : x'.env.reg = (f x.env).reg := by
  unfold startPiece at h
  split at h
  · split at h
    · exact ostep_reg h
    · exact absurd h (by simp)
  · exact absurd h (by simp)

@[simp] theorem setCtl_reg (e : Env) (t : Tid) (c : Ctl) : (setCtl e t c).reg = e.reg := rfl
@[simp] theorem popProg_reg (e : Env) (t : Tid) : (popProg e t).reg = e.reg := rfl

/-- the controller of `as_completed` (round 11): a step starts a piece or only moves the controller -/
theorem acExec_base {pw : Pid → List Wid} {x x' : X} {t : Tid} {act : AAct} (h : acExec pw x t act = some x') :
    x'.base = x.base ∨ ∃ u, step? pw u x.base t = some x'.base := by
  unfold acExec at h
  split at h
  · exact Or.inr ⟨_, startPiece_base h⟩
  · simp only [Option.some.injEq] at h; subst h; exact Or.inl rfl

theorem acExec_reg {pw : Pid → List Wid} {x x' : X} {t : Tid} {act : AAct} (h : acExec pw x t act = some x') :
    x'.env.reg = x.env.reg := by
  unfold acExec at h
  split at h
  · rw [startPiece_reg h]; rfl
  · simp only [Option.some.injEq] at h; subst h; rfl

theorem acstep_plan {pw : Pid → List Wid} {x x' : X} {t : Tid} {a : AC} (h : acstep pw x t a = some x') :
    ∃ act, acPlan a (x.base.T t).script.head? (lastRes x t) x.env.callSt (x.env.lastAlive t) (x.env.acRaced t)
      (decide (x.env.now - x.env.sticker t < x.env.thr)) ((x.env.tcalls t).getLast?.getD 0) = some act ∧
      acExec pw x t act = some x' := by
  unfold acstep at h
  split at h
  · exact ⟨_, by assumption, h⟩
  · exact absurd h (by simp)

theorem acstep_base {pw : Pid → List Wid} {x x' : X} {t : Tid} {a : AC} (h : acstep pw x t a = some x') :
    x'.base = x.base ∨ ∃ u, step? pw u x.base t = some x'.base := by
  obtain ⟨act, _, he⟩ := acstep_plan h; exact acExec_base he

theorem acstep_reg {pw : Pid → List Wid} {x x' : X} {t : Tid} {a : AC} (h : acstep pw x t a = some x') :
    x'.env.reg = x.env.reg := by
  obtain ⟨act, _, he⟩ := acstep_plan h; exact acExec_reg he

/-- A controller step starts a piece (an `Owner` step) or only moves the controller. -/
theorem cstep_base {pw : Pid → List Wid} {x x' : X} {t : Tid} {c : Ctl} (h : cstep pw x t c = some x') :
    x'.base = x.base ∨ ∃ u, step? pw u x.base t = some x'.base := by
  unfold cstep at h
  repeat' split at h
  all_goals first
    | exact Or.inr ⟨_, startPiece_base h⟩
    | exact acstep_base h
    | (simp only [Option.some.injEq, reduceCtorEq] at h; subst h; exact Or.inl rfl)
    | exact absurd h (by simp)

theorem cstep_reg {pw : Pid → List Wid} {x x' : X} {t : Tid} {c : Ctl} (h : cstep pw x t c = some x') :
    x'.env.reg = x.env.reg := by
  unfold cstep at h
  repeat' split at h
  all_goals first
    | (rw [startPiece_reg h]; rfl)
    | exact acstep_reg h
    | (simp only [Option.some.injEq, reduceCtorEq] at h; subst h; rfl)
    | exact absurd h (by simp)

/-- A step of the product is a step of `Owner` under some oracle value, or leaves the ownership
configuration untouched (registry-lock steps inside `is_alive`, environment threads, controller steps of the
composite operations that start no piece). -/
theorem xstep_base {pw : Pid → List Wid} {x x' : X} {t : Tid} (h : xstep? pw x t = some x') :
    x'.base = x.base ∨ ∃ u, step? pw u x.base t = some x'.base := by
  unfold xstep? at h
  repeat' split at h
  all_goals first
    | exact Or.inr ⟨_, ostep_base h⟩
    | exact Or.inr ⟨_, startPiece_base h⟩
    | exact cstep_base h
    | (simp only [Option.some.injEq, reduceCtorEq] at h; subst h; exact Or.inl rfl)
    | (simp only [Option.map_eq_some_iff] at h; obtain ⟨e', _, h⟩ := h; subst h; exact Or.inl rfl)
    | exact absurd h (by simp)

theorem XReach_base {pw : Pid → List Wid} {x0 x : X} (h : XReach pw x0 x) : Reach pw x0.base x.base := by
  induction h with
  | refl => exact .refl
  | step _ hs ih =>
    rcases xstep_base hs with h1 | ⟨u, h1⟩
    · rw [h1]; exact ih
    · exact .step ih ⟨_, u, h1⟩

theorem XReach_xrun {pw : Pid → List Wid} {x0 : X} (ts : List Tid) :
    ∀ x, XReach pw x0 x → XReach pw x0 (xrun pw x ts) := by
  induction ts with
  | nil => intro x h; exact h
  | cons t ts ih =>
    intro x h
    simp only [xrun]
    cases hs : xstep? pw x t with
    | none => simpa using ih x h
    | some x' => simpa using ih x' (.step h hs)

/-! ### the registry component -/

@[simp] theorem setMic_reg (e : Env) (t : Tid) (m : Micro) : (setMic e t m).reg = e.reg := rfl
@[simp] theorem setMic_thr (e : Env) (t : Tid) (m : Micro) : (setMic e t m).thr = e.thr := rfl
@[simp] theorem setCall_reg (e : Env) (id : Nat) (s : CSt) : (setCall e id s).reg = e.reg := rfl
@[simp] theorem submit_reg (e : Env) (m : Meth) : (e.submit m).1.reg = e.reg := rfl

@[simp] theorem afterScan_reg (e : Env) (t : Tid) (w : Wid) (r) : (afterScan e t w r).reg = e.reg := by
  obtain ⟨o, keep⟩ := r
  cases o with
  | none => rfl
  | some pr => rfl

@[simp] theorem finishAlive_reg (e : Env) (t : Tid) (w : Wid) (now0 last : Time) :
    (finishAlive e t w now0 last).reg = e.reg := by
  unfold finishAlive
  split
  · rfl
  · simp only [setMic_reg]; split <;> rfl

@[simp] theorem submitPlain_reg (e : Env) (t : Tid) (w : Wid) : (submitPlain e t w).reg = e.reg := rfl

@[simp] theorem afterAlive_reg (e : Env) (t : Tid) (k : K) (b : Bool) : (afterAlive e t k b).reg = e.reg := by
  unfold afterAlive
  split
  · split <;> rfl
  · rfl
  · rfl

@[simp] theorem afterAliveAC_reg (e : Env) (t : Tid) (k : K) (b : Bool) : (afterAliveAC e t k b).reg = e.reg := by
  unfold afterAliveAC
  simp only
  repeat' split
  all_goals simp [setCall]

@[simp] theorem startE_reg (e : Env) (t : Tid) (op : EOp) : (startE e t op).reg = e.reg := by
  cases op with
  | die w => rfl
  | revive w => rfl
  | send w al => rfl
  | tick d => rfl
  | shutdown w => rfl
  | deliver k fail =>
    simp only [startE]
    split
    · rfl
    · split
      · rfl
      · split
        · rfl
        · split <;> rfl

/-- The registry after a step is the registry before it with the step's events applied, in order. -/
theorem xstep_reg {pw : Pid → List Wid} {x x' : X} {t : Tid} (h : xstep? pw x t = some x') :
    x'.env.reg = Registry.run x.env.reg (regEvents x t) := by
  unfold xstep? at h
  unfold regEvents
  cases hcur : (x.base.T t).cur with
  | some ck =>
    obtain ⟨cl, k⟩ := ck
    simp only [hcur] at h ⊢
    cases hpc : cl.pc <;> simp only [hpc] at h ⊢
    case cExit =>
      cases hm : x.env.mic t <;> simp only [hm] at h ⊢ <;>
        first
        | (rw [ostep_reg h]; simp [Registry.run]; done)
        | (simp at h; done)
    case iEnter =>
      cases hm : x.env.mic t <;> simp only [hm] at h ⊢ <;>
        first
        | (rw [ostep_reg h]; simp [Registry.run]; done)
        | (split at h
           · simp only [Option.some.injEq] at h; subst h; simp [Registry.run]
           · simp at h)
        | (simp only [Option.some.injEq] at h; subst h; simp [Registry.run]; done)
    case iExit =>
      cases hm : x.env.mic t <;> simp only [hm] at h ⊢ <;>
        first
        | (rw [ostep_reg h]; simp [Registry.run]; done)
        | (split at h
           · simp only [Option.some.injEq] at h; subst h; simp [Registry.run, Registry.REv.apply]
           · simp at h)
        | (simp only [Option.some.injEq] at h; subst h; simp [Registry.run]; done)
        | (simp at h; done)
    all_goals (rw [ostep_reg h]; simp [Registry.run])
  | none =>
    simp only [hcur] at h ⊢
    cases hctl : x.env.ctl t with
    | idle =>
      simp only [hctl] at h ⊢
      cases hprog : x.env.prog t with
      | nil =>
        simp only [hprog] at h ⊢
        cases hsc : (x.base.T t).script with
        | cons op s =>
          simp only [hsc] at h ⊢
          rw [ostep_reg h]; rfl
        | nil =>
          simp only [hsc, Option.map_eq_some_iff] at h ⊢
          obtain ⟨e', he, h⟩ := h
          subst h
          unfold estep at he
          cases hm : x.env.mic t <;> simp only [hm] at he ⊢ <;>
            first
            | (simp at he; done)
            | (split at he
               · simp only [Option.some.injEq] at he; subst he
                 simp [Registry.run, Registry.REv.apply, Registry.heartbeatEvents]
               · simp at he)
            | (simp only [Option.some.injEq] at he; subst he; simp [Registry.run]; done)
            | (split at he
               · simp at he
               · simp only [Option.some.injEq] at he; subst he; simp [Registry.run])
      | cons top rest =>
        simp only [hprog] at h ⊢
        cases top with
        | prim =>
          simp only at h
          split at h
          · rw [ostep_reg h]; rfl
          · simp at h
        | run p r =>
          simp only [Option.some.injEq] at h; subst h; rfl
        | callAndWait p r =>
          simp only at h
          rw [startPiece_reg h]; rfl
        | submitNB p w r =>
          simp only at h
          rw [startPiece_reg h]; rfl
        | asCompleted p tasks ign take fixed =>
          simp only at h
          rw [startPiece_reg h]; rfl
    | _ =>
      all_goals
        simp only [hctl] at h ⊢
        rw [cstep_reg h]; rfl

/-- **Dead stays dead under every schedule.**  Along any replayed schedule of the product in which no
executed step performs a `register a`, a dead entry stays dead. -/
theorem xrun_dead {pw : Pid → List Wid} (a : Wid) (ts : List Tid) :
    ∀ x : X, x.env.reg a = some none → NoRegister pw a x ts → (xrun pw x ts).env.reg a = some none := by
  induction ts with
  | nil => intro x h _; exact h
  | cons t ts ih =>
    intro x h hno
    simp only [xrun]
    obtain ⟨h1, h2⟩ := hno
    cases hs : xstep? pw x t with
    | none => simp only [hs, Option.getD_none] at h2 ⊢; exact ih x h h2
    | some x' =>
      simp only [hs, Option.getD_some] at h2 ⊢
      refine ih x' ?_ h2
      rw [xstep_reg hs]
      exact Registry.dead_stable_run a _ _ h (h1 (by simp [hs]))

/-- **Monotone under every schedule.**  Along any replayed schedule in which no executed step performs an
`unregister a`, a live entry stays live and its recorded heartbeat does not decrease. -/
theorem xrun_mono {pw : Pid → List Wid} (a : Wid) (ts : List Tid) :
    ∀ (x : X) (l : Time), x.env.reg a = some (some l) → NoUnregister pw a x ts →
      ∃ l', (xrun pw x ts).env.reg a = some (some l') ∧ l ≤ l' := by
  induction ts with
  | nil => intro x l h _; exact ⟨l, h, Int.le_refl _⟩
  | cons t ts ih =>
    intro x l h hno
    simp only [xrun]
    obtain ⟨h1, h2⟩ := hno
    cases hs : xstep? pw x t with
    | none => simp only [hs, Option.getD_none] at h2 ⊢; exact ih x l h h2
    | some x' =>
      simp only [hs, Option.getD_some] at h2 ⊢
      obtain ⟨l1, hl1, hle1⟩ := Registry.live_mono_run a _ _ l h (h1 (by simp [hs]))
      rw [← xstep_reg hs] at hl1
      obtain ⟨l2, hl2, hle2⟩ := ih x' l1 hl1 h2
      exact ⟨l2, hl2, Int.le_trans hle1 hle2⟩

/-! ### the verdict of `is_alive` -/

/-- The step that reads the registry inside `is_alive` (under the registry lock). -/
theorem xstep_getAcq {pw : Pid → List Wid} {x x' : X} {t : Tid} {cl : Call} {k : K} {now0 : Time}
    (hcur : (x.base.T t).cur = some (cl, k)) (hpc : cl.pc = .iExit) (hm : x.env.mic t = .getAcq now0)
    (h : xstep? pw x t = some x') :
    x'.base = x.base ∧ x'.env.mic t = .getRel now0 (Registry.get x.env.reg cl.w) ∧ x.env.rl = none := by
  unfold xstep? at h
  simp only [hcur, hpc, hm] at h
  split at h
  · rename_i hrl
    simp only [Option.some.injEq] at h; subst h
    exact ⟨rfl, by simp [setMic], hrl⟩
  · exact absurd h (by simp)

/-- The step that leaves `get` computes the verdict: `now₀ - last < thr`, nothing else. -/
theorem xstep_getRel {pw : Pid → List Wid} {x x' : X} {t : Tid} {cl : Call} {k : K} {now0 last : Time}
    (hcur : (x.base.T t).cur = some (cl, k)) (hpc : cl.pc = .iExit) (hm : x.env.mic t = .getRel now0 last)
    (h : xstep? pw x t = some x') :
    x'.base = x.base ∧ x'.env.mic t = .exit (Registry.fresh now0 last x.env.thr) := by
  unfold xstep? at h
  simp only [hcur, hpc, hm, Option.some.injEq] at h
  subst h
  refine ⟨rfl, ?_⟩
  unfold finishAlive
  split
  · rename_i hf; simp [setMic, hf]
  · rename_i hf
    have hf' : Registry.fresh now0 last x.env.thr = false := by simpa using hf
    simp [setMic, hf']

/-- The last step of `is_alive` returns the verdict to the pool operation: it is the `Owner` step
`iExit` under the oracle value `b`. -/
theorem xstep_iExit {pw : Pid → List Wid} {x x' : X} {t : Tid} {cl : Call} {k : K} {b : Bool}
    (hcur : (x.base.T t).cur = some (cl, k)) (hpc : cl.pc = .iExit) (hm : x.env.mic t = .exit b)
    (h : xstep? pw x t = some x') :
    step? pw (fun _ => b) x.base t = some x'.base := by
  unfold xstep? at h
  simp only [hcur, hpc, hm] at h
  exact ostep_base h

end MlModel.OwnerEnv
