import MlModel.Model.Merged
/-! Lemmas about `_RangeIterator` (`fill`/`next`/`nexts`) and the chain of range iterators. -/
namespace MlModel.Merged

def ofExcept {α : Type} : Except ErrKind α → Outcome α
  | .ok a => .val a
  | .error e => .raise e

/-- What is still to be delivered from the source: per index the element or one raise. -/
def pending {α : Type} (src : Src α) (stop i : Nat) : List (Outcome α) :=
  (List.range' i (stop - i)).map fun j => ofExcept (src.get j)

/-- What is still to be delivered by an iterator state: the cache, then the pending indices. -/
def remaining {α : Type} (src : Src α) (stop : Nat) (st : RSt α) : List (Outcome α) :=
  st.cache.map .val ++ pending src stop st.i

/-- Contract of a random-access source of length `len`: a slice `data[i:j]` (`j <= len`) that
succeeds returns exactly the elements that element access returns (all of them succeeding). -/
def SliceOK {α : Type} (src : Src α) (len : Nat) : Prop :=
  ∀ i j l, j ≤ len → src.slice i j = .ok l → (List.range' i (j - i)).map src.get = l.map .ok

def emitErr {α : Type} : Option ErrKind → List (Outcome α)
  | some e => [.raise e]
  | none => []

theorem pending_ge {α : Type} (src : Src α) (stop i : Nat) (h : stop ≤ i) : pending src stop i = [] := by
  unfold pending
  have : stop - i = 0 := by omega
  simp [this]

theorem pending_lt {α : Type} (src : Src α) (stop i : Nat) (h : i < stop) :
    pending src stop i = ofExcept (src.get i) :: pending src stop (i + 1) := by
  unfold pending
  have : stop - i = (stop - (i + 1)) + 1 := by omega
  rw [this, List.range'_succ]
  simp

theorem pending_split {α : Type} (src : Src α) (stop i b : Nat) (h : i + b ≤ stop) :
    pending src stop i = (List.range' i b).map (fun j => ofExcept (src.get j)) ++ pending src stop (i + b) := by
  unfold pending
  have : stop - i = b + (stop - (i + b)) := by omega
  rw [this, ← List.range'_append_1, List.map_append]

theorem fill_spec {α : Type} (src : Src α) (len : Nat) (hs : SliceOK src len) (stop : Nat) (hstop : stop ≤ len)
    (i bs : Nat) (hbs : 1 ≤ bs) :
    emitErr (fill src stop i bs).1 ++ remaining src stop (fill src stop i bs).2 = pending src stop i ∧
    1 ≤ (fill src stop i bs).2.bs ∧
    ((fill src stop i bs).1 = none → (fill src stop i bs).2.cache = [] → stop ≤ (fill src stop i bs).2.i) := by
  fun_induction fill src stop i bs with
  | case1 i bs h hb b l hsl hemp ih =>
    -- slice ok but empty: impossible under the contract
    exfalso
    have hble : i + b ≤ stop := by show i + (min (i + bs) stop - i) ≤ stop; omega
    have hc := hs i (i + b) l (by omega) hsl
    have hl : l = [] := by simpa using hemp
    subst hl
    have hb1 : 1 ≤ b := by show 1 ≤ min (i + bs) stop - i; omega
    have : (i + b - i) = b := by omega
    rw [this] at hc
    have := congrArg List.length hc
    simp at this
    omega
  | case2 i bs h hb b l hsl hemp =>
    have hble : i + b ≤ stop := by show i + (min (i + bs) stop - i) ≤ stop; omega
    have hc := hs i (i + b) l (by omega) hsl
    have hbe : i + b - i = b := by omega
    rw [hbe] at hc
    refine ⟨?_, hbs, ?_⟩
    · simp only [emitErr, List.nil_append, remaining]
      rw [pending_split src stop i b hble]
      congr 1
      have : (List.range' i b).map (fun j => ofExcept (src.get j))
          = ((List.range' i b).map src.get).map ofExcept := by simp
      rw [this, hc]
      simp [ofExcept]
    · intro _ hcache
      simp at hcache
      simp [hcache] at hemp
  | case3 i bs h hb b e hsl ih =>
    exact ih (by omega)
  | case4 i bs h hb a hg =>
    have : bs = 1 := by omega
    subst this
    refine ⟨?_, hbs, ?_⟩
    · simp only [emitErr, List.nil_append, remaining, List.map_cons, List.map_nil, List.singleton_append]
      rw [pending_lt src stop i h, hg]
      rfl
    · intro _ hc; simp at hc
  | case5 i h e hg _ =>
    refine ⟨?_, hbs, ?_⟩
    · simp only [emitErr, remaining, List.map_nil, List.nil_append, List.singleton_append]
      rw [pending_lt src stop i h, hg]
      rfl
    · intro hc; simp at hc
  | case6 i bs h hb e hg hb1 ih =>
    exact ih (by omega)
  | case7 i bs h =>
    refine ⟨?_, hbs, ?_⟩
    · simp [emitErr, remaining, pending_ge src stop i (by omega)]
    · intro _ _; simp; omega


/-- One `next` call delivers the head of what remains (or `stop` when nothing remains). -/
theorem next_spec {α : Type} (src : Src α) (len : Nat) (hs : SliceOK src len) (stop : Nat) (hstop : stop ≤ len)
    (st : RSt α) (hbs : 1 ≤ st.bs) :
    1 ≤ (next src stop st).2.bs ∧
    ((remaining src stop st = [] ∧ (next src stop st).1 = .stop ∧ remaining src stop (next src stop st).2 = []) ∨
     ((next src stop st).1 ≠ .stop ∧
      remaining src stop st = (next src stop st).1 :: remaining src stop (next src stop st).2)) := by
  unfold next
  cases hc : st.cache with
  | cons a c =>
    simp only []
    refine ⟨hbs, Or.inr ⟨by simp, ?_⟩⟩
    simp [remaining, hc]
  | nil =>
    simp only []
    obtain ⟨h1, h2, h3⟩ := fill_spec src len hs stop hstop st.i st.bs hbs
    have hrem : remaining src stop st = pending src stop st.i := by simp [remaining, hc]
    cases he : (fill src stop st.i st.bs).1 with
    | some e =>
      simp only []
      refine ⟨h2, Or.inr ⟨by simp, ?_⟩⟩
      rw [hrem, ← h1, he]; rfl
    | none =>
      simp only []
      rw [he] at h1
      simp only [emitErr, List.nil_append] at h1
      cases hc2 : (fill src stop st.i st.bs).2.cache with
      | cons a c =>
        simp only []
        refine ⟨h2, Or.inr ⟨by simp, ?_⟩⟩
        rw [hrem, ← h1]
        simp [remaining, hc2]
      | nil =>
        simp only []
        have hge := h3 he hc2
        have hz : remaining src stop (fill src stop st.i st.bs).2 = [] := by
          simp [remaining, hc2, pending_ge src stop _ hge]
        refine ⟨h2, Or.inl ⟨?_, trivial, hz⟩⟩
        rw [hrem, ← h1, hz]

theorem take_append_replicate_succ {β : Type} (o : β) (r : List β) (x : β) (n : Nat) :
    ((o :: r) ++ List.replicate (n + 1) x).take (n + 1) = o :: (r ++ List.replicate n x).take n := by
  simp only [List.cons_append, List.take_succ_cons]
  congr 1
  rw [List.replicate_succ', ← List.append_assoc, List.take_append_of_le_length (by simp)]

/-- **Any** number of `next` calls: the remaining outcomes in order, then `StopIteration` for ever. -/
theorem nexts_spec {α : Type} (src : Src α) (len : Nat) (hs : SliceOK src len) (stop : Nat)
    (hstop : stop ≤ len) (n : Nat) (st : RSt α) (hbs : 1 ≤ st.bs) :
    nexts src stop n st = (remaining src stop st ++ List.replicate n Outcome.stop).take n := by
  induction n generalizing st with
  | zero => simp [nexts]
  | succ n ih =>
    unfold nexts
    simp only []
    obtain ⟨h1, h2⟩ := next_spec src len hs stop hstop st hbs
    rw [ih _ h1]
    rcases h2 with ⟨ha, hb, hc⟩ | ⟨_, hb⟩
    · rw [ha, hb, hc]
      simp [List.replicate_succ]
    · rw [hb, take_append_replicate_succ]


/-! ### `itertools.chain` over range iterators -/

def chainRemaining {α : Type} (its : List (RIter α)) : List (Outcome α) :=
  its.flatMap fun it => remaining it.src it.stop it.st

/-- Every iterator of the chain reads a source that honours the slice contract, within its length,
with a positive read-ahead. -/
def ChainOK {α : Type} (its : List (RIter α)) : Prop :=
  ∀ it ∈ its, ∃ len, SliceOK it.src len ∧ it.stop ≤ len ∧ 1 ≤ it.st.bs

theorem chainNext_spec {α : Type} (its : List (RIter α)) (h : ChainOK its) :
    ChainOK (chainNext its).2 ∧
    ((chainRemaining its = [] ∧ (chainNext its).1 = .stop ∧ chainRemaining (chainNext its).2 = []) ∨
     ((chainNext its).1 ≠ .stop ∧ chainRemaining its = (chainNext its).1 :: chainRemaining (chainNext its).2)) := by
  induction its with
  | nil =>
    refine ⟨by intro it hit; simp [chainNext] at hit, Or.inl ?_⟩
    simp [chainNext, chainRemaining]
  | cons it rest ih =>
    obtain ⟨len, hs, hstop, hbs⟩ := h it (by simp)
    have hrest : ChainOK rest := fun x hx => h x (by simp [hx])
    obtain ⟨h1, h2⟩ := next_spec it.src len hs it.stop hstop it.st hbs
    unfold chainNext
    simp only []
    rcases h2 with ⟨ha, hb, _⟩ | ⟨hb, hc⟩
    · rw [hb]
      simp only []
      have : chainRemaining (it :: rest) = chainRemaining rest := by
        simp [chainRemaining, ha]
      rw [this]
      exact ih hrest
    · have hok : ChainOK ({ it with st := (next it.src it.stop it.st).2 } :: rest) := by
        intro x hx
        simp only [List.mem_cons] at hx
        rcases hx with hx | hx
        · subst hx; exact ⟨len, hs, hstop, h1⟩
        · exact hrest x hx
      have hrem : chainRemaining (it :: rest) = (next it.src it.stop it.st).1 ::
          chainRemaining ({ it with st := (next it.src it.stop it.st).2 } :: rest) := by
        simp [chainRemaining, hc]
      cases ho : (next it.src it.stop it.st).1 with
      | stop => exact absurd ho hb
      | val a =>
        simp only []
        rw [ho] at hrem
        exact ⟨hok, Or.inr ⟨by simp, hrem⟩⟩
      | raise e =>
        simp only []
        rw [ho] at hrem
        exact ⟨hok, Or.inr ⟨by simp, hrem⟩⟩

theorem chainNexts_spec {α : Type} (n : Nat) (its : List (RIter α)) (h : ChainOK its) :
    chainNexts n its = (chainRemaining its ++ List.replicate n Outcome.stop).take n := by
  induction n generalizing its with
  | zero => simp [chainNexts]
  | succ n ih =>
    unfold chainNexts
    simp only []
    obtain ⟨h1, h2⟩ := chainNext_spec its h
    rw [ih _ h1]
    rcases h2 with ⟨ha, hb, hc⟩ | ⟨_, hb⟩
    · rw [ha, hb, hc]
      simp [List.replicate_succ]
    · rw [hb, take_append_replicate_succ]

end MlModel.Merged
