import MlModel.Lemmas.TreeClosed
/-!
# In-place `_set_by_path` writes only cells on the key path
-/
namespace MlModel.Tree

/-- the buffer of the array object in cell `r` (nothing for any other object) -/
def ndBuf (h : Heap) (r : Ref) : List Ref :=
  match h[r]? with
  | some (.nd b _ _) => [b]
  | _ => []

/-- The cells met when walking `p` from `r` in `h` — the only cells an in-place set may write; when the
walk arrives at an ndarray with keys still to go, its **buffer** is such a cell (the array object itself is
never written: `arr[i] = x` changes elements, not the object). -/
def pathCells (h : Heap) : Ref → Path → List Ref
  | _, [] => []
  | _, .self :: _ => []
  | _, .skip :: _ => []
  | r, k :: ks => r :: (ndBuf h r ++ (match index h r k with
      | .ok c => pathCells h c ks
      | .error _ => []))

theorem pathCells_cons {h : Heap} {r : Ref} {k : PKey} {ks : Path} (h1 : k ≠ .self) (h2 : k ≠ .skip) :
    pathCells h r (k :: ks) = r :: (ndBuf h r ++ (match index h r k with
      | .ok c => pathCells h c ks
      | .error _ => [])) := by
  cases k <;> simp_all [pathCells]

theorem FrameExcept.of_fresh {S : Ref → Prop} {h h' : Heap} (f : FrameExcept (fun r => S r ∨ h.size ≤ r) h h') :
    FrameExcept S h h' :=
  ⟨f.1, fun r hr hn => f.2 r hr (fun hs => by rcases hs with hs | hs; exact hn hs; omega)⟩

/-- `setNd_frame` with the hypothesis on the recursion only for the call that is made. -/
theorem setNd_frame' {S : Ref → Prop} {R : Heap → Ref → Res Ref}
    (inPlace : Bool) (h : Heap) (tree b off : Nat) (shape : List Nat) (k : PKey)
    (hb : S (ndPre inPlace h tree b off shape).2.2.1)
    (hR : ∀ o inner, FrameExcept S (ndItem (ndPre inPlace h tree b off shape).1
        (ndPre inPlace h tree b off shape).2.2.1 o inner).1
      (R (ndItem (ndPre inPlace h tree b off shape).1 (ndPre inPlace h tree b off shape).2.2.1 o inner).1
        (ndItem (ndPre inPlace h tree b off shape).1 (ndPre inPlace h tree b off shape).2.2.1 o inner).2).1) :
    FrameExcept S h (setNd R inPlace h tree b off shape k).1 := by
  rw [setNd_unfold]
  have hp := ndPre_frame S inPlace h tree b off shape
  split
  · exact hp
  · split
    · exact hp
    · split
      · exact hp
      · split
        · exact hp
        · rename_i n inner _ i _ _ _ j _
          have hi := (ndItem_extends (ndPre inPlace h tree b off (n :: inner)).1
            (ndPre inPlace h tree b off (n :: inner)).2.2.1
            ((ndPre inPlace h tree b off (n :: inner)).2.2.2 + j * prod inner) inner).frame S
          have hr := hR ((ndPre inPlace h tree b off (n :: inner)).2.2.2 + j * prod inner) inner
          split
          · rename_i h3 e hRe
            rw [hRe] at hr
            exact hp.trans (hi.trans hr)
          · rename_i h3 c hRe
            rw [hRe] at hr
            split
            · exact hp.trans (hi.trans hr)
            · exact hp.trans (hi.trans (hr.trans (ndWrite_frame _ _ _ hb)))

/-- the cells an in-place set below a fresh item of an array (`arr[j]`: a scalar or a view) may write -/
theorem pathCells_ndItem {h : Heap} {b : Ref} (o : Nat) (inner : List Nat) (rest : Path) :
    ∀ r ∈ pathCells (ndItem h b o inner).1 (ndItem h b o inner).2 rest, r = h.size ∨ r = b := by
  obtain ⟨nn, h1, h2, hnn⟩ := ndItem_fst h b o inner
  rw [h1, h2]
  have hcell : (h.push nn)[h.size]? = some nn := push_get_size h nn
  intro r hr
  cases rest with
  | nil => simp [pathCells] at hr
  | cons k ks =>
    by_cases hk1 : k = .self
    · subst hk1; simp [pathCells] at hr
    by_cases hk2 : k = .skip
    · subst hk2; simp [pathCells] at hr
    rw [pathCells_cons hk1 hk2, index_of_get hcell] at hr
    rcases hnn with ⟨rfl, _⟩ | ⟨rfl, _⟩
    · simp [ndBuf, hcell, Node.slotGet] at hr; exact Or.inl hr
    · simp [ndBuf, hcell, Node.slotGet] at hr; exact hr

theorem setSeq_frame' {S : Ref → Prop} {R : Heap → Ref → Res Ref} (h1 : Heap) {res : Ref} (rs : List Ref)
    (k : PKey) (hres : S res)
    (hR : ∀ i j child, k.asInt = some i → resolveIdx (seqPre h1 res rs i).2.length i = some j →
      (seqPre h1 res rs i).2[j]? = some child →
      FrameExcept S (seqPre h1 res rs i).1 (R (seqPre h1 res rs i).1 child).1) :
    FrameExcept S h1 (setSeq R h1 res rs k).1 := by
  rw [setSeq_unfold]
  split
  · exact FrameExcept.refl _ _
  · rename_i i hi
    have hp := seqPre_frame (S := S) h1 rs i hres
    split
    · exact hp
    · rename_i j hj
      split
      · exact hp
      · rename_i child hch
        have hr := hR i j child hi hj hch
        split
        · rename_i h3 c hRe
          rw [hRe] at hr
          have ha := assign_frame (S := S) h3 k c hres
          split
          · rename_i h4 he; rw [he] at ha; exact hp.trans (hr.trans ha)
          · rename_i h4 _ he; rw [he] at ha; exact hp.trans (hr.trans ha)
        · rename_i h3 _ hRe
          rw [hRe] at hr
          exact hp.trans hr

theorem setMap_frame' {S : Ref → Prop} {R : Heap → Ref → Res Ref} (h1 : Heap) {res : Ref}
    (es : List (DKey × Ref)) (k : PKey) (hres : S res)
    (hR : FrameExcept S (mapPre h1 es k).1 (R (mapPre h1 es k).1 (mapPre h1 es k).2).1) :
    FrameExcept S h1 (setMap R h1 res es k).1 := by
  rw [setMap_unfold]
  have hp := mapPre_frame S h1 es k
  split
  · rename_i h3 c hRe
    rw [hRe] at hR
    have ha := assign_frame (S := S) h3 k c hres
    split
    · rename_i h4 he; rw [he] at ha; exact hp.trans (hR.trans ha)
    · rename_i h4 _ he; rw [he] at ha; exact hp.trans (hR.trans ha)
  · rename_i h3 _ hRe
    rw [hRe] at hR
    exact hp.trans hR

/-- Setting into a `NullMap` only allocates (either mode). -/
theorem setPath_null_extends (strict inPlace : Bool) {h : Heap} {c : Ref} (hn : h[c]? = some .null)
    (p : Path) (v : Ref) : Extends h (setPath strict inPlace h c p v).1 := by
  cases p with
  | nil => simp [setPath]; exact Extends.refl _
  | cons k rest =>
    by_cases hk1 : k = .self
    · subst hk1; simp [setPath]; exact Extends.refl _
    by_cases hk2 : k = .skip
    · subst hk2; simp [setPath]; exact Extends.refl _
    rw [setPath.eq_4 _ _ _ _ _ _ _ hk1 hk2, hn]
    simp only
    split
    · exact Extends.refl _
    · exact defaultTree_extends _ _ _

/-- **In-place set writes only cells on the key path**: every other pre-existing cell is unchanged. -/
theorem setPath_inplace_frame (strict : Bool) (p : Path) : ∀ (h : Heap) (t v : Ref),
    FrameExcept (· ∈ pathCells h t p) h (setPath strict true h t p v).1 := by
  induction p with
  | nil => intro h t v; simp [setPath]; exact FrameExcept.refl _ _
  | cons k rest ih =>
    intro h t v
    by_cases hk1 : k = .self
    · subst hk1; simp [setPath]; exact FrameExcept.refl _ _
    by_cases hk2 : k = .skip
    · subst hk2; simp [setPath]; exact FrameExcept.refl _ _
    rw [setPath.eq_4 _ _ _ _ _ _ _ hk1 hk2]
    have hS : t ∈ pathCells h t (k :: rest) := by rw [pathCells_cons hk1 hk2]; simp
    split
    · exact FrameExcept.refl _ _
    · split
      · exact FrameExcept.refl _ _
      · exact (defaultTree_extends _ _ _).frame _
    · exact FrameExcept.refl _ _
    · simp only [if_true]; exact FrameExcept.refl _ _
    · -- list, in place: res = tree
      rename_i rs hn
      simp only [if_true]
      have hf : FrameExcept (· ∈ pathCells h t (k :: rest)) h
          (setSeq (fun h' c => setPath strict true h' c rest v) h t rs k).1 := by
        apply setSeq_frame' h rs k hS
        intro i j child hi hj hch
        by_cases hlen : i = (rs.length : Int)
        · -- appended NullMap: the recursion only allocates
          have hpre : seqPre h t rs i = (write (h.push .null) t (.list (rs ++ [h.size])), rs ++ [h.size]) := by
            simp [seqPre, hlen]
          rw [hpre] at hj hch ⊢
          simp only at hj hch ⊢
          have hjl : j = rs.length := by
            rw [hlen] at hj
            simp only [List.length_append, List.length_singleton] at hj
            rw [resolveIdx_len] at hj
            cases hj; rfl
          subst hjl
          have hchild : child = h.size := by simpa using hch.symm
          subst hchild
          have htlt : t < h.size := lt_size_of_get hn
          have hnull : (write (h.push .null) t (.list (rs ++ [h.size])))[h.size]? = some .null := by
            have hne : h.size ≠ t := by omega
            rw [write_get_ne _ _ hne]; exact push_get_size _ _
          exact (setPath_null_extends strict true hnull rest v).frame _
        · have hpre : seqPre h t rs i = (h, rs) := by simp [seqPre, hlen]
          rw [hpre] at hj hch ⊢
          simp only at hj hch ⊢
          have hidx : index h t k = .ok child := by
            simp [index_of_get hn, Node.slotGet, seqGet, hi, hj, hch]
          refine (ih h child v).mono ?_
          intro r hr
          rw [pathCells_cons hk1 hk2, hidx]
          simp [hr]
      split
      · rename_i h2 he; rw [he] at hf; exact hf
      · rename_i h2 e he; rw [he] at hf; exact hf
    · -- dict, in place
      rename_i es hn
      simp only [if_true]
      have hf : FrameExcept (· ∈ pathCells h t (k :: rest)) h
          (setMap (fun h' c => setPath strict true h' c rest v) h t es k).1 := by
        apply setMap_frame' h es k hS
        cases hg : dictGet es k.toDKey with
        | some child =>
          have hpre : mapPre h es k = (h, child) := by simp [mapPre, hg]
          rw [hpre]
          have hidx : index h t k = .ok child := by simp [index_of_get hn, Node.slotGet, hg]
          refine (ih h child v).mono ?_
          intro r hr
          rw [pathCells_cons hk1 hk2, hidx]
          simp [hr]
        | none =>
          have hpre : mapPre h es k = (h.push .null, h.size) := by simp [mapPre, hg]
          rw [hpre]
          exact (setPath_null_extends strict true (push_get_size h .null) rest v).frame _
      split
      · rename_i h2 he; rw [he] at hf; exact hf
      · rename_i h2 e he; rw [he] at hf; exact hf

    · -- ndarray, in place: the caller's buffer is written (through views of it), nothing else
      rename_i b off shape hn
      have hbS : b ∈ pathCells h t (k :: rest) := by
        rw [pathCells_cons hk1 hk2]; simp [ndBuf, hn]
      apply FrameExcept.of_fresh
      apply setNd_frame' true h t b off shape k (Or.inl (by simpa [ndPre] using hbS))
      intro o inner
      simp only [ndPre, if_true]
      refine (ih _ _ v).mono ?_
      intro r hr
      rcases pathCells_ndItem o inner rest r hr with e | e
      · exact Or.inr (by omega)
      · exact Or.inl (e ▸ hbS)
    · exact FrameExcept.refl _ _

end MlModel.Tree
