import MlModel.Lemmas.PrefetchStates
/-!
# The shutdown flag, the shutdown callback and `_init_iterator`'s two looks at the flag

`_init_iterator` (courier_server.py:399-436) looks at `self._shutdown_requested` TWICE: on entry (fused into the
request's `start` step) and again under the generator lock (the `acquire gen` step, `Pc.lkAcq`).  Between the two the
request is parked on its pending `acquire gen` — a pre-emption point of the LTS — so "a shutdown runs to completion
inside the window" is a schedule the LTS has.  `step_sdeff` classifies every step by what it does to the flag, to
`serverUp` (cleared by the server thread's `release gen` at the end of its shutdown callback, fused with
`self._server.Stop()`) and to the program points that matter; `SdInv` is the invariant:

* a server thread that is past its wait loop saw the flag set, and the flag is never cleared;
* once the shutdown callback has completed (`serverUp = false`) no `init_generator` request — healthy or failing —
  is inside the locked region before its installation (`lkStop`, `lkJoin`, `iiSpawn`).
-/
namespace MlModel.Prefetch
set_option linter.unusedSimpArgs false
set_option linter.unusedVariables false

/-- program points of a server thread after it has left the wait loop of `run_until_shutdown` -/
def pastWait : Pc → Bool
  | .mnRel | .mnStA | .lkAcq | .lkStop | .lkJoin | .lkRel | .mnStR | .done => true
  | _ => false

/-- the program points a server thread (`Prog.main`) can be at -/
def mainPc : Pc → Bool
  | .start | .done | .mnAcq | .mnWait | .mnWake | .mnTxA | .mnTxR | .mnRel | .mnStA | .mnStR
  | .lkAcq | .lkStop | .lkJoin | .lkRel => true
  | _ => false

/-- inside `with self._generator_lock:` of `_init_iterator`, past the locked look at the flag, before the release -/
def inReg : Pc → Bool
  | .lkStop | .lkJoin | .iiSpawn => true
  | _ => false

/-- an `init_generator` request (bare or as the first call of a client loop; healthy or failing construction) -/
def isInit : Prog → Bool
  | .client _ _ | .initIter _ | .initFail _ _ => true
  | _ => false

theorem isInit_of_gen {pr : Prog} (h : (gen? pr).isSome = true) : isInit pr = true := by
  cases pr <;> simp_all [gen?, isInit]

/-- what one step of thread `tid` does to the shutdown flag and to `serverUp` -/
structure SdEff (c c' : Cfg) (tid : Queue.Tid) (t t' : Thread) : Prop where
  /-- the flag is never cleared -/
  flag : c.sh.shutdownRequested = true → c'.sh.shutdownRequested = true
  /-- `serverUp` changes only at the end of a server thread's shutdown callback -/
  up : c'.sh.serverUp = c.sh.serverUp ∨ (t.prog = .main ∧ t.pc = .lkRel ∧ c'.sh.serverUp = false)
  /-- a server thread leaves its wait loop only with the flag set -/
  past : t.prog = .main → mainPc t.pc = true →
    mainPc t'.pc = true ∧ (pastWait t'.pc = true → pastWait t.pc = true ∨ c.sh.shutdownRequested = true)
  /-- an `init_generator` request gets past its locked look at the flag only when the flag is clear -/
  enter : isInit t.prog = true → inReg t'.pc = true → inReg t.pc = false →
    t.pc = .lkAcq ∧ c.sh.shutdownRequested = false
  /-- the locked look: with the flag set the request is on its way out with the shutdown `TimeoutError` -/
  locked : isInit t.prog = true → t.pc = .lkAcq → c.sh.shutdownRequested = true →
    t'.pc = .lkRel ∧ t'.ret = some .timeout ∧ t'.yielded = t.yielded ∧ t'.outcome = t.outcome
  /-- the entry look: with the flag set (or the server gone) the request ends at once -/
  entry : isInit t.prog = true → t.pc = .start →
    (c.sh.serverUp = false → t'.pc = .done ∧ t'.outcome = some (.err .other) ∧ t'.yielded = t.yielded) ∧
    (c.sh.serverUp = true → c.sh.shutdownRequested = true →
      t'.pc = .done ∧ t'.outcome = some (.err .timeout) ∧ t'.yielded = t.yielded) ∧
    (c.sh.serverUp = true → c.sh.shutdownRequested = false → t'.pc = .lkAcq ∧ t'.ret = t.ret ∧ t'.yielded = t.yielded ∧
      t'.outcome = t.outcome)
  /-- the way out: the exception object recorded under the lock is what the request is answered with -/
  out : isInit t.prog = true → t.pc = .lkRel → ∀ e, t.ret = some e →
    t'.pc = .done ∧ t'.outcome = some (.err e) ∧ t'.yielded = t.yielded

set_option hygiene false in
macro "sdeff_close" : tactic => `(tactic|
  (refine ⟨_, getElem?_setTh ht _ _, ⟨?_, ?_, ?_, ?_, ?_, ?_, ?_⟩⟩ <;>
    first
    | (simp [pastWait, mainPc, inReg, isInit, setTh, *]; done)
    | (simp_all [pastWait, mainPc, inReg, isInit, setTh]; done)))

set_option maxHeartbeats 1000000 in
theorem step_sdeff {c c' : Cfg} {tid : Queue.Tid} {lbl : String} {t : Thread}
    (ht : c.ths[tid]? = some t) (h : step c tid = some (lbl, c')) :
    ∃ t', c'.ths[tid]? = some t' ∧ SdEff c c' tid t t' := by
  unfold step at h
  simp only [ht] at h
  cases hpc : t.pc <;> simp only [hpc] at h
  case done => simp at h
  case iiSpawn =>
    cases hg : gen? t.prog with
    | none => simp [hg] at h
    | some g =>
      have hlt : tid < c.ths.length := by
        rcases List.getElem?_eq_some_iff.mp ht with ⟨h, _⟩; exact h
      simp only [hg, Option.some.injEq, Prod.mk.injEq] at h
      obtain ⟨-, rfl⟩ := h
      refine ⟨{ t with pc := .lkRel }, by simp [List.getElem?_append_left, hlt, List.getElem?_set_self hlt],
        ⟨?_, ?_, ?_, ?_, ?_, ?_, ?_⟩⟩ <;>
      (cases hp : t.prog <;> simp_all [pastWait, mainPc, inReg, isInit, gen?])
  case prod =>
    cases hq : c.sh.qs[t.g]? with
    | none => simp [hq] at h
    | some q =>
      simp only [hq] at h
      cases hst : Queue.stepThread q t.qt tid false with
      | none => simp [hst] at h
      | some res =>
        obtain ⟨lbl0, q', qt'⟩ := res
        simp only [hst] at h
        leff_split <;> sdeff_close
  case nbGet =>
    cases hq : c.sh.qs[t.g]? with
    | none => simp [hq] at h
    | some q =>
      simp only [hq] at h
      cases hst : Queue.stepThread q t.qt tid false with
      | none => simp [hst] at h
      | some res =>
        obtain ⟨lbl0, q', qt'⟩ := res
        simp only [hst] at h
        leff_split <;> sdeff_close
  case lkStop =>
    cases hq : c.sh.qs[t.g]? with
    | none => simp [hq] at h
    | some q =>
      simp only [hq] at h
      cases hst : Queue.stepThread q t.qt tid false with
      | none => simp [hst] at h
      | some res =>
        obtain ⟨lbl0, q', qt'⟩ := res
        simp only [hst, afterStop, install, failInit] at h
        cases hprog : t.prog <;> simp only [hprog] at h <;> leff_split <;> sdeff_close
  case lkJoin =>
    cases he : c.sh.enqThread with
    | none => simp [he] at h
    | some p =>
      simp only [he] at h
      cases hp : c.ths[p]? with
      | none => simp [hp] at h
      | some tp =>
        simp only [hp, afterStop, install, failInit] at h
        cases hprog : t.prog <;> simp only [hprog] at h <;> leff_split <;> sdeff_close
  case lkAcq =>
    simp only [beginStop, install, failInit] at h
    cases hprog : t.prog <;> simp only [hprog] at h <;> leff_split <;> sdeff_close
  case lkRel =>
    cases hprog : t.prog <;> simp only [hprog] at h <;> leff_split <;> sdeff_close
  case start =>
    simp only [callNext, beginNext] at h
    cases hprog : t.prog <;> simp only [hprog] at h <;> leff_split <;> sdeff_close
  all_goals
    try simp only [callNext, beginNext, receive] at h
    leff_split <;> sdeff_close


/-! ### the invariant -/

theorem inReg_holdsGen {pc : Pc} (h : inReg pc = true) : holdsGen pc = true := by
  cases pc <;> simp_all [inReg, holdsGen]

structure SdInv (c : Cfg) : Prop where
  /-- a server thread is at one of its own program points -/
  mainAt : ∀ (tid : Queue.Tid) (t : Thread), c.ths[tid]? = some t → t.prog = .main → mainPc t.pc = true
  /-- a server thread that has left its wait loop saw the flag set -/
  past : ∀ (tid : Queue.Tid) (t : Thread), c.ths[tid]? = some t → t.prog = .main → pastWait t.pc = true →
    c.sh.shutdownRequested = true
  /-- the shutdown callback runs only after a shutdown request -/
  down : c.sh.serverUp = false → c.sh.shutdownRequested = true
  /-- once the shutdown callback has completed, no `init_generator` request is between its locked look at the flag
  and the start of a prefetch thread -/
  reg : c.sh.serverUp = false → ∀ (tid : Queue.Tid) (t : Thread), c.ths[tid]? = some t → isInit t.prog = true →
    inReg t.pc = false

theorem sdinv_init (p : Nat) (progs : List Prog) : SdInv (init p progs) := by
  have hstart : ∀ (tid : Queue.Tid) (t : Thread), (init p progs).ths[tid]? = some t → t.pc = .start := by
    intro tid t ht
    cases tid with
    | zero => simp only [init, List.getElem?_cons_zero, Option.some.injEq] at ht; subst ht; rfl
    | succ n =>
      simp only [init, List.getElem?_cons_succ, List.getElem?_map, Option.map_eq_some_iff] at ht
      obtain ⟨p0, -, rfl⟩ := ht; rfl
  refine ⟨?_, ?_, ?_, ?_⟩
  · intro tid t ht _; rw [hstart tid t ht]; rfl
  · intro tid t ht _ hh; rw [hstart tid t ht] at hh; cases hh
  · intro h; simp [init] at h
  · intro h; simp [init] at h

theorem sdinv_step {c c' : Cfg} {tid : Queue.Tid} {lbl : String} (hI : IInv c) (hD : SdInv c)
    (h : step c tid = some (lbl, c')) : SdInv c' := by
  obtain ⟨t, ht⟩ := step_some_thread h
  obtain ⟨t', hk, hl⟩ := step_eff ht h
  have hself := hk.get_self ht
  obtain ⟨t'', h1, he⟩ := step_sdeff ht h
  rw [hself] at h1; cases h1
  have hprog : t'.prog = t.prog := hl.prog
  refine ⟨?_, ?_, ?_, ?_⟩
  · intro j u hu hm
    rcases hk.get_inv ht hu with ⟨rfl, rfl⟩ | ⟨-, hu0⟩ | ⟨-, hp, -⟩
    · rw [hprog] at hm; exact (he.past hm (hD.mainAt _ t ht hm)).1
    · exact hD.mainAt j u hu0 hm
    · rw [hm] at hp; cases hp
  · intro j u hu hm hpw
    rcases hk.get_inv ht hu with ⟨rfl, rfl⟩ | ⟨-, hu0⟩ | ⟨-, hp, -⟩
    · rw [hprog] at hm
      rcases (he.past hm (hD.mainAt _ t ht hm)).2 hpw with h2 | h2
      · exact he.flag (hD.past _ t ht hm h2)
      · exact he.flag h2
    · exact he.flag (hD.past j u hu0 hm hpw)
    · rw [hm] at hp; cases hp
  · intro hdn
    rcases he.up with h2 | ⟨hm, hpc, -⟩
    · rw [h2] at hdn; exact he.flag (hD.down hdn)
    · exact he.flag (hD.past _ t ht hm (by rw [hpc]; rfl))
  · intro hdn j u hu hin
    cases hr : inReg u.pc with
    | false => rfl
    | true =>
      exfalso
      rcases hk.get_inv ht hu with ⟨rfl, rfl⟩ | ⟨hne, hu0⟩ | ⟨-, hp, -⟩
      · rw [hprog] at hin
        rcases he.up with h2 | ⟨hm, -, -⟩
        · rw [h2] at hdn
          cases hr0 : inReg t.pc with
          | true => rw [hD.reg hdn _ t ht hin] at hr0; cases hr0
          | false =>
            have := (he.enter hin hr hr0).2
            rw [hD.down hdn] at this; cases this
        · rw [hm] at hin; cases hin
      · rcases he.up with h2 | ⟨hm, hpc, -⟩
        · rw [h2] at hdn; rw [hD.reg hdn j u hu0 hin] at hr; cases hr
        · have h3 := hI.lock j u hu0 (inReg_holdsGen hr)
          have h4 := hI.lock _ t ht (by rw [hpc]; rfl)
          rw [h3] at h4; exact hne (Option.some.inj h4)
      · rw [hp] at hin; cases hin

theorem sdinv_reachable {p : Nat} {progs : List Prog} {c : Cfg} (hreq : Requests progs)
    (h : Reachable (init p progs) c) : SdInv c := by
  induction h with
  | init => exact sdinv_init p progs
  | step hr hs ih => exact sdinv_step (iinv_reachable hreq hr) ih hs

/-! ### a request that meets the flag -/

theorem step_not_done {c c' : Cfg} {tid : Queue.Tid} {lbl : String} {t : Thread} (ht : c.ths[tid]? = some t)
    (h : step c tid = some (lbl, c')) : t.pc ≠ .done := by
  intro hpc
  unfold step at h
  simp [ht, hpc] at h

/-- what an `init_generator` request looks like from the moment it meets the shutdown flag: `strict` — it had passed
the entry check and was waiting for the generator lock (the window); otherwise it may also be at its start -/
def AfterSd (strict : Bool) (t0 t : Thread) : Prop :=
  t.prog = t0.prog ∧ t.yielded = t0.yielded ∧
  ((strict = false ∧ t.pc = .start) ∨ t.pc = .lkAcq ∨ (t.pc = .lkRel ∧ t.ret = some .timeout) ∨
    (t.pc = .done ∧ (t.outcome = some (.err .timeout) ∨ (strict = false ∧ t.outcome = some (.err .other)))))

theorem after_sd {strict : Bool} {c c' : Cfg} {tid : Queue.Tid} {t : Thread} (ht : c.ths[tid]? = some t)
    (hinit : isInit t.prog = true) (hpc : (strict = false ∧ t.pc = .start) ∨ t.pc = .lkAcq)
    (hflag : c.sh.shutdownRequested = true) (h : Reachable c c') :
    c'.sh.shutdownRequested = true ∧ ∃ t', c'.ths[tid]? = some t' ∧ AfterSd strict t t' := by
  induction h with
  | init =>
    refine ⟨hflag, t, ht, rfl, rfl, ?_⟩
    rcases hpc with h1 | h1
    · exact Or.inl h1
    · exact Or.inr (Or.inl h1)
  | @step c1 c2 j lbl hr hs ih =>
    obtain ⟨hf1, t1, ht1, hp1, hy1, hshape⟩ := ih
    obtain ⟨u, hu⟩ := step_some_thread hs
    obtain ⟨u', hk, hl⟩ := step_eff hu hs
    obtain ⟨u'', h1, he⟩ := step_sdeff hu hs
    rw [hk.get_self hu] at h1; cases h1
    refine ⟨he.flag hf1, ?_⟩
    by_cases hj : j = tid
    · subst hj
      rw [ht1] at hu; cases hu
      have hin1 : isInit t1.prog = true := by rw [hp1]; exact hinit
      refine ⟨u', hk.get_self ht1, hl.prog.trans hp1, ?_, ?_⟩
      · rcases hshape with ⟨-, h2⟩ | h2 | ⟨h2, h3⟩ | ⟨h2, -⟩
        · cases hup : c1.sh.serverUp with
          | false => rw [((he.entry hin1 h2).1 hup).2.2, hy1]
          | true => rw [((he.entry hin1 h2).2.1 hup hf1).2.2, hy1]
        · rw [(he.locked hin1 h2 hf1).2.2.1, hy1]
        · rw [(he.out hin1 h2 _ h3).2.2, hy1]
        · exact absurd h2 (step_not_done ht1 hs)
      · rcases hshape with ⟨hs0, h2⟩ | h2 | ⟨h2, h3⟩ | ⟨h2, -⟩
        · cases hup : c1.sh.serverUp with
          | false =>
            obtain ⟨h4, h5, -⟩ := (he.entry hin1 h2).1 hup
            exact Or.inr (Or.inr (Or.inr ⟨h4, Or.inr ⟨hs0, h5⟩⟩))
          | true =>
            obtain ⟨h4, h5, -⟩ := (he.entry hin1 h2).2.1 hup hf1
            exact Or.inr (Or.inr (Or.inr ⟨h4, Or.inl h5⟩))
        · obtain ⟨h4, h5, -⟩ := he.locked hin1 h2 hf1
          exact Or.inr (Or.inr (Or.inl ⟨h4, h5⟩))
        · obtain ⟨h4, h5, -⟩ := he.out hin1 h2 _ h3
          exact Or.inr (Or.inr (Or.inr ⟨h4, Or.inl h5⟩))
        · exact absurd h2 (step_not_done ht1 hs)
    · exact ⟨t1, hk.get_other (Ne.symm hj) ht1, hp1, hy1, hshape⟩

end MlModel.Prefetch
