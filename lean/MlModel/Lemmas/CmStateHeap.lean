import MlModel.Model.Agg.CmStateHeap
import MlModel.Lemmas.AggHeapObs
/-!
# `ConfusionMatrixAggFn` states over array cells: the heap contract `HLawsR` (repaired `merge_states`)
-/
namespace MlModel.Agg.Confusion.SH
open MlModel.Agg.Heap

theorem allocCM_facts (h : Heap Cell) (b : Batch) :
    (allocCM h b).1.size = h.size + 4 ∧ (allocCM h b).2 = ⟨h.size, h.size + 1, h.size + 2, h.size + 3⟩ ∧
    ExtendsExcept h (allocCM h b).1 [] := by
  simp only [allocCM, alloc_ref, size_alloc]
  refine ⟨trivial, trivial, ?_⟩
  exact (((extends_alloc h _ []).trans (extends_alloc _ _ [])).trans (extends_alloc _ _ [])).trans
    (extends_alloc _ _ [])

theorem allocCM_read (h : Heap Cell) (b : Batch) : readCM (allocCM h b).1 (allocCM h b).2 = b := by
  cases b with
  | mk tp tn fp fn =>
    simp only [allocCM, readCM, alloc_ref]
    have o1 : ∀ (g : Heap Cell) (c : Cell) (r : Ref), r < g.size → (g.alloc c).1.read r = g.read r :=
      fun g c r hr => read_alloc_old g c hr
    congr 1
    · rw [o1 _ _ _ (by simp only [size_alloc]; omega), o1 _ _ _ (by simp only [size_alloc]; omega),
        o1 _ _ _ (by simp only [size_alloc]; omega), read_alloc_new]
    · rw [o1 _ _ _ (by simp only [size_alloc]; omega), o1 _ _ _ (by simp only [size_alloc]; omega),
        read_alloc_new]
    · rw [o1 _ _ _ (by simp only [size_alloc]; omega), read_alloc_new]
    · rw [read_alloc_new]

theorem iadd_size (h : Heap Cell) (a b : CM) : (iadd h a b).size = h.size := by
  simp [iadd, size_write]

theorem iadd_read_other (h : Heap Cell) (a b : CM) (r : Ref) (hr : r ∉ a.refs) :
    (iadd h a b).read r = h.read r := by
  simp only [CM.refs, List.mem_cons, List.not_mem_nil, or_false, not_or] at hr
  simp only [iadd]
  rw [read_write_other _ _ hr.2.2.2, read_write_other _ _ hr.2.2.1, read_write_other _ _ hr.2.1,
    read_write_other _ _ hr.1]

theorem iadd_extends (h : Heap Cell) (a b : CM) : ExtendsExcept h (iadd h a b) a.refs :=
  ⟨by rw [iadd_size]; exact Nat.le_refl _, fun r _ hn => iadd_read_other h a b r hn⟩

/-- the in-place merge computes the field-wise sum, provided the receiver's four arrays are four
different, allocated arrays and none of them is an array of the operand -/
theorem iadd_refines (h : Heap Cell) (a b : CM) (hv : ∀ r ∈ a.refs, r < h.size) (hnd : a.refs.Nodup)
    (hd : ∀ r ∈ b.refs, r ∉ a.refs) :
    readCM (iadd h a b) a = (readCM h a).add (readCM h b) := by
  simp only [CM.refs, List.nodup_cons, List.mem_cons, List.not_mem_nil, or_false, not_or,
    List.nodup_nil, and_true, not_false_eq_true] at hnd
  obtain ⟨⟨a12, a13, a14⟩, ⟨a23, a24⟩, a34⟩ := hnd
  have b1 := hd b.tp (by simp [CM.refs]); have b2 := hd b.tn (by simp [CM.refs])
  have b3 := hd b.fp (by simp [CM.refs]); have b4 := hd b.fn (by simp [CM.refs])
  simp only [CM.refs, List.mem_cons, List.not_mem_nil, or_false, not_or] at b1 b2 b3 b4
  have i1 := hv a.tp (by simp [CM.refs]); have i2 := hv a.tn (by simp [CM.refs])
  have i3 := hv a.fp (by simp [CM.refs]); have i4 := hv a.fn (by simp [CM.refs])
  simp only [readCM, iadd, Batch.add]
  congr 1
  · rw [read_write_other _ _ a14, read_write_other _ _ a13, read_write_other _ _ a12,
      read_write_same _ _ i1]
  · rw [read_write_other _ _ a24, read_write_other _ _ a23,
      read_write_same _ _ (by rw [size_write]; exact i2),
      read_write_other _ _ (Ne.symm a12), read_write_other _ _ b2.1]
  · rw [read_write_other _ _ a34, read_write_same _ _ (by rw [size_write, size_write]; exact i3),
      read_write_other _ _ (Ne.symm a23), read_write_other _ _ (Ne.symm a13),
      read_write_other _ _ b3.2.1, read_write_other _ _ b3.1]
  · rw [read_write_same _ _ (by rw [size_write, size_write, size_write]; exact i4),
      read_write_other _ _ (Ne.symm a34), read_write_other _ _ (Ne.symm a24), read_write_other _ _ (Ne.symm a14),
      read_write_other _ _ b4.2.2.1, read_write_other _ _ b4.2.1, read_write_other _ _ b4.1]

theorem mem_fresh_refs {n : Nat} {r : Ref} (h : r ∈ (⟨n, n + 1, n + 2, n + 3⟩ : CM).refs) :
    n ≤ r ∧ r < n + 4 := by
  simp only [CM.refs, List.mem_cons, List.not_mem_nil, or_false] at h
  omega

theorem update_spec (h : Heap Cell) (s : St) (b : Batch) :
    ExtendsExcept h (update h s b).1 [] ∧
    (∀ r ∈ stRefs (update h s b).2, h.size ≤ r ∧ r < (update h s b).1.size) := by
  obtain ⟨c1, c2, c3⟩ := allocCM_facts h b
  cases s with
  | none =>
    simp only [update]
    refine ⟨c3, fun r hr => ?_⟩
    simp only [stRefs] at hr
    rw [c2] at hr
    have := mem_fresh_refs hr
    rw [c1]; omega
  | some st =>
    simp only [update]
    obtain ⟨d1, d2, d3⟩ := allocCM_facts (allocCM h b).1
      ⟨vadd ((allocCM h b).1.read (allocCM h b).2.tp) ((allocCM h b).1.read st.tp),
       vadd ((allocCM h b).1.read (allocCM h b).2.tn) ((allocCM h b).1.read st.tn),
       vadd ((allocCM h b).1.read (allocCM h b).2.fp) ((allocCM h b).1.read st.fp),
       vadd ((allocCM h b).1.read (allocCM h b).2.fn) ((allocCM h b).1.read st.fn)⟩
    refine ⟨c3.trans d3, fun r hr => ?_⟩
    simp only [stRefs, addNew] at hr
    rw [d2] at hr
    have := mem_fresh_refs hr
    simp only [addNew]
    rw [d1, c1] at *
    omega

/-- the contract of the repaired `merge_states([s, o])`, on the concrete types -/
theorem mergeStates_spec (h : Heap Cell) (s o : St)
    (hvs : Valid h (⟨stRefs s, []⟩ : Footprint)) :
    ExtendsExcept h (mergeStates true h s o).1 (stRefs s) ∧
    (∀ r ∈ stRefs (mergeStates true h s o).2, r ∈ stRefs s ∨ h.size ≤ r) ∧
    (∀ r ∈ ([] : List Ref), r ∈ ([] : List Ref) ∨ r ∈ ([] : List Ref) ∨ h.size ≤ r) ∧
    Valid (mergeStates true h s o).1 (⟨stRefs (mergeStates true h s o).2, []⟩ : Footprint) ∧
    SelfSep (⟨stRefs (mergeStates true h s o).2, []⟩ : Footprint) := by
  cases s with
  | some a =>
    cases o with
    | some b =>
      simp only [mergeStates, stRefs]
      exact ⟨iadd_extends h a b, fun r hr => Or.inl hr, by simp,
        hvs.mono (by rw [iadd_size]; exact Nat.le_refl _), by simp [SelfSep]⟩
    | none =>
      simp only [mergeStates, stRefs]
      exact ⟨ExtendsExcept.refl _ _, fun r hr => Or.inl hr, by simp, hvs, by simp [SelfSep]⟩
  | none =>
    cases o with
    | some b =>
      obtain ⟨c1, c2, c3⟩ := allocCM_facts h (readCM h b)
      simp only [mergeStates, if_true, stRefs]
      refine ⟨c3, fun r hr => ?_, by simp, fun r hr => ?_, by simp [SelfSep]⟩
      · rw [c2] at hr; exact Or.inr (mem_fresh_refs hr).1
      · have hr' : r ∈ (allocCM h (readCM h b)).2.refs := by simpa [Footprint.refs] using hr
        rw [c2] at hr'
        have := mem_fresh_refs hr'
        rw [c1]; omega
    | none =>
      simp only [mergeStates, stRefs]
      exact ⟨ExtendsExcept.refl _ _, by simp, by simp, by simp [Valid, Footprint.refs], by simp [SelfSep]⟩

theorem fp_cls (fixed : Bool) (s : St) : (cls fixed).fp s = ⟨stRefs s, []⟩ := rfl

theorem laws : HLawsR (cls true) where
  base := {
    make_spec := fun h => ⟨ExtendsExcept.refl _ _, by simp [cls, stRefs, Footprint.refs],
      by simp [cls, stRefs, Valid, Footprint.refs], by simp [cls, SelfSep]⟩
    add_spec := fun h o b hv _ => by
      obtain ⟨u1, u2⟩ := update_spec h o b
      refine ⟨u1.mono (by simp), fun r hr => Or.inr (u2 r hr).1, by simp [cls], ?_, by simp [cls, SelfSep]⟩
      intro r hr
      have : r ∈ stRefs (update h o b).2 := by simpa [cls, Footprint.refs] using hr
      exact (u2 r this).2
    merge_spec := fun h s o hvs _ _ _ _ _ => mergeStates_spec h s o hvs }
  addOut_spec := fun h o b hv _ => by
    obtain ⟨u1, u2⟩ := update_spec h o b
    refine ⟨fun r hr => ?_, fun r hr => by simp [cls] at hr⟩
    have hr' : r ∈ stRefs o := hr
    have hlt : r < h.size := hv r (by simp [cls, Footprint.refs, hr'])
    refine ⟨Or.inr (by simp [cls, hr']), Nat.lt_of_lt_of_le hlt u1.1, fun hm => ?_⟩
    have : r ∈ stRefs (update h o b).2 := by simpa [cls, Footprint.refs] using hm
    have := (u2 r this).1
    omega
  result_spec := fun h o _ => ⟨ExtendsExcept.refl _ _, by simp [cls], by simp [cls]⟩

end MlModel.Agg.Confusion.SH
