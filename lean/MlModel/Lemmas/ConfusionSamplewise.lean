import MlModel.Lemmas.ConfusionAgg
import Mathlib.Tactic.Ring
import Mathlib.Algebra.Order.Ring.Rat
/-!
# `SamplewiseClassification`: per-example scores, `MeanState` per metric

The state is the map metric ↦ `(Σ scores, #scores)`; `add` adds the batch's contribution, `merge`
adds entry-wise.  With the samples axis the scores of a batch are the concatenation of the scores
of its examples, so the contribution of a batch is the sum of the contributions of its examples.
-/
namespace MlModel.Agg.Confusion
open MlModel.Generated (Metric)

/-! ## `merge` is a commutative monoid with the fresh state as unit -/

theorem swMerge_comm (a b : SwState) : swMerge a b = swMerge b a := by
  funext m; simp only [swMerge, Prod.mk.injEq]; exact ⟨by ring, by omega⟩

theorem swMerge_assoc (a b c : SwState) : swMerge (swMerge a b) c = swMerge a (swMerge b c) := by
  funext m; simp only [swMerge, Prod.mk.injEq]; exact ⟨by ring, by omega⟩

theorem swMerge_empty_left (a : SwState) : swMerge SwState.empty a = a := by
  funext m; simp [swMerge, SwState.empty]

theorem swMerge_empty_right (a : SwState) : swMerge a SwState.empty = a := by
  funext m; simp [swMerge, SwState.empty]

/-- `mergeIn` is `merge` with a one-entry state -/
def SwState.single (m : Metric) (tc : Rat × Nat) : SwState := fun m' => if m' = m then tc else (0, 0)

theorem mergeIn_eq (s : SwState) (m : Metric) (tc : Rat × Nat) :
    s.mergeIn m tc = swMerge s (SwState.single m tc) := by
  funext m'
  by_cases h : m' = m <;> simp [SwState.mergeIn, swMerge, SwState.single, h]

/-! ## `add` = merge with the batch's own contribution -/

/-- `add` started from any state is `merge` with `add` started from the fresh state -/
theorem swAdd_eq (sqrt : Rat → Rat) (c : Cfg) (st : SwState) (b : Batch) :
    swAdd sqrt c st b =
      (swAdd sqrt c SwState.empty b).map
        fun (r : List (Metric × List Rat) × SwState) => (r.1, swMerge st r.2) := by
  unfold swAdd
  cases hb : batchCM c b with
  | error e => rfl
  | ok cm =>
    simp only [bind, Except.bind]
    have gen : ∀ (ms : List Metric) (acc : List (Metric × List Rat)) (s₀ : SwState),
        ms.foldlM (swStep sqrt cm) (acc, swMerge st s₀)
          = (ms.foldlM (swStep sqrt cm) (acc, s₀)).map
              fun (r : List (Metric × List Rat) × SwState) => (r.1, swMerge st r.2) := by
      intro ms
      induction ms with
      | nil => intro acc s₀; rfl
      | cons m ms ih =>
        intro acc s₀
        simp only [List.foldlM_cons, swStep, bind, Except.bind]
        cases hs : swScores sqrt cm m with
        | error e => rfl
        | ok xs =>
          simp only [pure, Except.pure]
          rw [mergeIn_eq, swMerge_assoc, ← mergeIn_eq]
          exact ih _ _
    have := gen c.metrics [] SwState.empty
    rw [swMerge_empty_right] at this
    exact this

end MlModel.Agg.Confusion

namespace MlModel.Agg.Confusion
open MlModel.Generated (Metric)
open MlModel.Spec.Classification

/-- the confusion matrix of ONE example (samples average): counts over its own cells -/
def exampleCM (x : DenseEx) : Generated.CM Rat :=
  { tp := ((tpOf (rowCells x.1 x.2) : Nat) : Int), tn := ((tnOf (rowCells x.1 x.2) : Nat) : Int),
    fp := ((fpOf (rowCells x.1 x.2) : Nat) : Int), fn := ((fnOf (rowCells x.1 x.2) : Nat) : Int) }

theorem cells_map {α : Type} (xs : List α) (ga gb gc gd : α → Int) :
    CMArr.cells { tp := .v (xs.map ga), tn := .v (xs.map gb), fp := .v (xs.map gc), fn := .v (xs.map gd) }
      = .ok (.v (xs.map fun x =>
          ({ tp := (ga x : Rat), tn := (gb x : Rat), fp := (gc x : Rat), fn := (gd x : Rat) } : Generated.CM Rat))) := by
  simp [CMArr.cells, Arr.zipWithB, bcast1, bind, Except.bind, Functor.map, Except.map,
    List.zipWith_map_left, List.zipWith_map_right, List.zipWith_self]

/-- the per-example scores of a batch: metric `m`'s rate applied to each example's own confusion
matrix — no entry depends on another example -/
theorem swScores_samples (sqrt : Rat → Rat) (W : Nat) (xs : List DenseEx)
    (h : ∀ x ∈ xs, x.1.length = x.2.length) (m : Metric) (f : Generated.CM Rat → Rat)
    (hf : Generated.derive sqrt m = .rate f) :
    swScores sqrt (denseCM (some 1) W xs) m = .ok (xs.map fun x => f (exampleCM x)) := by
  have hav : Generated.avgAction none = .identity := by decide
  rw [denseCM_samples W xs h]
  simp only [swScores, deriveMetric, hf, cells_map, bind, Except.bind, hav, Arr.map, List.map_map,
    pure, Except.pure]
  congr 1
  simp [List.filterMap_map, Function.comp_def, exampleCM]

theorem foldl_add_start : ∀ (l : List Rat) (a : Rat), l.foldl (· + ·) a = a + l.foldl (· + ·) 0
  | [], a => by simp
  | x :: l, a => by
    simp only [List.foldl_cons]
    rw [foldl_add_start l (a + x), foldl_add_start l (0 + x)]
    ring

theorem foldl_add_append (l₁ l₂ : List Rat) :
    (l₁ ++ l₂).foldl (· + ·) 0 = l₁.foldl (· + ·) 0 + l₂.foldl (· + ·) 0 := by
  rw [List.foldl_append, foldl_add_start]

end MlModel.Agg.Confusion

namespace MlModel.Agg.Confusion
open MlModel.Generated (Metric)

/-- samples-averaged configurations whose batches reduce to the dense stage example by example -/
structure EncodesSamples (c : Cfg) (W : Nat) {X : Type} (okB : List X → Prop)
    (toBatch : List X → Batch) (enc : X → DenseEx) : Prop where
  batch_eq : ∀ xs, okB xs → batchCM c (toBatch xs) = .ok (denseCM (some 1) W (xs.map enc))
  aligned : ∀ x, (enc x).1.length = (enc x).2.length

/-- the scores of metric `m` for the examples `xs` -/
def scoresOf {X : Type} (sqrt : Rat → Rat) (enc : X → DenseEx) (m : Metric) (xs : List X) : List Rat :=
  match Generated.derive sqrt m with
  | .rate f => xs.map fun x => f (exampleCM (enc x))
  | _ => []

/-- what one batch adds to the state: per requested metric `(Σ scores, #examples)` -/
def contribOf {X : Type} (sqrt : Rat → Rat) (enc : X → DenseEx) (ms : List Metric) (xs : List X)
    (s : SwState) : SwState :=
  ms.foldl (fun s m => s.mergeIn m ((scoresOf sqrt enc m xs).foldl (· + ·) 0, (scoresOf sqrt enc m xs).length)) s

theorem scoresOf_append {X : Type} (sqrt : Rat → Rat) (enc : X → DenseEx) (m : Metric) (xs ys : List X) :
    scoresOf sqrt enc m (xs ++ ys) = scoresOf sqrt enc m xs ++ scoresOf sqrt enc m ys := by
  unfold scoresOf; split <;> simp

/-- the contribution of a batch is the sum of the contributions of its parts -/
theorem contribOf_append {X : Type} (sqrt : Rat → Rat) (enc : X → DenseEx) (ms : List Metric)
    (xs ys : List X) (a b : SwState) :
    contribOf sqrt enc ms (xs ++ ys) (swMerge a b)
      = swMerge (contribOf sqrt enc ms xs a) (contribOf sqrt enc ms ys b) := by
  unfold contribOf
  induction ms generalizing a b with
  | nil => rfl
  | cons m ms ih =>
    simp only [List.foldl_cons]
    rw [← ih]
    congr 1
    funext m'
    by_cases h : m' = m
    · simp only [SwState.mergeIn, swMerge, h, ↓reduceIte, scoresOf_append, foldl_add_append,
        List.length_append, Prod.mk.injEq]
      exact ⟨by ring, by omega⟩
    · simp [SwState.mergeIn, swMerge, h]

/-- `add` on a well-formed batch: returns the per-example scores of every metric and adds the
batch's contribution to the state -/
theorem swAdd_closed {X : Type} {c : Cfg} {W : Nat} {okB : List X → Prop} {toBatch : List X → Batch}
    {enc : X → DenseEx} (h : EncodesSamples c W okB toBatch enc) (sqrt : Rat → Rat)
    (hm : ∀ m ∈ c.metrics, ∃ f, Generated.derive sqrt m = .rate f) (st : SwState) (xs : List X)
    (hok : okB xs) :
    swAdd sqrt c st (toBatch xs)
      = .ok (c.metrics.map (fun m => (m, scoresOf sqrt enc m xs)), contribOf sqrt enc c.metrics xs st) := by
  unfold swAdd
  simp only [h.batch_eq xs hok, bind, Except.bind]
  have gen : ∀ (ms : List Metric), (∀ m ∈ ms, ∃ f, Generated.derive sqrt m = .rate f) →
      ∀ (acc : List (Metric × List Rat)) (s : SwState),
      ms.foldlM (swStep sqrt (denseCM (some 1) W (xs.map enc))) (acc, s)
        = .ok (acc ++ ms.map (fun m => (m, scoresOf sqrt enc m xs)), contribOf sqrt enc ms xs s) := by
    intro ms
    induction ms with
    | nil => intro _ acc s; simp [contribOf, pure, Except.pure]
    | cons m ms ih =>
      intro hms acc s
      obtain ⟨f, hf⟩ := hms m (by simp)
      have hsc : swScores sqrt (denseCM (some 1) W (xs.map enc)) m = .ok (scoresOf sqrt enc m xs) := by
        rw [swScores_samples sqrt W _ (by
          intro x hx; obtain ⟨y, _, rfl⟩ := List.mem_map.mp hx; exact h.aligned y) m f hf]
        simp [scoresOf, hf, List.map_map, Function.comp_def]
      have hstep : swStep sqrt (denseCM (some 1) W (xs.map enc)) (acc, s) m
          = .ok (acc ++ [(m, scoresOf sqrt enc m xs)],
              s.mergeIn m ((scoresOf sqrt enc m xs).foldl (· + ·) 0, (scoresOf sqrt enc m xs).length)) := by
        simp [swStep, hsc, bind, Except.bind, pure, Except.pure]
      simp only [List.foldlM_cons, hstep, bind, Except.bind]
      rw [ih (fun m' hm' => hms m' (by simp [hm']))]
      simp [contribOf, List.append_assoc]
  simpa using gen c.metrics hm [] st

end MlModel.Agg.Confusion

namespace MlModel.Agg.Confusion
open MlModel.Generated (Metric)

theorem contribOf_nil {X : Type} (sqrt : Rat → Rat) (enc : X → DenseEx) (ms : List Metric) (a : SwState) :
    contribOf sqrt enc ms ([] : List X) a = a := by
  unfold contribOf
  induction ms generalizing a with
  | nil => rfl
  | cons m ms ih =>
    simp only [List.foldl_cons]
    have : a.mergeIn m ((scoresOf sqrt enc m ([] : List X)).foldl (· + ·) 0,
        (scoresOf sqrt enc m ([] : List X)).length) = a := by
      funext m'
      have : scoresOf sqrt enc m ([] : List X) = [] := by unfold scoresOf; split <;> rfl
      by_cases h : m' = m <;> simp [SwState.mergeIn, this, h]
    rw [this]; exact ih a

/-- adding a batch to a state = merging the state with the batch's own contribution -/
theorem contribOf_start {X : Type} (sqrt : Rat → Rat) (enc : X → DenseEx) (ms : List Metric)
    (ys : List X) (s : SwState) :
    contribOf sqrt enc ms ys s = swMerge s (contribOf sqrt enc ms ys SwState.empty) := by
  have := contribOf_append sqrt enc ms ([] : List X) ys s SwState.empty
  rwa [List.nil_append, swMerge_empty_right, contribOf_nil] at this

end MlModel.Agg.Confusion
