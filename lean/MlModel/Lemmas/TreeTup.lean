import MlModel.Lemmas.TreeNdDeep
/-!
# Tuple-of-ints keys (numpy multi-dimensional indices), work package C18D

* `setPathX` / `getVX` (paths whose elements may be tuples of ints) ARE `setPath` / `getV` on tuple-free paths;
* `a[(i, j, …)]` addresses the window the chain `a[i][j]…` addresses (`tupWin_eq_ndWin`);
* what a set / a read through ONE tuple key on an ndarray does, exactly.
-/
namespace MlModel.Tree

theorem tupWin_eq_ndWin : ∀ (is : List Int) (shape : List Nat), tupWin shape is = ndWin shape (is.map PKey.int) := by
  intro is
  induction is with
  | nil => intro shape; cases shape <;> rfl
  | cons i is ih =>
    intro shape
    cases shape with
    | nil => rfl
    | cons n inner =>
      simp only [tupWin, List.map_cons, ndWin, PKey.asInt]
      cases resolveIdx n i with
      | none => rfl
      | some j => simp only [ih inner]

theorem mapM_unK (rest : Path) :
    (rest.map XKey.k).mapM XKey.plain? = some rest := by
  induction rest with
  | nil => rfl
  | cons k rest ih => rw [List.map_cons, List.mapM_cons, ih]; rfl

/-- **on tuple-free paths the model with tuple keys is the model of `Model/Tree.lean`** (`_set_by_path`) -/
theorem setPathX_plain (strict inPlace : Bool) (v : Ref) : ∀ (p : Path) (h : Heap) (t : Ref),
    setPathX strict inPlace h t (p.map XKey.k) v = setPath strict inPlace h t p v := by
  intro p
  induction p with
  | nil => intro h t; rfl
  | cons k rest ih =>
    intro h t
    have hfun : (fun h' c => setPathX strict inPlace h' c (rest.map XKey.k) v) =
        fun h' c => setPath strict inPlace h' c rest v := by
      funext h' c; exact ih h' c
    cases k with
    | self => rfl
    | skip => rfl
    | str s =>
      simp only [List.map_cons, setPathX, setPath, hfun, mapM_unK]
    | obj s =>
      simp only [List.map_cons, setPathX, setPath, hfun, mapM_unK]
    | idx i =>
      simp only [List.map_cons, setPathX, setPath, hfun, mapM_unK]
    | int i =>
      simp only [List.map_cons, setPathX, setPath, hfun, mapM_unK]
    | lit id w =>
      simp only [List.map_cons, setPathX, setPath, hfun, mapM_unK]

theorem scalarWalkX_plain (x : Int) (p : Path) : scalarWalkX x (p.map XKey.k) = scalarWalk x p := by
  cases p with
  | nil => rfl
  | cons k ks => cases k <;> rfl

theorem ndWalkX_plain (h : Heap) (b : Ref) : ∀ (p : Path) (off : Nat) (shape : List Nat),
    ndWalkX h b off shape (p.map XKey.k) = ndWalk h b off shape p := by
  intro p
  induction p with
  | nil => intro off shape; simp [ndWalkX, ndWalk]
  | cons k ks ih =>
    intro off shape
    cases shape with
    | nil => cases k <;> rfl
    | cons n inner =>
      cases k with
      | self => rfl
      | lit id w => rfl
      | skip =>
        simp only [List.map_cons, ndWalkX, ndWalk, PKey.asInt]
      | str s =>
        simp only [List.map_cons, ndWalkX, ndWalk, PKey.asInt]
      | obj s =>
        simp only [List.map_cons, ndWalkX, ndWalk, PKey.asInt]
      | idx i =>
        simp only [List.map_cons, ndWalkX, ndWalk, PKey.asInt]
        cases resolveIdx n i with
        | none => rfl
        | some j => cases inner with
          | nil => exact scalarWalkX_plain _ ks
          | cons m inner' => exact ih _ _
      | int i =>
        simp only [List.map_cons, ndWalkX, ndWalk, PKey.asInt]
        cases resolveIdx n i with
        | none => rfl
        | some j => cases inner with
          | nil => exact scalarWalkX_plain _ ks
          | cons m inner' => exact ih _ _

/-- … and so is the complete `__get` -/
theorem getVX_plain (h : Heap) : ∀ (p : Path) (r : Ref), getVX h r (p.map XKey.k) = getV h r p := by
  intro p
  induction p with
  | nil => intro r; rfl
  | cons k ks ih =>
    intro r
    have hnd := ndWalkX_plain h
    cases k with
    | self => rfl
    | lit id w => rfl
    | skip =>
      simp only [List.map_cons, getVX, getV]
      cases h[r]? with
      | none => rfl
      | some n =>
        cases n <;> simp only [← List.map_cons, hnd] <;> (try rfl)
        all_goals (simp only [Node.slotGet]; split <;> simp_all)
    | str s =>
      simp only [List.map_cons, getVX, getV]
      cases h[r]? with
      | none => rfl
      | some n =>
        cases n <;> simp only [← List.map_cons, hnd] <;> (try rfl)
        all_goals (simp only [Node.slotGet]; split <;> simp_all)
    | obj s =>
      simp only [List.map_cons, getVX, getV]
      cases h[r]? with
      | none => rfl
      | some n =>
        cases n <;> simp only [← List.map_cons, hnd] <;> (try rfl)
        all_goals (simp only [Node.slotGet]; split <;> simp_all)
    | idx i =>
      simp only [List.map_cons, getVX, getV]
      cases h[r]? with
      | none => rfl
      | some n =>
        cases n <;> simp only [← List.map_cons, hnd] <;> (try rfl)
        all_goals (simp only [Node.slotGet]; split <;> simp_all)
    | int i =>
      simp only [List.map_cons, getVX, getV]
      cases h[r]? with
      | none => rfl
      | some n =>
        cases n <;> simp only [← List.map_cons, hnd] <;> (try rfl)
        all_goals (simp only [Node.slotGet]; split <;> simp_all)

/-! ## one tuple key on an ndarray -/

theorem setNdT_unfold (R : Heap → Ref → Res Ref) (inPlace : Bool) (h : Heap) (tree b off n : Nat)
    (inner : List Nat) (is : List Int) {o' : Nat} {s : List Nat} (hw : tupWin (n :: inner) is = some (o', s)) :
    setNdT R inPlace h tree b off (n :: inner) is =
      match R (ndItem (ndPre inPlace h tree b off (n :: inner)).1 (ndPre inPlace h tree b off (n :: inner)).2.2.1
            ((ndPre inPlace h tree b off (n :: inner)).2.2.2 + o') s).1
          (ndItem (ndPre inPlace h tree b off (n :: inner)).1 (ndPre inPlace h tree b off (n :: inner)).2.2.1
            ((ndPre inPlace h tree b off (n :: inner)).2.2.2 + o') s).2 with
      | (h3, .error e) => (h3, .error (wrapKey e))
      | (h3, .ok c) =>
        match coerce h3 c s with
        | none => (h3, .error .key)
        | some ys => (ndWrite h3 (ndPre inPlace h tree b off (n :: inner)).2.2.1
            ((ndPre inPlace h tree b off (n :: inner)).2.2.2 + o') ys,
            .ok (ndPre inPlace h tree b off (n :: inner)).2.1) := by
  unfold setNdT ndPre
  cases inPlace <;> simp only [hw] <;> rfl

/-- in place: `arr[(i, j, …)] = v` writes the window `tupWin` addresses — one step, whatever the number of axes -/
theorem setPathX_tup_inplace (strict : Bool) {h : Heap} {t v b off n : Nat} {inner : List Nat} {is : List Int}
    {o : Nat} {s : List Nat} {ys : List Int} (hn : h[t]? = some (.nd b off (n :: inner)))
    (hw : tupWin (n :: inner) is = some (o, s)) (hco : CoerceStable h v s ys) :
    setPathX strict true h t [.tup is] v = (ndWrite (ndItem h b (off + o) s).1 b (off + o) ys, .ok t) := by
  simp only [setPathX, hn]
  rw [setNdT_unfold _ _ _ _ _ _ _ _ _ hw]
  simp only [ndPre, if_true, hco _ (ndItem_extends h b _ s)]

/-- copying: the same on a copy (new buffer `h.size`, new array object `h.size + 1`) -/
theorem setPathX_tup_copy (strict : Bool) {h : Heap} {t v b off n : Nat} {inner : List Nat} {is : List Int}
    {o : Nat} {s : List Nat} {ys : List Int} (hn : h[t]? = some (.nd b off (n :: inner)))
    (hw : tupWin (n :: inner) is = some (o, s)) (hco : CoerceStable h v s ys) :
    setPathX strict false h t [.tup is] v =
      (ndWrite (ndItem (ndCopy h b off (n :: inner)).1 h.size o s).1 h.size o ys, .ok (h.size + 1)) := by
  simp only [setPathX, hn]
  rw [setNdT_unfold _ _ _ _ _ _ _ _ _ hw]
  simp only [ndPre, Bool.false_eq_true, if_false, Nat.zero_add, ndCopy_snd,
    hco _ ((ndCopy_extends h b off (n :: inner)).trans (ndItem_extends _ _ _ s))]

theorem Extends.ndWrite_fresh {h h' : Heap} (e : Extends h h') {b : Ref} (o : Nat) (ys : List Int) (hb : h.size ≤ b) :
    Extends h (ndWrite h' b o ys) := by
  unfold ndWrite
  split
  · exact e.write_fresh _ hb
  · exact e

end MlModel.Tree
