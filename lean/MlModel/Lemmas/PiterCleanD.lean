import MlModel.Lemmas.PiterCleanB
/-!
# `Clean` is preserved: queue steps of a producer
-/
namespace MlModel.Piter
open MlModel.Queue

variable {F : Nat → Option (List Nat)} {inputs0 : List (List Item)}

theorem sum_succ_le {l : List PThread} {i : Nat} {a : PThread} (f g : PThread → Nat) (h : l[i]? = some a)
    (hle : ∀ x ∈ l, f x ≤ g x) (hlt : f a < g a) : (l.map f).sum + 1 ≤ (l.map g).sum := by
  induction l generalizing i with
  | nil => simp at h
  | cons x xs ih =>
    simp only [List.map_cons, List.sum_cons]
    cases i with
    | zero =>
      simp only [List.getElem?_cons_zero, Option.some.injEq] at h
      subst h
      have := sum_le_of_le xs f g (fun y hy => hle y (by simp [hy]))
      omega
    | succ j =>
      simp only [List.getElem?_cons_succ] at h
      have := ih h (fun y hy => hle y (by simp [hy]))
      have := hle x (by simp)
      omega

/-- the emitted-ghost after a queue step -/
def emittedAfter (t : PThread) (q' : Queue.Thread) : List Nat :=
  if t.q.pc == .pPut && q'.pc == .pStAcq then t.emitted ++ [t.q.v.2] else t.emitted

theorem postProd_facts (tid : Tid) (t : PThread) (q' : Queue.Thread) :
    (postProd tid t q').isProd = t.isProd ∧ (postProd tid t q').sid = t.sid ∧
    (postProd tid t q').q.prog = q'.prog ∧ (postProd tid t q').pulled = t.pulled ∧
    pastStart (postProd tid t q').q.pc = pastStart q'.pc ∧ pastStop (postProd tid t q').q.pc = pastStop q'.pc ∧
    (postProd tid t q').emitted = emittedAfter t q' ∧ handItems (postProd tid t q') = [] ∧
    ((postProd tid t q').q.pc = .eNext → (postProd tid t q').pend = [] ∧ (postProd tid t q').ipc ≠ .rel) ∧
    ((postProd tid t q').q.pc = .tAcq → q'.pc = .tAcq) ∧
    holdV (postProd tid t q') ++ (postProd tid t q').pend = (if pendPc q'.pc then [q'.v.2] else []) ++ t.pend ∧
    (q'.pc ≠ .eNext → (postProd tid t q').pend = t.pend ∧ (postProd tid t q').q.rets = q'.rets) := by
  unfold postProd enterNext emittedAfter
  by_cases h : q'.pc = .eNext
  · cases hp : t.pend with
    | nil => cases hul : t.useLock <;> simp [h, hp, hul, pastStart, pastStop, handItems, holdV, pendPc]
    | cons y ys => simp [h, hp, pastStart, pastStop, handItems, holdV, pendPc]
  · simp [h, handItems, holdV]

end MlModel.Piter

namespace MlModel.Piter
open MlModel.Queue

variable {F : Nat → Option (List Nat)} {inputs0 : List (List Item)}

theorem pend_not_stop {pc : Pc} (h : pendPc pc = true) : pastStop pc = false := by
  cases pc <;> simp [pendPc] at h <;> rfl

theorem clean_pq {c : Cfg} {tid : Tid} {alt : Bool} {t : PThread} {lbl : String} {s' : Shared}
    {q' : Queue.Thread} (hb : Base c) (hc : Clean F inputs0 c) (hn : NF c) (hexc' : s'.exc = none)
    (ht : c.ths[tid]? = some t) (hp : t.isProd = true) (hd : t.q.pc ≠ .done) (hs0 : t.q.pc ≠ .start)
    (hne : t.q.pc ≠ .eNext) (hst : stepThread c.sh t.q tid alt = some (lbl, s', q')) :
    Clean F inputs0 { c with sh := s', ths := c.ths.set tid (postProd tid t q') } := by
  have hmem : t ∈ c.ths := List.mem_of_getElem? ht
  have htok : TOK t.q := hb.data.tok t.q (List.mem_of_getElem? (qcfg_get ht))
  have hkd := pcKind_producer_of (hb.static.kindP t hmem hp) htok hs0 hd
  obtain ⟨-, -, -, hstart, hmaxE, hstop, hret, hsr, -, hprog, -, halt⟩ := stepThread_ctl lbl s' q' hst hne
  obtain ⟨f1, f2, f3, f4, f5, f6, f7, f8, -, f10⟩ := stepThread_flow lbl s' q' hst hne
  obtain ⟨pexh, plost, -, pq⟩ := stepThread_pstep lbl s' q' hst hkd hne
  have haltF : alt = false := by
    cases alt
    · rfl
    · exact absurd (halt rfl) (by rw [hb.static.timeout]; simp)
  have ho := hc.prod t hmem hp
  obtain ⟨pf1, pf2, pf3, pf4, pf5, pf6, pf7, pf8, pf9, pf10, pf11, pf12⟩ := postProd_facts tid t q'
  have hnd : pastStop t.q.pc = false → c.sh.enqueueDone = false := by
    intro h
    cases hd' : c.sh.enqueueDone with
    | false => rfl
    | true => have := allStopped_of_done hn hc hd' t hmem hp; rw [h] at this; cases this
  have hmA : t.q.pc ≠ .mAcq := by intro h; rw [h] at hkd; simp [pcKind] at hkd
  have hretOf : retOf (postProd tid t q') = retOf t := by simp [retOf, pf3, hprog]
  -- pastStop after the step
  have hstopNew : t.q.pc ≠ .tAcq → pastStop q'.pc = pastStop t.q.pc := by
    intro hta
    cases hps : pastStop t.q.pc with
    | true => exact f2 hps
    | false =>
      cases hps' : pastStop q'.pc with
      | false => rfl
      | true =>
        rcases f3 hps' with h | h | h | h
        · rw [hps] at h; cases h
        · exact absurd h hta
        · rw [hnd hps] at h; cases h
        · exact absurd hkd h
  refine ⟨prod_all hc rfl (fun sid h => h) (fun _ => ?_), ?_, ?_, ?_, ?_, ?_, ?_, ?_, ?_, ?_⟩
  · -- ProdOK of the stepping producer
    refine ⟨?_, by rw [pf4]; exact ho.okF, ?_, ?_, fun h => (pf9 h).1, fun h h2 => absurd h2 (pf9 h).2⟩
    · rw [pf7, pf4, List.append_assoc, pf11]
      have hbal := ho.bal
      simp only [holdV] at hbal
      by_cases hpp : pendPc t.q.pc = true
      · simp only [hpp, if_true] at hbal
        rcases f5 hpp with h | ⟨h1, h2⟩ | h | h
        · have hne' : ¬(t.q.pc = .pPut ∧ q'.pc = .pStAcq) := by
            rintro ⟨_, h2⟩; rw [h2] at h; simp [pendPc] at h
          have : emittedAfter t q' = t.emitted := by
            unfold emittedAfter; split
            · rename_i hh; simp only [Bool.and_eq_true, beq_iff_eq] at hh; exact absurd hh hne'
            · rfl
          rw [this, h, (f4 h).2]; simpa [List.append_assoc] using hbal
        · have : emittedAfter t q' = t.emitted ++ [t.q.v.2] := by simp [emittedAfter, h1, h2]
          rw [this, h2]; simpa [pendPc, List.append_assoc] using hbal
        · rw [hnd (pend_not_stop hpp)] at h; cases h
        · rw [haltF] at h; cases h
      · have hq'p : pendPc q'.pc = false := by
          cases hh : pendPc q'.pc with
          | false => rfl
          | true => exact absurd (f4 hh).1 hpp
        have : emittedAfter t q' = t.emitted := by
          unfold emittedAfter; split
          · rename_i hh; simp only [Bool.and_eq_true, beq_iff_eq] at hh
            rw [hh.1] at hpp; simp [pendPc] at hpp
          · rfl
        simp only [hpp] at hbal
        rw [this, hq'p]; simpa [List.append_assoc] using hbal
    · intro hps
      rw [pf6] at hps
      have hq'ne : q'.pc ≠ .eNext := by intro h; rw [h] at hps; simp [pastStop] at hps
      rw [(pf12 hq'ne).1, pf2]
      cases hpt : pastStop t.q.pc with
      | true => exact ho.stopped hpt
      | false =>
        rcases f3 hps with h | h | h | h
        · rw [hpt] at h; cases h
        · exact ⟨(ho.atStop h).2.1, (ho.atStop h).2.2⟩
        · rw [hnd hpt] at h; cases h
        · exact absurd hkd h
    · intro h
      have := f8 (pf10 h)
      rw [hexc'] at this; cases this
  · -- maxEnq
    show s'.maxEnq = (((c.ths.set tid (postProd tid t q')).map indProd).sum)
    rw [sum_same indProd ht (by simp [indProd, pf1]), hmaxE]
    split
    · rename_i hsa
      have h1 : indStart t < indProd t := by simp [indStart, indProd, hp, hsa, pastStart]
      have := sum_succ_le indStart indProd ht (fun x _ => indStart_le_indProd x) h1
      rw [← hc.start, ← hc.maxEnq] at this
      rw [← hc.maxEnq]; omega
    · exact hc.maxEnq
  · -- start
    show s'.start = (((c.ths.set tid (postProd tid t q')).map indStart).sum)
    rw [hstart]
    have hps := f1 hs0
    split
    · rename_i hsa
      rw [sum_inc indStart ht (by (have e1 : pastStart Pc.sAcq = false := rfl); simp [indStart, pf1, hp, pf5, hps, hsa, e1]), hc.start]
    · rename_i hsa
      rw [sum_same indStart ht (by simp [indStart, pf1, hp, pf5, hps, hsa]), hc.start]
  · -- stop
    show s'.stop = (((c.ths.set tid (postProd tid t q')).map indStop).sum)
    rw [hstop]
    split
    · rename_i hta
      have h1 : indStop t < indStart t := by simp [indStop, indStart, hp, hta, pastStart, pastStop]
      have := sum_succ_le indStop indStart ht (fun x _ => indStop_le_indStart x) h1
      rw [← hc.stop, ← hc.start] at this
      rw [sum_inc indStop ht (by (have e1 : pastStop Pc.tAcq = false := rfl); simp [indStop, pf1, hp, pf6, f10 hta, hta, e1]), ← hc.stop]
      omega
    · rename_i hta
      rw [sum_same indStop ht (by simp [indStop, pf1, hp, pf6, hstopNew hta]), hc.stop]
  · -- returned
    show s'.returned.Perm (((c.ths.set tid (postProd tid t q')).map retL).flatten)
    rw [hret]
    split
    · rename_i hta
      have hr := (ho.atStop hta).1
      have h1 := flat_app (t' := postProd tid t q') retL [retOf t] ht
        (by (have e1 : pastStop Pc.tAcq = false := rfl); simp [retL, pf1, hp, pf6, f10 hta, hta, e1, hretOf])
      rw [hr]
      exact (hc.rets.append_right _).trans h1.symm
    · rename_i hta
      rw [flat_same retL ht (by simp [retL, pf1, hp, pf6, hstopNew hta, hretOf])]
      exact hc.rets
  · -- emitted
    show (s'.produced.map (·.2)).Perm (((c.ths.set tid (postProd tid t q')).map (·.emitted)).flatten)
    by_cases hpe : t.q.pc = .pPut ∧ q'.pc = .pStAcq
    · rw [f6 hpe.1 hpe.2]
      have h1 := flat_app (t' := postProd tid t q') (·.emitted) [t.q.v.2] ht
        (by simp [pf7, emittedAfter, hpe.1, hpe.2])
      simp only [List.map_append, List.map_cons, List.map_nil]
      exact (hc.emitted.append_right _).trans h1.symm
    · rw [f7 hpe]
      have : emittedAfter t q' = t.emitted := by
        unfold emittedAfter; split
        · rename_i hh; simp only [Bool.and_eq_true, beq_iff_eq] at hh; exact absurd hh hpe
        · rfl
      rw [flat_same (·.emitted) ht (by simp [pf7, this])]
      exact hc.emitted
  · -- items
    show inputs0.flatten.Perm (((c.ths.set tid (postProd tid t q')).map itemsOf).flatten ++ c.inputs.flatten)
    have e2 : handItems t = [] := by simp [handItems, hne]
    rw [flat_same itemsOf ht (by simp only [itemsOf, pf4, pf8, e2])]
    exact hc.items
  · -- exhausted
    intro he
    change s'.exhausted = true at he
    rw [pexh] at he
    obtain ⟨ha, hq0⟩ := hc.exh he
    have hpt := ha t hmem hp
    refine ⟨allStopped_set ha rfl (fun _ => by rw [pf6]; exact f2 hpt), ?_⟩
    show s'.q = []
    rcases pq with h | ⟨h, _⟩
    · rw [h]; exact hq0
    · rw [h] at hpt; simp [pastStop] at hpt
  · exact plost.trans hc.lost
  · refine cons_all hc ht rfl (fun _ t0 h0 => ?_) (fun h => absurd h (ne0_of_prod hb.static ht hp))
    have hco := hc.cons t0 h0
    by_cases hta : t.q.pc = .tAcq
    · -- a producer is still stopping: nothing is exhausted yet
      have hex : c.sh.exhausted = false := by
        cases he : c.sh.exhausted with
        | false => rfl
        | true =>
          have := (hc.exh he).1 t hmem hp
          rw [hta] at this; simp [pastStop] at this
      refine ⟨(fun k hk => by rw [hco.naErr k hk] at hex; cases hex), ?_, hco.raise, ?_, hco.phase, ?_, hco.live⟩
      · intro hpc
        rcases hco.armed hpc with h | ⟨_, h⟩
        · exact Or.inl h
        · rw [h] at hex; cases hex
      · intro r hr
        have := (hco.ended r hr).2
        rw [this] at hex; cases hex
      · intro hno
        show s'.stopRequested = false
        rw [hsr, hco.noStop hno]; simp [hta]
    · refine consOK_mono hco ?_ (fun h => by show s'.exhausted = true; rw [pexh]; exact h) ?_
      · show s'.returned = c.sh.returned
        rw [hret]; simp [hta]
      · show s'.stopRequested = c.sh.stopRequested
        rw [hsr]; simp [hmA]

end MlModel.Piter
