import MlModel.Model.MergeMulti
namespace MlModel.Sched

theorem mapM_ok_eq {α β : Type} (f : α → Except ErrKind β) (g : α → β) (hf : ∀ a, f a = .ok (g a)) :
    ∀ l : List α, l.mapM f = .ok (l.map g)
  | [] => rfl
  | a :: l => by
    rw [List.mapM_cons, hf a, mapM_ok_eq f g hf l]
    rfl

end MlModel.Sched
