import MlModel.Lemmas.PiterLive
/-!
# Control invariants of the parallel-iteration LTS (what the deadlock-freedom argument needs besides `QL`)

* `kindC`  — the consumer thread runs the `get_batch` loop or (after it turned) `maybe_stop`;
* `phase`  — while the consumer iterates / stops, its queue thread is inside the queue API (neither at
             `start` nor `done`): the layer moves it on in the same step in which the queue call returns;
* `sub`    — once the consumer is past its submit loop every task has been submitted;
* `fin`    — the consumer is past `shutdown()` only if every task is done (and they stay done);
* `ilk`, `rel` — the input lock's owner is a thread; `release lock1` is only ever pending under the lock.
-/
namespace MlModel.Queue

/-- which steps end a thread, and no step leads back to `start` -/
def EndStep (s : Shared) (t : Thread) (tid : Tid) (alt : Bool) : Prop :=
  ∀ lbl s' t', stepThread s t tid alt = some (lbl, s', t') →
    t'.pc ≠ .start ∧
    (t'.pc = .done → pcKind t.pc = some .batch → t.pc = .bRaise) ∧
    (t'.pc = .done → pcKind t.pc = some .stopper → t.pc = .mRel ∨ t.pc = .mD2)

set_option hygiene false in
macro "end_group" : tactic => `(tactic| (
  intro lbl s' t' h
  unfold stepThread at h
  cases hpc : t.pc <;> (try (simp only [hpc, Pc.group] at hg; omega)) <;>
    simp only [hpc] at h <;>
    (try simp only [acquire, release, notify, waitPark, waitWake, goto, enqLoop, putLoop, batchLoop,
      afterRaise, afterValue] at h) <;>
    (repeat' split at h) <;>
    (try simp only [Option.some.injEq, Prod.mk.injEq, reduceCtorEq] at h) <;>
    (try (obtain ⟨-, rfl, rfl⟩ := h)) <;>
    simp_all [pcKind]))

theorem end_g0 {s t tid alt} (hg : t.pc.group = 0) : EndStep s t tid alt := by end_group
theorem end_g1 {s t tid alt} (hg : t.pc.group = 1) : EndStep s t tid alt := by end_group
theorem end_g2 {s t tid alt} (hg : t.pc.group = 2) : EndStep s t tid alt := by end_group
theorem end_g3 {s t tid alt} (hg : t.pc.group = 3) : EndStep s t tid alt := by end_group
theorem end_g4 {s t tid alt} (hg : t.pc.group = 4) : EndStep s t tid alt := by end_group
theorem end_g5 {s t tid alt} (hg : t.pc.group = 5) : EndStep s t tid alt := by end_group
theorem end_g6 {s t tid alt} (hg : t.pc.group = 6) : EndStep s t tid alt := by end_group
theorem end_g7 {s t tid alt} (hg : t.pc.group = 7) : EndStep s t tid alt := by end_group

theorem stepThread_end {s t tid alt} : EndStep s t tid alt := by
  have h := Pc.group_lt t.pc
  match hg : t.pc.group with
  | 0 => exact end_g0 hg | 1 => exact end_g1 hg | 2 => exact end_g2 hg | 3 => exact end_g3 hg
  | 4 => exact end_g4 hg | 5 => exact end_g5 hg | 6 => exact end_g6 hg | 7 => exact end_g7 hg
  | n + 8 => omega

/-- a thread inside the queue API is at a program point of its own program -/
theorem pcKind_of {t : Thread} {k : PKind} (hk : t.prog.kind = k) (htok : TOK t)
    (h1 : t.pc ≠ .start) (h2 : t.pc ≠ .done) : pcKind t.pc = some k := by
  cases h : pcKind t.pc with
  | none =>
    cases hpc : t.pc <;> simp_all [pcKind] <;> (rename_i c; cases c <;> simp at h)
  | some k' => rw [← htok.kind k' h, hk]

end MlModel.Queue

namespace MlModel.Piter
open MlModel.Queue

variable {F : Nat → Option (List Nat)}

structure Ctl (c : Cfg) : Prop where
  kindC : ∀ t ∈ c.ths, t.isProd = false → t.q.prog.kind = .batch ∨ t.q.prog.kind = .stopper
  phase : ∀ t ∈ c.ths, t.isProd = false → (t.cpc = .iter ∨ t.cpc = .stopping) →
    t.q.pc ≠ .start ∧ t.q.pc ≠ .done
  sub : ∀ t ∈ c.ths, t.isProd = false → t.cpc ≠ .boot → t.cpc ≠ .submit → c.nProd ≤ c.nsub
  fin : ∀ t ∈ c.ths, t.isProd = false → t.cpc = .fin → c.producersDone = true
  ilk : ∀ u, c.ilock = some u → u < c.ths.length
  rel : ∀ t ∈ c.ths, t.isProd = true → t.q.pc = .eNext → t.ipc = .rel → t.useLock = true

theorem ctl_of {c c' : Cfg} {tid : Tid} {t t' : PThread} (hc : Ctl c) (ht : c.ths[tid]? = some t)
    (hths : c'.ths = c.ths.set tid t') (hp : t'.isProd = t.isProd) (hnsub : c.nsub ≤ c'.nsub)
    (hkind : t'.isProd = false → t'.q.prog.kind = .batch ∨ t'.q.prog.kind = .stopper)
    (hphase : t'.isProd = false → (t'.cpc = .iter ∨ t'.cpc = .stopping) → t'.q.pc ≠ .start ∧ t'.q.pc ≠ .done)
    (hsub : t'.isProd = false → t'.cpc ≠ .boot → t'.cpc ≠ .submit → c'.nProd ≤ c'.nsub)
    (hfin : t'.isProd = false → t'.cpc = .fin → c.producersDone = true)
    (hpd : t.isProd = true → t.q.pc ≠ .done)
    (hilk : ∀ u, c'.ilock = some u → u = tid ∨ c.ilock = some u)
    (hrel : t'.isProd = true → t'.q.pc = .eNext → t'.ipc = .rel → t'.useLock = true) : Ctl c' := by
  have htid : tid < c.ths.length := (List.getElem?_eq_some_iff.mp ht).1
  have hmem : t ∈ c.ths := List.mem_of_getElem? ht
  have hnp : c'.nProd = c.nProd := by simp [Cfg.nProd, hths]
  -- `producersDone` survives the step of a thread that is not a running producer
  have hpdone : c.producersDone = true → c'.producersDone = true := by
    intro hd
    simp only [Cfg.producersDone, List.all_eq_true] at hd ⊢
    intro u hu
    rw [hths] at hu
    rcases List.mem_or_eq_of_mem_set hu with hu | rfl
    · exact hd u hu
    · cases hip : t.isProd with
      | false => rw [hp, hip]; rfl
      | true =>
        have := hd t hmem
        simp only [hip, Bool.not_true, Bool.false_or, beq_iff_eq] at this
        exact absurd this (hpd hip)
  refine ⟨?_, ?_, ?_, ?_, ?_, ?_⟩
  · intro u hu; rw [hths] at hu
    rcases List.mem_or_eq_of_mem_set hu with hu | rfl
    · exact hc.kindC u hu
    · exact hkind
  · intro u hu; rw [hths] at hu
    rcases List.mem_or_eq_of_mem_set hu with hu | rfl
    · exact hc.phase u hu
    · exact hphase
  · intro u hu; rw [hths] at hu
    rcases List.mem_or_eq_of_mem_set hu with hu | rfl
    · intro a b d; rw [hnp]; exact Nat.le_trans (hc.sub u hu a b d) hnsub
    · exact hsub
  · intro u hu; rw [hths] at hu
    rcases List.mem_or_eq_of_mem_set hu with hu | rfl
    · intro a b; exact hpdone (hc.fin u hu a b)
    · intro a b; exact hpdone (hfin a b)
  · intro u hu
    rw [hths, List.length_set]
    rcases hilk u hu with rfl | h
    · exact htid
    · exact hc.ilk u h
  · intro u hu; rw [hths] at hu
    rcases List.mem_or_eq_of_mem_set hu with hu | rfl
    · exact hc.rel u hu
    · exact hrel

theorem beginIter_ctl (c : Cfg) (t : PThread) (hp : t.isProd = false) (hk : t.q.prog.kind = .batch) :
    (beginIter c t).isProd = false ∧
    ((beginIter c t).q.prog.kind = .batch ∨ (beginIter c t).q.prog.kind = .stopper) ∧
    ((beginIter c t).q.pc ≠ .start ∧ (beginIter c t).q.pc ≠ .done) ∧
    ((beginIter c t).cpc = .iter ∨ (beginIter c t).cpc = .stopping) := by
  unfold beginIter
  split
  · exact ⟨hp, Or.inr rfl, ⟨by simp, by simp⟩, Or.inr rfl⟩
  · exact ⟨hp, Or.inl hk, ⟨by simp, by simp⟩, Or.inl rfl⟩

theorem ctl_step {c c' : Cfg} {tid : Tid} {alt : Bool} {lbl : String} {t : PThread}
    (hb : Base c) (hc : Ctl c) (ht : c.ths[tid]? = some t) (hk : StepKind F c tid alt t lbl c') : Ctl c' := by
  have hs := hb.static
  have hmem : t ∈ c.ths := List.mem_of_getElem? ht
  have htok : TOK t.q := hb.data.tok t.q (List.mem_of_getElem? (qcfg_get ht))
  cases hk with
  | pstart hp hpc =>
    exact ctl_of hc ht rfl rfl (Nat.le_refl _) (fun h => by simp [hp] at h) (fun h => by simp [hp] at h)
      (fun h => by simp [hp] at h) (fun h => by simp [hp] at h) (fun _ => by rw [hpc]; simp)
      (fun u h => Or.inr h) (fun _ h => by simp at h)
  | iacq hp hpc =>
    exact ctl_of hc ht rfl rfl (Nat.le_refl _) (fun h => by simp [hp] at h) (fun h => by simp [hp] at h)
      (fun h => by simp [hp] at h) (fun h => by simp [hp] at h) (fun _ => by rw [hpc]; simp)
      (fun u h => Or.inl (Option.some.inj h).symm) (fun _ _ h => by simp at h)
  | inextL hp hpc _ hul =>
    exact ctl_of hc ht rfl rfl (Nat.le_refl _) (fun h => by simp [hp] at h) (fun h => by simp [hp] at h)
      (fun h => by simp [hp] at h) (fun h => by simp [hp] at h) (fun _ => by rw [hpc]; simp)
      (fun u h => Or.inr h) (fun _ _ _ => hul)
  | inextU hp hpc =>
    obtain ⟨l1, l2, l3⟩ := afterPull_lock (F := F) tid c.sh t (pull c.inputs t.sid).1
    refine ctl_of hc ht rfl l1 (Nat.le_refl _) (fun h => by rw [l1, hp] at h; cases h)
      (fun h => by rw [l1, hp] at h; cases h) (fun h => by rw [l1, hp] at h; cases h)
      (fun h => by rw [l1, hp] at h; cases h) (fun _ => by rw [hpc]; simp) (fun u h => Or.inr h) ?_
    intro _ h1 h2
    have := l3 h1; rw [h2] at this
    cases hu : t.useLock <;> simp [hu] at this
  | irel hp hpc =>
    obtain ⟨l1, l2, l3⟩ := afterPull_lock (F := F) tid c.sh t t.hand
    refine ctl_of hc ht rfl l1 (Nat.le_refl _) (fun h => by rw [l1, hp] at h; cases h)
      (fun h => by rw [l1, hp] at h; cases h) (fun h => by rw [l1, hp] at h; cases h)
      (fun h => by rw [l1, hp] at h; cases h) (fun _ => by rw [hpc]; simp) (fun u h => by cases h) ?_
    intro _ h1 h2
    have := l3 h1; rw [h2] at this
    cases hu : t.useLock <;> simp [hu] at this
  | @pq lbl s' q' hp hd hs0 hne hst =>
    obtain ⟨l1, l2, l3⟩ := postProd_lock tid t q'
    refine ctl_of hc ht rfl l1 (Nat.le_refl _) (fun h => by rw [l1, hp] at h; cases h)
      (fun h => by rw [l1, hp] at h; cases h) (fun h => by rw [l1, hp] at h; cases h)
      (fun h => by rw [l1, hp] at h; cases h) (fun _ => hd) (fun u h => Or.inr h) ?_
    intro _ h1 h2
    have := l3 h1; rw [h2] at this
    cases hu : t.useLock <;> simp [hu] at this
  | cboot0 hp hcp hn =>
    obtain ⟨hkb, -, -⟩ := (hs.kindC t hmem hp).1 (Or.inl hcp)
    obtain ⟨b1, b2, b3, b4⟩ := beginIter_ctl c t hp hkb
    refine ctl_of hc ht rfl (by rw [b1, hp]) (Nat.le_refl _) (fun _ => b2) (fun _ _ => b3) ?_ ?_
      (fun h => by simp [hp] at h) (fun u h => Or.inr h) (fun h => by rw [b1] at h; cases h)
    · intro _ _ _
      show (c.ths.set tid (beginIter c t)).length - 1 ≤ c.nsub
      rw [List.length_set]
      have : c.nProd = c.ths.length - 1 := rfl
      omega
    · intro _ h; rcases b4 with b | b <;> rw [b] at h <;> cases h
  | cboot hp hcp =>
    exact ctl_of hc ht rfl rfl (Nat.le_refl _) (fun _ => hc.kindC t hmem hp) (fun _ h => by simp at h)
      (fun _ _ h => by simp at h) (fun _ h => by simp at h) (fun h => by simp [hp] at h)
      (fun u h => Or.inr h) (fun h => by simp [hp] at h)
  | csubmit hp hcp =>
    obtain ⟨hkb, hpc0, -⟩ := (hs.kindC t hmem hp).1 (Or.inr hcp)
    obtain ⟨b1, b2, b3, b4⟩ := beginIter_ctl c t hp hkb
    by_cases hge : c.nsub + 1 ≥ c.nProd
    · simp only [hge, if_true]
      refine ctl_of hc ht rfl (by rw [b1, hp]) (Nat.le_succ _) (fun _ => b2) (fun _ _ => b3) ?_ ?_
        (fun h => by simp [hp] at h) (fun u h => Or.inr h) (fun h => by rw [b1] at h; cases h)
      · intro _ _ _
        show (c.ths.set tid (beginIter c t)).length - 1 ≤ c.nsub + 1
        rw [List.length_set]
        exact hge
      · intro _ h; rcases b4 with b | b <;> rw [b] at h <;> cases h
    · simp only [hge, if_false]
      exact ctl_of hc ht rfl rfl (Nat.le_succ _) (fun _ => hc.kindC t hmem hp) (fun _ h => by simp [hcp] at h)
        (fun _ _ h => absurd hcp h) (fun _ h => by simp [hcp] at h) (fun h => by simp [hp] at h)
        (fun u h => Or.inr h) (fun h => by simp [hp] at h)
  | @citer lbl s' q' hp hcp hst =>
    have hkb : t.q.prog.kind = .batch := (hs.kindC t hmem hp).2.1 hcp
    obtain ⟨n1, n2⟩ := hc.phase t hmem hp (Or.inl hcp)
    have hpk := pcKind_of hkb htok n1 n2
    obtain ⟨-, hprog', -⟩ := stepThread_data lbl s' q' hst htok
    obtain ⟨e1, e2, -⟩ := stepThread_end lbl s' q' hst
    have hsubt := hc.sub t hmem hp (by rw [hcp]; simp) (by rw [hcp]; simp)
    have hip : (afterIter c t.q.pc s' { t with q := q' }).2.isProd = false := by
      unfold afterIter; (repeat' split) <;> exact hp
    refine ctl_of hc ht rfl (by rw [hip, hp]) (Nat.le_refl _) ?_ ?_ ?_ ?_ (fun h => by simp [hp] at h)
      (fun u h => Or.inr h) (fun h => by rw [hip] at h; cases h)
    · intro _
      have hq'k : q'.prog.kind = .batch := by rw [hprog']; exact hkb
      unfold afterIter; (repeat' split) <;> first | exact Or.inr rfl | exact Or.inl hq'k
    · intro _
      unfold afterIter
      split
      · split <;> simp
      · rename_i hnb
        have hnb' : t.q.pc ≠ .bRaise := by simpa using hnb
        have hq' : q'.pc ≠ .start ∧ q'.pc ≠ .done := ⟨e1, fun h => hnb' (e2 h hpk)⟩
        (repeat' split) <;> simp [hq']
    · intro _ _ _
      show (c.ths.set tid _).length - 1 ≤ c.nsub
      rw [List.length_set]; exact hsubt
    · intro _
      unfold afterIter; (repeat' split) <;> simp [hcp]
  | @cstop lbl s' q' hp hcp hst =>
    have hps : t.q.prog = .stopper none := (hs.kindC t hmem hp).2.2 hcp
    obtain ⟨-, hprog', -⟩ := stepThread_data lbl s' q' hst htok
    obtain ⟨e1, -, -⟩ := stepThread_end lbl s' q' hst
    have hsubt := hc.sub t hmem hp (by rw [hcp]; simp) (by rw [hcp]; simp)
    have hip : (postStop t q').isProd = false := by unfold postStop; split <;> exact hp
    refine ctl_of hc ht rfl (by rw [hip, hp]) (Nat.le_refl _) ?_ ?_ ?_ ?_ (fun h => by simp [hp] at h)
      (fun u h => Or.inr h) (fun h => by rw [hip] at h; cases h)
    · intro _
      have hq'k : q'.prog.kind = .stopper := by rw [hprog', hps]; rfl
      unfold postStop; split <;> exact Or.inr hq'k
    · intro _
      unfold postStop
      split
      · simp
      · rename_i hnd
        intro _
        exact ⟨e1, by simpa using hnd⟩
    · intro _ _ _
      show (c.ths.set tid _).length - 1 ≤ c.nsub
      rw [List.length_set]; exact hsubt
    · intro _
      unfold postStop; split <;> simp [hcp]
  | cshutdown hp hcp hd =>
    have hsubt := hc.sub t hmem hp (by rw [hcp]; simp) (by rw [hcp]; simp)
    refine ctl_of hc ht rfl rfl (Nat.le_refl _) (fun _ => hc.kindC t hmem hp) (fun _ h => by simp at h) ?_
      (fun _ _ => hd) (fun h => by simp [hp] at h) (fun u h => Or.inr h) (fun h => by simp [hp] at h)
    intro _ _ _
    show (c.ths.set tid _).length - 1 ≤ c.nsub
    rw [List.length_set]; exact hsubt

theorem ctl_init (cap bm mw : Nat) (ns : Option Nat) (soe : Bool) (inputs : List (List Item))
    (prods : List ProdSpec) : Ctl (init cap bm mw ns soe inputs prods) := by
  refine ⟨?_, ?_, ?_, ?_, ?_, ?_⟩
  · intro t ht hp
    rcases mem_init_ths ht with rfl | ⟨p, _, rfl⟩
    · exact Or.inl rfl
    · simp [mkProducer] at hp
  · intro t ht hp h
    rcases mem_init_ths ht with rfl | ⟨p, _, rfl⟩
    · simp [mkConsumer] at h
    · simp [mkProducer] at hp
  · intro t ht hp h
    rcases mem_init_ths ht with rfl | ⟨p, _, rfl⟩
    · simp [mkConsumer] at h
    · simp [mkProducer] at hp
  · intro t ht hp h
    rcases mem_init_ths ht with rfl | ⟨p, _, rfl⟩
    · simp [mkConsumer] at h
    · simp [mkProducer] at hp
  · intro u h; simp [init] at h
  · intro t ht hp h
    rcases mem_init_ths ht with rfl | ⟨p, _, rfl⟩
    · simp [mkConsumer] at hp
    · simp [mkProducer] at h

theorem ctl_reachable {c0 c : Cfg} (hb0 : Base c0) (h0 : Ctl c0) (h : Reachable F c0 c) : Ctl c := by
  induction h with
  | init => exact h0
  | step hr hs ih =>
    obtain ⟨t, ht, hk⟩ := step_inv hs
    exact ctl_step (base_reachable hb0 hr) ih ht hk

end MlModel.Piter
