import MlModel.Lemmas.QueueVariant
import MlModel.Lemmas.QueueLiveView
/-!
# The termination measure `Phi` seen through an embedding

Companion of `Lemmas/QueueLiveView.lean` for `C04_variant`: the side conditions of `variant_step` other than
`Base` (`VarX`) are preserved by the view changes of an embedding, and replacing a consumer between two
calls does not increase `Phi`.
-/
namespace MlModel.Queue

/-- the hypotheses of `variant_step` besides `Base` -/
structure VarX (c : Cfg) : Prop where
  ig : c.sh.ignoreError = false
  max : ∀ t ∈ c.ths, t.prog.kind = .batch → 0 < t.batchMax
  rn : ∀ t ∈ c.ths, RN t

theorem varX_step {c c' : Cfg} {tid alt lbl} (hb : Base c) (hx : VarX c)
    (h : step c tid alt = some (lbl, c')) : VarX c' := by
  have := varInv_step ⟨hb, hx.ig, hx.max, hx.rn⟩ h
  exact ⟨this.ig, this.max, this.rn⟩

theorem phi_step {c c' : Cfg} {tid alt lbl} (hb : Base c) (hx : VarX c)
    (h : step c tid alt = some (lbl, c')) : Phi c' < Phi c :=
  variant_step hb hx.ig hx.max hx.rn h

theorem varX_set {c : Cfg} {i : Tid} {t' : Thread} (hx : VarX c)
    (hmax : t'.prog.kind = .batch → 0 < t'.batchMax) (hrn : RN t') :
    VarX { sh := c.sh, ths := c.ths.set i t' } := by
  refine ⟨hx.ig, ?_, ?_⟩
  · intro u hu
    rcases List.mem_or_eq_of_mem_set hu with hu | rfl
    · exact hx.max u hu
    · exact hmax
  · intro u hu
    rcases List.mem_or_eq_of_mem_set hu with hu | rfl
    · exact hx.rn u hu
    · exact hrn

theorem varX_append {c : Cfg} {s' : Shared} {t' : Thread} (hx : VarX c) (hig : s'.ignoreError = c.sh.ignoreError)
    (hmax : t'.prog.kind = .batch → 0 < t'.batchMax) (hrn : RN t') :
    VarX { sh := s', ths := c.ths ++ [t'] } := by
  refine ⟨by rw [hig]; exact hx.ig, ?_, ?_⟩
  · intro u hu
    rcases List.mem_append.mp hu with hu | hu
    · exact hx.max u hu
    · simp only [List.mem_singleton] at hu; subst hu; exact hmax
  · intro u hu
    rcases List.mem_append.mp hu with hu | hu
    · exact hx.rn u hu
    · simp only [List.mem_singleton] at hu; subst hu; exact hrn

theorem rn_of_pc {t : Thread} (h : t.pc = .bAcq ∨ t.pc = .done ∨ t.pc = .start ∨ t.pc = .sRel) : RN t := by
  unfold RN
  rcases h with h | h | h | h <;> simp [h]

/-- the potential of a consumer between two calls that holds nothing -/
theorem potT_quiet {N : Nat} {x : Bool} {t : Thread} (hq : QuietC t) (hr : t.result = []) :
    potT N x t = if t.pc = .done then 0 else 19 + 2 * wE := by
  have hp : isProd t = false := hq.class.2.2.2.2.2.2.2.1
  unfold potT srcLen basePot
  rcases hq.pc with h | h <;> simp [h, hr, hp]

/-- **Replacing a consumer between two calls does not increase the measure** (a finished one stays
finished). -/
theorem phi_set_quiet {c : Cfg} {i : Tid} {t t' : Thread} (ht : c.ths[i]? = some t)
    (hq : QuietC t) (hr : t.result = []) (hq' : QuietC t') (hr' : t'.result = [])
    (hd : t.pc = .done → t'.pc = .done) :
    Phi { sh := c.sh, ths := c.ths.set i t' } ≤ Phi c := by
  unfold Phi
  simp only [List.length_set]
  have := sum_map_set (potT c.ths.length (xEmpty c.sh)) (b := t') ht
  rw [potT_quiet hq hr, potT_quiet hq' hr'] at this
  by_cases h : t.pc = .done
  · rw [if_pos h, if_pos (hd h)] at this; omega
  · rw [if_neg h] at this
    split at this <;> omega

end MlModel.Queue
