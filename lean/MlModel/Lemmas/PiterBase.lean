import MlModel.Model.Piter
import MlModel.Lemmas.QueueInv
/-!
# Parallel-iteration LTS: reachability and the anatomy of one step

`StepKind` lists the eleven kinds of step of `Piter.step` with the exact successor configuration;
`step_inv` shows every step is one of them.  All invariant proofs go by cases on `StepKind`.
-/
namespace MlModel.Piter
open MlModel.Queue

inductive Reachable (F : Nat → Option (List Nat)) (c0 : Cfg) : Cfg → Prop where
  | init : Reachable F c0 c0
  | step {c c' : Cfg} {tid : Tid} {alt : Bool} {lbl : String} :
      Reachable F c0 c → step F c tid alt = some (lbl, c') → Reachable F c0 c'

inductive StepKind (F : Nat → Option (List Nat)) (c : Cfg) (tid : Tid) (alt : Bool) (t : PThread) :
    String → Cfg → Prop where
  | pstart : t.isProd = true → t.q.pc = .start → tid ≤ c.nsub →
      (c.maxWorkers = 0 ∨ c.running < c.maxWorkers) →
      StepKind F c tid alt t "start" (c.setTh tid { t with q := { t.q with pc := .sAcq } })
  | iacq : t.isProd = true → t.q.pc = .eNext → t.ipc = .acq → c.ilock = none →
      StepKind F c tid alt t "acquire lock1"
        { c with ilock := some tid, ths := c.ths.set tid { t with ipc := .next } }
  | inextL : t.isProd = true → t.q.pc = .eNext → t.ipc = .next → t.useLock = true → c.ilock = some tid →
      StepKind F c tid alt t "next"
        { c with inputs := (pull c.inputs t.sid).2,
                 ths := c.ths.set tid { t with hand := (pull c.inputs t.sid).1, ipc := .rel } }
  | inextU : t.isProd = true → t.q.pc = .eNext → t.ipc = .next → t.useLock = false →
      StepKind F c tid alt t "next"
        { c with sh := (afterPull F tid c.sh t (pull c.inputs t.sid).1).1, inputs := (pull c.inputs t.sid).2,
                 ths := c.ths.set tid (afterPull F tid c.sh t (pull c.inputs t.sid).1).2 }
  | irel : t.isProd = true → t.q.pc = .eNext → t.ipc = .rel → c.ilock = some tid →
      StepKind F c tid alt t "release lock1"
        { c with sh := (afterPull F tid c.sh t t.hand).1, ilock := none,
                 ths := c.ths.set tid (afterPull F tid c.sh t t.hand).2 }
  | pq {lbl : String} {s' : Shared} {q' : Queue.Thread} : t.isProd = true → t.q.pc ≠ .done → t.q.pc ≠ .start →
      t.q.pc ≠ .eNext → stepThread c.sh t.q tid alt = some (lbl, s', q') →
      StepKind F c tid alt t lbl { c with sh := s', ths := c.ths.set tid (postProd tid t q') }
  | cboot0 : t.isProd = false → t.cpc = .boot → c.nProd = 0 →
      StepKind F c tid alt t "start" (c.setTh tid (beginIter c t))
  | cboot : t.isProd = false → t.cpc = .boot → c.nProd ≠ 0 →
      StepKind F c tid alt t "start" (c.setTh tid { t with cpc := .submit })
  | csubmit : t.isProd = false → t.cpc = .submit →
      StepKind F c tid alt t "submit"
        { c with nsub := c.nsub + 1,
                 ths := c.ths.set tid (if c.nsub + 1 ≥ c.nProd then beginIter c t else t) }
  | citer {lbl : String} {s' : Shared} {q' : Queue.Thread} : t.isProd = false → t.cpc = .iter →
      stepThread c.sh t.q tid alt = some (lbl, s', q') →
      StepKind F c tid alt t lbl
        { c with sh := (afterIter c t.q.pc s' { t with q := q' }).1,
                 ths := c.ths.set tid (afterIter c t.q.pc s' { t with q := q' }).2 }
  | cstop {lbl : String} {s' : Shared} {q' : Queue.Thread} : t.isProd = false → t.cpc = .stopping →
      stepThread c.sh t.q tid alt = some (lbl, s', q') →
      StepKind F c tid alt t lbl { c with sh := s', ths := c.ths.set tid (postStop t q') }
  | cshutdown : t.isProd = false → t.cpc = .shutdown → c.producersDone = true →
      StepKind F c tid alt t "shutdown" (c.setTh tid { t with cpc := .fin })

theorem step_inv {F : Nat → Option (List Nat)} {c c' : Cfg} {tid : Tid} {alt : Bool} {lbl : String}
    (h : step F c tid alt = some (lbl, c')) :
    ∃ t, c.ths[tid]? = some t ∧ StepKind F c tid alt t lbl c' := by
  unfold step at h
  split at h
  · simp at h
  · rename_i t ht
    refine ⟨t, ht, ?_⟩
    split at h
    · rename_i hp
      split at h
      · simp at h
      · rename_i hpc
        split at h
        · simp at h
        · split at h
          · rename_i hcond
            simp only [Option.some.injEq, Prod.mk.injEq] at h
            obtain ⟨rfl, rfl⟩ := h
            simp only [Bool.and_eq_true, decide_eq_true_eq, Bool.or_eq_true, beq_iff_eq] at hcond
            exact .pstart hp hpc hcond.1 hcond.2
          · simp at h
      · rename_i hpc
        split at h
        · simp at h
        · split at h
          · rename_i hipc
            split at h
            · simp at h
            · rename_i hl
              simp only [Option.some.injEq, Prod.mk.injEq] at h
              obtain ⟨rfl, rfl⟩ := h
              exact .iacq hp hpc hipc hl
          · rename_i hipc
            split at h
            · simp at h
            · rename_i hown
              split at h
              · rename_i hul
                simp only [Option.some.injEq, Prod.mk.injEq] at h
                obtain ⟨rfl, rfl⟩ := h
                simp only [hul, Bool.true_and, bne_iff_ne, ne_eq, Decidable.not_not] at hown
                exact .inextL hp hpc hipc hul hown
              · rename_i hul
                simp only [Option.some.injEq, Prod.mk.injEq] at h
                obtain ⟨rfl, rfl⟩ := h
                exact .inextU hp hpc hipc (by simpa using hul)
          · rename_i hipc
            split at h
            · simp at h
            · rename_i hown
              simp only [Option.some.injEq, Prod.mk.injEq] at h
              obtain ⟨rfl, rfl⟩ := h
              simp only [bne_iff_ne, ne_eq, Decidable.not_not] at hown
              exact .irel hp hpc hipc hown
      · rename_i h1 h2 h3
        split at h
        · simp at h
        · rename_i lbl' s' q' hst
          simp only [Option.some.injEq, Prod.mk.injEq] at h
          obtain ⟨rfl, rfl⟩ := h
          exact .pq hp h1 h2 h3 hst
    · rename_i hp
      have hp' : t.isProd = false := by simpa using hp
      split at h
      · simp at h
      · rename_i hc
        split at h
        · simp at h
        · split at h
          · rename_i hn
            simp only [Option.some.injEq, Prod.mk.injEq] at h
            obtain ⟨rfl, rfl⟩ := h
            exact .cboot0 hp' hc (by simpa using hn)
          · rename_i hn
            simp only [Option.some.injEq, Prod.mk.injEq] at h
            obtain ⟨rfl, rfl⟩ := h
            exact .cboot hp' hc (by simpa using hn)
      · rename_i hc
        split at h
        · simp at h
        · simp only [Option.some.injEq, Prod.mk.injEq] at h
          obtain ⟨rfl, rfl⟩ := h
          exact .csubmit hp' hc
      · rename_i hc
        split at h
        · simp at h
        · rename_i lbl' s' q' hst
          simp only [Option.some.injEq, Prod.mk.injEq] at h
          obtain ⟨rfl, rfl⟩ := h
          exact .citer hp' hc hst
      · rename_i hc
        split at h
        · simp at h
        · rename_i lbl' s' q' hst
          simp only [Option.some.injEq, Prod.mk.injEq] at h
          obtain ⟨rfl, rfl⟩ := h
          exact .cstop hp' hc hst
      · rename_i hc
        split at h
        · simp at h
        · split at h
          · rename_i hd
            simp only [Option.some.injEq, Prod.mk.injEq] at h
            obtain ⟨rfl, rfl⟩ := h
            exact .cshutdown hp' hc hd
          · simp at h

end MlModel.Piter
