import MlModel.Lemmas.PipeAggBasic
import MlModel.Lemmas.PipeAggDefs
import MlModel.Lemmas.AggCore
/-!
# The runner: what the state holds under one key after a stream
-/
namespace MlModel.PipeAgg
open MlModel MlModel.Agg

variable {X S Rv : Type}

/-- the row batches a list of updates feeds to key `mk`, in order -/
def feedsTo (mk : MetricKey) (us : List (Upd X S Rv)) : List (List X) :=
  (us.filter (fun u => u.key = mk)).map (·.rows)

theorem feedsTo_nil (mk : MetricKey) : feedsTo mk ([] : List (Upd X S Rv)) = [] := rfl

theorem feedsTo_cons (mk : MetricKey) (u : Upd X S Rv) (us : List (Upd X S Rv)) :
    feedsTo mk (u :: us) = if u.key = mk then u.rows :: feedsTo mk us else feedsTo mk us := by
  unfold feedsTo
  by_cases h : u.key = mk <;> simp [h]

theorem feedsTo_append (mk : MetricKey) (us vs : List (Upd X S Rv)) :
    feedsTo mk (us ++ vs) = feedsTo mk us ++ feedsTo mk vs := by
  simp [feedsTo]

theorem feedsTo_flatten (mk : MetricKey) (uss : List (List (Upd X S Rv))) :
    feedsTo mk uss.flatten = (uss.map (feedsTo mk)).flatten := by
  induction uss with
  | nil => rfl
  | cons us uss ih => simp [feedsTo_append, ih]

theorem get?_apply (st : State S) (u : Upd X S Rv) (mk : MetricKey) :
    AList.get? (Upd.apply st u) mk =
      if mk = u.key then some (u.m.add ((AList.get? st u.key).getD u.m.empty) u.rows)
      else AList.get? st mk := by
  unfold Upd.apply
  exact AList.get?_set _ _ _ _

/-- **Locality**: the entry under `mk` after a sequence of updates is the fold of the row batches fed
to `mk` (all by the same aggregate `m0`), starting from the old entry or from a fresh state. -/
theorem get?_foldl_apply (m0 : Mergeable X S (List Rv)) (mk : MetricKey) (us : List (Upd X S Rv)) :
    ∀ (st : State S), (∀ u ∈ us, u.key = mk → u.m = m0) →
      AList.get? (us.foldl Upd.apply st) mk =
        if feedsTo mk us = [] then AList.get? st mk
        else some ((feedsTo mk us).foldl m0.add ((AList.get? st mk).getD m0.empty)) := by
  induction us with
  | nil => intro st _; simp [feedsTo_nil]
  | cons u us ih =>
    intro st hm
    have hm' : ∀ u' ∈ us, u'.key = mk → u'.m = m0 := fun u' h => hm u' (List.mem_cons_of_mem _ h)
    rw [List.foldl_cons, ih _ hm', feedsTo_cons, get?_apply]
    by_cases hk : u.key = mk
    · have hmu : u.m = m0 := hm u List.mem_cons_self hk
      subst hk
      simp only [if_true, hmu]
      by_cases hf : feedsTo u.key us = []
      · simp [hf]
      · simp [hf]
    · have hk' : ¬ mk = u.key := fun e => hk e.symm
      simp [hk, hk']

theorem mem_keys_foldl_apply (mk : MetricKey) (us : List (Upd X S Rv)) :
    ∀ (st : State S), mk ∈ AList.keys (us.foldl Upd.apply st) ↔
      mk ∈ AList.keys st ∨ ∃ u ∈ us, u.key = mk := by
  induction us with
  | nil => intro st; simp
  | cons u us ih =>
    intro st
    rw [List.foldl_cons, ih]
    unfold Upd.apply
    rw [AList.mem_keys_set]
    constructor
    · rintro ((h | h) | ⟨u', hu', h⟩)
      · exact Or.inr ⟨u, List.mem_cons_self, h.symm⟩
      · exact Or.inl h
      · exact Or.inr ⟨u', List.mem_cons_of_mem _ hu', h⟩
    · rintro (h | ⟨u', hu', h⟩)
      · exact Or.inl (Or.inr h)
      · rcases List.mem_cons.mp hu' with rfl | hu''
        · exact Or.inl (Or.inl h.symm)
        · exact Or.inr ⟨u', hu'', h⟩

theorem nodup_keys_foldl_apply (us : List (Upd X S Rv)) :
    ∀ (st : State S), (AList.keys st).Nodup → (AList.keys (us.foldl Upd.apply st)).Nodup := by
  induction us with
  | nil => intro st h; exact h
  | cons u us ih =>
    intro st h
    rw [List.foldl_cons]
    exact ih _ (AList.nodup_keys_set _ _ _ h)

/-! ### `runFrom` = all plans, then all updates -/

theorem updateState_ok {P : Pipeline X S Rv} {st st' : State S} {b : Batch}
    (h : updateState P st b = .ok st') : ∃ us, plan P b = .ok us ∧ st' = us.foldl Upd.apply st := by
  unfold updateState at h
  split at h
  · cases hp : plan P b with
    | error e => rw [hp] at h; cases h
    | ok us => rw [hp] at h; cases h; exact ⟨us, rfl, rfl⟩
  · cases h

theorem runFrom_ok {P : Pipeline X S Rv} {bs : List Batch} :
    ∀ {st st' : State S}, runFrom P st bs = .ok st' →
      ∃ uss, mapE (plan P) bs = .ok uss ∧ st' = uss.flatten.foldl Upd.apply st := by
  induction bs with
  | nil => intro st st' h; simp only [runFrom] at h; cases h; exact ⟨[], rfl, rfl⟩
  | cons b bs ih =>
    intro st st' h
    simp only [runFrom] at h
    cases hu : updateState P st b with
    | error e => rw [hu] at h; cases h
    | ok st1 =>
      rw [hu] at h
      obtain ⟨us, hp, rfl⟩ := updateState_ok hu
      obtain ⟨uss, hps, rfl⟩ := ih h
      exact ⟨us :: uss, mapE_cons_of_ok hp hps, by simp [List.foldl_append]⟩

/-! ### `createState` -/

theorem mem_keys_createState_aux (l : List (Agg X S Rv)) :
    ∀ (st : State S) (mk : MetricKey),
      mk ∈ AList.keys (l.foldl (fun st a => AList.set st ⟨a.out, SliceKey.none⟩ a.m.empty) st) ↔
        mk ∈ AList.keys st ∨ ∃ a ∈ l, mk = ⟨a.out, SliceKey.none⟩ := by
  induction l with
  | nil => intro st mk; simp
  | cons a l ih =>
    intro st mk
    rw [List.foldl_cons, ih, AList.mem_keys_set]
    constructor
    · rintro ((h | h) | ⟨a', ha', h⟩)
      · exact Or.inr ⟨a, List.mem_cons_self, h⟩
      · exact Or.inl h
      · exact Or.inr ⟨a', List.mem_cons_of_mem _ ha', h⟩
    · rintro (h | ⟨a', ha', h⟩)
      · exact Or.inl (Or.inr h)
      · rcases List.mem_cons.mp ha' with rfl | ha''
        · exact Or.inl (Or.inl h)
        · exact Or.inr ⟨a', ha'', h⟩

theorem mem_keys_createState (P : Pipeline X S Rv) (mk : MetricKey) :
    mk ∈ AList.keys (createState P) ↔ ∃ a ∈ P.aggs, mk = ⟨a.out, SliceKey.none⟩ := by
  unfold createState
  rw [mem_keys_createState_aux]
  simp [AList.keys]

theorem nodup_keys_createState (P : Pipeline X S Rv) : (AList.keys (createState P)).Nodup := by
  unfold createState
  suffices h : ∀ (l : List (Agg X S Rv)) (st : State S), (AList.keys st).Nodup →
      (AList.keys (l.foldl (fun st a => AList.set st ⟨a.out, SliceKey.none⟩ a.m.empty) st)).Nodup by
    exact h _ _ (by simp [AList.keys])
  intro l
  induction l with
  | nil => intro st h; exact h
  | cons a l ih => intro st h; rw [List.foldl_cons]; exact ih _ (AList.nodup_keys_set _ _ _ h)

theorem get?_createState_aux (a0 : Agg X S Rv) (l : List (Agg X S Rv))
    (hl : ∀ a ∈ l, a.out = a0.out → a.m.empty = a0.m.empty) :
    ∀ (st : State S),
      AList.get? (l.foldl (fun st a => AList.set st ⟨a.out, SliceKey.none⟩ a.m.empty) st) ⟨a0.out, SliceKey.none⟩ =
        if ∃ a ∈ l, a.out = a0.out then some a0.m.empty else AList.get? st ⟨a0.out, SliceKey.none⟩ := by
  induction l with
  | nil => intro st; simp
  | cons a l ih =>
    intro st
    have hl' : ∀ a ∈ l, a.out = a0.out → a.m.empty = a0.m.empty :=
      fun a h => hl a (List.mem_cons_of_mem _ h)
    rw [List.foldl_cons, ih hl', AList.get?_set]
    by_cases h1 : ∃ a ∈ l, a.out = a0.out
    · have : ∃ a' ∈ a :: l, a'.out = a0.out := by
        obtain ⟨a', ha', h⟩ := h1
        exact ⟨a', List.mem_cons_of_mem _ ha', h⟩
      simp [h1]
    · by_cases h2 : a.out = a0.out
      · have : ∃ a' ∈ a :: l, a'.out = a0.out := ⟨a, List.mem_cons_self, h2⟩
        have he := hl a List.mem_cons_self h2
        simp [h1, h2, he]
      · have : ¬ ∃ a' ∈ a :: l, a'.out = a0.out := by
          rintro ⟨a', ha', h⟩
          rcases List.mem_cons.mp ha' with rfl | ha''
          · exact h2 h
          · exact h1 ⟨a', ha'', h⟩
        have hne : ¬ (⟨a0.out, SliceKey.none⟩ : MetricKey) = ⟨a.out, SliceKey.none⟩ := by
          intro e; injection e with e1 _; exact h2 e1.symm
        simp [h1, h2, hne]

theorem get?_createState_sliced (P : Pipeline X S Rv) (out : List String) (k : SliceKey)
    (hk : k ≠ SliceKey.none) : AList.get? (createState P) ⟨out, k⟩ = none := by
  cases h : AList.get? (createState P) ⟨out, k⟩ with
  | none => rfl
  | some s =>
    have : (⟨out, k⟩ : MetricKey) ∈ AList.keys (createState P) := by
      rw [AList.mem_keys_iff, h]; rfl
    rw [mem_keys_createState] at this
    obtain ⟨a, _, e⟩ := this
    injection e with _ e2
    exact absurd e2 hk

end MlModel.PipeAgg
