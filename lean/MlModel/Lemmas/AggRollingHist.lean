import MlModel.Lemmas.AggRollingSimple
/-!
# `np.histogram` bins form a partition of `[e₀, eₙ]` when the edges increase strictly
-/
namespace MlModel.Agg.Rolling

/-- strictly increasing edges -/
def StrictInc : List Rat → Prop
  | a :: b :: r => a < b ∧ StrictInc (b :: r)
  | _ => True

theorem StrictInc.tail {a : Rat} {l : List Rat} (h : StrictInc (a :: l)) : StrictInc l := by
  cases l with
  | nil => trivial
  | cons b r => exact h.2

theorem StrictInc.head_lt {a : Rat} {l : List Rat} (h : StrictInc (a :: l)) (j : Nat)
    (hj : j < l.length) : a < l.getD j 0 := by
  induction l generalizing a j with
  | nil => simp at hj
  | cons b r ih =>
    cases j with
    | zero => simpa using h.1
    | succ j =>
      have := ih h.2 j (by simpa using hj)
      simp only [List.getD_cons_succ]
      exact lt_trans h.1 this

/-- edges are strictly monotone in the index -/
theorem StrictInc.lt_of_lt {l : List Rat} (h : StrictInc l) {i j : Nat} (hij : i < j)
    (hj : j < l.length) : l.getD i 0 < l.getD j 0 := by
  induction l generalizing i j with
  | nil => simp at hj
  | cons a r ih =>
    cases j with
    | zero => omega
    | succ j =>
      cases i with
      | zero => simpa using h.head_lt j (by simpa using hj)
      | succ i =>
        simp only [List.getD_cons_succ]
        exact ih h.tail (by omega) (by simpa using hj)

theorem StrictInc.le_of_le {l : List Rat} (h : StrictInc l) {i j : Nat} (hij : i ≤ j)
    (hj : j < l.length) : l.getD i 0 ≤ l.getD j 0 := by
  rcases Nat.lt_or_eq_of_le hij with h' | h'
  · exact le_of_lt (h.lt_of_lt h' hj)
  · rw [h']

/-- membership of `v` in bin `i` of `edges` -/
def inBinAt (edges : List Rat) (i : Nat) (v : Rat) : Bool :=
  inBin (edges.getD i 0) (edges.getD (i + 1) 0) (i + 1 == edges.length - 1) (some v)

theorem inBinAt_iff (edges : List Rat) (i : Nat) (v : Rat) :
    inBinAt edges i v = true ↔
      edges.getD i 0 ≤ v ∧ (v < edges.getD (i + 1) 0 ∨ (i + 1 = edges.length - 1 ∧ v = edges.getD (i + 1) 0)) := by
  simp [inBinAt, inBin]

/-- **at most one bin** -/
theorem inBinAt_unique {edges : List Rat} (h : StrictInc edges) {i j : Nat} {v : Rat}
    (hi : i + 1 < edges.length) (hj : j + 1 < edges.length)
    (bi : inBinAt edges i v = true) (bj : inBinAt edges j v = true) : i = j := by
  rw [inBinAt_iff] at bi bj
  rcases Nat.lt_trichotomy i j with hlt | heq | hgt
  · exfalso
    have hmono := h.le_of_le (i := i + 1) (j := j) (by omega) (by omega)
    rcases bi.2 with h1 | ⟨h1, _⟩
    · exact absurd (lt_of_lt_of_le h1 (le_trans hmono bj.1)) (lt_irrefl _)
    · omega
  · exact heq
  · exfalso
    have hmono := h.le_of_le (i := j + 1) (j := i) (by omega) (by omega)
    rcases bj.2 with h1 | ⟨h1, _⟩
    · exact absurd (lt_of_lt_of_le h1 (le_trans hmono bi.1)) (lt_irrefl _)
    · omega

/-- **at least one bin** for a value inside the outer edges -/
theorem inBinAt_exists {edges : List Rat} (hlen : 2 ≤ edges.length) {v : Rat}
    (hlo : edges.getD 0 0 ≤ v) (hhi : v ≤ edges.getD (edges.length - 1) 0) :
    ∃ i, i + 1 < edges.length ∧ inBinAt edges i v = true := by
  -- the largest index `i ≤ n-1` with `edges[i] ≤ v`, found by induction on the number of bins
  have key : ∀ m, m + 1 < edges.length → edges.getD 0 0 ≤ v →
      (v < edges.getD (m + 1) 0 ∨ (m + 1 = edges.length - 1 ∧ v = edges.getD (m + 1) 0)) →
      ∃ i, i + 1 < edges.length ∧ inBinAt edges i v = true := by
    intro m
    induction m with
    | zero =>
      intro hm h0 hup
      exact ⟨0, hm, (inBinAt_iff _ _ _).mpr ⟨h0, hup⟩⟩
    | succ m ih =>
      intro hm h0 hup
      by_cases hc : edges.getD (m + 1) 0 ≤ v
      · exact ⟨m + 1, hm, (inBinAt_iff _ _ _).mpr ⟨hc, hup⟩⟩
      · exact ih (by omega) h0 (Or.inl (lt_of_not_ge hc))
  have hn : edges.length - 1 - 1 + 1 = edges.length - 1 := by omega
  apply key (edges.length - 1 - 1) (by omega) hlo
  rw [hn]
  rcases lt_or_eq_of_le hhi with h1 | h1
  · exact Or.inl h1
  · exact Or.inr ⟨rfl, h1⟩

/-- a value outside the outer edges is in no bin -/
theorem inBinAt_outside {edges : List Rat} (h : StrictInc edges) {i : Nat} {v : Rat}
    (hi : i + 1 < edges.length)
    (hout : v < edges.getD 0 0 ∨ edges.getD (edges.length - 1) 0 < v) : inBinAt edges i v = false := by
  rw [Bool.eq_false_iff]
  intro hb
  rw [inBinAt_iff] at hb
  rcases hout with h1 | h1
  · have := h.le_of_le (i := 0) (j := i) (by omega) (by omega)
    exact absurd (lt_of_lt_of_le h1 (le_trans this hb.1)) (lt_irrefl _)
  · have hm := h.le_of_le (i := i + 1) (j := edges.length - 1) (by omega) (by omega)
    rcases hb.2 with h2 | ⟨_, h2⟩
    · exact absurd (lt_trans (lt_of_le_of_lt hm h1) h2) (lt_irrefl _)
    · rw [h2] at h1; exact absurd (lt_of_le_of_lt hm h1) (lt_irrefl _)

end MlModel.Agg.Rolling
