import MlModel.Model.PipeAgg
/-!
# Concrete aggregates and decoders for the `PipeAgg` model

The correspondence (harness/props/c02.py) runs the pipeline model with one concrete lawful
`Mergeable`: additive sufficient statistics of the rows (`Stat`: row count, leaf count / sum /
sum of squares of the first column, leaf count / sum of the second column, the dot product of
scalar pairs, the bag of first-column int leaves, the bag of ALL first-column scalars), merged component-wise.  Each real aggregate used by
the harness (`MeanAndVariance`, `Mean`, `Counter`, user metrics) is a *view* of `Stat`.
Lawfulness is proved in `Lemmas/PipeAgg.lean` (`statM_lawful`).
-/
namespace MlModel.PipeAgg
open MlModel MlModel.Agg

mutual
/-- the INT scalars under a value, in order (`None` and dicts contribute nothing).  The numeric views
(`meanvar`, `mean`, `counter`, `sumcount`, `dot`, `pr`, `total`) are tied to the code on int columns only;
columns of other kinds are observed through the `bag` view, which keeps every scalar. -/
def Val.leaves : Val → List Int
  | .leaf (.int v) => [v]
  | .leaf _ => []
  | .null => []
  | .seq _ xs => leavesList xs
  | .map _ => []
def leavesList : List Val → List Int
  | [] => []
  | x :: xs => Val.leaves x ++ leavesList xs
end

def isum : List Int → Int
  | [] => 0
  | x :: xs => x + isum xs

structure Stat where
  rows : Nat := 0
  n0 : Nat := 0
  s0 : Int := 0
  q0 : Int := 0
  n1 : Nat := 0
  s1 : Int := 0
  dot : Int := 0
  vals : List Int := []
  /-- every scalar of the first column (any kind, `None` included), up to Python `==` -/
  bag : List Scalar := []
  deriving Repr, DecidableEq, Inhabited

def Stat.add (a b : Stat) : Stat :=
  { rows := a.rows + b.rows, n0 := a.n0 + b.n0, s0 := a.s0 + b.s0, q0 := a.q0 + b.q0,
    n1 := a.n1 + b.n1, s1 := a.s1 + b.s1, dot := a.dot + b.dot, vals := a.vals ++ b.vals,
    bag := a.bag ++ b.bag }

/-- the contribution of one row (= the tuple of the row's entries in the aggregate's input columns) -/
def Stat.ofRow (r : List Val) : Stat :=
  let c0 := (r.headD .null).leaves
  let c1 := ((r.drop 1).headD .null).leaves
  { rows := 1, n0 := c0.length, s0 := isum c0, q0 := isum (c0.map fun x => x * x),
    n1 := c1.length, s1 := isum c1,
    dot := (match r with
      | [.leaf (.int x), .leaf (.int y)] => x * y
      | _ => 0),
    vals := c0,
    bag := (r.headD .null).scalars.map Scalar.canon }

def Stat.ofBatch : List (List Val) → Stat
  | [] => {}
  | r :: rs => (Stat.ofRow r).add (Stat.ofBatch rs)

/-- the aggregate with sufficient statistics `Stat` and reported value `view` -/
def statM {Rv : Type} (view : Stat → List Rv) : Mergeable (List Val) Stat (List Rv) :=
  { empty := {}, ofBatch := Stat.ofBatch, merge := Stat.add, result := view }

/-- reported values: a vector of fractions `n/d` (`d = 0`: NaN), or a histogram -/
inductive Rv where
  | nums (xs : List (Int × Nat))
  | hist (h : List (Int × Nat))
  | bag (h : List (Scalar × Nat))
  deriving Repr, DecidableEq, Inhabited

def histogram (vals : List Int) : List (Int × Nat) :=
  vals.foldl (fun h v => AList.set h v ((AList.get? h v).getD 0 + 1)) []

def bagHist (vals : List Scalar) : List (Scalar × Nat) :=
  vals.foldl (fun h v => AList.set h v ((AList.get? h v).getD 0 + 1)) []

/-- the views, by the name the harness uses -/
def view : String → Option (Stat → List Rv)
  | "meanvar" => some fun s =>     -- count, mean, var
    [.nums [(s.n0, 1), (s.s0, s.n0), (s.q0 * s.n0 - s.s0 * s.s0, s.n0 * s.n0)]]
  | "mean" => some fun s => [.nums [(s.s0, s.n0)]]
  | "counter" => some fun s => [.hist (histogram s.vals)]
  | "sumcount" => some fun s => [.nums [(s.s0, 1)], .nums [(s.n0, 1)]]
  | "dot" => some fun s => [.nums [(s.dot, 1)], .nums [(s.rows, 1)]]
  | "pr" => some fun s => [.nums [(s.s0, s.n0)], .nums [(s.s1, s.n1)]]
  | "bag" => some fun s => [.bag (bagHist s.bag)]
  | "total" => some fun s => [.nums [(s.s0, 1), (s.rows, 1), (s.n0, 1)]]
  | _ => none

/-- positional array arguments read as rows: `zip(*args, strict=True)` -/
def decCols (args : List Val) : Except ErrKind (List (List Val)) :=
  match mapE Val.asSeq args with
  | .error e => .error e
  | .ok cols =>
    match cols with
    | [] => .ok []
    | c :: cs => if cs.all (fun c' => c'.length == c.length) then .ok (zipRows cols) else .error .value

/-- one `dict` argument of which the aggregate reads the array under `k` -/
def decField (k : String) (args : List Val) : Except ErrKind (List (List Val)) :=
  match args with
  | [.map kvs] =>
    match lookupKey k kvs with
    | some (.seq _ xs) => .ok (xs.map ([·]))
    | some _ => .error .type
    | none => .error .key
  | _ => .error .type

end MlModel.PipeAgg
