import MlModel.Model.Basic
import MlModel.Model.Merged
/-!
# Model of `chainables/io.py`: `ShardConfig`, `SequenceDataSource`, `ShardedIterable`/`DataIterator`

`SequenceDataSource.shard` (io.py:61-77) is mirrored with the `for i in range(shard_index + 1)`
loop as a fold; all indices are Python ints (`Int`), nothing is validated except `num_shards < 1`
(exactly like the code).  A data source is observed through `start`, `end`, `len(...)`, `state` and
`list(ds)` = `data[start:end]` on the underlying `MergedSequences` (`Merged.pySlice`, see
`C09_merged_slice` for the decomposition over parts).
-/
namespace MlModel.Shard
open MlModel.Merged

/-- `ShardConfig(shard_index, num_shards, start_index, parent=…)` (io.py:27-32). -/
inductive ShardConfig where
  | root (shardIndex numShards startIndex : Int)                          -- `parent=None`
  | child (shardIndex numShards startIndex : Int) (parent : ShardConfig)
  deriving DecidableEq, Repr, Inhabited

/-- `ShardConfig()` -/
def ShardConfig.dflt : ShardConfig := .root 0 1 0

/-- `SequenceDataSource` as far as sharding is concerned: `len(self.data)`, `_shard_state`,
`_start`, `_end` (io.py:35-42). -/
structure DS where
  dataLen : Nat
  state : ShardConfig
  start : Int
  end_ : Option Int
  deriving DecidableEq, Repr

/-- `SequenceDataSource(data)` -/
def DS.root (dataLen : Nat) : DS := ⟨dataLen, .dflt, 0, none⟩

/-- `end` property (io.py:84-85) -/
def DS.end (d : DS) : Int := d.end_.getD (d.dataLen : Int)

/-- `__len__` (io.py:87-88); Python's `len()` raises `ValueError` on a negative result. -/
def DS.rawLen (d : DS) : Int := d.end - d.start

def DS.len (d : DS) : Except ErrKind Nat :=
  if d.rawLen < 0 then .error .value else .ok d.rawLen.toNat

/-- One iteration of `for i in range(shard_index + 1)` (io.py:66-68); the state is
`(start, adjusted_interval)`. -/
def shardStep (interval remainder shardIndex : Int) (st : Int × Int) (i : Nat) : Int × Int :=
  let adj := if (i : Int) < remainder then interval + 1 else interval
  (if (i : Int) < shardIndex then st.1 + adj else st.1, adj)

/-- The whole loop, started from `start, adjusted_interval = self.start, 0`. -/
def shardLoop (interval remainder shardIndex start : Int) : Int × Int :=
  (List.range (shardIndex + 1).toNat).foldl (shardStep interval remainder shardIndex) (start, 0)

/-- The body of `shard` after the `num_shards` check (io.py:64-77).
`divmod` with a positive divisor is Lean's `Int` `/` and `%` (floor = Euclidean). -/
def DS.shardCore (d : DS) (shardIndex numShards offset : Int) : DS :=
  let interval := (d.end - d.start) / numShards
  let remainder := (d.end - d.start) % numShards
  let r := shardLoop interval remainder shardIndex d.start
  { d with state := .child shardIndex numShards offset d.state
           start := r.1 + offset
           end_ := some (r.1 + r.2) }

/-- `SequenceDataSource.shard(shard_index, num_shards, offset)` (io.py:61-77). -/
def DS.shard (d : DS) (shardIndex numShards : Int) (offset : Int := 0) : Except ErrKind DS :=
  if numShards < 1 then .error .value else .ok (d.shardCore shardIndex numShards offset)

/-- `from_state` (io.py:94-102): replay the parent chain from a fresh `SequenceDataSource(self.data)`. -/
def fromState (dataLen : Nat) : ShardConfig → Except ErrKind DS
  | .root i k off => (DS.root dataLen).shard i k off
  | .child i k off p => do
    let r ← fromState dataLen p
    r.shard i k off

/-- `list(ds)`: `SequenceIterator` iterates `config.data[config.start : config.end]` (io.py:120). -/
def DS.elems {α : Type} (d : DS) (xs : List α) : List α :=
  pySlice xs (some d.start) (some d.end)

/-- Apply a chain of `shard` calls (outermost first). -/
def DS.shardChain (d : DS) : List (Int × Int × Int) → Except ErrKind DS
  | [] => .ok d
  | (i, k, off) :: rest => do
    let s ← d.shard i k off
    s.shardChain rest

/-- All shards-of-shards at nesting depth `ks.length`, shard counts `ks` (outermost first), in
lexicographic order of their index paths (offset 0). -/
def DS.allShards (d : DS) : List Nat → List DS
  | [] => [d]
  | k :: ks => (List.range k).flatMap fun (i : Nat) => (d.shardCore (i : Int) (k : Int) 0).allShards ks

/-! ## `ShardedIterable` / `DataIterator` (io.py:142-204) -/

/-- `while cond(self._index): next(self._it); self._index += 1` on an iterator over `n` elements
that has consumed `idx` of them.  `true` = `StopIteration` escaped (the index is not advanced). -/
def advance (n : Nat) (cond : Nat → Bool) (idx : Nat) : Nat × Bool :=
  if cond idx then
    if h : idx < n then advance n cond (idx + 1) else (idx, true)
  else (idx, false)
termination_by n - idx

/-- `DataIterator.__next__` (io.py:189-201) on `iter(xs)`; state = `_index` (which equals the number
of elements taken from the underlying iterator). -/
def rrNext {α : Type} (xs : List α) (shardIndex numShards startIndex : Int) (idx : Nat) :
    Option α × Nat :=
  let r1 := advance xs.length (fun j => decide ((j : Int) < startIndex)) idx
  if r1.2 then (none, r1.1)
  else
    let r2 := advance xs.length (fun j => decide ((j : Int) % numShards ≠ shardIndex)) r1.1
    if r2.2 then (none, r2.1)
    else match xs[r2.1]? with
      | some a => (some a, r2.1 + 1)
      | none => (none, r2.1)

/-- Outcomes of `n` successive `next` calls (`none` = `StopIteration`). -/
def rrNexts {α : Type} (xs : List α) (shardIndex numShards startIndex : Int) :
    Nat → Nat → List (Option α)
  | 0, _ => []
  | n + 1, idx =>
    let r := rrNext xs shardIndex numShards startIndex idx
    r.1 :: rrNexts xs shardIndex numShards startIndex n r.2

/-- `DataIterator.state.start_index` (io.py, repaired by finding C10-N2):
`max(self._index, self.config.state.start_index)` — `_index` only catches up with the
`start_index` the iterator was restored with on the first `next()`. -/
def rrStateIndex (startIndex : Int) (idx : Nat) : Int := max (idx : Int) startIndex

/-- `ShardedIterable(data, ShardConfig(i, k, start))`: `__post_init__` rejects `num_shards < 1`. -/
def rrMake (numShards : Int) : Except ErrKind Unit :=
  if numShards < 1 then .error .value else .ok ()

end MlModel.Shard
