import MlModel.Model.Remote
/-!
# Client options and the remote iterator

`CourierClient.__init__` (courier_utils.py:464-502) takes `call_timeout`, `max_parallelism`,
`heartbeat_threshold_secs`, `iterate_batch_size`; `CourierClient.configs` (504-512) packs them into a
`ClientConfig` (436-446) which every `RemoteObject` / `RemoteIterator` obtained through the client carries
(`RemoteObject.new(result, worker=self)`, 665) and from which `RemoteObject.worker` re-makes the client.

* `ClientCfg`  – the options.
* `RIter`      – a `RemoteIterator`: the id of the server-side iterator and the configuration of the client it
                 was obtained through.  The shipped `RemoteIterator.__next__` (371-374) is ONE round trip
                 `get_result(trace(next)(iterator.value))` per element and reads none of the options
                 (`iterate_batch_size` is consumed only by `next_batch_from_generator`, the C15 protocol).
* batched designs – what an implementation that DOES honour `iterate_batch_size` may and may not do, stated
                 on the server-side iterator `Gen`:
                 `pull b g`      the server pulls up to `b` elements and stops at the end of the iterator;
                 `keepNext`      **keep-partial** client: a round trip answers the elements pulled so far AND the
                                 end marker (`StopIteration(*ret)` or the failure) when it was met — the shape of
                                 `PrefetchedCourierServer._next_batch` (courier_server.py:437-470);
                 `isliceNext`    the seeded change C14-m5: `list(itertools.islice(server_iterator, b))` per round
                                 trip — a failure met inside a batch is raised by the call and the elements pulled
                                 before it are dropped, `islice` swallows the `StopIteration` and with it the
                                 generator's return value; an empty fetch falls back to a plain `next`.
-/
namespace MlModel.RemoteOpts
open MlModel MlModel.Lazy MlModel.Remote

/-- `ClientConfig` (courier_utils.py:436-446) without the address -/
structure ClientCfg where
  /-- `call_timeout` (0 = none), in seconds -/
  callTimeout : Nat := 0
  maxParallelism : Nat := 1
  /-- `heartbeat_threshold_secs` (`_HRTBT_THRESHOLD_SECS = 360`) -/
  heartbeatThreshold : Nat := 360
  iterateBatchSize : Nat := 1
  deriving DecidableEq, Repr, Inhabited

/-- a `RemoteIterator` as the client holds it -/
structure RIter where
  id : Nat
  cfg : ClientCfg := {}
  deriving DecidableEq, Repr, Inhabited

/-- `RemoteIterator.__next__` (courier_utils.py:371-374): `self.iterator.worker.get_result(trace(next)(self.iterator.value))`.
The configuration travels with the iterator and is not read. -/
def riterNext (it : RIter) (env : Env) (srv : Srv) : Except Exc CRes × Srv :=
  getResult (.next it.id) env srv

/-- `k` successive `next(remote_iterator)` calls, fault-free -/
def riterRun (it : RIter) : Nat → Srv → List (Except Exc CRes) × Srv
  | 0, srv => ([], srv)
  | k + 1, srv =>
    let r := riterNext it {} srv
    let rest := riterRun it k r.2
    (r.1 :: rest.1, rest.2)

/-! ## Batched designs, on the server-side iterator -/

/-- the finished iterator: every later `next` raises a bare `StopIteration` -/
def deadGen : Gen := { items := [], fin := .stop [] }

/-- the server pulls up to `b` elements with `next`: the elements obtained, the end (with its return value or
failure) when it was met within the `b` pulls, and the iterator afterwards -/
def pull : Nat → Gen → List Val × Option Fin × Gen
  | 0, g => ([], none, g)
  | b + 1, g =>
    match g.items with
    | a :: rest =>
      let r := pull b { g with items := rest }
      (a :: r.1, r.2.1, r.2.2)
    | [] => ([], some g.fin, deadGen)

/-- client state of a buffering remote iterator over the server-side iterator `g` -/
structure BufIter where
  buf : List Val := []
  /-- keep-partial design: the end marker received with the last batch, not yet raised -/
  pend : Option Fin := none
  g : Gen
  deriving DecidableEq, Repr, Inhabited

/-- **keep-partial**: a fetch answers the pulled elements and the end marker; elements are handed out first,
then the marker is raised once. -/
def keepNext (b : Nat) (s : BufIter) : Except Exc Val × BufIter :=
  match s.buf with
  | a :: rest => (.ok a, { s with buf := rest })
  | [] =>
    match s.pend with
    | some f => (.error f.exc, { s with pend := none })
    | none =>
      let r := pull b s.g                                        -- one round trip
      match r.1 with
      | a :: rest => (.ok a, { buf := rest, pend := r.2.1, g := r.2.2 })
      | [] =>
        match r.2.1 with
        | some f => (.error f.exc, { buf := [], pend := none, g := r.2.2 })
        | none => (.error (stopExc []), { s with g := r.2.2 })   -- (b = 0: nothing was asked for)

def keepRun (b : Nat) : Nat → BufIter → List (Except Exc Val) × BufIter
  | 0, s => ([], s)
  | k + 1, s =>
    let r := keepNext b s
    let rest := keepRun b k r.2
    (r.1 :: rest.1, rest.2)

/-- **the seeded change C14-m5** (`seeded/C14-m5-remote-iterator-batch-fetch/patch.diff`):
```
if (batch_size := worker.iterate_batch_size) > 1:
  if not self._fetched:
    self._fetched.extend(worker.get_result(trace(list)(trace(islice)(self.iterator.value, batch_size))))
  if self._fetched:
    return self._fetched.popleft()
return worker.get_result(trace(next)(self.iterator.value))
``` -/
def isliceNext (b : Nat) (s : BufIter) : Except Exc Val × BufIter :=
  if b > 1 then
    match s.buf with
    | a :: rest => (.ok a, { s with buf := rest })
    | [] =>
      let r := pull b s.g
      match r.2.1 with
      | some (.fail x) => (.error x, { s with g := r.2.2 })     -- `list(islice(..))` raises: the batch is lost
      | _ =>                                                     -- `islice` swallowed the StopIteration, if any
        match r.1 with
        | a :: rest => (.ok a, { s with buf := rest, g := r.2.2 })
        | [] => ((genNext r.2.2).1, { s with g := (genNext r.2.2).2 })
  else ((genNext s.g).1, { s with g := (genNext s.g).2 })

def isliceRun (b : Nat) : Nat → BufIter → List (Except Exc Val) × BufIter
  | 0, s => ([], s)
  | k + 1, s =>
    let r := isliceNext b s
    let rest := isliceRun b k r.2
    (r.1 :: rest.1, rest.2)

end MlModel.RemoteOpts
