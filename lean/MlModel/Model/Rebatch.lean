import MlModel.Model.Basic
/-!
# Model of `iter_utils.rebatched_args` (ml_metrics/_src/utils/iter_utils.py)

One *batch* is a tuple of *columns*; a column is a container (`list`, `tuple`,
numpy array, or something else with `len`) of rows.  The generator is modelled as
an online transducer: `step` consumes one input batch and returns the batches it
yields before asking for the next input, `finish` is what happens when the source
is exhausted.  `_concat`, `more_itertools.sliced`, `zip(..., strict=True)`, `_pad`
and the "at most one remainder is carried" rule are written out.
-/
namespace MlModel.Rebatch

/-- Container kinds distinguished by `_concat` / `_pad`. `other` = anything with
`len()` and slicing that is none of the three supported kinds. -/
inductive Kind where
  | list | tuple | array | other
  deriving DecidableEq, Repr, Inhabited

structure Col (α : Type) where
  kind : Kind
  rows : List α
  deriving Repr, DecidableEq

instance {α : Type} : Inhabited (Col α) := ⟨⟨.list, []⟩⟩

abbrev Batch (α : Type) := List (Col α)

/-- `_batch_size(batch[0])`: the number of rows of a batch, read off its first column -/
def nrows {α : Type} (b : Batch α) : Nat := (b.headD default).rows.length

set_option linter.unusedVariables false in
/-- `more_itertools.sliced(seq, n)` (n > 0): consecutive slices of length `n`,
the last one possibly shorter, none for an empty sequence. -/
def sliced {α : Type} (n : Nat) (xs : List α) : List (List α) :=
  if h : n = 0 ∨ xs = [] then [] else xs.take n :: sliced n (xs.drop n)
termination_by xs.length
decreasing_by
  have h := h
  have h1 : n ≠ 0 := fun e => h (Or.inl e)
  have h2 : xs ≠ [] := fun e => h (Or.inr e)
  have : 0 < xs.length := List.length_pos_iff.mpr h2
  simp only [List.length_drop]; omega

/-- `_concat(data)` for a non-empty list of chunks of one column. -/
def concat {α : Type} (chunks : List (Col α)) : Except ErrKind (Col α) :=
  match chunks with
  | [] => .error .value            -- mit.spy on empty: not reachable (buffer flushed only when non-empty)
  | [c] => .ok c                   -- `if len(data) == 1: return data[0]`
  | c :: _ :: _ =>
    match c.kind with
    | .other => .error .type
    | k => .ok { kind := k, rows := (chunks.map (·.rows)).flatten }

/-- `_pad(data, pad, batch_size)`. -/
def padCol {α : Type} (c : Col α) (p : α) (n : Nat) : Except ErrKind (Col α) :=
  match c.kind with
  | .other => .error .type
  | _ => .ok { c with rows := c.rows ++ List.replicate (n - c.rows.length) p }

structure St (α : Type) where
  /-- `column_buffer`: per column, the chunks appended so far -/
  buf : List (List (Col α))
  /-- `batch_sizes` -/
  sizes : List Nat
  deriving Repr

def St.init {α : Type} (ncols : Nat) : St α :=
  { buf := List.replicate ncols [], sizes := List.replicate ncols 0 }

/-- `all(batch_sizes[0] == s for s in batch_sizes)` -/
def allEq (sizes : List Nat) : Bool := sizes.all (· == sizes.headD 0)

/-- `zip(*cols, strict=True)` on a non-empty list of equally long lists. -/
def zipStrict {β : Type} [Inhabited β] (cols : List (List β)) : Except ErrKind (List (List β)) :=
  let k := (cols.headD []).length
  if cols.all (·.length == k) then
    .ok ((List.range k).map fun j => cols.map fun col => col.getD j default)
  else .error .value

/-- The flush block (`if has_batch_sizes and (...)`), shared by `step` and `finish`. -/
def flush {α : Type} (target : Nat) (pad : Option α) (exhausted : Bool)
    (st : St α) : Except ErrKind (St α × List (Batch α)) := do
  let ncols := st.buf.length
  let has := st.sizes.headD 0 != 0      -- `batch_sizes.size and batch_sizes[0]`
  if has && (decide (st.sizes.headD 0 ≥ target) || exhausted) then
    let concated ← st.buf.mapM concat
    let slicedCols : List (List (Col α)) :=
      concated.map fun c => (sliced target c.rows).map fun r => { kind := c.kind, rows := r }
    let slices ← zipStrict slicedCols
    let fresh : St α := St.init ncols
    match slices.getLast? with
    | none => .ok (fresh, [])                       -- `if last_columns is None: continue`
    | some last =>
      let full := slices.dropLast
      if (last.headD default).rows.length == target then
        .ok (fresh, full ++ [last])
      else if exhausted then
        match pad with
        | some p => do
          let padded ← last.mapM fun c => padCol c p target
          .ok (fresh, full ++ [padded])
        | none => .ok (fresh, full ++ [last])
      else
        .ok ({ buf := last.map fun c => [c], sizes := last.map fun c => c.rows.length }, full)
  else
    .ok (st, [])

/-- One iteration of the `while` loop that received a batch. -/
def step {α : Type} (target ncols : Nat) (pad : Option α) (st : St α)
    (b : Batch α) : Except ErrKind (St α × List (Batch α)) := do
  if b.length != ncols then throw .value               -- 'Mismatched columns'
  -- zero columns: `batch_sizes += []` adds a float64 empty array to an int array, which numpy
  -- refuses with a UFuncTypeError (a TypeError)
  if b.isEmpty then throw .type
  let buf' := List.zipWith (fun chunks c => chunks ++ [c]) st.buf b
  let sizes' := List.zipWith (· + ·) st.sizes (b.map fun c => c.rows.length)
  if !allEq sizes' then throw .value                   -- 'Hetroegeneous columns number'
  flush target pad false { buf := buf', sizes := sizes' }

/-- The iteration in which `next(tuples, None)` returned `None`. -/
def finish {α : Type} (target : Nat) (pad : Option α) (st : St α) :
    Except ErrKind (List (Batch α)) := do
  let (_, out) ← flush target pad true st
  return out

/-- Result of running the generator to its end: the batches yielded and, if it
raised, the error kind (batches yielded before the raise are kept, as a consumer
of the generator sees them). -/
structure Run (α : Type) where
  out : List (Batch α)
  err : Option ErrKind
  deriving Repr, DecidableEq

def runFrom {α : Type} (target ncols : Nat) (pad : Option α) :
    St α → List (Batch α) → List (Batch α) → Run α
  | st, acc, [] =>
    match finish target pad st with
    | .ok o => ⟨acc ++ o, none⟩
    | .error e => ⟨acc, some e⟩
  | st, acc, b :: bs =>
    match step target ncols pad st b with
    | .ok (st', o) => runFrom target ncols pad st' (acc ++ o) bs
    | .error e => ⟨acc, some e⟩

/-- `rebatched_args(iter(bs), batch_size=target, num_columns=numColumns, pad=pad)`.
`numColumns = 0` means "deduce from the first batch" (`mit.first`); an empty stream
then yields nothing (the repaired behaviour, finding F11). -/
def run {α : Type} (target numColumns : Nat) (pad : Option α)
    (bs : List (Batch α)) : Run α :=
  if target == 0 then ⟨bs, none⟩                       -- `yield from tuples`
  else
    if numColumns != 0 then runFrom target numColumns pad (St.init numColumns) [] bs
    else match bs with
      | [] => ⟨[], none⟩                               -- `mit.first(tuples, None) is None: return`
      | b :: _ => runFrom target b.length pad (St.init b.length) [] bs

/-! ## Online view

The generator yields the batches of one loop iteration *before* it pulls the next input
batch.  `feed` is the loop without the final (source-exhausted) iteration: the state reached
and the batches yielded after pulling exactly the batches `bs`.  `online` is what a consumer
has received at that point; `pulls` says, for every batch `run` yields, how many `next(tuples)`
calls the generator had made when it yielded it (observable by wrapping the source). -/

structure Feed (α : Type) where
  st : St α
  out : List (Batch α)
  err : Option ErrKind

def feed {α : Type} (target ncols : Nat) (pad : Option α) : St α → List (Batch α) → Feed α
  | st, [] => ⟨st, [], none⟩
  | st, b :: bs =>
    match step target ncols pad st b with
    | .ok (st', o) => let f := feed target ncols pad st' bs; ⟨f.st, o ++ f.out, f.err⟩
    | .error e => ⟨st, [], some e⟩

/-- the column count the generator works with (`num_columns or len(first_batch)`) -/
def effCols {α : Type} (numColumns : Nat) (bs : List (Batch α)) : Nat :=
  if numColumns != 0 then numColumns else (bs.headD []).length

/-- batches yielded by `rebatched_args(iter(bs), ...)` up to the moment it asks for the batch after `bs` -/
def online {α : Type} (target numColumns : Nat) (pad : Option α) (bs : List (Batch α)) :
    List (Batch α) :=
  if target == 0 then bs
  else (feed target (effCols numColumns bs) pad (St.init (effCols numColumns bs)) bs).out

/-- for each yielded batch, the number of `next(tuples)` calls made so far (1-based index of the
input batch whose iteration yielded it; `len(bs)+1` for the source-exhausted iteration) -/
def pulls {α : Type} (target numColumns : Nat) (pad : Option α) (bs : List (Batch α)) : List Nat :=
  let total := (run target numColumns pad bs).out.length
  let counts := (List.range (bs.length + 1)).map fun k => (online target numColumns pad (bs.take k)).length
  (List.range total).map fun j => (counts.takeWhile (· ≤ j)).length

/-! ## `TreeFn._iterate` (chainables/tree_fns.py:233–254): re-batch, call, re-batch

```
fn_inputs = map(self._get_inputs, input_iterator)                    # tuple of `_num_inputs` columns
if self.fn_batch_size: fn_inputs = rebatched_args(fn_inputs, batch_size=self.fn_batch_size, num_columns=self._num_inputs)
fn_outputs = map(self._maybe_call_fn, fn_inputs)                     # one call per (re-batched) batch
fn_outputs = map(self._normalize_outputs, fn_outputs)                # tuple of `_num_outputs` columns
if self.batch_size: fn_outputs = rebatched_args(fn_outputs, batch_size=self.batch_size, num_columns=self._num_outputs)
```
Both re-batchers are lazy generators: the second pulls from the first through `map`, so if the
first raises, the second has yielded exactly what it yields online for the batches it received. -/

def treeFn {α β : Type} (fnBatch batch nin nout : Nat) (G : Batch α → Batch β)
    (bs : List (Batch α)) : Run β :=
  let r1 := run fnBatch nin none bs
  let mid := r1.out.map G
  match r1.err with
  | none => run batch nout none mid
  | some e => ⟨online batch nout none mid, some e⟩

/-- rows of a batch: row `i` = the `i`-th element of every column -/
def rowsOf {α : Type} [Inhabited α] (b : Batch α) : List (List α) :=
  (List.range (nrows b)).map fun i => b.map fun c => c.rows.getD i default

/-- columns (of the given kinds) from rows -/
def ofRows {β : Type} [Inhabited β] (kinds : List Kind) (rows : List (List β)) : Batch β :=
  (List.range kinds.length).map fun c => ⟨kinds.getD c .list, rows.map fun r => r.getD c default⟩

/-- a row-wise batch function: applies `g` to every row, output columns have the given kinds -/
def mapRows {α β : Type} [Inhabited α] [Inhabited β] (g : List α → List β) (kinds : List Kind)
    (b : Batch α) : Batch β :=
  ofRows kinds ((rowsOf b).map g)

/-- a row-wise *flat-map* batch function: every input row yields a list of output rows (possibly
none — a filter — or several — an expansion); the output batch may have a different number of
rows than the input batch, in particular 0 -/
def flatMapRows {α β : Type} [Inhabited α] [Inhabited β] (g : List α → List (List β))
    (kinds : List Kind) (b : Batch α) : Batch β :=
  ofRows kinds ((rowsOf b).flatMap g)

end MlModel.Rebatch
