import MlModel.Model.Remote
/-!
# Stateful objects behind lazy expressions and remote handles

`Model/Lazy.lean` (C17) and `Model/Remote.lean` (C14) evaluate expressions over *immutable* values, so a
stale cache entry can never be told from a fresh evaluation there.  This file makes **object state** part
of the model: a heap of mutable class instances, member access / item access / method calls on them, the
`LazyFn.result_` cache (`@_maybe_lru_cache(maxsize=128)`, lazy_fns.py:48-90, 469-483) with the
`cache_result` flag **explicit on every link**, the `LazyObject` table addressed by ids, and the
operations a client performs through `RemoteObject` (courier_utils.py:267-292), `RemoteIterator`
(347-379) and plain `maybe_make`.

* `PV`        plain (immutable, hashable, handle-free) Python values: ints, strs, `None`, tuples of ints.
* `PyVal`     what ordinary Python evaluation yields: a plain value, a reference to a mutable object, a
              bound method of one.
* `Obj`/`Heap` instances of the classes of `harness/lib_c14_state.py` (`Counter`, `Account`, `Store`,
              the generator `Counter.ticks`, tuple iterators): attributes are *re-bound* (`fset`), the
              `Store` dict is mutated in place.
* `pyLink`/`pyChain`  **ordinary Python evaluation** of `getattr(v, n)`, `v[k]`, `v(*args)` on the heap —
              the local reference: no laziness, no cache, no ids.
* `CExpr`     the lazy expressions `RemoteObject` / `LazyObject` build on a handle: a left-nested chain of
              links, each carrying its `cache_result` / `lazy_result` flag (`toExpr` maps them into the
              expression type of `Model/Lazy.lean`; `Remote.chain` is the flag-free instance).
* `evalC`     `_maybe_make` of such an expression: `LazyFn.result_` under the `_maybe_lru_cache` wrapper.
* `Op`, `remoteStep`, `localStep`  histories of client operations on remote objects, and the same
              history on local objects.
-/
namespace MlModel.RemoteState
open MlModel MlModel.Lazy

/-! ## Values and the heap -/

inductive PV where
  | int (n : Int)
  | str (s : String)
  | none
  | ints (xs : List Int)
  deriving DecidableEq, Repr, Inhabited

inductive PyVal where
  | plain (v : PV)
  /-- reference to a mutable object -/
  | obj (r : Nat)
  /-- bound method `obj.m` -/
  | bound (r : Nat) (m : String)
  deriving DecidableEq, Repr, Inhabited

inductive Cls where
  | counter | account | store
  /-- the generator object `Counter.ticks(n)` returns -/
  | ticker
  /-- `iter(tuple)` -/
  | tupIter
  deriving DecidableEq, Repr, Inhabited

structure Obj where
  cls : Cls
  /-- instance attributes (`vars(obj)`), in creation order -/
  fields : List (String × PyVal) := []
  /-- the dict of a `Store`, in insertion order -/
  items : List (PV × PV) := []
  deriving DecidableEq, Repr, Inhabited

structure Heap where
  objs : List (Nat × Obj) := []
  next : Nat := 0
  deriving DecidableEq, Repr, Inhabited

def Heap.get (h : Heap) (r : Nat) : Option Obj := h.objs.lookup r

def Heap.set (h : Heap) (r : Nat) (o : Obj) : Heap :=
  { h with objs := h.objs.map (fun p => if p.1 = r then (r, o) else p) }

def Heap.alloc (h : Heap) (o : Obj) : Nat × Heap :=
  (h.next, { objs := h.objs ++ [(h.next, o)], next := h.next + 1 })

/-- `self.<n> = v`: re-binds the attribute (replaces the binding, or adds it) -/
def fset (fs : List (String × PyVal)) (n : String) (v : PyVal) : List (String × PyVal) :=
  if fs.any (·.1 == n) then fs.map (fun p => if p.1 == n then (n, v) else p) else fs ++ [(n, v)]

/-- an int attribute (absent / not an int: 0 — the classes only ever bind ints to these) -/
def fint (fs : List (String × PyVal)) (n : String) : Int :=
  match fs.lookup n with
  | some (.plain (.int k)) => k
  | _ => 0

def fints (fs : List (String × PyVal)) (n : String) : List Int :=
  match fs.lookup n with
  | some (.plain (.ints xs)) => xs
  | _ => []

/-- `d[k] = v` of a dict: in place when present, appended when new -/
def iset (d : List (PV × PV)) (k v : PV) : List (PV × PV) :=
  if d.any (·.1 == k) then d.map (fun p => if p.1 == k then (k, v) else p) else d ++ [(k, v)]

def pyErr {α : Type} (k : ErrKind) : Except Err α := .error (.py k)

/-! ## The classes (harness/lib_c14_state.py) -/

def methods : Cls → List String
  | .counter => ["add", "bump", "reset", "ticks"]
  | .account => ["deposit", "rename", "set_limit", "new_limits", "get_limits"]
  | .store => ["put", "pop", "get"]
  | .ticker => []
  | .tupIter => []

def newCounter (start step : Int) : Obj :=
  { cls := .counter, fields := [("total", .plain (.int start)), ("step", .plain (.int step)), ("calls", .plain (.int 0))] }

def newStore : Obj := { cls := .store, fields := [("writes", .plain (.int 0))] }

/-- `@property` attributes -/
def prop (o : Obj) (n : String) : Option PV :=
  match o.cls, n with
  | .counter, "double" => some (.int (2 * fint o.fields "total"))
  | .account, "last" =>
    match (fints o.fields "history").getLast? with
    | some a => some (.int a)
    | none => some .none
  | .store, "size" => some (.int o.items.length)
  | _, _ => Option.none

/-- `getattr(v, n)` by ordinary Python rules: properties, instance attributes, methods (bound). -/
def getAttr (h : Heap) (v : PyVal) (n : String) : Except Err PyVal :=
  match v with
  | .obj r =>
    match h.get r with
    | Option.none => .error .outOfModel
    | some o =>
      match prop o n with
      | some p => .ok (.plain p)
      | Option.none =>
        match o.fields.lookup n with
        | some x => .ok x
        | Option.none => if (methods o.cls).contains n then .ok (.bound r n) else pyErr .attr
  | _ => pyErr .attr          -- (the names the harness uses are not attributes of int/str/tuple/None/method)

/-- Python indexing `xs[i]` with negative indices. -/
def pyIdx {α : Type} (xs : List α) (i : Int) : Option α :=
  if i ≥ 0 then xs[i.toNat]? else if -i ≤ xs.length then xs[(xs.length - (-i).toNat)]? else Option.none

/-- `v[k]` -/
def getItem (h : Heap) (v : PyVal) (k : PV) : Except Err PyVal :=
  match v with
  | .obj r =>
    match h.get r with
    | Option.none => .error .outOfModel
    | some o =>
      if o.cls = .store then
        match o.items.lookup k with
        | some x => .ok (.plain x)
        | Option.none => pyErr .key
      else pyErr .type                         -- not subscriptable
  | .plain (.ints xs) =>
    match k with
    | .int i => match pyIdx xs i with
      | some a => .ok (.plain (.int a))
      | Option.none => pyErr .index
    | _ => pyErr .type
  | .plain (.str s) =>
    match k with
    | .int i => match pyIdx s.toList i with
      | some c => .ok (.plain (.str (String.singleton c)))
      | Option.none => pyErr .index
    | _ => pyErr .type
  | _ => pyErr .type

/-- `Store.__setitem__` on the object at `r` -/
def storePut (h : Heap) (r : Nat) (o : Obj) (k v : PV) : Obj × Heap :=
  let o' : Obj := { o with items := iset o.items k v,
                           fields := fset o.fields "writes" (.plain (.int (fint o.fields "writes" + 1))) }
  (o', h.set r o')

/-- `obj.m(*args)` for the object `o` at `r`.  Any argument list a method does not accept is a `TypeError`
(raised before anything is changed). -/
def callMethod (h : Heap) (r : Nat) (o : Obj) (m : String) (args : List PV) : Except Err PyVal × Heap :=
  match o.cls, m, args with
  | .counter, "add", [.int n] =>
    let t := fint o.fields "total" + n
    let fs := fset (fset o.fields "total" (.plain (.int t))) "calls" (.plain (.int (fint o.fields "calls" + 1)))
    (.ok (.plain (.int t)), h.set r { o with fields := fs })
  | .counter, "bump", [] =>
    let t := fint o.fields "total" + fint o.fields "step"
    (.ok (.plain .none), h.set r { o with fields := fset o.fields "total" (.plain (.int t)) })
  | .counter, "reset", [] =>
    (.ok (.plain .none), h.set r { o with fields := fset o.fields "total" (.plain (.int 0)) })
  | .counter, "ticks", [.int n] =>
    let a := h.alloc { cls := .ticker, fields := [("target", .obj r), ("left", .plain (.int n))] }
    (.ok (.obj a.1), a.2)
  | .account, "deposit", [.int a] =>
    if a ≤ 0 then (pyErr .value, h) else
    let b := fint o.fields "balance" + a
    let fs := fset (fset o.fields "balance" (.plain (.int b))) "history"
      (.plain (.ints (fints o.fields "history" ++ [a])))
    (.ok (.plain (.int b)), h.set r { o with fields := fs })
  | .account, "rename", [v] =>
    (.ok (.plain .none), h.set r { o with fields := fset o.fields "owner" (.plain v) })
  | .account, "set_limit", [k, v] =>
    match o.fields.lookup "limits" with
    | some (.obj r') =>
      match h.get r' with
      | some o' => if o'.cls = .store then (.ok (.plain .none), (storePut h r' o' k v).2) else (.error .outOfModel, h)
      | Option.none => (.error .outOfModel, h)
    | _ => (.error .outOfModel, h)
  | .account, "new_limits", [] =>
    let a := h.alloc newStore
    (.ok (.plain .none), a.2.set r { o with fields := fset o.fields "limits" (.obj a.1) })
  | .account, "get_limits", [] =>
    match o.fields.lookup "limits" with
    | some x => (.ok x, h)
    | Option.none => (pyErr .attr, h)
  | .store, "put", [k, v] =>
    let p := storePut h r o k v
    (.ok (.plain (.int p.1.items.length)), p.2)
  | .store, "pop", [k] =>
    match o.items.lookup k with
    | some x => (.ok (.plain x), h.set r { o with items := o.items.filter (fun p => !(p.1 == k)) })
    | Option.none => (pyErr .key, h)
  | .store, "get", [k, d] =>
    match o.items.lookup k with
    | some x => (.ok (.plain x), h)
    | Option.none => (.ok (.plain d), h)
  | _, _, _ => (pyErr .type, h)

/-- `v(*args)` -/
def callVal (h : Heap) (v : PyVal) (args : List PV) : Except Err PyVal × Heap :=
  match v with
  | .bound r m =>
    match h.get r with
    | some o => callMethod h r o m args
    | Option.none => (.error .outOfModel, h)
  | _ => (pyErr .type, h)                       -- not callable

/-- the class constructors `Cls(*args)` -/
def construct (h : Heap) (c : Cls) (args : List PV) : Except Err PyVal × Heap :=
  match c, args with
  | .counter, [] => let a := h.alloc (newCounter 0 1); (.ok (.obj a.1), a.2)
  | .counter, [.int s] => let a := h.alloc (newCounter s 1); (.ok (.obj a.1), a.2)
  | .counter, [.int s, .int t] => let a := h.alloc (newCounter s t); (.ok (.obj a.1), a.2)
  | .store, [] => let a := h.alloc newStore; (.ok (.obj a.1), a.2)
  | .account, [owner] =>
    let a := h.alloc { newStore with items := [(.str "daily", .int 100)] }
    let b := a.2.alloc { cls := .account, fields := [("owner", .plain owner), ("balance", .plain (.int 0)),
      ("history", .plain (.ints [])), ("limits", .obj a.1)] }
    (.ok (.obj b.1), b.2)
  | _, _ => (pyErr .type, h)

/-- `iter(v)`: a generator is its own iterator, a tuple gets a fresh iterator object. -/
def iterOf (h : Heap) (v : PyVal) : Except Err PyVal × Heap :=
  match v with
  | .plain (.ints xs) =>
    let a := h.alloc { cls := .tupIter, fields := [("rest", .plain (.ints xs))] }
    (.ok (.obj a.1), a.2)
  | .plain (.str _) => (.error .outOfModel, h)
  | .obj r =>
    match h.get r with
    | some o =>
      match o.cls with
      | .ticker => (.ok (.obj r), h)
      | .tupIter => (.ok (.obj r), h)
      | .store => (.error .outOfModel, h)       -- (sequence protocol over `__getitem__`: not generated)
      | _ => (pyErr .type, h)                   -- not iterable
    | Option.none => (.error .outOfModel, h)
  | _ => (pyErr .type, h)

/-- `next(v)`: the generator `_ticks` reads and writes the LIVE counter on every step. -/
def nextOf (h : Heap) (v : PyVal) : Except Err PyVal × Heap :=
  match v with
  | .obj r =>
    match h.get r with
    | some o =>
      match o.cls with
      | .ticker =>
        if fint o.fields "left" ≤ 0 then (pyErr .stop, h) else
        match o.fields.lookup "target" with
        | some (.obj t) =>
          match h.get t with
          | some c =>
            let tot := fint c.fields "total" + fint c.fields "step"
            let h1 := h.set t { c with fields := fset c.fields "total" (.plain (.int tot)) }
            let h2 := h1.set r { o with fields := fset o.fields "left" (.plain (.int (fint o.fields "left" - 1))) }
            (.ok (.plain (.int tot)), h2)
          | Option.none => (.error .outOfModel, h)
        | _ => (.error .outOfModel, h)
      | .tupIter =>
        match fints o.fields "rest" with
        | a :: rest => (.ok (.plain (.int a)), h.set r { o with fields := fset o.fields "rest" (.plain (.ints rest)) })
        | [] => (pyErr .stop, h)
      | _ => (pyErr .type, h)                   -- not an iterator
    | Option.none => (.error .outOfModel, h)
  | _ => (pyErr .type, h)

/-! ## Ordinary Python evaluation of a chain (the local reference) -/

inductive SLink where
  | attr (n : String)
  | item (k : PV)
  | call (args : List PV)
  deriving DecidableEq, Repr, Inhabited

def pyLink (v : PyVal) (l : SLink) (h : Heap) : Except Err PyVal × Heap :=
  match l with
  | .attr n => (getAttr h v n, h)
  | .item k => (getItem h v k, h)
  | .call args => callVal h v args

def pyChain (v : PyVal) : List SLink → Heap → Except Err PyVal × Heap
  | [], h => (.ok v, h)
  | l :: ls, h =>
    match pyLink v l h with
    | (.ok v', h') => pyChain v' ls h'
    | (.error e, h') => (.error e, h')

/-! ## Lazy expressions over a handle -/

/-- `root id` = the `LazyObject` with that id; `link x l cache lazy` = `LazyFn.new(getattr, (x, n))` /
`LazyFn.new(operator.getitem, (x, k))` / `LazyFn.new(x, args, cache_result=cache, lazy_result=lazy)`. -/
inductive CExpr where
  | root (id : Nat)
  | link (x : CExpr) (l : SLink) (cache lazy : Bool)
  deriving DecidableEq, Repr, Inhabited

/-- `LazyFn.__hash__/__eq__` (lazy_fns.py:453-467): `(value, args, kwargs)`, flags ignored; a cached
`LazyObject` compares by id. -/
def CExpr.key : CExpr → CExpr
  | .root id => .root id
  | .link x l _ _ => .link x.key l false false

/-- no link anywhere in the expression is marked `cache_result` -/
def CExpr.cacheFree : CExpr → Bool
  | .root _ => true
  | .link x _ c _ => !c && x.cacheFree

/-- what `_maybe_make` returns: a Python value, or a `LazyObject` handle (a `lazy_result` link) -/
inductive RV where
  | val (v : PyVal)
  | hnd (id : Nat)
  deriving DecidableEq, Repr, Inhabited

structure SSt where
  heap : Heap := {}
  /-- `LazyObject.result_`'s cache: the objects held under an id (its bound, 1024, is not modelled) -/
  hnd : List (Nat × PyVal) := []
  /-- `_increment_id` -/
  nextId : Nat := 0
  /-- `LazyFn.result_`'s cache (`@_maybe_lru_cache(maxsize=128)`), keyed by `CExpr.key` -/
  fnc : Lru.Cache CExpr RV
  deriving Repr

def SSt.init (fnMax : Nat) : SSt := { fnc := Lru.empty fnMax }

/-- `_maybe_make` of what an inner expression produced: a handle in function / first-argument position
is dereferenced by the `LazyFn` that `LazyObject.__call__/__getattr__/__getitem__` builds on it. -/
def derefRV (v : RV) (s : SSt) : Except Err PyVal :=
  match v with
  | .val p => .ok p
  | .hnd id =>
    match s.hnd.lookup id with
    | some p => .ok p
    | Option.none => .error .missing

/-- `LazyObject.new(result)` (lazy_fns.py:309-313) -/
def newHandle (v : PyVal) (s : SSt) : RV × SSt :=
  (.hnd s.nextId, { s with hnd := s.hnd ++ [(s.nextId, v)], nextId := s.nextId + 1 })

/-- `LazyFn.result_` (469-483) for one link, given the already evaluated inner expression. -/
def linkBody (inner : Except Err RV × SSt) (l : SLink) (lazy : Bool) : Except Err RV × SSt :=
  match inner with
  | (.error e, s1) => (.error e, s1)
  | (.ok rv, s1) =>
    match derefRV rv s1 with
    | .error e => (.error e, s1)
    | .ok pv =>
      match pyLink pv l s1.heap with
      | (.error e, h') => (.error e, { s1 with heap := h' })
      | (.ok v, h') =>
        if lazy then
          let r := newHandle v { s1 with heap := h' }
          (.ok r.1, r.2)
        else (.ok (.val v), { s1 with heap := h' })

/-- `_maybe_make(expr)`: `LazyFn.result_` under `_maybe_lru_cache.wrapped_fn` (63-83). -/
def evalC : CExpr → SSt → Except Err RV × SSt
  | .root id, s =>
    match s.hnd.lookup id with
    | some p => (.ok (.val p), s)
    | Option.none => (.error .missing, s)            -- LazyObjectMissingError
  | .link x l cache lazy, s =>
    if cache then
      match s.fnc.getitem (CExpr.link x l cache lazy).key with
      | (some r, c) => (.ok r, { s with fnc := c })                    -- cache hit: the stored object
      | (Option.none, c) =>
        let r := linkBody (evalC x { s with fnc := c }) l lazy
        match r.1 with
        | .ok v => (.ok v, { r.2 with fnc := r.2.fnc.setitem (CExpr.link x l cache lazy).key v })
        | .error e => (.error e, r.2)
    else linkBody (evalC x s) l lazy

/-- `clear_cache()` (486-488) -/
def clearCache (s : SSt) : SSt := { s with fnc := s.fnc.clear }

/-! ## What `RemoteObject` / `LazyObject` build -/

/-- a link with its flags -/
structure FLink where
  l : SLink
  cache : Bool := false
  lazy : Bool := false
  deriving DecidableEq, Repr, Inhabited

def applyF (x : CExpr) (f : FLink) : CExpr := .link x f.l f.cache f.lazy

def chainF (x : CExpr) (fs : List FLink) : CExpr := fs.foldl applyF x

/-- `RemoteObject.__getattr__/__getitem__/__call__` (courier_utils.py:267-279): forwards to the
`LazyObject`, which builds `LazyFn.new(getattr, args=(self, name))` etc. with **no** flag. -/
def applyR (x : CExpr) (l : SLink) : CExpr := .link x l false false

def chainR (x : CExpr) (ls : List SLink) : CExpr := ls.foldl applyR x

/-- the seeded variant C14-m3: `RemoteObject.__getattr__` marks the attribute lookup `cache_result` -/
def applyRMutant (x : CExpr) (l : SLink) : CExpr :=
  match l with
  | .attr _ => .link x l true false
  | _ => .link x l false false

def chainRMutant (x : CExpr) (ls : List SLink) : CExpr := ls.foldl applyRMutant x

/-! ### The same expressions in the expression type of `Model/Lazy.lean` -/

def PV.toVal : PV → Val
  | .int n => .int n
  | .str s => .str s
  | .none => .none
  | .ints xs => .tup (xs.map .int)

def SLink.toLink : SLink → Remote.Link
  | .attr n => .attr n
  | .item k => .item k.toVal
  | .call args => .call (args.map PV.toVal) []

def CExpr.toExpr : CExpr → Expr
  | .root id => .const (.handle id)
  | .link x (.attr n) c z => .call (.const (.fn "getattr")) [x.toExpr, .const (.str n)] [] c z
  | .link x (.item k) c z => .call (.const (.fn "getitem")) [x.toExpr, .const k.toVal] [] c z
  | .link x (.call args) c z => .call x.toExpr (Remote.constArgs (args.map PV.toVal)) [] c z

/-! ## What the client sees -/

/-- one level of a pickled copy of an instance attribute -/
inductive FSnap where
  | pv (v : PV)
  | sub (c : Cls) (fields : List (String × PV)) (items : List (PV × PV))
  | opaque
  deriving DecidableEq, Repr, Inhabited

inductive Obs where
  | val (v : PV)
  /-- a pickled copy of a mutable object (class, attributes, dict items) -/
  | snap (c : Cls) (fields : List (String × FSnap)) (items : List (PV × PV))
  /-- a `RemoteObject` / `LazyObject` carrying only the id -/
  | remote (id : Nat)
  /-- a bound method (of a copy, when it crossed the wire) -/
  | method
  | err (e : Err)
  deriving DecidableEq, Repr, Inhabited

def plainFields (fs : List (String × PyVal)) : List (String × PV) :=
  fs.filterMap (fun p => match p.2 with | .plain v => some (p.1, v) | _ => Option.none)

def fsnap (h : Heap) (v : PyVal) : FSnap :=
  match v with
  | .plain p => .pv p
  | .obj r =>
    match h.get r with
    | some o => .sub o.cls (plainFields o.fields) o.items
    | Option.none => .opaque
  | .bound _ _ => .opaque

/-- the value as the caller holds it (remote: after pickling; local: the object itself, pictured the same way) -/
def obsVal (h : Heap) (v : PyVal) : Obs :=
  match v with
  | .plain p => .val p
  | .bound _ _ => .method
  | .obj r =>
    match h.get r with
    | some o => .snap o.cls (o.fields.map (fun p => (p.1, fsnap h p.2))) o.items
    | Option.none => .err .outOfModel

def obsOf (r : Except Err RV × SSt) : Obs :=
  match r.1 with
  | .error e => .err e
  | .ok (.hnd id) => .remote id
  | .ok (.val v) => obsVal r.2.heap v

/-! ## Histories -/

inductive Op where
  /-- `client.get_result(trace(Cls)(*args, lazy_result_=True))` — a new remote object -/
  | mk (c : Cls) (args : List PV)
  /-- `remote.<links>.result_()`; with `lazy` the last link (a call) carries `lazy_result_=True` and the
  client receives a new `RemoteObject` -/
  | get (h : Nat) (ls : List SLink) (lazy : Bool)
  /-- any flags on any link (plain lazy expressions; `cache_result_` chosen by the user) -/
  | getF (h : Nat) (fs : List FLink)
  /-- `iter(remote.<links>)` (`RemoteObject.__iter__`: `trace(iter)(value, lazy_result_=True)`) -/
  | iter (h : Nat) (ls : List SLink)
  /-- `next(remote_iterator)` (`RemoteIterator.__next__`: `trace(next)(value)`) -/
  | next (h : Nat)
  /-- `lazy_fns.clear_cache()` in the process that evaluates -/
  | clear
  deriving DecidableEq, Repr, Inhabited

/-- a builtin (`iter` / `next`) traced on an expression: `LazyFn.new(f, args=(x,), lazy_result=lazy)` -/
def evalBuiltin (f : Heap → PyVal → Except Err PyVal × Heap) (x : CExpr) (lazy : Bool) (s : SSt) :
    Except Err RV × SSt :=
  match evalC x s with
  | (.error e, s1) => (.error e, s1)
  | (.ok rv, s1) =>
    match derefRV rv s1 with
    | .error e => (.error e, s1)
    | .ok pv =>
      match f s1.heap pv with
      | (.error e, h') => (.error e, { s1 with heap := h' })
      | (.ok v, h') =>
        if lazy then
          let r := newHandle v { s1 with heap := h' }
          (.ok r.1, r.2)
        else (.ok (.val v), { s1 with heap := h' })

/-- One client operation evaluated by the server (fault-free transport, no shutdown: the protocol around
the evaluation is `Remote.getResult`, theorem `C14_eval`).  `build` is how `RemoteObject` turns member
access into an expression — `chainR` for the real code. -/
def remoteStepWith (build : CExpr → List SLink → CExpr) (op : Op) (s : SSt) : Obs × SSt :=
  match op with
  | .mk c args =>
    match construct s.heap c args with
    | (.error e, h') => (.err e, { s with heap := h' })
    | (.ok v, h') =>
      let r := newHandle v { s with heap := h' }
      (obsOf (.ok r.1, r.2), r.2)
  | .get h ls lazy =>
    let e := if lazy then
        match ls.getLast? with
        | some l => CExpr.link (build (.root h) ls.dropLast) l false true
        | Option.none => .root h
      else build (.root h) ls
    let r := evalC e s
    (obsOf r, r.2)
  | .getF h fs => let r := evalC (chainF (.root h) fs) s; (obsOf r, r.2)
  | .iter h ls => let r := evalBuiltin iterOf (build (.root h) ls) true s; (obsOf r, r.2)
  | .next h => let r := evalBuiltin nextOf (.root h) false s; (obsOf r, r.2)
  | .clear => (.val .none, clearCache s)

def remoteStep : Op → SSt → Obs × SSt := remoteStepWith chainR

def remoteRunWith (build : CExpr → List SLink → CExpr) : List Op → SSt → List Obs × SSt
  | [], s => ([], s)
  | op :: ops, s =>
    let r := remoteStepWith build op s
    let rest := remoteRunWith build ops r.2
    (r.1 :: rest.1, rest.2)

def remoteRun : List Op → SSt → List Obs × SSt := remoteRunWith chainR

/-- The local side: the heap and the caller's variables (the objects it holds, numbered as the remote
handles are), nothing else — no cache, no lazy expressions. -/
structure Loc where
  heap : Heap := {}
  vars : List (Nat × PyVal) := []
  nextVar : Nat := 0
  deriving DecidableEq, Repr, Inhabited

def SSt.loc (s : SSt) : Loc := { heap := s.heap, vars := s.hnd, nextVar := s.nextId }

def Loc.bind (L : Loc) (v : PyVal) : Obs × Loc :=
  (.remote L.nextVar, { L with vars := L.vars ++ [(L.nextVar, v)], nextVar := L.nextVar + 1 })

/-- evaluate `f` on the object held in variable `h`; keep the result in a new variable when `keep` -/
def Loc.apply (L : Loc) (h : Nat) (f : PyVal → Heap → Except Err PyVal × Heap) (keep : Bool) : Obs × Loc :=
  match L.vars.lookup h with
  | Option.none => (.err .missing, L)
  | some v =>
    match f v L.heap with
    | (.error e, h') => (.err e, { L with heap := h' })
    | (.ok v', h') =>
      if keep then Loc.bind { L with heap := h' } v' else (obsVal h' v', { L with heap := h' })

/-- The same operation on local objects by ordinary Python evaluation.  (`getF`: the flags are ignored —
the eager reading; `clear` does nothing.) -/
def localStep (op : Op) (L : Loc) : Obs × Loc :=
  match op with
  | .mk c args =>
    match construct L.heap c args with
    | (.error e, h') => (.err e, { L with heap := h' })
    | (.ok v, h') => Loc.bind { L with heap := h' } v
  | .get h ls lazy => L.apply h (fun v hp => pyChain v ls hp) (lazy && !ls.isEmpty)
  | .getF h fs => L.apply h (fun v hp => pyChain v (fs.map (·.l)) hp) false
  | .iter h ls =>
    L.apply h (fun v hp =>
      match pyChain v ls hp with
      | (.ok v', h') => iterOf h' v'
      | (.error e, h') => (.error e, h')) true
  | .next h => L.apply h (fun v hp => nextOf hp v) false
  | .clear => (.val .none, L)

def localRun : List Op → Loc → List Obs × Loc
  | [], L => ([], L)
  | op :: ops, L =>
    let r := localStep op L
    let rest := localRun ops r.2
    (r.1 :: rest.1, rest.2)

end MlModel.RemoteState
