import MlModel.Model.Basic
/-!
# Iterator model (DESIGN §3 "Iterators")

Python has two kinds of iterator that differ exactly where property C12 lives:

* **resumable** — class based iterators and the C implemented `map` / `zip` / `itertools.*`
  objects survive an exception raised by `next()`: the next call continues with the next element;
* **generator** — a generator object (a `def` with `yield`, or a generator expression) is
  *finalised* by an exception that passes through it and answers `StopIteration` ever after.

An iterator is a state machine `next : σ → Step α σ`.  Its observable behaviour is the sequence of
results of successive `next()` calls up to the first `StopIteration`: a finite list of *events*
`Ev α = Except Err α` (`drain`).  Every combinator of `iter_utils` / `tree_fns` that the pipeline
model (`Model/Pipe.lean`) uses is given here twice: as a state machine over a cursor, and as the
function on event lists that the pipeline model composes; the `drain_*` theorems in
`Lemmas/Iter.lean` say the two agree.  The kind tag is the function `Kind.cut`: a generator's event list
ends at its first error.

Generator return values (`StopIteration.value`) are not carried: they transport `AggregateResult`
(property C02) and play no role in C08/C12.
-/
namespace MlModel.Iter

/-- A Python exception as far as the pipeline is concerned: its class, and the class of
`__cause__` when it was raised `from` another exception. -/
structure Err where
  kind : ErrKind
  cause : Option ErrKind := none
  deriving DecidableEq, Repr, Inhabited

/-- `iter_utils._IGNORE_ERROR_TYPES = (ValueError, TypeError)` (iter_utils.py:43) -/
def Err.ignorable (e : Err) : Bool :=
  match e.kind with
  | .value | .type => true
  | _ => false

/-- result of one `next()` call that did not raise `StopIteration` -/
abbrev Ev (α : Type) := Except Err α

inductive Step (α σ : Type) where
  | yield (a : α) (s : σ)
  | stop
  | raise (e : Err) (s : σ)

inductive Kind where
  | resumable | generator
  deriving DecidableEq, Repr

/-- `next()` at most `fuel` times, until `StopIteration` -/
def drain {α σ : Type} (next : σ → Step α σ) : Nat → σ → List (Ev α)
  | 0, _ => []
  | fuel + 1, s =>
    match next s with
    | .yield a s' => .ok a :: drain next fuel s'
    | .stop => []
    | .raise e s' => .error e :: drain next fuel s'

/-! ## The two kinds -/

/-- the canonical *resumable* iterator: a cursor into its own event list -/
def cursorNext {α : Type} : List (Ev α) → Step α (List (Ev α))
  | [] => .stop
  | .ok a :: rest => .yield a rest
  | .error e :: rest => .raise e rest

/-- a generator object around a body `next`: `none` = finalised.  An exception passing through
finalises it (`gi_frame` is cleared); `StopIteration` is terminal in `drain` anyway. -/
def genNext {α σ : Type} (next : σ → Step α σ) : Option σ → Step α (Option σ)
  | none => .stop
  | some s =>
    match next s with
    | .yield a s' => .yield a (some s')
    | .stop => .stop
    | .raise e _ => .raise e none

/-- the event list of a generator: everything up to and including its first error -/
def cutAfterErr {α : Type} : List (Ev α) → List (Ev α)
  | [] => []
  | .ok a :: rest => .ok a :: cutAfterErr rest
  | .error e :: _ => [.error e]

def Kind.cut {α : Type} : Kind → List (Ev α) → List (Ev α)
  | .resumable, evs => evs
  | .generator, evs => cutAfterErr evs

/-! ## Combinators on event lists -/

/-- built-in `map(f, it)` (resumable): an exception of `f` or of `it` is one event, the next call
goes on with the next element. -/
def mapEv {α β : Type} (f : α → Ev β) : List (Ev α) → List (Ev β)
  | [] => []
  | .ok a :: rest => f a :: mapEv f rest
  | .error e :: rest => .error e :: mapEv f rest

/-- `map` as a state machine over a cursor -/
def mapNext {α β : Type} (f : α → Ev β) : List (Ev α) → Step β (List (Ev α))
  | [] => .stop
  | .ok a :: rest => (match f a with | .ok b => .yield b rest | .error e => .raise e rest)
  | .error e :: rest => .raise e rest

/-- `iter_ignore_error(it, error_return)` (iter_utils.py:64–87), a generator:
```
while True:
  try: yield next(it)
  except StopIteration: return
  except _IGNORE_ERROR_TYPES:
    if error_return is not None: yield error_return
    continue
```
any other exception passes through the generator and finalises it. -/
def ignoreErr {α : Type} (errorReturn : Option α) : List (Ev α) → List (Ev α)
  | [] => []
  | .ok a :: rest => .ok a :: ignoreErr errorReturn rest
  | .error e :: rest =>
    if e.ignorable then
      match errorReturn with
      | some r => .ok r :: ignoreErr errorReturn rest
      | none => ignoreErr errorReturn rest
    else [.error e]

/-- one `next()` of the `iter_ignore_error` generator over a cursor (the `while True` loop is the
structural recursion) -/
def ignoreNext {α : Type} (errorReturn : Option α) : List (Ev α) → Step α (List (Ev α))
  | [] => .stop
  | .ok a :: rest => .yield a rest
  | .error e :: rest =>
    if e.ignorable then
      match errorReturn with
      | some r => .yield r rest
      | none => ignoreNext errorReturn rest
    else .raise e []          -- finalised: the cursor is dropped

/-- a generator expression `(g(x) for x in it if p(x))` with a total body: it only adds
generator-ness (an error of `it` passes through and finalises it) -/
def genFilterMap {α β : Type} (f : α → Option β) : List (Ev α) → List (Ev β)
  | [] => []
  | .ok a :: rest =>
    (match f a with
     | some b => .ok b :: genFilterMap f rest
     | none => genFilterMap f rest)
  | .error e :: _ => [.error e]

/-- what a caller doing `list(it)` observes: the values before the first exception, and that
exception -/
def observe {α : Type} : List (Ev α) → List α × Option Err
  | [] => ([], none)
  | .ok a :: rest => let (xs, e) := observe rest; (a :: xs, e)
  | .error e :: _ => ([], some e)

/-- the values of the `ok` events -/
def oks {α : Type} : List (Ev α) → List α
  | [] => []
  | .ok a :: rest => a :: oks rest
  | .error _ :: rest => oks rest

/-- **Terminal** errors.  With skipping off every exception reaches the caller, who stops.  With
skipping on only `_IGNORE_ERROR_TYPES` are ever caught (by some `iter_ignore_error`); any other
exception passes through every layer unchanged and reaches the caller.  In both cases nothing after
the event is ever requested, so the model ends every event list at its first terminal error. -/
def terminal (ignore : Bool) (e : Err) : Bool := !(ignore && e.ignorable)

def cutTerminal {α : Type} (ignore : Bool) : List (Ev α) → List (Ev α)
  | [] => []
  | .ok a :: rest => .ok a :: cutTerminal ignore rest
  | .error e :: rest => if terminal ignore e then [.error e] else .error e :: cutTerminal ignore rest

/-! ## A caller that goes on after the first error

`list(it)` / `for x in it` ends at `StopIteration` or at the first exception that `next()` raises; the
iterator OBJECT is still there afterwards and `next()` can be called on it again.  What those later
calls do is where the two kinds differ (property C12: "the first error reaches the caller …, iteration
stops"). -/

/-- `for x in it: out.append(x)` by the caller: `next()` until `StopIteration` or an exception (at most
`fuel` calls); the values handed out, the exception that ended the loop (if any), and the state of the
iterator object afterwards -/
def consume {α σ : Type} (next : σ → Step α σ) : Nat → σ → List α × Option Err × σ
  | 0, s => ([], none, s)
  | fuel + 1, s =>
    match next s with
    | .yield a s' => let r := consume next fuel s'; (a :: r.1, r.2.1, r.2.2)
    | .stop => ([], none, s)
    | .raise e s' => ([], some e, s')

/-- `k` further `next()` calls on the same iterator object: what each call did (`none` =
`StopIteration`, `some (.ok a)` = it handed out `a`, `some (.error e)` = it raised), and the state
afterwards -/
def calls {α σ : Type} (next : σ → Step α σ) : Nat → σ → List (Option (Ev α)) × σ
  | 0, s => ([], s)
  | k + 1, s =>
    match next s with
    | .yield a s' => let r := calls next k s'; (some (.ok a) :: r.1, r.2)
    | .stop => let r := calls next k s; (none :: r.1, r.2)
    | .raise e s' => let r := calls next k s'; (some (.error e) :: r.1, r.2)

/-! ## The lock wrapper of the threaded runner (`_ThreadSafeIterator`, iter_utils.py:835–848)

```
def __next__(self):
  with self._lock:
    return next(self._iterator)
```
`piter_fn` puts it around the ONE input that the worker threads of a pipeline share (`num_threads ≥ 1`
over an un-sharded source).  The wrapper has no state of its own besides the lock: whatever `next` of
the wrapped iterator does — yield, `StopIteration`, raise — is passed on, and `with` releases the lock
on every exit.  A call is atomic with respect to the other workers (they block on the lock), so a
multi-threaded run is a *schedule*: the list of the worker ids in the order in which their calls
got the lock. -/

/-- the wrapper's state: the wrapped iterator's state, and whether `_lock` is held -/
structure TS (σ : Type) where
  inner : σ
  locked : Bool := false

/-- one `__next__` call that got the lock: `next` of the wrapped iterator, the lock released on the
way out (`with`), also when `next` raises -/
def tsNext {α σ : Type} (next : σ → Step α σ) (t : TS σ) : Step α (TS σ) :=
  match next t.inner with
  | .yield a s' => .yield a { inner := s', locked := false }
  | .stop => .stop
  | .raise e s' => .raise e { inner := s', locked := false }

/-- what the workers receive, in the order of their calls: `sched` lists the worker whose call got
the lock next.  A worker that received `StopIteration` does not call again (its `for` loop ended);
calls of the others still find the iterator exhausted. -/
def tsServe {α σ : Type} (next : σ → Step α σ) : List Nat → TS σ → List (Nat × Ev α)
  | [], _ => []
  | w :: sched, t =>
    match tsNext next t with
    | .yield a t' => (w, .ok a) :: tsServe next sched t'
    | .stop => tsServe next sched t
    | .raise e t' => (w, .error e) :: tsServe next sched t'

/-- is the lock free after the call (or the call answered `StopIteration`, which leaves the state) -/
def tsFreeAfter {α σ : Type} (next : σ → Step α σ) (t : TS σ) : Bool :=
  match tsNext next t with
  | .yield _ t' => !t'.locked
  | .stop => !t.locked
  | .raise _ t' => !t'.locked

end MlModel.Iter
