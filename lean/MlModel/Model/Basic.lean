/-!
# Shared vocabulary of all models (core Lean only — no Mathlib import in `Model/`)

`ErrKind` is the small enum to which Python exceptions are canonicalised by the
harness (`harness/core.py: err_kind`).  Models return `Except ErrKind _` wherever
the real code can raise.
-/
namespace MlModel

inductive ErrKind where
  | value      -- ValueError
  | type       -- TypeError
  | key        -- KeyError
  | index      -- IndexError
  | timeout    -- TimeoutError
  | stop       -- StopIteration
  | runtime    -- RuntimeError
  | assertion  -- AssertionError
  | attr       -- AttributeError
  | notImpl    -- NotImplementedError
  | zeroDiv    -- ZeroDivisionError
  | other      -- anything else
  deriving DecidableEq, Repr, Inhabited

def ErrKind.name : ErrKind → String
  | .value => "ValueError" | .type => "TypeError" | .key => "KeyError"
  | .index => "IndexError" | .timeout => "TimeoutError" | .stop => "StopIteration"
  | .runtime => "RuntimeError" | .assertion => "AssertionError"
  | .attr => "AttributeError" | .notImpl => "NotImplementedError"
  | .zeroDiv => "ZeroDivisionError" | .other => "Exception"

end MlModel
