import MlModel.Model.Pipe
/-!
# Operators without a function: the values are routed, not packed (`chainables/tree_fns.py`)

`select`, and `apply` / `assign` called without `fn`, only ROUTE data.  In the code they are ordinary `TreeFn`s
whose function is `_identity_fn(*x) = x` (tree_fns.py:41–42, installed by `__post_init__`, tree_fns.py:108–111), so
the selected values travel through the same packing conventions as the results of a user function:

* `_get_inputs` (tree_fns.py:193–199) returns the **tuple of the selected values**, one per input key — the
  *argument tuple* (`List Val` in the model: `getInputs`);
* `_identity_fn` returns that argument tuple as its result (`identityFn`: `.tuple args`) — a `Val.tuple` whose
  ELEMENTS are the selected values; a selected value that is itself a tuple (of any length) is one element of it;
* `_normalize_outputs` (tree_fns.py:160–191) reads a tuple result as "several outputs" and wraps anything else
  (`outputsOf`): for the result of `_identity_fn` this takes the argument tuple apart again and never looks inside
  an element; with `SELF` as the first output key and more than one output the outputs are wrapped once more;
* `_get_outputs` (tree_fns.py:215–228): ONE output key and several outputs — the key receives the whole tuple of
  outputs; otherwise `zip(output_keys, outputs, strict=True)`: output i is stored under key i.

For a *user function* the convention means: a function that returns a tuple returns several outputs (with one
output key the tuple is stored, with n keys it is unzipped; a returned 1-tuple is one output).  For an operator
WITHOUT a function nothing of this may be visible: `Ref.routeValues` below is the specification — the value read
under input key i is stored, as it is, under output key i — and `C08_fnless_identity` proves the stack of the four
functions above equal to it for every key list and every value.
-/
namespace MlModel.Pipe
open MlModel.Iter

/-- an operator without a function: `__post_init__` installed `_identity_fn` (and refused keyword input keys:
'Select Op cannot have kwargs') -/
def Op.Fnless (op : Op) : Prop := op.fn = identityFn ∧ op.argNames = []

/-- `SELF` is the first of SEVERAL output keys (`SelfAlone` of `Lemmas/Pipe.lean` says it is not) -/
def selfMixedB (op : Op) : Bool :=
  match op.outKeys with
  | k :: _ :: _ => k.isSelf
  | _ => false

/-- one dict-form output key for several outputs: `copy_and_set((the dict,), outputs)` uses the dict as a path
element — an error whatever the data (its kind depends on what the record is: `_default_tree` 'Unsupported key',
`KeyError` from `_set_by_path`'s `try`, 'Insert to immutable') -/
def dictForMany (base : Val) : Except ErrKind Val :=
  match base with
  | .null => .error .value
  | .dict _ | .list _ | .tuple _ => .error .key
  | _ => .error .type

namespace Impl

/-- what `TreeFn._iterate` + `_get_outputs` do with the selected inputs of ONE record of an un-batched operator:
`_maybe_call_fn`, `_normalize_outputs`, `_get_outputs(outputs, base)` (`base`: the record for `Assign`, `NullMap()`
otherwise) -/
def callAndRoute (op : Op) (s : Nat) (base : Val) (ins : List Val) : Ev Val × Nat :=
  match callFn op s ins with
  | (.error e, s') => (.error e, s')
  | (.ok v, s') => (liftErr (normalizeOutputs op v >>= getOutputs op base), s')

end Impl

namespace Ref

/-- **Routing without a function — the specification.**  `vals[i]` is the value read under input key i.  As many
output keys as values: value i is stored, as it is, under output key i (`routeAll`: `SKIP` discards it, `SELF` makes
it the record, a dict-form key `{n: p}` stores `value[p]` under `n`).  ONE output key for several values: the key
receives the tuple of the values.  Nothing is called and no value is looked into: a value that is itself a tuple
(of length 0, 1, the number of keys, …) is a value like any other. -/
def routeValues (base : Val) (ks : List OutKey) (vals : List Val) : Except ErrKind Val :=
  match ks, vals with
  | [.key k], _ :: _ :: _ => route base (.key k) (.tuple vals)
  | [.dict _], _ :: _ :: _ => dictForMany base           -- not a meaningful combination: an error
  | ks, vs => routeAll base ks vs

/-- one record through an operator without a function: read the values, route them (onto the record for `assign`,
into a new record otherwise) -/
def fnlessRecord (op : Op) (r : Val) : Ev Val :=
  match getInputs op r with
  | .error k => .error { kind := k }
  | .ok vals => liftErr (routeValues (if op.kind = .assign then r else .null) op.outKeys vals)

/-- `fnlessRecord` lifted to streams exactly as `opEvents` lifts `semCall` / `semWrite`: an error of the incoming
stream is passed on; with skipping on a record whose values cannot be READ with a skippable error is left out, an
error of the routing is passed on; nothing follows a terminal error.  No function, hence no state. -/
def fnlessEvents (ignore : Bool) (op : Op) : List (Ev Val) → List (Ev Val)
  | [] => []
  | .error e :: rest =>
    if terminal ignore e then [.error e] else .error e :: fnlessEvents ignore op rest
  | .ok r :: rest =>
    match getInputs op r with
    | .error k =>
      if terminal ignore { kind := k } then [.error { kind := k }] else fnlessEvents ignore op rest
    | .ok vals =>
      match liftErr (routeValues (if op.kind = .assign then r else .null) op.outKeys vals) with
      | .error e => if terminal ignore e then [.error e] else .error e :: fnlessEvents ignore op rest
      | .ok x => .ok x :: fnlessEvents ignore op rest

/-- a chain of operators without functions -/
def fnlessChain (ignore : Bool) : List Op → List (Ev Val) → List (Ev Val)
  | [], evs => cutTerminal ignore evs
  | op :: ops, evs => fnlessChain ignore ops (fnlessEvents ignore op evs)

/-- a chain of operators without functions over ANY source: every operator first leaves out the skippable errors
passed on to it (`skipNT`: failing reads of the data source, skippable routing errors of the previous operator), as
`Ref.chainEventsS` does -/
def fnlessChainS (ignore : Bool) : List Op → List (Ev Val) → List (Ev Val)
  | [], evs => cutTerminal ignore evs
  | op :: ops, evs => fnlessChainS ignore ops (fnlessEvents ignore op (skipNT ignore evs))

end Ref

/-- NOT the code: the "simplification" `_identity_fn(*x) = x[0] if len(x) == 1 else x` (seeded regression
C08-m3).  `Witness/C08.lean` shows that `C08_fnless_identity` fails for it exactly on a selected value that is a
tuple of length 1 (unwrapped) or 0 (error). -/
def identityFnUnwrap : UFn := fun s args _ =>
  (.ok (match args with | [x] => x | _ => .tuple args), s)

end MlModel.Pipe
