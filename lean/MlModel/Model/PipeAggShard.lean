import MlModel.Model.PipeAgg
/-!
# Sharded runs of a SLICED aggregation: `TransformRunner.merge_states` over state maps
(ml_metrics/_src/chainables/transform.py:343-374)

A runner's aggregation state is a `dict[MetricKey, state]` (`State S`, Model/PipeAgg.lean).  A sliced
aggregation creates the entry of a slice value lazily, when a batch first shows it
(transform.py:328-330), so the states of the shard runs of one pipeline carry DIFFERENT key sets.

```
states_by_fn = {}
for state in states:
  for key, fn_state in state.items():
    if agg_fn := self.agg_fns.get(key.metrics):
      if key in states_by_fn:
        fn_state = agg_fn.merge_states([states_by_fn[key], fn_state])
      states_by_fn[key] = fn_state
  states_cnt += 1
if strict_states_cnt and states_cnt != strict_states_cnt: raise ValueError(...)
return states_by_fn
```
i.e. the UNION of the key sets, merged where a key is present more than once, in shard order.
-/
namespace MlModel.PipeAgg
open MlModel MlModel.Agg

variable {X S Rv : Type}

/-- the body of the inner loop (transform.py:363-366) for one `(key, fn_state)` of one shard state -/
def mergeEntry (P : Pipeline X S Rv) (acc : State S) (e : MetricKey × S) : State S :=
  match P.aggs.find? (fun a => a.out = e.1.metrics) with
  | none => acc                                                    -- `self.agg_fns.get(key.metrics)` is None
  | some a =>
    match AList.get? acc e.1 with
    | some s => AList.set acc e.1 (a.m.mergeStates [s, e.2])        -- `agg_fn.merge_states([states_by_fn[key], fn_state])`
    | none => AList.set acc e.1 e.2

/-- the inner loop: one shard state folded into `states_by_fn` -/
def mergeInto (P : Pipeline X S Rv) (acc st : State S) : State S := st.foldl (mergeEntry P) acc

/-- `TransformRunner.merge_states(states)` -/
def mergeStates (P : Pipeline X S Rv) (states : List (State S)) : State S :=
  states.foldl (mergeInto P) []

/-- … with `strict_states_cnt` (`0` = not checked) -/
def mergeStatesStrict (P : Pipeline X S Rv) (states : List (State S)) (strict : Nat) : Except ErrKind (State S) :=
  if strict ≠ 0 ∧ states.length ≠ strict then .error .value else .ok (mergeStates P states)

/-- every shard run on its own (`make().iterate(shard_i)` exhausted, `.agg_state`), the states merged,
`get_result` of the merged state: what a sharded execution reports -/
def shardedResult (P : Pipeline X S Rv) (parts : List (List Batch)) (strict : Nat := 0) :
    Except ErrKind (Result Rv) :=
  match P.validate with
  | .error e => .error e
  | .ok () =>
    match mapE (run P) parts with
    | .error e => .error e
    | .ok sts =>
      match mergeStatesStrict P sts strict with
      | .error e => .error e
      | .ok st => getResult P st

end MlModel.PipeAgg
