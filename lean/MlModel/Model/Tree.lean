import MlModel.Model.Basic
/-!
# Model of `ml_metrics/_src/chainables/tree.py` (TreeMapView & friends) over an explicit cell heap

Property C18 is *about* aliasing ("the original data at every depth is unchanged"), so the
model is not a functional tree: Python objects live in a **heap** (`Array Node`), references
are indices, and every Python statement is classified as

* `alloc`  — builds a new object (`copy.copy(x)`, `list(t)`, `tuple(l)`, `{k: v}`, `[x]`, `NullMap()`), or
* `write`  — mutates an existing object in place (`result[key] = …`, `result.append(…)`).

Nothing else touches the heap.  A theorem "cell `r` is unchanged" is therefore a real frame
condition and not true by construction.

The model mirrors the code **after** the two `fix:` commits of work package C18
(SKIP is honoured before the empty-tree branch of `_set_by_path`; `_default_tree` honours SELF).

**ndarrays** (work package C18N) are heap objects of their own: an `nd` cell is one ndarray *object*
(a C-contiguous window `off, shape` of a buffer), a `buf` cell is the data buffer, which several array
objects may share (`arr[i]` on `ndim > 1` is a *view*: a new `nd` cell on the **same** buffer;
`copy.copy(arr)` is a new `nd` cell on a **new** buffer).  Element / row assignment is a `write` on the
buffer cell.  `_set_by_path` into an ndarray (`setNd`), `__get` into an ndarray (`getV`), `copy.copy` of an
ndarray root in `apply`, truthiness of an ndarray root are modelled line by line.

Not modelled (stated in the manifest): `key_paths=` views, unhashable / slice keys, tuple keys STORED in a dict
(tuple-of-ints keys on arrays, lists, reads: last section), 0-d arrays, non-integer dtypes, non-contiguous arrays (no operation of tree.py creates one from a contiguous one).
-/
namespace MlModel.Tree

/-- References are heap indices. (A notation rather than a definition, so that `omega` sees `Nat`.) -/
scoped notation "Ref" => Nat

/-- Leaf values (`int` also stands for a numpy integer scalar read from an array), `none` is Python `None`. -/
inductive Val where
  | int (i : Int)
  | str (s : String)
  | none
  deriving DecidableEq, Repr, Inhabited

/-- Key OBJECTS as a `dict` holds them.  `Index(i) == i` and `hash(Index(i)) == hash(i)`: the two address the
same entry (`DKey.norm`, used by every lookup), but the dict keeps the key object it was first given, and
`items()` / `keys()` list that object — so `idx i` (an `Index` instance stored as a key) and `int i` are distinct
stored keys that can never both occur in one dict (wp-C18F; before, the model stored keys up to `==` and the
correspondence had to canonicalise listed paths).  `Reserved('SKIP') == 'SKIP'` is a `str`; a `Literal` object is
hashed by identity (`id`). -/
inductive DKey where
  | str (s : String)
  | int (i : Int)
  | lit (id : Nat) (v : Nat)
  | idx (i : Int)
  /-- any OTHER hashable key object — a `Key` instance (a path used as a mapping key: `dict(view.items())`, a flattened
  tree), a tuple, a frozenset, … — as an opaque atom (object class `id` up to `==`): ONE key whatever is inside it
  (wp-SC18c; `_dfs_iter_tree` must append it as one path element, tree.py:299). -/
  | obj (id : Nat)
  deriving DecidableEq, Repr, Inhabited

/-- The `==` / `hash` class of a key object: what a dict lookup compares. -/
def DKey.norm : DKey → DKey
  | .idx i => .int i
  | k => k

/-- One element of a key path (`Key`): a string, `Key.Index(i)`, a plain int, `Key.SELF`,
`Key.SKIP`, or `Key.Literal(v)` (object number `id`, value object at reference `v`). -/
inductive PKey where
  | str (s : String)
  | idx (i : Int)
  | int (i : Int)
  | self
  | skip
  | lit (id : Nat) (v : Ref)
  /-- a path element that is some other hashable object (a `Key` instance, a tuple, …): ONE element, opaque (wp-SC18c) -/
  | obj (id : Nat)
  deriving DecidableEq, Repr, Inhabited

abbrev Path := List PKey

/-- The dictionary key a path element denotes when used in `d[k]` — its `==` class (always a normal form). -/
def PKey.toDKey : PKey → DKey
  | .str s => .str s
  | .idx i => .int i
  | .int i => .int i
  | .self => .str "SELF"
  | .skip => .str "SKIP"
  | .lit id v => .lit id v
  | .obj id => .obj id

/-- The key OBJECT `d[k] = v` stores when `k` is not yet a key of `d` (an existing entry keeps its old key
object): the path element itself, `Index` instances included. -/
def PKey.stored : PKey → DKey
  | .idx i => .idx i
  | k => k.toDKey

/-- The integer a path element denotes when used in `l[k]` (`none` → `TypeError`). -/
def PKey.asInt : PKey → Option Int
  | .idx i => some i
  | .int i => some i
  | _ => none

/-- Heap cells. `null` is a `NullMap` instance.  `nd b off shape` is an ndarray *object*: the C-contiguous
window of `shape.prod` elements starting at `off` of the buffer stored in cell `b`; `buf xs` is such a buffer
(int64 elements).  Two `nd` cells with the same `b` share memory (`np.shares_memory`). -/
inductive Node where
  | dict (es : List (DKey × Ref))
  | list (rs : List Ref)
  | tuple (rs : List Ref)
  | leaf (v : Val)
  | null
  | nd (b : Ref) (off : Nat) (shape : List Nat)
  | buf (xs : List Int)
  deriving DecidableEq, Repr, Inhabited

abbrev Heap := Array Node

/-- Builds a new object. The only way the heap grows. -/
def alloc (h : Heap) (n : Node) : Heap × Ref := (h.push n, h.size)

/-- Mutates an existing object in place. The only way an existing cell changes. -/
def write (h : Heap) (r : Ref) (n : Node) : Heap := h.setIfInBounds r n

abbrev Res (α : Type) := Heap × Except ErrKind α

/-- Python sequence index resolution (`l[i]`, negative indices count from the end). -/
def resolveIdx (n : Nat) (i : Int) : Option Nat :=
  if 0 ≤ i then (if i.toNat < n then some i.toNat else none)
  else (if (-i).toNat ≤ n then some (n - (-i).toNat) else none)

/-- `d[k] = v` on the entry list of a dict: replace the VALUE of the entry whose key equals `k` (Python keeps
the key object already there), or append `(k, v)` at the end. -/
def dictSet : List (DKey × Ref) → DKey → Ref → List (DKey × Ref)
  | [], k, v => [(k, v)]
  | (k', v') :: es, k, v => if k'.norm = k.norm then (k', v) :: es else (k', v') :: dictSet es k v

/-- `d.get(k)` -/
def dictGet : List (DKey × Ref) → DKey → Option Ref
  | [], _ => none
  | (k', v') :: es, k => if k'.norm = k.norm then some v' else dictGet es k

/-- `seq[k]` for a list/tuple: integer keys only, negative indices from the end. -/
def seqGet (rs : List Ref) (k : PKey) : Except ErrKind Ref :=
  match k.asInt with
  | none => .error .type                        -- list indices must be integers
  | some i =>
    match (resolveIdx rs.length i).bind (rs[·]?) with
    | some c => .ok c
    | none => .error .index                     -- IndexError

/-! ## ndarray primitives -/

/-- number of elements of a shape -/
def prod : List Nat → Nat
  | [] => 1
  | n :: s => n * prod s

/-- elements `[off, off+len)` of a buffer -/
def slice (xs : List Int) (off len : Nat) : List Int := (xs.drop off).take len

/-- the buffer with the elements `[off, off + ys.length)` overwritten by `ys` -/
def splice (xs : List Int) (off : Nat) (ys : List Int) : List Int :=
  xs.take off ++ ys ++ xs.drop (off + ys.length)

/-- the content of a buffer cell (`[]` if `b` is not a buffer: impossible in Python) -/
def bufOf (h : Heap) (b : Ref) : List Int :=
  match h[b]? with
  | some (.buf xs) => xs
  | _ => []

/-- the (flattened, row-major) elements of the array object `nd b off shape` -/
def ndElems (h : Heap) (b off : Nat) (shape : List Nat) : List Int := slice (bufOf h b) off (prod shape)

/-- `copy.copy(arr)` / `arr.copy()`: a NEW buffer holding the elements, and a new array object on it. -/
def ndCopy (h : Heap) (b off : Nat) (shape : List Nat) : Heap × Ref :=
  let (h1, nb) := alloc h (.buf (ndElems h b off shape))
  alloc h1 (.nd nb 0 shape)

/-- The object `arr[j]` creates, `arr` having the window `o, inner` for its `j`-th item: a numpy scalar
(a fresh immutable leaf) when the item is an element, a **view** — a new array object on the *same*
buffer — when it is a sub-array. -/
def ndItem (h : Heap) (b o : Nat) (inner : List Nat) : Heap × Ref :=
  match inner with
  | [] => alloc h (.leaf (.int ((bufOf h b).getD o 0)))
  | _ => alloc h (.nd b o inner)

/-- `arr[...] = ys` on the window starting at `o`: a `write` on the buffer cell. -/
def ndWrite (h : Heap) (b o : Nat) (ys : List Int) : Heap :=
  match h[b]? with
  | some (.buf xs) => write h b (.buf (splice xs o ys))
  | _ => h

/-- numpy broadcasting of elements `xs` of shape `s` to the shape `t` (`s`, `t` of equal length). -/
def bcastSame : List Nat → List Nat → List Int → Option (List Int)
  | [], [], xs => some xs
  | sd :: s, td :: t, xs =>
    if sd = td then
      ((List.range td).mapM fun i => bcastSame s t (slice xs (i * prod s) (prod s))).map List.flatten
    else if sd = 1 then (bcastSame s t xs).map fun ys => (List.replicate td ys).flatten
    else none
  | _, _, _ => none

/-- strip up to `n` leading dimensions of size 1 -/
def stripOnes : Nat → List Nat → List Nat
  | n + 1, 1 :: s => stripOnes n s
  | _, s => s

/-- `dst[...] = src` with `src` of shape `s` and the destination window of shape `t`: surplus leading
dimensions of `s` must be 1, then `s` is right-aligned with `t`. -/
def bcast (s t : List Nat) (xs : List Int) : Option (List Int) :=
  let s' := stripOnes (s.length - t.length) s
  if s'.length > t.length then none
  else bcastSame (List.replicate (t.length - s'.length) 1 ++ s') t xs

/-- `np.asarray(value)` for a value that converts to an integer array: `(shape, elements)`.  An int (or
numpy integer scalar) is 0-d, an ndarray is itself, a list/tuple of equally shaped convertible items gets
one more leading dimension.  `none`: str / None / dict / NullMap items or a ragged nesting (numpy raises
`ValueError` / `TypeError`).  `fuel` bounds the nesting depth. -/
def valArr (h : Heap) : Nat → Ref → Option (List Nat × List Int)
  | 0, _ => none
  | fuel + 1, r =>
    match h[r]? with
    | some (.leaf (.int x)) => some ([], [x])
    | some (.nd b off shape) => some (shape, ndElems h b off shape)
    | some (.list rs) | some (.tuple rs) =>
      match rs.mapM (valArr h fuel) with
      | none => none
      | some [] => some ([0], [])
      | some ((s0, xs0) :: rest) =>
        if rest.all (fun sx => sx.1 == s0) then
          some (rs.length :: s0, xs0 ++ (rest.map (·.2)).flatten)
        else none
    | _ => none

/-- The elements `arr[j] = value` stores into a window of shape `t` (`none`: numpy raises `ValueError` or
`TypeError`).  An int fills the window; an ndarray is broadcast; a list/tuple is converted with at most
`ndim(window)` dimensions ("setting an array element with a sequence" otherwise) and broadcast; an element
window (`t = []`) only takes an int. -/
def coerce (h : Heap) (c : Ref) (t : List Nat) : Option (List Int) :=
  match h[c]? with
  | some (.leaf (.int x)) => some (List.replicate (prod t) x)
  | some (.nd b off s) => if t = [] then none else bcast s t (ndElems h b off s)
  | some (.list _) | some (.tuple _) =>
    match valArr h (h.size + 1) c with
    | some (s, xs) => if s.length > t.length then none else bcast s t xs
    | none => none
  | _ => none

/-- `node[k]` for the object stored in one cell (tree.py:380-387): dict lookup, sequence indexing, or the
`KeyError('Cannot use ... as a mapping key')` raised for anything that is neither.  This is the
*reference-valued* read: indexing an ndarray creates a new object and is outside this function (`.other`);
the complete `__get` is `getV` below, which agrees with `get` whenever `get` succeeds (`getV_of_get`). -/
def Node.slotGet : Node → PKey → Except ErrKind Ref
  | .dict es, k =>
    match dictGet es k.toDKey with
    | some c => .ok c
    | none => .error .key                       -- KeyError
  | .list rs, k | .tuple rs, k => seqGet rs k
  | .leaf _, _ | .null, _ => .error .key
  | .nd _ _ _, _ | .buf _, _ => .error .other  -- `arr[k]` is not a stored reference but a NEW object: see `getV`

/-- `data[k]` as executed by `TreeMapView.__get`. -/
def index (h : Heap) (r : Ref) (k : PKey) : Except ErrKind Ref :=
  match h[r]? with
  | none => .error .other                       -- dangling reference: impossible in Python
  | some n => n.slotGet k

/-- `TreeMapView.__get` (tree.py:371-388): the loop over the path with the early returns for `SELF`
and `Literal`. Returns the *reference* of the object read and whether `_maybe_map` is applied to it
(it is not on the `Literal` return, line 379). -/
def getCore (h : Heap) : Ref → Path → Except ErrKind (Ref × Bool)
  | r, [] => .ok (r, true)
  | r, .self :: _ => .ok (r, true)
  | _, .lit _ v :: _ => .ok (v, false)
  | r, k :: ks =>
    match index h r k with
    | .ok c => getCore h c ks
    | .error e => .error e

/-- `__get` of a view without `map_fn`. -/
def get (h : Heap) (r : Ref) (p : Path) : Except ErrKind Ref := (getCore h r p).map (·.1)

/-- What `keys` looks like to `__getitem__` / `set` (tree.py:399-411, 506-530): a `Key` path
(a bare key is the one-element path), the empty tuple, or a non-empty tuple/list of keys. -/
inductive Keys where
  | path (p : Path)
  | empty
  | multi (ks : List Path)
  deriving Repr, Inhabited

inductive GetRes where
  | one (r : Ref)
  | many (rs : List Ref)
  deriving Repr, DecidableEq, Inhabited

/-- `TreeMapView.__getitem__` (tree.py:399-411). -/
def getItem (h : Heap) (root : Ref) : Keys → Except ErrKind GetRes
  | .path p => (get h root p).map .one
  | .empty => .ok (.many [])
  | .multi ks => (ks.mapM (get h root)).map .many

/-- `TreeMapView.get(key, default)` (tree.py:413-417): KeyError/IndexError → default. -/
def getD (h : Heap) (root : Ref) (ks : Keys) (dflt : GetRes) : Except ErrKind GetRes :=
  match getItem h root ks with
  | .ok r => .ok r
  | .error .key => .ok dflt
  | .error .index => .ok dflt
  | .error e => .error e

/-! ## the complete `__get`: paths that index into an ndarray -/

/-- What `__get` returns: an object of the heap, or a **new** object that `arr[k]` created — a view of the
buffer `b` (window `off, shape`), or a numpy scalar.  New objects are immutable headers, so they need no
cell: their identity is "fresh", their aliasing is the buffer they name. -/
inductive Loc where
  | obj (r : Ref)
  | view (b off : Nat) (shape : List Nat)
  | scalar (x : Int)
  deriving DecidableEq, Repr, Inhabited

/-- the rest of the `__get` loop once `data` is a numpy scalar -/
def scalarWalk (x : Int) : Path → Except ErrKind (Loc × Bool)
  | [] => .ok (.scalar x, true)
  | .self :: _ => .ok (.scalar x, true)
  | .lit _ v :: _ => .ok (.obj v, false)
  | _ :: _ => .error .key                          -- 'Cannot use ... as a mapping key'

/-- the rest of the `__get` loop once `data` is a (new) view `b, off, shape`: `data = data[k]` is pure
arithmetic on the window, it never leaves the buffer. -/
def ndWalk (h : Heap) (b : Ref) : Nat → List Nat → Path → Except ErrKind (Loc × Bool)
  | off, shape, [] => .ok (.view b off shape, true)
  | off, shape, .self :: _ => .ok (.view b off shape, true)
  | _, _, .lit _ v :: _ => .ok (.obj v, false)
  | _, [], _ :: _ => .error .key                   -- 0-d: not `is_array_like`
  | off, n :: inner, k :: ks =>
    match k.asInt with
    | none => .error .index                        -- IndexError: only integers, slices, ...
    | some i =>
      match resolveIdx n i with
      | none => .error .index                      -- IndexError: out of bounds
      | some j =>
        match inner with
        | [] => scalarWalk ((bufOf h b).getD (off + j * prod inner) 0) ks
        | _ => ndWalk h b (off + j * prod inner) inner ks

/-- `TreeMapView.__get` (tree.py:384-401), complete: as `getCore` until `data` is an ndarray with keys
still to go, then `ndWalk`. -/
def getV (h : Heap) : Ref → Path → Except ErrKind (Loc × Bool)
  | r, [] => .ok (.obj r, true)
  | r, .self :: _ => .ok (.obj r, true)
  | _, .lit _ v :: _ => .ok (.obj v, false)
  | r, k :: ks =>
    match h[r]? with
    | none => .error .other
    | some (.nd b off shape) => ndWalk h b off shape (k :: ks)
    | some n =>
      match n.slotGet k with
      | .ok c => getV h c ks
      | .error e => .error e

inductive GetResV where
  | one (l : Loc)
  | many (ls : List Loc)
  deriving Repr, DecidableEq, Inhabited

/-- `TreeMapView.__getitem__` (tree.py:412-424), complete. -/
def getItemV (h : Heap) (root : Ref) : Keys → Except ErrKind GetResV
  | .path p => (getV h root p).map fun x => .one x.1
  | .empty => .ok (.many [])
  | .multi ks => (ks.mapM fun p => (getV h root p).map (·.1)).map .many

/-- `TreeMapView.get(key, default)` (tree.py:426-430), complete. -/
def getDV (h : Heap) (root : Ref) (ks : Keys) (dflt : GetResV) : Except ErrKind GetResV :=
  match getItemV h root ks with
  | .ok r => .ok r
  | .error .key => .ok dflt
  | .error .index => .ok dflt
  | .error e => .error e

/-- `normalize_keys` (tree.py:257-265). -/
def normalizeKeys : Keys → List Path
  | .path p => [p]
  | .empty => []
  | .multi ks => ks

/-- `_default_tree(key_path, value)` (tree.py:268-283, with the SELF/SKIP repair). -/
def defaultTree (h : Heap) : Path → Ref → Res Ref
  | [], v => (h, .ok v)
  | .self :: _, v => (h, .ok v)
  | .skip :: _, _ => let (h1, r) := alloc h .null; (h1, .ok r)   -- repaired: `return NullMap()`
  | .idx i :: rest, v =>
    if i = 0 then
      match defaultTree h rest v with
      | (h1, .ok c) => let (h2, r) := alloc h1 (.list [c]); (h2, .ok r)
      | (h1, .error e) => (h1, .error e)
    else (h, .error .value)                       -- 'Cannot insert non-zero index to empty sequence'
  | k :: rest, v =>
    match defaultTree h rest v with
    | (h1, .ok c) => let (h2, r) := alloc h1 (.dict [(k.toDKey, c)]); (h2, .ok r)
    | (h1, .error e) => (h1, .error e)

/-- The container kinds `_set_by_path` can assign into after the copy step. -/
inductive CKind where
  | seq | map
  deriving DecidableEq, Repr

/-- `result[key] = child` on the *current* content of the cell `res` (a `write`).
Sequence indices are resolved against the current length, as Python does. -/
def assign (h : Heap) (res : Ref) (k : PKey) (child : Ref) : Res Unit :=
  match h[res]? with
  | some (.list cur) =>
    match k.asInt with
    | none => (h, .error .type)
    | some i =>
      match resolveIdx cur.length i with
      | none => (h, .error .index)
      | some j => (write h res (.list (cur.set j child)), .ok ())
  | some (.dict cur) => (write h res (.dict (dictSet cur k.stored child)), .ok ())
  | _ => (h, .error .other)

/-- `except (ValueError, KeyError, IndexError, TypeError) as e: raise KeyError(...)` (tree.py:503-507): these
four become `KeyError`; anything else (the `AssertionError` of line 490, a `RecursionError`) passes through. -/
def wrapKey : ErrKind → ErrKind
  | .assertion => .assertion
  | .runtime => .runtime
  | _ => .key

/-- The `is_array_like(result)` arm of `_set_by_path` (tree.py:472-478); `rs` is the content of `res`
on entry, `recur h child` is the recursive call `self._set_by_path(result[key], Key(rest_keys), value,
in_place)`.  All exceptions inside the `try` are re-raised as `KeyError`. -/
def setSeq (recur : Heap → Ref → Res Ref) (h1 : Heap) (res : Ref) (rs : List Ref) (k : PKey) : Res Unit :=
  match k.asInt with
  | none => (h1, .error .key)                             -- result[key]: TypeError → KeyError
  | some i =>
    -- if key == len(result): result.append(NullMap())
    let (h2, rs2) :=
      if i = (rs.length : Int) then
        let (ha, nm) := alloc h1 .null
        (write ha res (.list (rs ++ [nm])), rs ++ [nm])
      else (h1, rs)
    match resolveIdx rs2.length i with
    | none => (h2, .error .key)                           -- IndexError → KeyError
    | some j =>
      match rs2[j]? with
      | none => (h2, .error .key)
      | some child =>
        match recur h2 child with
        | (h3, .ok c) =>
          match assign h3 res k c with
          | (h4, .ok ()) => (h4, .ok ())
          | (h4, .error _) => (h4, .error .key)
        | (h3, .error e) => (h3, .error (wrapKey e))

/-- The `isinstance(result, Mapping)` arm (tree.py:479-482); `es` is the content of `res` on entry. -/
def setMap (recur : Heap → Ref → Res Ref) (h1 : Heap) (res : Ref) (es : List (DKey × Ref)) (k : PKey) :
    Res Unit :=
  -- result.get(key, NullMap())
  let (h2, child) := match dictGet es k.toDKey with
    | some c => (h1, c)
    | none => alloc h1 .null
  match recur h2 child with
  | (h3, .ok c) =>
    match assign h3 res k c with
    | (h4, .ok ()) => (h4, .ok ())
    | (h4, .error _) => (h4, .error .key)
  | (h3, .error e) => (h3, .error (wrapKey e))           -- except (...) → raise KeyError

/-- The `is_array_like(result)` arm of `_set_by_path` when `tree` is an **ndarray** `nd b off shape`
(tree.py:480, 488-494).  `result = tree if in_place else copy.copy(tree)` — the copy has its own buffer;
`key == len(result)` trips `assert isinstance(result, list)` (an `AssertionError`, which the `except` clause
does not catch); `result[key]` is a **view of `result`** (or a scalar); the recursive call returns `c`;
`result[key] = c` stores the elements of `c`, broadcast, into the window — a write on `result`'s buffer.
In in-place mode `result` is the caller's array: its buffer is written.  A 0-d array is neither array-like
nor a Mapping: `ValueError` → `KeyError`. -/
def setNd (recur : Heap → Ref → Res Ref) (inPlace : Bool) (h : Heap) (tree b off : Nat) (shape : List Nat)
    (k : PKey) : Res Ref :=
  let (h1, res, b1, off1) :=
    if inPlace then (h, tree, b, off) else ((ndCopy h b off shape).1, (ndCopy h b off shape).2, h.size, 0)
  match shape with
  | [] => (h1, .error .key)
  | n :: inner =>
    match k.asInt with
    | none => (h1, .error .key)                             -- result[key]: IndexError → KeyError
    | some i =>
      if i = (n : Int) then (h1, .error .assertion)         -- key == len(result): assert isinstance(result, list)
      else
        match resolveIdx n i with
        | none => (h1, .error .key)                         -- IndexError → KeyError
        | some j =>
          let o := off1 + j * prod inner
          let (h2, child) := ndItem h1 b1 o inner           -- result[key]
          match recur h2 child with
          | (h3, .error e) => (h3, .error (wrapKey e))
          | (h3, .ok c) =>
            match coerce h3 c inner with                    -- result[key] = c
            | none => (h3, .error .key)                     -- ValueError / TypeError → KeyError
            | some ys => (ndWrite h3 b1 o ys, .ok res)

/-- `_set_by_path(tree, key_path, value, in_place)` (tree.py:436-495, with the SKIP repair).
Returns the heap even when the call raises: in in-place mode the `append(NullMap())` of line 475
survives a failure further down. -/
def setPath (strict inPlace : Bool) (h : Heap) (tree : Ref) : Path → Ref → Res Ref
  | [], v => (h, .ok v)                                   -- key_path == Key()
  | .self :: _, v => (h, .ok v)                           -- _is_key(key_path[0], _SELF)
  | .skip :: _, _ => (h, .ok tree)                        -- repaired: SKIP ignores the value
  | k :: rest, v =>
    match h[tree]? with
    | none => (h, .error .other)
    | some .null =>                                        -- isinstance(tree, NullMap)
      if strict then (h, .error .value) else defaultTree h (k :: rest) v
    | some (.leaf _) => (h, .error .type)                 -- 'Insert to immutable'
    | some (.tuple rs) =>
      if inPlace then (h, .error .type)
      else
        let (h1, res) := alloc h (.list rs)               -- result = list(tree)
        match setSeq (fun h' c => setPath strict inPlace h' c rest v) h1 res rs k with
        | (h2, .ok ()) =>
          match h2[res]? with                             -- container_maker(result) = tuple(result)
          | some (.list rs') => let (h3, r) := alloc h2 (.tuple rs'); (h3, .ok r)
          | _ => (h2, .error .other)
        | (h2, .error e) => (h2, .error e)
    | some (.list rs) =>
      let (h1, res) := if inPlace then (h, tree) else alloc h (.list rs)   -- tree / copy.copy(tree)
      match setSeq (fun h' c => setPath strict inPlace h' c rest v) h1 res rs k with
      | (h2, .ok ()) => (h2, .ok res)
      | (h2, .error e) => (h2, .error e)
    | some (.dict es) =>
      let (h1, res) := if inPlace then (h, tree) else alloc h (.dict es)
      match setMap (fun h' c => setPath strict inPlace h' c rest v) h1 res es k with
      | (h2, .ok ()) => (h2, .ok res)
      | (h2, .error e) => (h2, .error e)
    | some (.nd b off shape) =>                            -- an ndarray: hasattr(tree, '__setitem__')
      setNd (fun h' c => setPath strict inPlace h' c rest v) inPlace h tree b off shape k
    | some (.buf _) => (h, .error .other)                 -- a bare buffer is not a Python object

/-- Python truthiness of an object (`if values:` / `elif data:`). -/
def truthy (h : Heap) (r : Ref) : Except ErrKind Bool :=
  match h[r]? with
  | none => .error .other
  | some (.dict es) => .ok !es.isEmpty
  | some (.list rs) | some (.tuple rs) => .ok !rs.isEmpty
  | some .null => .ok true
  | some (.leaf (.int i)) => .ok (i != 0)
  | some (.leaf (.str s)) => .ok (s != "")
  | some (.leaf .none) => .ok false
  | some (.nd b off shape) =>
    match ndElems h b off shape with
    | [x] => .ok (x != 0)
    | _ => .error .value                                  -- empty or longer: 'truth value ... is ambiguous'
  | some (.buf _) => .error .other

/-- Sequential `data = self._set_by_path(data, key, value, in_place)` (tree.py:527-528). -/
def setMany (strict inPlace : Bool) : Heap → Ref → List (Path × Ref) → Res Ref
  | h, data, [] => (h, .ok data)
  | h, data, (p, v) :: kvs =>
    match setPath strict inPlace h data p v with
    | (h1, .ok d) => setMany strict inPlace h1 d kvs
    | (h1, .error e) => (h1, .error e)

/-- `return self if in_place else dataclasses.replace(self, data=data)` (tree.py:531): the `data` of the
returned view is the *old* root when `in_place`, the new one otherwise. -/
def finishSet (inPlace : Bool) (root : Ref) : Res Ref → Res Ref
  | (h1, .ok d) => (h1, .ok (if inPlace then root else d))
  | (h1, .error e) => (h1, .error e)

/-- `values = values if type(values) is tuple else (values,)` (tree.py:518). -/
def valuesOf (h : Heap) (values : Ref) : List Ref :=
  match h[values]? with
  | some (.tuple rs) => rs
  | _ => [values]

/-- `TreeMapView.set(keys, values, in_place)` (tree.py:497-531). -/
def setItem (strict inPlace : Bool) (h : Heap) (root : Ref) (keys : Keys) (values : Ref) : Res Ref :=
  match keys with
  | .path p => finishSet inPlace root (setPath strict inPlace h root p values)
  | .empty =>
    match truthy h values with
    | .ok false => (h, .ok root)
    | .ok true => (h, .error .value)                      -- 'Keys cannot be empty'
    | .error e => (h, .error e)
  | .multi ks =>
    let vals := valuesOf h values
    if ks.length == 1 && vals.length > 1 then             -- `len(keys) == 1 and len(values) > 1`
      finishSet inPlace root (setPath strict inPlace h root (ks.headD []) values)
    else if ks.length != vals.length then (h, .error .value)  -- 'Misaligned keys and values'
    else finishSet inPlace root (setMany strict inPlace h root (ks.zip vals))

/-- `copy_and_set` (tree.py:542-547). -/
def copyAndSet (strict : Bool) (h : Heap) (root : Ref) (keys : Keys) (values : Ref) : Res Ref :=
  setItem strict false h root keys values

/-- `copy_and_update(other)` (tree.py:549-560): `other` as the list of its (key, value) pairs; the
keys and values tuples built by `zip(*…)` have equal length, so this is the aligned multi-key set. -/
def copyAndUpdate (strict : Bool) (h : Heap) (root : Ref) (other : List (Path × Ref)) : Res Ref :=
  match other with
  | [] => (h, .ok root)                                   -- `if not other: return self`
  | _ => setMany strict false h root other

/-- `parent_key_path.at(k)` for a key found in a dict: the key object itself. -/
def dkeyToPKey : DKey → PKey
  | .str s => .str s
  | .int i => .int i
  | .lit id v => .lit id v
  | .idx i => .idx i
  | .obj id => .obj id

/-- `enumerate(data)` with keys `Index(start)`, `Index(start+1)`, … -/
def seqChildren : List Ref → Nat → List (PKey × Ref)
  | [], _ => []
  | c :: cs, start => (.idx (start : Nat), c) :: seqChildren cs (start + 1)

/-- The (key, child) pairs `_dfs_iter_tree` loops over: `data.items()` of a Mapping, `enumerate(data)`
(keys `Index(i)`) of a Sequence; nothing for anything else. -/
def Node.children : Node → List (PKey × Ref)
  | .dict es => es.map fun kv => (dkeyToPKey kv.1, kv.2)
  | .list rs | .tuple rs => seqChildren rs 0
  | _ => []

/-- `for x in xs: yield from g(x)`: the concatenation of the sub-generators' outputs, in order; the first
exception ends the iteration. -/
def collectE {α β : Type} (g : α → Except ErrKind (List β)) : List α → Except ErrKind (List β)
  | [] => .ok []
  | x :: xs =>
    match g x with
    | .error e => .error e
    | .ok ys =>
      match collectE g xs with
      | .error e => .error e
      | .ok zs => .ok (ys ++ zs)

/-- `_dfs_iter_tree(data, parent_key_path)` (tree.py:286-310).  `fuel` bounds the recursion depth
(Python: the interpreter's recursion limit → `RecursionError`, a `RuntimeError`); on a finite tree a
sufficient `fuel` exists and the result does not depend on it (proved in C18). -/
def dfs (h : Heap) : Nat → Ref → Path → Except ErrKind (List Path)
  | 0, _, _ => .error .runtime
  | fuel + 1, r, parent =>
    match h[r]? with
    | none => .error .other
    | some n =>
      if n.children.isEmpty then dfsLeaf h r parent        -- a leaf (incl. empty containers)
      else collectE (fun kc => dfs h fuel kc.2 (parent ++ [kc.1])) n.children
where
  /-- the two `elif`s at the end of `_dfs_iter_tree` -/
  dfsLeaf (h : Heap) (r : Ref) (parent : Path) : Except ErrKind (List Path) :=
    if parent ≠ [] then .ok [parent]                       -- `elif parent_key_path: yield Key(parent_key_path)`
    else match truthy h r with                             -- `elif data: yield Key().SELF`
      | .ok true => .ok [[.self]]
      | .ok false => .ok []
      | .error e => .error e

/-- Fuel used by the executable model: more than the number of cells, which bounds the depth of
any acyclic structure in the heap. -/
def dfsFuel (h : Heap) : Nat := h.size + 1

/-- `TreeMapView.keys()` / `__iter__` without `key_paths` (tree.py:419-427, 536-537). -/
def keysOf (h : Heap) (root : Ref) : Except ErrKind (List Path) := dfs h (dfsFuel h) root []

/-- `TreeMapView.items()` without `map_fn`: `(k, self[k])` for `k in self`. -/
def items (h : Heap) (root : Ref) : Except ErrKind (List (Path × Ref)) :=
  match keysOf h root with
  | .error e => .error e
  | .ok ps => ps.mapM fun p => (get h root p).map fun r => (p, r)

/-- A leaf function (`map_fn`): may allocate, returns a reference. -/
abbrev LeafFn := Heap → Ref → Heap × Ref

/-- The `values` the mapped view yields: `map_fn(self[k])` for each key, left to right. -/
def mapValues (f : LeafFn) : Heap → Ref → List Path → Res (List (Path × Ref))
  | h, _, [] => (h, .ok [])
  | h, root, p :: ps =>
    match getCore h root p with
    | .error e => (h, .error e)
    | .ok (r, mapped) =>
      let (h1, v) := if mapped then f h r else (h, r)
      match mapValues f h1 root ps with
      | (h2, .ok kvs) => (h2, .ok ((p, v) :: kvs))
      | (h2, .error e) => (h2, .error e)

/-- `copy.copy(x)` for the objects of the model: new dict / list / NullMap / ndarray, the *same*
object for tuples and other immutable leaves. -/
def shallowCopy (h : Heap) (r : Ref) : Heap × Ref :=
  match h[r]? with
  | some (.dict es) => alloc h (.dict es)
  | some (.list rs) => alloc h (.list rs)
  | some .null => alloc h .null
  | some (.nd b off shape) => ndCopy h b off shape
  | _ => (h, r)

/-- `TreeMapView.apply()` (tree.py:566-571) with `map_fn = some f` (and no `key_paths`); with
`map_fn = none` it returns `self.data` itself. -/
def applyFn (strict : Bool) (f : Option LeafFn) (h : Heap) (root : Ref) : Res Ref :=
  match f with
  | none => (h, .ok root)
  | some f =>
    let (h1, c) := shallowCopy h root                      -- TreeMapView(copy.copy(self.data))
    match keysOf h1 root with                              -- self.items(); `if not other` → len()
    | .error e => (h1, .error e)
    | .ok [] => (h1, .ok c)
    | .ok ps =>
      match mapValues f h1 root ps with
      | (h2, .error e) => (h2, .error e)
      | (h2, .ok kvs) => setMany strict false h2 c kvs    -- copy_and_set(*zip(*items))

/-! ## tuple-of-ints keys: numpy multi-dimensional indices (work package C18D)

A path element may be a **tuple of ints** `(i, j, …)`: on an ndarray `a[(i, j)]` is `a[i, j]` — ONE indexing
step that resolves several axes at once (a view, or a scalar).  The key types of `Model/Tree.lean` stay as they are;
`XKey` adds the tuple on top, and `getVX` / `setPathX` are `__get` / `_set_by_path` over such paths (they ARE `getV` /
`setPath` on tuple-free paths: `setPathX_plain`, `getVX_plain` in `Lemmas/TreeTup.lean`).

What a tuple key does at the other node kinds: `list[(i, j)]` / `tuple[(i, j)]` is a `TypeError`; a `dict` lookup is a
`KeyError` (the dicts of the model hold str / int / Index / Literal keys, never a tuple); a scalar / NullMap is not a
mapping.  NOT modelled: STORING under a tuple key (`set` with a tuple key met at a dict, or at a NullMap of a
non-strict view, where `_default_tree` builds `{(i, j): …}`) — `DKey` has no tuple; the model answers `.other` there and
the harness keeps those operations out of the correspondence (oracle only). -/

inductive XKey where
  | k (k : PKey)
  | tup (is : List Int)
  deriving DecidableEq, Repr, Inhabited

/-- the ordinary key a path element is, if it is one -/
def XKey.plain? : XKey → Option PKey
  | .k key => some key
  | .tup _ => none

/-- The window `a[i₁, …, iₘ]` addresses in a C-contiguous array of shape `shape` (numpy basic indexing with a tuple
of ints: at most `ndim` indices, each in range for its axis, negative from the end): `(relative offset, item shape)`;
`none` is numpy's `IndexError`. -/
def tupWin : List Nat → List Int → Option (Nat × List Nat)
  | shape, [] => some (0, shape)
  | [], _ :: _ => none                                     -- too many indices for array
  | n :: inner, i :: is =>
    match resolveIdx n i with
    | none => none                                         -- index out of bounds for axis
    | some j => (tupWin inner is).map fun os => (j * prod inner + os.1, os.2)

/-- `scalarWalk` over paths with tuple keys -/
def scalarWalkX (x : Int) : List XKey → Except ErrKind (Loc × Bool)
  | [] => .ok (.scalar x, true)
  | .k .self :: _ => .ok (.scalar x, true)
  | .k (.lit _ v) :: _ => .ok (.obj v, false)
  | _ :: _ => .error .key

/-- `ndWalk` over paths with tuple keys: `data = data[(i, j)]` resolves the axes at once. -/
def ndWalkX (h : Heap) (b : Ref) : Nat → List Nat → List XKey → Except ErrKind (Loc × Bool)
  | off, shape, [] => .ok (.view b off shape, true)
  | off, shape, .k .self :: _ => .ok (.view b off shape, true)
  | _, _, .k (.lit _ v) :: _ => .ok (.obj v, false)
  | _, [], _ :: _ => .error .key                   -- 0-d: not `is_array_like`
  | off, n :: inner, .k k :: ks =>
    match k.asInt with
    | none => .error .index
    | some i =>
      match resolveIdx n i with
      | none => .error .index
      | some j =>
        match inner with
        | [] => scalarWalkX ((bufOf h b).getD (off + j * prod inner) 0) ks
        | _ => ndWalkX h b (off + j * prod inner) inner ks
  | off, n :: inner, .tup is :: ks =>
    match tupWin (n :: inner) is with
    | none => .error .index                        -- IndexError
    | some (o, []) => scalarWalkX ((bufOf h b).getD (off + o) 0) ks
    | some (o, s) => ndWalkX h b (off + o) s ks

/-- `TreeMapView.__get` over paths with tuple keys. -/
def getVX (h : Heap) : Ref → List XKey → Except ErrKind (Loc × Bool)
  | r, [] => .ok (.obj r, true)
  | r, .k .self :: _ => .ok (.obj r, true)
  | _, .k (.lit _ v) :: _ => .ok (.obj v, false)
  | r, .k k :: ks =>
    match h[r]? with
    | none => .error .other
    | some (.nd b off shape) => ndWalkX h b off shape (.k k :: ks)
    | some n =>
      match n.slotGet k with
      | .ok c => getVX h c ks
      | .error e => .error e
  | r, .tup is :: ks =>
    match h[r]? with
    | none => .error .other
    | some (.nd b off shape) => ndWalkX h b off shape (.tup is :: ks)
    | some (.dict _) => .error .key                -- no dict of the model holds a tuple key
    | some (.list _) | some (.tuple _) => .error .type   -- list indices must be integers or slices, not tuple
    | some (.leaf _) | some .null => .error .key
    | some (.buf _) => .error .other

/-- The ndarray arm of `_set_by_path` for a tuple key: as `setNd`, the item being `result[(i, j, …)]`.
`key == len(result)` is `False` for a tuple, so there is no `AssertionError` arm. -/
def setNdT (recur : Heap → Ref → Res Ref) (inPlace : Bool) (h : Heap) (tree b off : Nat) (shape : List Nat)
    (is : List Int) : Res Ref :=
  let (h1, res, b1, off1) :=
    if inPlace then (h, tree, b, off) else ((ndCopy h b off shape).1, (ndCopy h b off shape).2, h.size, 0)
  match shape with
  | [] => (h1, .error .key)
  | _ :: _ =>
    match tupWin shape is with
    | none => (h1, .error .key)                             -- IndexError → KeyError
    | some (o', s) =>
      let o := off1 + o'
      let (h2, child) := ndItem h1 b1 o s                   -- result[key]
      match recur h2 child with
      | (h3, .error e) => (h3, .error (wrapKey e))
      | (h3, .ok c) =>
        match coerce h3 c s with                            -- result[key] = c
        | none => (h3, .error .key)
        | some ys => (ndWrite h3 b1 o ys, .ok res)

/-- `_set_by_path` over paths with tuple keys. -/
def setPathX (strict inPlace : Bool) (h : Heap) (tree : Ref) : List XKey → Ref → Res Ref
  | [], v => (h, .ok v)
  | .k .self :: _, v => (h, .ok v)
  | .k .skip :: _, _ => (h, .ok tree)
  | .k k :: rest, v =>
    match h[tree]? with
    | none => (h, .error .other)
    | some .null =>
      -- `_default_tree` of the REST of the path: a tuple key further down would be stored as a dict key (not modelled)
      if strict then (h, .error .value)
      else match rest.mapM XKey.plain? with
        | some rest' => defaultTree h (k :: rest') v
        | none => (h, .error .other)
    | some (.leaf _) => (h, .error .type)
    | some (.tuple rs) =>
      if inPlace then (h, .error .type)
      else
        let (h1, res) := alloc h (.list rs)
        match setSeq (fun h' c => setPathX strict inPlace h' c rest v) h1 res rs k with
        | (h2, .ok ()) =>
          match h2[res]? with
          | some (.list rs') => let (h3, r) := alloc h2 (.tuple rs'); (h3, .ok r)
          | _ => (h2, .error .other)
        | (h2, .error e) => (h2, .error e)
    | some (.list rs) =>
      let (h1, res) := if inPlace then (h, tree) else alloc h (.list rs)
      match setSeq (fun h' c => setPathX strict inPlace h' c rest v) h1 res rs k with
      | (h2, .ok ()) => (h2, .ok res)
      | (h2, .error e) => (h2, .error e)
    | some (.dict es) =>
      let (h1, res) := if inPlace then (h, tree) else alloc h (.dict es)
      match setMap (fun h' c => setPathX strict inPlace h' c rest v) h1 res es k with
      | (h2, .ok ()) => (h2, .ok res)
      | (h2, .error e) => (h2, .error e)
    | some (.nd b off shape) =>
      setNd (fun h' c => setPathX strict inPlace h' c rest v) inPlace h tree b off shape k
    | some (.buf _) => (h, .error .other)
  | .tup is :: rest, v =>
    match h[tree]? with
    | none => (h, .error .other)
    | some .null => if strict then (h, .error .value) else (h, .error .other)   -- `{(i, j): …}`: not modelled
    | some (.leaf _) => (h, .error .type)
    | some (.tuple rs) =>
      if inPlace then (h, .error .type)
      else ((alloc h (.list rs)).1, .error .key)            -- result = list(tree); result[key]: TypeError → KeyError
    | some (.list rs) =>
      if inPlace then (h, .error .key) else ((alloc h (.list rs)).1, .error .key)
    | some (.dict _) => (h, .error .other)                  -- a tuple as a dict key: not modelled
    | some (.nd b off shape) =>
      setNdT (fun h' c => setPathX strict inPlace h' c rest v) inPlace h tree b off shape is
    | some (.buf _) => (h, .error .other)

/-- `Keys` over paths with tuple keys. -/
inductive KeysX where
  | path (p : List XKey)
  | empty
  | multi (ks : List (List XKey))
  deriving Repr, Inhabited

/-- `__getitem__` over paths with tuple keys (as `getItemV`). -/
def getItemVX (h : Heap) (root : Ref) : KeysX → Except ErrKind GetResV
  | .path p => (getVX h root p).map fun x => .one x.1
  | .empty => .ok (.many [])
  | .multi ks => (ks.mapM fun p => (getVX h root p).map (·.1)).map .many

/-- `get(key, default)` over paths with tuple keys (as `getDV`). -/
def getDVX (h : Heap) (root : Ref) (ks : KeysX) (dflt : GetResV) : Except ErrKind GetResV :=
  match getItemVX h root ks with
  | .ok r => .ok r
  | .error .key => .ok dflt
  | .error .index => .ok dflt
  | .error e => .error e

/-- as `setMany` -/
def setManyX (strict inPlace : Bool) : Heap → Ref → List (List XKey × Ref) → Res Ref
  | h, data, [] => (h, .ok data)
  | h, data, (p, v) :: kvs =>
    match setPathX strict inPlace h data p v with
    | (h1, .ok d) => setManyX strict inPlace h1 d kvs
    | (h1, .error e) => (h1, .error e)

/-- `TreeMapView.set` over paths with tuple keys (as `setItem`). -/
def setItemX (strict inPlace : Bool) (h : Heap) (root : Ref) (keys : KeysX) (values : Ref) : Res Ref :=
  match keys with
  | .path p => finishSet inPlace root (setPathX strict inPlace h root p values)
  | .empty =>
    match truthy h values with
    | .ok false => (h, .ok root)
    | .ok true => (h, .error .value)
    | .error e => (h, .error e)
  | .multi ks =>
    let vals := valuesOf h values
    if ks.length == 1 && vals.length > 1 then
      finishSet inPlace root (setPathX strict inPlace h root (ks.headD []) values)
    else if ks.length != vals.length then (h, .error .value)
    else finishSet inPlace root (setManyX strict inPlace h root (ks.zip vals))

/-- `copy_and_update` over paths with tuple keys (as `copyAndUpdate`). -/
def copyAndUpdateX (strict : Bool) (h : Heap) (root : Ref) (other : List (List XKey × Ref)) : Res Ref :=
  match other with
  | [] => (h, .ok root)
  | _ => setManyX strict false h root other

end MlModel.Tree
