import MlModel.Model.Sched
/-!
# Values and RPC replies underneath the `Sched` bookkeeping (C06)

`Model/Sched.lean` identifies a generator task's result with the task's id and a remote call's answer
with its `Fate`.  This file models the two places of the code where that abstraction is decided:

* the loop body of `CourierClient.async_iterate` (courier_utils.py:756-771) that turns the elements of a
  `next_batch_from_generator` reply into yields, the hand-over of the generator's RETURN VALUE
  (`generator_result_queue.put(returned := elem.value)` - unconditional, whatever the value), skips and
  raises;
* the reply alphabet of the worker-side handlers (`_init_iterator`, `_next_batch`, courier_server.py:399-479,
  and the transport) and its classification by the client (`raise init_state`, `_result_or_exception`) and by
  `WorkerPool.iterate` (`isinstance(exc, TimeoutError) or is_timeout(exc)`, courier_worker.py:503-516) into
  the environment alphabet `Fate`: in particular "shutdown requested" - the handler RETURNS a `TimeoutError`
  instance - is in the retriable class `deadline`.
-/
namespace MlModel.Sched

/-! ## the reply of `next_batch_from_generator`, element by element -/

/-- one element of the list a `next_batch_from_generator` reply carries -/
inductive Elem (B V : Type) where
  | item (b : B)     -- an output batch
  | stop (v : V)     -- `StopIteration(value)`: end marker carrying the generator's return value
  | busy             -- `ValueError('generator already executing')`: skipped by the client
  | timeoutExc       -- a `TimeoutError` instance ("Shutdown requested, cannot get next batch.", "Generator is not set ...")
  | otherExc         -- any other exception instance: the generator crashed
  deriving Repr

/-- what `async_iterate` has done with the reply so far -/
structure IterAcc (B V : Type) where
  yielded : List B := []
  /-- `generator_result_queue.put(...)` calls, in order -/
  put : List V := []
  exhausted : Bool := false
  /-- `some true` = raised a `TimeoutError` (retriable), `some false` = raised another exception -/
  raised : Option Bool := none
  deriving Repr

/-- loop body, courier_utils.py:757-771 -/
def asyncIterElem {B V : Type} (a : IterAcc B V) : Elem B V → IterAcc B V
  | .item b => { a with yielded := a.yielded ++ [b] }
  | .stop v => { a with exhausted := true, put := a.put ++ [v] }
  | .busy => a
  | .timeoutExc => { a with raised := some true }
  | .otherExc => { a with raised := some false }

/-- `for elem in output_batch:` - a raise leaves the loop -/
def asyncIterBatch {B V : Type} : IterAcc B V → List (Elem B V) → IterAcc B V
  | a, [] => a
  | a, e :: es =>
    match (asyncIterElem a e).raised with
    | some _ => asyncIterElem a e
    | none => asyncIterBatch (asyncIterElem a e) es

def Elem.stopVal {B V : Type} : Elem B V → Option V
  | .stop v => some v
  | _ => none

def Elem.itemVal {B V : Type} : Elem B V → Option B
  | .item b => some b
  | _ => none

def Elem.isExc {B V : Type} : Elem B V → Bool
  | .timeoutExc | .otherExc => true
  | _ => false

/-! ## replies and their classification -/

/-- what comes back for one remote call -/
inductive Reply where
  | value             -- the handler returned a value
  | returnedTimeout   -- the handler RETURNED a `TimeoutError` instance: `_init_iterator` when shutdown is requested
  | returnedOther     -- the handler returned another exception instance
  | handlerRaised     -- the handler raised: transport status UNKNOWN (code 2)
  | deadline          -- transport: DEADLINE_EXCEEDED (code 4)
  | transportError    -- any other transport status
  | lost (canRejoin : Bool)   -- the server is gone: the call is never answered
  deriving DecidableEq, Repr

/-- the exception the coroutine ends with, as `WorkerPool.iterate` sees it -/
inductive ClientExc where
  | pyTimeout            -- a Python `TimeoutError`
  | status (code : Nat)  -- `StatusNotOk(code)`
  | other
  deriving DecidableEq, Repr

/-- `async_iterate`: `if (init_state := await ...) is not None: raise init_state`; a failed future raises its
status -/
def Reply.clientExc : Reply → Option ClientExc
  | .value => none
  | .returnedTimeout => some .pyTimeout
  | .returnedOther => some .other
  | .handlerRaised => some (.status 2)
  | .deadline => some (.status 4)
  | .transportError => some (.status 14)
  | .lost _ => none

/-- courier_worker.py:503: `isinstance(exc, TimeoutError) or is_timeout(exc)` (`is_timeout` = code 4) -/
def ClientExc.retriable : ClientExc → Bool
  | .pyTimeout => true
  | .status c => c == 4
  | .other => false

/-- the reply as a letter of the environment alphabet of `Model/Sched.lean` -/
def Reply.classify : Reply → Fate
  | .lost false => .die
  | .lost true => .restart
  | r => match r.clientExc with
    | none => .ok
    | some e => if e.retriable then .deadline else .appError

/-- `PrefetchedCourierServer._init_iterator`, courier_server.py:402-403 and 411-412: both shutdown checks
RETURN the `TimeoutError` (they do not raise it) -/
def serverInitReply (shutdownRequested : Bool) : Reply :=
  if shutdownRequested then .returnedTimeout else .value

/-- the same handler with `raise` instead of `return` (class of the seeded change C06-m2) -/
def serverInitReplyRaising (shutdownRequested : Bool) : Reply :=
  if shutdownRequested then .handlerRaised else .value

/-- `_next_batch`, courier_server.py:462-470: a generator stopped by the shutdown answers with the single
element `TimeoutError('Shutdown requested, cannot get next batch.')` -/
def serverNextReplyOnShutdown (B V : Type) : List (Elem B V) := [.timeoutExc]

/-- a state of the coroutine that neither has failed non-retriably nor waits for a non-retriable answer -/
def CoSt.noAppErr : CoSt → Bool
  | .raisedErr => false
  | .awaitInit .appError => false
  | .awaitNext .appError _ => false
  | _ => true

end MlModel.Sched
