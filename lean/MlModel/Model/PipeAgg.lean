import MlModel.Model.Agg.Core
/-!
# Model of pipeline aggregation and slicing
(`ml_metrics/_src/chainables/transform.py`, `tree_fns.py`, `tree.py: apply_mask`)

What `TreeTransform().aggregate(..).add_aggregate(..).add_slice(..).make().iterate(batches).agg_result`
computes, over an **abstract mergeable aggregate** (`Agg.Mergeable`, the C01 interface):

* values of a batch (`Val`): scalars, `None`, array-likes (list / tuple / ndarray), dicts;
* `apply_mask` (tree.py:108-195): `True`, list masks (element-wise, recursive), dict masks,
  an array mask broadcast over the leaves of a dict, the numpy boolean path, with *filter* or
  *replace* (`replace_false_with`) semantics;
* `TreeFn._apply_masks` (tree_fns.py:159-173): one mask for all inputs / one per input;
* `Slicer.new` (tree_fns.py:398-473): default single-feature and crossed slices, `within_values`,
  fan-out `slice_fn`, the row → index-list → boolean-mask construction, user `slice_mask_fn`;
* `Slicer.iterate_and_slice` (tree_fns.py:475-487) and `SliceKey` (features/values must align);
* `TransformRunner.create_state / update_state / get_result` (transform.py:305-341, 376-390), stacked
  aggregates, `disable_slicing`, `MetricKey` flattening, the builder's duplicate checks.

Tree key routing is the business of `Model/Tree` (C18/C08): here a batch is a one-level `dict`
and input / feature / output keys are plain strings (`SELF` is supported as the *input* key).
-/
namespace MlModel.PipeAgg
open MlModel MlModel.Agg

/-! ## Python `dict`: insertion-ordered association list -/
namespace AList
variable {κ σ : Type} [DecidableEq κ]

/-- `d.get(k)` -/
def get? : List (κ × σ) → κ → Option σ
  | [], _ => none
  | (k', v) :: l, k => if k = k' then some v else get? l k

/-- `d[k] = v` (an existing key keeps its position) -/
def set : List (κ × σ) → κ → σ → List (κ × σ)
  | [], k, v => [(k, v)]
  | (k', v') :: l, k, v => if k = k' then (k', v) :: l else (k', v') :: set l k v

def keys (l : List (κ × σ)) : List κ := l.map (·.1)
end AList

/-- `[f x for x in xs]` where `f` may raise: the first exception wins -/
def mapE {α β ε : Type} (f : α → Except ε β) : List α → Except ε (List β)
  | [] => .ok []
  | x :: xs =>
    match f x with
    | .error e => .error e
    | .ok y =>
      match mapE f xs with
      | .error e => .error e
      | .ok ys => .ok (y :: ys)

/-! ## Scalars: the heterogeneous value domain

A column entry / a `replace_mask_false_with` value is a Python scalar of one of five kinds.  The kinds
matter because `apply_mask` hands array-likes to numpy (`np.where`, `np.asarray`), which works on ONE
dtype per array: an implementation that casts the replacement value INTO the column's dtype
(`result[~mask] = v`) writes something else than `v` (0.5 → 0 in an int column, → True in a bool column,
`'<pad>'` → `'<'` in a `<U1` column); `np.where` promotes both operands to a common dtype instead.
Numeric promotion (bool → int → float) preserves the VALUE (Python `==`) and is not represented:
numeric scalars keep their kind and are compared through `Scalar.canon`.  Promotion to a *string*
dtype does change values (`1` → `'1'`) and IS represented (`Scalar.toStr`, finding
F-C02-replace-str-promote). -/

/-- a Python scalar.  `flt m e` is the float `m · 10^(-e)` (NaN / inf are not modelled). -/
inductive Scalar where
  | int (i : Int)
  | flt (m : Int) (e : Nat)
  | str (s : String)
  | bool (b : Bool)
  | none
  deriving DecidableEq, Repr, Inhabited

instance : Coe Int Scalar := ⟨Scalar.int⟩
instance {n : Nat} : OfNat Scalar n := ⟨Scalar.int n⟩

/-- strip trailing decimal zeros; an integer-valued decimal becomes the int (`1.0 == 1`) -/
def normDec (m : Int) : Nat → Scalar
  | 0 => .int m
  | e + 1 => if m % 10 = 0 then normDec (m / 10) e else .flt m (e + 1)

/-- the representative of a scalar under Python `==` / `hash` (`True == 1 == 1.0`) -/
def Scalar.canon : Scalar → Scalar
  | .bool b => .int (if b then 1 else 0)
  | .flt m e => normDec m e
  | s => s

/-- numpy dtype kinds -/
inductive DType where
  | bool | int | flt | str | obj
  deriving DecidableEq, Repr, Inhabited

def Scalar.dtype : Scalar → DType
  | .int _ => .int
  | .flt _ _ => .flt
  | .str _ => .str
  | .bool _ => .bool
  | .none => .obj

/-- the dtype `np.asarray` infers for two Python scalars in one list: `None` forces `object`, a string
absorbs numbers (`np.asarray([1, 'a'])` is `<U21`), else the numeric join -/
def DType.infer : DType → DType → DType
  | .obj, _ | _, .obj => .obj
  | .str, _ | _, .str => .str
  | .flt, _ | _, .flt => .flt
  | .int, _ | _, .int => .int
  | .bool, .bool => .bool

/-- dtype of `np.asarray(list of scalars)` (the empty array is `float64`) -/
def inferDType : List Scalar → DType
  | [] => .flt
  | s :: rest => rest.foldl (fun d x => d.infer x.dtype) s.dtype

/-- result dtype of `np.where(mask, column, r)` for a column of dtype `c` and a Python scalar of dtype
`r`; `none` = `DTypePromotionError` (a string column and an int / float scalar).  Observed on numpy 2.x:
a numeric or bool column with a `str` scalar is a string array, a string column with a `bool` too. -/
def DType.promote (c r : DType) : Option DType :=
  match c, r with
  | .obj, _ | _, .obj => some .obj
  | .str, .str | .str, .bool => some .str
  | .str, _ => none
  | _, .str => some .str
  | a, b => some (a.infer b)

def natDigits (n pad : Nat) : String :=
  let s := toString n
  String.ofList (List.replicate (pad - s.length) (Char.ofNat 48)) ++ s

/-- numpy's conversion of a number to a string dtype (`str(np.int64(1))`, `'True'`, `repr` of a short
decimal float) -/
def pyStr : Scalar → String
  | .int i => toString i
  | .bool b => if b then "True" else "False"
  | .flt m 0 => toString m ++ ".0"
  | .flt m e =>
    let a := m.natAbs
    (if m < 0 then "-" else "") ++ toString (a / 10 ^ e) ++ "." ++ natDigits (a % 10 ^ e) e
  | .str s => s
  | .none => "None"

/-- a scalar as an element of a string array -/
def Scalar.toStr : Scalar → Scalar
  | .str s => .str s
  | .none => .none
  | s => .str (pyStr s)

/-! ## Values and masks -/

/-- A value inside a batch.  `seq arr xs` is an array-like: a numpy array (`arr = true`; the elements
of a multi-dimensional array are arrays again) or a `list` / `tuple` (`arr = false`).  Python `None`
is `null` (never `leaf .none`: scalars enter values through `Scalar.toVal`). -/
inductive Val where
  | leaf (v : Scalar)
  | null
  | seq (arr : Bool) (xs : List Val)
  | map (kvs : List (String × Val))
  deriving Repr, Inhabited

/-- A mask as a user `slice_mask_fn` writes it: `True` / `False`, a list of masks, a dict of masks. -/
inductive Mask where
  | tt
  | ff
  | seq (ms : List Mask)
  | map (kvs : List (String × Mask))
  deriving Repr, Inhabited

/-- One entry of the `masks` tuple handed to `TreeFn.with_masks`: a 1-D numpy `bool` array (what the
built-in slicers emit, tree_fns.py:461-463; `x == key` on an ndarray) or a Python-level mask. -/
inductive TopMask where
  | np (bits : List Bool)
  | gen (m : Mask)
  deriving Repr, Inhabited

/-- a scalar as a value (`None` is `null`) -/
def Scalar.toVal : Scalar → Val
  | .none => .null
  | s => .leaf s

mutual
/-- every scalar under the value becomes `r` (a row of `np.where(mask[:, None, ..], items, r)`) -/
def Val.fill (r : Scalar) : Val → Val
  | .leaf _ => r.toVal
  | .null => r.toVal
  | .seq arr xs => .seq arr (fillList r xs)
  | .map kvs => .map kvs
def fillList (r : Scalar) : List Val → List Val
  | [] => []
  | x :: xs => Val.fill r x :: fillList r xs
end

mutual
/-- the scalars under an array-like, in order (`None` included; dicts contribute nothing) -/
def Val.scalars : Val → List Scalar
  | .leaf s => [s]
  | .null => [.none]
  | .seq _ xs => scalarsList xs
  | .map _ => []
def scalarsList : List Val → List Scalar
  | [] => []
  | x :: xs => Val.scalars x ++ scalarsList xs
end

mutual
/-- every scalar converted to the string dtype -/
def Val.strfy : Val → Val
  | .leaf s => .leaf s.toStr
  | .null => .null
  | .seq arr xs => .seq arr (strfyList xs)
  | .map kvs => .map kvs
def strfyList : List Val → List Val
  | [] => []
  | x :: xs => Val.strfy x :: strfyList xs
end

/-- the elements of an array of dtype `dt` built from `xs`: only a string dtype changes values -/
def npCast (dt : DType) (xs : List Val) : List Val := if dt = .str then strfyList xs else xs

mutual
/-- the shape `np.asarray` gives the value; `none` when it raises (ragged / mixed nesting) -/
def Val.shape? : Val → Option (List Nat)
  | .leaf _ => some []
  | .null => some []
  | .seq _ xs =>
    match shapes xs with
    | [] => some [0]
    | some s :: rest => if rest.all (· == some s) then some ((rest.length + 1) :: s) else none
    | none :: _ => none
  | .map _ => none
def shapes : List Val → List (Option (List Nat))
  | [] => []
  | x :: xs => Val.shape? x :: shapes xs
end

/-- `items.get(key)` -/
def lookupKey {β : Type} (k : String) : List (String × β) → Option β
  | [] => none
  | (k', v) :: rest => if k = k' then some v else lookupKey k rest

/-- keep the elements whose bit is set (`items[mask]`) -/
def filterBits {α : Type} : List Bool → List α → List α
  | b :: bs, x :: xs => if b then x :: filterBits bs xs else filterBits bs xs
  | _, _ => []

/-- replace the elements whose bit is clear -/
def replBits {α : Type} (r : α → α) : List Bool → List α → List α
  | b :: bs, x :: xs => (if b then x else r x) :: replBits r bs xs
  | _, _ => []

/-- tree.py:135-139 (numpy `bool` mask on an array-like): `np.asarray(items)[masks]`, resp.
`np.where(masks[:, None, ...], items, replace_false_with)` (the mask selects along the leading
axis in both modes — after the repair of finding F-C02-where).  A length mismatch is an
`IndexError` / broadcast `ValueError` (numpy's broadcasting of length-1 operands is outside the model).
`np.where` promotes the column and the replacement to a common dtype (`DType.promote`): the replaced
entries are exactly `r` and the kept ones untouched unless that dtype is a string dtype and one side is
not a string.  The column's dtype is the one `np.asarray` infers from its content (an `object` ndarray
without a `None`, and a list mixing strings and numbers without a `None`, are outside the model). -/
def applyNp (repl : Option Scalar) (bits : List Bool) (xs : List Val) : Except ErrKind Val :=
  match (Val.seq true xs).shape? with
  | none => .error .value
  | some _ =>
    if bits.length ≠ xs.length then .error (if repl.isSome then .value else .index)
    else match repl with
      | none => .ok (.seq true (filterBits bits xs))
      | some r =>
        match (inferDType (scalarsList xs)).promote r.dtype with
        | none => .error .type                                   -- DTypePromotionError
        | some dt => .ok (.seq true (npCast dt (replBits (Val.fill r) bits xs)))

mutual
/-- tree.py:181-189: an array mask applied to a `dict`: every (ndarray) leaf is masked -/
def bcastNp (repl : Option Scalar) (bits : List Bool) : Val → Except ErrKind Val
  | .map kvs =>
    match bcastNpKvs repl bits kvs with
    | .error e => .error e
    | .ok r => .ok (.map r)
  | .seq true xs => applyNp repl bits xs          -- an ndarray leaf
  | _ => .error .type                             -- a list inside the dict is descended to its scalars: TypeError
def bcastNpKvs (repl : Option Scalar) (bits : List Bool) :
    List (String × Val) → Except ErrKind (List (String × Val))
  | [] => .ok []
  | (k, v) :: rest =>
    match bcastNp repl bits v with
    | .error e => .error e
    | .ok v' =>
      match bcastNpKvs repl bits rest with
      | .error e => .error e
      | .ok r => .ok ((k, v') :: r)
end

/-- tree.py:155-162: the element-wise result keeps the container kind (a list stays a list of exactly the
appended objects); for an ndarray that is `np.asarray(result)`, which raises on a ragged result and
infers ONE dtype for the kept elements and the appended replacement values -/
def rewrap (arr : Bool) (ys : List Val) : Except ErrKind Val :=
  if arr then
    match (Val.seq true ys).shape? with
    | none => .error .value
    | some _ => .ok (.seq true (npCast (inferDType (scalarsList ys)) ys))   -- dtype inferred from the elements
  else .ok (.seq false ys)

mutual
/-- tree.py:108-195 `apply_mask(items, masks=m, replace_false_with=repl)` for Python-level masks -/
def applyMask (repl : Option Scalar) : Val → Mask → Except ErrKind Val
  | x, .tt => .ok x                                                   -- :131 `masks == True`
  | .seq arr xs, .seq ms =>                                           -- :134, 140-162
    match applySeq repl xs ms with
    | .error e => .error e
    | .ok ys => rewrap arr ys
  | .map kvs, .map mkvs => (applyMap repl kvs mkvs).map .map           -- :163-177
  | .map kvs, .seq ms => (bcastKvs repl kvs ms).map .map               -- :181-189
  | _, _ => .error .type                                              -- :190-194
termination_by x m => (sizeOf m, sizeOf x)
/-- the element-wise loop tree.py:141-154 (`zip(items, masks, strict=True)`) -/
def applySeq (repl : Option Scalar) : List Val → List Mask → Except ErrKind (List Val)
  | [], [] => .ok []
  | x :: xs, .tt :: ms => (applySeq repl xs ms).map (x :: ·)
  | _ :: xs, .ff :: ms =>
    match repl with
    | none => applySeq repl xs ms
    | some r => (applySeq repl xs ms).map (r.toVal :: ·)
  | x :: xs, m :: ms =>
    match applyMask repl x m with
    | .error e => .error e
    | .ok y => (applySeq repl xs ms).map (y :: ·)
  | _, _ => .error .value
termination_by xs ms => (sizeOf ms, sizeOf xs)
/-- the dict loop tree.py:165-177: one entry per *mask* key, `items.get(key)` for the value -/
def applyMap (repl : Option Scalar) (kvs : List (String × Val)) :
    List (String × Mask) → Except ErrKind (List (String × Val))
  | [] => .ok []
  | (k, .tt) :: rest => (applyMap repl kvs rest).map ((k, (lookupKey k kvs).getD .null) :: ·)
  | (k, .ff) :: rest =>
    match repl with
    | none => applyMap repl kvs rest
    | some r => (applyMap repl kvs rest).map ((k, r.toVal) :: ·)
  | (k, m) :: rest =>
    match applyMask repl ((lookupKey k kvs).getD .null) m with
    | .error e => .error e
    | .ok y => (applyMap repl kvs rest).map ((k, y) :: ·)
termination_by mkvs => (sizeOf mkvs, sizeOf kvs)
/-- tree.py:181-189 with a list mask: the mask is applied to every leaf of the dict -/
def bcastKvs (repl : Option Scalar) : List (String × Val) → List Mask →
    Except ErrKind (List (String × Val))
  | [], _ => .ok []
  | (k, .seq true xs) :: rest, ms =>                 -- an ndarray leaf
    match applySeq repl xs ms with
    | .error e => .error e
    | .ok ys =>
      match rewrap true ys with
      | .error e => .error e
      | .ok y => (bcastKvs repl rest ms).map ((k, y) :: ·)
  | (k, .map kvs) :: rest, ms =>
    match bcastKvs repl kvs ms with
    | .error e => .error e
    | .ok r => (bcastKvs repl rest ms).map ((k, Val.map r) :: ·)
  | _ :: _, _ => .error .type
termination_by kvs ms => (sizeOf ms, sizeOf kvs)
end

/-- `apply_mask` for one entry of the `masks` tuple -/
def applyTop (repl : Option Scalar) (x : Val) : TopMask → Except ErrKind Val
  | .gen m => applyMask repl x m
  | .np bits =>
    match x with
    | .seq _ xs => applyNp repl bits xs
    | .map kvs =>
      match bcastNpKvs repl bits kvs with
      | .error e => .error e
      | .ok r => .ok (.map r)
    | _ => .error .type

/-- `TreeFn._get_inputs` / `_apply_masks` (tree_fns.py:159-173, 193-199): no masks → untouched;
one mask → applied to every input; otherwise `zip(items, masks, strict=True)`. -/
def applyMasks (repl : Option Scalar) (args : List Val) : List TopMask → Except ErrKind (List Val)
  | [] => .ok args
  | [m] => mapE (fun x => applyTop repl x m) args
  | ms =>
    if ms.length = args.length then mapE (fun xm => applyTop repl xm.1 xm.2) (args.zip ms)
    else .error .value

/-! ## Slice keys, slicers -/

/-- `tree_fns.SliceKey(features, values)` -/
structure SliceKey where
  features : List String
  values : List Int
  deriving DecidableEq, Repr, Inhabited

/-- `SliceKey()`: the key of the unsliced state -/
def SliceKey.none : SliceKey := ⟨[], []⟩

/-- `transform.MetricKey(metrics, slice)` -/
structure MetricKey where
  metrics : List String
  slice : SliceKey
  deriving DecidableEq, Repr, Inhabited

/-- A batch handed to `update_state`: a `dict` of columns. -/
abbrev Batch := List (String × Val)

/-- a feature value must be hashable to key `mask_by_slice` (tree_fns.py:450-455); scalars are.
Slice values are ints in this model: a non-int scalar feature (hashable in Python) is outside it. -/
def Val.asKey : Val → Except ErrKind Int
  | .leaf (.int v) => .ok v
  | _ => .error .type

/-- `_default_slice_fn` without `within_values` (tree_fns.py:430-432): the row itself is the slice -/
def defaultFn (row : List Val) : Except ErrKind (List (List Int)) :=
  match mapE Val.asKey row with
  | .error e => .error e
  | .ok vs => .ok [vs]

/-- `_default_slice_fn` with `within_values` (tree_fns.py:433-440, after the repair of finding
F-C02-within): the row is a slice iff every feature value is among the values requested for it. -/
def withinFn (within : List (List Int)) (row : List Val) : Except ErrKind (List (List Int)) :=
  match mapE Val.asKey row with
  | .error e => .error e
  | .ok vs =>
    if vs.length ≠ within.length then .error .value        -- zip(strict=True)
    else if (vs.zip within).all (fun vw => vw.2.contains vw.1) then .ok [vs] else .ok []

/-- What `Slicer.new` was given. A row function receives one row of the feature columns and returns
the slice values of that row, each already a tuple (tree_fns.py:448-449); a mask function
(`slice_mask_fn`) receives the feature columns of the batch and yields `(slice value, masks)`. -/
inductive SliceFn where
  | rows (f : List Val → Except ErrKind (List (List Int)))
  | masks (g : List Val → Except ErrKind (List (List Int × List TopMask)))

/-- `tree_fns.Slicer` -/
structure Slicer where
  name : List String
  keys : List String
  fn : SliceFn
  /-- `replace_mask_false_with` (`none` = `DEFAULT_FILTER`; Python `None` is `some .none`) -/
  replace : Option Scalar := none

/-- `zip(*inputs)` (tree_fns.py:444): rows of the feature columns, as long as the shortest -/
def zipRows : List (List Val) → List (List Val)
  | [] => []
  | [c] => c.map ([·])
  | c :: cs => List.zipWith (· :: ·) c (zipRows cs)

/-- `mask_by_slice[slice_value].append(batch_ix)` -/
def addIdx (i : Nat) (acc : List (List Int × List Nat)) (v : List Int) : List (List Int × List Nat) :=
  AList.set acc v ((AList.get? acc v).getD [] ++ [i])

/-- the row loop tree_fns.py:442-456 -/
def maskBySlice (f : List Val → Except ErrKind (List (List Int))) :
    List (List Val) → Nat → List (List Int × List Nat) → Except ErrKind (List (List Int × List Nat))
  | [], _, acc => .ok acc
  | row :: rows, i, acc =>
    match f row with
    | .error e => .error e
    | .ok vs => maskBySlice f rows (i + 1) (vs.foldl (addIdx i) acc)

/-- `mask = np.zeros(batch_size).astype(bool); mask[indices] = True` -/
def toMask (n : Nat) (idx : List Nat) : List Bool := (List.range n).map (fun j => idx.contains j)

/-- an iterable feature column -/
def Val.asSeq : Val → Except ErrKind (List Val)
  | .seq _ xs => .ok xs
  | _ => .error .type

/-- `SliceKey(self.slice_name, slice_value)` (tree_fns.py:365-373) -/
def mkSliceKey (name : List String) (v : List Int) : Except ErrKind SliceKey :=
  if v.length = name.length then .ok ⟨name, v⟩ else .error .value

/-- `Slicer.iterate_and_slice(inputs)` fully consumed: the `(SliceKey, masks)` pairs of one batch.
`TreeMapView(..., key_paths=input_keys).values()` skips feature keys the batch does not have
(tree.py:422-426). -/
def Slicer.slice (sl : Slicer) (b : Batch) : Except ErrKind (List (SliceKey × List TopMask)) :=
  let cols := sl.keys.filterMap (fun k => lookupKey k b)
  match sl.fn with
  | .rows f =>
    match mapE Val.asSeq cols with
    | .error e => .error e
    | .ok cs =>
      let rows := zipRows cs
      match maskBySlice f rows 0 [] with
      | .error e => .error e
      | .ok bySlice =>
        mapE (fun vi => match mkSliceKey sl.name vi.1 with
          | .error e => .error e
          | .ok k => .ok (k, [TopMask.np (toMask rows.length vi.2)])) bySlice
  | .masks g =>
    match g cols with
    | .error e => .error e
    | .ok kms =>
      mapE (fun vm => match mkSliceKey sl.name vm.1 with
        | .error e => .error e
        | .ok k => .ok (k, vm.2)) kms

/-! ## Aggregates -/

/-- `TreeAggregateFn`: output keys, input keys (`none` = `Key.SELF`: the batch itself), the aggregate
(abstract `Mergeable`; its `result` is already tuple-normalised, tree_fns.py:175-191), the way the
aggregate reads its positional arguments as a list of rows, `disable_slicing`. -/
structure Agg (X S Rv : Type) where
  out : List String
  inKeys : Option (List String)
  m : Mergeable X S (List Rv)
  dec : List Val → Except ErrKind (List X)
  noSlice : Bool := false

variable {X S Rv : Type}

/-- `TreeMapView.as_view(inputs)[self.input_keys]` -/
def Agg.inputs (a : Agg X S Rv) (b : Batch) : Except ErrKind (List Val) :=
  match a.inKeys with
  | none => .ok [.map b]
  | some ks => mapE (fun k => match lookupKey k b with
      | some v => .ok v
      | none => .error .key) ks

/-- The rows one `TreeAggregateFn.update_state(state, inputs)` call adds under `masks`
(tree_fns.py:530-547): select, mask, hand to the aggregate.  Every exception is re-raised as `ValueError`. -/
def Agg.feed (a : Agg X S Rv) (masks : List TopMask) (repl : Option Scalar) (b : Batch) :
    Except ErrKind (List X) :=
  match a.inputs b with
  | .error _ => .error .value
  | .ok args =>
    match applyMasks repl args masks with
    | .error _ => .error .value
    | .ok args' =>
      match a.dec args' with
      | .error _ => .error .value
      | .ok rows => .ok rows

/-- the rows of a batch the unsliced aggregate sees -/
def Agg.rowsOf (a : Agg X S Rv) (b : Batch) : Except ErrKind (List X) := a.feed [] none b

/-! ## The runner -/

/-- `TreeTransform` after `aggregate / add_aggregate* / add_slice*` -/
structure Pipeline (X S Rv : Type) where
  aggs : List (Agg X S Rv)
  slicers : List Slicer

/-- `_AggState = dict[MetricKey, Any]` -/
abbrev State (S : Type) := List (MetricKey × S)

/-- `TransformRunner.create_state` (transform.py:305-309) -/
def createState (P : Pipeline X S Rv) : State S :=
  P.aggs.foldl (fun st a => AList.set st ⟨a.out, SliceKey.none⟩ a.m.empty) []

/-- one `state[key] = tree_agg_fn.update_state(state[key], inputs)` of transform.py:319-336 -/
structure Upd (X S Rv : Type) where
  key : MetricKey
  m : Mergeable X S (List Rv)
  rows : List X

/-- transform.py:326-336 for one slicer: per `(slice_key, masks)` the masked rows -/
def planSlicer (a : Agg X S Rv) (b : Batch) (sl : Slicer) : Except ErrKind (List (Upd X S Rv)) :=
  match sl.slice b with
  | .error e => .error e
  | .ok kms =>
    mapE (fun km => match a.feed km.2 sl.replace b with
      | .error e => .error e
      | .ok rows => .ok ⟨⟨a.out, km.1⟩, a.m, rows⟩) kms

/-- transform.py:317-336 for one aggregate: the unsliced update, then (unless `disable_slicing`)
every slicer's updates in order -/
def planAgg (P : Pipeline X S Rv) (b : Batch) (a : Agg X S Rv) : Except ErrKind (List (Upd X S Rv)) :=
  match a.rowsOf b with
  | .error e => .error e
  | .ok rows =>
    if a.noSlice then .ok [⟨⟨a.out, SliceKey.none⟩, a.m, rows⟩]
    else match mapE (planSlicer a b) P.slicers with
      | .error e => .error e
      | .ok us => .ok (⟨⟨a.out, SliceKey.none⟩, a.m, rows⟩ :: us.flatten)

/-- the updates of one `update_state(state, inputs)` call, in the order of the loops;
the first exception aborts the call -/
def plan (P : Pipeline X S Rv) (b : Batch) : Except ErrKind (List (Upd X S Rv)) :=
  match mapE (planAgg P b) P.aggs with
  | .error e => .error e
  | .ok us => .ok us.flatten

/-- `if metric_key not in state: state[metric_key] = create_state()` then
`state[metric_key] = update_state(state[metric_key], inputs)` (transform.py:328-336) -/
def Upd.apply (st : State S) (u : Upd X S Rv) : State S :=
  AList.set st u.key (u.m.add ((AList.get? st u.key).getD u.m.empty) u.rows)

/-- `TransformRunner.update_state` (transform.py:311-341); an unsliced entry that is missing from the
given state is a `KeyError` (:319-320, :337-340) -/
def updateState (P : Pipeline X S Rv) (st : State S) (b : Batch) : Except ErrKind (State S) :=
  if P.aggs.all (fun a => (AList.get? st ⟨a.out, SliceKey.none⟩).isSome) then
    match plan P b with
    | .error e => .error e
    | .ok us => .ok (us.foldl Upd.apply st)
  else .error .key

/-- `_RunnerIterator`: `create_state()` then one `update_state` per batch (transform.py:183-193, 451) -/
def runFrom (P : Pipeline X S Rv) : State S → List Batch → Except ErrKind (State S)
  | st, [] => .ok st
  | st, b :: bs =>
    match updateState P st b with
    | .error e => .error e
    | .ok st' => runFrom P st' bs

def run (P : Pipeline X S Rv) (bs : List Batch) : Except ErrKind (State S) := runFrom P (createState P) bs

/-! ## `get_result` -/

/-- a reported value: one output, or the whole output tuple under a single key (tree_fns.py:220-221) -/
inductive ROut (Rv : Type) where
  | one (r : Rv)
  | tup (rs : List Rv)
  deriving Repr, DecidableEq

/-- the key of one entry of `agg_result`: the output key itself when `slice = SliceKey()`, else
`MetricKey(output key, slice)` (transform.py:381-387) -/
structure ResKey where
  metric : String
  slice : SliceKey
  deriving DecidableEq, Repr, Inhabited

/-- `TreeAggregateFn.get_result` + `TreeMapView(outputs)[key.metrics]` (tree_fns.py:215-228, 552-554;
transform.py:380, 388): the reported values, aligned with the output keys -/
def Agg.outputs (a : Agg X S Rv) (s : S) : Except ErrKind (List (String × ROut Rv)) :=
  match a.out, a.m.result s with
  | [k], [r] => .ok [(k, .one r)]
  | [k], r1 :: r2 :: rs => .ok [(k, .tup (r1 :: r2 :: rs))]       -- one key, several outputs
  | ks, outs =>
    if ks.length = outs.length then .ok (ks.zip (outs.map .one)) else .error .value  -- zip(strict=True)

abbrev Result (Rv : Type) := List (ResKey × ROut Rv)

/-- one iteration of the loop transform.py:379-389 -/
def resultStep (P : Pipeline X S Rv) (res : Result Rv) (e : MetricKey × S) : Except ErrKind (Result Rv) :=
  match P.aggs.find? (fun a => a.out = e.1.metrics) with
  | none => .error .key                      -- `self.agg_fns[key.metrics]`
  | some a =>
    match a.outputs e.2 with
    | .error err => .error err
    | .ok outs => .ok (outs.foldl (fun r kv => AList.set r ⟨kv.1, e.1.slice⟩ kv.2) res)

/-- `TransformRunner.get_result` (transform.py:376-390) -/
def getResultFrom (P : Pipeline X S Rv) : Result Rv → State S → Except ErrKind (Result Rv)
  | res, [] => .ok res
  | res, e :: st =>
    match resultStep P res e with
    | .error err => .error err
    | .ok res' => getResultFrom P res' st

def getResult (P : Pipeline X S Rv) (st : State S) : Except ErrKind (Result Rv) := getResultFrom P [] st

/-! ## The builder -/

/-- `_check_assign_keys(fn.output_keys, self.agg_output_keys)` (transform.py:927-947, 1125): an output key
of a stacked aggregate that is already taken is a `KeyError` -/
def checkAggs : List (List String) → List String → Except ErrKind Unit
  | [], _ => .ok ()
  | out :: rest, taken =>
    if out.any (fun k => taken.contains k) then .error .key else checkAggs rest (taken ++ out)

/-- `add_slice`: `Duplicate slice name` is a `ValueError` (transform.py:1213-1214) -/
def checkSlicers : List (List String) → List (List String) → Except ErrKind Unit
  | [], _ => .ok ()
  | n :: rest, seen => if seen.contains n then .error .value else checkSlicers rest (seen ++ [n])

def Pipeline.validate (P : Pipeline X S Rv) : Except ErrKind Unit :=
  match checkAggs (P.aggs.map (·.out)) [] with
  | .error e => .error e
  | .ok () => checkSlicers (P.slicers.map (·.name)) []

/-- what the theorems need of a pipeline: every output key names one output of one aggregate, every
aggregate and every slicer has a name, slicer names are distinct.  (The builder enforces distinctness
across aggregates and across slicers; an aggregate listing one key twice is accepted by the builder and
excluded here.) -/
structure Pipeline.WF (P : Pipeline X S Rv) : Prop where
  outs_nodup : (P.aggs.map (·.out)).flatten.Nodup
  outs_ne : ∀ a ∈ P.aggs, a.out ≠ []
  names_nodup : (P.slicers.map (·.name)).Nodup
  names_ne : ∀ sl ∈ P.slicers, sl.name ≠ []

/-- `make().iterate(batches)` exhausted, then `.agg_result` -/
def aggResult (P : Pipeline X S Rv) (bs : List Batch) : Except ErrKind (Result Rv) :=
  match P.validate with
  | .error e => .error e
  | .ok () =>
    match run P bs with
    | .error e => .error e
    | .ok st => getResult P st

end MlModel.PipeAgg
