import MlModel.Model.Tree
/-!
# `TreeFn._get_outputs` over the cell heap of `Model/Tree.lean`

`Model/Pipe.lean` is functional: a record is a value, so "the caller's record is not written" would
be true by construction.  Here the output routing of `Assign` / `apply` runs on the explicit heap of
the C18 model (`alloc` builds a new object, `write` mutates one): `_get_outputs` is a sequence of
`TreeMapView.copy_and_set` calls (`Tree.copyAndSet`, i.e. `_set_by_path(in_place=False)`), one per
output key, plus the reads of a dict-form key.  That no pre-existing cell is written is then a theorem
(`Properties/C08.lean: C08_assign_no_write`), not a convention.

```
def _get_outputs(self, outputs, inputs=tree.NullMap()):                      # tree_fns.py:215-228
  result = tree.TreeMapView(inputs)
  if len(self.output_keys) == 1 and len(outputs) > 1:
    return result.copy_and_set(self.output_keys, outputs).data
  for keys, output in zip(self.output_keys, outputs, strict=True):
    if isinstance(keys, Mapping):
      values = tree.TreeMapView(output)[tuple(keys.values())]
      result = result.copy_and_set(tuple(keys.keys()), values)
    else:
      result = result.copy_and_set(keys, output)
  return result.data
```
-/
namespace MlModel.PipeHeap
open MlModel.Tree

/-- an element of `output_keys`: a key (as a path: a bare key is the one-element path, `SELF`,
`SKIP` are path elements) or a dict-form key `{record_key: source}` -/
inductive HKey where
  | key (p : Path)
  | dict (items : List (Path × Path))
  deriving Repr, Inhabited

/-- the body of the `for keys, output in zip(...)` loop -/
def setOneH (inPlace : Bool) (h : Heap) (result : Ref) (k : HKey) (output : Ref) : Res Ref :=
  match k with
  | .key p => setItem false inPlace h result (.path p) output
  | .dict items =>
    -- `values = tree.TreeMapView(output)[tuple(keys.values())]`: reads, then a new tuple
    match getItem h output (.multi (items.map (·.2))) with
    | .error e => (h, .error e)
    | .ok (.one _) => (h, .error .other)                 -- a tuple of keys never reads one value
    | .ok (.many refs) =>
      let (h1, vals) := alloc h (.tuple refs)
      setItem false inPlace h1 result (.multi (items.map (·.1))) vals

/-- `for keys, output in zip(self.output_keys, outputs, strict=True)` -/
def setZipH (inPlace : Bool) : Heap → Ref → List HKey → List Ref → Res Ref
  | h, result, [], [] => (h, .ok result)
  | h, result, k :: ks, o :: os =>
    match setOneH inPlace h result k o with
    | (h1, .ok r) => setZipH inPlace h1 r ks os
    | (h1, .error e) => (h1, .error e)
  | h, _, _, _ => (h, .error .value)                     -- zip(strict=True)

/-- `_get_outputs(outputs, inputs)`; `outs` are the elements of the tuple object `outsTuple`.
`inPlace = false` is the code (`copy_and_set`); `inPlace = true` is NOT the code: it is the variant
"set the keys directly on the record" that the witness in `Properties/C08.lean` shows to write the
caller's nested containers. -/
def getOutputsH (inPlace : Bool) (h : Heap) (base : Ref) (keys : List HKey) (outs : List Ref)
    (outsTuple : Ref) : Res Ref :=
  match keys with
  | [.key p] =>
    if outs.length > 1 then setItem false inPlace h base (.multi [p]) outsTuple
    else setZipH inPlace h base keys outs
  | [.dict _] =>
    if outs.length > 1 then (h, .error .key)              -- a dict used as a path element
    else setZipH inPlace h base keys outs
  | _ => setZipH inPlace h base keys outs

/-- one record of an `Assign` stream: the record, the function's outputs (already objects of the
heap) and the tuple object holding them -/
structure Job where
  base : Ref
  outs : List Ref
  outsTuple : Ref

/-- `it.starmap(self._get_outputs, processed_with_inputs(...))` over a stream of records: the heap
is threaded through; a routing error ends the stream (skipping off) -/
def assignAllH (inPlace : Bool) (keys : List HKey) : Heap → List Job → Heap × Except ErrKind (List Ref)
  | h, [] => (h, .ok [])
  | h, j :: js =>
    match getOutputsH inPlace h j.base keys j.outs j.outsTuple with
    | (h1, .error e) => (h1, .error e)
    | (h1, .ok r) =>
      match assignAllH inPlace keys h1 js with
      | (h2, .ok rs) => (h2, .ok (r :: rs))
      | (h2, .error e) => (h2, .error e)

end MlModel.PipeHeap
