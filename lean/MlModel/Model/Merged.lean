import MlModel.Model.Basic
/-!
# Model of `iter_utils.MergedSequences` and `iter_utils._RangeIterator`
(ml_metrics/_src/utils/iter_utils.py:173-312, *after* the `fix:` commits for finding F10:
`_index` uses `bisect_right - 1`, `slice` normalises its bounds with `slice.indices(len(self))`
and returns nothing for `start >= stop`).

* `pyIndex`, `pySlice`, `clampBound` — the **specification**: Python `list` indexing / slicing
  (step `None`), written with `List.drop/take`.
* `offsets`, `bisectRight`, `locate`, `index_`, `getitem`, `sliceRanges`, `sliceElems` — the code.
* `Src`, `RSt`, `fill`, `next` — `_RangeIterator` over a failure-prone random-access source with the
  read-ahead and the `// 4` fallback; `chainNext` — `itertools.chain.from_iterable` over range iterators.

Modelled, not verified: `bisect.bisect_right` (on the sorted offsets list: number of entries `<= x`),
`itertools.accumulate`, `slice.indices`, `collections.deque`, `itertools.chain`.
-/
namespace MlModel.Merged

/-! ## Specification: Python list semantics -/

def orIndexError {α : Type} : Option α → Except ErrKind α
  | some a => .ok a
  | none => .error .index

/-- Python `xs[i]` on a list: negative `i` counts from the end, out of range → `IndexError`. -/
def pyIndex {α : Type} (xs : List α) (i : Int) : Except ErrKind α :=
  let j : Int := if i < 0 then i + xs.length else i
  if j < 0 then .error .index else orIndexError xs[j.toNat]?

/-- One bound of `slice(a, b).indices(n)` (step `None`): `None` → default, negative → `+ n`
clamped at `0`, large → clamped at `n`. -/
def clampBound (n : Nat) (dflt : Nat) : Option Int → Nat
  | none => dflt
  | some i => if i < 0 then (i + n).toNat else min i.toNat n

/-- Python `xs[a:b]` on a list (step `None`). -/
def pySlice {α : Type} (xs : List α) (a b : Option Int) : List α :=
  let s := clampBound xs.length 0 a
  let e := clampBound xs.length xs.length b
  (xs.drop s).take (e - s)

/-! ## `MergedSequences` -/

/-- `_seq_idxs = [0] + accumulate(map(len, sequences))`, iter_utils.py:252-253. -/
def offsetsFrom (acc : Nat) : List Nat → List Nat
  | [] => [acc]
  | l :: ls => acc :: offsetsFrom (acc + l) ls

def offsets (lens : List Nat) : List Nat := offsetsFrom 0 lens

/-- `len(self) = _seq_idxs[-1]` -/
def total (lens : List Nat) : Nat := lens.sum

/-- `bisect.bisect_right(xs, x)` for a sorted `xs`: the number of leading entries `<= x`. -/
def bisectRight : List Nat → Nat → Nat
  | [], _ => 0
  | y :: ys, x => if y ≤ x then 1 + bisectRight ys x else 0

/-- `_index` on a non-negative index (iter_utils.py `_index`, repaired):
`idx_seq = bisect_right(indices, index) - 1`; `idx_seq == len(sequences)` → `(idx_seq, None)`,
otherwise `(idx_seq, index - indices[idx_seq])`.  (`indices[0] = 0 <= index`, so `idx_seq >= 0`.) -/
def locate (lens : List Nat) (index : Nat) : Nat × Option Nat :=
  let indices := offsets lens
  let idxSeq := bisectRight indices index - 1
  if idxSeq = lens.length then (idxSeq, none)
  else (idxSeq, some (index - indices.getD idxSeq 0))

structure Loc where
  seq : Int
  idx : Option Int
  deriving Repr, DecidableEq

/-- `_index(index)` for any Python int.  A still-negative index after `len(self) + index` gives
`bisect_right = 0`, `idx_seq = -1` and `index - indices[-1] = index - len(self)`. -/
def index_ (lens : List Nat) (index : Int) : Loc :=
  let index : Int := if index < 0 then (total lens : Int) + index else index
  if index < 0 then ⟨-1, some (index - (total lens : Int))⟩
  else
    let r := locate lens index.toNat
    ⟨r.1, r.2.map Int.ofNat⟩

/-- `__getitem__(index)` for an int: `self._sequences[seq_idx][idx]`, every `IndexError` re-raised
as `IndexError`.  (`seq[None]` would be a `TypeError`, but `sequences[len(sequences)]` raises first.) -/
def getitem {α : Type} (parts : List (List α)) (index : Int) : Except ErrKind α :=
  let loc := index_ (parts.map List.length) index
  match pyIndex parts loc.seq with
  | .error _ => .error .index
  | .ok s =>
    match loc.idx with
    | none => .error .type
    | some i => pyIndex s i

/-- One `_RangeIterator(self._sequences[seq], start, stop, …)`; `stop = none` is `len(seq)`. -/
structure Rng where
  seq : Nat
  start : Nat
  stop : Option Nat
  deriving Repr, DecidableEq

/-- `slice.indices(n)` restricted to `(start, stop)` with step `None`. -/
def sliceIndices (n : Nat) (a b : Option Int) : Nat × Nat :=
  (clampBound n 0 a, clampBound n n b)

/-- The part of `MergedSequences.slice` after the bounds are normalised to `0 <= s < e <= len(self)`:
`start, stop = self._index(s), self._index(e)` and the list of range iterators that are chained. -/
def rangesBetween (lens : List Nat) (s e : Nat) : List Rng :=
  let start := locate lens s
  let stop := locate lens e
  if start.1 = lens.length then []                         -- `start.seq_idx == len(self._sequences)`
  else if start.1 = stop.1 then [⟨start.1, start.2.getD 0, stop.2⟩]
  else
    ⟨start.1, start.2.getD 0, none⟩
      :: ((List.range' (start.1 + 1) (stop.1 - (start.1 + 1))).map fun s => (⟨s, 0, none⟩ : Rng))
      ++ (match stop.2 with                                 -- `if stop.idx:`
          | some (k + 1) => [⟨stop.1, 0, some (k + 1)⟩]
          | _ => [])

/-- `MergedSequences.slice(slice(a, b))` (repaired): the list of range iterators chained together. -/
def sliceRanges (lens : List Nat) (a b : Option Int) : List Rng :=
  let se := sliceIndices (total lens) a b
  if se.1 ≥ se.2 then []                                   -- `if start >= stop: return iter(())`
  else rangesBetween lens se.1 se.2

/-- What a range iterator yields on a failure-free sequence. -/
def rngElems {α : Type} (parts : List (List α)) (r : Rng) : List α :=
  let p := parts.getD r.seq []
  (p.drop r.start).take ((r.stop.getD p.length) - r.start)

/-- `list(merged[a:b])` on failure-free sequences. -/
def sliceElems {α : Type} (parts : List (List α)) (a b : Option Int) : List α :=
  (sliceRanges (parts.map List.length) a b).flatMap (rngElems parts)

/-- `list(iter(merged))` = `self.slice(slice(None))`. -/
def iterElems {α : Type} (parts : List (List α)) : List α := sliceElems parts none none

/-! ## `_RangeIterator` over a source whose accesses can fail -/

/-- A random-access source: `data[i]` and `data[i:j]`. -/
structure Src (α : Type) where
  get : Nat → Except ErrKind α
  slice : Nat → Nat → Except ErrKind (List α)

/-- State of a `_RangeIterator`: `i`, `_batch_size`, `_cache`. -/
structure RSt (α : Type) where
  i : Nat
  bs : Nat
  cache : List α
  deriving Repr

inductive Outcome (α : Type) where
  | val (a : α)
  | raise (e : ErrKind)
  | stop
  deriving Repr, DecidableEq

/-- Termination measure of the fallback: `0 → 1 → raise`, `bs > 1 → max (bs / 4) 1`. -/
def bsMeasure (bs : Nat) : Nat := if bs = 0 then 2 else if bs = 1 then 0 else bs + 1

set_option linter.unusedVariables false in
/-- The `while not self._cache and self.i < self.stop:` loop of `__next__`, entered with an empty
cache (iter_utils.py:204-224).  Result: the exception that left the loop (if any) and the state. -/
def fill {α : Type} (src : Src α) (stop : Nat) (i bs : Nat) : Option ErrKind × RSt α :=
  if h : i < stop then
    if hb : bs > 1 then
      let b := min (i + bs) stop - i
      match src.slice i (i + b) with
      | .ok l =>
        if l.isEmpty then fill src stop (i + b) bs         -- cache still empty: loop again
        else (none, ⟨i + b, bs, l⟩)
      | .error _ => fill src stop i (max (bs / 4) 1)
    else
      match src.get i with
      | .ok a => (none, ⟨i + bs, bs, [a]⟩)
      | .error e =>
        if hb1 : bs = 1 then (some e, ⟨i + bs, bs, []⟩)  -- skip the index, re-raise
        else fill src stop i (max (bs / 4) 1)
  else (none, ⟨i, bs, []⟩)
termination_by (stop - i, bsMeasure bs)
decreasing_by
  · apply Prod.Lex.left; omega
  · apply Prod.Lex.right
    unfold bsMeasure
    have : bs / 4 < bs := Nat.div_lt_self (by omega) (by omega)
    repeat' split
    all_goals omega
  · apply Prod.Lex.right
    unfold bsMeasure
    have : bs = 0 := by omega
    subst this; simp

/-- `_RangeIterator.__next__`. -/
def next {α : Type} (src : Src α) (stop : Nat) (st : RSt α) : Outcome α × RSt α :=
  match st.cache with
  | a :: c => (.val a, { st with cache := c })
  | [] =>
    let r := fill src stop st.i st.bs
    match r.1 with
    | some e => (.raise e, r.2)
    | none =>
      match r.2.cache with
      | a :: c => (.val a, { r.2 with cache := c })
      | [] => (.stop, r.2)

/-- The outcomes of `n` successive `next` calls. -/
def nexts {α : Type} (src : Src α) (stop : Nat) : Nat → RSt α → List (Outcome α)
  | 0, _ => []
  | n + 1, st => let r := next src stop st; r.1 :: nexts src stop n r.2

/-- One range iterator inside a chain: its source, its stop and its state. -/
structure RIter (α : Type) where
  src : Src α
  stop : Nat
  st : RSt α

/-- `next` of `itertools.chain.from_iterable(iterators)`: an exhausted iterator is dropped, a raising
one stays active. -/
def chainNext {α : Type} : List (RIter α) → Outcome α × List (RIter α)
  | [] => (.stop, [])
  | it :: rest =>
    let r := next it.src it.stop it.st
    match r.1 with
    | .stop => chainNext rest
    | o => (o, { it with st := r.2 } :: rest)

def chainNexts {α : Type} : Nat → List (RIter α) → List (Outcome α)
  | 0, _ => []
  | n + 1, its => let r := chainNext its; r.1 :: chainNexts n r.2

/-- A source given by the outcome of each element access; `data[i:j]` evaluates the elements in
order and raises the first failure, or raises `TypeError` when the source is not sliceable. -/
def firstErr {α : Type} : List (Except ErrKind α) → Except ErrKind (List α)
  | [] => .ok []
  | .ok a :: r => (firstErr r).map (a :: ·)
  | .error e :: _ => .error e

def srcOf {α : Type} (outs : List (Except ErrKind α)) (sliceable : Bool) : Src α where
  get i := match outs[i]? with
    | some r => r
    | none => .error .index
  slice i j := if sliceable then firstErr ((outs.drop i).take (j - i)) else .error .type

/-- The chain of range iterators built by `MergedSequences(parts, max_batch_size).slice(a:b)`;
`max_batch_size or _RANDOM_ACCESS_BATCH_SIZE` (iter_utils.py:254). -/
def mkChain {α : Type} (parts : List (List (Except ErrKind α) × Bool)) (maxBatch : Nat)
    (a b : Option Int) : List (RIter α) :=
  let bs := if maxBatch = 0 then 64 else maxBatch
  (sliceRanges (parts.map (·.1.length)) a b).map fun r =>
    let p := parts.getD r.seq ([], true)
    { src := srcOf p.1 p.2, stop := r.stop.getD p.1.length, st := ⟨r.start, bs, []⟩ }

end MlModel.Merged
