import MlModel.Model.PipeAgg
/-!
# A SLICED aggregation state crossing an API boundary
(`ml_metrics/_src/chainables/transform.py`)

A runner's aggregation state is a `dict[MetricKey, state]` whose key set is DYNAMIC: `create_state()`
has the un-sliced entries `MetricKey(output_key)` only, `update_state` adds `MetricKey(output_key,
SliceKey(..))` the first time a batch shows the slice value (transform.py:328-331).  Such a state is
handed back to the code in three ways (besides `merge_states`, which is `Model/PipeAggShard.lean`):

* `runner.iterate(rest, state=prev.agg_state)` (transform.py:424-458): `state or self.create_state()`,
  then `_RunnerIterator.__init__` (transform.py:130-133) keeps
  `{k: v for k, v in state.items() if k.metrics in self._runner.agg_fns}` — `initFilter`;
* `ChainedRunner.update_state(state, inputs)` (transform.py:598-601):
  `next(it := self.iterate([inputs], state=state)); return it.agg_state` — a new iterator per batch;
* `_RunnerIterator.from_state(state)` (transform.py:166-176): `copy.deepcopy(state.agg_state)` handed to
  `__init__` again (`Model/ResumeSliced.lean`).

The filter by `k.metrics` exists because the state of a CHAINED runner is the union of the states of
all its stages (`_ChainedRunnerIterator.agg_state`, transform.py:531-538), and every stage is handed the
whole union (`ChainedRunner.iterate`, transform.py:655-662).
-/
namespace MlModel.PipeAgg
open MlModel MlModel.Agg

variable {X S Rv : Type}

/-- `k.metrics in self._runner.agg_fns` -/
def ownedBy (P : Pipeline X S Rv) (k : MetricKey) : Bool := P.aggs.any (fun a => a.out = k.metrics)

/-- `_RunnerIterator.__init__` (transform.py:130-133): of the state it is handed the iterator keeps every
entry — un-sliced or per-slice — whose `metrics` names one of the runner's aggregates. -/
def initFilter (P : Pipeline X S Rv) (st : State S) : State S := st.filter (fun e => ownedBy P e.1)

/-- `TransformRunner.iterate(.., state=state)`: `state or self.create_state()` (`None` and the empty dict
are falsy), then `__init__`'s filter -/
def startState (P : Pipeline X S Rv) : Option (State S) → State S
  | none => initFilter P (createState P)
  | some st => if st.isEmpty then initFilter P (createState P) else initFilter P st

/-- `it = runner.iterate(batches, state=state)` exhausted, then `it.agg_state` -/
def iterateWith (P : Pipeline X S Rv) (st : Option (State S)) (bs : List Batch) : Except ErrKind (State S) :=
  runFrom P (startState P st) bs

/-- further `iterate(part, state=previous.agg_state)` calls, each continuing from the `agg_state` of the
previous iterator -/
def carriedFrom (P : Pipeline X S Rv) : State S → List (List Batch) → Except ErrKind (State S)
  | st, [] => .ok st
  | st, part :: parts =>
    match iterateWith P (some st) part with
    | .error e => .error e
    | .ok st' => carriedFrom P st' parts

/-- a stream consumed in several `iterate` calls: `iterate(part₀)` (no state given), then
`iterate(partᵢ, state=previous.agg_state)`; the `agg_state` of the last iterator -/
def carried (P : Pipeline X S Rv) : List (List Batch) → Except ErrKind (State S)
  | [] => .ok (startState P none)
  | part :: parts =>
    match iterateWith P none part with
    | .error e => .error e
    | .ok st => carriedFrom P st parts

/-- `make()`, the parts one `iterate` after the other, then `.agg_result` of the last iterator
(`get_result` of its `agg_state`) -/
def carriedResult (P : Pipeline X S Rv) (parts : List (List Batch)) : Except ErrKind (Result Rv) :=
  match P.validate with
  | .error e => .error e
  | .ok () =>
    match carried P parts with
    | .error e => .error e
    | .ok st => getResult P st

/-- `ChainedRunner.update_state(state, inputs)` for the chain `make()` builds of one transform
(transform.py:598-601): a NEW iterator over `[inputs]` started from `state`, advanced once -/
def updateVia (P : Pipeline X S Rv) (st : State S) (b : Batch) : Except ErrKind (State S) :=
  iterateWith P (some st) [b]

/-- `state = runner.create_state(); for b in batches: state = runner.update_state(state, b)` -/
def foldUpdate (P : Pipeline X S Rv) : State S → List Batch → Except ErrKind (State S)
  | st, [] => .ok st
  | st, b :: bs =>
    match updateVia P st b with
    | .error e => .error e
    | .ok st' => foldUpdate P st' bs

/-- … then `runner.get_result(state)` -/
def foldResult (P : Pipeline X S Rv) (bs : List Batch) : Except ErrKind (Result Rv) :=
  match P.validate with
  | .error e => .error e
  | .ok () =>
    match foldUpdate P (createState P) bs with
    | .error e => .error e
    | .ok st => getResult P st

/-! ### the seeded regressions `C02-m6-carried-state-drops-slice-entries` and
`C10-m5-restore-drops-slice-states` (witnesses only)

Both look the runner's keys up instead of scanning the state: `{k: state[k] for k in map(MetricKey,
agg_fns) if k in state}` resp. `{key: deepcopy(state[key]) for key in create_state()}` — exactly the
un-sliced entries survive. -/

def unslicedOnly (P : Pipeline X S Rv) (st : State S) : State S :=
  P.aggs.filterMap fun a => (AList.get? st ⟨a.out, SliceKey.none⟩).map fun s => (⟨a.out, SliceKey.none⟩, s)

end MlModel.PipeAgg
