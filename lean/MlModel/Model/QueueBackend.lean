import MlModel.Model.Queue
/-!
# The queue BACKEND under `IteratorQueue` and the contract the LTS of `Model/Queue.lean` assumes of it

`IteratorQueue.__init__` (ml_metrics/_src/utils/iter_utils.py:517-530) takes the buffer as a constructor PARAMETER:
an int makes the class build its default (`_default_queue`, :551-555: `queue.SimpleQueue()` for 0, `queue.Queue(n)`
otherwise; `AsyncIteratorQueue._default_queue`, :919-921: `asyncio.Queue(n)`), anything else is used as is
(`_QueueLike`, :47-57: any object with `get_nowait` / `put_nowait` / `empty`).

`Model/Queue.lean` abstracts the buffer to a FIFO list `Shared.q` with a capacity `Shared.cap` (0 = unbounded) and FUSES
what the backend raises with what the code does about it: `put_nowait` on a full buffer is "park on the enqueue
condition and retry" (`Pc.pPut → pWait`), `get_nowait` on an empty one is the internal `Raise.empty`.  In the code these
are two separate things: the backend raises ITS OWN exception class (`queue.Full` / `queue.Empty` for the thread queues,
`asyncio.QueueFull` / `asyncio.QueueEmpty` for the asyncio queue) and four `try` statements of `IteratorQueue`
(`put` :728-740, `get` :698-712, `get_batch` :658-686, `get_nowait` :609-630) decide by the CLASS what happens.

This file states
* `Backend` + `Backend.Contract`: what the LTS assumes of a backend -- an atomic FIFO with capacity whose `put_nowait`
  raises the backend's Full exactly on a full buffer, whose `get_nowait` raises the backend's Empty exactly on an empty
  one, and which raises nothing else; with the three CPython backends as instances (operations written as CPython's);
* `Handlers`: the `except` clauses of the four sites as DATA (classes named, in order, with the role of the body) --
  the table `Generated/QueueExc.lean` is read off the source by `translate/queue_exc.py` on every run;
* the un-fused steps `pPutCode`, `nGetCode`, `afterRaiseCode` = backend call, then clause dispatch by exception class,
  then the body of the clause; an exception no clause claims ESCAPES (`Except.error`): the LTS has no such step.
`Properties/C04Backend.lean` proves that for every backend meeting the contract whose exception classes the table
routes correctly the un-fused steps ARE the LTS steps, and discharges the routing for the generated table by `decide`.
-/
namespace MlModel.QueueBackend
open MlModel.Queue

/-- Exception classes that can reach one of the four sites (`issubclass` lattice: everything below `Exception`,
`Exception` below `BaseException`).  `otherException` stands for any further subclass of `Exception` (the producer's
recorded exception); `unknown` for an expression the table reader could not resolve (it matches nothing). -/
inductive ExcClass where
  | queueEmpty | queueFull | asyncioQueueEmpty | asyncioQueueFull
  | stopIteration | timeoutError | valueError | otherException
  | exception | baseException
  | unknown
  deriving DecidableEq, Repr, Inhabited

/-- `issubclass(raised, handler)` -/
def ExcClass.isSub : ExcClass → ExcClass → Bool
  | .unknown, _ => false
  | _, .unknown => false
  | _, .baseException => true
  | .baseException, _ => false
  | _, .exception => true
  | a, b => a == b

/-- What the body of an `except` clause does (read off the body by the table reader). -/
inductive Role where
  /-- `put` :732-740 — `if self.enqueue_done: break` / `self._enqueue_lock.wait(...)` / `continue`: full = park and retry -/
  | parkFull
  /-- `get` :705-712, `get_batch` :661-679 — the body waits on `self._dequeue_lock`: empty = park and retry -/
  | parkEmpty
  /-- `get_nowait` :615-622 — the `_exhausted` / `enqueue_done` checks, else re-raise the backend's Empty -/
  | exhaustCheck
  /-- `get_batch` :680-686 — `is_stop_iteration(e)` / `ignore_error` / `keep_partial`, else `raise e` -/
  | stopOrError
  /-- the body ends by re-raising what it caught (`get_nowait` :623-628) -/
  | reraise
  | other
  deriving DecidableEq, Repr, Inhabited

structure Clause where
  classes : List ExcClass
  role : Role
  deriving DecidableEq, Repr, Inhabited

/-- The four `try` statements, clauses in source order. -/
structure Handlers where
  put : List Clause
  get : List Clause
  getBatch : List Clause
  getNowait : List Clause
  deriving Repr, Inhabited

/-- Python's `except` dispatch: the first clause one of whose classes the raised class is a subclass of. -/
def dispatch (cs : List Clause) (e : ExcClass) : Option Role :=
  (cs.find? fun c => c.classes.any fun h => e.isSub h).map (·.role)

/-- A buffer implementation: its exception classes and its three non-blocking operations on the abstract content. -/
structure Backend where
  name : String
  /-- what `get_nowait` raises on an empty buffer -/
  emptyExc : ExcClass
  /-- what `put_nowait` raises on a full buffer (`none`: the backend has no capacity, it is never full) -/
  fullExc : Option ExcClass
  /-- capacities (0 = unbounded) the backend can be constructed with -/
  capOk : Nat → Bool
  putNowait : (cap : Nat) → List Elem → Elem → Except ExcClass (List Elem)
  getNowait : List Elem → Except ExcClass (Elem × List Elem)
  isEmpty : List Elem → Bool

/-- `Shared.full` on the bare data -/
def isFull (cap : Nat) (q : List Elem) : Bool := cap != 0 && q.length >= cap

/-- **The contract the LTS assumes of a backend**: an atomic FIFO with capacity that signals full / empty with ITS
exception classes and raises nothing else. -/
structure Backend.Contract (b : Backend) : Prop where
  put_room : ∀ cap q v, b.capOk cap = true → isFull cap q = false → b.putNowait cap q v = .ok (q ++ [v])
  put_full : ∀ cap q v, b.capOk cap = true → isFull cap q = true →
    ∃ f, b.fullExc = some f ∧ b.putNowait cap q v = .error f
  get_cons : ∀ v q, b.getNowait (v :: q) = .ok (v, q)
  get_nil : b.getNowait [] = .error b.emptyExc
  empty_eq : ∀ q, b.isEmpty q = q.isEmpty

/-- `queue.Queue(maxsize)` (CPython Lib/queue.py): `put(item, block=False)`: `if self.maxsize > 0: if self._qsize() >=
self.maxsize: raise Full`, `self._put(item)` (deque.append); `get(block=False)`: `if not self._qsize(): raise Empty`,
`self._get()` (deque.popleft); `empty()`: `not self._qsize()`. -/
def stdQueue : Backend where
  name := "queue.Queue"
  emptyExc := .queueEmpty
  fullExc := some .queueFull
  capOk := fun _ => true
  putNowait := fun maxsize q v =>
    if maxsize > 0 then (if q.length >= maxsize then .error .queueFull else .ok (q ++ [v])) else .ok (q ++ [v])
  getNowait := fun q => match q with | [] => .error .queueEmpty | v :: q' => .ok (v, q')
  isEmpty := fun q => q.length == 0

/-- `queue.SimpleQueue()` (C implementation): unbounded, `put_nowait` never raises; `get_nowait` raises `queue.Empty`. -/
def simpleQueue : Backend where
  name := "queue.SimpleQueue"
  emptyExc := .queueEmpty
  fullExc := none
  capOk := fun cap => cap == 0
  putNowait := fun _ q v => .ok (q ++ [v])
  getNowait := fun q => match q with | [] => .error .queueEmpty | v :: q' => .ok (v, q')
  isEmpty := fun q => q.length == 0

/-- `asyncio.Queue(maxsize)` (CPython Lib/asyncio/queues.py): `put_nowait`: `if self.full(): raise QueueFull` with
`full()`: `if self._maxsize <= 0: return False else: return self.qsize() >= self._maxsize`; `get_nowait`:
`if self.empty(): raise QueueEmpty`, `self._get()` (deque.popleft); `empty()`: `not self._queue`. -/
def asyncioQueue : Backend where
  name := "asyncio.Queue"
  emptyExc := .asyncioQueueEmpty
  fullExc := some .asyncioQueueFull
  capOk := fun _ => true
  putNowait := fun maxsize q v =>
    let full := if maxsize ≤ 0 then false else decide (q.length >= maxsize)
    if full then .error .asyncioQueueFull else .ok (q ++ [v])
  getNowait := fun q => if q.isEmpty then .error .asyncioQueueEmpty else
    match q with | [] => .error .asyncioQueueEmpty | v :: q' => .ok (v, q')
  isEmpty := fun q => q.isEmpty

/-- the backends the constructors of `IteratorQueue` / `AsyncIteratorQueue` build or are documented to take -/
inductive Kind where
  | stdQueue | simpleQueue | asyncioQueue | unknown
  deriving DecidableEq, Repr, Inhabited

def Kind.backend : Kind → Option Backend
  | .stdQueue => some QueueBackend.stdQueue
  | .simpleQueue => some QueueBackend.simpleQueue
  | .asyncioQueue => some QueueBackend.asyncioQueue
  | .unknown => none

def pythonBackends : List Backend := [stdQueue, simpleQueue, asyncioQueue]

/-- class of a `ErrKind` exception object -/
def errClass : ErrKind → ExcClass
  | .stop => .stopIteration
  | .timeout => .timeoutError
  | .value => .valueError
  | _ => .otherException

/-- class of the exception in flight out of `get_nowait`: `Raise.empty` IS the backend's Empty, re-raised (:622) -/
def raiseClass (b : Backend) : Raise → ExcClass
  | .empty => b.emptyExc
  | .stop _ => .stopIteration
  | .err e => errClass e

/-- `put`'s `try: self.put_nowait(value) … except <put clauses>` (:728-740), un-fused: the backend call, then dispatch
by class, then the body of the clause.  `Except.error e`: `e` escapes `put` (no clause, or a clause that does not park). -/
def pPutCode (H : Handlers) (b : Backend) (s : Shared) (t : Thread) (tid : Tid) : Except ExcClass StepResult :=
  if s.enqOwner != some tid then .ok none else
  match b.putNowait s.cap s.q t.v with
  | .ok q' =>
    .ok (some ("put_nowait q1", { s with q := q', produced := s.produced ++ [t.v] }, { t with pc := .pStAcq }))
  | .error e =>
    match dispatch H.put e with
    | some .parkFull =>
      -- `if self.enqueue_done: break` / `if self._enqueue_lock.wait(...)`
      if s.enqueueDone then .ok (some ("put_nowait q1", s, { t with pc := .pExit }))
      else .ok (some ("put_nowait q1", s, { t with pc := .pWait }))
    | _ => .error e

/-- `get_nowait`'s `try: result = self._queue.get_nowait() … except <get_nowait clauses>` (:609-630), un-fused. -/
def nGetCode (H : Handlers) (b : Backend) (c : Caller) (s : Shared) (t : Thread) (tid : Tid) :
    Except ExcClass StepResult :=
  if s.stOwner != some tid then .ok none else
  match b.getNowait s.q with
  | .ok (v, q') =>
    .ok (some ("get_nowait q1", { s with q := q', dequeued := s.dequeued ++ [v] }, { t with pc := .nEmp c, v := v }))
  | .error e =>
    match dispatch H.getNowait e with
    | some .exhaustCheck =>
      if s.exhausted then .ok (some ("get_nowait q1", s, { t with pc := .nRelErr c, x := s.final }))
      else if s.enqueueDone then
        .ok (some ("get_nowait q1", { s with exhausted := true }, { t with pc := .nNaErr c }))
      else .ok (some ("get_nowait q1", s, { t with pc := .nRelErr c, x := .empty }))
    | _ => .error e

/-- What the caller of `get_nowait` (`get` :698-712 / `get_batch` :658-686) does with the exception `x` in flight,
un-fused: dispatch over the caller's clauses by the CLASS of `x`, then the body of the clause. -/
def afterRaiseCode (H : Handlers) (b : Backend) (c : Caller) (x : Raise) (s : Shared) (t : Thread) :
    Except ExcClass (Shared × Thread) :=
  let cls := raiseClass b x
  match c with
  | .get =>
    match dispatch H.get cls with
    | some .parkEmpty => .ok (s, { t with pc := .gWait })
    | none => .ok (s, { t with pc := .gRaise, x := x })      -- no clause: leaves `get` through the `with`
    | some _ => .error cls
  | .batch =>
    match dispatch H.getBatch cls with
    | some .parkEmpty =>
      if (!t.batchBlock && !t.result.isEmpty) || (t.batchBlock && t.result.length == t.batchMax) then
        .ok (s, { t with pc := .bExit })
      else if !t.result.isEmpty then .ok (s, { t with pc := .bR0 })
      else .ok (s, { t with pc := .bEmp })
    | some .stopOrError =>
      let isStop := match x with | .stop _ => true | _ => false
      -- `if (exhausted and result) or (not exhausted and self.ignore_error): break`
      if (isStop && !t.result.isEmpty) || (!isStop && s.ignoreError) then .ok (s, { t with pc := .bExit })
      -- `if keep_partial and result and self._exhausted: break`
      else if s.keepPartial && !t.result.isEmpty && s.exhausted then .ok (s, { t with pc := .bExit })
      else .ok (s, { t with pc := .bRaise, x := x })
    | none => .ok (s, { t with pc := .bRaise, x := x })
    | some _ => .error cls

/-- `nRelErr`: the `finally: self._states_lock.release()` of `get_nowait`, then the caller's handling. -/
def nRelErrCode (H : Handlers) (b : Backend) (c : Caller) (s : Shared) (t : Thread) (tid : Tid) :
    Except ExcClass StepResult :=
  if s.owner .st == some tid then
    match afterRaiseCode H b c t.x (s.setOwner .st none) t with
    | .ok (s', t') => .ok (some (s!"release {Lk.st.name}", s', t'))
    | .error e => .error e
  else .ok none

/-- One step of a thread over backend `b` with the handler table `H`: the three sites that look at exception classes
are the un-fused ones, every other step is the LTS's. -/
def stepThreadB (H : Handlers) (b : Backend) (s : Shared) (t : Thread) (tid : Tid) (alt : Bool) :
    Except ExcClass StepResult :=
  match t.pc with
  | .pPut => if alt then .ok none else pPutCode H b s t tid
  | .nGet c => if alt then .ok none else nGetCode H b c s t tid
  | .nRelErr c => if alt then .ok none else nRelErrCode H b c s t tid
  | _ => .ok (stepThread s t tid alt)

/-- One scheduler choice over backend `b`. -/
def stepB (H : Handlers) (b : Backend) (c : Cfg) (tid : Tid) (alt : Bool) : Except ExcClass (Option (String × Cfg)) :=
  match c.ths[tid]? with
  | none => .ok none
  | some t =>
    match stepThreadB H b c.sh t tid alt with
    | .error e => .error e
    | .ok none => .ok none
    | .ok (some (lbl, s', t')) => .ok (some (lbl, { sh := s', ths := c.ths.set tid t' }))

/-- The routing the four sites need for backend `b` (a decidable table check):
* the backend's Empty reaches the exhaustion checks of `get_nowait` and is "empty: park and retry" for `get` / `get_batch`;
* the backend's Full (if it has one) is "full: park and retry" for `put`;
* nothing else is: `StopIteration` and the recorded exceptions leave `get` un-handled and reach `get_batch`'s
  stop / error clause. -/
def classified (H : Handlers) (b : Backend) : Bool :=
  dispatch H.getNowait b.emptyExc == some .exhaustCheck
  && dispatch H.get b.emptyExc == some .parkEmpty
  && dispatch H.getBatch b.emptyExc == some .parkEmpty
  && (match b.fullExc with | some f => dispatch H.put f == some .parkFull | none => true)
  && [ExcClass.stopIteration, .timeoutError, .valueError, .otherException].all fun e =>
      dispatch H.get e == none && dispatch H.getBatch e == some .stopOrError

end MlModel.QueueBackend
