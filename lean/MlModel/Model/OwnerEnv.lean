import MlModel.Model.Owner
import MlModel.Model.Registry
/-!
# Ownership LTS × liveness environment (C20, schedule replay) — core Lean only

The product of the ownership LTS (`Model/Owner.lean`) with a concurrent model of what its
capacity / liveness oracle stands for in the real code:

* the process-wide `WorkerRegistry` (`Registry.Reg`, the functions of `Model/Registry.lean`) guarded by
  its own lock `rl` — every `register` / `refresh` / `unregister` / `get` is `acquire RL; release RL`
  (the dictionary access is fused into the acquiring step: nobody else can touch it until the release);
* per worker the client state `_pendings` / `_heartbeat` (`Client`), the transport's calls with
  their status and the queue of undelivered calls (fake courier in *manual* mode: a reply is
  delivered when an environment thread chooses to — late, failed, or never);
* the virtual clock `now` and the heartbeat threshold `thr`;
* **environment threads** running scripts of `EOp`: `die w` (= `unregister`), `revive w`
  (= `register(w, now)`), `send w alive` (a `heartbeat(sender = w, is_alive)` call to the master's
  server, handled by the real `CourierServer._heartbeat` when delivered), `deliver k fail`, `tick d`.

`has_capacity` = `cEnter` (the list comprehension over `_pendings` runs right after the lock is
taken: `Micro.cap b`) ; `cExit` (returns `b`).  `is_alive` = `iEnter` (take `_states_lock`, start the
loop of `_is_heartbeat_fresh`) ; for every finished pending call that did not fail `acquire RL`
(`refresh`) ; `release RL` ; then `acquire RL` (`get`) ; `release RL` (verdict `now₀ - last < thr`,
where `now₀` was read before the `get`; on a negative verdict `_check_heartbeat` may send a ping,
which occupies the worker's only slot until it is delivered) ; `iExit` (returns the verdict).
While a thread is between `iEnter` and `iExit` its `Owner` program point does not move: the
registry-lock steps are *stuttering* steps for the ownership LTS, and the value finally returned is
the `Owner` oracle's value at `cExit` / `iExit` — so every execution of the product projects to an
execution of `Owner` (`Lemmas/OwnerEnv.lean: XReach_base`) and inherits all its theorems.

**Composite operations (round 6).**  `WorkerPool.run` and `WorkerPool.call_and_wait` are programs of the product, executed
step by step by a per-thread controller (`Ctl`): their own yield points are the clock reads of courier_worker.py
(`time.time()` — the clock is shared with the environment's `tick`), every `time.sleep`, `futures.wait([state])` (blocked until
the call has been answered) and the `done()` polls of `courier_worker.wait` (each blocked until its call is done: the busy loop
reads nothing else); between two of them the operation executes one *piece* — a primitive operation of the ownership LTS
(`aliveWorkers`, `nextIdle`, `submitW`, `acquireAllCall`, `finalize`).  The spin loops are loops of the controller whose exits are
clock / environment choices (`now - start > 180`, a worker became alive, a reply arrived).  The base thread's script is a
*prophecy* of the pieces: the controller starts a piece only if it is the next operation of the script (`startPiece`), so every
execution of the product still projects to an execution of `Owner` step by step, and for every behaviour of the controller there
is a script that lets it through (the driver computes it and re-runs the schedule against it).  Every way out of the `try:` of the
two operations goes through the piece `finalize p` (`Ctl.fin`); `run` that fails in `wait_until_alive` — before its `try:` — ends in
`Ctl.rErr` (not started).

`xstep?` is deterministic once the thread is chosen: a schedule `List Tid` replays exactly
(`xrun`); the harness compares labels, enabled sets and outcomes with the real code step by step.
-/
namespace MlModel.OwnerEnv
open MlModel.Owner

abbrev Time := Registry.Time

/-- status of a call's future -/
inductive CSt where
  | queued | ok | failed
  | cancelled        -- `future.cancel()` by `CourierClient.shutdown` before the reply: done, `exception()` raises `CancelledError`
  deriving DecidableEq, Repr

def CSt.done : CSt → Bool
  | .queued => false
  | _ => true

inductive Meth where
  | plain (w : Wid)                 -- `worker.call(..)`: an ordinary RPC to worker `w`
  | taskRaise (w : Wid)             -- a `maybe_make` call whose task raises at the worker: a delivered reply carries the exception
  | ping (w : Wid)                  -- `_check_heartbeat`: `heartbeat()` to worker `w` (no sender)
  | hb (w : Wid) (alive : Bool)     -- `heartbeat(sender = w, is_alive)` to the master's server
  | shutdownC (w : Wid)             -- `self._client.futures.shutdown()` of `CourierClient.shutdown` (kept in `self.state` only)
  deriving DecidableEq, Repr

/-- `StateWithTime`: call id and *send* time. -/
structure Pend where
  call : Nat
  time : Time
  deriving DecidableEq, Repr

structure Client where
  pend : List Pend := []
  hb : Option Pend := none
  deriving Repr

/-- operations of environment threads -/
inductive EOp where
  | die (w : Wid)                       -- `worker_registry().unregister(addr_w)`
  | revive (w : Wid)                    -- `worker_registry().register(addr_w, time.time())`
  | send (w : Wid) (alive : Bool)       -- submit `heartbeat(addr_w, alive)` to the master (delivered later)
  | deliver (k : Nat) (fail : Bool)     -- the transport delivers (or fails) the k-th queued call now
  | tick (d : Nat)                      -- the clock advances
  | shutdown (w : Wid)                  -- `workers[w].shutdown()` (courier_utils.py:815–821): submit `shutdown`, cancel and forget the pendings — WITHOUT `_states_lock` —, then `unregister`
  deriving DecidableEq, Repr

/-- Thread-local state between two yield points (inside `has_capacity` / `is_alive` / an environment op). -/
inductive Micro where
  | idle
  | cap (b : Bool)                                  -- `pendings` computed; about to release `_states_lock`
  | foldAcq (p : Pend) (todo keep : List Pend)      -- about to `refresh(addr, p.time)`: acquire RL
  | foldRel (todo keep : List Pend)                 -- inside `refresh`: about to release RL
  | getAcq (now0 : Time)                            -- clock read; about to `get`: acquire RL
  | getRel (now0 last : Time)                       -- inside `get`: about to release RL
  | exit (b : Bool)                                 -- verdict known; about to release `_states_lock`
  | dieAcq (w : Wid) | dieRel
  | revAcq (w : Wid) (t : Time) | revRel
  | hbAcq (id : Nat) (w : Wid) (alive : Bool) (t : Time) | hbRel (id : Nat)
  | strAcq (m : Nat) | strRel (m : Nat)   -- `str(w)` of `m` more unconnected workers (error message of `wait_until_alive`): `get` under RL
  deriving DecidableEq, Repr

/-- How a composite operation ended. -/
inductive Outc where
  | ok            -- returned
  | raised        -- the task raised at the worker, or its reply was an error
  | noWorker      -- `run`: `ValueError('No worker is available.')` after 180 s
  | notStarted    -- `run`: `wait_until_alive()` failed before the `try:` (no live worker for 180 s)
  | disconnected  -- `run`: `worker.submit` → `wait_until_alive` of the chosen worker failed (`RuntimeError`)
  | closed        -- `as_completed`: the consumer closed the generator at a `yield` (`GeneratorExit`)
  deriving DecidableEq, Repr

/-- The program of a pool thread: primitive operations of the ownership LTS and composite operations. -/
inductive TOp where
  | prim
  | run (p : Pid) (raises : Bool)           -- `pool.run(task)`; `raises`: the task raises at the worker
  | callAndWait (p : Pid) (raises : Bool)   -- `pool.call_and_wait(task)`
  | submitNB (p : Pid) (w : Wid) (raises : Bool)   -- `w.submit(task)` with a non-blocking task (what `as_completed` does, orchestrate.py:497)
  | asCompleted (p : Pid) (tasks : List Bool) (ignore : Bool) (take : Option Nat) (fixed : Bool)
      -- round 11: `for r in orchestrate.as_completed(pool, tasks, ignore_failures=ignore)`: `tasks` = which tasks raise at the worker;
      -- the consumer closes the generator after `take` results; `fixed` = the repaired code (`release_all(unused)` only for a non-empty set)
  deriving DecidableEq, Repr

/-! ### `orchestrate.as_completed` as a program (round 11) — orchestrate.py:474–557

Local state of the generator frame.  Sets (`preferred`, `running`, `acquired`, `reserved`, `unused_workers`) are duplicate-free
lists; the order in which the code iterates a set, `random.shuffle` and `random.sample` are ENVIRONMENT choices: the controller
accepts every order / sample the Python semantics allows (`legalOrder`, `legalUnused`) and reads the chosen one off the prophecy
(the next operation of the thread's script), exactly as the pieces of `run` / `call_and_wait` are. -/

/-- a submitted task: does it raise at the worker, on which worker, which call is its future -/
structure ARun where
  raises : Bool
  w : Wid
  call : Nat
  deriving DecidableEq, Repr

/-- Program points of `as_completed`: *inside (or just after)* a piece, or just after a `task.done()` poll. -/
inductive APc where
  | alive1                                              -- in `worker_pool.workers` of `if not worker_pool.workers:` (488)
  | alive2                                              -- in `worker_pool.workers` of `set(worker_pool.workers) - preferred` (490)
  | next                                                -- in `worker_pool.next_idle_worker(workers, maybe_acquire=True)` (494)
  | sub (w : Wid) (raises : Bool)                       -- in `worker.submit(tasks.pop())` (504): pieces `submitW`
  | polled (r : ARun) (st : CSt) (todo still : List ARun)   -- `task.done()` of `r` was just read (509): `st` = its future then
  | isAl (r : ARun) (todo still : List ARun)            -- in `task.is_alive` (528)
  | acq                                                 -- in `worker_pool.acquired_workers` (545)
  | rel                                                 -- in `worker_pool.release_all(unused_workers)` (553)
  deriving DecidableEq, Repr

structure AC where
  p : Pid
  ignore : Bool := false             -- `ignore_failures`
  fixed : Bool := true               -- repaired code: `release_all(unused_workers)` only when the set is non-empty
  take : Option Nat := none          -- the consumer closes the generator after this many results
  todo : List Bool := []             -- `task_iterator`: the tasks not drawn yet
  exhausted : Bool := false
  tasks : List Bool := []            -- retry stack `tasks` (head = Python's last element)
  running : List ARun := []          -- `running_tasks`
  preferred : List Wid := []         -- `preferred` (a set)
  yielded : Nat := 0
  ws : List Wid := []                -- `workers` of the current round of the outer loop
  pc : APc
  deriving DecidableEq, Repr

/-- Program points of the composite operations *between* two pieces (courier_worker.py:287–321, 323–337, 410–430;
courier_utils.py:594–611, 715–727). -/
inductive Ctl where
  | idle
  | rTick (p : Pid) (r : Bool)                       -- `ticker = time.time()` (pool.wait_until_alive)
  | rCond (p : Pid) (r : Bool) (ticker : Time)       -- `while time.time() - ticker < 180`
  | rAlive (p : Pid) (r : Bool) (ticker : Time)      -- in `self.workers`; then `return` / `time.sleep(0)`
  | rErr (p : Pid)                                   -- in the error message (`self.workers` twice); then `raise ValueError`
  | rNext (p : Pid) (r : Bool) (st : Time)           -- in `next_idle_worker(maybe_acquire=True)`; then `time.sleep(0)`
  | rClockN (p : Pid) (r : Bool) (st : Time) (w : Option Wid)   -- `time.time() - start_time > 180`
  | rSub (p : Pid) (r : Bool) (w : Wid)              -- in `worker.submit(task)` (a piece `submitW`); then sleep / wait
  | fin (p : Pid) (o : Outc)                         -- in `finally: self.release_all()`
  | cAcq (p : Pid) (r : Bool)                        -- `call_and_wait`: in `_acquire_all()` + the calls; then `start_time = time.time()`
  | cWait (p : Pid) (r : Bool) (todo : List Nat)     -- `courier_worker.wait`: polling `done()` of the remaining calls
  | sSub (p : Pid) (r : Bool) (w : Wid)              -- in `w.submit(task)` called on its own (a piece `submitW`); then sleep / return
  | ac (a : AC)                                      -- in the body of `orchestrate.as_completed` (round 11)
  deriving DecidableEq, Repr

structure Env where
  reg : Registry.Reg := Registry.Reg.empty
  rl : Option Tid := none                  -- holder of `WorkerRegistry._lock`
  now : Time := 0
  thr : Time := 0
  calls : List (Meth × CSt) := []          -- index = call id
  queue : List Nat := []                   -- undelivered calls in submission order
  clients : Wid → Client := fun _ => {}
  mic : Tid → Micro := fun _ => .idle
  escript : Tid → List EOp := fun _ => []
  mp : Wid → Nat := fun _ => 1             -- `max_parallelism` of the worker
  prog : Tid → List TOp := fun _ => []     -- programs of pool threads (`[]`: the base script is a list of primitives, as before)
  ctl : Tid → Ctl := fun _ => .idle
  outs : Tid → List Outc := fun _ => []    -- outcomes of the finished composite operations
  sticker : Tid → Time := fun _ => 0       -- `ticker` of `CourierClient.wait_until_alive` (read when its first `is_alive` returned False)
  tcalls : Tid → List Nat := fun _ => []   -- calls submitted by the thread's current composite operation
  lastAlive : Tid → Bool := fun _ => false -- value of the last `is_alive` the thread evaluated (what `task.is_alive` hands to `as_completed`)
  acRaced : Tid → Bool := fun _ => false   -- `as_completed`: `task.state.set_exception(..)` met a future that had completed meanwhile (`InvalidStateError`)

def Env.callSt (e : Env) (i : Nat) : CSt := (e.calls[i]?.map (·.2)).getD .queued

def setMic (e : Env) (t : Tid) (m : Micro) : Env := { e with mic := upd e.mic t m }

/-- `has_capacity`: `len([p for p in self._pendings if not p.state.done()]) < self.max_parallelism`. -/
def capacity (e : Env) (w : Wid) : Bool :=
  decide (((e.clients w).pend.filter fun p => !(e.callSt p.call).done).length < e.mp w)

/-- The loop of `_is_heartbeat_fresh` (courier_utils.py:618–629) from its current position: skip
failed calls, keep unfinished ones, stop at the first finished call that did not fail (it is
`refresh`ed next). -/
def scan (st : Nat → CSt) : List Pend → List Pend → Option (Pend × List Pend) × List Pend
  | [], keep => (none, keep)
  | p :: ps, keep =>
    match st p.call with
    | .ok => (some (p, ps), keep)
    | .failed | .cancelled => scan st ps keep      -- (`CancelledError` is caught: courier_utils.py:624–626)
    | .queued => scan st ps (keep ++ [p])

/-- Position reached by the loop: either the next `refresh`, or its end (`self._pendings = still_pendings`,
`time.time()` read, about to call `get`). -/
def afterScan (e : Env) (t : Tid) (w : Wid) (r : Option (Pend × List Pend) × List Pend) : Env :=
  match r with
  | (some (p, rest), keep) => setMic e t (.foldAcq p rest keep)
  | (none, keep) =>
    setMic { e with clients := upd e.clients w { e.clients w with pend := keep } } t (.getAcq e.now)

def Env.submit (e : Env) (m : Meth) : Env × Nat :=
  ({ e with calls := e.calls ++ [(m, .queued)], queue := e.queue ++ [e.calls.length] }, e.calls.length)

/-- `_check_heartbeat` (courier_utils.py:568–583) sends a ping iff none was sent yet, or the last one
is finished and older than the heartbeat interval. -/
def needPing (e : Env) (w : Wid) : Bool :=
  match (e.clients w).hb with
  | none => true
  | some h => (e.callSt h.call).done && decide (e.now - h.time > Registry.hbInterval)

/-- The ping: a new call, remembered as `_heartbeat` and in `_pendings` (it occupies the worker's slot). -/
def pingEnv (e : Env) (w : Wid) : Env :=
  { e with calls := e.calls ++ [(.ping w, .queued)], queue := e.queue ++ [e.calls.length],
           clients := upd e.clients w { pend := (e.clients w).pend ++ [⟨e.calls.length, e.now⟩],
                                        hb := some ⟨e.calls.length, e.now⟩ } }

/-- After `get`: the verdict (courier_utils.py:630) and, if negative, `_check_heartbeat`. -/
def finishAlive (e : Env) (t : Tid) (w : Wid) (now0 last : Time) : Env :=
  if Registry.fresh now0 last e.thr then setMic e t (.exit true)
  else setMic (if needPing e w then pingEnv e w else e) t (.exit false)

/-- The task of the composite operation thread `t` is inside raises at the worker. -/
def taskRaises (e : Env) (t : Tid) : Bool :=
  match e.ctl t with
  | .rSub _ r _ => r
  | .cAcq _ r => r
  | .sSub _ r _ => r
  | .ac a => (match a.pc with | .sub _ r => r | _ => false)
  | _ => false

/-- `worker.call(..)` inside its `with self._states_lock:` (courier_utils.py:652–656); the call is remembered as one of
the calls of the thread's composite operation. -/
def submitPlain (e : Env) (t : Tid) (w : Wid) : Env :=
  { e with calls := e.calls ++ [(if taskRaises e t then .taskRaise w else .plain w, .queued)],
           queue := e.queue ++ [e.calls.length],
           clients := upd e.clients w { e.clients w with pend := (e.clients w).pend ++ [⟨e.calls.length, e.now⟩] },
           tcalls := upd e.tcalls t (e.tcalls t ++ [e.calls.length]) }

def setCall (e : Env) (id : Nat) (s : CSt) : Env :=
  { e with calls := e.calls.modify id fun c => (c.1, s) }

/-- Begin an environment operation (everything up to its first lock operation). -/
def startE (e : Env) (t : Tid) : EOp → Env
  | .die w => setMic e t (.dieAcq w)
  | .revive w => setMic e t (.revAcq w e.now)
  | .send w al => (e.submit (.hb w al)).1
  | .tick d => { e with now := e.now + d }
  | .shutdown w =>
    let ids := (e.clients w).pend.map (·.call)
    let e1 := (e.submit (.shutdownC w)).1
    setMic { e1 with calls := e1.calls.mapIdx (fun i c => if ids.contains i && c.2 == .queued then (c.1, .cancelled) else c),
                     clients := upd e1.clients w { e1.clients w with pend := [] } } t (.dieAcq w)
  | .deliver k fail =>
    match e.queue with
    | [] => e
    | q =>
      let j := k % q.length
      let id := q.getD j 0
      let e1 := { e with queue := q.eraseIdx j }
      if (e.callSt id).done then e1                  -- a cancelled call runs no handler and stays cancelled; a future completed by hand (`as_completed`: `set_exception`) keeps its state
      else if fail then setCall e1 id .failed
      else match e.calls[id]? with
        | some (.hb w al, _) => setMic e1 t (.hbAcq id w al e.now)
        | some (.taskRaise _, _) => setCall e1 id .failed
        | some (.shutdownC _, _) => setCall e1 id .failed    -- the transport endpoints of the sched families bind no `shutdown`
        | _ => setCall e1 id .ok

/-- One step of an environment thread. -/
def estep (e : Env) (t : Tid) : Option Env :=
  match e.mic t with
  | .dieAcq w =>
    if e.rl = none then some (setMic { e with rl := some t, reg := Registry.unregister e.reg w } t .dieRel) else none
  | .dieRel => some (setMic { e with rl := none } t .idle)
  | .revAcq w tm =>
    if e.rl = none then some (setMic { e with rl := some t, reg := Registry.register e.reg w tm } t .revRel) else none
  | .revRel => some (setMic { e with rl := none } t .idle)
  | .hbAcq id w al tm =>
    if e.rl = none then
      some (setMic { e with rl := some t, reg := Registry.run e.reg (Registry.heartbeatEvents tm (some w) al) } t (.hbRel id))
    else none
  | .hbRel id => some (setMic (setCall { e with rl := none } id .ok) t .idle)
  | .idle =>
    match e.escript t with
    | [] => none
    | op :: s => some (startE { e with escript := upd e.escript t s } t op)
  | _ => none

structure X where
  base : Cfg
  env : Env

/-- A composite operation ends when its last piece does: the `finally: release_all()` (`fin`), or the error message
of a `run` that did not start (`rErr`). -/
def settle (e : Env) (t : Tid) (idleNow : Bool) (res : Option Res := none) : Env :=
  if idleNow then
    match e.ctl t with
    | .fin _ o => { e with ctl := upd e.ctl t .idle, outs := upd e.outs t (e.outs t ++ [o]) }
    | .rErr _ => { e with ctl := upd e.ctl t .idle, outs := upd e.outs t (e.outs t ++ [.notStarted]) }
    | .sSub _ _ _ =>      -- a `submit` on its own returns as soon as the call has been made
      if res = some .unit then { e with ctl := upd e.ctl t .idle, outs := upd e.outs t (e.outs t ++ [.ok]) } else e
    | _ => e
  else e

/-- An `Owner` step of thread `t` under the oracle value `b`, with an update of the environment. -/
def ostep (pw : Pid → List Wid) (x : X) (t : Tid) (b : Bool) (f : Env → Env) : Option X :=
  (step? pw (fun _ => b) x.base t).map fun c' => ⟨c', settle (f x.env) t (c'.T t).cur.isNone (c'.T t).results.getLast?⟩

/-- Start the piece `op` of a composite operation: it must be the next operation of the thread's script. -/
def startPiece (pw : Pid → List Wid) (x : X) (t : Tid) (op : Op) (f : Env → Env) : Option X :=
  match (x.base.T t).script with
  | op' :: _ => if op' = op then ostep pw x t false f else none
  | [] => none

def setCtl (e : Env) (t : Tid) (c : Ctl) : Env := { e with ctl := upd e.ctl t c }

/-- `ticker = time.time()` of `CourierClient.wait_until_alive`, read in the step in which its first `is_alive` returned False;
and the `str(w)` reads that follow the first evaluation of `self.workers` in the error message of `pool.wait_until_alive`. -/
def afterAlive (e : Env) (t : Tid) (k : K) (b : Bool) : Env :=
  match k with
  | .subI _ _ false => if b then setMic e t .idle else setMic { e with sticker := upd e.sticker t e.now } t .idle
  | .aliveU _ _ [] acc (some ws2) =>
    let m := min 3 (ws2.length - ((if b then 1 else 0) + acc.length))
    setMic e t (if m = 0 then .idle else .strAcq m)
  | _ => setMic e t .idle

/-- What the step that returns the verdict `b` of `is_alive` does besides (`afterAlive`): the verdict is remembered for the
caller; and when the caller is `as_completed` evaluating `task.is_alive` (orchestrate.py:528–537) and the verdict is negative, the
thread-local code up to the next yield point runs in this very step: `task.state.set_exception(TimeoutError(..))` — the future is
completed by hand (a later delivery does not change it), or, if it has completed since the `done()` poll, `InvalidStateError`. -/
def afterAliveAC (e : Env) (t : Tid) (k : K) (b : Bool) : Env :=
  let e1 := { afterAlive e t k b with lastAlive := upd e.lastAlive t b }
  match e.ctl t with
  | .ac a =>
    match a.pc with
    | .isAl r _ _ =>
      if b then e1
      else if (e.callSt r.call).done then { e1 with acRaced := upd e1.acRaced t true }
      else { setCall e1 r.call .failed with acRaced := upd e1.acRaced t false }
    | _ => e1
  | _ => e1

def lastRes (x : X) (t : Tid) : Option Res := (x.base.T t).results.getLast?

def allDone (e : Env) (ids : List Nat) : Bool := ids.all fun i => (e.callSt i).done
def anyFailed (e : Env) (ids : List Nat) : Bool := ids.any fun i => e.callSt i == .failed || e.callSt i == .cancelled

/-! #### the controller of `as_completed` -/

def nodupB : List Nat → Bool
  | [] => true
  | a :: l => !l.contains a && nodupB l

/-- `workers = list(itertools.chain(preferred, backup_workers))` with `backup_workers = list(set(worker_pool.workers) - preferred)`
shuffled (orchestrate.py:490–492): the preferred workers in some order, then the other live workers in some order. -/
def legalOrder (preferred alive ws : List Wid) : Bool :=
  (ws.take preferred.length).isPerm preferred &&
    (ws.drop preferred.length).isPerm (alive.eraseDups.filter fun w => !preferred.contains w)

/-- `unused_workers = acquired - running - reserved` iterated in some order, where `reserved` is a `random.sample` of `k` of the
`candidates` (orchestrate.py:544–553; `free` = `acquired - running`): `ws` is duplicate-free, inside `free`, what it leaves out of
`free` are candidates, and their number is compatible with a sample of size `k` (the rest of the sample lies outside `free`). -/
def legalUnused (free cand : List Wid) (k : Nat) (ws : List Wid) : Bool :=
  let kept := free.filter fun w => !ws.contains w
  nodupB ws && ws.all (fun w => free.contains w) && kept.all (fun w => cand.contains w) &&
    decide (kept.length ≤ k) && decide (k ≤ kept.length + (cand.filter fun w => !free.contains w).length)

/-- What a step of the controller does: an update of the controller and — unless the step is the `task.done()` poll — the piece it starts. -/
structure AAct where
  piece : Option Op
  ctl : Ctl
  reset : Bool := false       -- `tcalls` of the thread is emptied (a new `submit` begins)

/-- every way out of the `try:` — `finally: worker_pool.release_all()` (555–557) -/
def AC.leave (a : AC) (o : Outc) : AAct := { piece := some (.finalize a.p), ctl := .fin a.p o }

/-- `time.sleep(0.0)` (554, no yield point), then `while not exhausted or tasks or running_tasks:` (486) and `worker_pool.workers` (488) -/
def AC.top (a : AC) : AAct :=
  if !a.exhausted || !a.tasks.isEmpty || !a.running.isEmpty then
    { piece := some (.aliveWorkers a.p false), ctl := .ac { a with pc := .alive1 } }
  else a.leave .ok

/-- `if exhausted and not tasks:` (543) → `worker_pool.acquired_workers` (545) -/
def AC.release (a : AC) : AAct :=
  if a.exhausted && a.tasks.isEmpty then { piece := some (.acquiredWorkers a.p), ctl := .ac { a with pc := .acq } }
  else a.top

/-- `for task in running_tasks:` (508) at the tasks `todo`: poll `task.done()` of the next one (a yield point of its own: the
future is shared with the transport), or leave the loop (`running_tasks = still_running`, 540). -/
def AC.check (st : Nat → CSt) (a : AC) : List ARun → List ARun → AAct
  | [], still => ({ a with running := still }).release
  | r :: todo, still => { piece := none, ctl := .ac { a with pc := .polled r (st r.call) todo still } }

/-- `while (tasks or not exhausted) and (worker := worker_pool.next_idle_worker(workers, maybe_acquire=True)):` (493–495) -/
def AC.submitHead (st : Nat → CSt) (a : AC) : AAct :=
  if !a.tasks.isEmpty || !a.exhausted then
    { piece := some (.nextIdle a.p a.ws true), ctl := .ac { a with pc := .next } }
  else a.check st a.running []

/-- `if not tasks and not exhausted: try: tasks.append(next(task_iterator)) except StopIteration: exhausted = True` (497–502) -/
def AC.draw (a : AC) : AC :=
  if a.tasks.isEmpty && !a.exhausted then
    match a.todo with
    | [] => { a with exhausted := true }
    | k :: rest => { a with tasks := [k], todo := rest }
  else a

/-- `acquired - running` (552) -/
def AC.free (a : AC) (acquired : List Wid) : List Wid := acquired.filter fun w => !(a.running.map (·.w)).contains w

/-- `candidates := list(preferred - running or acquired - running)` (548) -/
def AC.cand (a : AC) (acquired : List Wid) : List Wid :=
  if (a.preferred.filter fun w => !(a.running.map (·.w)).contains w).isEmpty then a.free acquired
  else a.preferred.filter fun w => !(a.running.map (·.w)).contains w

/-- `num_reserved_workers = min(len(running - preferred), len(candidates))` (550) -/
def AC.nres (a : AC) (acquired : List Wid) : Nat :=
  min ((a.running.map (·.w)).eraseDups.filter fun w => !a.preferred.contains w).length (a.cand acquired).length

/-- `worker_pool.release_all(unused_workers)` (553).  The set `unused_workers` and its iteration order are the environment's choice
(read off the prophecy).  Unrepaired code: the call is always made — with an EMPTY set `release_all` releases every worker of the
pool (`workers = workers or self._workers`).  Repaired code (`fixed`): the call is made only for a non-empty set. -/
def AC.relPlan (a : AC) (head : Option Op) (free cand : List Wid) (k : Nat) : Option AAct :=
  match head with
  | some (.releaseAll q ws) =>
    if q = a.p ∧ legalUnused free cand k ws = true ∧ (a.fixed = true → ws ≠ []) then
      some { piece := some (.releaseAll a.p ws), ctl := .ac { a with pc := .rel } }
    else if a.fixed = true ∧ legalUnused free cand k [] = true then some a.top else none
  | _ => if a.fixed = true ∧ legalUnused free cand k [] = true then some a.top else none

/-- The next yield point of `as_completed` from its program point `a.pc`: `head` = the next operation of the thread's script (the
prophecy: it carries the environment's choices), `last` = the value of the piece that has just ended, `st` = the futures,
`alive` / `raced` = what the last `task.is_alive` found, `live` = `time.time() - ticker < heartbeat_threshold_secs` inside `submit`,
`lastCall` = the call `submit` has just made. -/
def acPlan (a : AC) (head : Option Op) (last : Option Res) (st : Nat → CSt) (alive raced live : Bool) (lastCall : Nat) :
    Option AAct :=
  match a.pc with
  | .alive1 =>
    match last with
    | some (.workers []) => some (a.leave .noWorker)      -- `raise TimeoutError('All workers timeout, ..')` (489)
    | some (.workers _) => some { piece := some (.aliveWorkers a.p false), ctl := .ac { a with pc := .alive2 } }
    | _ => none
  | .alive2 =>
    match last with
    | some (.workers l) =>
      if !a.tasks.isEmpty || !a.exhausted then
        match head with
        | some (.nextIdle q ws true) =>
          if q = a.p ∧ legalOrder a.preferred l ws = true then some (({ a with ws := ws }).submitHead st) else none
        | _ => none
      else some (a.check st a.running [])
    | _ => none
  | .next =>
    match last with
    | some (.worker none) => some (a.check st a.running [])
    | some (.worker (some w)) =>
      match a.draw.tasks with
      | [] => some (a.draw.submitHead st)
      | k :: rest =>      -- `running_tasks.append(worker.submit(tasks.pop()))` (504)
        some { piece := some (.submitW a.p w 0), reset := true, ctl := .ac { a.draw with tasks := rest, pc := .sub w k } }
    | _ => none
  | .sub w k =>
    match last with
    | some .unit => some (({ a with running := a.running ++ [ARun.mk k w lastCall], pc := .next }).submitHead st)
    | some (.code 1) =>      -- `time.sleep(0.1)`, then the deadline of `wait_until_alive` (courier_utils.py:603–611)
      if live then some { piece := some (.submitW a.p w 1), ctl := .ac a } else some (a.leave .disconnected)
    | some (.code _) => some { piece := some (.submitW a.p w 2), ctl := .ac a }      -- `while not self.has_capacity: time.sleep(0)`
    | _ => none
  | .polled r s todo still =>
    match s with
    | .queued => some { piece := some (.isAliveW a.p r.w), ctl := .ac { a with pc := .isAl r todo still } }   -- `elif not task.is_alive:` (528)
    | .ok =>             -- `preferred.add(task.worker); yield task.result()` (526–527)
      let a1 := { a with preferred := if a.preferred.contains r.w then a.preferred else a.preferred ++ [r.w],
                         yielded := a.yielded + 1 }
      if a.take = some a1.yielded then some (({ a1 with running := still ++ todo }).leave .closed)
      else some (a1.check st todo still)
    | .cancelled => some (a.leave .raised)      -- `task.exception()` raises `CancelledError`
    | .failed =>         -- `preferred.discard(task.worker)`; not a timeout (the transport's failures are application errors)
      let a1 := { a with preferred := a.preferred.filter fun w => w != r.w }
      if a.ignore then some (a1.check st todo still) else some (a1.leave .raised)
  | .isAl r todo still =>
    if raced then some (a.leave .raised)        -- `InvalidStateError` from `set_exception`
    else if alive then some (a.check st todo (still ++ [r]))
    else some (({ a with tasks := r.raises :: a.tasks }).check st todo still)      -- `tasks.append(task.set(_exc=None))` (537)
  | .acq =>
    match last with
    | some (.workers acquired) => a.relPlan head (a.free acquired) (a.cand acquired) (a.nres acquired)
    | _ => none
  | .rel => some a.top

/-- Execute a planned step. -/
def acEnv (t : Tid) (act : AAct) (e : Env) : Env :=
  setCtl { e with tcalls := if act.reset then upd e.tcalls t [] else e.tcalls } t act.ctl

def acExec (pw : Pid → List Wid) (x : X) (t : Tid) (act : AAct) : Option X :=
  match act.piece with
  | some op => startPiece pw x t op (acEnv t act)
  | none => some ⟨x.base, acEnv t act x.env⟩

/-- One step of a thread inside `as_completed`, between two pieces. -/
def acstep (pw : Pid → List Wid) (x : X) (t : Tid) (a : AC) : Option X :=
  match acPlan a (x.base.T t).script.head? (lastRes x t) x.env.callSt (x.env.lastAlive t) (x.env.acRaced t)
      (decide (x.env.now - x.env.sticker t < x.env.thr)) ((x.env.tcalls t).getLast?.getD 0) with
  | some act => acExec pw x t act
  | none => none

/-- One step of a thread that is inside a composite operation, between two pieces. -/
def cstep (pw : Pid → List Wid) (x : X) (t : Tid) : Ctl → Option X
  | .idle => none
  | .rTick p r => some ⟨x.base, setCtl x.env t (.rCond p r x.env.now)⟩
  | .rCond p r ticker =>
    if x.env.now - ticker < 180 then startPiece pw x t (.aliveWorkers p false) fun e => setCtl e t (.rAlive p r ticker)
    else startPiece pw x t (.aliveWorkers p true) fun e => setCtl e t (.rErr p)
  | .rAlive p r ticker =>
    match lastRes x t with
    | some (.workers (_ :: _)) =>      -- `return`; then `start_time = time.time()` and the first `next_idle_worker`
      startPiece pw x t (.nextIdle p (pw p) true) fun e => setCtl e t (.rNext p r e.now)
    | _ => some ⟨x.base, setCtl x.env t (.rCond p r ticker)⟩      -- `time.sleep(0)`
  | .rErr _ => none
  | .rNext p r st =>                   -- `time.sleep(0)`
    match lastRes x t with
    | some (.worker ow) => some ⟨x.base, setCtl x.env t (.rClockN p r st ow)⟩
    | _ => none
  | .rClockN p r st ow =>
    if x.env.now - st > 180 then startPiece pw x t (.finalize p) fun e => setCtl e t (.fin p .noWorker)
    else match ow with
      | none => startPiece pw x t (.nextIdle p (pw p) true) fun e => setCtl e t (.rNext p r st)
      | some w => startPiece pw x t (.submitW p w 0) fun e => setCtl { e with tcalls := upd e.tcalls t [] } t (.rSub p r w)
  | .rSub p r w =>
    match lastRes x t with
    | some .unit =>                    -- `futures.wait([state])`, then `.result()`, then the `finally`
      if allDone x.env (x.env.tcalls t) then
        startPiece pw x t (.finalize p) fun e =>
          setCtl e t (.fin p (if r || anyFailed e (e.tcalls t) then .raised else .ok))
      else none
    | some (.code 1) =>                -- `time.sleep(0.1)`, then `while time.time() - ticker < self.heartbeat_threshold_secs`
      if x.env.now - x.env.sticker t < x.env.thr then startPiece pw x t (.submitW p w 1) id
      else startPiece pw x t (.finalize p) fun e => setCtl e t (.fin p .disconnected)
    | some (.code _) => startPiece pw x t (.submitW p w 2) id      -- `while not self.has_capacity: time.sleep(0)`
    | _ => none
  | .fin _ _ => none
  | .cAcq p r =>                       -- `start_time = time.time()` of `courier_worker.wait`
    match x.env.tcalls t with
    | [] => startPiece pw x t (.finalize p) fun e => setCtl e t (.fin p (if r then .raised else .ok))
    | ids => some ⟨x.base, setCtl x.env t (.cWait p r ids)⟩
  | .cWait p r todo =>                 -- `task.done()` in the busy loop of `courier_worker.wait`
    match todo with
    | [] => none
    | [i] =>
      if (x.env.callSt i).done then
        startPiece pw x t (.finalize p) fun e =>
          setCtl e t (.fin p (if r || anyFailed e (e.tcalls t) then .raised else .ok))
      else none
    | i :: rest => if (x.env.callSt i).done then some ⟨x.base, setCtl x.env t (.cWait p r rest)⟩ else none
  | .sSub p r w =>
    match lastRes x t with
    | some (.code 1) =>                -- `time.sleep(0.1)`, then the deadline of `wait_until_alive`
      if x.env.now - x.env.sticker t < x.env.thr then startPiece pw x t (.submitW p w 1) id
      else some ⟨x.base, { setCtl x.env t .idle with outs := upd x.env.outs t (x.env.outs t ++ [.disconnected]) }⟩
    | some (.code _) => startPiece pw x t (.submitW p w 2) id      -- `while not self.has_capacity: time.sleep(0)`
    | _ => none
  | .ac a => acstep pw x t a

def popProg (e : Env) (t : Tid) : Env := { e with prog := upd e.prog t (e.prog t).tail }

/-- One step of thread `t` of the product (`none`: blocked or finished). -/
def xstep? (pw : Pid → List Wid) (x : X) (t : Tid) : Option X :=
  match (x.base.T t).cur with
  | some (cl, k) =>
    match cl.pc with
    | .cEnter => ostep pw x t false fun e => setMic e t (.cap (capacity e cl.w))
    | .cExit =>
      match x.env.mic t with
      | .cap b => ostep pw x t b fun e => setMic e t .idle
      | _ => none
    | .iEnter =>
      match x.env.mic t with
      | .strAcq m => if x.env.rl = none then some ⟨x.base, setMic { x.env with rl := some t } t (.strRel m)⟩ else none
      | .strRel m => some ⟨x.base, setMic { x.env with rl := none } t (if m ≤ 1 then .idle else .strAcq (m - 1))⟩
      | _ => ostep pw x t false fun e => afterScan e t cl.w (scan e.callSt (e.clients cl.w).pend [])
    | .iExit =>
      match x.env.mic t with
      | .exit b => ostep pw x t b fun e => afterAliveAC e t k b
      | .foldAcq p todo keep =>
        if x.env.rl = none then
          some ⟨x.base, setMic { x.env with rl := some t, reg := Registry.refresh x.env.reg cl.w p.time } t
            (.foldRel todo keep)⟩
        else none
      | .foldRel todo keep =>
        some ⟨x.base, afterScan { x.env with rl := none } t cl.w (scan x.env.callSt todo keep)⟩
      | .getAcq now0 =>
        if x.env.rl = none then
          some ⟨x.base, setMic { x.env with rl := some t } t (.getRel now0 (Registry.get x.env.reg cl.w))⟩
        else none
      | .getRel now0 last => some ⟨x.base, finishAlive { x.env with rl := none } t cl.w now0 last⟩
      | _ => none
    | .kEnter => ostep pw x t false fun e => submitPlain e t cl.w
    | _ => ostep pw x t false id
  | none =>
    match x.env.ctl t with
    | .idle =>
      match x.env.prog t with
      | .run p r :: _ => some ⟨x.base, setCtl { popProg x.env t with tcalls := upd x.env.tcalls t [] } t (.rTick p r)⟩
      | .callAndWait p r :: _ =>
        startPiece pw x t (.acquireAllCall p) fun e => setCtl { popProg e t with tcalls := upd e.tcalls t [] } t (.cAcq p r)
      | .submitNB p w r :: _ =>
        startPiece pw x t (.submitW p w 0) fun e => setCtl { popProg e t with tcalls := upd e.tcalls t [] } t (.sSub p r w)
      | .asCompleted p tasks ign take fixed :: _ =>      -- the generator's first `next()`: up to the first `worker_pool.workers` (488)
        startPiece pw x t (.aliveWorkers p false) fun e =>
          setCtl { popProg e t with tcalls := upd e.tcalls t [] } t
            (.ac { p := p, ignore := ign, fixed := fixed, take := take, todo := tasks, pc := .alive1 })
      | .prim :: _ =>
        match (x.base.T t).script with
        | _ :: _ => ostep pw x t false fun e => popProg e t
        | [] => none
      | [] =>
        match (x.base.T t).script with
        | _ :: _ => ostep pw x t false id
        | [] => (estep x.env t).map fun e' => ⟨x.base, e'⟩
    | c => cstep pw x t c

/-- Reachability in the product. -/
inductive XReach (pw : Pid → List Wid) (x0 : X) : X → Prop where
  | refl : XReach pw x0 x0
  | step {x x' t} : XReach pw x0 x → xstep? pw x t = some x' → XReach pw x0 x'

/-- Replay a schedule (entries that are not enabled are skipped). -/
def xrun (pw : Pid → List Wid) (x : X) : List Tid → X
  | [] => x
  | t :: ts => xrun pw ((xstep? pw x t).getD x) ts

/-- The registry events the next step of thread `t` performs (each under the registry lock). -/
def regEvents (x : X) (t : Tid) : List Registry.REv :=
  match (x.base.T t).cur with
  | some (cl, _) =>
    match cl.pc, x.env.mic t with
    | .iExit, .foldAcq p _ _ => [.refresh cl.w p.time]
    | _, _ => []
  | none =>
    match x.env.ctl t, x.env.prog t, (x.base.T t).script with
    | .idle, [], [] =>
      match x.env.mic t with
      | .dieAcq w => [.unregister w]
      | .revAcq w tm => [.register w tm]
      | .hbAcq _ w al tm => Registry.heartbeatEvents tm (some w) al
      | _ => []
    | _, _, _ => []

/-- No step of the replayed schedule performs a `register a` (no `revive a`, no delivered
`heartbeat(a, is_alive=True)`). -/
def NoRegister (pw : Pid → List Wid) (a : Wid) : X → List Tid → Prop
  | _, [] => True
  | x, t :: ts =>
    (xstep? pw x t ≠ none → ∀ ev ∈ regEvents x t, ev.registers a = false) ∧
      NoRegister pw a ((xstep? pw x t).getD x) ts

/-- No step of the replayed schedule performs an `unregister a`. -/
def NoUnregister (pw : Pid → List Wid) (a : Wid) : X → List Tid → Prop
  | _, [] => True
  | x, t :: ts =>
    (xstep? pw x t ≠ none → ∀ ev ∈ regEvents x t, ev.unregisters a = false) ∧
      NoUnregister pw a ((xstep? pw x t).getD x) ts

end MlModel.OwnerEnv
