import MlModel.Model.Owner
import MlModel.Model.Registry
/-!
# Ownership LTS × liveness environment (C20, schedule replay) — core Lean only

The product of the ownership LTS (`Model/Owner.lean`) with a concurrent model of what its
capacity / liveness oracle stands for in the real code:

* the process-wide `WorkerRegistry` (`Registry.Reg`, the functions of `Model/Registry.lean`) guarded by
  its own lock `rl` — every `register` / `refresh` / `unregister` / `get` is `acquire RL; release RL`
  (the dictionary access is fused into the acquiring step: nobody else can touch it until the release);
* per worker the client state `_pendings` / `_heartbeat` (`Client`), the transport's calls with
  their status and the queue of undelivered calls (fake courier in *manual* mode: a reply is
  delivered when an environment thread chooses to — late, failed, or never);
* the virtual clock `now` and the heartbeat threshold `thr`;
* **environment threads** running scripts of `EOp`: `die w` (= `unregister`), `revive w`
  (= `register(w, now)`), `send w alive` (a `heartbeat(sender = w, is_alive)` call to the master's
  server, handled by the real `CourierServer._heartbeat` when delivered), `deliver k fail`, `tick d`.

`has_capacity` = `cEnter` (the list comprehension over `_pendings` runs right after the lock is
taken: `Micro.cap b`) ; `cExit` (returns `b`).  `is_alive` = `iEnter` (take `_states_lock`, start the
loop of `_is_heartbeat_fresh`) ; for every finished pending call that did not fail `acquire RL`
(`refresh`) ; `release RL` ; then `acquire RL` (`get`) ; `release RL` (verdict `now₀ - last < thr`,
where `now₀` was read before the `get`; on a negative verdict `_check_heartbeat` may send a ping,
which occupies the worker's only slot until it is delivered) ; `iExit` (returns the verdict).
While a thread is between `iEnter` and `iExit` its `Owner` program point does not move: the
registry-lock steps are *stuttering* steps for the ownership LTS, and the value finally returned is
the `Owner` oracle's value at `cExit` / `iExit` — so every execution of the product projects to an
execution of `Owner` (`Lemmas/OwnerEnv.lean: XReach_base`) and inherits all its theorems.

`xstep?` is deterministic once the thread is chosen: a schedule `List Tid` replays exactly
(`xrun`); the harness compares labels, enabled sets and outcomes with the real code step by step.
-/
namespace MlModel.OwnerEnv
open MlModel.Owner

abbrev Time := Registry.Time

/-- status of a call's future -/
inductive CSt where
  | queued | ok | failed
  deriving DecidableEq, Repr

def CSt.done : CSt → Bool
  | .queued => false
  | _ => true

inductive Meth where
  | plain (w : Wid)                 -- `worker.call(..)`: an ordinary RPC to worker `w`
  | ping (w : Wid)                  -- `_check_heartbeat`: `heartbeat()` to worker `w` (no sender)
  | hb (w : Wid) (alive : Bool)     -- `heartbeat(sender = w, is_alive)` to the master's server
  deriving DecidableEq, Repr

/-- `StateWithTime`: call id and *send* time. -/
structure Pend where
  call : Nat
  time : Time
  deriving DecidableEq, Repr

structure Client where
  pend : List Pend := []
  hb : Option Pend := none
  deriving Repr

/-- operations of environment threads -/
inductive EOp where
  | die (w : Wid)                       -- `worker_registry().unregister(addr_w)`
  | revive (w : Wid)                    -- `worker_registry().register(addr_w, time.time())`
  | send (w : Wid) (alive : Bool)       -- submit `heartbeat(addr_w, alive)` to the master (delivered later)
  | deliver (k : Nat) (fail : Bool)     -- the transport delivers (or fails) the k-th queued call now
  | tick (d : Nat)                      -- the clock advances
  deriving DecidableEq, Repr

/-- Thread-local state between two yield points (inside `has_capacity` / `is_alive` / an environment op). -/
inductive Micro where
  | idle
  | cap (b : Bool)                                  -- `pendings` computed; about to release `_states_lock`
  | foldAcq (p : Pend) (todo keep : List Pend)      -- about to `refresh(addr, p.time)`: acquire RL
  | foldRel (todo keep : List Pend)                 -- inside `refresh`: about to release RL
  | getAcq (now0 : Time)                            -- clock read; about to `get`: acquire RL
  | getRel (now0 last : Time)                       -- inside `get`: about to release RL
  | exit (b : Bool)                                 -- verdict known; about to release `_states_lock`
  | dieAcq (w : Wid) | dieRel
  | revAcq (w : Wid) (t : Time) | revRel
  | hbAcq (id : Nat) (w : Wid) (alive : Bool) (t : Time) | hbRel (id : Nat)
  deriving DecidableEq, Repr

structure Env where
  reg : Registry.Reg := Registry.Reg.empty
  rl : Option Tid := none                  -- holder of `WorkerRegistry._lock`
  now : Time := 0
  thr : Time := 0
  calls : List (Meth × CSt) := []          -- index = call id
  queue : List Nat := []                   -- undelivered calls in submission order
  clients : Wid → Client := fun _ => {}
  mic : Tid → Micro := fun _ => .idle
  escript : Tid → List EOp := fun _ => []

def Env.callSt (e : Env) (i : Nat) : CSt := (e.calls[i]?.map (·.2)).getD .queued

def setMic (e : Env) (t : Tid) (m : Micro) : Env := { e with mic := upd e.mic t m }

/-- `has_capacity` with `max_parallelism = 1`: `len([p for p in self._pendings if not p.state.done()]) < 1`. -/
def capacity (e : Env) (w : Wid) : Bool :=
  decide (((e.clients w).pend.filter fun p => !(e.callSt p.call).done).length < 1)

/-- The loop of `_is_heartbeat_fresh` (courier_utils.py:618–629) from its current position: skip
failed calls, keep unfinished ones, stop at the first finished call that did not fail (it is
`refresh`ed next). -/
def scan (st : Nat → CSt) : List Pend → List Pend → Option (Pend × List Pend) × List Pend
  | [], keep => (none, keep)
  | p :: ps, keep =>
    match st p.call with
    | .ok => (some (p, ps), keep)
    | .failed => scan st ps keep
    | .queued => scan st ps (keep ++ [p])

/-- Position reached by the loop: either the next `refresh`, or its end (`self._pendings = still_pendings`,
`time.time()` read, about to call `get`). -/
def afterScan (e : Env) (t : Tid) (w : Wid) (r : Option (Pend × List Pend) × List Pend) : Env :=
  match r with
  | (some (p, rest), keep) => setMic e t (.foldAcq p rest keep)
  | (none, keep) =>
    setMic { e with clients := upd e.clients w { e.clients w with pend := keep } } t (.getAcq e.now)

def Env.submit (e : Env) (m : Meth) : Env × Nat :=
  ({ e with calls := e.calls ++ [(m, .queued)], queue := e.queue ++ [e.calls.length] }, e.calls.length)

/-- `_check_heartbeat` (courier_utils.py:568–583) sends a ping iff none was sent yet, or the last one
is finished and older than the heartbeat interval. -/
def needPing (e : Env) (w : Wid) : Bool :=
  match (e.clients w).hb with
  | none => true
  | some h => (e.callSt h.call).done && decide (e.now - h.time > Registry.hbInterval)

/-- The ping: a new call, remembered as `_heartbeat` and in `_pendings` (it occupies the worker's slot). -/
def pingEnv (e : Env) (w : Wid) : Env :=
  { e with calls := e.calls ++ [(.ping w, .queued)], queue := e.queue ++ [e.calls.length],
           clients := upd e.clients w { pend := (e.clients w).pend ++ [⟨e.calls.length, e.now⟩],
                                        hb := some ⟨e.calls.length, e.now⟩ } }

/-- After `get`: the verdict (courier_utils.py:630) and, if negative, `_check_heartbeat`. -/
def finishAlive (e : Env) (t : Tid) (w : Wid) (now0 last : Time) : Env :=
  if Registry.fresh now0 last e.thr then setMic e t (.exit true)
  else setMic (if needPing e w then pingEnv e w else e) t (.exit false)

/-- `worker.call(..)` inside its `with self._states_lock:` (courier_utils.py:652–656). -/
def submitPlain (e : Env) (w : Wid) : Env :=
  { e with calls := e.calls ++ [(.plain w, .queued)], queue := e.queue ++ [e.calls.length],
           clients := upd e.clients w { e.clients w with pend := (e.clients w).pend ++ [⟨e.calls.length, e.now⟩] } }

def setCall (e : Env) (id : Nat) (s : CSt) : Env :=
  { e with calls := e.calls.modify id fun c => (c.1, s) }

/-- Begin an environment operation (everything up to its first lock operation). -/
def startE (e : Env) (t : Tid) : EOp → Env
  | .die w => setMic e t (.dieAcq w)
  | .revive w => setMic e t (.revAcq w e.now)
  | .send w al => (e.submit (.hb w al)).1
  | .tick d => { e with now := e.now + d }
  | .deliver k fail =>
    match e.queue with
    | [] => e
    | q =>
      let j := k % q.length
      let id := q.getD j 0
      let e1 := { e with queue := q.eraseIdx j }
      if fail then setCall e1 id .failed
      else match e.calls[id]? with
        | some (.hb w al, _) => setMic e1 t (.hbAcq id w al e.now)
        | _ => setCall e1 id .ok

/-- One step of an environment thread. -/
def estep (e : Env) (t : Tid) : Option Env :=
  match e.mic t with
  | .dieAcq w =>
    if e.rl = none then some (setMic { e with rl := some t, reg := Registry.unregister e.reg w } t .dieRel) else none
  | .dieRel => some (setMic { e with rl := none } t .idle)
  | .revAcq w tm =>
    if e.rl = none then some (setMic { e with rl := some t, reg := Registry.register e.reg w tm } t .revRel) else none
  | .revRel => some (setMic { e with rl := none } t .idle)
  | .hbAcq id w al tm =>
    if e.rl = none then
      some (setMic { e with rl := some t, reg := Registry.run e.reg (Registry.heartbeatEvents tm (some w) al) } t (.hbRel id))
    else none
  | .hbRel id => some (setMic (setCall { e with rl := none } id .ok) t .idle)
  | .idle =>
    match e.escript t with
    | [] => none
    | op :: s => some (startE { e with escript := upd e.escript t s } t op)
  | _ => none

structure X where
  base : Cfg
  env : Env

/-- An `Owner` step of thread `t` under the oracle value `b`, with an update of the environment. -/
def ostep (pw : Pid → List Wid) (x : X) (t : Tid) (b : Bool) (f : Env → Env) : Option X :=
  (step? pw (fun _ => b) x.base t).map fun c' => ⟨c', f x.env⟩

/-- One step of thread `t` of the product (`none`: blocked or finished). -/
def xstep? (pw : Pid → List Wid) (x : X) (t : Tid) : Option X :=
  match (x.base.T t).cur with
  | some (cl, _) =>
    match cl.pc with
    | .cEnter => ostep pw x t false fun e => setMic e t (.cap (capacity e cl.w))
    | .cExit =>
      match x.env.mic t with
      | .cap b => ostep pw x t b fun e => setMic e t .idle
      | _ => none
    | .iEnter => ostep pw x t false fun e => afterScan e t cl.w (scan e.callSt (e.clients cl.w).pend [])
    | .iExit =>
      match x.env.mic t with
      | .exit b => ostep pw x t b fun e => setMic e t .idle
      | .foldAcq p todo keep =>
        if x.env.rl = none then
          some ⟨x.base, setMic { x.env with rl := some t, reg := Registry.refresh x.env.reg cl.w p.time } t
            (.foldRel todo keep)⟩
        else none
      | .foldRel todo keep =>
        some ⟨x.base, afterScan { x.env with rl := none } t cl.w (scan x.env.callSt todo keep)⟩
      | .getAcq now0 =>
        if x.env.rl = none then
          some ⟨x.base, setMic { x.env with rl := some t } t (.getRel now0 (Registry.get x.env.reg cl.w))⟩
        else none
      | .getRel now0 last => some ⟨x.base, finishAlive { x.env with rl := none } t cl.w now0 last⟩
      | _ => none
    | .kEnter => ostep pw x t false fun e => submitPlain e cl.w
    | _ => ostep pw x t false id
  | none =>
    match (x.base.T t).script with
    | _ :: _ => ostep pw x t false id
    | [] => (estep x.env t).map fun e' => ⟨x.base, e'⟩

/-- Reachability in the product. -/
inductive XReach (pw : Pid → List Wid) (x0 : X) : X → Prop where
  | refl : XReach pw x0 x0
  | step {x x' t} : XReach pw x0 x → xstep? pw x t = some x' → XReach pw x0 x'

/-- Replay a schedule (entries that are not enabled are skipped). -/
def xrun (pw : Pid → List Wid) (x : X) : List Tid → X
  | [] => x
  | t :: ts => xrun pw ((xstep? pw x t).getD x) ts

/-- The registry events the next step of thread `t` performs (each under the registry lock). -/
def regEvents (x : X) (t : Tid) : List Registry.REv :=
  match (x.base.T t).cur with
  | some (cl, _) =>
    match cl.pc, x.env.mic t with
    | .iExit, .foldAcq p _ _ => [.refresh cl.w p.time]
    | _, _ => []
  | none =>
    match (x.base.T t).script with
    | _ :: _ => []
    | [] =>
      match x.env.mic t with
      | .dieAcq w => [.unregister w]
      | .revAcq w tm => [.register w tm]
      | .hbAcq _ w al tm => Registry.heartbeatEvents tm (some w) al
      | _ => []

/-- No step of the replayed schedule performs a `register a` (no `revive a`, no delivered
`heartbeat(a, is_alive=True)`). -/
def NoRegister (pw : Pid → List Wid) (a : Wid) : X → List Tid → Prop
  | _, [] => True
  | x, t :: ts =>
    (xstep? pw x t ≠ none → ∀ ev ∈ regEvents x t, ev.registers a = false) ∧
      NoRegister pw a ((xstep? pw x t).getD x) ts

/-- No step of the replayed schedule performs an `unregister a`. -/
def NoUnregister (pw : Pid → List Wid) (a : Wid) : X → List Tid → Prop
  | _, [] => True
  | x, t :: ts =>
    (xstep? pw x t ≠ none → ∀ ev ∈ regEvents x t, ev.unregisters a = false) ∧
      NoUnregister pw a ((xstep? pw x t).getD x) ts

end MlModel.OwnerEnv
