import MlModel.Model.Tree
/-!
# `tree._is_key` made explicit: reserved keys vs plain strings of the same spelling (work package SC18)

`Key.SELF` / `Key.SKIP` are instances of `Reserved`, a subclass of `str`: `Reserved('SELF') == 'SELF'` and both hash
alike.  tree.py recognises them with

```
def _is_key(key, other_key):                                     # tree.py:205-206
  return isinstance(key, type(other_key)) and key == other_key
```

i.e. by TYPE and value.  `Model/Tree.lean` folds that test into pattern matching on the constructors `PKey.self` /
`PKey.skip` (a plain string spelled "SELF" is `PKey.str "SELF"`, another constructor).  This file writes the test
out — Python types of key objects (`KType`), `isinstance` along the two subclass edges, `==` on key objects — and
re-states `__get`, `_default_tree` and `_set_by_path` with an explicit call of a key-recognition predicate `isk`
at every place where the Python calls `_is_key` (tree.py:280, 283, 389, 460, 463, 486).  `Lemmas/TreeReserved.lean`
proves that with `isk = isKey` (the shipped predicate) these are exactly `getCore` / `defaultTree` / `setPath`, the
functions every C18 theorem is about; with `isk = isKeyByValue` (compare by str value only: the seeded change
C18-m3) they are an implementation that takes an ordinary mapping key spelled 'SELF' / 'SKIP' for the reserved key,
and that implementation violates get-after-set, the frame condition and the read-back of listed paths
(`C18_reserved_vs_plain_by_value_*`).
-/
namespace MlModel.Tree

/-- The Python type of a key object, as far as `isinstance` can tell key objects apart. -/
inductive KType where
  | str | reserved | int | index | literal | other
  deriving DecidableEq, Repr, Inhabited

/-- `type(k)` -/
def PKey.pyType : PKey → KType
  | .str _ => .str
  | .idx _ => .index
  | .int _ => .int
  | .self => .reserved
  | .skip => .reserved
  | .lit _ _ => .literal
  | .obj _ => .other

/-- `issubclass(a, b)`: `class Reserved(str)` (tree.py:63), `class Index(int)` (tree.py:42), nothing else. -/
def KType.sub : KType → KType → Bool
  | .reserved, .str => true
  | .index, .int => true
  | .str, .str | .reserved, .reserved | .int, .int | .index, .index | .literal, .literal | .other, .other => true
  | _, _ => false

/-- `a == b` on key objects: `str.__eq__` on the characters (`Reserved` inherits it), `int.__eq__` on the value
(`Index` inherits it), `Literal` has no `__eq__` (identity).  This is the equivalence a dict lookup uses, which
`PKey.toDKey` computes a normal form of. -/
def PKey.pyEq (a b : PKey) : Bool := decide (a.toDKey = b.toDKey)

/-- `_is_key(key, other_key)` as shipped (tree.py:205-206): `isinstance(key, type(other_key)) and key == other_key`. -/
def isKey (key other : PKey) : Bool := key.pyType.sub other.pyType && key.pyEq other

/-- The seeded variant C18-m3: `isinstance(key, str) and key == other_key` — by str VALUE. -/
def isKeyByValue (key other : PKey) : Bool := key.pyType.sub .str && key.pyEq other

/-- `TreeMapView.__get` (tree.py:384-401) with the `_is_key(k, Key.SELF)` test of line 389 explicit. -/
def getCoreK (isk : PKey → PKey → Bool) (h : Heap) : Ref → Path → Except ErrKind (Ref × Bool)
  | r, [] => .ok (r, true)
  | r, k :: ks =>
    if isk k .self then .ok (r, true)                      -- if _is_key(k, Key.SELF): return self._maybe_map(data)
    else match k with
      | .lit _ v => .ok (v, false)                         -- if isinstance(k, Literal): return k.value
      | _ =>
        match index h r k with
        | .ok c => getCoreK isk h c ks
        | .error e => .error e

/-- `__get` of a view without `map_fn`. -/
def getK (isk : PKey → PKey → Bool) (h : Heap) (r : Ref) (p : Path) : Except ErrKind Ref :=
  (getCoreK isk h r p).map (·.1)

/-- `_default_tree` (tree.py:275-296).  The two reserved arms are guarded by the class pattern `Reserved() as key`
(a TYPE test the seeded change does not touch) AND `_is_key`. -/
def defaultTreeK (isk : PKey → PKey → Bool) (h : Heap) : Path → Ref → Res Ref
  | [], v => (h, .ok v)
  | k :: rest, v =>
    if k.pyType.sub .reserved && isk k .self then (h, .ok v)                                    -- line 280
    else if k.pyType.sub .reserved && isk k .skip then let (h1, r) := alloc h .null; (h1, .ok r) -- line 283
    else match k with
      | .idx i =>
        if i = 0 then
          match defaultTreeK isk h rest v with
          | (h1, .ok c) => let (h2, r) := alloc h1 (.list [c]); (h2, .ok r)
          | (h1, .error e) => (h1, .error e)
        else (h, .error .value)
      | _ =>
        match defaultTreeK isk h rest v with
        | (h1, .ok c) => let (h2, r) := alloc h1 (.dict [(k.toDKey, c)]); (h2, .ok r)
        | (h1, .error e) => (h1, .error e)

/-- `_set_by_path` (tree.py:449-511) with the `_is_key` tests of lines 460 and 463 explicit.  (The arm
`case (Reserved() as reserved, *_): if _is_key(reserved, _SKIP): pass` of line 485 is unreachable for both predicates
of this file: a `Reserved` object is `SELF` or `SKIP` and is accepted by line 460 or 463 — `isKey_reserved_handled`.) -/
def setPathK (isk : PKey → PKey → Bool) (strict inPlace : Bool) (h : Heap) (tree : Ref) : Path → Ref → Res Ref
  | [], v => (h, .ok v)                                   -- key_path == Key()
  | k :: rest, v =>
    if isk k .self then (h, .ok v)                        -- _is_key(key_path[0], _SELF)
    else if isk k .skip then (h, .ok tree)                -- _is_key(key_path[0], _SKIP)
    else
    match h[tree]? with
    | none => (h, .error .other)
    | some .null =>
      if strict then (h, .error .value) else defaultTreeK isk h (k :: rest) v
    | some (.leaf _) => (h, .error .type)
    | some (.tuple rs) =>
      if inPlace then (h, .error .type)
      else
        let (h1, res) := alloc h (.list rs)
        match setSeq (fun h' c => setPathK isk strict inPlace h' c rest v) h1 res rs k with
        | (h2, .ok ()) =>
          match h2[res]? with
          | some (.list rs') => let (h3, r) := alloc h2 (.tuple rs'); (h3, .ok r)
          | _ => (h2, .error .other)
        | (h2, .error e) => (h2, .error e)
    | some (.list rs) =>
      let (h1, res) := if inPlace then (h, tree) else alloc h (.list rs)
      match setSeq (fun h' c => setPathK isk strict inPlace h' c rest v) h1 res rs k with
      | (h2, .ok ()) => (h2, .ok res)
      | (h2, .error e) => (h2, .error e)
    | some (.dict es) =>
      let (h1, res) := if inPlace then (h, tree) else alloc h (.dict es)
      match setMap (fun h' c => setPathK isk strict inPlace h' c rest v) h1 res es k with
      | (h2, .ok ()) => (h2, .ok res)
      | (h2, .error e) => (h2, .error e)
    | some (.nd b off shape) =>
      setNd (fun h' c => setPathK isk strict inPlace h' c rest v) inPlace h tree b off shape k
    | some (.buf _) => (h, .error .other)

/-- `items()` of a view whose `__get` recognises reserved keys with `isk` (the enumeration `_dfs_iter_tree` calls no
`_is_key`). -/
def itemsK (isk : PKey → PKey → Bool) (h : Heap) (root : Ref) : Except ErrKind (List (Path × Ref)) :=
  match keysOf h root with
  | .error e => .error e
  | .ok ps => ps.mapM fun p => (getK isk h root p).map fun r => (p, r)

end MlModel.Tree
