/-!
# The client loop's interpretation of the values on the wire (value level)

`CourierClient.async_iterate` (ml_metrics/_src/utils/courier_utils.py:757-779), line by line:

```
for elem in output_batch:
  if not isinstance(elem, Exception):          -- (1) an element: yield it
    yield elem; batch_cnt += 1; continue
  if iter_utils.is_stop_iteration(elem):       -- (2) the end marker: put `elem.value` on the result queue
    exhausted = True
    generator_result_queue.put(returned := elem.value)
  elif elem != ValueError('generator already executing'):   -- (3) any other exception instance
    raise elem
```
inside `while not exhausted:` (one `next_batch_from_generator` call per round), and the server side that produces the
terminal marker: `IteratorQueue.enqueue_from_iterator` (iter_utils.py:832-858: `except StopIteration as e:
self._stop_enqueue(*e.args)`; any other `Exception` is stored) and `_next_batch` (courier_server.py:465-477:
`result.append(e)` / `result.append(StopIteration(*generator.returned))`).

The LTS `Model/Prefetch.lean` abstracts an exception to its kind and an element to a number; HERE the values are
concrete: an element is any Python value — possibly itself an exception INSTANCE —, a marker is an exception instance
with its class and arguments.  The comparison in (3) is a parameter `ne` of the interpretation:
* `pyNe` — what Python does: `BaseException` defines no `__eq__`, so `!=` is identity, and the right operand is a
  freshly constructed object: the comparison is ALWAYS true (every non-StopIteration exception is raised);
* `neByValue` — the seeded change C15-m4 ("compare type and args"), kept as a second instance for the witness.
Core Lean only.
-/
namespace MlModel.PrefetchClient

/-- the class of an exception instance, as far as `isinstance` / `except` clauses of the protocol code can tell -/
inductive ExcClass where
  | stopIteration       -- `StopIteration` (and subclasses)
  | other (name : String)
  deriving DecidableEq, Repr, Inhabited

/-- an exception instance as it travels (pickled: class + args); `args` are canonical encodings of the arguments -/
structure Exc where
  cls : ExcClass
  args : List String
  deriving DecidableEq, Repr, Inhabited

/-- a value in a batch -/
inductive Val where
  /-- not an `Exception` instance (canonical encoding of the value) -/
  | plain (v : String)
  /-- an `Exception` instance -/
  | exc (e : Exc)
  deriving DecidableEq, Repr, Inhabited

def Val.isPlain : Val → Bool
  | .plain _ => true
  | .exc _ => false

/-- how the iterator handed to `init_generator` ends -/
inductive Fin where
  /-- `raise StopIteration(*args)` from `__next__` / `return v` of a generator (`args = [v]`) -/
  | ret (args : List String)
  /-- `__next__` raises this exception instance -/
  | raise (e : Exc)
  deriving DecidableEq, Repr, Inhabited

/-- the terminal marker the server sends for a generator that ended with `fin`
(iter_utils.py:835-842 `except StopIteration as e: self._stop_enqueue(*e.args)`, else `self._exception = e`;
courier_server.py:465-477) -/
def serverMarker : Fin → Exc
  | .ret args => { cls := .stopIteration, args := args }
  | .raise e => if e.cls = .stopIteration then { cls := .stopIteration, args := e.args } else e

/-- state of the client loop -/
structure Client where
  yielded : List Val := []
  /-- what was put on `generator_result_queue` (`elem.value`: the first argument, `none` = `None`) -/
  returned : List (Option String) := []
  exhausted : Bool := false
  raised : Option Exc := none
  deriving DecidableEq, Repr, Inhabited

def Client.live (st : Client) : Bool := !st.exhausted && st.raised.isNone

/-- `elem != ValueError('generator already executing')` as Python evaluates it: always true -/
def pyNe : Exc → Bool := fun _ => true

/-- the string literal of courier_utils.py:778 in canonical encoding -/
def gaeArg : String := "\"generator already executing\""

/-- the seeded variant: unequal unless a `ValueError` with exactly that argument -/
def neByValue : Exc → Bool := fun e => !(e.cls = .other "ValueError" && e.args = [gaeArg])

/-- one iteration of `for elem in output_batch` (a raise leaves the loop: later elements are not looked at) -/
def stepElem (ne : Exc → Bool) (st : Client) (v : Val) : Client :=
  if st.raised.isSome then st else
  match v with
  | .plain _ => { st with yielded := st.yielded ++ [v] }
  | .exc e =>
    if e.cls = .stopIteration then { st with exhausted := true, returned := st.returned ++ [e.args.head?] }
    else if ne e then { st with raised := some e }
    else st

def interpBatch (ne : Exc → Bool) (st : Client) (batch : List Val) : Client := batch.foldl (stepElem ne) st

/-- `while not exhausted:` over the replies of successive `next_batch_from_generator` calls -/
def runClient (ne : Exc → Bool) : Client → List (List Val) → Client
  | st, [] => st
  | st, b :: rest => if st.live then runClient ne (interpBatch ne st b) rest else st

/-- the replies of a server with requested batch size `b ≥ 1` for a generator that yields `ys` and ends with `fin`
(`get_batch(b, block=True, keep_partial=True)`: full chunks of `b`; the terminal marker is appended to the last
chunk when the queue is already exhausted at that moment — always when that chunk is short — or sent alone by the
next call: `attach` is that scheduling choice for a full last chunk) -/
def chunks (b : Nat) : Nat → List Val → List (List Val)
  | 0, _ => []
  | _, [] => []
  | fuel + 1, ys => ys.take (max b 1) :: chunks b fuel (ys.drop (max b 1))

def replies (b : Nat) (attach : Bool) (ys : List Val) (fin : Fin) : List (List Val) :=
  let cs := chunks b (ys.length + 1) ys
  let m := Val.exc (serverMarker fin)
  match cs.getLast? with
  | none => [[m]]
  | some last =>
    if last.length < max b 1 || attach then cs.dropLast ++ [last ++ [m]] else cs ++ [[m]]

end MlModel.PrefetchClient
