import MlModel.Model.Queue
/-!
# The IteratorQueue LTS with an interrupted consumer (round 8, properties C05 / C13)

Layer on top of `Model/Queue.lean` (not edited): the same configurations and the same steps, plus two events of a
consumer thread (`get` loop / `get_batch` loop = `DequeueIterator`), which together are what
`MultiplexIterator.__next__` does when an asynchronous exception (KeyboardInterrupt) is raised inside
`next(self._iterator)` (ml_metrics/_src/utils/iter_utils.py, `__next__`: every `except` clause calls
`self.maybe_stop()` and re-raises):

* `interrupt` — the consumer's pending operation raises instead of being executed.  The exception propagates
  through the `with self._dequeue_lock:` / `finally: self._states_lock.release()` blocks of `get_batch` / `get` /
  `get_nowait`, which release what the thread holds.  Those releases are the releases of the consumer's own error
  path, so the event is a *jump* to the program point of that path that owns exactly the same locks, with the
  exception in flight (`x := err other`; `ErrKind.other` stands for KeyboardInterrupt):
  holding the dequeue lock and the states lock → `nRelErr` (release the states lock, then `bRaise` / `gRaise`);
  holding the dequeue lock → `bRaise` / `gRaise` (release it, leave the loop); holding nothing → `done`;
  parked in `Condition.wait()` → enabled when the dequeue lock is free: `wait()` re-acquires the lock and leaves the
  waiter list (as a timeout does) before the exception propagates.  Elements dequeued by the interrupted call are
  dropped (ghost `lost`).
  With `ignore_error = False` and `keep_partial = False` (what `piter_multiplex` / `MultiplexIterator` use) the
  `except Exception` clause of `get_batch`, which a KeyboardInterrupt by-passes, re-raises anyway, so both paths
  perform the same synchronisation operations.
  NOT deliverable (`intrThread = none`): at a lock `release` (an asynchronous exception between the entry of `__exit__` /
  `finally:` and the release strands the lock whatever the Python code does) and inside `_release_and_notify`'s
  `with notify:` block (`bR1 bR2 gR1 gR2 bE2`: the unwinding there re-acquires the dequeue lock, a blocking step
  that has no counterpart among the program points; checked on the real code by the scheduler only).
* `handler` — a consumer that has left its loop (by the interrupt, by a failure or by `StopIteration`) goes on with
  `maybe_stop()`: it becomes a `stopper none` at `mAcq`.
-/
namespace MlModel.QueueIntr
open MlModel.Queue

/-- the exception raised by the interrupt -/
def intrRaise : Raise := .err .other

/-- the interrupt event of thread `tid` (state `t`): `none` = not deliverable here -/
def intrThread (s : Shared) (t : Thread) (tid : Tid) : Option (Shared × Thread) :=
  match t.pc with
  -- holding nothing: the call is left at once (`bR4` / `gR4`: the `finally: lock.acquire()` of `_release_and_notify`)
  | .bAcq | .bE1 | .bR4 =>
    some ({ s with lost := s.lost ++ t.result }, { t with pc := .done, outcome := some intrRaise, result := [] })
  | .gAcq => some (s, { t with pc := .done, outcome := some intrRaise })
  | .gR4 => some ({ s with lost := s.lost ++ [t.v] }, { t with pc := .done, outcome := some intrRaise })
  -- holding the dequeue lock
  | .nAcq .batch | .bEmp | .bWait => some (s, { t with pc := .bRaise, x := intrRaise })
  | .nAcq .get | .gWait => some (s, { t with pc := .gRaise, x := intrRaise })
  -- holding the dequeue lock and the states lock (inside `get_nowait`)
  | .nGet c | .nNaErr c => some (s, { t with pc := .nRelErr c, x := intrRaise })
  | .nEmp c | .nNaOk c => some ({ s with lost := s.lost ++ [t.v] }, { t with pc := .nRelErr c, x := intrRaise })
  -- parked in `Condition.wait()`
  | .bWake =>
    if s.deqOwner.isSome then none else
    some ({ s with deqOwner := some tid, deqWait := s.deqWait.erase tid, deqNotified := s.deqNotified.erase tid },
          { t with pc := .bRaise, x := intrRaise })
  | .gWake =>
    if s.deqOwner.isSome then none else
    some ({ s with deqOwner := some tid, deqWait := s.deqWait.erase tid, deqNotified := s.deqNotified.erase tid },
          { t with pc := .gRaise, x := intrRaise })
  | _ => none

def isConsProg : Prog → Bool
  | .getLoop | .batchLoop _ _ => true
  | _ => false

/-- `MultiplexIterator.__next__`'s handler: the iteration has ended, `maybe_stop()` follows -/
def handlerThread (t : Thread) : Option Thread :=
  if isConsProg t.prog && t.pc == .done then some { t with prog := .stopper none, pc := .mAcq, result := [] } else none

inductive Choice where
  | run (alt : Bool)
  | interrupt
  | handler
  deriving DecidableEq, Repr

/-- One scheduler choice of the extended LTS. -/
def step (c : Cfg) (tid : Tid) (ch : Choice) : Option (String × Cfg) :=
  match ch with
  | .run alt => Queue.step c tid alt
  | .interrupt =>
    match c.ths[tid]? with
    | none => none
    | some t =>
      match intrThread c.sh t tid with
      | none => none
      | some (s', t') => some ("interrupt", { sh := s', ths := c.ths.set tid t' })
  | .handler =>
    match c.ths[tid]? with
    | none => none
    | some t =>
      match handlerThread t with
      | none => none
      | some t' => some ("handler", { c with ths := c.ths.set tid t' })

def choices : List Choice := [.run false, .run true, .interrupt, .handler]

def enabled (c : Cfg) : List (Tid × Choice) :=
  (List.range c.ths.length).flatMap fun tid =>
    (choices.filter fun ch => (step c tid ch).isSome).map fun ch => (tid, ch)

def replay : Cfg → List (Tid × Choice) → Option Cfg
  | c, [] => some c
  | c, (tid, ch) :: rest =>
    match step c tid ch with
    | none => none
    | some (_, c') => replay c' rest

end MlModel.QueueIntr
